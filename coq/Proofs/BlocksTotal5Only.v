(* Proofs/BlocksTotal5Only.v — totality of the block phase, fifth round: the list of what REMAINS as a theorem.

   The walk of this file is an `only` walk (Proofs/BlocksTotal4Safe.v): al = only (tree_sites ++ cur_sites ++ rem_sites)
   allows exactly the sites of that list, so it proves that parse_blocks panics NOWHERE ELSE.  It needs no invariant:
   every Panic literal of Model/Blocks.v, Model/RefDef.v, Model/FrontMatter.v, Model/ListMarker.v and the leaf functions
   is either in the list (checked by computation at each occurrence: a forgotten site breaks the proof) or belongs to
   a leaf function that is total for ALL arguments (trim / ltrim / rtrim, unescape with shift_buf_left, the entity
   decoder unescape_html, manual_scan_link_url, table.rs row / matches: Props/StrLeaf.v, Proofs/BlocksTotal4Row.v).
   Intersected with the tree walk and the cursor walk (sg_and) and with the fuel walk of this round:

     parse_blocks_ok_or_rem   parse_blocks o x = Ok r, or Panic s with s in rem_sites — every input, every option set

   rem_sites is the exact list of the Panic sites not yet excluded (35 strings, pinned in Props/Blocks.v). *)
From Coq Require Import List NArith Arith Bool Lia Strings.String.
From V Require Import Base.Bytes Base.Res Gen.Nodes Gen.BlocksConst Gen.FeedConst Model.Ast Model.Strings Model.Entity Model.LinkUrl Model.ListMarker
  Model.Feed Model.FrontMatter Model.RefDef Model.Scan Model.Blocks Spec.EscapeSpec
  Proofs.StrLeafProofs Proofs.StrLeafEntity Proofs.StrLeafParse Proofs.BlocksProofs Proofs.BlocksCursor Proofs.BlocksTotal
  Proofs.BlocksTotal2Safe Proofs.BlocksTotal3Cur Proofs.BlocksTotal4Safe Proofs.BlocksTotal4Frame.
From V Require Proofs.BlocksTotal4Row Proofs.BlocksTotal3Tab Proofs.BlocksTotal4Line Proofs.BlocksTotal5Loop.
Import ListNotations.
Local Open Scope string_scope.
Local Open Scope list_scope.

(* the Panic sites that are excluded by no walk yet *)
Definition rem_sites : list string :=
  [ (* open spine *)
    "mod.rs:finalize_borrowed:assert!(ast.open)";
    "mod.rs:add_line:assert!(ast.open)";
    "mod.rs:add_text_to_container:self.finalize(self.current).unwrap()";
    "mod.rs:add_child:self.finalize(parent).unwrap()";
    (* UTF-8 *)
    "mod.rs:add_line:str::from_utf8(&line[self.offset..]).unwrap()";
    "mod.rs:handle_alert:String::from_utf8(tmp).unwrap()";
    "mod.rs:handle_footnote:str::from_utf8(c).unwrap()";
    "mod.rs:finalize_borrowed:String::from_utf8(tmp).unwrap()";
    "mod.rs:resolve_reference_link_definitions:content[seeked..]";
    "inlines.rs:link_label:str::from_utf8(raw_label).unwrap()";
    "mod.rs:parse_reference_inline:String::from_utf8(clean_url).unwrap()";
    "mod.rs:parse_reference_inline:String::from_utf8(clean_title).unwrap()";
    "table.rs:try_inserting_table_header_paragraph:String::from_utf8(paragraph_content).unwrap()";
    "strings.rs:split_off_front_matter:slice_from";
    "strings.rs:split_off_front_matter:slice_to";
    "strings.rs:line_at:slice";
    (* values stored in the tree / the state *)
    "mod.rs:add_child:assert!(start_column > 0)";
    "mod.rs:parse_html_block_prefix:unreachable!()";
    "mod.rs:finalize_borrowed:self.line_number - 1";
    "mod.rs:finalize_borrowed:assert!(pos < content.len())";
    "mod.rs:finalize_borrowed:content.as_bytes()[pos]";
    "table.rs:try_inserting_table_header_paragraph:content[..paragraph_offset]";
    "table.rs:try_inserting_table_header_paragraph:container_ast.line_offsets[n]";
    "table.rs:try_inserting_table_header_paragraph:start.line + newlines - 1";
    "table.rs:try_opening_header:start.column + cell.start_offset - header_row.paragraph_offset";
    "table.rs:try_opening_header:cell.end_offset - header_row.paragraph_offset";
    "table.rs:try_opening_header:start.column + cell.start_offset - 1";
    "table.rs:try_opening_header:.. + cell.internal_offset - header_row.paragraph_offset";
    "table.rs:try_opening_header:content.len() - 2";
    "table.rs:try_opening_header:content.len() - 2 - header_row.paragraph_offset";
    "table.rs:try_opening_row:sourcepos.start.column + cell.start_offset - 1";
    "inlines.rs:peek_char_n:assert!(*c > 0)";
    (* leaf functions whose unconditional totality is refuted (Props/StrLeaf.v) *)
    "strings.rs:remove_trailing_blank_lines:line.len() - 1";
    "strings.rs:chop_trailing_hashtags:line.len() - 1";
    "strings.rs:chop_trailing_hashtags:line[n]" ].

Definition base_sites : list string := tree_sites ++ cur_sites ++ rem_sites.
Definition alo : string -> bool := only base_sites.
Notation ngo := (ng alo true).

Ltac allowed := vm_compute; reflexivity.

Create HintDb ngo.

Ltac ngstep :=
  match goal with
  | |- ng _ _ (bind ?r _) => apply ng_bind; [ try solve [auto with ngo] | intros ]
  | |- ng _ _ (Ok _) => exact I
  | |- ng _ _ OutOfFuel => reflexivity
  | |- ng _ _ (Panic _) => first [assumption | allowed]
  | |- ng _ _ no_node => allowed
  | |- ng _ _ (not_handled _ _) => exact I
  | |- ng _ _ (res_map _ _) => apply ng_res_map
  | |- ng _ _ (if ?b then _ else _) => destruct b
  | |- ng _ _ (match ?x with _ => _ end) => destruct x
  | |- ng _ _ (let (_, _) := ?x in _) => destruct x
  end.
Ltac nggo := repeat ngstep; auto with ngo.

Lemma ngo_idx site l i : alo site = true -> ngo (idx site l i).
Proof. intro H. apply ng_idx. now right. Qed.
Lemma ngo_sub site a b : alo site = true -> ngo (sub site a b).
Proof. intro H. apply ng_sub. now right. Qed.
Lemma ngo_slice_from site l i : alo site = true -> ngo (Blocks.slice_from site l i).
Proof. intro H. apply ng_slice_from. now right. Qed.
Lemma ngo_from_utf8 site b : alo site = true -> ngo (from_utf8 site b).
Proof. intro H. apply ng_from_utf8. now right. Qed.
#[export] Hint Extern 1 (ng _ _ (idx _ _ _)) => (apply ngo_idx; first [assumption | allowed]) : ngo.
#[export] Hint Extern 1 (ng _ _ (sub _ _ _)) => (apply ngo_sub; first [assumption | allowed]) : ngo.
#[export] Hint Extern 1 (ng _ _ (Blocks.slice_from _ _ _)) => (apply ngo_slice_from; first [assumption | allowed]) : ngo.
#[export] Hint Extern 1 (ng _ _ (from_utf8 _ _)) => (apply ngo_from_utf8; first [assumption | allowed]) : ngo.

(* ---- leaf functions: total for all arguments *)
Lemma ngo_trim s : ngo (Strings.trim s). Proof. rewrite trim_ok. exact I. Qed.
Lemma ngo_rtrim s : ngo (Strings.rtrim s). Proof. rewrite rtrim_ok. exact I. Qed.
Lemma ngo_unescape s : ngo (Strings.unescape s). Proof. rewrite unescape_is_spec. exact I. Qed.
Lemma ngo_unescape_html s : ngo (unescape_html s). Proof. apply ng_ex. apply unescape_html_total. Qed.
Lemma ngo_manual_scan_link_url s : ngo (manual_scan_link_url s).
Proof. apply ng_ex. destruct (manual_scan_link_url_total s) as [r [E _]]. exists r. exact E. Qed.
Lemma ngo_row s sp : ngo (row s sp). Proof. apply ng_ex. apply BlocksTotal4Row.row_total. Qed.
Lemma ngo_table_matches s sp : ngo (table_matches s sp). Proof. apply ng_ex. apply BlocksTotal4Row.table_matches_total. Qed.
#[export] Hint Resolve ngo_trim ngo_rtrim ngo_unescape ngo_unescape_html ngo_manual_scan_link_url ngo_row ngo_table_matches : ngo.

(* ---- leaf functions with sites of their own *)
Lemma ngo_remove_trailing_blank_lines s : ngo (remove_trailing_blank_lines s).
Proof. unfold remove_trailing_blank_lines. nggo. Qed.
Lemma ngo_chop_trailing_hashtags s : ngo (chop_trailing_hashtags s).
Proof. unfold chop_trailing_hashtags. nggo. Qed.
Lemma ngo_clean_url s : ngo (clean_url s). Proof. unfold clean_url. nggo. Qed.
(* clean_title panics on a title of length 1 only (Props/StrLeaf.v); its one caller hands it a scan_link_title match *)
Lemma ngo_clean_title s : List.length s <> 1 -> ngo (clean_title s).
Proof. intro H. apply ng_ex. now apply clean_title_total. Qed.
#[export] Hint Resolve ngo_remove_trailing_blank_lines ngo_chop_trailing_hashtags ngo_clean_url : ngo.
Lemma scan_link_title_ge s m : scan_link_title s = Some m -> 2 <= m.
Proof. BlocksTotal4Scan.scan_ge. Qed.
Lemma scan_link_title_le s m : scan_link_title s = Some m -> m <= List.length s.
Proof. intro H. eapply as_opt_usize_cursor_le; [|exact H]. vm_compute. reflexivity. Qed.
(* line_at: bytes[end..] is inside the string as long as the start is; split_off_front_matter starts at 0 and goes on
   from the `next` of the line before *)
Lemma sgo_fm_line_at s k : k <= List.length s -> sg alo true (fun r => snd r <= List.length s) (fm_line_at s k).
Proof.
  intro H. unfold fm_line_at. pose proof (BlocksTotal4Fuel.scan_line_end_bounds (skipn k s) k) as B. rewrite skipn_length in B.
  set (e := scan_line_end (skipn k s) k) in *. unfold byte_slice_from.
  destruct (Nat.leb e (List.length s)) eqn:L; [|apply Nat.leb_gt in L; lia]. apply Nat.leb_le in L. cbn [bind].
  unfold fm_slice. destruct (_ && _ && _); [cbn [bind sg snd] | allowed].
  destruct (starts_with (skipn e s) fm_crlf) eqn:Sw.
  - apply starts_with_app in Sw. destruct Sw as [r Er]. apply (f_equal (@List.length byte)) in Er.
    rewrite skipn_length, app_length in Er. change (List.length fm_crlf) with 2 in Er. lia.
  - destruct (Nat.ltb e (List.length s)) eqn:Lt; [apply Nat.ltb_lt in Lt; lia | lia].
Qed.
Lemma sgo_find_closing_line : forall fuel s d e, e <= List.length s ->
  sg alo true (fun c => match c with Some e' => e' <= List.length s | None => True end) (find_closing_line fuel s d e).
Proof.
  induction fuel as [|f IH]; intros s d e H; cbn [find_closing_line]; [reflexivity|].
  destruct (Nat.eqb e (List.length s)); [exact I|].
  eapply sg_bind; [now apply sgo_fm_line_at|]. intros ln _ Hn.
  destruct (bytes_eqb (fst ln) d); [exact Hn | now apply IH].
Qed.
Lemma ngo_split_off_front_matter s d : ngo (split_off_front_matter s d).
Proof.
  unfold split_off_front_matter, slice_to, FrontMatter.slice_from.
  eapply sg_bind; [apply sgo_fm_line_at; lia|]. intros l0 _ H0.
  destruct (_ || _); [exact I|].
  eapply sg_bind; [now apply sgo_find_closing_line|]. intros [e|] _ He; [|exact I].
  eapply sg_bind; [now apply sgo_fm_line_at|]. intros l1 _ _. cbv zeta. match goal with |- sg ?a ?f _ ?r => change (ng a f r) end. nggo.
Qed.
#[export] Hint Resolve ngo_split_off_front_matter : ngo.
Lemma ngo_peek s p : ngo (peek s p). Proof. unfold peek. nggo. Qed.
#[export] Hint Resolve ngo_peek : ngo.
Lemma ngo_skip_spaces : forall s, ngo (skip_spaces s).
Proof. induction s as [|c r IH]; cbn [skip_spaces]; nggo. Qed.
#[export] Hint Resolve ngo_skip_spaces : ngo.
Lemma ngo_skip_line_end s p : ngo (skip_line_end s p). Proof. unfold skip_line_end. nggo. Qed.
#[export] Hint Resolve ngo_skip_line_end : ngo.
Lemma ngo_spnl s p : ngo (spnl s p). Proof. unfold spnl. nggo. Qed.
#[export] Hint Resolve ngo_spnl : ngo.
Lemma ngo_label_loop : forall fuel s pos len c, ngo (label_loop fuel s pos len c).
Proof. induction fuel as [|f IH]; intros s pos len c; cbn [label_loop]; nggo. Qed.
#[export] Hint Resolve ngo_label_loop : ngo.
Lemma ngo_link_label s : ngo (link_label s). Proof. unfold link_label. nggo. Qed.
#[export] Hint Resolve ngo_link_label : ngo.
Lemma ngo_parse_reference_inline fold m s : ngo (parse_reference_inline fold m s).
Proof.
  unfold parse_reference_inline.
  apply ng_bind; [auto with ngo|]. intros [[lab pos]|] _; [|exact I]. destruct lab as [|l0 lab]; [exact I|].
  apply ng_bind; [auto with ngo|]. intros [c|] _; [|exact I]. destruct (negb (beqb c x3a)); [exact I|]. cbv zeta.
  apply ng_bind; [auto with ngo|]. intros pos1 _.
  apply ng_bind; [auto with ngo|]. intros [[url matchlen]|] _; [|exact I].
  apply ng_bind; [auto with ngo|]. intros pos2 _.
  match goal with |- ng _ _ (let '(title, pos) := ?tp in _) =>
    assert (HT : List.length (fst tp) <> 1); [|destruct tp as [title pos3]; cbn [fst] in HT] end.
  { destruct (Nat.eqb pos2 (pos1 + matchlen)); [cbn; lia|].
    destruct (scan_link_title (skipn pos2 s)) as [ml|] eqn:Sc; [|cbn; lia].
    pose proof (scan_link_title_ge _ _ Sc). pose proof (scan_link_title_le _ _ Sc). cbn [fst]. rewrite firstn_length. lia. }
  apply ng_bind; [auto with ngo|]. intros n _.
  apply ng_bind; [auto with ngo|]. intros [p1 ok] _.
  eapply sg_bind with (P := fun fin : option (nat * bytes) => match fin with Some (_, t) => List.length t <> 1 | None => True end).
  { destruct ok; [exact HT|]. destruct title; [exact I|].
    apply sgb; [auto with ngo|]. intros n2 _. apply sgb; [auto with ngo|]. intros [p2 ok2] _.
    destruct ok2; cbn [sg List.length]; [lia | exact I]. }
  intros [[posf t]|] _ Hf; [|exact I].
  destruct (normalize_label fold (l0 :: lab) true); [exact I|].
  apply ng_bind; [auto with ngo|]. intros cu _.
  apply ng_bind; [now apply ngo_clean_title|]. intros ct _. nggo.
Qed.
#[export] Hint Resolve ngo_parse_reference_inline : ngo.
Lemma ngo_resolve_loop fold : forall fuel m seek seeked, ngo (resolve_loop fuel fold m seek seeked).
Proof. induction fuel as [|f IH]; intros m seek seeked; cbn [resolve_loop]; nggo. Qed.
#[export] Hint Resolve ngo_resolve_loop : ngo.
Lemma ngo_resolve_refdefs fold m c : ngo (resolve_refdefs fold m c).
Proof. unfold resolve_refdefs. nggo. Qed.
#[export] Hint Resolve ngo_resolve_refdefs : ngo.
Lemma ngo_copy_line_offsets : forall n lo k, ngo (copy_line_offsets n lo k).
Proof. induction n as [|m IH]; intros lo k; cbn [copy_line_offsets]; nggo. Qed.
Lemma ngo_header_cells : forall cells id ln sl sc po, ngo (header_cells cells id ln sl sc po).
Proof. induction cells as [|c r IH]; intros; cbn [header_cells]; nggo. Qed.
Lemma ngo_row_cells : forall n cells id ln sc lc, ngo (row_cells n cells id ln sc lc).
Proof. induction n as [|m IH]; intros cells id ln sc lc; destruct cells; cbn [row_cells]; nggo. Qed.
#[export] Hint Resolve ngo_copy_line_offsets ngo_header_cells ngo_row_cells : ngo.
Lemma ngo_parse_html_block_prefix st t : ngo (parse_html_block_prefix st t).
Proof. unfold parse_html_block_prefix. nggo. Qed.
#[export] Hint Resolve ngo_parse_html_block_prefix : ngo.
Lemma ngo_after_spaces : forall s, ngo (after_spaces s).
Proof. induction s as [|b r IH]; cbn [after_spaces]; nggo. Qed.
Lemma ngo_digits_loop : forall left s start digits, ngo (digits_loop left s start digits).
Proof.
  induction left as [|l IH]; intros s start digits; destruct s as [|d r]; cbn [digits_loop]; try allowed.
  - destruct (N.ltb _ _); [allowed | exact I].
  - destruct (N.ltb _ _); [allowed|]. destruct l; [exact I|]. destruct r as [|e r']; [allowed|].
    destruct (StrLeafGen.sl_isdigit e); [apply IH | exact I].
Qed.
#[export] Hint Resolve ngo_after_spaces ngo_digits_loop : ngo.
Lemma ngo_parse_list_marker line pos ip : ngo (parse_list_marker line pos ip).
Proof. unfold parse_list_marker. nggo. Qed.
#[export] Hint Resolve ngo_parse_list_marker : ngo.
Lemma ngo_alert_title_loop line : forall fuel pos fl, ngo (alert_title_loop fuel line pos fl).
Proof. induction fuel as [|f IH]; intros pos fl; cbn [alert_title_loop]; nggo. Qed.
Lemma ngo_count_hashes : forall s, ngo (count_hashes s).
Proof. induction s as [|b r IH]; cbn [count_hashes]; nggo. Qed.
#[export] Hint Resolve ngo_alert_title_loop ngo_count_hashes : ngo.

(* ---- the cursor *)
Lemma ngo_find_first_nonspace c line : ngo (find_first_nonspace c line).
Proof. unfold find_first_nonspace. destruct (if Nat.leb _ _ then _ else _) as [f fc]. nggo. Qed.
Lemma ngo_advance_loop line columns : forall fuel off col pct count, ngo (advance_loop fuel line off col pct count columns).
Proof. induction fuel as [|f IH]; intros off col pct count; destruct count; cbn [advance_loop]; nggo. Qed.
#[export] Hint Resolve ngo_find_first_nonspace ngo_advance_loop : ngo.
Lemma ngo_advance_offset c line count columns : ngo (advance_offset c line count columns).
Proof. unfold advance_offset. nggo. Qed.
#[export] Hint Resolve ngo_advance_offset : ngo.
Lemma ngo_adv st line n b : ngo (adv st line n b). Proof. unfold adv. nggo. Qed.
Lemma ngo_ffn st line : ngo (ffn st line). Proof. unfold ffn. nggo. Qed.
#[export] Hint Resolve ngo_adv ngo_ffn : ngo.
Lemma ngo_skip_one_space st line site : alo site = true -> ngo (skip_one_space st line site).
Proof. intro H. unfold skip_one_space. nggo. Qed.
Lemma ngo_skip_fence_offset line site : alo site = true -> forall i st, ngo (skip_fence_offset i st line site).
Proof. intro H. induction i as [|j IH]; intro st; cbn [skip_fence_offset]; nggo. Qed.
Lemma ngo_list_spaces_loop line sc : forall fuel st, ngo (list_spaces_loop fuel st line sc).
Proof. induction fuel as [|f IH]; intro st; cbn [list_spaces_loop]; nggo. Qed.
#[export] Hint Resolve ngo_list_spaces_loop : ngo.
#[export] Hint Extern 1 (ng _ _ (skip_one_space _ _ _)) => (apply ngo_skip_one_space; first [assumption | allowed]) : ngo.
#[export] Hint Extern 1 (ng _ _ (skip_fence_offset _ _ _ _)) => (apply ngo_skip_fence_offset; first [assumption | allowed]) : ngo.

(* ---- tree primitives *)
Lemma ngo_get st x : ngo (get st x).
Proof. unfold get. destruct (find_node x (ps_root st)); [exact I | allowed]. Qed.
Lemma ngo_modify st x f : ngo (modify st x f).
Proof. unfold modify. destruct (upd x f (ps_root st)); [exact I | allowed]. Qed.
Lemma ngo_modify_info st x f : ngo (modify_info st x f).
Proof. apply ngo_modify. Qed.
Lemma ngo_bdetach st x : ngo (bdetach st x).
Proof. unfold bdetach. destruct (edit_kids _ _ _); exact I. Qed.
Lemma ngo_retighten st p : ngo (retighten st p).
Proof. apply ng_ex. apply retighten_total. Qed.
#[export] Hint Resolve ngo_get ngo_modify ngo_modify_info ngo_bdetach ngo_retighten : ngo.
Lemma ngo_append_child st p c : ngo (append_child st p c).
Proof. apply ngo_modify. Qed.
Lemma ngo_last_child st x : ngo (last_child st x). Proof. unfold last_child. nggo. Qed.
#[export] Hint Resolve ngo_append_child ngo_last_child : ngo.
Lemma ngo_last_child_is_open st x : ngo (last_child_is_open st x).
Proof. unfold last_child_is_open. nggo. Qed.
#[export] Hint Resolve ngo_last_child_is_open : ngo.
Lemma ngo_finalize o st id : ngo (finalize o st id).
Proof. unfold finalize. nggo. Qed.
#[export] Hint Resolve ngo_finalize : ngo.
Lemma ngo_unwrap_parent site o st id : alo site = true -> ngo (unwrap_parent site (finalize o st id)).
Proof. intro H. unfold unwrap_parent. nggo. Qed.
#[export] Hint Extern 1 (ng _ _ (unwrap_parent _ _)) => (apply ngo_unwrap_parent; first [assumption | allowed]) : ngo.
Lemma ngo_add_child_loop o k : forall fuel st parent, ngo (add_child_loop fuel o st parent k).
Proof. induction fuel as [|f IH]; intros st parent; cbn [add_child_loop]; nggo. Qed.
#[export] Hint Resolve ngo_add_child_loop : ngo.
Lemma ngo_add_child_gen o st parent v col post kids : ngo (add_child_gen o st parent v col post kids).
Proof. unfold add_child_gen. nggo. Qed.
Lemma ngo_add_child o st parent v col : ngo (add_child o st parent v col).
Proof. apply ngo_add_child_gen. Qed.
#[export] Hint Resolve ngo_add_child_gen ngo_add_child : ngo.
Lemma ngo_clear_llb_up : forall fuel st id, ngo (clear_llb_up fuel st id).
Proof. induction fuel as [|f IH]; intros st id; cbn [clear_llb_up]; nggo. Qed.
Lemma ngo_finalize_up_to o target site : alo site = true -> forall fuel st, ngo (finalize_up_to fuel o st target site).
Proof. intro H. induction fuel as [|f IH]; intros st; cbn [finalize_up_to]; nggo. Qed.
Lemma ngo_reopen : forall fuel st id, ngo (reopen_ast_nodes fuel st id).
Proof. induction fuel as [|f IH]; intros st id; cbn [reopen_ast_nodes]; nggo. Qed.
#[export] Hint Resolve ngo_clear_llb_up ngo_reopen : ngo.
#[export] Hint Extern 1 (ng _ _ (finalize_up_to _ _ _ _ _)) => (apply ngo_finalize_up_to; first [assumption | allowed]) : ngo.
Lemma ngo_parse_desc_list_details o st c m : ngo (parse_desc_list_details o st c m).
Proof. unfold parse_desc_list_details. nggo. Qed.
#[export] Hint Resolve ngo_parse_desc_list_details : ngo.
Lemma ngo_try_inserting st c po : ngo (try_inserting_table_header_paragraph st c po).
Proof. unfold try_inserting_table_header_paragraph. nggo. Qed.
#[export] Hint Resolve ngo_try_inserting : ngo.
Lemma ngo_add_line st id line : ngo (add_line st id line).
Proof. unfold add_line. nggo. Qed.
#[export] Hint Resolve ngo_add_line : ngo.

(* ---- check_open_blocks *)
Lemma ngo_is_not_greentext o st line : ngo (is_not_greentext o st line).
Proof. unfold is_not_greentext. nggo. Qed.
#[export] Hint Resolve ngo_is_not_greentext : ngo.
Lemma ngo_pbq o st line : ngo (parse_block_quote_prefix o st line).
Proof. unfold parse_block_quote_prefix. nggo. Qed.
Lemma ngo_pfn st line : ngo (parse_footnote_definition_block_prefix st line).
Proof. unfold parse_footnote_definition_block_prefix. nggo. Qed.
Lemma ngo_pip st line c mo pad : ngo (parse_item_prefix st line c mo pad).
Proof. unfold parse_item_prefix. nggo. Qed.
#[export] Hint Resolve ngo_pbq ngo_pfn ngo_pip : ngo.
Lemma ngo_pcbp o st line cid cb : ngo (parse_code_block_prefix o st line cid cb).
Proof. unfold parse_code_block_prefix. nggo. Qed.
Lemma ngo_pmbq o st line cid fl fo : ngo (parse_multiline_block_quote_prefix o st line cid fl fo).
Proof. unfold parse_multiline_block_quote_prefix. nggo. Qed.
#[export] Hint Resolve ngo_pcbp ngo_pmbq : ngo.
Lemma ngo_check_container o st line c : ngo (check_container o st line c).
Proof. unfold check_container. destruct (bval c); nggo. Qed.
#[export] Hint Resolve ngo_check_container : ngo.
Lemma ngo_cobi o line : forall fuel st c, ngo (check_open_blocks_inner fuel o st line c).
Proof. induction fuel as [|f IH]; intros st c; cbn [check_open_blocks_inner]; nggo. Qed.
#[export] Hint Resolve ngo_cobi : ngo.
Lemma ngo_check_open_blocks o st line : ngo (check_open_blocks o st line).
Proof. unfold check_open_blocks. nggo. Qed.
#[export] Hint Resolve ngo_check_open_blocks : ngo.

(* ---- open_new_blocks *)
Lemma ngo_try_opening_header o st c line : ngo (try_opening_header o st c line).
Proof. unfold try_opening_header. nggo. Qed.
Lemma ngo_try_opening_row o st c t line : ngo (try_opening_row o st c t line).
Proof. unfold try_opening_row. nggo. Qed.
Lemma ngo_try_opening_block o st c line : ngo (try_opening_block o st c line).
Proof.
  unfold try_opening_block. apply ng_bind; [auto with ngo|]. intros cn _.
  destruct (bval cn); try exact I; [apply ngo_try_opening_header | apply ngo_try_opening_row].
Qed.
#[export] Hint Resolve ngo_try_opening_block : ngo.

Section Handlers.
Variables (o : bopts) (line : bytes).
Lemma ngo_handle_alert st c ind : ngo (handle_alert o st c line ind).
Proof. unfold handle_alert. nggo. Qed.
Lemma ngo_handle_mbq st c ind : ngo (handle_multiline_blockquote o st c line ind).
Proof. unfold handle_multiline_blockquote, rest_at_fns. nggo. Qed.
Lemma ngo_handle_blockquote st c ind : ngo (handle_blockquote o st c line ind).
Proof. unfold handle_blockquote. nggo. Qed.
Lemma ngo_handle_atx st c ind : ngo (handle_atx_heading o st c line ind).
Proof. unfold handle_atx_heading, rest_at_fns. nggo. Qed.
Lemma ngo_handle_code_fence st c ind : ngo (handle_code_fence o st c line ind).
Proof. unfold handle_code_fence, rest_at_fns. nggo. Qed.
Lemma ngo_handle_html_block st c ind : ngo (handle_html_block o st c line ind).
Proof. unfold handle_html_block, rest_at_fns. nggo. Qed.
Lemma ngo_handle_setext st c ind : ngo (handle_setext_heading o st c line ind).
Proof. unfold handle_setext_heading, rest_at_fns. nggo. Qed.
Lemma ngo_handle_thematic_break st c ind am : ngo (handle_thematic_break o st c line ind am).
Proof. unfold handle_thematic_break. nggo. Qed.
Lemma ngo_handle_footnote st c ind d : ngo (handle_footnote o st c line ind d).
Proof. unfold handle_footnote, rest_at_fns. nggo. Qed.
Lemma ngo_handle_description_list st c ind : ngo (handle_description_list o st c line ind).
Proof. unfold handle_description_list, rest_at_fns. nggo. Qed.
Lemma ngo_handle_list st c ind d : ngo (handle_list o st c line ind d).
Proof. unfold handle_list. nggo. Qed.
Lemma ngo_handle_code_block st c ind ml : ngo (handle_code_block o st c line ind ml).
Proof. unfold handle_code_block. nggo. Qed.

Lemma ngo_or_else (r : hres) k : ngo r -> (forall c s, ngo (k c s)) -> ngo (or_else_h r k).
Proof. intros H K. unfold or_else_h. apply ng_bind; [exact H|]. intros [[h c] s] _. destruct h; [exact I | apply K]. Qed.

Lemma ngo_step st c am ml d : ngo (open_new_blocks_step o st c line am ml d).
Proof.
  unfold open_new_blocks_step. apply ng_bind; [auto with ngo|]. intros s0 _.
  apply ng_bind.
  { apply ngo_or_else; [apply ngo_handle_alert|]. intros c1 s1.
    apply ngo_or_else; [apply ngo_handle_mbq|]. clear c1 s1. intros c1 s1.
    apply ngo_or_else; [apply ngo_handle_blockquote|]. clear c1 s1. intros c1 s1.
    apply ngo_or_else; [apply ngo_handle_atx|]. clear c1 s1. intros c1 s1.
    apply ngo_or_else; [apply ngo_handle_code_fence|]. clear c1 s1. intros c1 s1.
    apply ngo_or_else; [apply ngo_handle_html_block|]. clear c1 s1. intros c1 s1.
    apply ngo_or_else; [apply ngo_handle_setext|]. clear c1 s1. intros c1 s1.
    apply ngo_or_else; [apply ngo_handle_thematic_break|]. clear c1 s1. intros c1 s1.
    apply ngo_or_else; [apply ngo_handle_footnote|]. clear c1 s1. intros c1 s1.
    apply ngo_or_else; [apply ngo_handle_description_list|]. clear c1 s1. intros c1 s1.
    apply ngo_or_else; [apply ngo_handle_list|]. clear c1 s1. intros c1 s1.
    apply ngo_handle_code_block. }
  intros [[handled c1] s1] _. nggo.
Qed.

Lemma ngo_loop am : forall fuel st c ml d, ngo (open_new_blocks_loop fuel o st c line am ml d).
Proof.
  induction fuel as [|f IH]; intros st c ml d; cbn [open_new_blocks_loop]; [reflexivity|].
  apply ng_bind; [auto with ngo|]. intros n _. destruct (is_code_or_html n); [exact I|].
  apply ng_bind; [apply ngo_step|]. intros [[go c1] s1] _. destruct go; [apply IH | exact I].
Qed.

Lemma ngo_open_new_blocks st c am : ngo (open_new_blocks o st c line am).
Proof. unfold open_new_blocks. apply ng_bind; [auto with ngo|]. intros n _. apply ngo_loop. Qed.

Lemma ngo_add_text_to_container st c lmc : ngo (add_text_to_container o st c lmc line).
Proof.
  unfold add_text_to_container.
  apply ng_bind; [auto with ngo|]. intros s0 _.
  apply ng_bind; [auto with ngo|]. intros cn _.
  apply ng_bind; [nggo|]. intros s1 _.
  apply ng_bind; [auto with ngo|]. intros s2 _.
  apply ng_bind; [auto with ngo|]. intros s3 _.
  apply ng_bind; [nggo|]. intros lz _.
  destruct lz; [auto with ngo|].
  apply ng_bind; [auto with ngo|]. intros s4 _.
  apply ng_bind; [auto with ngo|]. intros c4 _.
  apply ng_bind; [|intros; exact I].
  destruct (bval c4); nggo.
Qed.
End Handlers.

Lemma ngo_process_line o st line0 : ngo (process_line o st line0).
Proof.
  unfold process_line. cbv zeta.
  apply ng_bind; [auto with ngo|]. intros [r s1] _.
  apply ng_bind; [|intros; exact I].
  destruct r as [[lm am]|]; [|exact I]. cbv zeta.
  apply ng_bind; [apply ngo_open_new_blocks|]. intros [c s2] _.
  destruct (Nat.eqb _ _); [apply ngo_add_text_to_container | exact I].
Qed.

Lemma ngo_process_lines o : forall ls st, ngo (process_lines o st ls).
Proof. induction ls as [|l r IH]; intro st; cbn [process_lines]; [exact I|]. apply ng_bind; [apply ngo_process_line | intros; apply IH]. Qed.

Lemma ngo_finalize_document o st : ngo (finalize_document o st).
Proof. unfold finalize_document. nggo. Qed.

Lemma ngo_front_matter_prologue o st s : ngo (front_matter_prologue o st s).
Proof. unfold front_matter_prologue. nggo. Qed.

Theorem parse_blocks_ngo o x : ngo (parse_blocks o x).
Proof.
  unfold parse_blocks. apply ng_bind; [apply ngo_front_matter_prologue|]. intros [st rest] _.
  destruct (feed_lines rest) as [lines total].
  apply ng_bind; [|intros; exact I]. unfold run_lines.
  apply ng_bind; [apply ngo_process_lines | intros; apply ngo_finalize_document].
Qed.

(* a Panic of the block phase is at one of the listed sites *)
Theorem parse_blocks_panic_base o x s : parse_blocks o x = Panic s -> In s base_sites.
Proof. intro E. eapply sg_panic_in; [apply parse_blocks_ngo | exact E]. Qed.

(* .. and, with the tree walk and the cursor walk, at one of the sites that remain *)
Theorem parse_blocks_panic_rem o x s : parse_blocks o x = Panic s -> In s rem_sites.
Proof.
  intro E. pose proof (parse_blocks_panic_base o x s E) as H. unfold base_sites in H.
  apply in_app_or in H. destruct H as [H|H].
  - exfalso. exact (BlocksTotal3Tab.parse_blocks_no_tree_panic_all o x s H E).
  - apply in_app_or in H. destruct H as [H|H]; [|exact H].
    exfalso. exact (BlocksTotal4Line.parse_blocks_no_cursor_panic o x s H E).
Qed.

(* with the fuel walk: Ok, or a Panic at one of the sites that remain — every input, every option set *)
Theorem parse_blocks_ok_or_rem o x :
  (exists r, parse_blocks o x = Ok r) \/ (exists s, parse_blocks o x = Panic s /\ In s rem_sites).
Proof.
  destruct (parse_blocks o x) as [r|s|] eqn:E.
  - left. now exists r.
  - right. exists s. split; [reflexivity|]. now apply (parse_blocks_panic_rem o x).
  - exfalso. exact (BlocksTotal5Loop.parse_blocks_no_fuel o x E).
Qed.

(* the sites this round adds to the 76 of Blocks_total_partial_sites_all: the leaf functions that are total for all
   arguments, and the two sites excluded by a local argument in this file *)
Definition new_sites : list string :=
  [ "strings.rs:ltrim:line.len() - spaces";
    "strings.rs:rtrim:line.len() - spaces";
    "strings.rs:unescape:prev + 1 - found";
    "strings.rs:unescape:window slice";
    "strings.rs:unescape:v.len() - found";
    "strings.rs:shift_buf_left:assert n <= buf.len()";
    "entity.rs:unescape:hex digit - 9";
    "inlines.rs:manual_scan_link_url:input[1..i - 1]";
    "strings.rs:clean_title:title[1..title_len - 1]";
    "strings.rs:line_at:bytes[end..]" ].

Theorem parse_blocks_no_panic_all5 o x s :
  In s (tree_sites ++ cur_sites ++ new_sites) -> parse_blocks o x <> Panic s.
Proof.
  intros H E. apply parse_blocks_panic_rem in E.
  assert (D : forallb (fun t => negb (inl rem_sites t)) (tree_sites ++ cur_sites ++ new_sites) = true) by (vm_compute; reflexivity).
  rewrite forallb_forall in D. specialize (D s H). apply inl_in in E. rewrite E in D. discriminate D.
Qed.
