(* Proofs/StrLeafEntityNum.v — Model/Entity.v: digit loops, numeric results are valid UTF-8 (finite check over
   all code points), finite checks over the entity table, lookup = first match of the flat table. *)
From Coq Require Import List NArith Bool Lia Arith.
From Coq Require Import Strings.String.
From V Require Import Base.Bytes Base.Res Gen.StrLeafGen Gen.Entities Spec.EscapeSpec Proofs.EscapeProofs.
From V Require Import Model.Entity.
Import ListNotations.
Local Open Scope string_scope.
Local Open Scope list_scope.

(* ------------------------------------------------------------------ digits *)
Definition hexval_ok (b : byte) : bool :=
  if isxdigit b then match hex_digit_value b with Ok v => (v <? 16)%N | _ => false end else true.
Lemma hexval_ok_all : forall b, hexval_ok b = true.
Proof. apply forall_bytes. vm_compute. reflexivity. Qed.

Lemma hex_digit_value_total b : isxdigit b = true -> exists v, hex_digit_value b = Ok v.
Proof.
  intro H. pose proof (hexval_ok_all b) as K. unfold hexval_ok in K. rewrite H in K.
  destruct (hex_digit_value b); try discriminate. eexists; reflexivity.
Qed.

Definition xdigit_ascii (b : byte) : bool := implb (isxdigit b || sl_isdigit b) (is_ascii b).
Lemma xdigit_ascii_all : forall b, xdigit_ascii b = true.
Proof. apply forall_bytes. vm_compute. reflexivity. Qed.
Lemma isxdigit_ascii b : isxdigit b = true -> is_ascii b = true.
Proof. intro H. pose proof (xdigit_ascii_all b) as K. unfold xdigit_ascii in K. rewrite H in K. exact K. Qed.
Lemma isdigit_ascii b : sl_isdigit b = true -> is_ascii b = true.
Proof. intro H. pose proof (xdigit_ascii_all b) as K. unfold xdigit_ascii in K. rewrite H, orb_true_r in K. exact K. Qed.

Lemma hex_digits_spec : forall s n cp, exists pre rest cp',
  hex_digits s n cp = Ok (n + List.length pre, cp', rest) /\ s = pre ++ rest /\ forallb is_ascii pre = true.
Proof.
  induction s as [|b r IH]; intros n cp.
  - exists [], [], cp. cbn. rewrite Nat.add_0_r. auto.
  - cbn [hex_digits]. destruct (isxdigit b) eqn:E.
    + destruct (hex_digit_value_total b E) as [v Hv]. rewrite Hv. cbn [bind].
      destruct (IH (S n) (N.min (cp * 16 + v) entity_cp_cap)) as [pre [rest [cp' [H1 [H2 H3]]]]].
      exists (b :: pre), rest, cp'. rewrite H1. cbn [List.length app forallb]. rewrite H3, (isxdigit_ascii b E).
      split; [f_equal; f_equal; f_equal; lia|]. split; [f_equal; exact H2 | reflexivity].
    + exists [], (b :: r), cp. cbn. rewrite Nat.add_0_r. auto.
Qed.

Lemma dec_digits_spec : forall s n cp, exists pre rest cp',
  dec_digits s n cp = (n + List.length pre, cp', rest) /\ s = pre ++ rest /\ forallb is_ascii pre = true.
Proof.
  induction s as [|b r IH]; intros n cp.
  - exists [], [], cp. cbn. rewrite Nat.add_0_r. auto.
  - cbn [dec_digits]. destruct (sl_isdigit b) eqn:E.
    + destruct (IH (S n) (N.min (cp * 10 + (bN b - 48)) entity_cp_cap)) as [pre [rest [cp' [H1 [H2 H3]]]]].
      exists (b :: pre), rest, cp'. rewrite H1. cbn [List.length app forallb]. rewrite H3, (isdigit_ascii b E).
      split; [f_equal; f_equal; lia|]. split; [f_equal; exact H2 | reflexivity].
    + exists [], (b :: r), cp. cbn. rewrite Nat.add_0_r. auto.
Qed.

(* ------------------------------------------------------------------ numeric result is valid UTF-8 *)
Definition nr_ok (c : N) : bool := utf8_valid (numeric_result c).
Definition r256 : list N := map N.of_nat (seq 0 256).
Definition r17 : list N := map N.of_nat (seq 0 17).
Definition check3 (f : N -> N -> N -> bool) : bool :=
  forallb (fun p => forallb (fun h => forallb (fun l => f p h l) r256) r256) r17.

Lemma in_range_list k (x : N) : (x < N.of_nat k)%N -> In x (map N.of_nat (seq 0 k)).
Proof.
  intro H. apply in_map_iff. exists (N.to_nat x). split; [apply Nnat.N2Nat.id|]. apply in_seq. lia.
Qed.

Lemma check3_spec f : check3 f = true ->
  forall p h l, (p < 17)%N -> (h < 256)%N -> (l < 256)%N -> f p h l = true.
Proof.
  unfold check3. intros K p h l Hp Hh Hl. rewrite forallb_forall in K.
  specialize (K p (in_range_list 17 p Hp)). rewrite forallb_forall in K.
  specialize (K h (in_range_list 256 h Hh)). rewrite forallb_forall in K.
  exact (K l (in_range_list 256 l Hl)).
Qed.

(* 17 * 256 * 256 code points, evaluated once by the VM at Qed time (about a minute) *)
Lemma nr_check_ok : check3 (fun p h l => nr_ok (p * 65536 + h * 256 + l)%N) = true.
Proof. vm_cast_no_check (eq_refl true). Qed.

Lemma nr_ok_small c : (c < 1114112)%N -> nr_ok c = true.
Proof.
  intro H.
  set (p := (c / 65536)%N). set (m := (c mod 65536)%N). set (h := (m / 256)%N). set (l := (m mod 256)%N).
  assert (c = p * 65536 + h * 256 + l)%N as E.
  { pose proof (N.div_mod c 65536) as D1. pose proof (N.div_mod m 256) as D2.
    unfold p, h, l, m in *. lia. }
  assert (m < 65536)%N as Hm by (apply N.mod_lt; lia).
  assert (p < 17)%N as Hp.
  { unfold p. apply N.div_lt_upper_bound; lia. }
  assert (h < 256)%N as Hh.
  { unfold h. apply N.div_lt_upper_bound; lia. }
  assert (l < 256)%N as Hl by (apply N.mod_lt; lia).
  pose proof (check3_spec _ nr_check_ok p h l Hp Hh Hl) as K. cbv beta in K.
  rewrite E. exact K.
Qed.

Definition fffd : bytes := Eval compute in encode_utf8 65533.
Lemma numeric_result_big c : (1114112 <= c)%N -> numeric_result c = fffd.
Proof.
  intro H. unfold numeric_result, fix_codepoint.
  assert ((entity_cp_limit <=? c)%N = true) as E by (apply N.leb_le; exact H).
  rewrite E, !orb_true_r. reflexivity.
Qed.

Theorem numeric_result_utf8 c : utf8_valid (numeric_result c) = true.
Proof.
  destruct (N.ltb c 1114112) eqn:E.
  - apply N.ltb_lt in E. apply (nr_ok_small c E).
  - apply N.ltb_ge in E. rewrite numeric_result_big by exact E. reflexivity.
Qed.

(* value 0, the surrogate interval of the code and everything from 0x110000 up give U+FFFD *)
Theorem numeric_result_replacement c :
  (c = 0 \/ (55296 <= c <= 57344) \/ 1114112 <= c)%N -> numeric_result c = fffd.
Proof.
  intros [H | [H | H]].
  - subst. reflexivity.
  - unfold numeric_result, fix_codepoint.
    assert (((entity_sur_lo <=? c) && (c <=? entity_sur_hi))%N = true) as E.
    { apply andb_true_iff. split; apply N.leb_le; unfold entity_sur_lo, entity_sur_hi; lia. }
    rewrite E, orb_true_r. reflexivity.
  - apply numeric_result_big. exact H.
Qed.

(* ------------------------------------------------------------------ the table *)
Definition bucket_ok (b : byte) : bool :=
  forallb (fun e => forallb is_ascii (fst e) && utf8_valid (snd e)) (entity_bucket b)
  && match entity_bucket b with [] => true | _ => is_ascii b end.
Lemma bucket_ok_all : forall b, bucket_ok b = true.
Proof. apply forall_bytes. vm_compute. reflexivity. Qed.

Lemma assoc_bytes_in k l c : assoc_bytes k l = Some c -> In (k, c) l.
Proof.
  induction l as [|[n c'] r IH]; [discriminate|]. cbn [assoc_bytes].
  destruct (bytes_eqb k n) eqn:E.
  - intro H. inversion H; subst. apply bytes_eqb_eq in E. subst. left. reflexivity.
  - intro H. right. apply IH, H.
Qed.

Lemma lookup_ok t c : lookup t = Some c -> forallb is_ascii t = true /\ utf8_valid c = true.
Proof.
  destruct t as [|b r]; [discriminate|]. cbn [lookup]. intro H. apply assoc_bytes_in in H.
  pose proof (bucket_ok_all b) as K. unfold bucket_ok in K. apply andb_true_iff in K. destruct K as [K1 K2].
  rewrite forallb_forall in K1. specialize (K1 _ H). cbn [fst snd] in K1. apply andb_true_iff in K1.
  destruct K1 as [Ka Ku]. destruct (entity_bucket b); [contradiction|].
  cbn [forallb]. rewrite K2, Ka. auto.
Qed.

(* lookup = the first match of the flat table, in table order (what `ENTITIES.iter().find(..)` returns) *)
Definition bucket_is_filter (b : byte) : bool :=
  let want := flat_map (fun e => match fst e with
                                 | x :: r => if beqb x b then [(r, snd e)] else []
                                 | [] => [] end) entity_table in
  (fix eq (a c : list (bytes * bytes)) : bool :=
     match a, c with
     | [], [] => true
     | (k1, v1) :: a', (k2, v2) :: c' => bytes_eqb k1 k2 && bytes_eqb v1 v2 && eq a' c'
     | _, _ => false
     end) (entity_bucket b) want.
Lemma bucket_is_filter_all : forall b, bucket_is_filter b = true.
Proof. apply forall_bytes. vm_compute. reflexivity. Qed.

Lemma pairs_eq_eq : forall a c,
  (fix eq (a c : list (bytes * bytes)) : bool :=
     match a, c with
     | [], [] => true
     | (k1, v1) :: a', (k2, v2) :: c' => bytes_eqb k1 k2 && bytes_eqb v1 v2 && eq a' c'
     | _, _ => false
     end) a c = true -> a = c.
Proof.
  induction a as [|[k1 v1] a IH]; intros [|[k2 v2] c] H; try discriminate; [reflexivity|].
  apply andb_true_iff in H. destruct H as [H H3]. apply andb_true_iff in H. destruct H as [H1 H2].
  apply bytes_eqb_eq in H1. apply bytes_eqb_eq in H2. subst. f_equal. apply IH, H3.
Qed.

Lemma beqb_sym_local a b : beqb a b = beqb b a.
Proof. unfold beqb. apply N.eqb_sym. Qed.

Lemma assoc_filter b r : forall tbl,
  assoc_bytes r (flat_map (fun e => match fst e with
                                    | x :: r' => if beqb x b then [(r', snd e)] else []
                                    | [] => [] end) tbl)
  = assoc_bytes (b :: r) tbl.
Proof.
  induction tbl as [|[k v] tbl IH]; [reflexivity|].
  cbn [flat_map fst snd assoc_bytes]. destruct k as [|x k'].
  - cbn [app bytes_eqb]. exact IH.
  - cbn [bytes_eqb]. rewrite (beqb_sym_local b x). destruct (beqb x b) eqn:E.
    + cbn [app assoc_bytes andb]. destruct (bytes_eqb r k'); [reflexivity | exact IH].
    + cbn [app andb]. exact IH.
Qed.

Definition empty_name (e : bytes * bytes) : bool := match fst e with [] => true | _ => false end.
Lemma no_empty_name : existsb empty_name entity_table = false.
Proof. vm_compute. reflexivity. Qed.

Lemma assoc_nil tbl : existsb empty_name tbl = false -> assoc_bytes [] tbl = None.
Proof.
  induction tbl as [|[k v] tbl IH]; [reflexivity|]. cbn [existsb]. intro H. apply orb_false_iff in H.
  destruct H as [H1 H2]. unfold empty_name in H1. cbn [fst] in H1. cbn [assoc_bytes].
  destruct k; [discriminate|]. cbn [bytes_eqb]. apply IH, H2.
Qed.

Theorem lookup_is_first_match t : lookup t = assoc_bytes t entity_table.
Proof.
  destruct t as [|b r].
  - cbn [lookup]. symmetry. apply assoc_nil, no_empty_name.
  - cbn [lookup]. pose proof (bucket_is_filter_all b) as K. unfold bucket_is_filter in K.
    apply pairs_eq_eq in K. rewrite K. apply assoc_filter.
Qed.
