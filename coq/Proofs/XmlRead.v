(* Proofs/XmlRead.v — lemmas behind Props/C09.v, part 2: the reader of Spec/XmlLex.v reads back
   what the generic writer xml_write (Proofs/XmlProofs.v) writes, for every well-formed element
   tree; the mirror of a node tree is well-formed; hence the model's output is read back as the
   mirror tree. *)
From Coq Require Import List NArith Bool Lia Strings.String Arith PeanoNat.
From V Require Import Base.Bytes Base.Res Model.Ast Gen.NodesXml Model.Xml Spec.EscapeSpec Spec.XmlLex.
From V Require Import Proofs.EscapeProofs Proofs.XmlProofs.
Import ListNotations.
Local Open Scope list_scope.

(* ---------------------------------------------------------------- xtree induction, well-formedness *)
Section xtree_ind2.
  Variable P : xtree -> Prop.
  Hypothesis HE : forall n a cs, Forall P cs -> P (XElem n a cs).
  Hypothesis HT : forall n a t, P (XText n a t).
  Fixpoint xtree_ind2 (x : xtree) : P x :=
    match x with
    | XElem n a cs =>
      HE n a cs ((fix go (l : list xtree) : Forall P l :=
                    match l with
                    | [] => Forall_nil P
                    | c :: r => Forall_cons c (xtree_ind2 c) (go r)
                    end) cs)
    | XText n a t => HT n a t
    end.
End xtree_ind2.

Definition attrs_ok (attrs : list (bytes * bytes)) : bool :=
  forallb (fun kv => xname_ok (fst kv)) attrs && nodup_names (map fst attrs).

(* legal names, distinct attribute names, character data exactly under xml:space=preserve *)
Fixpoint xwf (x : xtree) : bool :=
  match x with
  | XText n attrs _ => xname_ok n && attrs_ok attrs && is_preserve attrs
  | XElem n attrs cs => xname_ok n && attrs_ok attrs && negb (is_preserve attrs) && forallb xwf cs
  end.

(* ---------------------------------------------------------------- byte facts *)
Definition start_fact (b : byte) : bool :=
  implb (xname_start b) (negb (is_ws b) && negb (beqb b x3e) && negb (beqb b x2f) && xname_byte b).
Lemma start_fact_all : forall b, start_fact b = true.
Proof. apply forall_bytes. vm_compute. reflexivity. Qed.

Lemma xname_start_facts b : xname_start b = true ->
  is_ws b = false /\ beqb b x3e = false /\ beqb b x2f = false /\ xname_byte b = true.
Proof.
  intro H. pose proof (start_fact_all b) as F. unfold start_fact in F. rewrite H in F. cbn [implb] in F.
  repeat (apply andb_true_iff in F; destruct F as [F ?]).
  repeat split; try (apply negb_true_iff; assumption); assumption.
Qed.

Lemma xname_ok_bytes n : xname_ok n = true -> forallb xname_byte n = true.
Proof.
  destruct n as [|b r]; [discriminate|]. cbn [xname_ok forallb]. intro H.
  apply andb_true_iff in H. destruct H as [Hb Hr]. apply xname_start_facts in Hb.
  destruct Hb as [_ [_ [_ Hb]]]. rewrite Hb, Hr. reflexivity.
Qed.

Lemma skip_ws_spaces n s : skip_ws (repeat_bytes n x20 ++ s) = skip_ws s.
Proof. induction n as [|n IH]; [reflexivity|]. cbn [repeat_bytes app skip_ws]. exact IH. Qed.

Lemma skip_ws_indent ind s : skip_ws (indent_bytes ind ++ s) = skip_ws s.
Proof. apply skip_ws_spaces. Qed.

Lemma take_xname_app : forall n r,
  forallb xname_byte n = true ->
  match r with [] => True | c :: _ => xname_byte c = false end ->
  take_xname (n ++ r) = (n, r).
Proof.
  induction n as [|x n IH]; intros r Hn Hr.
  - cbn [app]. destruct r as [|c r]; [reflexivity|]. cbn [take_xname]. rewrite Hr. reflexivity.
  - cbn in Hn. apply andb_true_iff in Hn. destruct Hn as [Hx Hn].
    cbn [app take_xname]. rewrite Hx, (IH r Hn Hr). reflexivity.
Qed.

Lemma take_text_app : forall v r,
  forallb no_active_byte v = true -> take_text (v ++ x3c :: r) = (v, x3c :: r).
Proof.
  induction v as [|x v IH]; intros r Hv; [reflexivity|].
  cbn in Hv. apply andb_true_iff in Hv. destruct Hv as [Hx Hv].
  cbn [app take_text]. unfold no_active_byte in Hx. apply negb_true_iff in Hx.
  apply orb_false_iff in Hx. destruct Hx as [Hx _]. apply orb_false_iff in Hx. destruct Hx as [Hx _].
  rewrite Hx, (IH r Hv). reflexivity.
Qed.

(* ---------------------------------------------------------------- attributes *)
Lemma read_attrs_spec : forall attrs f term sc tail,
  forallb (fun kv => xname_ok (fst kv)) attrs = true ->
  List.length attrs < f ->
  (forall f', read_attrs (S f') (term ++ tail) = Some ([], sc, tail)) ->
  read_attrs f (flat_map attr_str attrs ++ term ++ tail) = Some (attrs, sc, tail).
Proof.
  induction attrs as [|[a v] attrs IH]; intros f term sc tail Hok Hf Hterm.
  - destruct f as [|f]; [cbn in Hf; lia|]. apply Hterm.
  - destruct f as [|f]; [lia|]. cbn [List.length] in Hf.
    cbn [forallb fst] in Hok. apply andb_true_iff in Hok. destruct Hok as [Ha Hrest].
    destruct a as [|a0 a']; [discriminate|].
    pose proof Ha as Ha2. cbn [xname_ok] in Ha2. apply andb_true_iff in Ha2. destruct Ha2 as [Ha0 _].
    apply xname_start_facts in Ha0. destruct Ha0 as [W [G [S0 NB]]].
    cbn [flat_map]. unfold attr_str at 1. cbn [fst snd].
    rewrite <- !app_assoc. cbn [app read_attrs skip_ws].
    change (is_ws x20) with true. cbn iota. cbn [skip_ws]. rewrite W, G, S0. cbn iota.
    assert (take_xname (a0 :: a' ++ x3d :: x22 :: escape_spec v ++ x22 :: flat_map attr_str attrs ++ term ++ tail)
            = (a0 :: a', x3d :: x22 :: escape_spec v ++ x22 :: flat_map attr_str attrs ++ term ++ tail)) as E.
    { apply (take_xname_app (a0 :: a')); [apply xname_ok_bytes; exact Ha | reflexivity]. }
    rewrite E, Ha. change (beqb x3d x3d && beqb x22 x22) with true. cbn iota.
    rewrite take_value_app by apply escape_no_active.
    unfold xml_unescape. rewrite unescape_escape.
    rewrite (IH f term sc tail Hrest) by (lia || exact Hterm). reflexivity.
Qed.

Lemma attrs_head attrs c R :
  xname_byte c = false ->
  match flat_map attr_str attrs ++ c :: R with [] => True | d :: _ => xname_byte d = false end.
Proof.
  intro H. destruct attrs as [|[a v] attrs]; [exact H|]. reflexivity.
Qed.

Lemma attrs_len attrs : List.length attrs <= List.length (flat_map attr_str attrs).
Proof.
  induction attrs as [|x l IHl]; [apply le_n|]. cbn [flat_map]. rewrite app_length.
  unfold attr_str at 1. cbn [app]. cbn [List.length]. lia.
Qed.

(* ---------------------------------------------------------------- closing tag *)
Lemma read_close_spec n tail :
  xname_ok n = true -> read_close n (x3c :: x2f :: n ++ x3e :: tail) = Some tail.
Proof.
  intro Hn. cbn [read_close]. change (beqb x3c x3c && beqb x2f x2f) with true. cbn iota.
  rewrite take_xname_app by (try (apply xname_ok_bytes; exact Hn); reflexivity).
  assert (bytes_eqb n n = true) as E by (apply bytes_eqb_eq; reflexivity).
  rewrite E. reflexivity.
Qed.

(* ---------------------------------------------------------------- unfolding lemmas *)
Lemma read_elem_unfold f r n r1 attrs sc r2 :
  take_xname r = (n, r1) -> xname_ok n = true ->
  read_attrs f r1 = Some (attrs, sc, r2) -> nodup_names (map fst attrs) = true ->
  read_elem (S f) (x3c :: r) =
  if is_preserve attrs then
    if sc then Some (XText n attrs [], r2)
    else
      let (raw, r3) := take_text r2 in
      match xml_unescape raw with
      | Some t => match read_close n r3 with Some r4 => Some (XText n attrs t, r4) | None => None end
      | None => None
      end
  else
    if sc then Some (XElem n attrs [], r2)
    else
      match read_children f r2 with
      | Some (cs, r3) => match read_close n r3 with Some r4 => Some (XElem n attrs cs, r4) | None => None end
      | None => None
      end.
Proof.
  intros E1 E2 E3 E4. cbn [read_elem]. change (beqb x3c x3c) with true. cbn iota.
  rewrite E1, E2, E3, E4. reflexivity.
Qed.

Lemma read_children_nil f s r :
  skip_ws s = x3c :: x2f :: r -> read_children (S f) s = Some ([], x3c :: x2f :: r).
Proof. intro E. cbn [read_children]. rewrite E. reflexivity. Qed.

Lemma read_children_cons f s a b r :
  skip_ws s = a :: b :: r -> beqb a x3c && beqb b x2f = false ->
  read_children (S f) s =
  match read_elem f (a :: b :: r) with
  | Some (x, r1) =>
    match read_children f r1 with
    | Some (xs, r2) => Some (x :: xs, r2)
    | None => None
    end
  | None => None
  end.
Proof. intros E1 E2. cbn [read_children]. rewrite E1, E2. reflexivity. Qed.

(* ---------------------------------------------------------------- fuel *)
Definition cfuel (xf : xtree -> nat) :=
  fix go (l : list xtree) : nat := match l with [] => 1 | c :: r => S (xf c + go r) end.

Fixpoint xfuel (x : xtree) : nat :=
  match x with
  | XText _ attrs _ => 2 + List.length attrs
  | XElem _ attrs cs => 2 + List.length attrs + cfuel xfuel cs
  end.

Lemma xml_body_head ind x : xwf x = true ->
  exists b0 rest, xml_body ind x = x3c :: b0 :: rest /\ beqb b0 x2f = false.
Proof.
  destruct x as [n a cs | n a t]; cbn [xwf]; intro H.
  - repeat (apply andb_true_iff in H; destruct H as [H ?]).
    destruct n as [|b0 n']; [discriminate|].
    cbn [xname_ok] in H. apply andb_true_iff in H. destruct H as [H _].
    apply xname_start_facts in H. destruct H as [_ [_ [S0 _]]].
    destruct cs; cbn [xml_body app]; eexists; eexists; (split; [reflexivity | exact S0]).
  - repeat (apply andb_true_iff in H; destruct H as [H ?]).
    destruct n as [|b0 n']; [discriminate|].
    cbn [xname_ok] in H. apply andb_true_iff in H. destruct H as [H _].
    apply xname_start_facts in H. destruct H as [_ [_ [S0 _]]].
    cbn [xml_body app]. eexists; eexists; (split; [reflexivity | exact S0]).
Qed.

(* ---------------------------------------------------------------- the round trip *)
Definition child_w (ind : nat) (c : xtree) : bytes :=
  indent_bytes (ind + 2) ++ xml_body (ind + 2) c ++ [x0a].

Definition elem_reads (x : xtree) : Prop :=
  xwf x = true -> forall ind f tail, xfuel x <= f -> read_elem f (xml_body ind x ++ tail) = Some (x, tail).

Lemma children_read : forall cs ind f R,
  Forall elem_reads cs -> forallb xwf cs = true -> cfuel xfuel cs <= f ->
  read_children f (x0a :: flat_map (child_w ind) cs ++ indent_bytes ind ++ x3c :: x2f :: R)
  = Some (cs, x3c :: x2f :: R).
Proof.
  induction cs as [|c r IH]; intros ind f R HF Hwf Hf.
  - destruct f as [|f]; [cbn in Hf; lia|]. apply read_children_nil.
    cbn [flat_map app skip_ws]. change (is_ws x0a) with true. cbn iota.
    rewrite skip_ws_indent. reflexivity.
  - destruct f as [|f]; [cbn in Hf; lia|]. cbn [cfuel] in Hf.
    inversion HF as [|? ? Hc Hr]; subst. cbn [forallb] in Hwf.
    apply andb_true_iff in Hwf. destruct Hwf as [Hwc Hwr].
    destruct (xml_body_head (ind + 2) c Hwc) as [b0 [rest [Eb Hb0]]].
    assert (skip_ws (x0a :: flat_map (child_w ind) (c :: r) ++ indent_bytes ind ++ x3c :: x2f :: R)
            = x3c :: b0 :: rest ++ x0a :: flat_map (child_w ind) r ++ indent_bytes ind ++ x3c :: x2f :: R) as Es.
    { cbn [flat_map skip_ws]. change (is_ws x0a) with true. cbn iota.
      unfold child_w at 1. rewrite <- !app_assoc, skip_ws_indent, Eb. reflexivity. }
    rewrite (read_children_cons f _ _ _ _ Es) by (rewrite Hb0; apply andb_false_r).
    change (x3c :: b0 :: rest ++ x0a :: flat_map (child_w ind) r ++ indent_bytes ind ++ x3c :: x2f :: R)
      with ((x3c :: b0 :: rest) ++ x0a :: flat_map (child_w ind) r ++ indent_bytes ind ++ x3c :: x2f :: R).
    rewrite <- Eb. rewrite (Hc Hwc) by lia.
    rewrite (IH ind f R Hr Hwr) by lia. reflexivity.
Qed.

Lemma elem_reads_all : forall x, elem_reads x.
Proof.
  induction x as [n a cs IH | n a t] using xtree_ind2; unfold elem_reads; intros Hwf ind f tail Hf.
  - (* element content *)
    cbn [xwf] in Hwf. repeat (apply andb_true_iff in Hwf; destruct Hwf as [Hwf ?]).
    rename H into Hcs, H0 into Hnp, H1 into Hat, Hwf into Hn.
    apply negb_true_iff in Hnp. unfold attrs_ok in Hat. apply andb_true_iff in Hat. destruct Hat as [Han Hnd].
    destruct f as [|f]; [cbn in Hf; lia|]. cbn [xfuel] in Hf.
    destruct cs as [|c r].
    + cbn [xml_body]. cbn [app]. rewrite <- !app_assoc.
      rewrite (read_elem_unfold f _ n (flat_map attr_str a ++ [x20; x2f; x3e] ++ tail) a true tail).
      * rewrite Hnp. reflexivity.
      * apply take_xname_app; [apply xname_ok_bytes; exact Hn | apply attrs_head; reflexivity].
      * exact Hn.
      * apply read_attrs_spec; [exact Han | cbn [cfuel] in Hf; lia | reflexivity].
      * exact Hnd.
    + remember (c :: r) as l eqn:El.
      assert (xml_body ind (XElem n a l) ++ tail =
              x3c :: n ++ flat_map attr_str a ++ [x3e] ++
                (x0a :: flat_map (child_w ind) l ++ indent_bytes ind ++ x3c :: x2f :: n ++ x3e :: tail)) as Eb.
      { subst l. cbn [xml_body]. unfold child_w.
        repeat (progress (cbn [app]; rewrite <- ?app_assoc)). reflexivity. }
      rewrite Eb.
      rewrite (read_elem_unfold f _ n (flat_map attr_str a ++ [x3e] ++
                 (x0a :: flat_map (child_w ind) l ++ indent_bytes ind ++ x3c :: x2f :: n ++ x3e :: tail)) a false
                 (x0a :: flat_map (child_w ind) l ++ indent_bytes ind ++ x3c :: x2f :: n ++ x3e :: tail)).
      * rewrite Hnp. rewrite children_read by (assumption || lia).
        rewrite read_close_spec by exact Hn. reflexivity.
      * apply take_xname_app; [apply xname_ok_bytes; exact Hn | apply attrs_head; reflexivity].
      * exact Hn.
      * apply read_attrs_spec; [exact Han | lia | reflexivity].
      * exact Hnd.
  - (* character data *)
    cbn [xwf] in Hwf. repeat (apply andb_true_iff in Hwf; destruct Hwf as [Hwf ?]).
    rename H into Hp, H0 into Hat, Hwf into Hn.
    unfold attrs_ok in Hat. apply andb_true_iff in Hat. destruct Hat as [Han Hnd].
    destruct f as [|f]; [cbn in Hf; lia|]. cbn [xfuel] in Hf.
    assert (xml_body ind (XText n a t) ++ tail =
            x3c :: n ++ flat_map attr_str a ++ [x3e] ++
              (escape_spec t ++ x3c :: x2f :: n ++ x3e :: tail)) as Eb.
    { cbn [xml_body]. repeat (progress (cbn [app]; rewrite <- ?app_assoc)). reflexivity. }
    rewrite Eb.
    rewrite (read_elem_unfold f _ n (flat_map attr_str a ++ [x3e] ++ (escape_spec t ++ x3c :: x2f :: n ++ x3e :: tail))
               a false (escape_spec t ++ x3c :: x2f :: n ++ x3e :: tail)).
    + rewrite Hp. rewrite take_text_app by apply escape_no_active.
      unfold xml_unescape. rewrite unescape_escape. rewrite read_close_spec by exact Hn. reflexivity.
    + apply take_xname_app; [apply xname_ok_bytes; exact Hn | apply attrs_head; reflexivity].
    + exact Hn.
    + apply read_attrs_spec; [exact Han | lia | reflexivity].
    + exact Hnd.
Qed.

(* enough fuel: the reader starts with the length of its input *)
Lemma xfuel_le_body : forall x ind, xfuel x <= List.length (xml_body ind x).
Proof.
  induction x as [n a cs IH | n a t] using xtree_ind2; intro ind.
  - cbn [xfuel]. pose proof (attrs_len a) as La.
    destruct cs as [|c r].
    + cbn [xml_body cfuel]. cbn [List.length]. rewrite !app_length. cbn [List.length]. lia.
    + remember (c :: r) as l eqn:El.
      assert (forall l, Forall (fun x => forall ind, xfuel x <= List.length (xml_body ind x)) l ->
              cfuel xfuel l <= 1 + List.length (flat_map (fun c => indent_bytes (ind + 2) ++ xml_body (ind + 2) c ++ [x0a]) l)) as Hk.
      { induction l0 as [|c0 r0 IHr]; intro HF; cbn [cfuel flat_map]; [cbn; lia|].
        inversion HF as [|? ? Hc Hr]; subst. specialize (IHr Hr). specialize (Hc (ind + 2)).
        rewrite !app_length. cbn [List.length]. lia. }
      specialize (Hk l IH).
      assert (List.length (xml_body ind (XElem n a l)) =
              1 + List.length n + List.length (flat_map attr_str a) + 2
              + List.length (flat_map (fun c => indent_bytes (ind + 2) ++ xml_body (ind + 2) c ++ [x0a]) l)
              + List.length (indent_bytes ind) + 2 + List.length n + 1) as Elen.
      { subst l. cbn [xml_body]. cbn [List.length]. rewrite !app_length. cbn [List.length]. lia. }
      rewrite Elen. lia.
  - cbn [xfuel xml_body]. pose proof (attrs_len a) as La.
    cbn [List.length]. rewrite !app_length. cbn [List.length]. lia.
Qed.

Lemma xml_read_write x :
  xwf x = true -> xml_read (xml_prolog ++ xml_write 0 x) = Some x.
Proof.
  intro Hwf. unfold xml_write. change (indent_bytes 0) with (@nil byte). cbn [app].
  destruct (xml_body_head 0 x Hwf) as [b0 [rest [Eb Hb0]]].
  assert (xml_read (xml_prolog ++ xml_body 0 x ++ [x0a]) =
          match read_elem (List.length (xml_body 0 x ++ [x0a])) (xml_body 0 x ++ [x0a]) with
          | Some (y, r) => if forallb is_ws r then Some y else None
          | None => None
          end) as E.
  { rewrite Eb. reflexivity. }
  rewrite E. rewrite (elem_reads_all x Hwf).
  - reflexivity.
  - rewrite app_length. pose proof (xfuel_le_body x 0). lia.
Qed.

(* ---------------------------------------------------------------- the mirror tree is well-formed *)
Lemma spec_name_ok k : xname_ok (spec_name k) = true.
Proof. destruct k; reflexivity. Qed.

Definition attrs_fact (o : opts) (sp : sourcepos) (v : node_value) (par gp : option node_value) (ix : nat) : bool :=
  attrs_ok (spec_sp_attr o sp ++ spec_attrs v par gp ix)
  && Bool.eqb (is_preserve (spec_sp_attr o sp ++ spec_attrs v par gp ix)) (is_lit v).

Lemma attrs_fact_all o sp v par gp ix : attrs_fact o sp v par gp ix = true.
Proof.
  unfold attrs_fact, spec_sp_attr, is_lit.
  destruct (o_sourcepos o && negb (sl sp =? 0)%N);
  destruct v; cbn [spec_attrs spec_text]; try reflexivity.
  all: try (destruct l as [ty mo pad start delim bul tight task]; cbn [l_type l_task l_tight l_start l_delim];
            destruct ty, task; reflexivity).
  all: try (destruct cb as [fenced fc fl fo info lit]; cbn [cb_info cb_literal];
            destruct info as [|i0 info]; [reflexivity|]; destruct (bytes_eqb (i0 :: info) (B "math")); reflexivity).
  all: try (destruct (header_table par gp) as [t|]; [|reflexivity];
            destruct (nth_error (t_aligns t) ix) as [a|]; [|reflexivity]; destruct a; reflexivity).
  all: try (destruct symbol; reflexivity).
  all: try (destruct display; reflexivity).
  all: try (destruct a as [ty title ml fl fo]; cbn [a_type a_title a_multiline]; destruct title, ml; reflexivity).
Qed.

Lemma mirror_wf o : forall t par gp ix, xwf (tree_to_xtree_at o par gp ix t) = true.
Proof.
  induction t as [v sp ch IH] using node_ind2. intros par gp ix.
  cbn [tree_to_xtree_at].
  pose proof (attrs_fact_all o sp v par gp ix) as F. unfold attrs_fact, is_lit in F.
  apply andb_true_iff in F. destruct F as [Fa Fp]. apply eqb_prop in Fp.
  destruct (spec_text v) as [t|]; cbn [xwf]; rewrite spec_name_ok, Fa, Fp; cbn [andb negb]; [reflexivity|].
  assert (forall l i, Forall (fun t => forall par gp ix, xwf (tree_to_xtree_at o par gp ix t) = true) l ->
          forallb xwf (map_ix (fun i c => tree_to_xtree_at o (Some v) par i c) l i) = true) as Hk.
  { induction l as [|c r IHr]; intros i HF; cbn [map_ix forallb]; [reflexivity|].
    inversion HF as [|? ? Hc Hr]; subst. rewrite Hc, (IHr _ Hr). reflexivity. }
  apply Hk. exact IH.
Qed.

(* ---------------------------------------------------------------- well-formed, and mirrors the tree *)
Lemma xml_mirrors o t b :
  shape_ok t = true -> xml o t = Ok b -> xml_read b = Some (tree_to_xtree o t).
Proof.
  intros Hs Hx. rewrite (xml_is_write o t Hs) in Hx. inversion Hx; subst.
  apply xml_read_write. apply mirror_wf.
Qed.

Lemma xml_well_formed o t b :
  shape_ok t = true -> xml o t = Ok b -> exists x, xml_read b = Some x.
Proof. intros Hs Hx. eexists. apply (xml_mirrors o t b Hs Hx). Qed.

(* ---------------------------------------------------------------- the isomorphism, spelled out *)
(* the skeleton of an element tree / of a node tree: names (kinds) in order and nesting *)
Inductive rose := Rose (name : bytes) (children : list rose).

Fixpoint xshape (x : xtree) : rose :=
  match x with
  | XElem n _ cs => Rose n (map xshape cs)
  | XText n _ _ => Rose n []
  end.

Fixpoint kshape (t : node) : rose :=
  match t with Node v _ ch => Rose (spec_name (kind_of v)) (map kshape ch) end.

Lemma mirror_shape o : forall t par gp ix,
  literal_leaves t = true -> xshape (tree_to_xtree_at o par gp ix t) = kshape t.
Proof.
  induction t as [v sp ch IH] using node_ind2. intros par gp ix Hl.
  cbn [literal_leaves] in Hl. apply andb_true_iff in Hl. destruct Hl as [Hv Hch].
  cbn [tree_to_xtree_at kshape].
  destruct (spec_text v) as [t|]; cbn [xshape].
  - destruct ch; [reflexivity | discriminate].
  - f_equal. clear Hv. generalize 0 as i. induction ch as [|c r IHr]; intro i; cbn [map_ix map]; [reflexivity|].
    inversion IH as [|? ? Hc Hr]; subst. cbn [forallb] in Hch. apply andb_true_iff in Hch. destruct Hch as [H1 H2].
    rewrite (Hc _ _ _ H1), (IHr Hr H2). reflexivity.
Qed.

(* read back from the output: the skeleton of kinds, and per node the literal text *)
Lemma xml_iso o t b :
  shape_ok t = true -> xml o t = Ok b ->
  exists x, xml_read b = Some x /\ xshape x = kshape t.
Proof.
  intros Hs Hx. exists (tree_to_xtree o t). split; [apply (xml_mirrors o t b Hs Hx)|].
  unfold shape_ok in Hs. apply andb_true_iff in Hs. destruct Hs as [_ Hl].
  apply mirror_shape. exact Hl.
Qed.
