(* Proofs/CmWrite.v — write!(self, "..{}..", x) reaches `output` once per format piece, all with
   Escaping::Literal and wrap = false.  For that mode output of a concatenation equals the
   successive outputs of the pieces, which is why Model/Cm.v writes each write! as ONE write_all. *)
From Coq Require Import List NArith Bool Lia Arith Strings.String.
From V Require Import Base.Bytes Base.Res Gen.Ctype Gen.CmGen Model.Ast Model.Cm.
Import ListNotations.
Local Open Scope list_scope.

Section W.
  Variable width : N.
  Variable f : byte -> esc -> option byte -> st -> st.

  Lemma out_step_lit_rest c rest s :
    out_step width f false Literal c rest s = (fst (out_step width f false Literal c [] s), false).
  Proof.
    unfold out_step, step_main. rewrite andb_false_r. cbn [esc_eqb].
    destruct (beqb c x0a); reflexivity.
  Qed.

  Lemma out_step_lit_need_cr c s :
    need_cr (fst (out_step width f false Literal c [] s)) = need_cr s.
  Proof.
    unfold out_step, step_main, step_custom, step_prefix, wrap_check. rewrite andb_false_r. cbn [esc_eqb].
    destruct s. cbn.
    repeat match goal with |- context [if ?b then _ else _] => destruct b; cbn end; reflexivity.
  Qed.

  Lemma out_loop_lit_app a : forall b s,
    out_loop width f false Literal (a ++ b) false s =
    out_loop width f false Literal b false (out_loop width f false Literal a false s).
  Proof.
    induction a as [|c a IH]; intros b s; [reflexivity|].
    cbn [app out_loop andb]. rewrite (out_step_lit_rest c (a ++ b) s), (out_step_lit_rest c a s). apply IH.
  Qed.

  Lemma out_loop_lit_need_cr a : forall s,
    need_cr (out_loop width f false Literal a false s) = need_cr s.
  Proof.
    induction a as [|c a IH]; intro s; [reflexivity|].
    cbn [out_loop andb]. rewrite (out_step_lit_rest c a s). rewrite IH. apply out_step_lit_need_cr.
  Qed.
End W.

Lemma flush_loop_need_cr n : forall look s, need_cr s = N.of_nat n -> need_cr (flush_loop n look s) = 0%N.
Proof.
  induction n as [|n IH]; intros look s H; [exact H|]. cbn [flush_loop].
  destruct look as [|c r].
  - apply IH. destruct s. cbn in *. lia.
  - destruct (beqb c x0a).
    + apply IH. destruct s. cbn in *. lia.
    + apply IH. destruct s as [cu v vl rp pl co ncr lb bl bc nl it ce fi ol]. cbn in *.
      destruct v as [|l v']; [|destruct (beqb l x0a)]; cbn; lia.
Qed.

Lemma output_lit_need_cr width buf s : need_cr (output_lit width buf false s) = 0%N.
Proof.
  unfold output_lit, output_gen. cbn [andb]. rewrite out_loop_lit_need_cr.
  apply flush_loop_need_cr. rewrite N2Nat.id. reflexivity.
Qed.

Lemma output_gen_flushed width f buf s :
  need_cr s = 0%N -> output_gen width f buf false Literal s = out_loop width f false Literal buf false s.
Proof.
  intro H. unfold output_gen. cbn [andb]. rewrite H. change (N.ltb 1 0) with false. rewrite andb_false_r.
  rewrite H. reflexivity.
Qed.

Theorem output_lit_app width a b s :
  output_lit width (a ++ b) false s = output_lit width b false (output_lit width a false s).
Proof.
  assert (need_cr (output_lit width a false s) = 0%N) as Hn by apply output_lit_need_cr.
  unfold output_lit at 2. rewrite (output_gen_flushed _ _ _ _ Hn).
  unfold output_lit, output_gen. cbn [andb]. apply out_loop_lit_app.
Qed.

Theorem write_all_app width a b s :
  write_all width (a ++ b) s = write_all width b (write_all width a s).
Proof.
  destruct a as [|x a]; [reflexivity|].
  destruct b as [|y b]; [rewrite app_nil_r; reflexivity|].
  exact (output_lit_app width (x :: a) (y :: b) s).
Qed.
