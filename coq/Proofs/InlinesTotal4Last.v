(* Proofs/InlinesTotal4Last.v — C01, inline phase, fourth wave: the LAST byte each arm of parse_inline consumes.

     LB inp p          p >= 1 and the byte in front of p is not an ASCII letter
     alpha_back inp p  number of ASCII letters immediately in front of p (the `rewind` of url_match)
   Per arm: the position the arm leaves satisfies LB (the arms that do not end on a letter).  The arms that can end
   on a letter - the default text arm, the `w` arm, the two autolink arms - are treated in InlinesTotal4Inv.v.
   No axioms. *)
From Coq Require Import List NArith ZArith Arith Bool Strings.String Lia.
From V Require Import Base.Bytes Base.Res Gen.StrLeafGen Gen.Consts Gen.Special Model.Special
     Model.Scan Model.Strings Model.Entity Model.LinkUrl Model.AutolinkLeaf Model.Spx Model.Ast Model.Inlines
     Proofs.StrLeafProofs Proofs.StrLeafEntityNum Proofs.StrLeafEntity Proofs.StrLeafParse
     Proofs.InlinesProofs Proofs.InlinesMemo Proofs.InlinesTotalAutolink Proofs.InlinesTotal
     Proofs.InlinesTotal2Scan Proofs.InlinesTotal4Re.
Import ListNotations.
Local Open Scope list_scope.

(* ------------------------------------------------------------------ lists *)
Lemma firstn_S_nth_error {A} (l : list A) : forall q c, nth_error l q = Some c -> firstn (S q) l = firstn q l ++ [c].
Proof.
  induction l as [|x l IH]; intros [|q] c E; cbn in E; try discriminate.
  - inversion E; subst. reflexivity.
  - cbn [firstn app]. f_equal. apply IH, E.
Qed.

Lemma count_while_b_prefix f : forall (l : bytes) j, j < count_while_b f l -> exists c, nth_error l j = Some c /\ f c = true.
Proof.
  induction l as [|x l IH]; intros j H; cbn [count_while_b] in H; [lia|].
  destruct (f x) eqn:E; [|lia]. destruct j; [exists x; split; [reflexivity|exact E]|].
  cbn [nth_error]. apply IH. lia.
Qed.

(* ------------------------------------------------------------------ entity: the match ends with `;` *)
Lemma named_last text e n : named text = Some (e, n) -> exists q, n = S q /\ nth_error text q = Some x3b.
Proof.
  unfold named. set (size := Nat.min (List.length text) entity_max_length).
  destruct (named_scan (skipn entity_min_length text) entity_min_length (size - entity_min_length)) as [j|] eqn:E; [|discriminate].
  destruct (lookup (firstn j text)) as [e'|]; [|discriminate]. intro H. inversion H; subst e' n. clear H.
  apply named_scan_spec in E. destruct E as [H1 [H2 [H3 H4]]].
  rewrite skipn_length in H3. rewrite nth_skipn_local in H4.
  replace (entity_min_length + (j - entity_min_length)) with j in H4 by lia.
  exists j. split; [reflexivity|]. rewrite <- H4. apply nth_error_nth'. lia.
Qed.

Lemma entity_unescape_last text chs n :
  Entity.unescape text = Ok (Some (chs, n)) -> exists q, n = S q /\ nth_error text q = Some x3b.
Proof.
  unfold Entity.unescape.
  destruct text as [|t0 [|t1 [|t2 tl]]]; try (intro H; inversion H as [H']; exact (named_last _ _ _ H')).
  set (text := t0 :: t1 :: t2 :: tl).
  destruct (beqb t0 x23) eqn:E0; [|intro H; inversion H as [H']; exact (named_last _ _ _ H')].
  apply beqb_eq in E0.
  destruct (sl_isdigit t1) eqn:Ed.
  - destruct (dec_digits_spec (skipn 1 text) 0 0%N) as [pre [rest [cp [H1 [H2 H3]]]]].
    rewrite H1. cbn [bind]. cbn [plus].
    destruct rest as [|c rest']; [intro H; inversion H as [H']; exact (named_last _ _ _ H')|].
    destruct (beqb c x3b && in_digit_limit (beqb t1 x78 || beqb t1 x58) (List.length pre)) eqn:Ec;
      [|intro H; inversion H as [H']; exact (named_last _ _ _ H')].
    intro H. inversion H; subst chs n. clear H.
    apply andb_true_iff in Ec. destruct Ec as [Ec _]. apply beqb_eq in Ec. subst c.
    exists (S (List.length pre)). split; [reflexivity|].
    unfold text in *. cbn [skipn] in H2. cbn [nth_error]. rewrite H2.
    rewrite nth_error_app2 by lia. rewrite Nat.sub_diag. reflexivity.
  - destruct (beqb t1 x78 || beqb t1 x58) eqn:Ex.
    + destruct (hex_digits_spec (skipn 2 text) 0 0%N) as [pre [rest [cp [H1 [H2 H3]]]]].
      rewrite H1. cbn [bind]. cbn [plus].
      destruct rest as [|c rest']; [intro H; inversion H as [H']; exact (named_last _ _ _ H')|].
      destruct (beqb c x3b && in_digit_limit true (List.length pre)) eqn:Ec;
        [|intro H; inversion H as [H']; exact (named_last _ _ _ H')].
      intro H. inversion H; subst chs n. clear H.
      apply andb_true_iff in Ec. destruct Ec as [Ec _]. apply beqb_eq in Ec. subst c.
      exists (S (S (List.length pre))). split; [reflexivity|].
      unfold text in *. cbn [skipn] in H2. cbn [nth_error]. rewrite H2.
      rewrite nth_error_app2 by lia. rewrite Nat.sub_diag. reflexivity.
    + cbn [bind]. unfold text at 1. subst t0. cbn [beqb andb].
      intro H; inversion H as [H']; exact (named_last _ _ _ H').
Qed.

Section Last.
Variable memo : bool.
Variable o : iopts.
Variable u : oracle.
Variable inp : bytes.
Variable lo : list N.
Variable refmap : list (bytes * (bytes * bytes)).
Variable maxref : N.

Definition alpha_back (p : nat) : nat := count_while_b sl_isalpha (rev (firstn p inp)).

Definition LB (p : nat) : Prop := exists q c, p = S q /\ nth_error inp q = Some c /\ sl_isalpha c = false.

Lemma LB_S q c : nth_error inp q = Some c -> sl_isalpha c = false -> LB (S q).
Proof. intros E H. exists q, c. auto. Qed.

Lemma LB_alpha_back p : LB p -> alpha_back p = 0.
Proof.
  intros (q & c & -> & E & H). unfold alpha_back. rewrite (firstn_S_nth_error _ _ _ E), rev_app_distr.
  cbn [rev app count_while_b]. rewrite H. reflexivity.
Qed.

Lemma LB_count f p :
  (forall c, f c = true -> sl_isalpha c = false) -> 1 <= count_while_b f (skipn p inp) ->
  LB (p + count_while_b f (skipn p inp)).
Proof.
  intros Hf Hn. set (n := count_while_b f (skipn p inp)) in *.
  destruct (count_while_b_prefix f (skipn p inp) (n - 1)) as (c & E & Hc); [unfold n; lia|].
  rewrite nth_error_skipn in E. exists (p + (n - 1)), c. split; [lia|]. split; [exact E|apply Hf, Hc].
Qed.

Lemma LB_count_eq c p : sl_isalpha c = false -> 1 <= count_eq inp c p -> LB (p + count_eq inp c p).
Proof.
  intros Hc Hn. unfold count_eq in *. apply LB_count; [|exact Hn].
  intros x Hx. apply beqb_eq in Hx. subst x. exact Hc.
Qed.

Lemma LB_skip_spaces p : LB p -> LB (skip_spaces inp p).
Proof.
  intro H. unfold skip_spaces.
  destruct (count_while_b (fun c => beqb c x20 || beqb c x09) (skipn p inp)) as [|k] eqn:E.
  - rewrite Nat.add_0_r. exact H.
  - rewrite <- E. apply LB_count; [|lia].
    intros c Hc. apply orb_true_iff in Hc. destruct Hc as [Hc|Hc]; apply beqb_eq in Hc; subst c; reflexivity.
Qed.

Ltac fin :=
  cbn [pos set_pos set_linecol set_flags set_lineoff set_refsize set_delims set_brackets set_within set_bt set_nlo set_sibs
       push_item fresh_id fst snd].

(* ------------------------------------------------------------------ newline *)
Lemma last_newline s s' n c :
  nth_error inp (pos s) = Some c -> beqb c x0d || beqb c x0a = true ->
  handle_newline inp s = Ok (s', n) -> LB (pos s').
Proof.
  unfold handle_newline. intros E0 Hc H. rewrite E0 in H.
  destruct (beqb c x0d) eqn:Ecr.
  - destruct (nth_error inp (S (pos s))) as [c1|] eqn:E1; [|discriminate].
    apply beqb_eq in Ecr. subst c.
    inv; fin; apply LB_skip_spaces.
    all: destruct (beqb c1 x0a) eqn:Elf;
      [apply beqb_eq in Elf; subst c1; exact (LB_S _ _ E1 eq_refl) | exact (LB_S _ _ E0 eq_refl)].
  - rewrite E0 in H. simpl in Hc. rewrite Hc in H. apply beqb_eq in Hc. subst c.
    inv; fin; apply LB_skip_spaces; exact (LB_S _ _ E0 eq_refl).
Qed.

(* ------------------------------------------------------------------ backslash *)
Lemma ispunct_not_alpha : forall c, sl_ispunct c = true -> sl_isalpha c = false.
Proof.
  intros c H. pose proof (forall_bytes (fun b => implb (sl_ispunct b) (negb (sl_isalpha b))) eq_refl c) as K.
  cbv beta in K. rewrite H in K. cbn [implb] in K. apply negb_true_iff in K. exact K.
Qed.

Lemma skip_line_end_LB p p2 ok : skip_line_end inp p = (p2, ok) -> eof inp p = false -> ok = true -> LB p2.
Proof.
  unfold skip_line_end, peek_eq, peek_is, peek. intros H He Hok. inversion H as [[H1 H2]]. clear H. rewrite H1 in H2.
  rewrite Hok in H2. clear Hok. revert H1 H2.
  destruct (nth_error inp p) as [c1|] eqn:E1.
  - destruct (beqb x0d c1) eqn:Ecr.
    + apply beqb_eq in Ecr. subst c1.
      destruct (nth_error inp (S p)) as [c2|] eqn:E2.
      * destruct (beqb x0a c2) eqn:Elf; intros <- _.
        -- apply beqb_eq in Elf. subst c2. exact (LB_S _ _ E2 eq_refl).
        -- exact (LB_S _ _ E1 eq_refl).
      * intros <- _. exact (LB_S _ _ E1 eq_refl).
    + rewrite E1. destruct (beqb x0a c1) eqn:Elf; intros <- K.
      * apply beqb_eq in Elf. subst c1. exact (LB_S _ _ E1 eq_refl).
      * rewrite Nat.ltb_irrefl, He in K. discriminate K.
  - rewrite E1. intros <- K. rewrite Nat.ltb_irrefl, He in K. discriminate K.
Qed.

Lemma last_backslash s s' n :
  nth_error inp (pos s) = Some x5c ->
  handle_backslash o inp s = Ok (s', n) -> LB (pos s').
Proof.
  unfold handle_backslash. intros E0 H.
  destruct (peek_is inp (S (pos s)) sl_ispunct) eqn:Ep.
  - unfold peek_is, peek in Ep. unfold peek in H.
    destruct (nth_error inp (S (pos s))) as [c|] eqn:E1; [|discriminate].
    assert (LB (S (S (pos s)))) as L by exact (LB_S _ _ E1 (ispunct_not_alpha _ Ep)).
    inv; fin; exact L.
  - destruct (skip_line_end inp (S (pos s))) as [p2 ok] eqn:Esl.
    destruct (negb (eof inp (S (pos s))) && ok) eqn:Eok.
    + apply andb_true_iff in Eok. destruct Eok as [Ee Eok]. apply negb_true_iff in Ee.
      pose proof (skip_line_end_LB _ _ _ Esl Ee Eok) as L.
      inv; fin; apply LB_skip_spaces; exact L.
    + inv; fin; exact (LB_S _ _ E0 eq_refl).
Qed.

(* ------------------------------------------------------------------ entity *)
Lemma last_entity s s' n :
  nth_error inp (pos s) = Some x26 -> handle_entity inp s = Ok (s', n) -> LB (pos s').
Proof.
  unfold handle_entity, from. intros E0 H.
  destruct (Nat.ltb (len inp) (S (pos s))); [discriminate|]. cbn [bind] in H.
  destruct (Entity.unescape (skipn (S (pos s)) inp)) as [[[ent l]|]| |] eqn:Eu; cbn [bind] in H; try discriminate.
  - apply entity_unescape_last in Eu. destruct Eu as (q & -> & Eq). rewrite nth_error_skipn in Eq.
    inv; fin. exists (S (pos s) + q), x3b. split; [lia|]. split; [exact Eq|reflexivity].
  - inv; fin. exact (LB_S _ _ E0 eq_refl).
Qed.

(* ------------------------------------------------------------------ backticks *)
Lemma stcb_last s otl e s2 :
  bq inp (pos s) = false -> scan_to_closing_backtick memo inp s otl = (Some e, s2) -> LB e.
Proof.
  intros Hb H. unfold scan_to_closing_backtick in H.
  destruct (Nat.ltb maxbt otl); [discriminate|].
  destruct (memo && scanned s && Nat.leb (nth otl (bt s) 0) (pos s)); [discriminate|].
  destruct (stcb_loop _ _ _ _ _ _) as [[r b'] sc] eqn:El. inversion H; subst. clear H.
  apply stcb_found0 in El; [|exact Hb]. destruct El as [(H1 & H2 & _) Hlt].
  assert (bq inp (e - 1) = true) as Hq by (apply H2; lia).
  unfold bq in Hq. destruct (nth_error inp (e - 1)) as [c|] eqn:Ec; [|discriminate].
  apply beqb_eq in Hq. subst c. exists (e - 1), x60. split; [lia|]. split; [exact Ec|reflexivity].
Qed.

Lemma last_backticks s s' n :
  nth_error inp (pos s) = Some x60 -> handle_backticks memo inp lo s = Ok (s', n) -> LB (pos s').
Proof.
  intros E0 H. unfold handle_backticks in H.
  pose proof (count_eq_pos inp x60 (pos s) x60 E0 eq_refl) as Hn.
  assert (bq inp (pos s + count_eq inp x60 (pos s)) = false) as Hb.
  { unfold bq, count_eq. pose proof (count_while_b_stop (beqb x60) (skipn (pos s) inp)) as K.
    rewrite nth_error_skipn in K.
    destruct (nth_error inp (pos s + count_while_b (beqb x60) (skipn (pos s) inp))) as [c|]; [|reflexivity]. rewrite beqb_sym. exact K. }
  destruct (scan_to_closing_backtick memo inp (set_pos s (pos s + count_eq inp x60 (pos s))) (count_eq inp x60 (pos s))) as [e s2] eqn:Es.
  destruct e as [endpos|].
  - apply stcb_last in Es; [|exact Hb].
    inv. apply adjust_pos in H. rewrite H. cbn [pos set_pos]. exact Es.
  - inv. cbn [pos set_pos]. apply LB_count_eq; [reflexivity|exact Hn].
Qed.

(* ------------------------------------------------------------------ pointy brace
   the CDATA, declaration and processing-instruction forms take `scanner match + k` bytes: they are excluded here
   by the hypothesis that the byte after `<` is not `?`, and is `!` only in front of two hyphens *)
Lemma peek_eq_nth q c : peek_eq inp q c = true -> nth_error inp q = Some c.
Proof.
  unfold peek_eq, peek_is, peek. destruct (nth_error inp q) as [b|]; [|discriminate].
  intro H. apply beqb_eq in H. subst b. reflexivity.
Qed.

Lemma peek_eq_LB q c : peek_eq inp q c = true -> sl_isalpha c = false -> LB (S q).
Proof. intros H Hc. apply peek_eq_nth in H. exact (LB_S _ _ H Hc). Qed.

Lemma LB_gt q m c : 1 <= m -> nth_error (skipn q inp) (m - 1) = Some c -> is_gt c = true -> LB (q + m).
Proof.
  intros Hm E Hc. rewrite nth_error_skipn in E. apply beqb_eq in Hc. subst c.
  exists (q + (m - 1)), x3e. split; [lia|]. split; [exact E|reflexivity].
Qed.

Definition pointy_easy (p : nat) : Prop :=
  forall c, nth_error inp p = Some c ->
    beqb c x3f = false /\ (beqb c x21 = true -> peek_eq inp (S p) x2d && peek_eq inp (p + 2) x2d = true).

(* what is needed of the three forms that take `scanner match + k` bytes (p = position behind the `<`) *)
Definition pointy_hard_ok (p : nat) : Prop :=
  (forall m, nth_error inp p = Some x21 -> nth_error inp (S p) = Some x5b ->
     scan_html_cdata (skipn (p + 2) inp) = Some m -> Nat.ltb (len inp) (p + m + 5) = false -> LB (p + (m + 5)))
  /\ (forall m, nth_error inp p = Some x21 -> peek_eq inp (S p) x2d && peek_eq inp (p + 2) x2d = false ->
        scan_html_declaration (skipn (S p) inp) = Some m -> Nat.ltb (len inp) (p + m + 2) = false -> LB (p + (m + 2)))
  /\ (nth_error inp p = Some x3f ->
        Nat.ltb (len inp) (p + opt0 (scan_html_processing_instruction (skipn (S p) inp)) + 3) = false ->
        LB (p + (opt0 (scan_html_processing_instruction (skipn (S p) inp)) + 3))).

Lemma pointy_easy_hard_ok p : pointy_easy p -> pointy_hard_ok p.
Proof.
  intro H. split; [|split].
  - intros m E1 E2 _ _. destruct (H _ E1) as [_ K]. specialize (K eq_refl).
    apply andb_true_iff in K. destruct K as [K _]. apply peek_eq_nth in K. rewrite E2 in K. discriminate K.
  - intros m E1 E2 _ _. destruct (H _ E1) as [_ K]. specialize (K eq_refl). rewrite K in E2. discriminate E2.
  - intros E1 _. destruct (H _ E1) as [K _]. discriminate K.
Qed.

Lemma last_pointy s s' n :
  nth_error inp (pos s) = Some x3c -> pointy_hard_ok (S (pos s)) ->
  handle_pointy_brace inp lo s = Ok (s', n) -> LB (pos s').
Proof.
  unfold handle_pointy_brace, from. intros E0 Hx H.
  destruct (Nat.ltb (len inp) (S (pos s))); [discriminate|]. cbn [bind] in H.
  destruct (scan_autolink_uri (skipn (S (pos s)) inp)) as [m|] eqn:Eu.
  { apply scan_autolink_uri_last in Eu. destruct Eu as (H1 & H2 & c & Ec & Hc).
    inv; fin. match goal with |- LB ?x => replace x with (S (pos s) + m) by lia end. eapply LB_gt; eassumption. }
  destruct (scan_autolink_email (skipn (S (pos s)) inp)) as [m|] eqn:Ee.
  { apply scan_autolink_email_last in Ee. destruct Ee as (H1 & H2 & c & Ec & Hc).
    inv; fin. match goal with |- LB ?x => replace x with (S (pos s) + m) by lia end. eapply LB_gt; eassumption. }
  match type of H with (let '(_, _) := ?x in _) = _ => remember x as ml eqn:Eml; destruct ml as [ml [[[fc fd] fp] fm]] end.
  assert (forall m, ml = Some m -> LB (S (pos s) + m)) as Hml.
  { intros m ->. destruct Hx as (Hcd & Hde & Hpi).
    destruct (Nat.leb (S (pos s) + 2) (len inp)); [|discriminate Eml].
    destruct (nth_error inp (S (pos s))) as [c|] eqn:Ec; [|discriminate Eml].
    destruct (nth_error inp (S (S (pos s)))) as [c1|] eqn:Ec1; [|discriminate Eml].
    assert (forall k, scan_html_tag (skipn (S (pos s)) inp) = Some k -> LB (S (pos s) + k)) as Htag.
    { intros k Hk. apply scan_html_tag_last in Hk. destruct Hk as (H1 & H2 & c' & Ec' & Hc'). eapply LB_gt; eassumption. }
    destruct (beqb c x21 && negb (f_comment s)) eqn:Eb.
    - apply andb_true_iff in Eb. destruct Eb as [Eb _]. apply beqb_eq in Eb. subst c.
      destruct (beqb c1 x2d && peek_eq inp (S (pos s) + 2) x2d) eqn:Ecm.
      + destruct (peek_eq inp (S (pos s) + 3) x3e) eqn:E3.
        { inversion Eml; subst. replace (S (pos s) + 4) with (S (S (pos s) + 3)) by lia. exact (peek_eq_LB _ _ E3 eq_refl). }
        destruct (peek_eq inp (S (pos s) + 3) x2d && peek_eq inp (S (pos s) + 4) x3e) eqn:E4.
        { apply andb_true_iff in E4. destruct E4 as [_ E4]. inversion Eml; subst.
          replace (S (pos s) + 5) with (S (S (pos s) + 4)) by lia. exact (peek_eq_LB _ _ E4 eq_refl). }
        destruct (scan_html_comment (skipn (S (S (pos s))) inp)) as [k|] eqn:Ek; [|discriminate Eml].
        inversion Eml; subst. apply scan_html_comment_last in Ek. destruct Ek as (H1 & H2 & c' & Ec' & Hc').
        replace (S (pos s) + S k) with (S (S (pos s)) + k) by lia. eapply LB_gt; eassumption.
      + destruct (beqb c1 x5b) eqn:Ebr.
        * apply beqb_eq in Ebr. subst c1.
          destruct (negb (f_cdata s) && Nat.leb (S (pos s) + 3) (len inp)); [|discriminate Eml].
          destruct (scan_html_cdata (skipn (S (pos s) + 2) inp)) as [k|] eqn:Ek; [|discriminate Eml].
          destruct (Nat.ltb (len inp) (S (pos s) + k + 5)) eqn:El; [discriminate Eml|].
          inversion Eml; subst. apply Hcd; first [reflexivity|assumption].
        * destruct (negb (f_decl s)); [|discriminate Eml].
          destruct (scan_html_declaration (skipn (S (S (pos s))) inp)) as [k|] eqn:Ek; [|discriminate Eml].
          destruct (Nat.ltb (len inp) (S (pos s) + k + 2)) eqn:El; [discriminate Eml|].
          inversion Eml; subst. apply Hde; try first [reflexivity|assumption].
          unfold peek_eq at 1. unfold peek_is, peek. try rewrite Ec1. rewrite beqb_sym. exact Ecm.
    - destruct (beqb c x3f) eqn:Eq.
      + apply beqb_eq in Eq. subst c.
        destruct (negb (f_pi s)); [|discriminate Eml]. cbv zeta in Eml.
        destruct (Nat.ltb (len inp) (S (pos s) + opt0 (scan_html_processing_instruction (skipn (S (S (pos s))) inp)) + 3)) eqn:El;
          [discriminate Eml|].
        inversion Eml; subst. apply Hpi; first [reflexivity|assumption].
      + inversion Eml as [[K1 K2]]. apply Htag. symmetry. exact K1. }
  destruct ml as [m|].
  - specialize (Hml m eq_refl). inv. apply adjust_pos in H. rewrite H. fin. exact Hml.
  - inv. fin. exact (LB_S _ _ E0 eq_refl).
Qed.

(* ------------------------------------------------------------------ delimiters, smart punctuation *)
Lemma last_delim s c s' n d :
  nth_error inp (pos s) = Some c -> sl_isalpha c = false ->
  handle_delim o u inp s c = Ok (s', n, d) -> LB (pos s').
Proof.
  intros E0 Hc H. unfold handle_delim in H.
  assert (beqb c c = true) as Hcc by (apply beqb_eq; reflexivity).
  pose proof (count_eq_pos inp c (pos s) c E0 Hcc) as Hn.
  destruct (scan_delims o u inp (pos s) c) as [[[p' nd] co] cc] eqn:Es.
  assert (LB p') as L.
  { unfold scan_delims in Es. cbv zeta in Es.
    assert (p' = pos s + (if beqb c x27 || beqb c x22 then 1 else count_eq inp c (pos s))) as ->.
    { repeat match type of Es with (if ?b then _ else _) = _ => destruct b end; inversion Es; reflexivity. }
    destruct (beqb c x27 || beqb c x22).
    - rewrite Nat.add_1_r. exact (LB_S _ _ E0 Hc).
    - apply LB_count_eq; assumption. }
  inv; fin; exact L.
Qed.

Lemma LB_count_eq0 c p : sl_isalpha c = false -> LB p -> LB (p + count_eq inp c p).
Proof.
  intros Hc L. destruct (count_eq inp c p) as [|k] eqn:E; [rewrite Nat.add_0_r; exact L|].
  rewrite <- E. apply LB_count_eq; [exact Hc|lia].
Qed.

Lemma last_hyphen s s' n :
  nth_error inp (pos s) = Some x2d -> handle_hyphen o inp s = Ok (s', n) -> LB (pos s').
Proof.
  unfold handle_hyphen. intros E0 H.
  pose proof (LB_S _ _ E0 eq_refl) as L.
  inv; fin; try exact L.
  all: match goal with |- LB ?x => replace x with (S (pos s) + count_eq inp x2d (S (pos s))) by lia end.
  all: apply LB_count_eq0; [reflexivity|exact L].
Qed.

Lemma last_period s s' n :
  nth_error inp (pos s) = Some x2e -> handle_period o inp s = Ok (s', n) -> LB (pos s').
Proof.
  unfold handle_period. intros E0 H.
  destruct (io_smart o && peek_eq inp (S (pos s)) x2e) eqn:E1.
  - apply andb_true_iff in E1. destruct E1 as [_ E1].
    destruct (peek_eq inp (S (S (pos s))) x2e) eqn:E2; inv; fin.
    + exact (peek_eq_LB _ _ E2 eq_refl).
    + exact (peek_eq_LB _ _ E1 eq_refl).
  - inv; fin. exact (LB_S _ _ E0 eq_refl).
Qed.

(* ------------------------------------------------------------------ dollars *)
Lemma count_stop_dollar p :
  p + count_while_b (fun c => negb (beqb c x24)) (skipn p inp) < len inp ->
  nth_error inp (p + count_while_b (fun c => negb (beqb c x24)) (skipn p inp)) = Some x24.
Proof.
  intro Hl. pose proof (count_while_b_stop (fun c => negb (beqb c x24)) (skipn p inp)) as K.
  rewrite nth_error_skipn in K.
  destruct (nth_error inp (p + count_while_b (fun c => negb (beqb c x24)) (skipn p inp))) as [c|] eqn:E.
  - apply negb_false_iff in K. apply beqb_eq in K. subst c. reflexivity.
  - apply nth_error_None in E. unfold len in Hl. lia.
Qed.

Lemma stccd_last : forall fuel p e, stccd_loop inp fuel p = Ok (Some e) -> LB e.
Proof.
  induction fuel as [|f IH]; intros p e H; cbn [stccd_loop] in H; [discriminate|].
  destruct (Nat.leb (len inp) _) eqn:El; [discriminate|]. apply Nat.leb_gt in El.
  pose proof (count_stop_dollar p El) as Ed.
  inv1. destruct (nth_error inp a) as [c|]; [|discriminate].
  destruct (beqb c x60).
  - inversion H; subst. exact (LB_S _ _ Ed eq_refl).
  - eapply IH. exact H.
Qed.

Lemma stcd_last : forall fuel p odl e, 1 <= odl -> stcd_loop inp fuel p odl = Ok (Some e) -> LB e.
Proof.
  induction fuel as [|f IH]; intros p odl e Ho H; cbn [stcd_loop] in H; [discriminate|].
  destruct (Nat.leb (len inp) _) eqn:El; [discriminate|]. apply Nat.leb_gt in El.
  set (p1 := p + count_while_b (fun c => negb (beqb c x24)) (skipn p inp)) in *.
  inv1. destruct (nth_error inp a) as [c|]; [|discriminate].
  destruct (Nat.eqb odl 1 && sl_isspace c); [discriminate|].
  destruct (Nat.eqb odl 1 && beqb c x5c); [eapply IH; [exact Ho|exact H]|].
  cbv zeta in H.
  destruct (Nat.eqb odl 1 && peek_is inp (p1 + count_eq_limit inp x24 p1 odl) sl_isdigit); [discriminate|].
  destruct (Nat.eqb (count_eq_limit inp x24 p1 odl) odl) eqn:En; [|eapply IH; [exact Ho|exact H]].
  apply Nat.eqb_eq in En. inversion H; subst e. rewrite En.
  unfold count_eq_limit in En.
  destruct (count_while_b_prefix (beqb x24) (skipn p1 inp) (odl - 1)) as (c' & Ec' & Hc').
  { unfold count_eq in En. lia. }
  rewrite nth_error_skipn in Ec'. apply beqb_eq in Hc'. subst c'.
  exists (p1 + (odl - 1)), x24. split; [lia|]. split; [exact Ec'|reflexivity].
Qed.

Lemma last_dollars s s' n :
  nth_error inp (pos s) = Some x24 -> handle_dollars o inp lo s = Ok (s', n) -> LB (pos s').
Proof.
  intros E0 H. unfold handle_dollars in H.
  pose proof (count_eq_pos inp x24 (pos s) x24 E0 eq_refl) as Hn.
  pose proof (LB_S _ _ E0 eq_refl) as L1.
  pose proof (LB_count_eq x24 (pos s) eq_refl Hn) as L2.
  inv1. { inv; fin; exact L1. }
  inv1. inv1.
  all: match type of H with match ?e with _ => _ end = _ => destruct e as [endpos|] eqn:Ee end.
  all: try (assert (LB endpos) as Lend by
      (match type of Ee with match ?a with _ => _ end = _ => destruct a as [ep|] eqn:Ea; [|discriminate] end;
       match type of Ee with (if ?b then _ else _) = _ => destruct b eqn:El; [|discriminate] end;
       inversion Ee; subst;
       first [ eapply stccd_last; eassumption
             | unfold scan_to_closing_dollar in *;
               repeat match goal with Hs : (if ?b then _ else _) = Ok (Some _) |- _ => destruct b; [discriminate Hs|] end;
               eapply stcd_last; [exact Hn|eassumption] ])).
  all: inv; try (apply adjust_pos in H; rewrite H); fin; first [exact Lend | exact L1 | exact L2 | idtac].
Qed.

(* ------------------------------------------------------------------ wikilinks *)
Lemma last_wikilink s s' n : handle_wikilink o inp s = Ok (Some (s', n)) -> LB (pos s').
Proof.
  unfold handle_wikilink. intro H.
  destruct (wikilink_url_link_label o inp (pos s)) as [[[url ll] p']|] eqn:E; [|discriminate].
  assert (LB p') as L.
  { unfold wikilink_url_link_label in E.
    destruct (negb _); [discriminate|].
    destruct (wikilink_component inp (pos s)) as [p1|] eqn:E1; [|discriminate].
    destruct (peek_eq inp p1 x5d && peek_eq inp (S p1) x5d) eqn:Ea.
    { apply andb_true_iff in Ea. destruct Ea as [_ Ea]. inversion E; subst.
      replace (p1 + 2) with (S (S p1)) by lia. exact (peek_eq_LB _ _ Ea eq_refl). }
    destruct (negb _); [discriminate|].
    destruct (wikilink_component inp p1) as [p2|] eqn:E2; [|discriminate].
    destruct (peek_eq inp p2 x5d && peek_eq inp (S p2) x5d) eqn:Eb; [|discriminate].
    apply andb_true_iff in Eb. destruct Eb as [_ Eb].
    assert (LB (p2 + 2)) as L by (replace (p2 + 2) with (S (S p2)) by lia; exact (peek_eq_LB _ _ Eb eq_refl)).
    destruct (wikilinks_mode o) as [[|]|]; inversion E; subst; exact L. }
  inv; fin; exact L.
Qed.

(* ------------------------------------------------------------------ close bracket *)
Lemma label_loop_stop stop : forall rest skip p length p' c,
  rest = skipn p inp -> label_loop stop rest skip p length = Some (p', Some c) -> nth_error inp p' = Some c.
Proof.
  induction rest as [|x r IH]; intros skip p length p' c Hr H; cbn [label_loop] in H; [inversion H|].
  symmetry in Hr. apply skipn_cons_nth in Hr. destruct Hr as [Hx Hr]. symmetry in Hr.
  destruct skip.
  - destruct (stop x); [inversion H; subst; exact Hx|].
    destruct (beqb x x5c).
    + destruct r as [|c2 r2].
      * destruct (Nat.ltb maxlabel (length + 1)); [discriminate|]. eapply IH; eassumption.
      * destruct (sl_ispunct c2).
        -- destruct (Nat.ltb maxlabel (length + 2)); [discriminate|]. eapply IH; eassumption.
        -- destruct (Nat.ltb maxlabel (length + 1)); [discriminate|]. eapply IH; eassumption.
    + destruct (Nat.ltb maxlabel (length + 1)); [discriminate|]. eapply IH; eassumption.
  - eapply IH; eassumption.
Qed.

Lemma link_label_LB p l p' : link_label inp p = Some (l, p') -> LB p'.
Proof.
  unfold link_label. destruct (negb _); [discriminate|].
  destruct (label_loop _ _ _ _ _) as [[q [c|]]|] eqn:E; try discriminate.
  destruct (beqb c x5d) eqn:Ec; [|discriminate]. intro H; inversion H; subst.
  apply label_loop_stop in E; [|reflexivity]. apply beqb_eq in Ec. subst c. exact (LB_S _ _ E eq_refl).
Qed.

Lemma last_close_bracket s0 s' n :
  nth_error inp (pos s0) = Some x5d ->
  handle_close_bracket o u inp refmap maxref s0 = Ok (s', n) -> LB (pos s').
Proof.
  unfold handle_close_bracket. intros E0 H. cbv zeta in H. cbn [pos set_pos] in H.
  pose proof (LB_S _ _ E0 eq_refl) as L1.
  assert (forall q, (Nat.ltb q (len inp) && peek_eq inp q x29) = true -> LB (S q)) as Lp.
  { intros q Hq. apply andb_true_iff in Hq. destruct Hq as [_ Hq]. exact (peek_eq_LB _ _ Hq eq_refl). }
  destruct (link_label inp (S (pos s0))) as [[l pl]|] eqn:El.
  - apply link_label_LB in El.
    inv;
      repeat match goal with
             | Hc : close_bracket_match _ _ _ _ _ _ = Ok _ |- _ => apply close_bracket_match_pos in Hc; rewrite Hc; clear Hc
             | Hr : ref_lookup _ _ _ _ = Ok _ |- _ => apply ref_lookup_pos in Hr; try rewrite Hr
             end; unfold pop_bracket, fresh_id in *; inv; fin;
      first [exact L1 | exact El | (apply Lp; assumption) | idtac].
  - inv;
      repeat match goal with
             | Hc : close_bracket_match _ _ _ _ _ _ = Ok _ |- _ => apply close_bracket_match_pos in Hc; rewrite Hc; clear Hc
             | Hr : ref_lookup _ _ _ _ = Ok _ |- _ => apply ref_lookup_pos in Hr; try rewrite Hr
             end; unfold pop_bracket, fresh_id in *; inv; fin;
      first [exact L1 | (apply Lp; assumption) | idtac].
Qed.

End Last.
