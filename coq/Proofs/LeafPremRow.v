(* Proofs/LeafPremRow.v — C01, the premises of the inline phase, part 2: table.rs `row`.
   Every cell `row s` answers is valid UTF-8 (the from_utf8 of the Ok path), holds only bytes of s, holds neither CR nor LF
   and is `trim`med (so it is empty or starts with a byte that is not white space); the paragraph offset it answers is 0 or
   the position just after a LF of s (scanners::table_row_end ends with the line feed). *)
From Coq Require Import List NArith Arith Bool Lia Strings.String.
From V Require Import Base.Bytes Base.Res Base.Regex Base.Re2c Gen.StrLeafGen Gen.ScannersRe Model.Ast Model.Strings Model.Scan Model.AutolinkLeaf
  Model.Blocks Spec.EscapeSpec Spec.ParseValidSpec Proofs.RegexProofs Proofs.ScanProofs Proofs.StrLeafProofs Proofs.BlocksProofs
  Proofs.BlocksPos Proofs.ParseCellsRow Proofs.BlocksTotal6Val Proofs.LeafPremBytes.
Import ListNotations.
Local Open Scope string_scope.
Local Open Scope list_scope.

(* ------------------------------------------------------------------ a regular expression whose matches end with a byte of p *)
Fixpoint re_ends (p : byte -> bool) (r : re) : bool :=
  match r with
  | Empty => true
  | Eps => false
  | Chr cs => forallb (fun b => implb (cs_mem cs b) (p b)) all_bytes
  | Cat a b => re_ends p b
  | Alt a b => re_ends p a && re_ends p b
  | Star a => false
  end.

Lemma matches_ends p r s : matches r s -> re_ends p r = true -> exists s' b, s = s' ++ [b] /\ p b = true.
Proof.
  induction 1; cbn [re_ends]; intro R; try discriminate R.
  - exists [], b. split; [reflexivity|]. exact (forall_bytes_impl _ _ R b H).
  - destruct (IHmatches2 R) as (s' & x & -> & Hx). exists (s ++ s'), x. split; [now rewrite app_assoc | exact Hx].
  - apply andb_true_iff in R as [R1 R2]. auto.
  - apply andb_true_iff in R as [R1 R2]. auto.
Qed.

Lemma table_row_end_lf r n : scan_table_row_end r = Some n -> exists p, firstn n r = p ++ [x0a].
Proof.
  unfold scan_table_row_end, rules_table_row_end, default_table_row_end, pad_table_row_end.
  match goal with |- context [run_rules ?rs _ _ _] => destruct (run_rules_plain rs ActNone r eq_refl)
    as [[E _] | (re & a & L & Hin & Hl & E & _)] end; rewrite E; unfold as_opt_usize; cbn [o_act o_cursor]; [discriminate|].
  destruct Hin as [Hin | []]. inversion Hin; subst re a. intro H. inversion H; subst L.
  apply longest_match_spec in Hl. destruct Hl as (_ & Hm & _).
  destruct (matches_ends (fun b => beqb b x0a) _ _ Hm) as (s' & b & E1 & Hb); [vm_compute; reflexivity|].
  apply beqb_eq in Hb. subst b. now exists s'.
Qed.

(* ------------------------------------------------------------------ the cells *)
Definition cell_ok (s : bytes) (c : tcell) : Prop :=
  (forall b, In b (ce_content c) -> In b s) /\ utf8_valid (ce_content c) = true /\ no_nl (ce_content c) = true
  /\ trim_slice (ce_content c) = ce_content c.

Definition po_ok (s : bytes) (po : nat) : Prop := po = 0 \/ exists p, firstn po s = p ++ [x0a].

Lemma from_utf8_valid site b c : from_utf8 site b = Ok c -> c = b /\ utf8_valid b = true.
Proof. unfold from_utf8. destruct (utf8_valid b); intro H; inversion H. split; reflexivity. Qed.

Lemma ltrim_idem s : ltrim_slice (ltrim_slice s) = ltrim_slice s.
Proof.
  unfold ltrim_slice. induction s as [|a l IH]; cbn [drop_while]; [reflexivity|].
  destruct (sl_isspace a) eqn:E; [exact IH|]. cbn [drop_while]. now rewrite E.
Qed.

(* the left trim of a right-trimmed string is right-trimmed *)
Lemma trim_idem s : trim_slice (trim_slice s) = trim_slice s.
Proof.
  unfold trim_slice. set (t := ltrim_slice s).
  assert (L : ltrim_slice (rtrim_slice t) = rtrim_slice t).
  { destruct (rtrim_prefix t) as [k E]. rewrite E. unfold t, ltrim_slice.
    destruct (drop_while sl_isspace s) as [|a l] eqn:D; [now destruct k|].
    assert (Ha : sl_isspace a = false).
    { clear E. revert D. induction s as [|x s IH]; cbn [drop_while]; [discriminate|].
      destruct (sl_isspace x) eqn:X; [exact IH | intro D; inversion D; subst; exact X]. }
    destruct k; [reflexivity|]. cbn [firstn drop_while]. now rewrite Ha. }
  rewrite L. apply rtrim_idem.
Qed.

Lemma firstn_skipn_firstn {A} (l : list A) off n : firstn (off + n) l = firstn off l ++ firstn n (skipn off l).
Proof.
  revert l. induction off as [|k IH]; intro l; [reflexivity|]. destruct l as [|a l]; [now rewrite !firstn_nil|].
  cbn [Nat.add firstn skipn app]. now rewrite IH.
Qed.

Lemma row_loop_ok spoiler s : forall fuel off po cells off' po' cells' ab,
  row_loop fuel s spoiler off po cells = Ok (off', po', cells', ab) ->
  Forall (cell_ok s) cells -> po_ok s po -> Forall (cell_ok s) cells' /\ po_ok s po'.
Proof.
  induction fuel as [|f IH]; intros off po cells off' po' cells' ab H C P; cbn [row_loop] in H; [discriminate|].
  destruct (negb (Nat.ltb off (List.length s))); [inversion H; subst; split; assumption|].
  pose proof (table_cell_or0_bytes (skipn off s) spoiler) as Hb.
  set (cm := or0 (scan_table_cell (skipn off s) spoiler)) in *.
  destruct (slice_from "table.rs:row:string[offset + cell_matched..]" s (off + cm)) as [rest| |]; cbn [bind] in H; try discriminate H.
  set (pm := or0 (scan_table_cell_end rest)) in *.
  match type of H with bind ?e _ = _ => destruct e as [[cells1 abort]| |] eqn:R; cbn [bind] in H; try discriminate H end.
  assert (C1 : Forall (cell_ok s) cells1).
  { destruct (Nat.ltb 0 cm || Nat.ltb 0 pm); [|inversion R; subst; exact C].
    destruct (Nat.ltb (List.length s) (off + cm)); cbn [bind] in R; [discriminate R|].
    destruct (Strings.trim (unescape_pipes (firstn cm (skipn off s)))) as [c1| |] eqn:T; cbn [bind] in R; try discriminate R.
    pose proof (no_nl_cell _ _ Hb T) as N1. rewrite trim_ok in T. inversion T; subst c1.
    mon R; try exact C.
    match goal with U : from_utf8 _ _ = Ok _ |- _ => apply from_utf8_valid in U; destruct U as [-> U] end.
    apply Forall_app. split; [exact C|]. constructor; [|constructor]. unfold cell_ok. cbn [ce_content].
    split; [|split; [assumption|split; [exact N1 | apply trim_idem]]].
    intros b Hb'. apply in_trim, in_unescape_pipes, in_firstn, in_skipn in Hb'. exact Hb'. }
  destruct abort; [inversion H; subst; split; assumption|].
  destruct (Nat.ltb 0 pm); [eapply IH; eassumption|].
  mstep H. set (re := or0 (scan_table_row_end a)) in *.
  destruct (Nat.ltb 0 re && negb (Nat.eqb (off + cm + pm + re) (List.length s))) eqn:B.
  - mstep H. eapply IH; [exact H | constructor |].
    right. apply andb_true_iff in B as [B _]. apply Nat.ltb_lt in B.
    unfold slice_from in E. destruct (Nat.ltb (List.length s) (off + cm + pm)); [discriminate E|]. inversion E; subst a.
    destruct (scan_table_row_end (skipn (off + cm + pm) s)) as [n|] eqn:Sr; [|unfold re in B; cbn [or0] in B; lia].
    destruct (table_row_end_lf _ _ Sr) as [p Ep]. unfold re. cbn [or0].
    rewrite firstn_skipn_firstn, Ep. exists (firstn (off + cm + pm) s ++ p). now rewrite app_assoc.
  - inversion H; subst. split; assumption.
Qed.

Theorem row_ok s spoiler po cells :
  row s spoiler = Ok (Some (po, cells)) -> Forall (cell_ok s) cells /\ po_ok s po.
Proof.
  unfold row. intro H.
  match type of H with bind ?e _ = _ => destruct e as [[[[off po1] cells1] ab]| |] eqn:R; cbn [bind] in H; try discriminate H end.
  apply row_loop_ok in R; [|constructor | now left].
  destruct (negb (Nat.eqb off (List.length s)) || negb (is_cons cells1) || ab); inversion H; subst. exact R.
Qed.

(* what a cell gives the leaf clause *)
Lemma no_nl_cnl : forall s, no_nl s = true -> cnl s = 0.
Proof.
  unfold no_nl, count_byte_nl. induction s as [|b r IH]; intro C; [reflexivity|].
  cbn [forallb] in C. apply andb_true_iff in C as [C1 C2]. apply andb_true_iff in C1 as [C1 _]. cbn [filter].
  apply negb_true_iff in C1. rewrite C1. now apply IH.
Qed.

Lemma cell_ok_LP s c off : cln s -> cell_ok s c -> LP (ce_content c) [off].
Proof.
  intros Cs (A & B & C & _). apply LP_cell; [intros b Hb; apply Cs, A, Hb | exact B | now apply no_nl_cnl].
Qed.
