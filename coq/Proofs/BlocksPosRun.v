(* Proofs/BlocksPosRun.v — the per-node position invariant of Proofs/BlocksPos.v through process_line, run_lines, the
   front matter prologue and parse_blocks; the final statements. *)
From Coq Require Import List NArith Arith Bool Lia Strings.String.
From V Require Import Base.Bytes Base.Res Gen.StrLeafGen Gen.FeedConst Gen.Nodes Gen.BlocksConst Model.Ast Model.Strings
  Model.Feed Model.FrontMatter Model.RefDef Model.Blocks Proofs.FeedProofs Proofs.BlocksProofs Proofs.BlocksPos.
Import ListNotations.
Local Open Scope string_scope.
Local Open Scope list_scope.

(* ================================================================== process_line, run_lines *)
Lemma PIL_next_line o L st :
  PIL o L st -> PIL o (S L) (st_line_number st (S (ps_line_number st))).
Proof.
  intros [E A]. split; [cbn; now rewrite E|]. cbn.
  eapply all_info_mono; [|exact A]. intros i Hi. unfold Pn in *. eapply Pn4_mono; [|exact Hi]. lia.
Qed.

Lemma process_line_pil o L st line st' : process_line o st line = Ok st' -> PIL o L st -> PIL o (S L) st'.
Proof.
  unfold process_line. intros H P.
  match type of H with context [check_open_blocks o ?s ?l] => assert (P0 : PIL o (S L) s) end.
  { apply (PIL_next_line o L). exact P. }
  assert (HL : 1 <= S L) by lia.
  mon H; monall; repeat match goal with p : (_ * _)%type |- _ => destruct p end; cbn [fst snd] in *;
  apply PIL_st_curline; apply PIL_st_last_line_length;
  repeat match goal with
         | C : check_open_blocks _ _ _ = Ok (_, ?s) |- _ =>
           assert (PIL o (S L) s) by (eapply check_open_blocks_pil; eassumption); clear C
         | C : open_new_blocks _ _ _ _ _ = Ok (_, ?s) |- _ =>
           assert (PIL o (S L) s) by (eapply open_new_blocks_pil; eassumption); clear C
         | C : add_text_to_container _ _ _ _ _ = Ok ?s |- _ =>
           assert (PIL o (S L) s) by (eapply add_text_to_container_pil; eassumption); clear C
         end; assumption.
Qed.

Lemma process_lines_pil o : forall ls L st st', process_lines o st ls = Ok st' -> PIL o L st -> PIL o (L + List.length ls) st'.
Proof.
  induction ls as [|l r IH]; intros L st st' H P; cbn [process_lines] in H.
  - inversion H; subst. cbn. now rewrite Nat.add_0_r.
  - destruct (process_line o st l) as [s1| |] eqn:E; cbn [bind] in H; try discriminate H.
    cbn [List.length]. rewrite Nat.add_succ_r. change (S (L + List.length r)) with (S L + List.length r).
    eapply IH; [exact H|]. eapply process_line_pil; eassumption.
Qed.

(* finalize_up_to and finalize need no lower bound on the line counter *)
Lemma finalize_up_to_pil0 o L target site : forall fuel st st', finalize_up_to fuel o st target site = Ok st' -> PIL o L st -> PIL o L st'.
Proof. induction fuel as [|f IH]; intros st st' H P; cbn [finalize_up_to] in H; pilgo H. Qed.

Lemma finalize_document_pil o L st st' : finalize_document o st = Ok st' -> PIL o L st -> PIL o L st'.
Proof.
  unfold finalize_document. intros H P. mon H; monall. repeat match goal with p : (_ * _)%type |- _ => destruct p end. cbn [fst snd] in *.
  eapply finalize_pil; [eassumption|]. eapply finalize_up_to_pil0; eassumption.
Qed.

Lemma run_lines_pil o L st ls st' : run_lines o st ls = Ok st' -> PIL o L st -> PIL o (L + List.length ls) st'.
Proof.
  unfold run_lines. intros H P. mon H. eapply finalize_document_pil; [eassumption|]. eapply process_lines_pil; eassumption.
Qed.

(* ================================================================== the prologue *)
Lemma PIL_init o : PIL o 0 init_state.
Proof.
  split; [reflexivity|]. cbn [ps_root init_state all_info]. split; [|exact I]. unfold Pn, Pn4, max1.
  cbn [bi_sl bi_sc bi_el bi_val]. repeat split; intros; lia.
Qed.

(* the number of lines the block phase counts: line endings of the front matter + lines of the rest *)
Definition block_lines (o : bopts) (x : bytes) : nat :=
  match bo_front_matter_delimiter o with
  | None => List.length (lines x)
  | Some d =>
    match split_off_front_matter x d with
    | Ok (Some (fm, rest)) => count_line_endings fm + List.length (lines rest)
    | _ => List.length (lines x)
    end
  end.

Lemma front_matter_prologue_pil o x st rest :
  front_matter_prologue o init_state x = Ok (st, rest) ->
  PIL o (ps_line_number st) st /\ ps_line_number st + List.length (lines rest) = block_lines o x.
Proof.
  unfold front_matter_prologue, block_lines. intro H.
  destruct (bo_front_matter_delimiter o) as [d|]; [|inversion H; subst; split; [apply PIL_init | reflexivity]].
  destruct (split_off_front_matter x d) as [[[fm rest']|]| |]; cbn [bind] in H; try discriminate H;
    [|inversion H; subst; split; [apply PIL_init | reflexivity]].
  destruct (remove_trailing_blank_lines fm) as [stripped| |]; cbn [bind] in H; try discriminate H.
  (* add_child on the initial state: the Document accepts the front matter; everything computes *)
  cbn in H. inversion H; subst. clear H. cbn. split; [|lia].
  split; [reflexivity|]. cbn.
  unfold Pn, Pn4, max1, free_val, tbl. cbn. rewrite ?andb_false_r.
  repeat split; intros; try discriminate; destruct (count_line_endings fm); lia.
Qed.

(* ================================================================== parse_blocks *)
Theorem parse_blocks_pos o x r : parse_blocks o x = Ok r -> all_info (Pn o (block_lines o x)) (br_root r).
Proof.
  unfold parse_blocks. intro H.
  destruct (front_matter_prologue o init_state x) as [[st rest]| |] eqn:E; cbn [bind] in H; try discriminate H.
  destruct (front_matter_prologue_pil _ _ _ _ E) as [P El].
  unfold lines in El. destruct (feed_lines rest) as [ls total]. cbn [fst] in El.
  destruct (run_lines o st ls) as [st1| |] eqn:R; cbn [bind] in H; try discriminate H.
  inversion H; subst. cbn [br_root]. rewrite <- El. exact (proj2 (run_lines_pil _ _ _ _ _ R P)).
Qed.

Lemma block_lines_plain o x : bo_front_matter_delimiter o = None -> block_lines o x = List.length (lines x).
Proof. unfold block_lines. now intros ->. Qed.

(* ---- the statement on the public tree *)
Fixpoint bsub (t : bnode) : list bnode := match t with BNode _ ch => t :: flat_map bsub ch end.

Lemma all_info_bsub P t : all_info P t -> forall n, In n (bsub t) -> P (binf n).
Proof.
  induction t as [i ch IH] using bnode_ind2. intros A n I. apply all_info_node in A. destruct A as [Ai Ak].
  cbn [bsub] in I. destruct I as [<-|I]; [exact Ai|].
  apply in_flat_map in I. destruct I as [c [Ic In']]. rewrite Forall_forall in IH, Ak. exact (IH c Ic (Ak c Ic) n In').
Qed.

Fixpoint nsub (n : node) : list node := match n with Node _ _ ch => n :: flat_map nsub ch end.

Lemma nsub_to_node t : forall n, In n (nsub (to_node t)) -> exists b, In b (bsub t) /\ n = to_node b.
Proof.
  induction t as [i ch IH] using bnode_ind2. intros n I. cbn [to_node nsub] in I. destruct I as [<-|I].
  - exists (BNode i ch). split; [left; reflexivity | reflexivity].
  - apply in_flat_map in I. destruct I as [c' [Ic In']]. apply in_map_iff in Ic. destruct Ic as [c [<- Ic]].
    rewrite Forall_forall in IH. destruct (IH c Ic n In') as [b [Ib ->]].
    exists b. split; [|reflexivity]. cbn [bsub]. right. apply in_flat_map. exists c. split; assumption.
Qed.

Definition pos_claim (o : bopts) (N : nat) (n : node) : Prop :=
  let sp := nsp n in
  (1 <= sl sp)%N /\ (1 <= sc sp)%N /\
  (free_val o (nval n) = true -> (sl sp <= N.max 1 (N.of_nat N))%N /\ (el sp <= N.max 1 (N.of_nat N))%N) /\
  (tbl o (nval n) = true -> (sl sp <= N.max 1 (el sp))%N).

Theorem parse_blocks_positions o x r :
  parse_blocks o x = Ok r -> forall n, In n (nsub (to_node (br_root r))) -> pos_claim o (block_lines o x) n.
Proof.
  intros H n I. destruct (nsub_to_node _ _ I) as [b [Ib ->]].
  pose proof (all_info_bsub _ _ (parse_blocks_pos _ _ _ H) b Ib) as Pb.
  destruct b as [i ch]. cbn [binf] in Pb. unfold pos_claim. cbn [to_node nsp nval sl sc el].
  destruct Pb as (A & B & C & D). unfold max1 in *. repeat split; try lia.
  - specialize (C H0). lia.
  - specialize (C H0). lia.
  - intro T. specialize (D T). lia.
Qed.

(* ================================================================== what is false: witnesses *)
Definition o_plain : bopts := mkBO false false false false false false false false None None (fun v => v).
Definition o_fm : bopts := mkBO false false false false false false false false (Some (B "---")) None (fun v => v).

Definition positions (t : node) : list (kind * (N * N * N * N)) :=
  map (fun n => (kind_of (nval n), (sl (nsp n), sc (nsp n), el (nsp n), ec (nsp n)))) (nsub t).

Definition parsed_positions (o : bopts) (x : bytes) : res (list (kind * (N * N * N * N))) :=
  res_map (fun r => positions (to_node (br_root r))) (parse_blocks o x).

(* the empty input: the Document is 1:1-0:0 (known class C11-a) *)
Lemma empty_document_refuted : parsed_positions o_plain [] = Ok [(KDocument, (1, 1, 0, 0))%N].
Proof. vm_compute. reflexivity. Qed.

(* an HTML block closed by its own end condition ends on the line before (known class C11-h):
   start line <= end line is false for HtmlBlock *)
Lemma html_block_start_after_end_refuted :
  parsed_positions o_plain (B "<?php ?>" ++ [x0a]) = Ok [(KDocument, (1, 1, 1, 8))%N; (KHtmlBlock, (1, 1, 0, 0))%N].
Proof. vm_compute. reflexivity. Qed.

(* the front matter whose closing line ends the input without a line end: the parser counts the LF bytes (2), the
   input has 3 lines; the FrontMatter node ends on line 3, the Document on line 2 *)
Lemma front_matter_end_refuted :
  parsed_positions o_fm (B "---" ++ [x0a] ++ B "x" ++ [x0a] ++ B "---")
    = Ok [(KDocument, (1, 1, 2, 0))%N; (KFrontMatter, (1, 1, 3, 3))%N]
  /\ block_lines o_fm (B "---" ++ [x0a] ++ B "x" ++ [x0a] ++ B "---") = 2
  /\ List.length (lines (B "---" ++ [x0a] ++ B "x" ++ [x0a] ++ B "---")) = 3.
Proof. vm_compute. repeat split. Qed.

(* non-vacuity: a block quote with a fenced code block and a thematic break *)
Lemma positions_example :
  parsed_positions o_plain (B "> ```" ++ [x0a] ++ B "> x" ++ [x0a] ++ B "> ```" ++ [x0a] ++ B "***" ++ [x0a])
    = Ok [(KDocument, (1, 1, 4, 3))%N; (KBlockQuote, (1, 1, 3, 5))%N; (KCodeBlock, (1, 3, 3, 5))%N; (KThematicBreak, (4, 1, 4, 3))%N].
Proof. vm_compute. reflexivity. Qed.
