(* Proofs/LeafPremCells.v — C01, the premises of the inline phase, part 5: the clause `first line not blank` holds of
   every TableCell leaf (its content holds no line end: ParseCellsWalk.parse_blocks_cells), so the premise of
   LeafPremMain.inline_phase_total_blocks is needed for Paragraph / Heading leaves only. *)
From Coq Require Import List NArith Arith Bool Lia Strings.String.
From V Require Import Base.Bytes Base.Res Gen.StrLeafGen Model.Ast Model.Strings Spec.EscapeSpec Model.RefDef Model.Blocks Model.Inlines Model.Parse
  Spec.ParseValidSpec Proofs.BlocksProofs Proofs.BlocksPos Proofs.BlocksTotal6Val Proofs.InlinesTotal2
  Proofs.InertParseContent Proofs.ParseCellsWalk Proofs.LeafPremBytes Proofs.LeafPremMain.
Import ListNotations.
Local Open Scope list_scope.

Lemma bcells_all : forall t, bcells_ok t = true ->
  all_info (fun j => contains_inlines (bi_val j) = true -> is_cell_v (bi_val j) = true -> no_nl (bi_content j) = true) t.
Proof.
  induction t as [i ch IH] using bnode_ind2. intro H. cbn [bcells_ok] in H. apply andb_true_iff in H as [H1 H2].
  apply all_info_node. split.
  - intros _ C. now rewrite C in H1.
  - rewrite forallb_forall in H2. rewrite Forall_forall in *. intros c Hc. apply IH; [exact Hc | now apply H2].
Qed.

Lemma no_nl_first_line c : no_nl c = true -> first_line_not_blank (rtrim_slice c) = true.
Proof.
  intro N. unfold first_line_not_blank.
  destruct (drop_while (fun c0 => beqb c0 x20 || beqb c0 x09) (rtrim_slice c)) as [|b r] eqn:D; [reflexivity|].
  assert (Hb : In b c).
  { apply in_rtrim. eapply in_drop_while. rewrite D. now left. }
  unfold no_nl in N. rewrite forallb_forall in N. specialize (N b Hb).
  apply andb_true_iff in N as [N1 N2]. apply negb_true_iff in N1, N2.
  destruct b; try reflexivity; discriminate.
Qed.

Theorem parse_blocks_cell_first_line o x r p i :
  parse_blocks o x = Ok r -> In (p, i) (bleaves [] (br_root r)) -> bi_val i = TableCell ->
  first_line_not_blank (rtrim_slice (bi_content i)) = true.
Proof.
  intros H Hin Ev. apply no_nl_first_line.
  pose proof (bcells_all _ (parse_blocks_cells _ _ _ H)) as A.
  apply (bleaves_P (fun j => is_cell_v (bi_val j) = true -> no_nl (bi_content j) = true) _ _ _ _ A Hin).
  now rewrite Ev.
Qed.

(* the inline phase after the block phase: the premise on Paragraph and Heading leaves only *)
Theorem inline_phase_total_blocks2 o u x r :
  parse_blocks (bopts_of o u) x = Ok r ->
  (forall p i, In (p, i) (bleaves [] (br_root r)) -> bi_val i <> TableCell ->
     rtrim_slice (bi_content i) = [] \/ first_line_not_blank (rtrim_slice (bi_content i)) = true) ->
  exists t, inline_phase o u (br_root r) (br_refmap r) (br_max_ref_size r) = Ok t.
Proof.
  intros H Hf. apply (inline_phase_total_blocks _ _ _ _ H). intros p i Hin.
  destruct (bi_val i) eqn:Ev; try (apply (Hf p i Hin); rewrite Ev; discriminate).
  right. eapply parse_blocks_cell_first_line; eassumption.
Qed.
