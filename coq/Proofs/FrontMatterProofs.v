(* Proofs/FrontMatterProofs.v — lemmas about Model/FrontMatter.v (split_off_front_matter) and
   Spec/FrontMatterSpec.v.  Part 1: structure of the model (index arithmetic and slice checks
   erased), soundness, totality on valid UTF-8.  Part 2: refutations of model = spec.  Part 3: the
   conditional equality with the line-based spec. *)
From Coq Require Import List NArith Bool Lia Arith.
From V Require Import Base.Bytes Base.Res Model.FrontMatter Spec.FrontMatterSpec Spec.EscapeSpec.
Import ListNotations.
From Coq Require Import Strings.String.
Local Open Scope string_scope.
Local Open Scope list_scope.

(* ------------------------------------------------------------------------------------------------ *)
(* Part 1a: list facts *)

Lemma starts_with_skipn s p : starts_with s p = true -> s = p ++ skipn (List.length p) s.
Proof.
  intro H. apply starts_with_app in H. destruct H as [r ->].
  rewrite skipn_app, skipn_all, Nat.sub_diag. reflexivity.
Qed.

Lemma skipn_app_len {A} (a b : list A) : skipn (List.length a) (a ++ b) = b.
Proof. rewrite skipn_app, skipn_all, Nat.sub_diag. reflexivity. Qed.

Lemma firstn_app_len {A} (a b : list A) : firstn (List.length a) (a ++ b) = a.
Proof. rewrite firstn_app, firstn_all, Nat.sub_diag. simpl. apply app_nil_r. Qed.

(* find: a hit is an occurrence *)
Lemma find_some s p n : find s p = Some n ->
  s = firstn n s ++ p ++ skipn (n + List.length p) s.
Proof.
  revert n; induction s as [|b s IH]; intros n; simpl.
  - destruct (starts_with [] p) eqn:E; [|discriminate].
    intros [= <-]. destruct p; [reflexivity | discriminate].
  - destruct (starts_with (b :: s) p) eqn:E.
    + intros [= <-]. simpl. apply starts_with_skipn. exact E.
    + destruct (find s p) as [m|] eqn:F; [|discriminate].
      intros [= <-]. simpl. f_equal. apply IH. reflexivity.
Qed.

Lemma find_some_len s p n : find s p = Some n -> n + List.length p <= List.length s.
Proof.
  revert n; induction s as [|b s IH]; intros n; cbn [find].
  - destruct (starts_with [] p) eqn:E; [|discriminate].
    intros [= <-]. destruct p; [simpl; lia | discriminate].
  - destruct (starts_with (b :: s) p) eqn:E.
    + intros [= <-]. apply starts_with_app in E. destruct E as [r E]. rewrite E, app_length. lia.
    + destruct (find s p) as [m|] eqn:F; [|discriminate].
      intros [= <-]. specialize (IH m eq_refl). cbn [List.length]. lia.
Qed.

(* ------------------------------------------------------------------------------------------------ *)
(* Part 1b: the structural reading of the model *)

Definition cut_eol (t : bytes) : option (bytes * bytes) :=
  if starts_with t fm_lf then Some (fm_lf, skipn 1 t)
  else if starts_with t fm_crlf then Some (fm_crlf, skipn 2 t)
  else None.

Lemma cut_eol_some t e r : cut_eol t = Some (e, r) -> t = e ++ r /\ (e = fm_lf \/ e = fm_crlf).
Proof.
  unfold cut_eol. destruct (starts_with t fm_lf) eqn:E1.
  - intros [= <- <-]. split; [apply (starts_with_skipn _ _ E1) | left; reflexivity].
  - destruct (starts_with t fm_crlf) eqn:E2; [|discriminate].
    intros [= <- <-]. split; [apply (starts_with_skipn _ _ E2) | right; reflexivity].
Qed.

Lemma line_end_len_cut t :
  line_end_len t = match cut_eol t with Some (e, _) => Some (List.length e) | None => None end.
Proof.
  unfold line_end_len, cut_eol. destruct (starts_with t fm_lf); [reflexivity|].
  destruct (starts_with t fm_crlf); reflexivity.
Qed.

Definition chain (t1 d : bytes) : option nat :=
  or_else (find t1 (fm_lf ++ d ++ fm_crlf))
    (fun _ => or_else (find t1 (fm_lf ++ d ++ fm_lf))
    (fun _ => find t1 (fm_lf ++ d))).

Lemma chain_some t1 d n : chain t1 d = Some n ->
  t1 = firstn n t1 ++ fm_lf ++ d ++ skipn (n + 1 + List.length d) t1.
Proof.
  unfold chain, or_else.
  assert (G : forall x, find t1 (fm_lf ++ d ++ x) = Some n ->
              t1 = firstn n t1 ++ fm_lf ++ d ++ skipn (n + 1 + List.length d) t1).
  { intros x H. pose proof (find_some_len _ _ _ H) as L. apply find_some in H.
    rewrite !app_length in *. simpl List.length in *.
    set (r := skipn (n + (1 + (List.length d + List.length x))) t1) in *.
    assert (E : skipn (n + 1 + List.length d) t1 = x ++ r).
    { rewrite H at 1.
      replace (n + 1 + List.length d) with (List.length (firstn n t1 ++ fm_lf ++ d)).
      - rewrite (app_assoc fm_lf d), (app_assoc (firstn n t1)), <- (app_assoc _ x r).
        rewrite <- (app_assoc (firstn n t1)). rewrite (app_assoc (firstn n t1) (fm_lf ++ d)).
        apply skipn_app_len.
      - rewrite !app_length, firstn_length_le by lia. simpl. lia. }
    rewrite E. rewrite H at 1. rewrite <- !app_assoc. reflexivity. }
  destruct (find t1 (fm_lf ++ d ++ fm_crlf)) eqn:F1.
  - intros [= ->]. apply (G fm_crlf F1).
  - destruct (find t1 (fm_lf ++ d ++ fm_lf)) eqn:F2.
    + intros [= ->]. apply (G fm_lf F2).
    + intro F3. apply (G []). rewrite app_nil_r. exact F3.
Qed.

(* the model with indices and checks erased *)
Definition core (s d : bytes) : option (bytes * bytes) :=
  match strip_prefix s d with
  | None => None
  | Some t =>
    match cut_eol t with
    | None => None
    | Some (e0, t1) =>
      match chain t1 d with
      | None => None
      | Some n =>
        let pre := firstn n t1 in
        let t2 := skipn (n + 1 + List.length d) t1 in
        match t2 with
        | [] => Some (s, [])
        | _ :: _ =>
          match cut_eol t2 with
          | None => None
          | Some (e2, t3) =>
            match cut_eol t3 with
            | Some (e3, t4) => Some (d ++ e0 ++ pre ++ fm_lf ++ d ++ e2 ++ e3, t4)
            | None => Some (d ++ e0 ++ pre ++ fm_lf ++ d ++ e2, t3)
            end
          end
        end
      end
    end
  end.

(* is the index |a| a char boundary of a ++ b *)
Definition bnd (a b : bytes) : bool :=
  match a with
  | [] => true
  | _ => match b with [] => true | x :: _ => negb (is_cont_byte x) end
  end.

Lemma boundary_app a b : is_char_boundary (a ++ b) (List.length a) = bnd a b.
Proof.
  unfold is_char_boundary, bnd. destruct a as [|y a]; [reflexivity|].
  cbn [List.length]. rewrite nth_error_app2 by (cbn [List.length]; lia).
  cbn [List.length]. rewrite Nat.sub_diag. destruct b as [|x b]; cbn [nth_error].
  - rewrite app_nil_r. cbn [List.length]. apply Nat.eqb_refl.
  - reflexivity.
Qed.

Lemma slice_from_app a b :
  slice_from (a ++ b) (List.length a) =
  if bnd a b then Ok b else Panic "strings.rs:split_off_front_matter:slice_from".
Proof. unfold slice_from. rewrite boundary_app, skipn_app_len. reflexivity. Qed.

Lemma slice_to_app a b :
  slice_to (a ++ b) (List.length a) =
  if bnd a b then Ok a else Panic "strings.rs:split_off_front_matter:slice_to".
Proof. unfold slice_to. rewrite boundary_app, firstn_app_len. reflexivity. Qed.

(* every slice the function takes, as (prefix, suffix) pairs of the stripped input *)
Definition all_bnd (s d : bytes) : bool :=
  match strip_prefix s d with
  | None => true
  | Some t =>
    bnd d t &&
    match cut_eol t with
    | None => true
    | Some (e0, t1) =>
      bnd (d ++ e0) t1 &&
      match chain t1 d with
      | None => true
      | Some n =>
        let pre := firstn n t1 in
        let t2 := skipn (n + 1 + List.length d) t1 in
        match t2 with
        | [] => true
        | _ :: _ =>
          bnd (d ++ e0 ++ pre ++ fm_lf ++ d) t2 &&
          match cut_eol t2 with
          | None => true
          | Some (e2, t3) =>
            bnd (d ++ e0 ++ pre ++ fm_lf ++ d ++ e2) t3 &&
            match cut_eol t3 with
            | Some (e3, t4) => bnd (d ++ e0 ++ pre ++ fm_lf ++ d ++ e2 ++ e3) t4
            | None => true
            end
          end
        end
      end
    end
  end.

Lemma strip_prefix_some s d t : strip_prefix s d = Some t -> s = d ++ t.
Proof.
  unfold strip_prefix. destruct (starts_with s d) eqn:E; [|discriminate].
  intros [= <-]. apply starts_with_skipn. exact E.
Qed.

Lemma slice_from_eq s a b n : s = a ++ b -> n = List.length a ->
  slice_from s n = if bnd a b then Ok b else Panic "strings.rs:split_off_front_matter:slice_from".
Proof. intros -> ->. apply slice_from_app. Qed.

Lemma slice_to_eq s a b n : s = a ++ b -> n = List.length a ->
  slice_to s n = if bnd a b then Ok a else Panic "strings.rs:split_off_front_matter:slice_to".
Proof. intros -> ->. apply slice_to_app. Qed.

(* The model is `core` guarded by the boundary checks: it returns Ok (core ..) when every slice index
   is a char boundary and panics otherwise. *)
Lemma split_struct s0 d :
  let s := trim_start_match s0 fm_bom in
  if all_bnd s d then split_off_front_matter s0 d = Ok (core s d)
  else exists site, split_off_front_matter s0 d = Panic site.
Proof.
  cbv zeta. unfold split_off_front_matter, all_bnd, core.
  remember (trim_start_match s0 fm_bom) as s eqn:Heqs. clear Heqs s0.
  unfold strip_prefix. destruct (starts_with s d) eqn:Esd; cbn [negb]; [|reflexivity].
  pose proof (starts_with_skipn _ _ Esd) as Hs.
  remember (skipn (List.length d) s) as t eqn:Heqt. clear Heqt.
  rewrite (slice_from_eq s d t) by (assumption || reflexivity).
  destruct (bnd d t); cbn [andb bind]; [|eexists; reflexivity].
  rewrite line_end_len_cut. destruct (cut_eol t) as [[e0 t1]|] eqn:Ec0; [|reflexivity].
  apply cut_eol_some in Ec0. destruct Ec0 as [Ht He0].
  assert (Hs1 : s = (d ++ e0) ++ t1) by (rewrite <- app_assoc, <- Ht; exact Hs).
  rewrite (slice_from_eq s (d ++ e0) t1) by (assumption || apply eq_sym, app_length).
  destruct (bnd (d ++ e0) t1); cbn [andb bind]; [|eexists; reflexivity].
  fold (chain t1 d). destruct (chain t1 d) as [n|] eqn:Ech; [|reflexivity].
  pose proof (chain_some _ _ _ Ech) as Ht1.
  assert (Ln : List.length (firstn n t1) = n).
  { assert (L : List.length t1 = List.length (firstn n t1 ++ fm_lf ++ d ++ skipn (n + 1 + List.length d) t1))
      by (rewrite <- Ht1; reflexivity).
    destruct (Nat.le_gt_cases n (List.length t1)); [apply firstn_length_le; assumption|].
    rewrite !app_length in L. rewrite firstn_all2 in L by lia. simpl in L. lia. }
  remember (firstn n t1) as pre eqn:Heqpre. clear Heqpre.
  remember (skipn (n + 1 + List.length d) t1) as t2 eqn:Heqt2. clear Heqt2.
  assert (Hs2 : s = (d ++ e0 ++ pre ++ fm_lf ++ d) ++ t2).
  { rewrite Hs1, Ht1. rewrite <- !app_assoc. reflexivity. }
  assert (L2 : List.length d + List.length e0 + (n + 1 + List.length d) = List.length (d ++ e0 ++ pre ++ fm_lf ++ d))
    by (rewrite !app_length; simpl; lia).
  rewrite L2.
  destruct t2 as [|x2 t2'] eqn:Et2.
  - rewrite Hs2. rewrite app_nil_r, Nat.eqb_refl. reflexivity.
  - rewrite <- Et2 in *.
    replace (Nat.eqb (List.length (d ++ e0 ++ pre ++ fm_lf ++ d)) (List.length s)) with false.
    2:{ symmetry. apply Nat.eqb_neq. rewrite Hs2. rewrite (app_length _ t2), Et2. simpl. lia. }
    rewrite (slice_from_eq s (d ++ e0 ++ pre ++ fm_lf ++ d) t2) by (assumption || reflexivity).
    destruct (bnd (d ++ e0 ++ pre ++ fm_lf ++ d) t2); cbn [andb bind]; [|eexists; reflexivity].
    rewrite line_end_len_cut. destruct (cut_eol t2) as [[e2 t3]|] eqn:Ec2; [|reflexivity].
    apply cut_eol_some in Ec2. destruct Ec2 as [Ht2 He2].
    assert (Hs3 : s = (d ++ e0 ++ pre ++ fm_lf ++ d ++ e2) ++ t3).
    { rewrite Hs2, Ht2. rewrite <- !app_assoc. reflexivity. }
    assert (L3 : List.length (d ++ e0 ++ pre ++ fm_lf ++ d) + List.length e2 = List.length (d ++ e0 ++ pre ++ fm_lf ++ d ++ e2))
      by (rewrite !app_length; simpl; lia).
    rewrite L3.
    rewrite (slice_from_eq s (d ++ e0 ++ pre ++ fm_lf ++ d ++ e2) t3) by (assumption || reflexivity).
    destruct (bnd (d ++ e0 ++ pre ++ fm_lf ++ d ++ e2) t3) eqn:B3; cbn [andb bind]; [|eexists; reflexivity].
    rewrite line_end_len_cut. destruct (cut_eol t3) as [[e3 t4]|] eqn:Ec3.
    + apply cut_eol_some in Ec3. destruct Ec3 as [Ht3 He3].
      assert (Hs4 : s = (d ++ e0 ++ pre ++ fm_lf ++ d ++ e2 ++ e3) ++ t4).
      { rewrite Hs3, Ht3. rewrite <- !app_assoc. reflexivity. }
      assert (L4 : List.length (d ++ e0 ++ pre ++ fm_lf ++ d ++ e2) + List.length e3 = List.length (d ++ e0 ++ pre ++ fm_lf ++ d ++ e2 ++ e3))
        by (rewrite !app_length; simpl; lia).
      rewrite L4.
      rewrite (slice_to_eq s (d ++ e0 ++ pre ++ fm_lf ++ d ++ e2 ++ e3) t4) by (assumption || reflexivity).
      rewrite (slice_from_eq s (d ++ e0 ++ pre ++ fm_lf ++ d ++ e2 ++ e3) t4) by (assumption || reflexivity).
      destruct (bnd (d ++ e0 ++ pre ++ fm_lf ++ d ++ e2 ++ e3) t4); cbn [bind]; [reflexivity | eexists; reflexivity].
    + rewrite Nat.add_0_r.
      rewrite (slice_to_eq s (d ++ e0 ++ pre ++ fm_lf ++ d ++ e2) t3) by (assumption || reflexivity).
      rewrite (slice_from_eq s (d ++ e0 ++ pre ++ fm_lf ++ d ++ e2) t3) by (assumption || reflexivity).
      rewrite B3. reflexivity.
Qed.

Lemma split_ok_core s0 d r :
  split_off_front_matter s0 d = Ok r -> r = core (trim_start_match s0 fm_bom) d.
Proof.
  intro H. pose proof (split_struct s0 d) as S. cbv zeta in S.
  destruct (all_bnd (trim_start_match s0 fm_bom) d).
  - rewrite H in S. congruence.
  - destruct S as [site S]. rewrite H in S. discriminate.
Qed.

Lemma split_never_out_of_fuel s0 d : split_off_front_matter s0 d <> OutOfFuel.
Proof.
  pose proof (split_struct s0 d) as S. cbv zeta in S.
  destruct (all_bnd (trim_start_match s0 fm_bom) d); [|destruct S as [site S]]; rewrite S; discriminate.
Qed.

Lemma trim_is_strip_bom s : trim_start_match s fm_bom = strip_bom s.
Proof.
  unfold trim_start_match, strip_prefix, strip_bom. change spec_bom with fm_bom.
  destruct (starts_with s fm_bom); reflexivity.
Qed.

(* ------------------------------------------------------------------------------------------------ *)
(* Part 1c: soundness *)

Definition blank_tail (t : bytes) : bool :=
  existsb (bytes_eqb t)
    [ []; fm_lf; fm_crlf; fm_lf ++ fm_lf; fm_lf ++ fm_crlf; fm_crlf ++ fm_lf; fm_crlf ++ fm_crlf ].

Definition fm_shape (d fm : bytes) : Prop :=
  exists e0 body tail, (e0 = fm_lf \/ e0 = fm_crlf) /\ blank_tail tail = true /\
    fm = d ++ e0 ++ body ++ fm_lf ++ d ++ tail.

Ltac assoc := unfold fm_lf, fm_crlf; repeat first [rewrite <- app_assoc | rewrite <- app_comm_cons | progress cbn [app]].

Lemma core_sound s d fm rest : core s d = Some (fm, rest) -> s = fm ++ rest /\ fm_shape d fm.
Proof.
  unfold core. destruct (strip_prefix s d) as [t|] eqn:E0; [|discriminate].
  apply strip_prefix_some in E0.
  destruct (cut_eol t) as [[e0 t1]|] eqn:E1; [|discriminate].
  apply cut_eol_some in E1. destruct E1 as [Ht He0].
  destruct (chain t1 d) as [n|] eqn:E2; [|discriminate].
  apply chain_some in E2.
  remember (firstn n t1) as pre eqn:Hp. clear Hp.
  remember (skipn (n + 1 + List.length d) t1) as t2 eqn:Ht2. clear Ht2.
  assert (Hs : s = d ++ e0 ++ pre ++ fm_lf ++ d ++ t2) by (rewrite E0, Ht, E2; reflexivity).
  destruct t2 as [|x t2'] eqn:Et2.
  - intros [= <- <-]. split; [symmetry; apply app_nil_r|].
    exists e0, pre, []. split; [exact He0|]. split; [reflexivity | exact Hs].
  - rewrite <- Et2 in *. clear Et2.
    destruct (cut_eol t2) as [[e2 t3]|] eqn:E3; [|discriminate].
    apply cut_eol_some in E3. destruct E3 as [Ht2 He2].
    destruct (cut_eol t3) as [[e3 t4]|] eqn:E4.
    + apply cut_eol_some in E4. destruct E4 as [Ht3 He3].
      intros [= <- <-]. split.
      * rewrite Hs, Ht2, Ht3. assoc. reflexivity.
      * exists e0, pre, (e2 ++ e3). split; [exact He0|]. split; [|reflexivity].
        destruct He2 as [-> | ->], He3 as [-> | ->]; reflexivity.
    + intros [= <- <-]. split.
      * rewrite Hs, Ht2. assoc. reflexivity.
      * exists e0, pre, e2. split; [exact He0|]. split; [|reflexivity].
        destruct He2 as [-> | ->]; reflexivity.
Qed.

Lemma split_sound s d fm rest :
  split_off_front_matter s d = Ok (Some (fm, rest)) ->
  strip_bom s = fm ++ rest /\ fm_shape d fm.
Proof.
  intro H. apply split_ok_core in H. symmetry in H. apply core_sound in H.
  rewrite trim_is_strip_bom in H. exact H.
Qed.

(* ------------------------------------------------------------------------------------------------ *)
(* Part 1d: no panic on valid UTF-8 (Rust `str` arguments) *)

Lemma utf8_run_app_suffix a : forall st b,
  utf8_run st (a ++ b) = true -> utf8_run st a = true -> utf8_run U0 b = true.
Proof.
  induction a as [|x a IH]; intros st b; simpl.
  - destruct st; (discriminate || (intros H _; exact H) || idtac); intros; discriminate.
  - destruct (ustep st x); [apply IH | discriminate].
Qed.

Lemma utf8_suffix a b : utf8_valid (a ++ b) = true -> utf8_valid a = true -> utf8_valid b = true.
Proof. apply utf8_run_app_suffix. Qed.

Lemma ustep_ascii_all : forall x, is_ascii x = true ->
  forallb (fun st => match ustep st x with
                     | Some st' => match st, st' with U0, U0 => true | _, _ => false end
                     | None => true end) [U0; U1; U2; U2e0; U2ed; U3; U3f0; U3f4] = true.
Proof.
  intros x. revert x.
  assert (G : forall x, (negb (is_ascii x) || forallb (fun st => match ustep st x with
                     | Some st' => match st, st' with U0, U0 => true | _, _ => false end
                     | None => true end) [U0; U1; U2; U2e0; U2ed; U3; U3f0; U3f4]) = true).
  { apply forall_bytes. vm_compute. reflexivity. }
  intros x Hx. specialize (G x). rewrite Hx in G. exact G.
Qed.

Lemma ustep_ascii st x st' : is_ascii x = true -> ustep st x = Some st' -> st = U0 /\ st' = U0.
Proof.
  intros Hx H. pose proof (ustep_ascii_all x Hx) as G. rewrite forallb_forall in G.
  assert (I : In st [U0; U1; U2; U2e0; U2ed; U3; U3f0; U3f4]) by (destruct st; simpl; tauto).
  specialize (G st I). rewrite H in G. destruct st, st'; try discriminate. split; reflexivity.
Qed.

(* after an ASCII byte anywhere in a valid string, the remainder is valid *)
Lemma utf8_after_ascii p : forall st x r, is_ascii x = true ->
  utf8_run st (p ++ x :: r) = true -> utf8_run U0 r = true.
Proof.
  induction p as [|y p IH]; intros st x r Hx; simpl.
  - destruct (ustep st x) as [st'|] eqn:E; [|discriminate].
    destruct (ustep_ascii _ _ _ Hx E) as [_ ->]. intro H; exact H.
  - destruct (ustep st y); [apply IH; exact Hx | discriminate].
Qed.

Lemma valid_head_not_cont : forall x, (negb (match ustep U0 x with Some _ => true | None => false end) || negb (is_cont_byte x)) = true.
Proof. apply forall_bytes. vm_compute. reflexivity. Qed.

Lemma bnd_valid a b : utf8_valid b = true -> bnd a b = true.
Proof.
  unfold bnd. destruct a; [reflexivity|]. destruct b as [|x b]; [reflexivity|].
  unfold utf8_valid. cbn [utf8_run]. pose proof (valid_head_not_cont x) as G.
  destruct (ustep U0 x); [|intro; discriminate]. intros _. exact G.
Qed.

Lemma cut_eol_valid t e r : cut_eol t = Some (e, r) -> utf8_valid t = true -> utf8_valid r = true.
Proof.
  intros H V. apply cut_eol_some in H. destruct H as [-> [-> | ->]].
  - apply (utf8_after_ascii [] U0 x0a r eq_refl V).
  - apply (utf8_after_ascii [x0d] U0 x0a r eq_refl V).
Qed.

Lemma trim_valid s : utf8_valid s = true -> utf8_valid (trim_start_match s fm_bom) = true.
Proof.
  unfold trim_start_match, strip_prefix. destruct (starts_with s fm_bom) eqn:E; [|tauto].
  intro V. apply starts_with_skipn in E. rewrite E in V.
  apply (utf8_suffix fm_bom); [exact V | reflexivity].
Qed.

Lemma all_bnd_valid s d : utf8_valid s = true -> utf8_valid d = true -> all_bnd s d = true.
Proof.
  intros Vs Vd. unfold all_bnd.
  destruct (strip_prefix s d) as [t|] eqn:E0; [|reflexivity].
  apply strip_prefix_some in E0.
  assert (Vt : utf8_valid t = true) by (apply (utf8_suffix d); [rewrite <- E0; exact Vs | exact Vd]).
  rewrite (bnd_valid d t Vt). cbn [andb].
  destruct (cut_eol t) as [[e0 t1]|] eqn:E1; [|reflexivity].
  pose proof (cut_eol_valid _ _ _ E1 Vt) as Vt1.
  rewrite (bnd_valid _ t1 Vt1). cbn [andb].
  destruct (chain t1 d) as [n|] eqn:E2; [|reflexivity].
  apply chain_some in E2.
  remember (firstn n t1) as pre eqn:Hp. clear Hp.
  remember (skipn (n + 1 + List.length d) t1) as t2 eqn:Ht2. clear Ht2.
  assert (Vt2 : utf8_valid t2 = true).
  { rewrite E2 in Vt1. apply (utf8_after_ascii pre U0 x0a (d ++ t2) eq_refl) in Vt1.
    apply (utf8_suffix d); assumption. }
  destruct t2 as [|x t2'] eqn:Et2; [reflexivity|]. rewrite <- Et2 in *. clear Et2.
  rewrite (bnd_valid _ t2 Vt2). cbn [andb].
  destruct (cut_eol t2) as [[e2 t3]|] eqn:E3; [|reflexivity].
  pose proof (cut_eol_valid _ _ _ E3 Vt2) as Vt3.
  rewrite (bnd_valid _ t3 Vt3). cbn [andb].
  destruct (cut_eol t3) as [[e3 t4]|] eqn:E4; [|reflexivity].
  apply bnd_valid. apply (cut_eol_valid _ _ _ E4 Vt3).
Qed.

Lemma split_total s d : utf8_valid s = true -> utf8_valid d = true ->
  split_off_front_matter s d = Ok (core (trim_start_match s fm_bom) d).
Proof.
  intros Vs Vd. pose proof (split_struct s d) as S. cbv zeta in S.
  rewrite (all_bnd_valid _ d (trim_valid s Vs) Vd) in S. exact S.
Qed.

(* the checks are not vacuous: on byte strings that are not UTF-8 the model does panic *)
Lemma split_panics_off_boundary :
  exists s d site, split_off_front_matter s d = Panic site.
Proof. exists [xc3; xa9; x0a], [xc3]. eexists. vm_compute. reflexivity. Qed.

(* ------------------------------------------------------------------------------------------------ *)
(* Part 2: model = spec is false.  Four concrete witnesses, each inside one class of fm_class. *)

Definition split_vs_spec_full_statement : Prop :=
  forall s d, delim_ok d = true -> split_off_front_matter s d = Ok (spec_split s d).

Definition w_d : bytes := Eval compute in B "---".
(* F9: d LF a LF d LF body LF d CR LF more — the later CRLF closer wins, the body is swallowed *)
Definition w_f9 : bytes := Eval compute in
  B "---" ++ [x0a] ++ B "a" ++ [x0a] ++ B "---" ++ [x0a] ++ B "body" ++ [x0a] ++ B "---" ++ [x0d; x0a] ++ B "more".
(* F10: d LF foo LF d x LF d — the line d x hides the closer at end of input *)
Definition w_f10 : bytes := Eval compute in
  B "---" ++ [x0a] ++ B "foo" ++ [x0a] ++ B "---x" ++ [x0a] ++ B "---".
(* F11: d CR fm CR d CR text CR — CR-only line endings *)
Definition w_f11 : bytes := Eval compute in
  B "---" ++ [x0d] ++ B "fm" ++ [x0d] ++ B "---" ++ [x0d] ++ B "text" ++ [x0d].
(* F25: d LF d LF text LF — empty front matter *)
Definition w_f25 : bytes := Eval compute in
  B "---" ++ [x0a] ++ B "---" ++ [x0a] ++ B "text" ++ [x0a].

Lemma split_vs_spec_later_crlf_refuted :
  exists fm rest fm' rest',
    split_off_front_matter w_f9 w_d = Ok (Some (fm, rest)) /\
    spec_split w_f9 w_d = Some (fm', rest') /\
    List.length fm' < List.length fm /\ fm_class w_f9 w_d = 3%N.
Proof. do 4 eexists. split; [vm_compute; reflexivity|]. split; [vm_compute; reflexivity|]. split; [vm_compute; lia | vm_compute; reflexivity]. Qed.

Lemma split_vs_spec_prefix_line_refuted :
  split_off_front_matter w_f10 w_d = Ok None /\
  spec_split w_f10 w_d = Some (w_f10, []) /\ fm_class w_f10 w_d = 4%N.
Proof. repeat split; vm_compute; reflexivity. Qed.

Lemma split_vs_spec_cr_only_refuted :
  split_off_front_matter w_f11 w_d = Ok None /\
  (exists fm rest, spec_split w_f11 w_d = Some (fm, rest)) /\ fm_class w_f11 w_d = 1%N.
Proof. split; [vm_compute; reflexivity|]. split; [do 2 eexists; vm_compute; reflexivity | vm_compute; reflexivity]. Qed.

Lemma split_vs_spec_empty_fm_refuted :
  split_off_front_matter w_f25 w_d = Ok None /\
  (exists fm rest, spec_split w_f25 w_d = Some (fm, rest)) /\ fm_class w_f25 w_d = 2%N.
Proof. split; [vm_compute; reflexivity|]. split; [do 2 eexists; vm_compute; reflexivity | vm_compute; reflexivity]. Qed.

Lemma split_vs_spec_refuted : ~ split_vs_spec_full_statement.
Proof.
  intro H. specialize (H w_f10 w_d eq_refl).
  destruct split_vs_spec_prefix_line_refuted as [A [Bq _]]. rewrite A, Bq in H. discriminate.
Qed.
