(* Proofs/FrontMatterProofs.v — Model/FrontMatter.v (split_off_front_matter after the repair `fix: front matter
   is cut by lines`) IS the line-based specification Spec/FrontMatterSpec.v.
   Part 1: list and UTF-8 facts (char boundaries after an ASCII byte).
   Part 2: `okP` — a result is the expected value, or a Panic that comes with a proof that some line start of
           the input is not a char boundary (impossible in a Rust str); fm_line_at against `cut_line`.
   Part 3: the loop against `find_closer`, the whole function against `spec_split`.
   Part 4: consequences: equality on UTF-8, soundness, the old refutation witnesses now split as specified. *)
From Coq Require Import List NArith Bool Lia Arith.
From V Require Import Base.Bytes Base.Res Model.FrontMatter Spec.FrontMatterSpec Spec.EscapeSpec
  Proofs.FrontMatterSpecProofs.
From V Require Model.Strings.
Import ListNotations.
From Coq Require Import Strings.String.
Local Open Scope string_scope.
Local Open Scope list_scope.

(* ------------------------------------------------------------------------------------------------ *)
(* Part 1a: list facts *)

Lemma starts_with_skipn s p : starts_with s p = true -> s = p ++ skipn (List.length p) s.
Proof.
  intro H. apply starts_with_app in H. destruct H as [r ->].
  rewrite skipn_app, skipn_all, Nat.sub_diag. reflexivity.
Qed.

Lemma skipn_app_len {A} (a b : list A) : skipn (List.length a) (a ++ b) = b.
Proof. rewrite skipn_app, skipn_all, Nat.sub_diag. reflexivity. Qed.

Lemma firstn_app_len {A} (a b : list A) : firstn (List.length a) (a ++ b) = a.
Proof. rewrite firstn_app, firstn_all, Nat.sub_diag. simpl. apply app_nil_r. Qed.

Lemma app_eq_len {A} (a b c d : list A) : a ++ b = c ++ d -> List.length a = List.length c -> a = c /\ b = d.
Proof.
  revert c. induction a as [|x a IH]; intros [|y c] H L; try discriminate L.
  - split; [reflexivity | exact H].
  - cbn [app] in H. injection H as -> H. cbn [List.length] in L. injection L as L.
    destruct (IH c H L) as [-> ->]. split; reflexivity.
Qed.

Lemma trim_is_strip_bom s : trim_start_match s fm_bom = strip_bom s.
Proof.
  unfold trim_start_match, strip_prefix, strip_bom. change spec_bom with fm_bom.
  destruct (starts_with s fm_bom); reflexivity.
Qed.

(* ------------------------------------------------------------------------------------------------ *)
(* Part 1b: char boundaries *)

(* is the index |a| a char boundary of a ++ b *)
Definition bnd (a b : bytes) : bool :=
  match a with
  | [] => true
  | _ => match b with [] => true | x :: _ => negb (is_cont_byte x) end
  end.

Lemma boundary_app a b : is_char_boundary (a ++ b) (List.length a) = bnd a b.
Proof.
  unfold is_char_boundary, bnd. destruct a as [|y a]; [reflexivity|].
  cbn [List.length]. rewrite nth_error_app2 by (cbn [List.length]; lia).
  cbn [List.length]. rewrite Nat.sub_diag. destruct b as [|x b]; cbn [nth_error].
  - rewrite app_nil_r. cbn [List.length]. apply Nat.eqb_refl.
  - reflexivity.
Qed.

Lemma slice_from_app a b :
  slice_from (a ++ b) (List.length a) =
  if bnd a b then Ok b else Panic "strings.rs:split_off_front_matter:slice_from".
Proof. unfold slice_from. rewrite boundary_app, skipn_app_len. reflexivity. Qed.

Lemma slice_to_app a b :
  slice_to (a ++ b) (List.length a) =
  if bnd a b then Ok a else Panic "strings.rs:split_off_front_matter:slice_to".
Proof. unfold slice_to. rewrite boundary_app, firstn_app_len. reflexivity. Qed.

(* ------------------------------------------------------------------------------------------------ *)
(* Part 1c: UTF-8 (also used by Proofs/BlocksTotal.v) *)

Lemma utf8_run_app_suffix a : forall st b,
  utf8_run st (a ++ b) = true -> utf8_run st a = true -> utf8_run U0 b = true.
Proof.
  induction a as [|x a IH]; intros st b; simpl.
  - destruct st; (discriminate || (intros H _; exact H) || idtac); intros; discriminate.
  - destruct (ustep st x); [apply IH | discriminate].
Qed.

Lemma utf8_suffix a b : utf8_valid (a ++ b) = true -> utf8_valid a = true -> utf8_valid b = true.
Proof. apply utf8_run_app_suffix. Qed.

Lemma ustep_ascii_all : forall x, is_ascii x = true ->
  forallb (fun st => match ustep st x with
                     | Some st' => match st, st' with U0, U0 => true | _, _ => false end
                     | None => true end) [U0; U1; U2; U2e0; U2ed; U3; U3f0; U3f4] = true.
Proof.
  intros x. revert x.
  assert (G : forall x, (negb (is_ascii x) || forallb (fun st => match ustep st x with
                     | Some st' => match st, st' with U0, U0 => true | _, _ => false end
                     | None => true end) [U0; U1; U2; U2e0; U2ed; U3; U3f0; U3f4]) = true).
  { apply forall_bytes. vm_compute. reflexivity. }
  intros x Hx. specialize (G x). rewrite Hx in G. exact G.
Qed.

Lemma ustep_ascii st x st' : is_ascii x = true -> ustep st x = Some st' -> st = U0 /\ st' = U0.
Proof.
  intros Hx H. pose proof (ustep_ascii_all x Hx) as G. rewrite forallb_forall in G.
  assert (I : In st [U0; U1; U2; U2e0; U2ed; U3; U3f0; U3f4]) by (destruct st; simpl; tauto).
  specialize (G st I). rewrite H in G. destruct st, st'; try discriminate. split; reflexivity.
Qed.

(* after an ASCII byte anywhere in a valid string, the remainder is valid *)
Lemma utf8_after_ascii p : forall st x r, is_ascii x = true ->
  utf8_run st (p ++ x :: r) = true -> utf8_run U0 r = true.
Proof.
  induction p as [|y p IH]; intros st x r Hx; simpl.
  - destruct (ustep st x) as [st'|] eqn:E; [|discriminate].
    destruct (ustep_ascii _ _ _ Hx E) as [_ ->]. intro H; exact H.
  - destruct (ustep st y); [apply IH; exact Hx | discriminate].
Qed.

Lemma valid_head_not_cont : forall x, (negb (match ustep U0 x with Some _ => true | None => false end) || negb (is_cont_byte x)) = true.
Proof. apply forall_bytes. vm_compute. reflexivity. Qed.

Lemma bnd_valid a b : utf8_valid b = true -> bnd a b = true.
Proof.
  unfold bnd. destruct a; [reflexivity|]. destruct b as [|x b]; [reflexivity|].
  unfold utf8_valid. cbn [utf8_run]. pose proof (valid_head_not_cont x) as G.
  destruct (ustep U0 x); [|intro; discriminate]. intros _. exact G.
Qed.

Lemma trim_valid s : utf8_valid s = true -> utf8_valid (trim_start_match s fm_bom) = true.
Proof.
  unfold trim_start_match, strip_prefix. destruct (starts_with s fm_bom) eqn:E; [|tauto].
  intro V. apply starts_with_skipn in E. rewrite E in V.
  apply (utf8_suffix fm_bom); [exact V | reflexivity].
Qed.

(* ------------------------------------------------------------------------------------------------ *)
(* Part 2a: line starts, bad starts, okP *)

(* p is empty or ends with an ASCII byte: the position after it is a char boundary of every Rust str *)
Definition line_start (p : bytes) : Prop := p = [] \/ exists a x, p = a ++ [x] /\ is_ascii x = true.

(* some position right after an ASCII byte of s is not a char boundary: s is not UTF-8 *)
Definition bad_start (s : bytes) : Prop :=
  exists a x b, s = a ++ x :: b /\ is_ascii x = true /\ bnd (a ++ [x]) b = false.

Lemma bad_start_not_utf8 s : bad_start s -> utf8_valid s = true -> False.
Proof.
  intros [a [x [b [-> [Hx Hb]]]]] V. apply (utf8_after_ascii a U0 x b Hx) in V.
  rewrite (bnd_valid _ b V) in Hb. discriminate.
Qed.

Lemma bnd_line_start p t : line_start p \/ t = [] -> bnd p t = true \/ bad_start (p ++ t).
Proof.
  intros [[-> | [a [x [-> Hx]]]] | ->].
  - left. reflexivity.
  - destruct (bnd (a ++ [x]) t) eqn:E; [left; reflexivity|]. right.
    exists a, x, t. split; [rewrite <- app_assoc; reflexivity | split; assumption].
  - left. unfold bnd. destruct p; reflexivity.
Qed.

Lemma line_start_eol p c e : terminated e = true -> line_start (p ++ c ++ eol_bytes e).
Proof.
  intros T. right. destruct e; try discriminate T; cbn [eol_bytes].
  - exists (p ++ c), x0a. split; [rewrite app_assoc; reflexivity | reflexivity].
  - exists (p ++ c ++ [x0d]), x0a. split; [|reflexivity].
    rewrite <- !app_assoc. reflexivity.
  - exists (p ++ c), x0d. split; [rewrite app_assoc; reflexivity | reflexivity].
Qed.

(* r is Ok v with Q v, or a Panic on an input that is not UTF-8 *)
Definition okP {A} (s : bytes) (r : res A) (Q : A -> Prop) : Prop :=
  (exists v, r = Ok v /\ Q v) \/ (bad_start s /\ exists site, r = Panic site).

Lemma okP_bind {A B} s (r : res A) (f : A -> res B) (Q : A -> Prop) (Q' : B -> Prop) :
  okP s r Q -> (forall v, Q v -> okP s (f v) Q') -> okP s (bind r f) Q'.
Proof.
  intros [[v [-> Hv]] | [Hb [site ->]]] H.
  - exact (H v Hv).
  - right. split; [exact Hb | exists site; reflexivity].
Qed.

Lemma okP_weaken {A} s (r : res A) (Q Q' : A -> Prop) :
  (forall v, Q v -> Q' v) -> okP s r Q -> okP s r Q'.
Proof.
  intros H [[v [-> Hv]] | R]; [left; exists v; split; [reflexivity | exact (H v Hv)] | right; exact R].
Qed.

Lemma okP_utf8 {A} s (r : res A) Q : okP s r Q -> utf8_valid s = true -> exists v, r = Ok v /\ Q v.
Proof. intros [H | [Hb _]] V; [exact H | destruct (bad_start_not_utf8 s Hb V)]. Qed.

Lemma okP_ok {A} s (r : res A) Q v : okP s r Q -> r = Ok v -> Q v.
Proof.
  intros [[v' [-> Hv]] | [_ [site ->]]] E; [injection E as <-; exact Hv | discriminate E].
Qed.

(* ------------------------------------------------------------------------------------------------ *)
(* Part 2b: fm_line_at is cut_line *)

Lemma is_line_end_char_nl b : Model.Strings.is_line_end_char b = is_nl b.
Proof. destruct b; reflexivity. Qed.

Lemma scan_line_end_cut : forall t n c e r, cut_line t = (c, e, r) ->
  scan_line_end t n = n + List.length c.
Proof.
  induction t as [|b t IH]; intros n c e r H.
  - injection H as <- <- <-. cbn. lia.
  - cbn [scan_line_end cut_line] in *. rewrite is_line_end_char_nl. unfold is_nl.
    destruct (beqb b x0a) eqn:Ea. { injection H as <- <- <-. cbn. lia. }
    destruct (beqb b x0d) eqn:Ed.
    { destruct t as [|b2 t']; [|destruct (beqb b2 x0a)]; injection H as <- <- <-; cbn; lia. }
    cbn [orb]. destruct (cut_line t) as [[c1 e1] r1] eqn:C. injection H as <- <- <-.
    rewrite (IH (S n) c1 e1 r1 eq_refl). cbn [List.length]. lia.
Qed.

Lemma eol_starts_crlf e r : (e = EEOF -> r = []) -> (e = ECR -> starts_with r fm_lf = false) ->
  starts_with (eol_bytes e ++ r) fm_crlf = match e with ECRLF => true | _ => false end.
Proof.
  intros H0 H1. destruct e; cbn [eol_bytes app].
  - reflexivity.
  - reflexivity.
  - specialize (H1 eq_refl). unfold fm_crlf, fm_lf in *. cbn [starts_with] in *.
    destruct r as [|b r]; [reflexivity|]. rewrite andb_true_r in H1. cbn [starts_with]. rewrite H1. reflexivity.
  - rewrite (H0 eq_refl). reflexivity.
Qed.

Lemma bnd_eol p e r : (e = EEOF -> r = []) -> bnd p (eol_bytes e ++ r) = true.
Proof.
  intro H. unfold bnd. destruct p; [reflexivity|]. destruct e; cbn [eol_bytes app]; try reflexivity.
  rewrite (H eq_refl). reflexivity.
Qed.

(* the line of p ++ t at |p|: the first line of t, and the offset after its terminator; the only check that
   can fail is the char boundary at |p| *)
Lemma line_at_app p t c e r : cut_line t = (c, e, r) ->
  fm_line_at (p ++ t) (List.length p) =
  if bnd p t then Ok (c, List.length p + List.length c + List.length (eol_bytes e))
  else Panic "strings.rs:line_at:slice".
Proof.
  intro C. destruct (cut_line_facts _ _ _ _ C) as [Et [_ [He Hr]]].
  unfold fm_line_at. rewrite skipn_app_len, (scan_line_end_cut t _ c e r C).
  assert (Es : p ++ t = (p ++ c) ++ eol_bytes e ++ r) by (rewrite Et, <- app_assoc; reflexivity).
  assert (El : List.length p + List.length c = List.length (p ++ c)) by (rewrite app_length; reflexivity).
  unfold byte_slice_from.
  assert (Hle : Nat.leb (List.length p + List.length c) (List.length (p ++ t)) = true).
  { apply Nat.leb_le. rewrite Es, !app_length. lia. }
  rewrite Hle. cbn [bind].
  replace (skipn (List.length p + List.length c) (p ++ t)) with (eol_bytes e ++ r)
    by (rewrite Es, El, skipn_app_len; reflexivity).
  rewrite (eol_starts_crlf e r He Hr).
  unfold fm_slice.
  assert (Hle2 : Nat.leb (List.length p) (List.length p + List.length c) = true) by (apply Nat.leb_le; lia).
  rewrite Hle2, boundary_app. cbn [andb].
  replace (is_char_boundary (p ++ t) (List.length p + List.length c)) with true
    by (rewrite Es, El, boundary_app, bnd_eol; [reflexivity | exact He]).
  rewrite andb_true_r. destruct (bnd p t); [|reflexivity]. cbn [bind].
  replace (List.length p + List.length c - List.length p) with (List.length c) by lia.
  rewrite skipn_app_len. rewrite Et at 1. rewrite firstn_app_len.
  f_equal. f_equal.
  destruct e; cbn [eol_bytes List.length].
  - replace (Nat.ltb (List.length p + List.length c) (List.length (p ++ t))) with true; [lia|].
    symmetry. apply Nat.ltb_lt. rewrite Es, !app_length. cbn [eol_bytes List.length]. lia.
  - lia.
  - replace (Nat.ltb (List.length p + List.length c) (List.length (p ++ t))) with true; [lia|].
    symmetry. apply Nat.ltb_lt. rewrite Es, !app_length. cbn [eol_bytes List.length]. lia.
  - replace (Nat.ltb (List.length p + List.length c) (List.length (p ++ t))) with false; [lia|].
    symmetry. apply Nat.ltb_ge. rewrite Es, (He eq_refl), !app_length. cbn [eol_bytes List.length]. lia.
Qed.

Lemma line_at_okP p t c e r : cut_line t = (c, e, r) -> line_start p \/ t = [] ->
  okP (p ++ t) (fm_line_at (p ++ t) (List.length p))
      (fun v => v = (c, List.length p + List.length c + List.length (eol_bytes e))).
Proof.
  intros C L. rewrite (line_at_app p t c e r C).
  destruct (bnd_line_start p t L) as [-> | Hb].
  - left. eexists. split; reflexivity.
  - destruct (bnd p t); [left; eexists; split; reflexivity|].
    right. split; [exact Hb | eexists; reflexivity].
Qed.

(* ------------------------------------------------------------------------------------------------ *)
(* Part 3a: the loop is find_closer *)

Definition good_pos (s : bytes) (n : nat) : Prop :=
  exists q r, s = q ++ r /\ n = List.length q /\ (line_start q \/ r = []).

Definition closing_expected (d : bytes) (p t : bytes) : option nat :=
  match find_closer d (lines t) with
  | None => None
  | Some (body, _) => Some (List.length p + List.length (join body))
  end.

Lemma find_closing_okP d : forall fuel p t, List.length t < fuel -> line_start p \/ t = [] ->
  okP (p ++ t) (find_closing_line fuel (p ++ t) d (List.length p))
      (fun v => (forall n, v = Some n -> good_pos (p ++ t) n) /\ (d <> [] -> v = closing_expected d p t)).
Proof.
  induction fuel as [|f IH]; intros p t Hf L; [lia|].
  cbn [find_closing_line].
  destruct t as [|b0 t0] eqn:Et.
  { rewrite app_nil_r, Nat.eqb_refl. left. exists None. split; [reflexivity|]. split; [discriminate|].
    intro Hd. unfold closing_expected. cbn [lines]. rewrite (find_closer_nil_line d Hd). reflexivity. }
  rewrite <- Et in *. assert (Tn : t <> []) by (rewrite Et; discriminate). clear Et b0 t0.
  replace (Nat.eqb (List.length p) (List.length (p ++ t))) with false
    by (symmetry; apply Nat.eqb_neq; rewrite app_length; destruct t; [congruence | cbn [List.length]; lia]).
  destruct (cut_line t) as [[c e] r] eqn:C.
  destruct (cut_line_facts _ _ _ _ C) as [Ect [_ [He _]]].
  pose proof (cut_line_nonempty _ _ _ _ C Tn) as Hlen.
  eapply okP_bind; [apply (line_at_okP p t c e r C L)|].
  intros v ->. cbn [fst snd].
  set (q := p ++ c ++ eol_bytes e).
  assert (Es : p ++ t = q ++ r) by (unfold q; rewrite Ect, <- !app_assoc; reflexivity).
  assert (En : List.length p + List.length c + List.length (eol_bytes e) = List.length q)
    by (unfold q; rewrite !app_length; lia).
  assert (Lq : line_start q \/ r = []).
  { destruct (terminated e) eqn:T; [left; apply line_start_eol; exact T|].
    right. apply He. destruct e; try discriminate T; reflexivity. }
  assert (Hl : lines t = (c, e) :: rest_lines e r) by (rewrite lines_cut, C; reflexivity).
  destruct (bytes_eqb c d) eqn:E.
  - left. eexists. split; [reflexivity|]. split.
    + intros n [= <-]. exists q, r. split; [exact Es | split; [exact En | exact Lq]].
    + intros _. unfold closing_expected. rewrite Hl. cbn [find_closer]. rewrite E.
      rewrite join_cons. cbn [join flat_map]. rewrite app_nil_r, app_length. f_equal. lia.
  - rewrite En, Es.
    assert (Hf' : List.length r < f) by lia.
    eapply okP_weaken; [|apply (IH q r Hf' Lq)].
    intros v [G2 G3]. split.
    + exact G2.
    + intro Hd. rewrite (G3 Hd). unfold closing_expected. rewrite Hl. cbn [find_closer]. rewrite E.
      unfold rest_lines. destruct (terminated e) eqn:T.
      * destruct (find_closer d (lines r)) as [[a b]|]; [|reflexivity].
        f_equal. rewrite join_cons, !app_length. unfold q. rewrite !app_length. lia.
      * assert (r = []) as -> by (apply He; destruct e; try discriminate T; reflexivity).
        cbn [lines]. rewrite (find_closer_nil_line d Hd). reflexivity.
Qed.

(* ------------------------------------------------------------------------------------------------ *)
(* Part 3b: the function is the specification *)

Lemma eol_len_zero e n : Nat.eqb (0 + n + List.length (eol_bytes e)) n = negb (terminated e).
Proof.
  destruct e; cbn [eol_bytes List.length terminated negb].
  1-3: apply Nat.eqb_neq; lia.
  apply Nat.eqb_eq. lia.
Qed.

Lemma final_cut_okP s a b : s = a ++ b -> line_start a \/ b = [] ->
  okP s (do fm <- slice_to s (List.length a); do rest <- slice_from s (List.length a); Ok (Some (fm, rest)))
      (fun v => v = Some (a, b)).
Proof.
  intros -> L. rewrite slice_to_app, slice_from_app.
  destruct (bnd_line_start a b L) as [-> | Hb].
  - left. eexists. split; reflexivity.
  - destruct (bnd a b); [left; eexists; split; reflexivity|].
    right. split; [exact Hb | eexists; reflexivity].
Qed.

Lemma join_nil : join (@nil (bytes * eol)%type) = [] .
Proof. reflexivity. Qed.

(* what the specification absorbs after the closing line, read off the first line of the following text *)
Lemma absorb_join ec r1 c' e' r' : (ec = EEOF -> r1 = []) -> cut_line r1 = (c', e', r') ->
  let (bl, after') := absorb_blank (rest_lines ec r1) in
  (join bl, join after') = match c' with [] => (eol_bytes e', r') | _ :: _ => ([], r1) end.
Proof.
  intros Hec C. destruct (cut_line_facts _ _ _ _ C) as [_ [_ [He' _]]].
  unfold rest_lines at 1. destruct (terminated ec) eqn:Tc.
  - pose proof (join_lines r1) as J. rewrite lines_cut, C in *. destruct c' as [|h c'].
    + unfold absorb_blank. destruct (terminated e') eqn:T.
      * unfold rest_lines. rewrite T, join_cons, join_nil, join_lines, app_nil_r. reflexivity.
      * assert (e' = EEOF) as -> by (destruct e'; try discriminate T; reflexivity).
        rewrite (He' eq_refl). reflexivity.
    + unfold absorb_blank. rewrite J. reflexivity.
  - assert (ec = EEOF) as Eec by (destruct ec; try discriminate Tc; reflexivity).
    rewrite (Hec Eec) in C. injection C as <- <- <-. reflexivity.
Qed.

Theorem split_okP s0 d : delim_ok d = true ->
  okP (strip_bom s0) (split_off_front_matter s0 d) (fun v => v = spec_split s0 d).
Proof.
  intro Hd. destruct (delim_ok_clean d Hd) as [_ Dn].
  unfold split_off_front_matter. rewrite trim_is_strip_bom.
  unfold spec_split, spec_split_gen. rewrite Hd. cbn [negb].
  set (s := strip_bom s0).
  destruct (cut_line s) as [[c0 e0] r0] eqn:C0.
  destruct (cut_line_facts _ _ _ _ C0) as [Es0 _].
  rewrite lines_cut, C0.
  eapply okP_bind; [exact (line_at_okP [] s c0 e0 r0 C0 (or_introl (or_introl eq_refl)))|].
  intros v ->. cbn [fst snd app List.length].
  rewrite eol_len_zero, <- negb_andb.
  destruct (bytes_eqb c0 d && terminated e0) eqn:E0; cbn [negb];
    [|left; eexists; split; reflexivity].
  apply andb_true_iff in E0. destruct E0 as [E0 T0].
  unfold rest_lines. rewrite T0.
  set (p1 := c0 ++ eol_bytes e0).
  assert (Es : s = p1 ++ r0) by (unfold p1; rewrite <- app_assoc; exact Es0).
  assert (En : 0 + List.length c0 + List.length (eol_bytes e0) = List.length p1)
    by (unfold p1; rewrite app_length; lia).
  assert (L1 : line_start p1) by (apply (line_start_eol [] c0 e0 T0)).
  clearbody s. clear Es0. subst s. rewrite En.
  assert (Hf : List.length r0 < S (List.length (p1 ++ r0))) by (rewrite app_length; lia).
  eapply okP_bind; [apply (find_closing_okP d _ p1 r0 Hf (or_introl L1))|].
  intros v [G2 G3]. specialize (G3 Dn). unfold closing_expected in G3.
  destruct (find_closer d (lines r0)) as [[body after]|] eqn:F; subst v;
    [|left; eexists; split; reflexivity].
  destruct (find_closer_lines d _ r0 body after (le_n _) F) as [ec [r1 [Er0 [Haf Hec]]]].
  destruct (G2 _ eq_refl) as [q [rq [Eq [Nq Lq]]]].
  assert (Eq2 : q = p1 ++ join body /\ rq = r1).
  { apply app_eq_len; [rewrite <- Eq, Er0, <- app_assoc; reflexivity|].
    rewrite <- Nq, app_length. reflexivity. }
  destruct Eq2 as [Eq2 ->]. rewrite Nq, Eq. clear Hf G2.
  destruct (cut_line r1) as [[c' e'] r'] eqn:C1.
  destruct (cut_line_facts _ _ _ _ C1) as [Er1 [_ [He' _]]].
  eapply okP_bind; [apply (line_at_okP q r1 c' e' r' C1 Lq)|].
  intros v ->. cbn [fst snd].
  (* the value the specification gives *)
  assert (Jfm : forall bl, join ((c0, e0) :: body ++ bl) = q ++ join bl).
  { intro bl. rewrite join_cons, join_app, Eq2. unfold p1. rewrite <- !app_assoc. reflexivity. }
  pose proof (absorb_join ec r1 c' e' r' Hec C1) as Ab. rewrite <- Haf in Ab.
  destruct (absorb_blank after) as [bl after'].
  destruct c' as [|h c'].
  - (* a blank line (or nothing) follows the closing line *)
    cbn [List.length] in *. rewrite Nat.add_0_r.
    replace (List.length q + List.length (eol_bytes e')) with (List.length (q ++ eol_bytes e'))
      by (rewrite app_length; reflexivity).
    assert (Esq' : q ++ r1 = (q ++ eol_bytes e') ++ r') by (rewrite Er1, <- app_assoc; reflexivity).
    assert (L' : line_start (q ++ eol_bytes e') \/ r' = []).
    { destruct (terminated e') eqn:T; [left; apply (line_start_eol q [] e' T)|].
      right. apply He'. destruct e'; try discriminate T; reflexivity. }
    eapply okP_weaken; [|apply (final_cut_okP _ _ _ Esq' L')].
    intros v ->. rewrite Jfm. injection Ab as -> ->. reflexivity.
  - (* text follows: nothing is absorbed *)
    eapply okP_weaken; [|apply (final_cut_okP _ q r1 eq_refl Lq)].
    intros v ->. rewrite Jfm. injection Ab as -> ->. rewrite app_nil_r. reflexivity.
Qed.

(* ------------------------------------------------------------------------------------------------ *)
(* Part 4: consequences *)

(* the full statement of C20 for the splitter: on every Rust str, for every well-formed delimiter *)
Definition split_vs_spec_full_statement : Prop :=
  forall s d, utf8_valid s = true -> delim_ok d = true -> split_off_front_matter s d = Ok (spec_split s d).

Theorem split_vs_spec : split_vs_spec_full_statement.
Proof.
  intros s d V Hd. destruct (okP_utf8 _ _ _ (split_okP s d Hd)) as [v [-> ->]]; [|reflexivity].
  rewrite <- trim_is_strip_bom. apply trim_valid. exact V.
Qed.

(* on arbitrary bytes: whatever is returned is what the specification says *)
Theorem split_ok_is_spec s d r : delim_ok d = true -> split_off_front_matter s d = Ok r -> r = spec_split s d.
Proof. intros Hd H. exact (okP_ok _ _ _ _ (split_okP s d Hd) H). Qed.

(* ... and the only other outcome is a Panic at a line start that is not a char boundary: never on a str *)
Theorem split_ok_or_not_utf8 s d : delim_ok d = true ->
  split_off_front_matter s d = Ok (spec_split s d) \/
  (utf8_valid s = false /\ exists site, split_off_front_matter s d = Panic site).
Proof.
  intro Hd. destruct (split_okP s d Hd) as [[v [-> ->]] | [Hb Hp]]; [left; reflexivity|].
  right. split; [|exact Hp].
  destruct (utf8_valid s) eqn:V; [|reflexivity]. exfalso.
  apply (bad_start_not_utf8 _ Hb). rewrite <- trim_is_strip_bom. apply trim_valid. exact V.
Qed.

Lemma split_never_out_of_fuel s d : delim_ok d = true -> split_off_front_matter s d <> OutOfFuel.
Proof. intros Hd H. destruct (split_ok_or_not_utf8 s d Hd) as [E | [_ [site E]]]; rewrite E in H; discriminate. Qed.

(* the slice checks are real: off UTF-8 the model does panic *)
Lemma split_panics_off_boundary :
  exists s d site, delim_ok d = true /\ split_off_front_matter s d = Panic site.
Proof. exists (B "-" ++ [x0a; xa9]), (B "-"). eexists. split; vm_compute; reflexivity. Qed.

(* soundness, from the specification: the pieces are a split of the (BOM-stripped) input, and the front
   matter is the delimiter line, body lines none of which is the delimiter, the delimiter line, and at most
   one blank line *)
Definition fm_shape (d fm : bytes) : Prop :=
  exists e0 body ec bl,
    terminated e0 = true /\ (forall l, In l body -> bytes_eqb (fst l) d = false) /\
    (bl = [] \/ exists e, terminated e = true /\ bl = [([], e)]) /\
    (terminated ec = false -> bl = []) /\
    fm = join ((d, e0) :: body ++ (d, ec) :: bl).

Lemma spec_split_sound s d fm rest : spec_split s d = Some (fm, rest) ->
  strip_bom s = fm ++ rest /\ fm_shape d fm.
Proof.
  unfold spec_split, spec_split_gen. destruct (negb (delim_ok d)); [discriminate|].
  pose proof (join_lines (strip_bom s)) as J.
  destruct (lines (strip_bom s)) as [|[c0 e0] ls] eqn:El; [discriminate|].
  destruct (bytes_eqb c0 d && terminated e0) eqn:E0; [|discriminate].
  apply andb_true_iff in E0. destruct E0 as [E0 T0]. apply bytes_eqb_eq in E0. subst c0.
  destruct (find_closer d ls) as [[body after]|] eqn:F; [|discriminate].
  destruct (find_closer_some d ls body after F) as [pre [ec [-> [-> Hpre]]]].
  destruct (absorb_blank after) as [bl after'] eqn:Ab.
  pose proof (absorb_app _ _ _ Ab) as Haf.
  intros [= <- <-].
  change (join1 (d, e0) ++ join ((pre ++ [(d, ec)]) ++ bl)) with (join ((d, e0) :: (pre ++ [(d, ec)]) ++ bl)).
  split.
  - rewrite <- J, Haf, <- join_app. f_equal. cbn [app]. rewrite <- !app_assoc. reflexivity.
  - exists e0, pre, ec, bl. split; [exact T0|]. split; [exact Hpre|]. split; [|split].
    + unfold absorb_blank in Ab. destruct after as [|[[|h c] e] r]; try (injection Ab as <- <-; left; reflexivity).
      destruct (terminated e) eqn:T; injection Ab as <- <-; [right; exists e; split; [exact T | reflexivity] | left; reflexivity].
    + intro Tc. pose proof (lines_wf (strip_bom s)) as W. rewrite El in W.
      assert (after = []) as ->.
      { change ((d, e0) :: pre ++ (d, ec) :: after) with (((d, e0) :: pre) ++ (d, ec) :: after) in W.
        destruct ec; try discriminate Tc. exact (wf_eof_last _ _ _ W). }
      injection Ab as <- _. reflexivity.
    + rewrite <- app_assoc. reflexivity.
Qed.

Theorem split_sound s d fm rest : delim_ok d = true ->
  split_off_front_matter s d = Ok (Some (fm, rest)) ->
  strip_bom s = fm ++ rest /\ fm_shape d fm.
Proof. intros Hd H. apply spec_split_sound. symmetry. exact (split_ok_is_spec s d _ Hd H). Qed.

(* ------------------------------------------------------------------------------------------------ *)
(* the witnesses that refuted model = spec before the repair (known_findings F9, F10, F11, C20-a) *)

Definition w_d : bytes := Eval compute in B "---".
(* F9: d LF a LF d LF body LF d CR LF more — a later CRLF closer used to win *)
Definition w_f9 : bytes := Eval compute in
  B "---" ++ [x0a] ++ B "a" ++ [x0a] ++ B "---" ++ [x0a] ++ B "body" ++ [x0a] ++ B "---" ++ [x0d; x0a] ++ B "more".
(* F10: d LF foo LF d x LF d — the line d x used to hide the closer at end of input *)
Definition w_f10 : bytes := Eval compute in
  B "---" ++ [x0a] ++ B "foo" ++ [x0a] ++ B "---x" ++ [x0a] ++ B "---".
(* F11: d CR fm CR d CR text CR — CR-only line endings *)
Definition w_f11 : bytes := Eval compute in
  B "---" ++ [x0d] ++ B "fm" ++ [x0d] ++ B "---" ++ [x0d] ++ B "text" ++ [x0d].
(* F25 / C20-a: d LF d LF text LF — empty front matter *)
Definition w_f25 : bytes := Eval compute in
  B "---" ++ [x0a] ++ B "---" ++ [x0a] ++ B "text" ++ [x0a].
