(* Proofs/BlocksTotal7CurOpen.v — totality of the block phase, seventh round, the cursor-boundary walk, part 3: the
   invariant UB of Proofs/BlocksTotal7CurInv.v through the twelve handlers of open_new_blocks, the table openers,
   open_new_blocks_step, the loop, open_new_blocks (answer-Ok facts; the premises C1 / F1 and the tree invariant J
   that the loop needs are the ones of the fourth-round cursor walk, Proofs/BlocksTotal4Open.v, BlocksTotal4Line.v). *)
From Coq Require Import List NArith Arith Bool Lia Strings.String.
From V Require Import Base.Bytes Base.Res Gen.Nodes Gen.BlocksConst Gen.StrLeafGen Model.Ast Model.Strings Model.Entity Model.LinkUrl Model.ListMarker
  Model.Feed Model.FrontMatter Model.RefDef Model.Scan Model.Blocks Spec.EscapeSpec
  Proofs.StrLeafProofs Proofs.StrLeafEntity Proofs.BlocksProofs Proofs.BlocksCursor Proofs.BlocksTight Proofs.BlocksTotal
  Spec.Shape Spec.Valid Proofs.ParserShapeBlocks Proofs.ParserShapeTree Proofs.ParserShapeTabPrim Proofs.ParserShapeTables
  Proofs.BlocksTotal2Safe Proofs.BlocksTotal2Root Proofs.BlocksTotal2Tree Proofs.BlocksTotal2Walk Proofs.BlocksTotal3Tab Proofs.BlocksTotal3Cur Proofs.BlocksTotal4Safe
  Proofs.BlocksTotal4Cur Proofs.BlocksTotal4Frame Proofs.BlocksTotal4Walk Proofs.BlocksTotal4Atx Proofs.BlocksTotal4Open Proofs.BlocksTotal4Line
  Proofs.BlocksTotal5Adv Proofs.BlocksTotal7CurInv.
From V Require Proofs.BlocksTotal4Scan Proofs.BlocksTotal4Marker Proofs.BlocksTotal7CurScan.
Import ListNotations.
Local Open Scope string_scope.
Local Open Scope list_scope.

(* the white-space loop of handle_list: when it moves at all, the byte at the offset it starts from is a space or a tab *)
Lemma list_spaces_first line sc fuel st s2 : list_spaces_loop fuel st line sc = Ok s2 ->
  s2 = st \/ exists b, nth_error line (c_offset (ps_cur st)) = Some b /\ is_space_or_tab b = true.
Proof.
  destruct fuel as [|f]; cbn [list_spaces_loop]; intro H; [discriminate H|]. unfold offset in H.
  mstep H. mstep H; [|mstep H; now left]. mstep H. apply idx_ok in E1. mstep H; [|mstep H; now left].
  right. eauto.
Qed.

Section Open.
Variables (o : bopts) (line : bytes).
Hypothesis LN : lf_terminated line.
Hypothesis UV : utf8_valid line = true.

Ltac f1start F :=
  destruct (F1_in _ _ LN F) as (Le & Lt & b0 & Hb0 & Sp0); pose proof F as [(Fr & B & Ind & Bl & Len) Lo].

Lemma scan_land (scan : bytes -> option nat) off fns m :
  (forall s m, scan s = Some m -> 1 <= m -> exists c, nth_error s (m - 1) = Some c /\ is_ascii c = true) ->
  scan (skipn fns line) = Some m -> 1 <= m -> off <= fns -> at_boundary line (off + (fns + m - off)).
Proof.
  intros L Sc G Le. destruct (L _ _ Sc G) as (c & Hc & A). rewrite BlocksTotal4Cur.nth_error_skipn_add in Hc.
  replace (off + (fns + m - off)) with (S (fns + (m - 1))) by lia. eapply ab_prev; eassumption.
Qed.

Ltac land scan lastL geL :=
  match goal with Sc : scan _ = Some ?m |- _ =>
    let G := fresh "G" in pose proof (geL _ _ Sc) as G;
    eapply (scan_land scan); [exact lastL | exact Sc | lia | lia] end.

(* to the final LF *)
Lemma adv_lf_UB s k s1 : UB line s -> adv s line k false = Ok s1 -> c_offset (ps_cur s) + k = List.length line - 1 -> UB line s1.
Proof.
  intros U A E. eapply adv_bytes_UB; [exact UV | exact U | exact A | right]. rewrite E. now apply ab_lf.
Qed.

Lemma handle_alert_UB st c ind r : F1 line st -> UB line st -> handle_alert o st c line ind = Ok r -> UB line (snd r).
Proof.
  intros F U H. f1start F. unfold handle_alert, not_handled, fns, offset in H.
  mon H; cbn [snd]; try exact U. pairs. subs.
  match goal with A : add_child o ?s1 _ _ _ = Ok (_, ?s2) |- UB line ?s2 =>
    eapply UB_KC; [eapply add_child_KC; [exact A | apply KC_self]|] end.
  match goal with A : adv st line _ false = Ok _ |- _ => eapply adv_lf_UB; [exact U | exact A | lia] end.
Qed.

Lemma handle_mbq_UB st c ind r : F1 line st -> UB line st -> handle_multiline_blockquote o st c line ind = Ok r -> UB line (snd r).
Proof.
  intros F U H. f1start F. unfold handle_multiline_blockquote, not_handled, fns, offset in H.
  mon H; cbn [snd]; try exact U. pairs. subs.
  match goal with A : add_child o st _ _ _ = Ok (_, ?s1), V : adv ?s1 line _ false = Ok _ |- _ =>
    pose proof (add_child_KC _ _ _ _ _ _ _ _ _ A (KC_self st)) as K;
    eapply adv_bytes_UB; [exact UV | eapply UB_KC; [exact K | exact U] | exact V | right]; destruct K as [K _]; rewrite K end.
  land scan_open_multiline_block_quote_fence BlocksTotal7CurScan.scan_open_mbq_fence_last BlocksTotal4Scan.scan_open_mbq_fence_ge.
Qed.

Lemma handle_blockquote_UB st c ind r : F1 line st -> UB line st -> handle_blockquote o st c line ind = Ok r -> UB line (snd r).
Proof.
  intros F U H. f1start F. unfold handle_blockquote, not_handled, fns, offset in H.
  mon H; cbn [snd]; try exact U. pairs. subs.
  match goal with A : add_child o ?s1 _ _ _ = Ok (_, ?s2) |- UB line ?s2 =>
    eapply UB_KC; [eapply add_child_KC; [exact A | apply KC_self]|] end.
  match goal with S : skip_one_space _ _ _ = Ok ?s2 |- UB line ?s2 => eapply skip_one_space_UB; [exact UV | | exact S] end.
  match goal with A : adv st line _ false = Ok _ |- _ => eapply adv_bytes_UB; [exact UV | exact U | exact A | right] end.
  match goal with X : nth_error line (c_fns (ps_cur st)) = Some ?bb, Y : negb (beqb ?bb x3e) = false |- _ =>
    apply negb_false_iff, beqb_eq in Y; subst bb; rename X into Hb end.
  replace (c_offset (ps_cur st) + (c_fns (ps_cur st) + 1 - c_offset (ps_cur st))) with (S (c_fns (ps_cur st))) by lia.
  eapply ab_prev; [exact Hb | reflexivity].
Qed.

Lemma handle_atx_UB st c ind r : F1 line st -> UB line st -> handle_atx_heading o st c line ind = Ok r -> UB line (snd r).
Proof.
  intros F U H. f1start F. unfold handle_atx_heading, not_handled, fns, offset in H.
  mon H; cbn [snd]; try exact U. pairs. subs.
  match goal with A : add_child_gen o ?s1 _ _ _ _ _ = Ok (_, ?s2) |- UB line ?s2 =>
    eapply UB_KC; [eapply add_child_gen_KC; [exact A | apply KC_self]|] end.
  match goal with A : adv st line _ false = Ok _ |- _ => eapply adv_bytes_UB; [exact UV | exact U | exact A | right] end.
  land scan_atx_heading_start BlocksTotal7CurScan.scan_atx_heading_start_last BlocksTotal4Scan.scan_atx_heading_start_ge.
Qed.

Lemma handle_code_fence_UB st c ind r : F1 line st -> UB line st -> handle_code_fence o st c line ind = Ok r -> UB line (snd r).
Proof.
  intros F U H. f1start F. unfold handle_code_fence, not_handled, fns, offset in H.
  mon H; cbn [snd]; try exact U. pairs. subs.
  match goal with A : add_child o st _ _ _ = Ok (_, ?s1), V : adv ?s1 line _ false = Ok _ |- _ =>
    pose proof (add_child_KC _ _ _ _ _ _ _ _ _ A (KC_self st)) as K;
    eapply adv_bytes_UB; [exact UV | eapply UB_KC; [exact K | exact U] | exact V | right]; destruct K as [K _]; rewrite K end.
  land scan_open_code_fence BlocksTotal7CurScan.scan_open_code_fence_last BlocksTotal4Scan.scan_open_code_fence_ge.
Qed.

Lemma handle_html_block_UB st c ind r : F1 line st -> UB line st -> handle_html_block o st c line ind = Ok r -> UB line (snd r).
Proof.
  intros F U H. unfold handle_html_block, not_handled in H.
  mon H; cbn [snd]; try exact U. pairs.
  match goal with A : add_child o ?s1 _ _ _ = Ok (_, ?s2) |- UB line ?s2 =>
    eapply UB_KC; [eapply add_child_KC; [exact A | apply KC_self] | exact U] end.
Qed.

Lemma handle_setext_UB st c ind r : F1 line st -> UB line st -> handle_setext_heading o st c line ind = Ok r -> UB line (snd r).
Proof.
  intros F U H. f1start F. unfold handle_setext_heading, not_handled, fns, offset in H.
  mon H; cbn [snd]; try exact U; pairs; subs;
    match goal with M : modify_info (st_refmap st ?m') _ _ = Ok ?s1 |- _ =>
      pose proof (modify_info_KC _ _ _ _ _ _ M (KC_self (st_refmap st m'))) as K;
      assert (U1 : UB line s1) by (eapply UB_KC; [exact K | exact U]); destruct K as [K _]; cbn [ps_cur st_refmap] in K end;
    [|exact U1].
  match goal with A : adv _ line _ false = Ok _ |- _ => eapply adv_lf_UB; [exact U1 | exact A | rewrite K in *; lia] end.
Qed.

Lemma handle_thematic_break_UB st c ind am r : F1 line st -> UB line st -> handle_thematic_break o st c line ind am = Ok r -> UB line (snd r).
Proof.
  intros F U H. f1start F. unfold handle_thematic_break, not_handled, fns, offset in H.
  mon H; cbn [snd]; try exact U. pairs. subs.
  match goal with A : add_child o st _ _ _ = Ok (_, ?s1), M : modify_info ?s1 _ _ = Ok ?s2, V : adv ?s2 line _ false = Ok _ |- _ =>
    pose proof (add_child_KC _ _ _ _ _ _ _ _ _ A (KC_self st)) as K1;
    pose proof (modify_info_KC _ _ _ _ _ _ M (KC_self s1)) as K2;
    eapply adv_lf_UB; [eapply UB_KC; [exact K2|]; eapply UB_KC; [exact K1 | exact U] | exact V |];
    destruct K1 as [K1 _]; destruct K2 as [K2 _]; rewrite K2, K1 in *; lia end.
Qed.

Lemma handle_footnote_UB st c ind d r : F1 line st -> UB line st -> handle_footnote o st c line ind d = Ok r -> UB line (snd r).
Proof.
  intros F U H. f1start F. unfold handle_footnote, not_handled, fns, offset in H.
  mon H; cbn [snd]; try exact U. pairs. subs.
  match goal with M : modify_info ?s2 _ _ = Ok ?s3 |- UB line ?s3 =>
    eapply UB_KC; [eapply modify_info_KC; [exact M | apply KC_self]|] end.
  match goal with A : add_child o ?s1 _ _ _ = Ok (_, ?s2) |- UB line ?s2 =>
    eapply UB_KC; [eapply add_child_KC; [exact A | apply KC_self]|] end.
  match goal with A : adv st line _ false = Ok _ |- _ => eapply adv_bytes_UB; [exact UV | exact U | exact A | right] end.
  land scan_footnote_definition BlocksTotal7CurScan.scan_footnote_definition_last BlocksTotal4Scan.scan_footnote_definition_ge.
Qed.

Lemma handle_description_list_UB st c ind r : F1 line st -> UB line st -> handle_description_list o st c line ind = Ok r -> UB line (snd r).
Proof.
  intros F U H. f1start F. unfold handle_description_list, not_handled, fns, offset in H.
  mon H; cbn [snd]; try exact U; pairs; subs;
    match goal with P : parse_desc_list_details o st _ _ = Ok (_, _, ?s1) |- _ =>
      pose proof (parse_desc_list_details_KC _ _ _ _ _ _ _ _ _ P (KC_self st)) as K;
      assert (U1 : UB line s1) by (eapply UB_KC; [exact K | exact U]); destruct K as [K _] end;
    [exact U1|].
  match goal with S : skip_one_space _ _ _ = Ok ?s2 |- UB line ?s2 => eapply skip_one_space_UB; [exact UV | | exact S] end.
  match goal with A : adv _ line _ false = Ok _ |- _ => eapply adv_bytes_UB; [exact UV | exact U1 | exact A | right] end.
  rewrite K.
  land scan_description_item_start BlocksTotal7CurScan.scan_description_item_start_last BlocksTotal4Scan.scan_description_item_start_ge.
Qed.

Lemma sl_isspace_is_ascii b : sl_isspace b = true -> is_ascii b = true.
Proof. intro H. pose proof (sl_isspace_ascii b) as A. rewrite H in A. exact A. Qed.

Lemma handle_list_UB st c ind d r : F1 line st -> UB line st -> handle_list o st c line ind d = Ok r -> UB line (snd r).
Proof.
  intros F U H. f1start F. unfold handle_list, not_handled, fns, offset in H. cbv zeta in H.
  destruct (get st c) as [cn| |]; cbn [bind] in H; try discriminate H.
  destruct (_ || _ || _); [inversion H; subst; exact U|].
  destruct (parse_list_marker line _ _) as [[[matched nl0]|]| |] eqn:EM; cbn [bind] in H; try discriminate H; [|inversion H; subst; exact U].
  destruct (BlocksTotal7CurScan.marker_space _ _ _ _ _ EM) as (dd & Hd & Sd).
  destruct (BlocksTotal4Marker.parse_list_marker_inside _ _ _ _ _ EM) as [M1 M2].
  destruct (sub _ _ _) as [k| |] eqn:Ek; cbn [bind] in H; try discriminate H. apply sub_ok in Ek. destruct Ek as [-> _].
  destruct (adv st line _ false) as [s1| |] eqn:A1; cbn [bind] in H; try discriminate H.
  assert (U1 : UB line s1).
  { eapply adv_bytes_UB; [exact UV | exact U | exact A1 | right].
    replace (c_offset (ps_cur st) + (c_fns (ps_cur st) + matched - c_offset (ps_cur st))) with (c_fns (ps_cur st) + matched) by lia.
    eapply ab_at; [exact Hd | now apply sl_isspace_is_ascii]. }
  destruct (list_spaces_loop 8 s1 line _) as [s2| |] eqn:L2; cbn [bind] in H; try discriminate H.
  assert (U2 : UB line s2) by (eapply list_spaces_loop_UB; [exact UV | exact U1 | exact L2]).
  destruct (sub _ _ _) as [i| |] eqn:Ei; cbn [bind] in H; try discriminate H. apply sub_ok in Ei. destruct Ei as [-> _].
  destruct (idx _ line _) as [b| |]; cbn [bind] in H; try discriminate H.
  match type of H with bind ?rr _ = _ => destruct rr as [[padding s5]| |] eqn:E5; cbn [bind] in H; try discriminate H end.
  assert (U5 : UB line s5).
  { destruct (_ || _) in E5; [|inversion E5; subst; exact U2].
    match type of E5 with bind (if _ then adv ?s3 _ _ _ else _) _ = _ =>
      assert (U3 : UB line s3) by exact U1; set (st3 := s3) in * end.
    destruct (Nat.ltb 0 _) eqn:Ip in E5.
    - destruct (adv st3 line 1 true) as [s4| |] eqn:A4; cbn [bind] in E5; try discriminate E5. inversion E5; subst.
      apply Nat.ltb_lt in Ip.
      destruct (list_spaces_first _ _ _ _ _ L2) as [->|(bb & Hbb & Sbb)]; [lia|].
      eapply adv_one_UB; [exact UV | exact U3 | exact Hbb | exact Sbb | exact A4].
    - cbn [bind] in E5. inversion E5; subst. exact U3. }
  cbv zeta in H.
  destruct (get s5 c) as [c5| |]; cbn [bind] in H; try discriminate H.
  match type of H with bind ?rr _ = _ => destruct rr as [[lid s6]| |] eqn:E6; cbn [bind fst snd] in H; try discriminate H end.
  assert (U6 : UB line s6).
  { destruct (match bval c5 with NList mnl => _ | _ => true end);
      [eapply UB_KC; [eapply add_child_KC; [exact E6 | apply KC_self] | exact U5] | inversion E6; subst; exact U5]. }
  destruct (add_child o s6 lid _ _) as [[iid s7]| |] eqn:E7; cbn [bind fst snd] in H; try discriminate H.
  inversion H; subst. cbn [snd].
  eapply UB_KC; [eapply add_child_KC; [exact E7 | apply KC_self] | exact U6].
Qed.

Lemma handle_code_block_UB st c ind ml r : F1 line st -> UB line st -> ind = Nat.leb code_indent (c_indent (ps_cur st)) ->
  handle_code_block o st c line ind ml = Ok r -> UB line (snd r).
Proof.
  intros F U Ei H. unfold handle_code_block, not_handled in H.
  destruct ind; cbn [andb negb] in H; [|inversion H; subst; exact U]. symmetry in Ei. apply Nat.leb_le in Ei.
  mon H; cbn [snd]; try exact U. pairs.
  match goal with A : add_child o ?s1 _ _ _ = Ok (_, ?s2) |- UB line ?s2 =>
    eapply UB_KC; [eapply add_child_KC; [exact A | apply KC_self]|] end.
  eapply adv_cols_UB; [exact UV | exact (proj1 F) | exact U | exact Ei | eassumption].
Qed.

(* ================================================================== table.rs *)
Lemma try_opening_header_UB st c r : F1 line st -> UB line st -> try_opening_header o st c line = Ok r -> UB line (snd r).
Proof.
  intros F U H. f1start F. unfold try_opening_header, fns, offset in H.
  mon H; cbn [snd]; try exact U; subs.
  match goal with T : (if ?bb then try_inserting_table_header_paragraph st _ _ else Ok st) = Ok ?s1 |- _ =>
    assert (U1 : UB line s1)
      by (destruct bb; [eapply UB_KC; [eapply try_inserting_KC; [exact T | apply KC_self] | exact U] | inversion T; subst; exact U]) end.
  match goal with A : adv (st_next ?s1 _) line _ false = Ok ?s3 |- UB line (st_root ?s3 _) =>
    apply (UB_cur line s3 (st_root s3 _) eq_refl); refine (adv_lf_UB _ _ _ _ A _); [exact U1 | cbn [ps_cur st_next] in *; lia] end.
Qed.

Lemma try_opening_row_UB st c t r : F1 line st -> UB line st -> try_opening_row o st c t line = Ok r -> UB line (snd r).
Proof.
  intros F U H. f1start F. unfold try_opening_row, fns, offset in H.
  mon H; cbn [snd]; try exact U. subs.
  match goal with M : modify (st_next st ?n) _ _ = Ok ?s1, A : adv ?s1 line _ false = Ok _ |- _ =>
    pose proof (modify_KC _ _ _ _ _ _ M (KC_st_next _ _ _ n (KC_self st))) as K;
    eapply adv_lf_UB; [eapply UB_KC; [exact K | exact U] | exact A | lia] end.
Qed.

Lemma try_opening_block_UB st c r : F1 line st -> UB line st -> try_opening_block o st c line = Ok r -> UB line (snd r).
Proof.
  intros F U H. unfold try_opening_block in H.
  destruct (get st c) as [cn| |]; cbn [bind] in H; try discriminate H.
  destruct (bval cn); try (inversion H; subst; exact U).
  - eapply try_opening_header_UB; eassumption.
  - eapply try_opening_row_UB; eassumption.
Qed.
End Open.
