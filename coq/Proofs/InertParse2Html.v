(* Proofs/InertParse2Html.v -- property C13, the HTML renderer's own option record (Model/Html.v `html slug ro t`):
   which of the feature switches it carries are read, and where.

   html_ext        two renderer records give the same HTML on a tree when `enter` and `exit_` agree on every node of the
                   tree in its context (the value of the parent is all the context that is read here).
   html_blind3     o_footnotes, o_wikilinks_after, o_wikilinks_before are never read: any values, any tree.
   html_tagfilter  o_tagfilter is read at HtmlBlock / HtmlInline nodes only.
   html_header_ids o_header_ids is read at Heading nodes only.
   html_relaxed_autolinks   o_relaxed_autolinks is read at a Link whose parent is a Link only (known class C13-e:
                   such a tree arises without autolink syntax); html_relaxed_autolinks_read shows the read is real. *)
From Coq Require Import List NArith Bool Strings.String.
From V Require Import Base.Bytes Base.Res Model.Ast Model.Html Proofs.HtmlSafe.
Import ListNotations.
Local Open Scope list_scope.

Section ext.
Variable slug : bytes -> bytes.
Variables a b : opts.
(* P (value of the parent) (value of the node): the two records agree at such a node *)
Variable P : option node_value -> node_value -> bool.
Hypothesis Henter : forall c n st, P (c_parent c) (nval n) = true -> enter slug a c n st = enter slug b c n st.
Hypothesis Hexit : forall c n st, P (c_parent c) (nval n) = true -> exit_ a c n st = exit_ b c n st.

Fixpoint allp (pv : option node_value) (n : node) : bool :=
  match n with Node v _ ch => P pv v && forallb (allp (Some v)) ch end.

Lemma render_ext : forall n c st, allp (c_parent c) n = true -> render slug a c n st = render slug b c n st.
Proof.
  induction n as [v sp ch IH] using node_ind2. intros c st H. cbn [allp] in H. apply andb_true_iff in H.
  destruct H as [Hv Hc]. rewrite !render_unfold.
  rewrite (Henter c (Node v sp ch) st Hv).
  destruct (enter slug b c (Node v sp ch) st) as [[[e1 st1] m]| |]; cbn [bind]; try reflexivity.
  assert (forall l i prev s, Forall (fun n => forall c st, allp (c_parent c) n = true ->
                                render slug a c n st = render slug b c n st) l ->
            forallb (allp (Some v)) l = true ->
            render_list slug a v (c_parent c) l i prev s = render_list slug b v (c_parent c) l i prev s) as L.
  { induction l as [|x r IHr]; intros i prev s F Hl; [reflexivity |]. cbn [render_list].
    inversion F as [|? ? Fx Fr]; subst. cbn [forallb] in Hl. apply andb_true_iff in Hl. destruct Hl as [Hx Hr].
    rewrite (Fx _ s) by exact Hx.
    destruct (render slug b _ x s) as [[ex sx]| |]; cbn [bind]; try reflexivity.
    rewrite (IHr (S i) (Some (nval x)) sx Fr Hr). reflexivity. }
  assert (match m with MPlain => Ok ([], st1) | MHtml => render_list slug a v (c_parent c) ch 0 None st1 end
          = match m with MPlain => Ok ([], st1) | MHtml => render_list slug b v (c_parent c) ch 0 None st1 end) as ->.
  { destruct m; [| reflexivity]. apply L; assumption. }
  destruct (match m with MPlain => Ok ([], st1) | MHtml => render_list slug b v (c_parent c) ch 0 None st1 end)
    as [[e2 st2]| |]; cbn [bind]; try reflexivity.
  rewrite (Hexit c (Node v sp ch) st2 Hv). reflexivity.
Qed.

Theorem html_ext t : allp None t = true -> html slug a t = html slug b t.
Proof. intro H. unfold html, events. rewrite (render_ext t root_ctx _ H). reflexivity. Qed.
End ext.

(* ================================================================== the three fields that are never read *)
Definition ro_set3 (f wa wb : bool) (ro : opts) : opts :=
  mkOpts (o_tagfilter ro) (o_header_ids ro) f wa wb (o_relaxed_autolinks ro) (o_hardbreaks ro) (o_github_pre_lang ro)
    (o_full_info_string ro) (o_width ro) (o_unsafe ro) (o_escape ro) (o_list_style ro) (o_sourcepos ro)
    (o_escaped_char_spans ro) (o_gfm_quirks ro) (o_prefer_fenced ro) (o_figure_with_caption ro) (o_tasklist_classes ro)
    (o_ol_width ro) (o_ignore_empty_links ro) (o_experimental_minimize ro).

Definition ro_with_footnotes (v : bool) (ro : opts) : opts := ro_set3 v (o_wikilinks_after ro) (o_wikilinks_before ro) ro.
Definition ro_with_wikilinks_after (v : bool) (ro : opts) : opts := ro_set3 (o_footnotes ro) v (o_wikilinks_before ro) ro.
Definition ro_with_wikilinks_before (v : bool) (ro : opts) : opts := ro_set3 (o_footnotes ro) (o_wikilinks_after ro) v ro.

Lemma allp_true : forall n pv, allp (fun _ _ => true) pv n = true.
Proof.
  induction n as [v sp ch IH] using node_ind2. intro pv. cbn [allp andb]. apply forallb_forall. intros x Hx.
  rewrite Forall_forall in IH. apply IH. exact Hx.
Qed.

Theorem html_blind3 slug f wa wb ro t : html slug (ro_set3 f wa wb ro) t = html slug ro t.
Proof.
  apply (html_ext slug _ _ (fun _ _ => true)); [| | apply allp_true].
  - intros c [v sp ch] st _. destruct v; reflexivity.
  - intros c [v sp ch] st _. destruct v; reflexivity.
Qed.

Theorem html_footnotes_blind slug v ro t : html slug (ro_with_footnotes v ro) t = html slug ro t.
Proof. apply html_blind3. Qed.
Theorem html_wikilinks_after_blind slug v ro t : html slug (ro_with_wikilinks_after v ro) t = html slug ro t.
Proof. apply html_blind3. Qed.
Theorem html_wikilinks_before_blind slug v ro t : html slug (ro_with_wikilinks_before v ro) t = html slug ro t.
Proof. apply html_blind3. Qed.

(* ================================================================== the three fields that are read *)
Definition ro_with_tagfilter (v : bool) (ro : opts) : opts :=
  mkOpts v (o_header_ids ro) (o_footnotes ro) (o_wikilinks_after ro) (o_wikilinks_before ro)
    (o_relaxed_autolinks ro) (o_hardbreaks ro) (o_github_pre_lang ro)
    (o_full_info_string ro) (o_width ro) (o_unsafe ro) (o_escape ro) (o_list_style ro) (o_sourcepos ro)
    (o_escaped_char_spans ro) (o_gfm_quirks ro) (o_prefer_fenced ro) (o_figure_with_caption ro) (o_tasklist_classes ro)
    (o_ol_width ro) (o_ignore_empty_links ro) (o_experimental_minimize ro).
Definition ro_with_header_ids (v : option bytes) (ro : opts) : opts :=
  mkOpts (o_tagfilter ro) v (o_footnotes ro) (o_wikilinks_after ro) (o_wikilinks_before ro)
    (o_relaxed_autolinks ro) (o_hardbreaks ro) (o_github_pre_lang ro)
    (o_full_info_string ro) (o_width ro) (o_unsafe ro) (o_escape ro) (o_list_style ro) (o_sourcepos ro)
    (o_escaped_char_spans ro) (o_gfm_quirks ro) (o_prefer_fenced ro) (o_figure_with_caption ro) (o_tasklist_classes ro)
    (o_ol_width ro) (o_ignore_empty_links ro) (o_experimental_minimize ro).
Definition ro_with_relaxed_autolinks (v : bool) (ro : opts) : opts :=
  mkOpts (o_tagfilter ro) (o_header_ids ro) (o_footnotes ro) (o_wikilinks_after ro) (o_wikilinks_before ro)
    v (o_hardbreaks ro) (o_github_pre_lang ro)
    (o_full_info_string ro) (o_width ro) (o_unsafe ro) (o_escape ro) (o_list_style ro) (o_sourcepos ro)
    (o_escaped_char_spans ro) (o_gfm_quirks ro) (o_prefer_fenced ro) (o_figure_with_caption ro) (o_tasklist_classes ro)
    (o_ol_width ro) (o_ignore_empty_links ro) (o_experimental_minimize ro).

Definition not_raw_html (_ : option node_value) (v : node_value) : bool :=
  match v with HtmlBlock _ _ | HtmlInline _ => false | _ => true end.
Definition not_heading (_ : option node_value) (v : node_value) : bool :=
  match v with Heading _ _ => false | _ => true end.
Definition not_link_in_link (pv : option node_value) (v : node_value) : bool :=
  match v with Link _ _ => negb (is_link pv) | _ => true end.

Theorem html_tagfilter slug v v' ro t :
  allp not_raw_html None t = true -> html slug (ro_with_tagfilter v ro) t = html slug (ro_with_tagfilter v' ro) t.
Proof.
  apply html_ext.
  - intros c [w sp ch] st H. destruct w; try reflexivity; discriminate H.
  - intros c [w sp ch] st H. destruct w; reflexivity.
Qed.

Theorem html_header_ids slug v v' ro t :
  allp not_heading None t = true -> html slug (ro_with_header_ids v ro) t = html slug (ro_with_header_ids v' ro) t.
Proof.
  apply html_ext.
  - intros c [w sp ch] st H. destruct w; try reflexivity; discriminate H.
  - intros c [w sp ch] st H. destruct w; reflexivity.
Qed.

Theorem html_relaxed_autolinks slug v v' ro t :
  allp not_link_in_link None t = true ->
  html slug (ro_with_relaxed_autolinks v ro) t = html slug (ro_with_relaxed_autolinks v' ro) t.
Proof.
  apply html_ext.
  - intros c [w sp ch] st H. destruct w; try reflexivity.
    cbn [nval not_link_in_link] in H. unfold enter. cbn [o_relaxed_autolinks ro_with_relaxed_autolinks].
    rewrite H, !orb_true_r. reflexivity.
  - intros c [w sp ch] st H. destruct w; try reflexivity.
    cbn [nval not_link_in_link] in H. unfold exit_. cbn [o_relaxed_autolinks ro_with_relaxed_autolinks].
    rewrite H, !orb_true_r. reflexivity.
Qed.

(* the read is real: a Link below a Link (known class C13-e) *)
Definition ro_plain : opts :=
  mkOpts false None false false false false false false false 0 false false 0 false false false false false false 0 false false.
Definition sp0 : sourcepos := mkSp 1 1 1 1.
Definition link_in_link : node :=
  Node Document sp0 [Node Paragraph sp0 [Node (Link [x64] []) sp0 [Node (Link [x62] []) sp0 [Node (Text [x61]) sp0 []]]]].

Example html_relaxed_autolinks_read :
  allp not_link_in_link None link_in_link = false /\
  html (fun x => x) (ro_with_relaxed_autolinks true ro_plain) link_in_link
  <> html (fun x => x) (ro_with_relaxed_autolinks false ro_plain) link_in_link.
Proof. split; [reflexivity |]. vm_compute. intro H. discriminate H. Qed.

Example html_tagfilter_read :
  let t := Node Document sp0 [Node (HtmlBlock 6 (B "<title>")) sp0 []] in
  let ro := mkOpts false None false false false false false false false 0 true false 0 false false false false false false 0 false false in
  html (fun x => x) (ro_with_tagfilter true ro) t <> html (fun x => x) (ro_with_tagfilter false ro) t.
Proof. vm_compute. intro H. discriminate H. Qed.

Example html_header_ids_read :
  let t := Node Document sp0 [Node (Heading 1 false) sp0 [Node (Text [x61]) sp0 []]] in
  html (fun x => x) (ro_with_header_ids (Some []) ro_plain) t <> html (fun x => x) (ro_with_header_ids None ro_plain) t.
Proof. vm_compute. intro H. discriminate H. Qed.
