(* Proofs/BlocksTotal6Row.v — totality of the block phase, sixth round: facts about what table.rs `row` ANSWERS
   (Proofs/BlocksTotal4Row.v proves that it answers).  For every byte string: when row answers Some (paragraph_offset,
   cells), paragraph_offset <= |string| and every cell has paragraph_offset <= start_offset and
   paragraph_offset <= end_offset.

   Invariant of row_loop at the head of an iteration (rinv): offset <= |s|, paragraph_offset <= offset, and
   paragraph_offset = 0, or paragraph_offset < offset, or table_cell_end matches nothing at offset.  The third case is
   the state just after a row end when the next row has no leading pipe: a cell pushed there has cell_matched > 0
   (with cell_matched = 0 the pipe scanner runs at the same offset again and matches nothing, so no cell is pushed),
   hence end_offset = offset + cell_matched - 1 >= paragraph_offset. *)
From Coq Require Import List NArith Arith Bool Lia Strings.String.
From V Require Import Base.Bytes Base.Res Model.Ast Model.Strings Model.Scan Model.Blocks Spec.EscapeSpec
  Proofs.BlocksProofs Proofs.BlocksCursor Proofs.BlocksTotal Proofs.BlocksTotal3Cur Proofs.BlocksTotal4Safe Proofs.BlocksTotal4Row.
From V Require Proofs.StrLeafProofs.
Import ListNotations.
Local Open Scope string_scope.
Local Open Scope list_scope.

Definition cell_ok (po : nat) (c : tcell) : Prop := po <= ce_start c /\ po <= ce_end c.

Definition rinv (s : bytes) (off po : nat) : Prop :=
  off <= List.length s /\ po <= off /\ (po = 0 \/ po < off \/ or0 (scan_table_cell_end (skipn off s)) = 0).

Lemma cell_start_loop_ge s po : forall fuel so io so' io',
  cell_start_loop fuel s so io po = Ok (so', io') -> po <= so -> po <= so'.
Proof.
  induction fuel as [|f IH]; intros so io so' io' H Hp; cbn [cell_start_loop] in H.
  - inversion H; subst. exact Hp.
  - destruct (Nat.ltb po so) eqn:E; [|inversion H; subst; exact Hp]. apply Nat.ltb_lt in E.
    destruct (idx _ s (so - 1)) as [b| |]; cbn [bind] in H; try discriminate H.
    destruct (beqb b x7c); [inversion H; subst; exact Hp|]. eapply IH; [exact H | lia].
Qed.

Lemma row_loop_facts s sp : forall fuel off po cells off' po' cells' ab,
  row_loop fuel s sp off po cells = Ok (off', po', cells', ab) ->
  rinv s off po -> Forall (cell_ok po) cells ->
  po' <= List.length s /\ Forall (cell_ok po') cells'.
Proof.
  induction fuel as [|f IH]; intros off po cells off' po' cells' ab H (Ho & Hpo & Hd) Hc; cbn [row_loop] in H; [discriminate H|].
  destruct (Nat.ltb off (List.length s)) eqn:Lt; cbn [negb] in H; [|inversion H; subst; split; [lia | exact Hc]].
  set (cm := or0 (scan_table_cell (skipn off s) sp)) in *.
  unfold slice_from in H at 1.
  destruct (Nat.ltb (List.length s) (off + cm)) eqn:Lc; cbn [bind] in H; [discriminate H|]. apply Nat.ltb_ge in Lc.
  set (pm := or0 (scan_table_cell_end (skipn (off + cm) s))) in *.
  pose proof (cell_end_in s (off + cm) Lc) as Hpm. fold pm in Hpm.
  match type of H with bind ?r _ = _ => destruct r as [[cells1 abort]| |] eqn:R; cbn [bind] in H; try discriminate H end.
  assert (A1 : Forall (cell_ok po) cells1).
  { destruct (Nat.ltb 0 cm || Nat.ltb 0 pm) eqn:C; [|inversion R; subst; exact Hc].
    cbn [bind] in R. rewrite Proofs.StrLeafProofs.trim_ok in R. cbn [bind] in R.
    destruct (cell_start_loop off s off 0 po) as [[so io]| |] eqn:CS; cbn [bind] in R; try discriminate R.
    destruct (Nat.eqb (List.length cells) max_columns); [inversion R; subst; exact Hc|].
    unfold sub in R. destruct (Nat.ltb (off + cm) 1) eqn:E1; cbn [bind] in R; [discriminate R|]. apply Nat.ltb_ge in E1.
    unfold from_utf8 in R. destruct (utf8_valid _); cbn [bind] in R; [|discriminate R].
    inversion R; subst. apply Forall_app. split; [exact Hc|]. constructor; [|constructor].
    unfold cell_ok. cbn [ce_start ce_end fst].
    split; [eapply cell_start_loop_ge; [exact CS | exact Hpo]|].
    destruct Hd as [Hd|[Hd|Hd]]; [lia | lia |].
    destruct (Nat.eq_dec cm 0) as [Z|Z]; [|lia].
    exfalso. unfold pm in C. rewrite Z, Nat.add_0_r in C. rewrite Hd in C. cbn in C. discriminate C. }
  destruct abort; [inversion H; subst; split; [lia | exact A1]|].
  destruct (Nat.ltb 0 pm) eqn:Pm.
  - apply Nat.ltb_lt in Pm. eapply IH; [exact H | | exact A1]. repeat split; try lia.
  - unfold slice_from in H at 1.
    destruct (Nat.ltb (List.length s) (off + cm + pm)) eqn:L1; cbn [bind] in H; [discriminate H|]. apply Nat.ltb_ge in L1.
    set (re := or0 (scan_table_row_end (skipn (off + cm + pm) s))) in *.
    pose proof (row_end_in s (off + cm + pm) L1) as Hre. fold re in Hre.
    destruct (Nat.ltb 0 re && negb (Nat.eqb (off + cm + pm + re) (List.length s))) eqn:C2.
    + unfold slice_from in H at 1.
      destruct (Nat.ltb (List.length s) (off + cm + pm + re)) eqn:L2; cbn [bind] in H; [discriminate H|].
      pose proof (cell_end_in s (off + cm + pm + re) Hre) as He.
      eapply IH; [exact H | | constructor].
      repeat split; try lia.
      destruct (or0 (scan_table_cell_end (skipn (off + cm + pm + re) s))) eqn:Ce.
      * right. right. rewrite Nat.add_0_r. exact Ce.
      * right. left. lia.
    + inversion H; subst. split; [lia | exact A1].
Qed.

Theorem row_facts s sp po cells : row s sp = Ok (Some (po, cells)) -> po <= List.length s /\ Forall (cell_ok po) cells.
Proof.
  unfold row. intro H.
  destruct (row_loop _ s sp _ 0 []) as [[[[off po1] cells1] ab]| |] eqn:R; cbn [bind] in H; try discriminate H.
  destruct (_ || _); [discriminate H|]. inversion H; subst.
  eapply row_loop_facts; [exact R | | constructor].
  repeat split; [|lia | now left]. apply or0_le. intros m. apply scan_table_cell_end_le.
Qed.
