(* Proofs/BlocksTotal4Open.v — totality of the block phase, fourth round, step 2 (cursor), part 4: the cursor walk
   through the twelve handlers of open_new_blocks and the table openers.

   Every handler starts from a freshly scanned cursor inside the line (F1) and answers
     not handled:  the same fresh cursor (the thematic break may have moved its kill position; the description-list
                   handler may have touched the tree)
     handled:      C0, and the offset is still inside the line — or the new container accepts lines, which is the
                   case of the ATX heading whose scanner may consume the final LF (Proofs/BlocksTotal4Atx.v). *)
From Coq Require Import List NArith Arith Bool Lia Strings.String.
From V Require Import Base.Bytes Base.Res Gen.Nodes Gen.BlocksConst Model.Ast Model.Strings Model.Entity Model.LinkUrl Model.ListMarker
  Model.Feed Model.FrontMatter Model.RefDef Model.Scan Model.Blocks Spec.EscapeSpec
  Proofs.StrLeafProofs Proofs.StrLeafEntity Proofs.BlocksProofs Proofs.BlocksCursor Proofs.BlocksTotal
  Proofs.BlocksTotal2Safe Proofs.BlocksTotal3Cur Proofs.BlocksTotal4Safe Proofs.BlocksTotal4Cur Proofs.BlocksTotal4Frame
  Proofs.BlocksTotal4Walk.
From V Require Proofs.BlocksTotal4Scan Proofs.BlocksTotal4Marker.
Import ListNotations.
Local Open Scope string_scope.
Local Open Scope list_scope.

(* ---- post-conditions of the tree operations: the cursor stays *)
Lemma add_child_gen_kc o st p v col post kids :
  sgc (fun a => KC (ps_cur st) (ps_curline_len st) (snd a)) (add_child_gen o st p v col post kids).
Proof.
  apply ng_sg; [apply ngc_add_child_gen|]. intros [id s] E. cbn [snd]. eapply add_child_gen_KC; [exact E | apply KC_self].
Qed.
Lemma add_child_kc o st p v col : sgc (fun a => KC (ps_cur st) (ps_curline_len st) (snd a)) (add_child o st p v col).
Proof. apply add_child_gen_kc. Qed.
Lemma modify_info_kc st x f : sgc (fun s => KC (ps_cur st) (ps_curline_len st) s) (modify_info st x f).
Proof. apply ng_sg; [apply ngc_modify_info|]. intros s E. eapply modify_info_KC; [exact E | apply KC_self]. Qed.
Lemma pdld_kc o st c m :
  sgc (fun r => KC (ps_cur st) (ps_curline_len st) (snd r)) (parse_desc_list_details o st c m).
Proof.
  apply ng_sg; [apply ngc_parse_desc_list_details|]. intros [[b c'] s] E. cbn [snd].
  eapply parse_desc_list_details_KC; [exact E | apply KC_self].
Qed.
Lemma try_inserting_kc st c po :
  sgc (fun s => KC (ps_cur st) (ps_curline_len st) s) (try_inserting_table_header_paragraph st c po).
Proof. apply ng_sg; [apply ngc_try_inserting|]. intros s E. eapply try_inserting_KC; [exact E | apply KC_self]. Qed.

(* a byte advance that ends at or behind first_nonspace, inside the line *)
Lemma adv_bytes_C0 line st k : ps_curline_len st = List.length line ->
  c_fns (ps_cur st) <= c_offset (ps_cur st) + k <= List.length line ->
  sgc (fun s1 => C0 line s1 /\ c_offset (ps_cur s1) = c_offset (ps_cur st) + k) (adv st line k false).
Proof.
  intros L H. eapply sg_weaken; [apply adv_bytes_cur; lia|]. intros s1 _ (A & B & _ & D & _).
  split; [eapply adv_to_C0; try eassumption; lia | exact A].
Qed.

Lemma before_lf_at (scan : bytes -> option nat) :
  (forall l m, scan (l ++ [x0a]) = Some m -> m <= List.length l) ->
  forall line k m, lf_terminated line -> k < List.length line -> scan (skipn k line) = Some m -> k + m < List.length line.
Proof.
  intros H line k m [l ->] Hk Sc. rewrite app_length in *. cbn [List.length] in *.
  rewrite skipn_lf in Sc by lia. apply H in Sc. rewrite skipn_length in Sc. lia.
Qed.

Lemma adv_reset c line n cols c' : advance_offset c line n cols = Ok c' ->
  cur_set_oc c' (c_offset c) (c_column c) (c_pct c) = c.
Proof.
  unfold advance_offset. destruct (advance_loop _ _ _ _ _ _ _) as [[[a b] d]| |]; cbn [bind]; intro H; inversion H; subst.
  destruct c; reflexivity.
Qed.

Section Open.
Variable line : bytes.
Hypothesis LN : lf_terminated line.

Definition HRc (st0 : pstate) (r : bool * nat * pstate) : Prop :=
  let '(handled, c, st') := r in
  if handled then C0 line st' /\ (c_offset (ps_cur st') < List.length line
                                  \/ forall n, get st' c = Ok n -> accepts_lines (bkind n) = true)
  else F1 line st' /\ c_indent (ps_cur st') = c_indent (ps_cur st0).

Lemma fin_add_child st0 o s1 c v col : C0 line s1 -> c_offset (ps_cur s1) < List.length line ->
  sgc (HRc st0) (do a <- add_child o s1 c v col; Ok (true, fst a, snd a)).
Proof.
  intros C Lt. eapply sg_bind; [apply add_child_kc|]. intros [id s2] _ K. cbn [sg HRc fst snd] in *.
  split; [eapply C0_KC; eassumption | left; destruct K as [-> _]; exact Lt].
Qed.

Lemma F1_tbkp st k : F1 line st -> F1 line (st_cur st (cur_set_tbkp (ps_cur st) k)).
Proof. intro F. exact F. Qed.

Ltac f1start F :=
  destruct (F1_in _ _ LN F) as (Le & Lt & b0 & Hb0 & Sp0); pose proof F as [(Fr & B & Ind & Bl & Len) Lo].

Lemma handle_alert_cur o st c ind : F1 line st -> sgc (HRc st) (handle_alert o st c line ind).
Proof.
  intro F. f1start F.
  unfold handle_alert, not_handled, fns, offset.
  destruct (ind || negb (bo_alerts o)); [exact (conj F eq_refl)|].
  eapply sg_bind; [apply sg_idx; left; exact Lt|]. intros b _ Hb.
  destruct (negb (beqb b x3e)); [exact (conj F eq_refl)|].
  destruct (scan_alert_start _) as [ty|] eqn:Sc; [|exact (conj F eq_refl)].
  destruct (BlocksTotal4Scan.alert_title_loop_ok line (c_fns (ps_cur st)) ty ltac:(lia) Sc) as (p & fl & EL & Bp). rewrite EL. cbn [bind].
  cbv beta iota zeta.
  destruct (_ || _); [exact (conj F eq_refl)|].
  eapply sg_bind; [apply sg_slice_from; left; lia|]. intros t0 _ _.
  apply sgb; [auto with ngc|]. intros t1 _. apply sgb; [auto with ngc|]. intros t2 _. apply sgb; [auto with ngc|]. intros t3 _.
  apply sgb; [destruct t3; nggo|]. intros title _.
  eapply sg_bind; [apply sg_sub; left; exact Le|]. intros fo _ _.
  eapply sg_bind; [apply sg_sub; left; lia|]. intros k0 _ [-> _].
  eapply sg_bind; [apply sg_sub; left; lia|]. intros k _ [-> _].
  eapply sg_bind; [apply adv_bytes_C0; [exact Len | lia]|]. intros s1 _ [C A].
  apply fin_add_child; [exact C | lia].
Qed.

Lemma handle_mbq_cur o st c ind : F1 line st -> sgc (HRc st) (handle_multiline_blockquote o st c line ind).
Proof.
  intro F. f1start F.
  unfold handle_multiline_blockquote, rest_at_fns, not_handled, fns, offset.
  destruct (ind || _); [exact (conj F eq_refl)|].
  eapply sg_bind; [apply sg_slice_from; left; lia|]. intros rest _ [-> _].
  destruct (scan_open_multiline_block_quote_fence _) as [m|] eqn:Sc; [|exact (conj F eq_refl)].
  pose proof (before_lf_at _ BlocksTotal4Scan.scan_open_mbq_fence_before_lf _ _ _ LN Lt Sc) as Lm.
  cbv zeta.
  eapply sg_bind; [apply sg_sub; left; exact Le|]. intros fo _ _.
  eapply sg_bind; [apply add_child_kc|]. intros [id s1] _ [Kc Kl]. cbn [fst snd] in *.
  eapply sg_bind; [apply sg_sub; left; lia|]. intros k _ [-> _].
  eapply sg_bind; [apply adv_bytes_C0; [congruence | rewrite Kc; lia]|]. intros s2 _ [C A].
  cbn [sg HRc]. split; [exact C | left; rewrite A, Kc; lia].
Qed.

Lemma handle_blockquote_cur o st c ind : F1 line st -> sgc (HRc st) (handle_blockquote o st c line ind).
Proof.
  intro F. f1start F.
  unfold handle_blockquote, not_handled, fns, offset.
  destruct ind; [exact (conj F eq_refl)|].
  eapply sg_bind; [apply sg_idx; left; exact Lt|]. intros b _ Hb. cbv beta in Hb.
  destruct (negb (beqb b x3e)) eqn:Eb; [exact (conj F eq_refl)|]. apply negb_false_iff, beqb_eq in Eb.
  apply sgb; [eapply is_not_greentext_cur; eassumption|]. intros g _. destruct (negb g); [exact (conj F eq_refl)|].
  assert (NL : S (c_fns (ps_cur st)) < List.length line) by (eapply not_last; [exact LN | exact Hb | subst b; discriminate]).
  eapply sg_bind; [apply sg_sub; left; lia|]. intros k _ [-> _].
  eapply sg_bind; [apply adv_bytes_C0; [exact Len | lia]|]. intros s1 _ [C A].
  eapply sg_bind; [apply skip_one_space_cur; [exact LN | split; [exact C | lia]]|]. intros s2 _ [C2 L2].
  apply fin_add_child; assumption.
Qed.

(* ATX heading: the cursor part; what makes the loop stop is in Proofs/BlocksTotal4Atx.v *)
Lemma handle_atx_cur o st c ind : F1 line st ->
  sgc (fun r : bool * nat * pstate => let '(h, c', st') := r in if h then C0 line st' else F1 line st' /\ c_indent (ps_cur st') = c_indent (ps_cur st)) (handle_atx_heading o st c line ind).
Proof.
  intro F. f1start F.
  unfold handle_atx_heading, rest_at_fns, not_handled, fns, offset.
  destruct ind; [exact (conj F eq_refl)|].
  eapply sg_bind; [apply sg_slice_from; left; lia|]. intros rest _ [-> _].
  destruct (scan_atx_heading_start _) as [m|] eqn:Sc; [|exact (conj F eq_refl)].
  pose proof (scan_atx_heading_start_le _ _ Sc) as Lm. rewrite skipn_length in Lm.
  cbv zeta.
  eapply sg_bind; [apply sg_sub; left; lia|]. intros k _ [-> _].
  eapply sg_bind; [apply adv_bytes_C0; [exact Len | lia]|]. intros s1 _ [C A].
  destruct (BlocksTotal4Scan.atx_heading_level _ _ Sc) as (p & level & Ph & Ch & _ & L255).
  rewrite Ph, Ch. cbn [bind]. rewrite L255.
  eapply sg_bind; [apply add_child_gen_kc|]. intros [id s2] _ K. cbn [sg fst snd] in *. eapply C0_KC; eassumption.
Qed.

Lemma handle_code_fence_cur o st c ind : F1 line st -> sgc (HRc st) (handle_code_fence o st c line ind).
Proof.
  intro F. f1start F.
  unfold handle_code_fence, rest_at_fns, not_handled, fns, offset.
  destruct ind; [exact (conj F eq_refl)|].
  eapply sg_bind; [apply sg_slice_from; left; lia|]. intros rest _ [-> _].
  destruct (scan_open_code_fence _) as [m|] eqn:Sc; [|exact (conj F eq_refl)].
  pose proof (before_lf_at _ BlocksTotal4Scan.scan_open_code_fence_before_lf _ _ _ LN Lt Sc) as Lm.
  cbv zeta.
  eapply sg_bind; [apply sg_idx; left; exact Lt|]. intros fc _ _.
  eapply sg_bind; [apply sg_sub; left; exact Le|]. intros fo _ _.
  eapply sg_bind; [apply add_child_kc|]. intros [id s1] _ [Kc Kl]. cbn [fst snd] in *.
  eapply sg_bind; [apply sg_sub; left; lia|]. intros k _ [-> _].
  eapply sg_bind; [apply adv_bytes_C0; [congruence | rewrite Kc; lia]|]. intros s2 _ [C A].
  cbn [sg HRc]. split; [exact C | left; rewrite A, Kc; lia].
Qed.

Lemma handle_html_block_cur o st c ind : F1 line st -> sgc (HRc st) (handle_html_block o st c line ind).
Proof.
  intro F. f1start F.
  unfold handle_html_block, rest_at_fns, not_handled, fns.
  destruct ind; [exact (conj F eq_refl)|].
  eapply sg_bind; [apply sg_slice_from; left; lia|]. intros rest _ _.
  apply sgb; [auto with ngc|]. intros cn _. cbv zeta.
  destruct (match scan_html_block_start rest with Some m => Some m | None => _ end) as [m|]; [|exact (conj F eq_refl)].
  apply fin_add_child; [apply F0_C0; exact (proj1 F) | exact Lo].
Qed.

Lemma handle_setext_cur o st c ind : F1 line st -> sgc (HRc st) (handle_setext_heading o st c line ind).
Proof.
  intro F. f1start F.
  unfold handle_setext_heading, rest_at_fns, not_handled, fns, offset.
  destruct ind; [exact (conj F eq_refl)|].
  apply sgb; [auto with ngc|]. intros cn _. destruct (negb (is_paragraph cn)); [exact (conj F eq_refl)|].
  eapply sg_bind; [apply sg_slice_from; left; lia|]. intros rest _ _.
  destruct (if bo_ignore_setext o then None else scan_setext_heading_line rest) as [sc|]; [|exact (conj F eq_refl)].
  apply sgb; [auto with ngc|]. intros [[content' hc] m'] _. cbv zeta.
  eapply sg_bind; [apply modify_info_kc|]. intros s1 _ [Kc Kl]. cbn [ps_cur ps_curline_len st_refmap] in Kc, Kl.
  destruct hc.
  - eapply sg_bind; [apply sg_sub; left; lia|]. intros k0 _ [-> _].
    eapply sg_bind; [apply sg_sub; left; rewrite Kc; lia|]. intros k _ [-> _].
    eapply sg_bind; [apply adv_bytes_C0; [congruence | rewrite Kc; lia]|]. intros s2 _ [C A].
    cbn [sg HRc]. split; [exact C | left; rewrite A, Kc; lia].
  - cbn [sg HRc]. split; [eapply C0_KC; [split; eassumption | apply F0_C0; exact (proj1 F)] | left; rewrite Kc; exact Lo].
Qed.

Lemma handle_thematic_break_cur o st c ind am : F1 line st -> sgc (HRc st) (handle_thematic_break o st c line ind am).
Proof.
  intro F. f1start F.
  unfold handle_thematic_break, not_handled, fns, offset.
  destruct ind; [exact (conj F eq_refl)|].
  apply sgb; [auto with ngc|]. intros cn _. destruct (is_paragraph cn && negb am); [exact (conj F eq_refl)|].
  destruct (negb (Nat.leb _ _)); [exact (conj F eq_refl)|].
  destruct (scan_thematic_break_inner line _) as [off found]. destruct (negb found); [exact (conj F eq_refl)|].
  eapply sg_bind; [apply add_child_kc|]. intros [tb s1] _ [Kc Kl]. cbn [fst snd] in *.
  eapply sg_bind; [apply sg_sub; left; lia|]. intros k0 _ [-> _].
  eapply sg_bind; [apply sg_sub; left; rewrite Kc; lia|]. intros k _ [-> _].
  eapply sg_bind; [apply modify_info_kc|]. intros s2 _ [Kc2 Kl2].
  eapply sg_bind; [apply adv_bytes_C0; [congruence | rewrite Kc2, Kc; lia]|]. intros s3 _ [C A].
  cbn [sg HRc]. split; [exact C | left; rewrite A, Kc2, Kc; lia].
Qed.

Lemma handle_footnote_cur o st c ind d : F1 line st -> sgc (HRc st) (handle_footnote o st c line ind d).
Proof.
  intro F. f1start F.
  unfold handle_footnote, rest_at_fns, not_handled, fns, offset.
  destruct (ind || _ || _); [exact (conj F eq_refl)|].
  eapply sg_bind; [apply sg_slice_from; left; lia|]. intros rest _ [-> _].
  destruct (scan_footnote_definition _) as [m|] eqn:Sc; [|exact (conj F eq_refl)].
  pose proof (before_lf_at _ BlocksTotal4Scan.scan_footnote_definition_before_lf _ _ _ LN Lt Sc) as Lm.
  pose proof (BlocksTotal4Scan.scan_footnote_definition_ge _ _ Sc) as G5.
  assert (Cd : Nat.ltb m 2 || Nat.ltb (List.length line) (c_fns (ps_cur st) + m) = false).
  { apply orb_false_iff. split; apply Nat.ltb_ge; lia. }
  rewrite Cd. cbv zeta.
  eapply sg_bind; [apply sg_sub; left; lia|]. intros k _ [-> _].
  eapply sg_bind; [apply adv_bytes_C0; [exact Len | lia]|]. intros s1 _ [C A].
  apply sgb; [auto with ngc|]. intros name _.
  eapply sg_bind; [apply add_child_kc|]. intros [id s2] _ [Kc Kl]. cbn [fst snd] in *.
  eapply sg_bind; [apply modify_info_kc|]. intros s3 _ [Kc3 Kl3].
  cbn [sg HRc]. split; [eapply C0_KC; [split; eassumption|]; eapply C0_KC; [split; eassumption | exact C]
                       | left; rewrite Kc3, Kc, A; lia].
Qed.

Lemma handle_description_list_cur o st c ind : F1 line st -> sgc (HRc st) (handle_description_list o st c line ind).
Proof.
  intro F. f1start F.
  unfold handle_description_list, rest_at_fns, not_handled, fns, offset.
  destruct (ind || _); [exact (conj F eq_refl)|].
  eapply sg_bind; [apply sg_slice_from; left; lia|]. intros rest _ [-> _].
  destruct (scan_description_item_start _) as [m|] eqn:Sc; [|exact (conj F eq_refl)].
  pose proof (before_lf_at _ BlocksTotal4Scan.scan_description_item_start_before_lf _ _ _ LN Lt Sc) as Lm.
  eapply sg_bind; [apply pdld_kc|]. intros [[ok c1] s1] _ K. cbn [snd] in K.
  destruct (negb ok); [cbn [sg HRc]; split; [eapply F1_KC; eassumption | destruct K as [-> _]; reflexivity]|].
  destruct K as [Kc Kl].
  eapply sg_bind; [apply sg_sub; left; rewrite Kc; lia|]. intros k _ [-> _].
  eapply sg_bind; [apply adv_bytes_C0; [congruence | rewrite Kc; lia]|]. intros s2 _ [C A].
  eapply sg_bind; [apply skip_one_space_cur; [exact LN | split; [exact C | rewrite A, Kc; lia]]|]. intros s3 _ [C3 L3].
  cbn [sg HRc]. split; [exact C3 | left; exact L3].
Qed.

(* the white-space loop of handle_list *)
Definition agree (c c' : cursor) : Prop := cur_set_oc c' (c_offset c) (c_column c) (c_pct c) = c.
Lemma agree_refl c : agree c c. Proof. destruct c; reflexivity. Qed.
Lemma agree_trans a b c : agree a b -> agree b c -> agree a c.
Proof. unfold agree. destruct a, b, c; cbn. intros H1 H2. inversion H1; inversion H2; subst. reflexivity. Qed.

Lemma lsl_cur sc : forall fuel st, C1 line st -> sc <= c_column (ps_cur st) ->
  sgc (fun s2 => C1 line s2 /\ sc <= c_column (ps_cur s2) /\ agree (ps_cur st) (ps_cur s2)
                 /\ (c_column (ps_cur s2) = c_column (ps_cur st)
                     \/ exists b, nth_error line (c_offset (ps_cur st)) = Some b /\ is_space_or_tab b = true))
      (list_spaces_loop fuel st line sc).
Proof.
  induction fuel as [|f IH]; intros st C Hs; cbn [list_spaces_loop]; [reflexivity|].
  pose proof C as [[Ci Len] Lt]. unfold offset.
  eapply sg_bind; [apply sg_sub; left; exact Hs|]. intros d _ _.
  assert (Done : sgc (fun s2 => C1 line s2 /\ sc <= c_column (ps_cur s2) /\ agree (ps_cur st) (ps_cur s2)
                 /\ (c_column (ps_cur s2) = c_column (ps_cur st)
                     \/ exists b, nth_error line (c_offset (ps_cur st)) = Some b /\ is_space_or_tab b = true)) (Ok st)).
  { cbn [sg]. split; [exact C|]. split; [exact Hs|]. split; [apply agree_refl | now left]. }
  destruct (Nat.leb d 5); [|exact Done].
  eapply sg_bind; [apply sg_idx; left; exact Lt|]. intros b _ Hb. cbv beta in Hb.
  destruct (is_space_or_tab b) eqn:Sp; [|exact Done].
  unfold adv. destruct (CI_adv_one _ _ _ Ci Hb Sp) as (c' & E & Ci' & Bo & Cl & _). rewrite E. cbn [bind].
  pose proof (not_last _ _ _ LN Hb (ws_not_lf _ Sp)) as NL.
  eapply sg_weaken; [apply IH|].
  - split; [split; [exact Ci' | exact Len] | cbn [ps_cur st_cur]; lia].
  - cbn [ps_cur st_cur]. lia.
  - intros s2 _ (C2 & H2 & A2 & _). cbn [ps_cur st_cur] in *.
    split; [exact C2|]. split; [exact H2|]. split; [eapply agree_trans; [apply (adv_reset _ _ _ _ _ E) | exact A2]|].
    right. eauto.
Qed.

Lemma handle_list_cur o st c ind d : F1 line st -> sgc (HRc st) (handle_list o st c line ind d).
Proof.
  intro F. f1start F.
  unfold handle_list, not_handled, fns, offset.
  apply sgb; [auto with ngc|]. intros cn _. cbv zeta.
  destruct (_ || _ || _); [exact (conj F eq_refl)|].
  destruct (BlocksTotal4Marker.parse_list_marker_total line (c_fns (ps_cur st)) (is_paragraph cn) LN Lt) as [r E].
  rewrite E. cbn [bind]. destruct r as [[matched nl0]|]; [|exact (conj F eq_refl)].
  destruct (BlocksTotal4Marker.parse_list_marker_inside _ _ _ _ _ E) as [M1 Lm].
  eapply sg_bind; [apply sg_sub; left; lia|]. intros k _ [-> _].
  eapply sg_bind; [apply adv_bytes_C0; [exact Len | lia]|]. intros s1 _ [C A].
  assert (C1s : C1 line s1) by (split; [exact C | lia]).
  eapply sg_bind; [apply (lsl_cur (c_column (ps_cur s1)) 8 s1 C1s (le_n _))|]. intros s2 _ (C2 & H2 & A2 & Ws).
  eapply sg_bind; [apply sg_sub; left; exact H2|]. intros i _ [-> _].
  eapply sg_bind; [apply sg_idx; left; exact (proj2 C2)|]. intros b _ _.
  eapply sg_bind with (P := fun r => C1 line (snd r)).
  { destruct (_ || _); [|exact C2].
    unfold agree in A2. rewrite A2.
    assert (C3 : C1 line (st_cur s2 (ps_cur s1))).
    { destruct C1s as [[Ci1 L1] Lt1]. destruct C2 as [[_ L2] _]. split; [split; [exact Ci1 | exact L2] | exact Lt1]. }
    destruct (Nat.ltb 0 _) eqn:Ip; [|exact C3].
    apply Nat.ltb_lt in Ip. destruct Ws as [Ws|(bb & Hbb & Sbb)]; [lia|].
    unfold adv. cbn [ps_cur st_cur]. destruct C3 as [[Ci3 L3] Lt3]. cbn [ps_cur st_cur] in Ci3, Lt3.
    destruct (CI_adv_one _ _ _ Ci3 Hbb Sbb) as (c' & E' & Ci' & Bo & _). rewrite E'. cbn [bind sg snd].
    pose proof (not_last _ _ _ LN Hbb (ws_not_lf _ Sbb)) as NL.
    split; [split; [exact Ci' | exact L3] | cbn [ps_cur st_cur]; lia]. }
  intros [padding s5] _ C5. cbn [snd] in C5. cbv zeta.
  apply sgb; [auto with ngc|]. intros c5 _.
  eapply sg_bind with (P := fun a => KC (ps_cur s5) (ps_curline_len s5) (snd a)).
  { destruct (match bval c5 with NList mnl => _ | _ => true end); [apply add_child_kc | cbn [sg snd]; apply KC_self]. }
  intros [lid s6] _ K6. cbn [fst snd] in *.
  eapply sg_bind; [apply add_child_kc|]. intros [iid s7] _ K7. cbn [sg HRc fst snd] in *.
  destruct C5 as [C05 L5].
  split; [eapply C0_KC; [exact K7|]; eapply C0_KC; eassumption | left; destruct K7 as [-> _]; destruct K6 as [-> _]; exact L5].
Qed.

Lemma handle_code_block_cur o st c ind ml : F1 line st -> ind = Nat.leb code_indent (c_indent (ps_cur st)) ->
  sgc (HRc st) (handle_code_block o st c line ind ml).
Proof.
  intros F Ei. f1start F.
  unfold handle_code_block, not_handled.
  destruct ind; cbn [andb negb]; [|exact (conj F eq_refl)]. symmetry in Ei. apply Nat.leb_le in Ei.
  destruct (negb ml && negb (blank st)); cbn [negb]; [|exact (conj F eq_refl)].
  eapply sg_bind; [apply adv_cols_cur; [exact (proj1 F) | exact Ei]|]. intros s1 _ (C & Bo & _).
  apply fin_add_child; [exact C | lia].
Qed.

(* ================================================================== table.rs: the openers *)
Definition TBc (r : table_result * pstate) : Prop :=
  match fst r with TNone => C0 line (snd r) | TSame _ => F1 line (snd r) | TNew _ => C1 line (snd r) end.

Lemma try_opening_header_cur o st c : F1 line st -> sgc TBc (try_opening_header o st c line).
Proof.
  intro F. f1start F.
  unfold try_opening_header, fns, offset.
  apply sgb; [auto with ngc|]. intros cn _. destruct (bi_tv (binf cn)); [exact F|].
  eapply sg_bind; [apply sg_slice_from; left; lia|]. intros rest _ _.
  destruct (scan_table_start rest); [|exact F].
  apply sgb; [auto with ngc|]. intros dr _. destruct dr as [[dpo dcells]|]; [|exact F].
  apply sgb; [auto with ngc|]. intros hr _. destruct hr as [[po hcells]|]; [|exact F].
  destruct (negb (Nat.eqb _ _)); [exact F|].
  eapply sg_bind with (P := fun s => KC (ps_cur st) (ps_curline_len st) s).
  { destruct (Nat.ltb 0 po); [apply try_inserting_kc | cbn [sg]; apply KC_self]. }
  intros s1 _ [Kc Kl].
  apply sgb; [auto with ngc|]. intros c1 _. cbv zeta.
  destruct (Nat.eqb (bi_sc (binf c1)) 0); [allowed|].
  apply sgb; [auto with ngc|]. intros k0 _. apply sgb; [auto with ngc|]. intros k _.
  apply sgb; [auto with ngc|]. intros cells _.
  cbn [ps_cur st_next].
  eapply sg_bind; [apply sg_sub; left; rewrite Kc; lia|]. intros k2 _ [-> _].
  destruct (Nat.eqb (List.length line) 0) eqn:Z; [apply Nat.eqb_eq in Z; lia|].
  eapply sg_bind; [apply adv_bytes_C0; [cbn [ps_curline_len st_next]; congruence | cbn [ps_cur st_next]; rewrite Kc; lia]|].
  intros s3 _ [C A]. cbn [ps_cur st_next] in A.
  destruct (edit_kids c _ (ps_root s3)); [|allowed].
  cbn [sg TBc fst snd]. split; [exact C | cbn [ps_cur st_root]; rewrite A, Kc; lia].
Qed.

Lemma try_opening_row_cur o st c t : F1 line st -> sgc TBc (try_opening_row o st c t line).
Proof.
  intro F. f1start F. pose proof (F0_C0 _ _ (proj1 F)) as C0s.
  unfold try_opening_row, fns, offset.
  destruct (blank st); [exact C0s|]. destruct (N.ltb _ _); [exact C0s|].
  apply sgb; [auto with ngc|]. intros cn _. cbv zeta.
  eapply sg_bind; [apply sg_slice_from; left; lia|]. intros rest _ _.
  apply sgb; [auto with ngc|]. intros tr _. destruct tr as [[tpo cells]|]; [|exact C0s].
  destruct (Nat.eqb (bi_sc (binf cn)) 0); [allowed|].
  apply sgb; [auto with ngc|]. intros [parsed last_column] _.
  destruct (_ && _); [allowed|].
  eapply sg_bind with (P := fun s => KC (ps_cur st) (ps_curline_len st) s).
  { apply ng_sg; [apply ngc_modify|]. intros s E. eapply modify_KC; [exact E | apply KC_st_next; apply KC_self]. }
  intros s1 _ [Kc Kl].
  destruct (Nat.eqb (List.length line) 0) eqn:Z; [apply Nat.eqb_eq in Z; lia|].
  eapply sg_bind; [apply sg_sub; left; rewrite Kc; lia|]. intros k _ [-> _].
  eapply sg_bind; [apply adv_bytes_C0; [congruence | rewrite Kc; lia]|]. intros s2 _ [C A].
  cbn [sg TBc fst snd]. split; [exact C | rewrite A, Kc; lia].
Qed.

Lemma try_opening_block_cur o st c : F1 line st -> sgc TBc (try_opening_block o st c line).
Proof.
  intro F. unfold try_opening_block. apply sgb; [auto with ngc|]. intros cn _.
  destruct (bval cn); try (cbn [sg TBc fst snd]; apply F0_C0; exact (proj1 F)).
  - now apply try_opening_header_cur.
  - now apply try_opening_row_cur.
Qed.
End Open.
