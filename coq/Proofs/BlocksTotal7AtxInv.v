(* Proofs/BlocksTotal7AtxInv.v — the frame the ATX walk needs: "the node with identifier c0 is not an ATX heading"
   as a node-wise clause of the tree, carried through every function of the block phase that does not create an ATX
   heading (a copy of the walk of Proofs/ParserShapeBlocks.v with the clause pok c0 instead of bvok o).

     atxv v       :=  v = Heading _ false
     pok c0 i     :=  not (atxv (bi_val i) /\ bi_id i = c0)
     PI c0 st     :=  every node of the tree satisfies pok c0

   handle_atx_heading is the only function that creates such a value; it needs a '#' in the line (position_hash). *)
From Coq Require Import List NArith Arith Bool Lia Strings.String.
From V Require Import Base.Bytes Base.Res Gen.Nodes Model.Ast Model.Strings Model.Feed Model.FrontMatter Model.RefDef
  Model.Scan Model.Blocks Spec.Shape Spec.HtmlSpec Spec.Valid Proofs.BlocksProofs Proofs.BlocksCursor Proofs.ParserShapeBlocks
  Proofs.ParserShapeTree.
Import ListNotations.
Local Open Scope string_scope.
Local Open Scope list_scope.

Definition atxv (v : node_value) : bool := match v with Heading _ false => true | _ => false end.
Definition pok (c0 : nat) (i : binfo) : bool := negb (atxv (bi_val i) && Nat.eqb (bi_id i) c0).
Fixpoint pall (c0 : nat) (t : bnode) : bool :=
  match t with BNode i ch => pok c0 i && forallb (pall c0) ch end.

Lemma pall_node c0 i ch : pall c0 (BNode i ch) = true <-> pok c0 i = true /\ forallb (pall c0) ch = true.
Proof. cbn [pall]. apply andb_true_iff. Qed.

Lemma pok_not_atx c0 i : atxv (bi_val i) = false -> pok c0 i = true.
Proof. intro H. unfold pok. now rewrite H. Qed.
Lemma pok_other c0 i : bi_id i <> c0 -> pok c0 i = true.
Proof. intro H. unfold pok. apply Nat.eqb_neq in H. rewrite H. now rewrite andb_false_r. Qed.
Lemma pok_inv c0 i : pok c0 i = true -> bi_id i = c0 -> atxv (bi_val i) = false.
Proof. unfold pok. intros H E. apply Nat.eqb_eq in E. rewrite E, andb_true_r in H. now destruct (atxv (bi_val i)). Qed.

(* position_hash finds a '#' *)
Lemma position_hash_in : forall s p, position_hash s = Some p -> In x23 s.
Proof.
  induction s as [|b r IH]; intros p H; cbn [position_hash] in H; [discriminate|].
  destruct (beqb b x23) eqn:E; [left; now apply beqb_eq in E|].
  destruct (position_hash r) as [n|] eqn:P; [|discriminate]. right. eapply IH. reflexivity.
Qed.
Lemma in_skipn {A} (x : A) n l : In x (skipn n l) -> In x l.
Proof. intro H. rewrite <- (firstn_skipn n l). apply in_or_app. now right. Qed.

Lemma find_node_pall c0 id t : forall n, pall c0 t = true -> find_node id t = Some n -> pall c0 n = true.
Proof.
  induction t as [i ch IH] using bnode_ind2. intros n V F. cbn [find_node] in F.
  destruct (Nat.eqb (bi_id i) id). { now inversion F; subst. }
  apply pall_node in V. destruct V as [_ V].
  induction ch as [|c r IHr]; [discriminate|].
  inversion IH; subst. apply forallb_cons in V. destruct V as [Vc Vr].
  destruct (find_node id c) eqn:E.
  - inversion F; subst. eauto.
  - eauto.
Qed.

(* upd: the function is applied to the node find_node returns *)
Lemma upd_pall c0 id f t : forall t',
  pall c0 t = true -> upd id f t = Some t' ->
  (forall n, find_node id t = Some n -> pall c0 n = true -> pall c0 (f n) = true) ->
  pall c0 t' = true.
Proof.
  induction t as [i ch IH] using bnode_ind2. intros t' V U Hf. cbn [upd] in U. cbn [find_node] in Hf.
  destruct (Nat.eqb (bi_id i) id). { inversion U; subst. apply Hf; auto. }
  match type of U with match ?g with _ => _ end = _ => destruct g as [ch'|] eqn:G; [|discriminate] end.
  inversion U; subst. clear U.
  apply pall_node in V. destruct V as [Vi V]. apply pall_node. split; [exact Vi|].
  revert ch' G Hf. induction ch as [|c r IHr]; intros ch' G Hf; [discriminate|].
  inversion IH as [|? ? IHc IHrest]; subst.
  apply forallb_cons in V. destruct V as [Vc Vr].
  destruct (upd id f c) as [c'|] eqn:Uc.
  - inversion G; subst. apply forallb_cons. split; [|exact Vr].
    apply (IHc c' Vc eq_refl). intros n Fn. apply Hf. now rewrite Fn.
  - match type of G with match ?g with _ => _ end = _ => destruct g as [r'|] eqn:Gr; [|discriminate] end.
    inversion G; subst.
    assert (Fc : find_node id c = None) by (eapply upd_none_find; eassumption).
    apply forallb_cons. split; [exact Vc|].
    apply IHr; auto. intros n Fn. apply Hf. now rewrite Fc.
Qed.

(* upd never replaces the root by something else than f root *)


Lemma edit_kids_pall c0 id g t : forall t',
  pall c0 t = true -> edit_kids id g t = Some t' ->
  (forall pk pre c post, forallb (pall c0) (pre ++ c :: post) = true -> forallb (pall c0) (g pk pre c post) = true) ->
  pall c0 t' = true.
Proof.
  induction t as [i ch IH] using bnode_ind2. intros t' V U Hg. cbn [edit_kids] in U.
  apply pall_node in V. destruct V as [Vi V].
  destruct (split_kid id ch) as [[[pre c] post]|] eqn:S.
  { inversion U; subst. apply pall_node. split; [exact Vi|]. apply Hg.
    now rewrite <- (split_kid_eq _ _ _ _ _ S). }
  clear S.
  match type of U with match ?gg with _ => _ end = _ => destruct gg as [ch'|] eqn:G; [|discriminate] end.
  inversion U; subst. clear U. apply pall_node. split; [exact Vi|].
  revert ch' G. induction ch as [|c r IHr]; intros ch' G; [discriminate|].
  inversion IH as [|? ? IHc IHrest]; subst.
  apply forallb_cons in V. destruct V as [Vc Vr].
  destruct (edit_kids id g c) as [c'|] eqn:Uc.
  - inversion G; subst. pose proof (IHc c' Vc eq_refl Hg) as Vc'.
    apply forallb_cons. split; assumption.
  - match type of G with match ?gg with _ => _ end = _ => destruct gg as [r'|] eqn:Gr; [|discriminate] end.
    inversion G; subst. apply forallb_cons. split; [exact Vc|]. now apply IHr.
Qed.

(* ================================================================== the invariant on states *)
Definition PI (c0 : nat) (st : pstate) : Prop := pall c0 (ps_root st) = true.

Lemma PI_st_next c0 st n : PI c0 st -> PI c0 (st_next st n). Proof. exact (fun H => H). Qed.
Lemma PI_st_current c0 st n : PI c0 st -> PI c0 (st_current st n). Proof. exact (fun H => H). Qed.
Lemma PI_st_refmap c0 st m : PI c0 st -> PI c0 (st_refmap st m). Proof. exact (fun H => H). Qed.
Lemma PI_st_line_number c0 st n : PI c0 st -> PI c0 (st_line_number st n). Proof. exact (fun H => H). Qed.
Lemma PI_st_cur c0 st c : PI c0 st -> PI c0 (st_cur st c). Proof. exact (fun H => H). Qed.
Lemma PI_st_curline c0 st a b : PI c0 st -> PI c0 (st_curline st a b). Proof. exact (fun H => H). Qed.
Lemma PI_st_last_line_length c0 st n : PI c0 st -> PI c0 (st_last_line_length st n). Proof. exact (fun H => H). Qed.

Lemma get_pall c0 st id n : PI c0 st -> get st id = Ok n -> pall c0 n = true.
Proof. intros V G. apply get_find in G. exact (find_node_pall _ _ _ _ V G). Qed.

Lemma modify_PI c0 st id f st' :
  PI c0 st -> modify st id f = Ok st' ->
  (forall n, find_node id (ps_root st) = Some n -> pall c0 n = true -> pall c0 (f n) = true) ->
  PI c0 st'.
Proof.
  unfold modify, PI. intros V M Hf. destruct (upd id f (ps_root st)) as [r|] eqn:U; [|discriminate].
  inversion M; subst. cbn [ps_root st_root].
  eapply upd_pall; [exact V | exact U |]. intros n Fn Vn. now apply Hf.
Qed.

(* modify_info with a function under which the value stays allowed and a Document stays a Document *)
Lemma modify_info_PI c0 st id f st' :
  PI c0 st -> modify_info st id f = Ok st' ->
  (forall n, find_node id (ps_root st) = Some n -> pok c0 (binf n) = true -> pok c0 (f (binf n)) = true) ->
  PI c0 st'.
Proof.
  intros V M Hf. eapply modify_PI; [exact V | exact M |].
  intros n Fn Vn. specialize (Hf n Fn). destruct n as [i ch]. cbn [on_info binf] in *.
  apply pall_node. apply pall_node in Vn. destruct Vn as [A B]. split; [now apply Hf | exact B].
Qed.

Lemma modify_info_set_PI c0 st id f st' :
  modify_info st id f = Ok st' -> (forall i, bi_val (f i) = bi_val i /\ bi_id (f i) = bi_id i) -> PI c0 st -> PI c0 st'.
Proof.
  intros M Hf V. eapply modify_info_PI; [exact V | exact M |]. intros n Fn Vn. unfold pok in *.
  destruct (Hf (binf n)) as [A B]. now rewrite A, B.
Qed.

Lemma bdetach_PI c0 st id st' : bdetach st id = Ok st' -> PI c0 st -> PI c0 st'.
Proof.
  unfold bdetach, PI. intros D V.
  destruct (edit_kids id (fun _ pre _ post => pre ++ post) (ps_root st)) as [r|] eqn:E.
  - inversion D; subst. cbn [ps_root st_root].
    eapply (edit_kids_pall c0 _ _ _ _ V E).
    intros pk pre c post K. apply forallb_app_iff in K. destruct K as [K1 K2]. apply forallb_cons in K2.
    apply forallb_app_iff. tauto.
  - now inversion D; subst.
Qed.

Lemma append_child_PI c0 st pid c st' :
  append_child st pid c = Ok st' -> pall c0 c = true -> PI c0 st -> PI c0 st'.
Proof.
  intros A Vc V. eapply modify_PI; [exact V | exact A |].
  intros n Fn Vn. destruct n as [i ch].
  apply pall_node. apply pall_node in Vn. destruct Vn as [Vi Vk]. split; [exact Vi|].
  apply forallb_app_iff. split; [exact Vk|]. apply forallb_cons. split; [exact Vc | reflexivity].
Qed.

Lemma edit_root_PI c0 st id g r :
  edit_kids id g (ps_root st) = Some r -> PI c0 st ->
  (forall pk pre c post, forallb (pall c0) (pre ++ c :: post) = true -> forallb (pall c0) (g pk pre c post) = true) ->
  PI c0 (st_root st r).
Proof.
  intros E V Hg. unfold PI. cbn [ps_root st_root]. exact (edit_kids_pall c0 _ _ _ _ V E Hg).
Qed.

(* retighten (finalize of a reference-only paragraph): only the tight flag of a List changes *)
Lemma retighten_PI c0 st p st' : retighten st p = Ok st' -> PI c0 st -> PI c0 st'.
Proof.
  unfold retighten. intros H V. destruct p as [item|]; [|inversion H; subst; exact V].
  destruct (parent_of item (ps_root st)) as [lid|]; [|inversion H; subst; exact V].
  destruct (get st lid) as [l| |] eqn:G; cbn [bind] in H; try discriminate H.
  destruct (bi_open (binf l)); [inversion H; subst; exact V|].
  destruct (bval l) eqn:Bv; try (inversion H; subst; exact V).
  eapply modify_info_PI; [exact V | exact H |].
  intros n Fn _. apply pok_not_atx. reflexivity.
Qed.

(* ---- finalize: the value changes only CodeBlock -> CodeBlock, HtmlBlock -> HtmlBlock, NList -> NList *)
Lemma finalize_PI c0 o st id p st' : finalize o st id = Ok (p, st') -> PI c0 st -> PI c0 st'.
Proof.
  intros F V. unfold finalize in F.
  mstep F. pose proof (get_pall _ _ _ _ V E) as Va. apply get_find in E.
  mstep F; [discriminate F|].
  mstep F. clear E1.
  assert (Vv : pok c0 (binf a) = true) by (destruct a as [i ch]; apply pall_node in Va; tauto).
  destruct (bi_val (binf a)) eqn:Ev; mon F;
  repeat first [ apply PI_st_refmap
               | (eapply retighten_PI; [eassumption|])
               | (eapply bdetach_PI; [eassumption|])
               | (eapply modify_info_PI; [exact V | eassumption |
                    intros n Fn _; rewrite E in Fn; inversion Fn; subst;
                    first [ apply pok_not_atx; reflexivity
                          | unfold pok in *; cbn [set_content set_end set_open set_val bi_val bi_id] in *; exact Vv ]]) ].
Qed.

Lemma unwrap_parent_fin_PI c0 site o st id p st' :
  unwrap_parent site (finalize o st id) = Ok (p, st') -> PI c0 st -> PI c0 st'.
Proof.
  unfold unwrap_parent. intros H V.
  destruct (finalize o st id) as [[op s1]| |] eqn:E; cbn [bind fst snd] in H; try discriminate H.
  destruct op; inversion H; subst. eapply finalize_PI; eassumption.
Qed.

Lemma add_child_loop_PI c0 o k : forall fuel st parent p' st',
  add_child_loop fuel o st parent k = Ok (p', st') -> PI c0 st -> PI c0 st'.
Proof.
  induction fuel as [|f IH]; intros st parent p' st' H V; [discriminate|].
  cbn [add_child_loop] in H.
  destruct (get st parent) as [pn| |] eqn:G; cbn [bind] in H; try discriminate H.
  destruct (can_contain (bkind pn) k) eqn:C.
  - inversion H; subst. exact V.
  - match type of H with bind ?r _ = _ => destruct r as [[q s1]| |] eqn:U; cbn [bind fst snd] in H; try discriminate H end.
    eapply IH; [exact H|]. eapply unwrap_parent_fin_PI; eassumption.
Qed.

Lemma add_child_gen_PI c0 o st parent v col post kids id st' :
  add_child_gen o st parent v col post kids = Ok (id, st') -> PI c0 st ->
  (forall id l c, pok c0 (post (new_info id v l c)) = true) ->
  forallb (pall c0) kids = true -> PI c0 st'.
Proof.
  unfold add_child_gen. intros H V Hp Hk.
  match type of H with bind ?r _ = _ => destruct r as [[p' s1]| |] eqn:E; cbn [bind] in H; try discriminate H end.
  pose proof (add_child_loop_PI _ _ _ _ _ _ _ _ E V) as V1.
  mon H. eapply append_child_PI; [eassumption | | apply PI_st_next; exact V1].
  apply pall_node. split; [apply Hp | exact Hk].
Qed.

Lemma add_child_PI c0 o st parent v col id st' :
  add_child o st parent v col = Ok (id, st') -> atxv v = false -> PI c0 st -> PI c0 st'.
Proof.
  unfold add_child. intros H Hv V. eapply add_child_gen_PI; [exact H | exact V | intros; apply pok_not_atx; exact Hv | reflexivity].
Qed.

Lemma adv_PI c0 st line n b st' : adv st line n b = Ok st' -> PI c0 st -> PI c0 st'.
Proof. unfold adv. intros H V. mon H. exact V. Qed.
Lemma ffn_PI c0 st line st' : ffn st line = Ok st' -> PI c0 st -> PI c0 st'.
Proof. unfold ffn. intros H V. mon H. exact V. Qed.

Create HintDb pi.
#[export] Hint Resolve adv_PI ffn_PI unwrap_parent_fin_PI finalize_PI bdetach_PI
  PI_st_next PI_st_current PI_st_refmap PI_st_line_number PI_st_cur PI_st_curline PI_st_last_line_length
  modify_info_set_PI : pi.
#[export] Hint Extern 1 (forall i : binfo, bi_val _ = bi_val i /\ bi_id _ = bi_id i) => (intro; split; reflexivity) : pi.
#[export] Hint Extern 1 (atxv _ = false) => reflexivity : pi.
#[export] Hint Resolve add_child_PI : pi.

Ltac pigo H := mon H; monall; repeat match goal with p : (_ * _)%type |- _ => destruct p end; cbn [fst snd] in *; eauto 20  with pi.

Lemma skip_one_space_PI c0 st line site st' : skip_one_space st line site = Ok st' -> PI c0 st -> PI c0 st'.
Proof. unfold skip_one_space. intros H V. pigo H. Qed.
#[export] Hint Resolve skip_one_space_PI : pi.

Lemma parse_block_quote_prefix_PI c0 o st line b st' : parse_block_quote_prefix o st line = Ok (b, st') -> PI c0 st -> PI c0 st'.
Proof. unfold parse_block_quote_prefix. intros H V. pigo H. Qed.
#[export] Hint Resolve parse_block_quote_prefix_PI : pi.

Lemma parse_footnote_prefix_PI c0 st line b st' : parse_footnote_definition_block_prefix st line = Ok (b, st') -> PI c0 st -> PI c0 st'.
Proof. unfold parse_footnote_definition_block_prefix. intros H V. pigo H. Qed.
#[export] Hint Resolve parse_footnote_prefix_PI : pi.

Lemma parse_item_prefix_PI c0 st line c mo pad b st' : parse_item_prefix st line c mo pad = Ok (b, st') -> PI c0 st -> PI c0 st'.
Proof. unfold parse_item_prefix. intros H V. pigo H. Qed.
#[export] Hint Resolve parse_item_prefix_PI : pi.

Lemma skip_fence_offset_PI c0 line site : forall i st st', skip_fence_offset i st line site = Ok st' -> PI c0 st -> PI c0 st'.
Proof. induction i as [|j IH]; intros st st' H V; cbn [skip_fence_offset] in H; pigo H. Qed.
#[export] Hint Resolve skip_fence_offset_PI : pi.

Lemma parse_code_block_prefix_PI c0 o st line c cb a b st' :
  parse_code_block_prefix o st line c cb = Ok (a, b, st') -> PI c0 st -> PI c0 st'.
Proof. unfold parse_code_block_prefix. intros H V. pigo H. Qed.
#[export] Hint Resolve parse_code_block_prefix_PI : pi.

Lemma parse_mbq_prefix_PI c0 o st line c fl fo a b st' :
  parse_multiline_block_quote_prefix o st line c fl fo = Ok (a, b, st') -> PI c0 st -> PI c0 st'.
Proof. unfold parse_multiline_block_quote_prefix. intros H V. pigo H. Qed.
#[export] Hint Resolve parse_mbq_prefix_PI : pi.

Lemma check_container_PI c0 o st line c a b st' : check_container o st line c = Ok (a, b, st') -> PI c0 st -> PI c0 st'.
Proof. unfold check_container. intros H V. destruct (bval c); pigo H. Qed.
#[export] Hint Resolve check_container_PI : pi.

Lemma check_open_blocks_inner_PI c0 o line : forall fuel st container a c b st',
  check_open_blocks_inner fuel o st line container = Ok (a, c, b, st') -> PI c0 st -> PI c0 st'.
Proof. induction fuel as [|f IH]; intros st container a c b st' H V; cbn [check_open_blocks_inner] in H; pigo H. Qed.
#[export] Hint Resolve check_open_blocks_inner_PI : pi.

Lemma check_open_blocks_PI c0 o st line r st' : check_open_blocks o st line = Ok (r, st') -> PI c0 st -> PI c0 st'.
Proof. unfold check_open_blocks. intros H V. pigo H. Qed.
#[export] Hint Resolve check_open_blocks_PI : pi.

(* ---- tables (only reached with the table extension) *)
Lemma try_inserting_PI c0 st c po st' : try_inserting_table_header_paragraph st c po = Ok st' -> PI c0 st -> PI c0 st'.
Proof.
  unfold try_inserting_table_header_paragraph. intros H V. mon H; monall; eauto with pi.
  eapply edit_root_PI; [eassumption | eauto 10 with pi |].
  intros pk pre x post K. cbv beta. destruct (can_contain pk KParagraph) eqn:C; [|exact K].
  apply forallb_app_iff in K. destruct K as [K1 K2]. apply forallb_app_iff. split; [exact K1|].
  cbn [app]. apply forallb_cons. split; [reflexivity | exact K2].
Qed.
#[export] Hint Resolve try_inserting_PI : pi.

Lemma header_cells_pall c0 : forall cells id ln sl sc po l,
  header_cells cells id ln sl sc po = Ok l -> forallb (pall c0) l = true.
Proof.
  induction cells as [|c r IH]; intros id ln sl sc po l H; cbn [header_cells] in H.
  - inversion H. reflexivity.
  - mon H. apply forallb_cons. split; [reflexivity | eapply IH; eassumption].
Qed.

Lemma try_opening_header_PI c0 o st c line r st' :
  try_opening_header o st c line = Ok (r, st') -> PI c0 st -> PI c0 st'.
Proof.
  unfold try_opening_header. intros H V. mon H; monall; eauto 10 with pi;
  (eapply edit_root_PI; [eassumption | eauto 10 with pi |]);
  intros pk pre x post K; cbv beta; (destruct (is_paragraph x) eqn:P; [|exact K]);
  apply forallb_app_iff in K; destruct K as [K1 K2]; apply forallb_cons in K2; destruct K2 as [_ K2];
  apply forallb_app_iff; (split; [exact K1|]); cbn [app]; apply forallb_cons; (split; [|exact K2]);
  apply pall_node; (split; [reflexivity|]);
  apply forallb_cons; (split; [|reflexivity]); apply pall_node;
  (split; [reflexivity | eapply header_cells_pall; eassumption]).
Qed.

Lemma row_cells_pall c0 : forall n cells id ln sc lc l lc',
  row_cells n cells id ln sc lc = Ok (l, lc') -> forallb (pall c0) l = true.
Proof.
  induction n as [|m IH]; intros cells id ln sc lc l lc' H; cbn [row_cells] in H.
  - destruct cells; inversion H; reflexivity.
  - destruct cells as [|c r]; [inversion H; reflexivity|].
    mon H. repeat match goal with p : (_ * _)%type |- _ => destruct p end. cbn [fst snd] in *.
    apply forallb_cons. split; [reflexivity | eapply IH; eassumption].
Qed.

Lemma filler_cells_pall c0 : forall n id ln lc, forallb (pall c0) (filler_cells n id ln lc) = true.
Proof.
  induction n as [|m IH]; intros; cbn [filler_cells]; [reflexivity|].
  apply forallb_cons. split; [reflexivity | apply IH].
Qed.

Lemma try_opening_row_PI c0 o st c t line r st' :
  try_opening_row o st c t line = Ok (r, st') -> PI c0 st -> PI c0 st'.
Proof.
  unfold try_opening_row. intros H V.
  mon H; monall; eauto 10 with pi.
  match goal with M : modify _ _ _ = Ok ?s |- _ => assert (PI c0 s) end.
  { eapply modify_PI; [apply PI_st_next; exact V | eassumption |].
    intros nn Fn Vn. destruct nn as [i ch].
    apply pall_node. apply pall_node in Vn. destruct Vn as [_ Vk]. split; [reflexivity|].
    apply forallb_app_iff. split; [exact Vk|]. apply forallb_cons. split; [|reflexivity].
    apply pall_node. split; [reflexivity|].
    apply forallb_app_iff. split; [eapply row_cells_pall; eassumption | apply filler_cells_pall]. }
  eauto 10 with pi.
Qed.

Lemma try_opening_block_PI c0 o st c line r st' :
  try_opening_block o st c line = Ok (r, st') -> PI c0 st -> PI c0 st'.
Proof.
  unfold try_opening_block. intros H V.
  destruct (get st c) as [cn| |] eqn:G; cbn [bind] in H; try discriminate H.
  destruct (bval cn) eqn:Bv; try (inversion H; subst; exact V).
  - eapply try_opening_header_PI; eassumption.
  - eapply try_opening_row_PI; eassumption.
Qed.

Lemma reopen_PI c0 : forall fuel st id st', reopen_ast_nodes fuel st id = Ok st' -> PI c0 st -> PI c0 st'.
Proof. induction fuel as [|f IH]; intros st id st' H V; cbn [reopen_ast_nodes] in H; pigo H. Qed.
#[export] Hint Resolve reopen_PI : pi.

Lemma last_kid_pall c0 c lc : pall c0 c = true -> last_opt (bkids c) = Some lc -> pall c0 lc = true.
Proof.
  destruct c as [i ch]. intros V L. apply pall_node in V. destruct V as [_ V].
  cbn [bkids] in L. apply last_opt_in in L. rewrite forallb_forall in V. now apply V.
Qed.

Lemma parse_desc_list_details_PI c0 o st c m b c' st' :
  parse_desc_list_details o st c m = Ok (b, c', st') -> PI c0 st -> PI c0 st'.
Proof.
  unfold parse_desc_list_details. intros H V.
  destruct (get st c) as [cn| |] eqn:G; cbn [bind] in H; try discriminate H.
  match type of H with bind ?r _ = _ => destruct r as [[[[tight c1] lc]|]| |] eqn:R; cbn [bind] in H; try discriminate H end;
    [|inversion H; subst; exact V].
  assert (Vlc : pall c0 lc = true).
  { pose proof (get_pall _ _ _ _ V G) as Vc.
    destruct (last_opt (bkids cn)) eqn:L.
    - inversion R; subst. eapply last_kid_pall; eassumption.
    - mon R. eapply last_kid_pall; [eapply get_pall; [exact V | eassumption] | eassumption]. }
  clear R.
  destruct (bval lc) eqn:Bl; try (inversion H; subst; exact V).
  - (* DescriptionItem *) pigo H.
  - (* Paragraph *)
    mon H; monall; repeat match goal with p : (_ * _)%type |- _ => destruct p end; cbn [fst snd] in *;
    match goal with A : add_child_gen _ ?s _ DescriptionTerm _ _ _ = Ok (_, ?s') |- _ =>
      assert (PI c0 s -> PI c0 s') by
        (intro; eapply add_child_gen_PI; [exact A | assumption | intros; reflexivity |
           apply forallb_cons; split; [exact Vlc | reflexivity]])
    end; eauto 20  with pi.
Qed.
#[export] Hint Resolve parse_desc_list_details_PI : pi.

(* ---- the handlers *)
Lemma handle_alert_PI c0 o st c line ind b c' st' : handle_alert o st c line ind = Ok (b, c', st') -> PI c0 st -> PI c0 st'.
Proof. unfold handle_alert. intros H V. pigo H. Qed.
Lemma handle_mbq_PI c0 o st c line ind b c' st' : handle_multiline_blockquote o st c line ind = Ok (b, c', st') -> PI c0 st -> PI c0 st'.
Proof. unfold handle_multiline_blockquote, rest_at_fns. intros H V. pigo H. Qed.
Lemma handle_blockquote_PI c0 o st c line ind b c' st' : handle_blockquote o st c line ind = Ok (b, c', st') -> PI c0 st -> PI c0 st'.
Proof. unfold handle_blockquote. intros H V. pigo H. Qed.

(* ATX: the level is the number of hashes the scanner accepted *)
Lemma handle_atx_PI c0 o st c line ind b c' st' : ~ In x23 line ->
  handle_atx_heading o st c line ind = Ok (b, c', st') -> PI c0 st -> PI c0 st'.
Proof.
  intro Hn. unfold handle_atx_heading, rest_at_fns, Blocks.slice_from. intros H V.
  mon H; monall; repeat match goal with p : (_ * _)%type |- _ => destruct p end; cbn [fst snd] in *; eauto with pi.
  exfalso. apply Hn.
  match goal with P : position_hash _ = Some _ |- _ => apply position_hash_in in P; eapply in_skipn; exact P end.
Qed.

Lemma handle_code_fence_PI c0 o st c line ind b c' st' : handle_code_fence o st c line ind = Ok (b, c', st') -> PI c0 st -> PI c0 st'.
Proof. unfold handle_code_fence, rest_at_fns. intros H V. pigo H. Qed.
Lemma handle_html_block_PI c0 o st c line ind b c' st' : handle_html_block o st c line ind = Ok (b, c', st') -> PI c0 st -> PI c0 st'.
Proof. unfold handle_html_block, rest_at_fns. intros H V. pigo H. Qed.
Lemma handle_thematic_break_PI c0 o st c line ind am b c' st' : handle_thematic_break o st c line ind am = Ok (b, c', st') -> PI c0 st -> PI c0 st'.
Proof. unfold handle_thematic_break. intros H V. pigo H. Qed.

Lemma handle_footnote_PI c0 o st c line ind d b c' st' : handle_footnote o st c line ind d = Ok (b, c', st') -> PI c0 st -> PI c0 st'.
Proof. unfold handle_footnote, rest_at_fns. intros H V. pigo H. Qed.

Lemma handle_description_list_PI c0 o st c line ind b c' st' : handle_description_list o st c line ind = Ok (b, c', st') -> PI c0 st -> PI c0 st'.
Proof. unfold handle_description_list, rest_at_fns. intros H V. pigo H. Qed.
Lemma list_spaces_loop_PI c0 line sc : forall fuel st st', list_spaces_loop fuel st line sc = Ok st' -> PI c0 st -> PI c0 st'.
Proof. induction fuel as [|f IH]; intros st st' H V; cbn [list_spaces_loop] in H; pigo H. Qed.
#[export] Hint Resolve list_spaces_loop_PI : pi.
Lemma handle_list_PI c0 o st c line ind d b c' st' : handle_list o st c line ind d = Ok (b, c', st') -> PI c0 st -> PI c0 st'.
Proof. unfold handle_list. intros H V. pigo H. Qed.
Lemma handle_code_block_PI c0 o st c line ind ml b c' st' : handle_code_block o st c line ind ml = Ok (b, c', st') -> PI c0 st -> PI c0 st'.
Proof. unfold handle_code_block. intros H V. pigo H. Qed.

(* setext: a Paragraph becomes a Heading of level 1 or 2 *)
Lemma handle_setext_PI c0 o st c line ind b c' st' : handle_setext_heading o st c line ind = Ok (b, c', st') -> PI c0 st -> PI c0 st'.
Proof.
  unfold handle_setext_heading, rest_at_fns. intros H V.
  mstep H; [inversion H; subst; exact V|].
  destruct (get st c) as [cn| |] eqn:G; cbn [bind] in H; try discriminate H.
  destruct (is_paragraph cn) eqn:P; cbn [negb] in H; [|inversion H; subst; exact V].
  mon H; monall; repeat match goal with p : (_ * _)%type |- _ => destruct p end; cbn [fst snd] in *; eauto 10 with pi;
  match goal with M1 : modify_info (st_refmap st _) _ _ = Ok ?s1 |- _ => assert (V1 : PI c0 s1) end;
  try (eapply modify_info_PI; [apply PI_st_refmap; exact V | eassumption |];
       intros nn Fn Vn; first [ apply pok_not_atx; reflexivity | exact Vn ]);
  eauto 10 with pi.
Qed.
#[export] Hint Resolve handle_alert_PI handle_mbq_PI handle_blockquote_PI handle_atx_PI handle_code_fence_PI
  handle_html_block_PI handle_setext_PI handle_thematic_break_PI handle_footnote_PI
  handle_description_list_PI handle_list_PI handle_code_block_PI : pi.

Lemma or_else_h_PI c0 (r : hres) k b c st st' :
  or_else_h r k = Ok (b, c, st') -> PI c0 st ->
  (forall b1 c1 s1, r = Ok (b1, c1, s1) -> PI c0 st -> PI c0 s1) ->
  (forall c1 s1 b2 c2 s2, k c1 s1 = Ok (b2, c2, s2) -> PI c0 s1 -> PI c0 s2) ->
  PI c0 st'.
Proof.
  unfold or_else_h. intros H V Hr Hk.
  destruct r as [[[b1 c1] s1]| |]; cbn [bind] in H; try discriminate H.
  destruct b1.
  - inversion H; subst. eapply Hr; [reflexivity | exact V].
  - eapply Hk; [exact H|]. eapply Hr; [reflexivity | exact V].
Qed.

Ltac chain_pi :=
  match goal with
  | R : or_else_h _ _ = Ok _ |- PI _ _ =>
    eapply (or_else_h_PI _ _ _ _ _ _ _ R); clear R;
    [ eassumption | intros ? ? ? ? ?; eauto  with pi | intros ? ? ? ? ? R ?; cbv beta in R; chain_pi ]
  | |- PI _ _ => eauto  with pi
  end.

Lemma open_new_blocks_step_PI c0 o st c line am ml d g c' st' : ~ In x23 line ->
  open_new_blocks_step o st c line am ml d = Ok (g, c', st') -> PI c0 st -> PI c0 st'.
Proof.
  intro Hn. unfold open_new_blocks_step. intros H V.
  destruct (ffn st line) as [s0| |] eqn:F0; cbn [bind] in H; try discriminate H.
  assert (V0 : PI c0 s0) by eauto with pi.
  match type of H with bind ?r _ = _ => destruct r as [[[hd c1] s1]| |] eqn:R; cbn [bind] in H; try discriminate H end.
  assert (V1 : PI c0 s1) by chain_pi.
  clear R.
  destruct hd.
  - pigo H.
  - destruct (negb (Nat.leb code_indent (indent s0)) && bo_table o) eqn:ET.
    + match type of H with bind (bind ?r _) _ = _ => destruct r as [[tr s2]| |] eqn:TB; cbn [bind] in H; try discriminate H end.
      pose proof (try_opening_block_PI _ _ _ _ _ _ _ TB V1) as V2.
      pigo H.
    + pigo H.
Qed.
#[export] Hint Resolve open_new_blocks_step_PI : pi.

Lemma open_new_blocks_loop_PI c0 o line am : ~ In x23 line -> forall fuel st c ml d c' st',
  open_new_blocks_loop fuel o st c line am ml d = Ok (c', st') -> PI c0 st -> PI c0 st'.
Proof. intro Hn. induction fuel as [|f IH]; intros st c ml d c' st' H V; cbn [open_new_blocks_loop] in H; pigo H. Qed.
#[export] Hint Resolve open_new_blocks_loop_PI : pi.

Lemma open_new_blocks_PI c0 o st c line am c' st' : ~ In x23 line -> open_new_blocks o st c line am = Ok (c', st') -> PI c0 st -> PI c0 st'.
Proof. intro Hn. unfold open_new_blocks. intros H V. pigo H. Qed.
#[export] Hint Resolve open_new_blocks_PI : pi.

Lemma clear_llb_up_PI c0 : forall fuel st id st', clear_llb_up fuel st id = Ok st' -> PI c0 st -> PI c0 st'.
Proof. induction fuel as [|f IH]; intros st id st' H V; cbn [clear_llb_up] in H; pigo H. Qed.
#[export] Hint Resolve clear_llb_up_PI : pi.

Lemma finalize_up_to_PI c0 o target site : forall fuel st st', finalize_up_to fuel o st target site = Ok st' -> PI c0 st -> PI c0 st'.
Proof. induction fuel as [|f IH]; intros st st' H V; cbn [finalize_up_to] in H; pigo H. Qed.
#[export] Hint Resolve finalize_up_to_PI : pi.

Lemma add_line_PI c0 st id line st' : add_line st id line = Ok st' -> PI c0 st -> PI c0 st'.
Proof.
  unfold add_line. intros H V.
  destruct (get st id) as [n| |] eqn:G; cbn [bind] in H; try discriminate H.
  mon H; monall; apply PI_st_cur;
  (eapply modify_info_PI; [exact V | eassumption |];
   intros nn Fn Vn; rewrite (get_find _ _ _ G) in Fn; inversion Fn; subst;
   unfold pok in *; cbn [set_lo set_content bi_val bi_id] in *; exact Vn).
Qed.
#[export] Hint Resolve add_line_PI : pi.

Lemma add_text_to_container_PI c0 o st c lm line st' :
  add_text_to_container o st c lm line = Ok st' -> PI c0 st -> PI c0 st'.
Proof. unfold add_text_to_container. intros H V. pigo H. Qed.
#[export] Hint Resolve add_text_to_container_PI : pi.


