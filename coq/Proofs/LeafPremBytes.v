(* Proofs/LeafPremBytes.v — C01, the premises of the inline phase, part 1: byte-string facts.

   LP c lo — what the inline phase needs of a leaf (Paragraph / Heading / TableCell) with content c and line offsets lo,
   in a form that is preserved by every step of the block phase:
     cln c                     no NUL and no CR           (so that line_endings c = number of LF)
     utf8_valid c = true
     cnl c <= |lo|             (the clause of Proofs/BlocksTotal6Val.Qn)
     rtrim_slice c = [] \/ cnl (rtrim_slice c) < |lo|     (the strict form the inline phase needs, after its own right-trim)
   LK line — the lines the block phase works on: m ++ [LF] or m with m free of NUL, CR, LF (a line of feed with its LF, or
   what chop_trailing_hashtags leaves of it), closed under prefix / suffix / right-trim. *)
From Coq Require Import List NArith Arith Bool Lia Strings.String.
From V Require Import Base.Bytes Base.Res Gen.StrLeafGen Gen.FeedConst Model.Ast Model.Strings Model.AutolinkLeaf Spec.EscapeSpec Spec.LineEndings Model.Feed Model.FrontMatter
  Model.RefDef Model.Blocks Proofs.FeedProofs Proofs.StrLeafProofs Proofs.BlocksProofs Proofs.BlocksPos Proofs.BlocksTotal
  Proofs.BlocksTotal6Val Proofs.InlinesTotal2.
Import ListNotations.
Local Open Scope list_scope.

(* ------------------------------------------------------------------ drop_while / right-trim over an append *)
Lemma forallb_rev {A} (f : A -> bool) : forall l, forallb f (rev l) = forallb f l.
Proof. induction l as [|a l IH]; [reflexivity|]. cbn [rev forallb]. rewrite forallb_app, IH. cbn [forallb]. rewrite andb_true_r. apply andb_comm. Qed.

Lemma drop_while_app_all (f : byte -> bool) : forall x y, forallb f x = true -> drop_while f (x ++ y) = drop_while f y.
Proof. induction x as [|a x IH]; intros y H; [reflexivity|]. cbn [forallb] in H. apply andb_true_iff in H as [H1 H2]. cbn [app drop_while]. rewrite H1. now apply IH. Qed.

Lemma drop_while_app_some (f : byte -> bool) : forall x y, forallb f x = false -> drop_while f (x ++ y) = drop_while f x ++ y.
Proof.
  induction x as [|a x IH]; intros y H; [discriminate H|]. cbn [forallb] in H. cbn [app drop_while].
  destruct (f a); [|reflexivity]. cbn [andb] in H. now apply IH.
Qed.

Lemma drop_while_all (f : byte -> bool) : forall x, forallb f x = true -> drop_while f x = [].
Proof. intros x H. rewrite <- (app_nil_r x). rewrite drop_while_app_all by exact H. reflexivity. Qed.

Definition allws (s : bytes) : bool := forallb sl_isspace s.

Lemma rtrim_app_ws a b : allws b = true -> rtrim_slice (a ++ b) = rtrim_slice a.
Proof. intro H. unfold rtrim_slice. rewrite rev_app_distr, drop_while_app_all; [reflexivity|]. now rewrite forallb_rev. Qed.

Lemma rtrim_app_nws a b : allws b = false -> rtrim_slice (a ++ b) = a ++ rtrim_slice b.
Proof.
  intro H. unfold rtrim_slice. rewrite rev_app_distr, drop_while_app_some by (now rewrite forallb_rev).
  now rewrite rev_app_distr, rev_involutive.
Qed.

Lemma rtrim_ws s : allws s = true -> rtrim_slice s = [].
Proof. intro H. unfold rtrim_slice. rewrite drop_while_all; [reflexivity|]. now rewrite forallb_rev. Qed.

Lemma rtrim_nil : rtrim_slice [] = []. Proof. reflexivity. Qed.

Lemma rtrim_prefix s : exists k, rtrim_slice s = firstn k s.
Proof.
  induction s as [|b r IH] using rev_ind; [exists 0; reflexivity|].
  destruct (sl_isspace b) eqn:E.
  - rewrite rtrim_app_ws by (cbn; now rewrite E). destruct IH as [k ->].
    exists (Nat.min k (List.length r)). rewrite firstn_app. replace (Nat.min k (List.length r) - List.length r) with 0 by lia.
    cbn [firstn]. rewrite app_nil_r. rewrite <- (firstn_firstn r k (List.length r)). now rewrite firstn_all.
  - rewrite rtrim_app_nws by (cbn; now rewrite E). unfold rtrim_slice. cbn [rev app drop_while]. rewrite E. cbn [rev app].
    exists (List.length (r ++ [b])). now rewrite firstn_all.
Qed.

Lemma rtrim_idem s : rtrim_slice (rtrim_slice s) = rtrim_slice s.
Proof.
  unfold rtrim_slice. rewrite rev_involutive. f_equal.
  generalize (rev s). induction l as [|a l IH]; cbn [drop_while]; [reflexivity|].
  destruct (sl_isspace a) eqn:E; [exact IH|]. cbn [drop_while]. now rewrite E.
Qed.

Lemma trim_rtrim s : rtrim_slice (trim_slice s) = trim_slice s.
Proof. unfold trim_slice. apply rtrim_idem. Qed.

(* ------------------------------------------------------------------ no NUL, no CR *)
Definition cln (s : bytes) : Prop := forall b, In b s -> b <> x00 /\ b <> x0d.

Lemma cln_nil : cln []. Proof. intros b []. Qed.
Lemma cln_app a b : cln a -> cln b -> cln (a ++ b).
Proof. intros Ha Hb x Hx. apply in_app_or in Hx. destruct Hx; auto. Qed.
Lemma cln_sub a b : (forall x, In x b -> In x a) -> cln a -> cln b.
Proof. intros S H x Hx. apply H, S, Hx. Qed.
Lemma cln_skipn k s : cln s -> cln (skipn k s).
Proof. apply cln_sub. intros x. apply in_skipn. Qed.
Lemma cln_firstn k s : cln s -> cln (firstn k s).
Proof. apply cln_sub. intros x. apply in_firstn. Qed.
Lemma in_rtrim x s : In x (rtrim_slice s) -> In x s.
Proof. destruct (rtrim_prefix s) as [k ->]. apply in_firstn. Qed.
Lemma in_trim x s : In x (trim_slice s) -> In x s.
Proof. unfold trim_slice, ltrim_slice. intro H. apply in_rtrim in H. now apply in_drop_while in H. Qed.
Lemma cln_trim s : cln s -> cln (trim_slice s).
Proof. apply cln_sub. intros x. apply in_trim. Qed.
Lemma cln_unescape_pipes s : cln s -> cln (unescape_pipes s).
Proof. apply cln_sub. intros x. apply in_unescape_pipes. Qed.
Lemma cln_repeat n : cln (repeat_bytes n x20).
Proof. induction n as [|n IH]; intros b Hb; [destruct Hb|]. destruct Hb as [<-|Hb]; [split; discriminate | now apply IH]. Qed.
Lemma cln_lf : cln [x0a]. Proof. intros b [<-|[]]. split; discriminate. Qed.

Lemma allws_repeat n : allws (repeat_bytes n x20) = true.
Proof. induction n as [|n IH]; [reflexivity|]. cbn [repeat_bytes]. unfold allws in *. cbn [forallb]. now rewrite IH. Qed.

Lemma utf8_repeat n : utf8_valid (repeat_bytes n x20) = true.
Proof.
  induction n as [|n IH]; [reflexivity|]. cbn [repeat_bytes]. change (x20 :: repeat_bytes n x20) with ([x20] ++ repeat_bytes n x20).
  apply utf8_app; [reflexivity | exact IH].
Qed.

(* without CR the line endings the inline phase counts are the LF bytes *)
Lemma line_endings_cnl : forall s, (forall b, In b s -> b <> x0d) -> line_endings s = cnl s.
Proof.
  induction s as [|c r IH]; intro H; [reflexivity|]. cbn [line_endings]. change (c :: r) with ([c] ++ r). rewrite cnl_app.
  rewrite IH by (intros b Hb; apply H; now right). f_equal.
  unfold count_byte_nl. cbn [filter]. destruct (beqb c x0a) eqn:E; [reflexivity|].
  destruct (beqb c x0d) eqn:E2; [|reflexivity]. apply beqb_eq in E2. exfalso. apply (H c); [now left | exact E2].
Qed.

(* ------------------------------------------------------------------ character boundaries *)
Lemma ustep_noncont_all : forall x,
  forallb (fun st => match ustep st x with
                     | Some _ => match st with U0 => true | _ => is_cont_byte x end
                     | None => true end) [U0; U1; U2; U2e0; U2ed; U3; U3f0; U3f4] = true.
Proof. apply forall_bytes. vm_compute. reflexivity. Qed.

Lemma ustep_noncont st x st' : is_cont_byte x = false -> ustep st x = Some st' -> st = U0.
Proof.
  intros Hx H. pose proof (ustep_noncont_all x) as G. rewrite forallb_forall in G.
  assert (I : In st [U0; U1; U2; U2e0; U2ed; U3; U3f0; U3f4]) by (destruct st; simpl; tauto).
  specialize (G st I). rewrite H in G. destruct st; try reflexivity; rewrite Hx in G; discriminate G.
Qed.

Lemma skipn_char_boundary s k : utf8_valid s = true -> is_char_boundary s k = true -> utf8_valid (skipn k s) = true.
Proof.
  intros V B. destruct k as [|k]; [exact V|]. unfold is_char_boundary in B.
  destruct (nth_error s (S k)) as [x|] eqn:N.
  - pose proof (nth_error_split_at _ _ _ N) as E.
    assert (Sk : skipn (S k) s = x :: skipn (S (S k)) s).
    { rewrite E at 1. rewrite skipn_app. rewrite firstn_length_le by (apply Nat.lt_le_incl, nth_error_Some; congruence).
      rewrite Nat.sub_diag. rewrite skipn_all2 by (rewrite firstn_length; lia). reflexivity. }
    apply (utf8_suffix (firstn (S k) s)); [now rewrite firstn_skipn|].
    assert (V' := V). rewrite <- (firstn_skipn (S k) s) in V'. unfold utf8_valid in V'. apply utf8_run_ustate in V'.
    rewrite ustate_app in V'. destruct (ustate U0 (firstn (S k) s)) as [st|]; [|discriminate V'].
    rewrite Sk in V'. cbn [ustate] in V'. destruct (ustep st x) as [st1|] eqn:U; [|discriminate V'].
    apply negb_true_iff in B. now rewrite (ustep_noncont _ _ _ B U).
  - apply nth_error_None in N. now rewrite skipn_all2 by lia.
Qed.

(* ------------------------------------------------------------------ the lines *)
Definition LK (line : bytes) : Prop :=
  exists m t, line = m ++ t /\ cln m /\ cnl m = 0 /\ (t = [] \/ t = [x0a]).

Lemma LK_cln l : LK l -> cln l.
Proof. intros (m & t & -> & C & _ & [->| ->]); [now rewrite app_nil_r | apply cln_app; [exact C | exact cln_lf]]. Qed.

Lemma LK_cnl l : LK l -> cnl l <= 1.
Proof. intros (m & t & -> & _ & N & [->| ->]); rewrite cnl_app, N; cbn; lia. Qed.

Lemma LK_firstn k l : LK l -> LK (firstn k l).
Proof.
  intros (m & t & -> & C & N & T). rewrite firstn_app.
  exists (firstn k m), (firstn (k - List.length m) t). split; [reflexivity|]. split; [now apply cln_firstn|].
  split; [pose proof (cnl_firstn k m); lia|].
  destruct T as [->| ->]; [left; now destruct (k - List.length m) | destruct (k - List.length m) as [|j]; [left; reflexivity | right; cbn [firstn]; now rewrite firstn_nil]].
Qed.

Lemma LK_skipn k l : LK l -> LK (skipn k l).
Proof.
  intros (m & t & -> & C & N & T). rewrite skipn_app.
  exists (skipn k m), (skipn (k - List.length m) t). split; [reflexivity|]. split; [now apply cln_skipn|].
  split; [pose proof (cnl_skipn k m); lia|].
  destruct T as [->| ->]; [left; now destruct (k - List.length m) | destruct (k - List.length m) as [|j]; [right | left; now destruct j]; reflexivity].
Qed.

Lemma LK_rtrim l : LK l -> LK (rtrim_slice l).
Proof. intro H. destruct (rtrim_prefix l) as [k ->]. now apply LK_firstn. Qed.

Lemma LK_rtrim_cnl l : LK l -> cnl (rtrim_slice l) = 0.
Proof.
  intros (m & t & -> & _ & N & T).
  assert (rtrim_slice (m ++ t) = rtrim_slice m) as -> by (destruct T as [->| ->]; [now rewrite app_nil_r | now apply rtrim_app_ws]).
  pose proof (cnl_rtrim m). lia.
Qed.

Lemma clean_line_LK l : clean_line l = true -> LK (norm_line l).
Proof.
  intro C. rewrite (norm_line_clean l C). exists l, [x0a]. split; [reflexivity|].
  unfold clean_line in C. rewrite forallb_forall in C. split; [|split; [|now right]].
  - intros b Hb. specialize (C _ Hb). split; intro E; subst b; vm_compute in C; discriminate C.
  - unfold count_byte_nl. induction l as [|b r IH]; [reflexivity|]. cbn [filter].
    assert (Hb : clean_byte b = true) by (apply C; now left).
    destruct (beqb b x0a) eqn:E; [apply beqb_eq in E; subst b; vm_compute in Hb; discriminate Hb|].
    apply IH. intros x Hx. apply C. now right.
Qed.

Lemma lines_LK x : Forall (fun l => LK (norm_line l)) (lines x).
Proof. pose proof (lines_clean x) as C. induction C; constructor; [now apply clean_line_LK | assumption]. Qed.

Lemma LK_LOK l : LK l -> LOK l.
Proof. intro H. split; [intros b Hb; exact (proj1 (LK_cln _ H b Hb)) | now apply LK_cnl]. Qed.

Lemma chop_LK l l1 : chop_trailing_hashtags l = Ok l1 -> LK l -> LK l1.
Proof.
  unfold chop_trailing_hashtags. rewrite rtrim_ok. cbn [bind fst]. intros H L.
  pose proof (LK_rtrim _ L) as B.
  destruct (rtrim_slice l) as [|x r] eqn:R; [discriminate H|]. rewrite <- R in *. clear R.
  destruct (Nat.leb _ _); [inversion H; subst; exact B|].
  destruct (nth_error _ _); [|discriminate H].
  destruct (_ && _); [|inversion H; subst; exact B].
  rewrite rtrim_ok in H. cbn [bind fst] in H. inversion H; subst. apply LK_rtrim, LK_firstn. exact B.
Qed.

(* ------------------------------------------------------------------ the leaf clause *)
Definition LP (c : bytes) (lo : list nat) : Prop :=
  cln c /\ utf8_valid c = true /\ cnl c <= List.length lo /\ (rtrim_slice c = [] \/ cnl (rtrim_slice c) < List.length lo).

Lemma LP_nil lo : LP [] lo.
Proof. split; [exact cln_nil|]. split; [reflexivity|]. split; [cbn; lia | now left]. Qed.

(* add_line, the branch that pushes an offset: pad = spaces, s = a suffix of the line *)
Lemma LP_push c lo pad s off : LP c lo -> (exists n, pad = repeat_bytes n x20) -> LK s -> utf8_valid s = true ->
  LP ((c ++ pad) ++ s) (lo ++ [off]).
Proof.
  intros (C1 & C2 & C3 & C4) [n ->] L V. unfold LP. rewrite app_length. cbn [List.length].
  split; [apply cln_app; [apply cln_app; [exact C1 | apply cln_repeat] | now apply LK_cln]|].
  split; [apply utf8_app; [apply utf8_app; [exact C2 | apply utf8_repeat] | exact V]|].
  pose proof (LK_cnl _ L) as N1.
  split; [rewrite !cnl_app, cnl_repeat; lia|].
  destruct (allws s) eqn:W.
  - rewrite rtrim_app_ws by exact W. rewrite rtrim_app_ws by apply allws_repeat. destruct C4 as [C4|C4]; [now left | right; lia].
  - right. rewrite rtrim_app_nws by exact W. rewrite !cnl_app, cnl_repeat, (LK_rtrim_cnl _ L). lia.
Qed.

Lemma LP_pad c lo pad : LP c lo -> (exists n, pad = repeat_bytes n x20) -> LP (c ++ pad) lo.
Proof.
  intros (C1 & C2 & C3 & C4) [n ->].
  split; [apply cln_app; [exact C1 | apply cln_repeat]|].
  split; [apply utf8_app; [exact C2 | apply utf8_repeat]|].
  split; [rewrite cnl_app, cnl_repeat; lia|].
  rewrite rtrim_app_ws by apply allws_repeat. exact C4.
Qed.

Lemma LP_skipn c lo k : LP c lo -> is_char_boundary c k = true -> LP (skipn k c) lo.
Proof.
  intros (C1 & C2 & C3 & C4) B.
  split; [now apply cln_skipn|]. split; [now apply skipn_char_boundary|].
  split; [pose proof (cnl_skipn k c); lia|].
  destruct (allws (skipn k c)) eqn:W; [left; now apply rtrim_ws|].
  assert (E : rtrim_slice c = firstn k c ++ rtrim_slice (skipn k c)).
  { rewrite <- (firstn_skipn k c) at 1. now apply rtrim_app_nws. }
  destruct C4 as [C4|C4].
  - left. rewrite C4 in E. symmetry in E. apply app_eq_nil in E. tauto.
  - right. rewrite E, cnl_app in C4. lia.
Qed.

Lemma LP_refdefs fold m c c' hc m' lo : resolve_refdefs fold m c = Ok (c', hc, m') -> LP c lo -> LP c' lo.
Proof.
  unfold resolve_refdefs. intros H L. mstep H. destruct a as [seeked m1]. mstep H. mstep H.
  destruct (Nat.eqb seeked 0); [inversion E0; subst; exact L|].
  destruct (is_char_boundary c seeked) eqn:B; [inversion E0; subst; now apply LP_skipn | discriminate E0].
Qed.

Lemma resolve_refdefs_blank fold m c c' hc m' : resolve_refdefs fold m c = Ok (c', hc, m') -> hc = negb (is_blank c').
Proof. unfold resolve_refdefs. intro H. mstep H. destruct a as [seeked m1]. mstep H. mstep H. reflexivity. Qed.

(* a cell: no LF at all, one offset *)
Lemma LP_cell c off : cln c -> utf8_valid c = true -> cnl c = 0 -> LP c [off].
Proof.
  intros C V N. split; [exact C|]. split; [exact V|]. cbn [List.length]. split; [lia|].
  right. pose proof (cnl_rtrim c). lia.
Qed.

(* the paragraph try_inserting_table_header_paragraph makes of the preface of a table *)
Lemma unescape_pipes_snoc_lf : forall p, unescape_pipes (p ++ [x0a]) = unescape_pipes p ++ [x0a].
Proof.
  induction p as [|c r IH]; [reflexivity|]. cbn [app unescape_pipes]. rewrite IH.
  assert (E : match r ++ [x0a] with d :: _ => beqb d x7c | [] => false end = match r with d :: _ => beqb d x7c | [] => false end)
    by (destruct r; reflexivity).
  rewrite E. destruct (beqb c x5c && _); reflexivity.
Qed.

Lemma LP_preface c lo0 po p lo :
  LP c lo0 -> firstn po c = p ++ [x0a] -> utf8_valid (trim_slice (unescape_pipes (firstn po c))) = true ->
  List.length lo = cnl (unescape_pipes (firstn po c)) ->
  LP (trim_slice (unescape_pipes (firstn po c))) lo.
Proof.
  intros (C1 & _) E V Hl.
  split; [now apply cln_trim, cln_unescape_pipes, cln_firstn|]. split; [exact V|].
  rewrite Hl. split; [apply cnl_trim|]. rewrite trim_rtrim.
  rewrite E, unescape_pipes_snoc_lf. set (y := unescape_pipes p).
  unfold trim_slice, ltrim_slice.
  destruct (forallb sl_isspace y) eqn:W.
  - left. rewrite drop_while_app_all by exact W. reflexivity.
  - right. rewrite drop_while_app_some by exact W. rewrite rtrim_app_ws by reflexivity.
    rewrite cnl_app. change (cnl [x0a]) with 1.
    pose proof (cnl_rtrim (drop_while sl_isspace y)). pose proof (cnl_drop_while sl_isspace y). lia.
Qed.
