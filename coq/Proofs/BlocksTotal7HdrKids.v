(* Proofs/BlocksTotal7HdrKids.v — totality of the block phase, seventh round, the two sites of hdr_sites: the STRUCTURAL
   invariant on child lists the sites need (the per-node scheme is refuted in Proofs/BlocksTotal7HdrLocal.v).

     badb n        n is a Paragraph whose content is neither empty nor LF-terminated (the preface paragraph of a table)
     folb cid t    t is a Table, or (cid = Some c) t is the Paragraph with identifier c (the container that
                   try_opening_header is about to replace by the Table: the state between
                   try_inserting_table_header_paragraph and the replacement)
     good_kids cid l   every bad paragraph of l is immediately followed by a sibling t with folb cid t
     gk cid t      every node of t has good_kids (bkids n);   GK st := gk None (ps_root st)

   Consequence (gk_last_kid_ok, GK_last_child_ok, last_child_is_open_par_ok): under GK a Paragraph that is the LAST
   child of its parent has par_content_ok; the node last_child_is_open answers is such a last child.
   State level, Qed: modify_gk / modify_info_gk (with kc_keep, kc_content, kc_suffix, kc_par_ok, kc_unpar for the new
   info), append_child_gk, bdetach_gk, add_line_gk (premises: the line ends with LF and the cursor, +1 when
   partially_consumed_tab, is inside the line), try_inserting_gk (GK -> GKx (Some c)), try_opening_header_gkx
   (GK -> GKx (Some c) for the function as a whole), try_opening_header_gk (GK -> GK once no Paragraph with identifier
   c is left: gk_back; that premise needs the uniqueness of identifiers).
   NOT DONE: GK through the other functions of the block phase (finalize: kc_suffix + bdetach_gk; setext: kc_unpar;
   add_child: append_child_gk with a node of content []; parse_desc_list_details; try_opening_row: the Table stays a
   Table), the `root or last child` postcondition of check_open_blocks through the handlers that answer not-handled,
   the identifier premises (ispar / nofol / nopar / GI) from TI, and the walk.
   Generic preservation: upd (upd_gk: the changed node keeps `kc`: not bad -> not bad, follower -> follower),
   edit_kids (edit_kids_gk, with an all_info side invariant for the identifiers); state level: modify_info,
   append_child of a node that is not bad, bdetach of a node that is not a follower, try_inserting (GK -> gk (Some c)). *)
From Coq Require Import List NArith Arith Bool Lia Strings.String.
From V Require Import Base.Bytes Base.Res Gen.Nodes Gen.BlocksConst Model.Ast Model.Strings Model.Scan Model.Blocks
  Proofs.StrLeafProofs Proofs.BlocksProofs Proofs.BlocksTotal Proofs.BlocksPos Proofs.BlocksTotal7Hdr.
Import ListNotations.
Local Open Scope string_scope.
Local Open Scope list_scope.

(* ================================================================== par_content_ok as a boolean *)
Definition pco (s : bytes) : bool := match rev s with [] => true | b :: _ => beqb b x0a end.

Lemma pco_ok s : pco s = true <-> par_content_ok s.
Proof.
  unfold pco, par_content_ok, lf_last. split.
  - destruct (rev s) as [|b r] eqn:E; intro H.
    + left. apply (f_equal (@rev byte)) in E. rewrite rev_involutive in E. exact E.
    + right. apply beqb_eq in H. subst b. exists (rev r).
      apply (f_equal (@rev byte)) in E. rewrite rev_involutive in E. exact E.
  - intros [->|[p ->]]; [reflexivity|]. rewrite rev_app_distr. cbn. reflexivity.
Qed.

Definition badb (n : bnode) : bool := is_paragraph n && negb (pco (bi_content (binf n))).
Definition is_tableb (n : bnode) : bool := match bval n with Table _ => true | _ => false end.
Definition folb (cid : option nat) (t : bnode) : bool :=
  is_tableb t || match cid with Some c => is_paragraph t && Nat.eqb (bid t) c | None => false end.

Fixpoint good_kids (cid : option nat) (l : list bnode) : Prop :=
  match l with
  | [] => True
  | x :: r => (badb x = true -> match r with t :: _ => folb cid t = true | [] => False end) /\ good_kids cid r
  end.

Fixpoint gk (cid : option nat) (t : bnode) : Prop :=
  match t with
  | BNode i ch => good_kids cid ch /\ (fix go (l : list bnode) : Prop := match l with [] => True | c :: r => gk cid c /\ go r end) ch
  end.

Lemma gk_node cid i ch : gk cid (BNode i ch) <-> good_kids cid ch /\ Forall (gk cid) ch.
Proof.
  cbn [gk]. split; intros [A B]; (split; [exact A|]).
  - induction ch as [|c r IH]; constructor; [apply B | apply IH; [| apply B]]. cbn [good_kids] in A. apply A.
  - clear A. induction ch as [|c r IH]; [exact I|]. inversion B; subst. split; [assumption | now apply IH].
Qed.

(* the relation a replaced child keeps with the old one *)
Definition kc (cid : option nat) (n n' : bnode) : Prop :=
  (badb n' = true -> badb n = true) /\ (folb cid n = true -> folb cid n' = true).

Lemma kc_refl cid n : kc cid n n. Proof. split; auto. Qed.
Lemma kc_binf cid n n' : binf n' = binf n -> kc cid n n'.
Proof. intro E. unfold kc, badb, folb, is_tableb, is_paragraph, bval, bid. rewrite E. split; auto. Qed.

Lemma good_kids_F2 cid : forall l l', Forall2 (kc cid) l l' -> good_kids cid l -> good_kids cid l'.
Proof.
  induction 1 as [|x x' r r' Kx F IH]; intro G; [exact I|]. cbn [good_kids] in *. destruct G as [G1 G2].
  split; [|now apply IH]. intro B. apply (proj1 Kx) in B. specialize (G1 B).
  destruct F as [|t t' ? ? Kt _]; [exact G1 | exact (proj2 Kt G1)].
Qed.

Lemma F2_refl cid l : Forall2 (kc cid) l l.
Proof. induction l; constructor; [apply kc_refl | assumption]. Qed.

Lemma good_kids_app_one cid c : badb c = false -> forall l, good_kids cid l -> good_kids cid (l ++ [c]).
Proof.
  intros Bc. induction l as [|x r IH]; intro G; cbn [app good_kids] in *.
  - split; [rewrite Bc; discriminate | exact I].
  - destruct G as [G1 G2]. split; [|now apply IH]. intro B. specialize (G1 B). destruct r; [destruct G1 | exact G1].
Qed.

Lemma good_kids_remove cid x post : folb cid x = false -> forall pre, good_kids cid (pre ++ x :: post) -> good_kids cid (pre ++ post).
Proof.
  intros Fx. induction pre as [|y pre IH]; intro G; cbn [app good_kids] in *; [apply G|].
  destruct G as [G1 G2]. split; [|now apply IH]. intro B. specialize (G1 B).
  destruct pre; cbn [app] in *; [rewrite Fx in G1; discriminate G1 | exact G1].
Qed.

Lemma last_opt_snoc {A} (l : list A) x : last_opt l = Some x -> exists p, l = p ++ [x].
Proof.
  unfold last_opt. destruct (rev l) as [|y r] eqn:E; [discriminate|]. intro H. inversion H; subst.
  exists (rev r). apply (f_equal (@rev A)) in E. rewrite rev_involutive in E. exact E.
Qed.

Lemma good_kids_last cid : forall l x, good_kids cid l -> last_opt l = Some x -> badb x = false.
Proof.
  intros l x G L. destruct (last_opt_snoc _ _ L) as [p ->]. clear L.
  induction p as [|y p IH]; cbn [app good_kids] in G.
  - destruct (badb x); [destruct (proj1 G eq_refl) | reflexivity].
  - apply IH, G.
Qed.

(* the consequence: a Paragraph that is a last child has par_content_ok *)
Lemma gk_last_kid_ok cid i ch x :
  gk cid (BNode i ch) -> last_opt ch = Some x -> is_paragraph x = true -> par_content_ok (bi_content (binf x)).
Proof.
  intros G L Px. apply gk_node in G. pose proof (good_kids_last _ _ _ (proj1 G) L) as B.
  unfold badb in B. rewrite Px in B. cbn in B. apply negb_false_iff in B. now apply pco_ok.
Qed.

Lemma find_node_gk cid id t : forall n, gk cid t -> find_node id t = Some n -> gk cid n.
Proof.
  induction t as [i ch IH] using bnode_ind2. intros n A F. cbn [find_node] in F.
  destruct (Nat.eqb (bi_id i) id). { now inversion F; subst. }
  apply gk_node in A. destruct A as [_ A].
  induction ch as [|c r IHr]; [discriminate|].
  inversion IH; subst. inversion A; subst.
  destruct (find_node id c) eqn:E.
  - inversion F; subst. eauto.
  - eauto.
Qed.

(* ================================================================== upd *)
Lemma upd_gk cid id f t : forall t',
  gk cid t -> upd id f t = Some t' ->
  (forall n, find_node id t = Some n -> gk cid n -> gk cid (f n) /\ kc cid n (f n)) ->
  gk cid t' /\ kc cid t t'.
Proof.
  induction t as [i ch IH] using bnode_ind2. intros t' A U Hf. cbn [upd] in U. cbn [find_node] in Hf.
  destruct (Nat.eqb (bi_id i) id). { inversion U; subst. apply Hf; auto. }
  match type of U with match ?g with _ => _ end = _ => destruct g as [ch'|] eqn:G; [|discriminate] end.
  inversion U; subst. clear U. split; [|apply kc_binf; reflexivity].
  apply gk_node in A. destruct A as [Ag A]. apply gk_node.
  assert (R : Forall (gk cid) ch' /\ Forall2 (kc cid) ch ch').
  { clear Ag. revert ch' G Hf. induction ch as [|c r IHr]; intros ch' G Hf; [discriminate|].
    inversion IH as [|? ? IHc IHrest]; subst. inversion A as [|? ? Ac Ar]; subst.
    destruct (upd id f c) as [c'|] eqn:Uc.
    - inversion G; subst.
      destruct (IHc c' Ac eq_refl) as [Gc Kc]; [intros n Fn; apply Hf; now rewrite Fn|].
      split; constructor; auto. apply F2_refl.
    - match type of G with match ?g with _ => _ end = _ => destruct g as [r'|] eqn:Gr; [|discriminate] end.
      inversion G; subst.
      assert (Fc : find_node id c = None) by (eapply upd_none_find; eassumption).
      destruct (IHr IHrest Ar r' eq_refl) as [Gr' Kr]; [intros n Fn; apply Hf; now rewrite Fc|].
      split; constructor; auto. apply kc_refl. }
  destruct R as [R1 R2]. split; [eapply good_kids_F2; eassumption | exact R1].
Qed.

(* ================================================================== edit_kids *)
Lemma edit_kids_binf id g t t' : edit_kids id g t = Some t' -> binf t' = binf t.
Proof.
  destruct t as [i ch]. cbn [edit_kids]. destruct (split_kid id ch) as [[[pre c] post]|]; [intro H; now inversion H|].
  match goal with |- match ?gg with _ => _ end = _ -> _ => destruct gg; [intro H; now inversion H | discriminate] end.
Qed.

Lemma split_kid_bid id : forall l pre c post, split_kid id l = Some (pre, c, post) -> bid c = id.
Proof.
  induction l as [|x r IH]; intros pre c post H; cbn [split_kid] in H; [discriminate|].
  destruct (Nat.eqb (bid x) id) eqn:E; [inversion H; subst; now apply Nat.eqb_eq|].
  destruct (split_kid id r) as [[[p y] q]|]; [|discriminate]. inversion H; subst. eapply IH; reflexivity.
Qed.

Lemma edit_kids_gk (P : binfo -> Prop) cid id g t : forall t',
  gk cid t -> all_info P t -> edit_kids id g t = Some t' ->
  (forall pk pre c post, bid c = id -> Forall (all_info P) (pre ++ c :: post) ->
     good_kids cid (pre ++ c :: post) -> Forall (gk cid) (pre ++ c :: post) ->
     good_kids cid (g pk pre c post) /\ Forall (gk cid) (g pk pre c post)) ->
  gk cid t'.
Proof.
  induction t as [i ch IH] using bnode_ind2. intros t' A AP U Hg. cbn [edit_kids] in U.
  apply gk_node in A. destruct A as [Ag A]. apply all_info_node in AP. destruct AP as [_ AP].
  destruct (split_kid id ch) as [[[pre c] post]|] eqn:S.
  { inversion U; subst. apply gk_node. rewrite (split_kid_eq _ _ _ _ _ S) in Ag, A, AP.
    apply Hg; auto. eapply split_kid_bid; exact S. }
  clear S.
  match type of U with match ?gg with _ => _ end = _ => destruct gg as [ch'|] eqn:G; [|discriminate] end.
  inversion U; subst. clear U. apply gk_node.
  assert (R : Forall (gk cid) ch' /\ Forall2 (kc cid) ch ch').
  { clear Ag. revert ch' G. induction ch as [|c r IHr]; intros ch' G; [discriminate|].
    inversion IH as [|? ? IHc IHrest]; subst. inversion A as [|? ? Ac Ar]; subst. inversion AP as [|? ? Pc Pr]; subst.
    destruct (edit_kids id g c) as [c'|] eqn:Uc.
    - inversion G; subst. split.
      + constructor; [exact (IHc c' Ac Pc eq_refl Hg) | exact Ar].
      + constructor; [apply kc_binf; eapply edit_kids_binf; exact Uc | apply F2_refl].
    - match type of G with match ?gg with _ => _ end = _ => destruct gg as [r'|] eqn:Gr; [|discriminate] end.
      inversion G; subst. destruct (IHr IHrest Ar Pr r' eq_refl) as [Gr' Kr].
      split; constructor; auto. apply kc_refl. }
  destruct R as [R1 R2]. split; [eapply good_kids_F2; eassumption | exact R1].
Qed.

(* ================================================================== the state invariant *)
Inductive GKx (cid : option nat) (st : pstate) : Prop := GKx_intro : gk cid (ps_root st) -> GKx cid st.
Notation GK := (GKx None).
Lemma GKx_gk cid st : GKx cid st -> gk cid (ps_root st). Proof. now intros [H]. Qed.

Lemma GKx_st_next cid st n : GKx cid st -> GKx cid (st_next st n). Proof. intros [H]. constructor. exact H. Qed.
Lemma GKx_st_current cid st n : GKx cid st -> GKx cid (st_current st n). Proof. intros [H]. constructor. exact H. Qed.
Lemma GKx_st_refmap cid st m : GKx cid st -> GKx cid (st_refmap st m). Proof. intros [H]. constructor. exact H. Qed.
Lemma GKx_st_cur cid st c : GKx cid st -> GKx cid (st_cur st c). Proof. intros [H]. constructor. exact H. Qed.
Lemma GKx_st_curline cid st a b : GKx cid st -> GKx cid (st_curline st a b). Proof. intros [H]. constructor. exact H. Qed.
Lemma GKx_st_last_line_length cid st n : GKx cid st -> GKx cid (st_last_line_length st n). Proof. intros [H]. constructor. exact H. Qed.
Lemma GKx_st_line_number cid st n : GKx cid st -> GKx cid (st_line_number st n). Proof. intros [H]. constructor. exact H. Qed.

Lemma get_gk cid st id n : GKx cid st -> get st id = Ok n -> gk cid n.
Proof. intros [A] G. apply get_find in G. exact (find_node_gk _ _ _ _ A G). Qed.

(* the consequence at the state level: the last child of a node of the tree, when a Paragraph, has par_content_ok *)
Theorem GK_last_child_ok cid st pid p x :
  GKx cid st -> get st pid = Ok p -> last_opt (bkids p) = Some x -> is_paragraph x = true ->
  par_content_ok (bi_content (binf x)).
Proof. intros P G L Px. destruct p as [i ch]. eapply gk_last_kid_ok; [eapply get_gk; eassumption | exact L | exact Px]. Qed.

Lemma modify_gk cid st id f st' :
  GKx cid st -> modify st id f = Ok st' ->
  (forall n, find_node id (ps_root st) = Some n -> gk cid n -> gk cid (f n) /\ kc cid n (f n)) -> GKx cid st'.
Proof.
  unfold modify. intros [A] M Hf. destruct (upd id f (ps_root st)) as [r|] eqn:U; [|discriminate].
  inversion M; subst. constructor. cbn. exact (proj1 (upd_gk _ _ _ _ _ A U Hf)).
Qed.

(* a change of the info: the kids stay; what is needed is kc on the node *)
Lemma modify_info_gk cid st id f st' :
  modify_info st id f = Ok st' ->
  (forall i ch, find_node id (ps_root st) = Some (BNode i ch) -> kc cid (BNode i ch) (BNode (f i) ch)) ->
  GKx cid st -> GKx cid st'.
Proof.
  intros M Hf P. eapply modify_gk; [exact P | exact M |].
  intros [i ch] F G. cbn [on_info]. split; [|now apply Hf]. apply gk_node in G. now apply gk_node.
Qed.

(* setters that keep value, content and identifier (set_llb, set_open, set_start, set_end, set_tv, set_lo, set_ioff) *)
Lemma kc_keep cid i i' ch : bi_val i' = bi_val i -> bi_content i' = bi_content i -> bi_id i' = bi_id i ->
  kc cid (BNode i ch) (BNode i' ch).
Proof.
  intros Ev Ec Ei. unfold kc, badb, folb, is_tableb, is_paragraph, bval, bid. cbn [binf]. rewrite Ev, Ec, Ei. split; auto.
Qed.

(* a Paragraph whose new content is ok (add_line with offset < |line|; a suffix of an ok content) *)
Lemma kc_par_ok cid i i' ch : bi_val i = Paragraph -> bi_val i' = Paragraph -> bi_id i' = bi_id i ->
  par_content_ok (bi_content i') -> kc cid (BNode i ch) (BNode i' ch).
Proof.
  intros Ev Ev' Ei Ok'. apply pco_ok in Ok'. unfold kc, badb, folb, is_tableb, is_paragraph, bval, bid. cbn [binf].
  rewrite Ev, Ev', Ei, Ok'. cbn. split; [discriminate | auto].
Qed.

(* a node that stops being a Paragraph and was no Table (setext: Paragraph -> Heading): fine unless it is the awaited follower *)
Lemma kc_unpar i i' ch : bi_val i = Paragraph -> is_paragraph (BNode i' ch) = false -> kc None (BNode i ch) (BNode i' ch).
Proof.
  intros Ev Np. unfold kc, badb, folb, is_tableb, bval. cbn [binf]. rewrite Np, Ev. cbn. split; discriminate.
Qed.

Lemma append_child_gk cid st pid c st' :
  append_child st pid c = Ok st' -> gk cid c -> badb c = false -> GKx cid st -> GKx cid st'.
Proof.
  unfold append_child. intros M Gc Bc P. eapply modify_gk; [exact P | exact M |].
  intros [i ch] _ G. split; [|apply kc_binf; reflexivity].
  apply gk_node in G. destruct G as [G1 G2]. apply gk_node. split; [now apply good_kids_app_one|].
  apply Forall_app. split; [exact G2 | constructor; [exact Gc | constructor]].
Qed.

(* bdetach of a node that is not an awaited follower (the model detaches Paragraphs only; cid = None: not a Table) *)
Definition nofol (cid : option nat) (id : nat) (i : binfo) : Prop := bi_id i = id -> folb cid (BNode i []) = false.
Lemma folb_binf cid t : folb cid t = folb cid (BNode (binf t) []).
Proof. destruct t. reflexivity. Qed.

Lemma bdetach_gk cid st id st' :
  bdetach st id = Ok st' -> all_info (nofol cid id) (ps_root st) -> GKx cid st -> GKx cid st'.
Proof.
  unfold bdetach. intros D N P.
  destruct (edit_kids id (fun _ pre _ post => pre ++ post) (ps_root st)) as [r|] eqn:E; [|inversion D; subst; exact P].
  inversion D; subst. constructor. cbn. destruct P as [A].
  eapply edit_kids_gk; [exact A | exact N | exact E |].
  intros pk pre c post Eb Pn G1 G2. cbv beta.
  assert (Fc : folb cid c = false).
  { rewrite folb_binf. apply Forall_app in Pn. destruct Pn as [_ Pn]. inversion Pn as [|? ? Pc _].
    apply all_info_binf in Pc. apply Pc. exact Eb. }
  split; [eapply good_kids_remove; eassumption|].
  apply Forall_app in G2. destruct G2 as [G2 G3]. inversion G3; subst. apply Forall_app. split; assumption.
Qed.

(* ================================================================== cid: None -> Some c -> None *)
Lemma folb_mono c t : folb None t = true -> folb (Some c) t = true.
Proof. unfold folb. rewrite orb_false_r. intros ->. reflexivity. Qed.
Lemma good_kids_mono c : forall l, good_kids None l -> good_kids (Some c) l.
Proof.
  induction l as [|x r IH]; intro G; [exact I|]. cbn [good_kids] in *. destruct G as [G1 G2]. split; [|now apply IH].
  intro B. specialize (G1 B). destruct r; [exact G1 | now apply folb_mono].
Qed.
Lemma gk_mono c : forall t, gk None t -> gk (Some c) t.
Proof.
  induction t as [i ch IH] using bnode_ind2. rewrite !gk_node. intros [A B]. split; [now apply good_kids_mono|].
  rewrite Forall_forall in *. intros x Hx. apply IH; [exact Hx | now apply B].
Qed.

(* back: no Paragraph with identifier c is left (try_opening_header has replaced it by the Table) *)
Definition nopar (c : nat) (i : binfo) : Prop := bi_id i = c -> bi_val i <> Paragraph.
Lemma folb_back c t : nopar c (binf t) -> folb (Some c) t = true -> folb None t = true.
Proof.
  unfold folb, nopar, is_paragraph, bval, bid. intros N H. rewrite orb_false_r.
  destruct (is_tableb t); [reflexivity|]. cbn in H. apply andb_prop in H. destruct H as [H1 H2].
  apply Nat.eqb_eq in H2. specialize (N H2). destruct (bi_val (binf t)); try discriminate H1. now elim N.
Qed.
Lemma good_kids_back c : forall l, Forall (all_info (nopar c)) l -> good_kids (Some c) l -> good_kids None l.
Proof.
  induction l as [|x r IH]; intros N G; [exact I|]. cbn [good_kids] in *. destruct G as [G1 G2]. inversion N; subst.
  split; [|now apply IH]. intro B. specialize (G1 B). destruct r as [|t r']; [exact G1|].
  match goal with H : Forall _ (t :: r') |- _ => inversion H; subst end.
  eapply folb_back; [apply (all_info_binf (nopar c)); eassumption | exact G1].
Qed.
Lemma gk_back c : forall t, all_info (nopar c) t -> gk (Some c) t -> gk None t.
Proof.
  induction t as [i ch IH] using bnode_ind2. rewrite !gk_node, all_info_node. intros [_ N] [A B].
  split; [now apply (good_kids_back c)|].
  rewrite Forall_forall in *. intros x Hx. apply IH; [exact Hx | now apply N | now apply B].
Qed.

(* ================================================================== the two edits of try_opening_header *)
Lemma is_par_not_table x : is_paragraph x = true -> is_tableb x = false.
Proof. unfold is_paragraph, is_tableb. destruct (bval x); try discriminate; reflexivity. Qed.

(* try_inserting_table_header_paragraph: the preface is put right before the container *)
Lemma good_kids_insert c para x post : is_paragraph x = true -> bid x = c ->
  forall pre, good_kids None (pre ++ x :: post) -> good_kids (Some c) (pre ++ para :: x :: post).
Proof.
  intros Px Ex. induction pre as [|y pre IH]; intro G; cbn [app] in *.
  - cbn [good_kids]. split; [|now apply (good_kids_mono c (x :: post))].
    intros _. unfold folb. rewrite Px, Ex, Nat.eqb_refl. apply orb_true_r.
  - cbn [good_kids] in G |- *. destruct G as [G1 G2]. split; [|now apply IH].
    intro B. specialize (G1 B). destruct pre; cbn [app] in *.
    + exfalso. unfold folb in G1. rewrite orb_false_r, (is_par_not_table _ Px) in G1. discriminate G1.
    + now apply folb_mono.
Qed.

(* the replacement of the container by the Table *)
Lemma good_kids_put_table cid x t pre post : is_tableb t = true ->
  good_kids cid (pre ++ x :: post) -> good_kids cid (pre ++ t :: post).
Proof.
  intros Tt G. eapply good_kids_F2; [|exact G].
  apply Forall2_app; [apply F2_refl|]. constructor; [|apply F2_refl].
  split; [|intros _; unfold folb; now rewrite Tt].
  unfold badb, is_paragraph, is_tableb in *. destruct (bval t); try discriminate Tt. discriminate.
Qed.

(* edit_kids from cid = None to cid = Some c (the callback sees the None facts) *)
Lemma edit_kids_gk_ns (P : binfo -> Prop) c id g t : forall t',
  gk None t -> all_info P t -> edit_kids id g t = Some t' ->
  (forall pk pre x post, bid x = id -> Forall (all_info P) (pre ++ x :: post) ->
     good_kids None (pre ++ x :: post) -> Forall (gk None) (pre ++ x :: post) ->
     good_kids (Some c) (g pk pre x post) /\ Forall (gk (Some c)) (g pk pre x post)) ->
  gk (Some c) t'.
Proof.
  induction t as [i ch IH] using bnode_ind2. intros t' A AP U Hg. cbn [edit_kids] in U.
  apply gk_node in A. destruct A as [Ag A]. apply all_info_node in AP. destruct AP as [_ AP].
  destruct (split_kid id ch) as [[[pre x] post]|] eqn:S.
  { inversion U; subst. apply gk_node. rewrite (split_kid_eq _ _ _ _ _ S) in Ag, A, AP.
    apply Hg; auto. eapply split_kid_bid; exact S. }
  clear S.
  match type of U with match ?gg with _ => _ end = _ => destruct gg as [ch'|] eqn:G; [|discriminate] end.
  inversion U; subst. clear U. apply gk_node.
  assert (R : Forall (gk (Some c)) ch' /\ Forall2 (kc (Some c)) ch ch').
  { clear Ag. revert ch' G. induction ch as [|y r IHr]; intros ch' G; [discriminate|].
    inversion IH as [|? ? IHc IHrest]; subst. inversion A as [|? ? Ac Ar]; subst. inversion AP as [|? ? Pc Pr]; subst.
    destruct (edit_kids id g y) as [y'|] eqn:Uc.
    - inversion G; subst. split.
      + constructor; [exact (IHc y' Ac Pc eq_refl Hg)|]. rewrite Forall_forall in *. intros z Hz. apply gk_mono. now apply Ar.
      + constructor; [apply kc_binf; eapply edit_kids_binf; exact Uc | apply F2_refl].
    - match type of G with match ?gg with _ => _ end = _ => destruct gg as [r'|] eqn:Gr; [|discriminate] end.
      inversion G; subst. destruct (IHr IHrest Ar Pr r' eq_refl) as [Gr' Kr].
      split; constructor; auto; [now apply gk_mono | apply kc_refl]. }
  destruct R as [R1 R2]. split; [eapply good_kids_F2; [exact R2 | now apply good_kids_mono] | exact R1].
Qed.

Definition ispar (c : nat) (i : binfo) : Prop := bi_id i = c -> bi_val i = Paragraph.

(* try_inserting_table_header_paragraph: GK before, the intermediate invariant (follower = the container c) after *)
Lemma try_inserting_gk st c po st' :
  try_inserting_table_header_paragraph st c po = Ok st' ->
  all_info (ispar c) (ps_root st) -> GK st -> GKx (Some c) st' /\ all_info (ispar c) (ps_root st').
Proof.
  unfold try_inserting_table_header_paragraph. intros H Hp P.
  assert (P' : GKx (Some c) st /\ all_info (ispar c) (ps_root st)).
  { split; [constructor; apply gk_mono; apply P | exact Hp]. }
  destruct (get st c) as [cn| |] eqn:G; cbn [bind] in H; try discriminate H.
  mstep H; [discriminate H|]. cbv zeta in H. rewrite trim_ok in H. cbn [bind] in H.
  mon H; monall; try exact P'.
  match goal with M : modify_info _ _ _ = Ok ?s |- _ => assert (P1 : gk None (ps_root s) /\ all_info (ispar c) (ps_root s)) end.
  { match goal with M : modify_info _ _ _ = Ok _ |- _ => unfold modify_info, modify in M;
      match type of M with match ?u with _ => _ end = _ => destruct u as [r0|] eqn:U; [|discriminate M] end;
      inversion M; subst; cbn [ps_root st_root] end.
    destruct P as [A]. split.
    - refine (proj1 (upd_gk _ _ _ _ _ A U _)). intros [i0 ch0] _ G0. cbn [on_info].
      split; [apply gk_node in G0; now apply gk_node | apply kc_keep; reflexivity].
    - eapply upd_all; [exact Hp | exact U |].
      intros [i0 ch0] _ An. cbn [on_info]. apply all_info_node in An. apply all_info_node.
      split; [|apply An]. destruct An as [An _]. unfold ispar in *. cbn. exact An. }
  destruct P1 as [G1 N1]. split.
  - constructor. cbn [ps_root st_root]. eapply edit_kids_gk_ns; [exact G1 | exact N1 | eassumption |].
    intros pk pre x post Ex Pn K1 K2. cbv beta.
    destruct (can_contain pk KParagraph).
    + assert (Px : is_paragraph x = true).
      { apply Forall_app in Pn. destruct Pn as [_ Pn]. inversion Pn as [|? ? Pc _]. apply all_info_binf in Pc.
        unfold is_paragraph, bval. rewrite (Pc Ex). reflexivity. }
      split; [cbn [app]; now apply good_kids_insert|].
      apply Forall_app in K2. destruct K2 as [K2 K3]. apply Forall_app. split.
      * rewrite Forall_forall in *. intros z Hz. apply gk_mono. now apply K2.
      * cbn [app]. constructor; [apply gk_node; split; [exact I | constructor]|].
        rewrite Forall_forall in *. intros z Hz. apply gk_mono. now apply K3.
    + split; [now apply good_kids_mono|]. rewrite Forall_forall in *. intros z Hz. apply gk_mono. now apply K2.
  - cbn [ps_root st_root]. eapply edit_kids_all; [exact N1 | eassumption |].
    intros pk pre x post K. cbv beta. destruct (can_contain pk KParagraph); [|exact K].
    apply Forall_app in K. destruct K as [K1 K2]. apply Forall_app. split; [exact K1|].
    cbn [app]. constructor; [|exact K2]. apply all_info_node. split; [|constructor].
    unfold ispar. cbn. reflexivity.
Qed.

Lemma all_info_true : forall t, all_info (fun _ => True) t.
Proof.
  induction t as [i ch IH] using bnode_ind2. apply all_info_node. split; [exact I|]. exact IH.
Qed.

Lemma good_kids_nobad cid : forall l, Forall (fun n => badb n = false) l -> good_kids cid l.
Proof.
  induction 1 as [|x r Bx _ IH]; [exact I|]. cbn [good_kids]. split; [rewrite Bx; discriminate | exact IH].
Qed.

Lemma header_cells_gk cid : forall cells id ln sl sc po l,
  header_cells cells id ln sl sc po = Ok l -> Forall (fun n => badb n = false) l /\ Forall (gk cid) l.
Proof.
  induction cells as [|c r IH]; intros id ln sl sc po l H; cbn [header_cells] in H.
  - inversion H. split; constructor.
  - mon H. match goal with E : header_cells _ _ _ _ _ _ = Ok _ |- _ => destruct (IH _ _ _ _ _ _ E) as [A B] end.
    split; constructor; auto. apply gk_node. split; [exact I | constructor].
Qed.

(* try_opening_header as a whole: from GK to the intermediate invariant with follower c; GK again as soon as no
   Paragraph with identifier c is left (gk_back: the container has been replaced; needs the uniqueness of c) *)
Lemma try_opening_header_gkx o st c line r st' :
  try_opening_header o st c line = Ok (r, st') -> all_info (ispar c) (ps_root st) -> GK st -> GKx (Some c) st'.
Proof.
  unfold try_opening_header, adv. intros H Hp P.
  assert (P' : GKx (Some c) st) by (constructor; apply gk_mono; apply P).
  mon H; monall; try exact P';
  match goal with
  | I : try_inserting_table_header_paragraph _ _ _ = Ok ?s |- _ =>
    assert (P1 : GKx (Some c) s) by (exact (proj1 (try_inserting_gk _ _ _ _ I Hp P)))
  | _ => pose proof P' as P1
  end;
  (constructor; cbn [ps_root st_root st_cur st_next];
   eapply (edit_kids_gk (fun _ => True)); [ | apply all_info_true | eassumption | ];
   [cbn [ps_root st_root st_cur st_next]; apply P1 | ]);
  intros pk pre x post _ _ K1 K2; cbv beta; (destruct (is_paragraph x); [|split; assumption]);
  match goal with E : header_cells _ _ _ _ _ _ = Ok _ |- _ => destruct (header_cells_gk (Some c) _ _ _ _ _ _ _ E) as [A B] end;
  (split; [cbn [app]; eapply good_kids_put_table; [reflexivity | exact K1]|]);
  apply Forall_app in K2; destruct K2 as [K2 K3]; inversion K3; subst;
  apply Forall_app; (split; [exact K2|]); cbn [app]; (constructor; [|assumption]);
  apply gk_node; (split; [apply good_kids_nobad; constructor; [reflexivity | constructor]|]);
  (constructor; [|constructor]); apply gk_node; (split; [now apply good_kids_nobad | exact B]).
Qed.

Theorem try_opening_header_gk o st c line r st' :
  try_opening_header o st c line = Ok (r, st') -> all_info (ispar c) (ps_root st) ->
  all_info (nopar c) (ps_root st') -> GK st -> GK st'.
Proof.
  intros H Hp Hn P. constructor. apply (gk_back c); [exact Hn|]. apply GKx_gk. eapply try_opening_header_gkx; eassumption.
Qed.

(* ================================================================== add_line, finalize's content step *)
(* same value and identifier; when a Paragraph, the new content is ok *)
Lemma kc_content cid i i' ch : bi_val i' = bi_val i -> bi_id i' = bi_id i ->
  (bi_val i = Paragraph -> par_content_ok (bi_content i')) -> kc cid (BNode i ch) (BNode i' ch).
Proof.
  intros Ev Ei Hc. unfold kc, badb, folb, is_tableb, is_paragraph, bval, bid. cbn [binf]. rewrite Ev, Ei.
  split; [|auto]. destruct (bi_val i) eqn:V; try discriminate. apply pco_ok in Hc; [|reflexivity]. rewrite Hc. discriminate.
Qed.

(* same value and identifier; the new content is a suffix of the old one (resolve_reference_link_definitions) *)
Lemma kc_suffix cid i i' ch k : bi_val i' = bi_val i -> bi_id i' = bi_id i ->
  bi_content i' = skipn k (bi_content i) -> kc cid (BNode i ch) (BNode i' ch).
Proof.
  intros Ev Ei Ec. unfold kc, badb, folb, is_tableb, is_paragraph, bval, bid. cbn [binf]. rewrite Ev, Ei, Ec.
  split; [|auto]. destruct (bi_val i); try discriminate. cbn [andb]. intro B.
  destruct (pco (bi_content i)) eqn:Pc; [|reflexivity]. apply pco_ok in Pc. apply (par_content_ok_skipn k) in Pc.
  apply pco_ok in Pc. rewrite Pc in B. discriminate B.
Qed.

(* add_line with the cursor inside the line: the new content ends with LF *)
Lemma add_line_gk cid st id line st' :
  add_line st id line = Ok st' -> lf_last line ->
  (if c_pct (ps_cur st) then S (c_offset (ps_cur st)) else c_offset (ps_cur st)) < List.length line ->
  GKx cid st -> GKx cid st'.
Proof.
  unfold add_line. intros H LF Hlt P.
  destruct (get st id) as [n| |] eqn:G; cbn [bind] in H; try discriminate H.
  destruct (negb (bi_open (binf n))); [discriminate H|]. cbv zeta in H. apply get_find in G.
  destruct (c_pct (ps_cur st)); cbv iota beta in H;
  (match type of H with context [Nat.ltb ?a ?b] =>
     replace (Nat.ltb a b) with true in H by (symmetry; apply Nat.ltb_lt; cbn; exact Hlt) end;
   mstep H; mon E;
   match goal with U : Blocks.from_utf8 _ _ = Ok _ |- _ =>
     unfold Blocks.from_utf8 in U; match type of U with (if ?bb then _ else _) = _ => destruct bb; [|discriminate U] end;
     inversion U; subst end;
   mon H; apply GKx_st_cur;
   (eapply modify_info_gk; [eassumption | | exact P]);
   intros i0 ch0 F0; rewrite G in F0; inversion F0; subst; cbn [binf];
   apply kc_content; [reflexivity | reflexivity |]; intros _; cbn [bi_content set_lo set_content];
   right; apply lf_last_app;
   first [exact (lf_last_skipn_lt (S (c_offset (ps_cur st))) line LF Hlt) | exact (lf_last_skipn_lt (c_offset (ps_cur st)) line LF Hlt)]).
Qed.

(* ================================================================== what check_open_blocks_inner follows *)
(* the node last_child_is_open answers is a last child: under GK, when a Paragraph, its content is ok *)
Theorem last_child_is_open_par_ok cid st p c :
  GKx cid st -> last_child_is_open st p = Ok (Some c) ->
  exists pn x, get st p = Ok pn /\ last_opt (bkids pn) = Some x /\ bid x = c /\
               (is_paragraph x = true -> par_content_ok (bi_content (binf x))).
Proof.
  unfold last_child_is_open, last_child. intros P H.
  destruct (get st p) as [pn| |] eqn:G; cbn [bind] in H; try discriminate H.
  destruct (last_opt (bkids pn)) as [x|] eqn:L; [|discriminate H].
  destruct (bi_open (binf x)); [|discriminate H]. inversion H; subst.
  exists pn, x. repeat split; auto. intro Px. eapply GK_last_child_ok; eassumption.
Qed.
