(* Proofs/FootnoteNumbers.v — "footnotes are numbered 1..n", the definition side: the map entries process_footnotes
   appends (the numbered entries, sorted by number) carry the numbers 1, 2, .., n in this order, n = the counter at the end
   of the reference walk.  Hence the k-th appended definition is the one the references numbered k point at. *)
From Coq Require Import List NArith Bool Lia Permutation Sorted.
From V Require Import Base.Bytes Model.Ast Model.Footnotes Spec.FootnoteSpec
  Proofs.FootnoteProofs Proofs.FootnoteOrder.
Import ListNotations.
Local Open Scope list_scope.

(* a list of entries sorted by number, with pairwise distinct numbers that are exactly the interval [a, b) *)
Lemma sorted_range (l : list fdef) : forall a b,
  StronglySorted le_ix l -> NoDup (map f_ix l) ->
  (forall f, In f l -> exists i, f_ix f = Some i /\ (a <= i < b)%N) ->
  (forall i, (a <= i < b)%N -> In (Some i) (map f_ix l)) ->
  map f_ix l = map Some (nseq a (N.to_nat (b - a))).
Proof.
  induction l as [|f r IH]; intros a b St ND Rg Sj.
  - destruct (N.lt_ge_cases a b) as [Hab|Hab].
    + exfalso. apply (Sj a). lia.
    + replace (N.to_nat (b - a)) with O by lia. reflexivity.
  - inversion St as [|? ? Sr Fr]; subst. cbn [map] in ND. inversion ND as [|? ? Nf Nr]; subst.
    destruct (Rg f (or_introl eq_refl)) as [i0 [E0 R0]].
    assert (i0 = a) as ->.
    { assert (In (Some a) (map f_ix (f :: r))) as Ha by (apply Sj; lia).
      cbn [map In] in Ha. destruct Ha as [Ha|Ha].
      - rewrite E0 in Ha. injection Ha as ->. reflexivity.
      - apply in_map_iff in Ha. destruct Ha as [g [Eg Hg]].
        rewrite Forall_forall in Fr. specialize (Fr g Hg). unfold le_ix in Fr. rewrite E0, Eg in Fr.
        cbn [ix_le] in Fr. apply N.leb_le in Fr. lia. }
    replace (N.to_nat (b - a)) with (S (N.to_nat (b - (a + 1)))) by lia.
    cbn [map nseq]. rewrite E0. f_equal.
    apply IH; [exact Sr | exact Nr | |].
    + intros g Hg. destruct (Rg g (or_intror Hg)) as [j [Ej Rj]]. exists j. split; [exact Ej|].
      assert (j <> a).
      { intro X. subst j. apply Nf. rewrite E0, <- Ej. apply in_map. exact Hg. }
      lia.
    + intros i Hi. assert (In (Some i) (map f_ix (f :: r))) as H by (apply Sj; lia).
      cbn [map In] in H. destruct H as [H|H]; [|exact H]. rewrite E0 in H. injection H as <-. lia.
Qed.

Lemma nth_error_nseq len : forall a j, (j < len)%nat -> nth_error (nseq a len) j = Some (a + N.of_nat j)%N.
Proof.
  induction len as [|len IH]; intros a j H; [lia|].
  destruct j as [|j]; cbn [nseq nth_error].
  - f_equal. lia.
  - rewrite IH by lia. f_equal. lia.
Qed.

Section Numbers.
  Variable fold : bytes -> bytes.
  Variable pres : bytes -> bytes.
  Variable perm : list fdef -> list fdef.
  Hypothesis perm_ok : forall m, Permutation (perm m) m.

  (* the numbered entries in the order process appends them *)
  Definition numbered (m : fmap) : list fdef := filter has_ix (sort_by_ix (perm m)).

  Lemma numbered_perm m : Permutation (numbered m) (filter has_ix m).
  Proof. unfold numbered. apply filter_perm. etransitivity; [apply sort_by_ix_perm | apply perm_ok]. Qed.

  Lemma numbered_numbers (st : fmap * N) : inv st ->
    map f_ix (numbered (fst st)) = map Some (nseq 1 (N.to_nat (snd st))).
  Proof.
    intros [ND [BD SJ]].
    assert (Permutation (map f_ix (numbered (fst st))) (ixs (fst st))) as P
      by (apply Permutation_map, numbered_perm).
    replace (N.to_nat (snd st)) with (N.to_nat ((snd st + 1) - 1)) by lia.
    apply sorted_range.
    - apply appended_order_sorted.
    - eapply Permutation_NoDup; [apply Permutation_sym, P | exact ND].
    - intros f Hf. rewrite Forall_forall in BD.
      destruct (BD (f_ix f)) as [i [Ei Hi]].
      { eapply Permutation_in; [exact P|]. apply in_map. exact Hf. }
      exists i. split; [exact Ei | lia].
    - intros i Hi. eapply Permutation_in; [apply Permutation_sym, P|]. apply SJ. lia.
  Qed.

  (* the k-th appended entry carries the number k *)
  Lemma numbered_nth (st : fmap * N) k : inv st -> (1 <= k <= snd st)%N ->
    exists f, nth_error (numbered (fst st)) (N.to_nat (k - 1)) = Some f /\ f_ix f = Some k.
  Proof.
    intros I Hk. pose proof (numbered_numbers st I) as E.
    assert (nth_error (map f_ix (numbered (fst st))) (N.to_nat (k - 1)) = Some (Some k)) as H.
    { rewrite E, nth_error_map, nth_error_nseq by lia. cbn [option_map]. do 2 f_equal. lia. }
    rewrite nth_error_map in H. destruct (nth_error (numbered (fst st)) (N.to_nat (k - 1))) as [f|]; [|discriminate].
    cbn [option_map] in H. injection H as H. exists f. split; [reflexivity | exact H].
  Qed.

  Theorem appended_numbers_1_to_n root :
    let r := refs fold pres root (collect fold pres (top_defs root) 0 [], 0%N) in
    map f_ix (numbered (fst (snd r))) = map Some (nseq 1 (N.to_nat (snd (snd r)))).
  Proof. cbv zeta. apply numbered_numbers, inv_after_walk. Qed.
End Numbers.
