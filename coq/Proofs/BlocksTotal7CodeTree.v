(* Proofs/BlocksTotal7CodeTree.v — the code block sites, part 4: tree arguments (containment SV + pairwise distinct
   identifiers TI).  A node that is the PARENT of some node is not a CodeBlock (a CodeBlock contains nothing):
   reopen_ast_nodes, which sets `open` on a DescriptionList and on its ancestors, keeps the invariant CX. *)
From Coq Require Import List NArith Arith Bool Lia Strings.String.
From V Require Import Base.Bytes Base.Res Gen.Nodes Gen.BlocksConst Model.Ast Model.Strings Model.Blocks
  Proofs.BlocksProofs Proofs.BlocksPos Proofs.ParserShapeBlocks Proofs.ParserShapeTree Proofs.ParserShapeTabPrim Proofs.ParserShapeTables
  Proofs.BlocksTotal4Safe Proofs.BlocksTotal7CodeFin Proofs.BlocksTotal7CodeInv.
From V Require Proofs.BlocksTotal2Tree Proofs.BlocksTotal.
Import ListNotations.
Local Open Scope string_scope.
Local Open Scope list_scope.

Lemma parent_noncode o ex st x p n :
  TI o ex st -> SV st -> parent_of x (ps_root st) = Some p -> get st p = Ok n -> noncode (bval n) = true.
Proof.
  intros T V Pp G. destruct (BlocksTotal2Tree.parent_of_kid _ _ _ Pp) as (pn & c & Hs & Bp & Hc & _).
  pose proof (find_node_unique _ _ (TI_distinct _ _ _ T) Hs) as F. rewrite Bp in F.
  apply get_find in G. rewrite F in G. inversion G; subst n.
  assert (Vp : tvalid pn = true) by (eapply find_node_valid; [exact V | exact F]).
  destruct pn as [i ch]. apply tvalid_node in Vp. destruct Vp as [Va _]. cbn [bkids] in Hc.
  rewrite forallb_forall in Va. specialize (Va c Hc). unfold allowed in Va. unfold bval. cbn [binf].
  destruct (bi_val i); try reflexivity. cbn [kind_of] in Va. destruct (bkind c); discriminate Va.
Qed.

Lemma set_open_TI o ex st id st1 : modify_info st id (set_open true) = Ok st1 -> TI o ex st -> TI o ex st1.
Proof. intros H V. tigo H. Qed.
Lemma set_open_SV st id st1 : modify_info st id (set_open true) = Ok st1 -> SV st -> SV st1.
Proof. intros H V. eapply modify_info_valid; [exact V | exact H |]. intros n _. destruct (binf n); reflexivity. Qed.

Lemma set_open_cx e st id st1 :
  modify_info st id (set_open true) = Ok st1 -> (forall n, get st id = Ok n -> noncode (bval n) = true) -> CX e st -> CX e st1.
Proof.
  intros M Hn P. eapply modify_cx; [exact P | exact M |].
  intros n Fn An. assert (G : get st id = Ok n) by (unfold get; now rewrite Fn). specialize (Hn n G).
  destruct n as [i ch]. cbn [on_info]. apply all_info_node in An. apply all_info_node. split; [|apply An].
  apply Cx_trivial. unfold bval in Hn. cbn [binf] in Hn. destruct i; exact Hn.
Qed.

Lemma reopen_cx_tree e o ex : forall fuel st id st', reopen_ast_nodes fuel st id = Ok st' ->
  TI o ex st -> SV st -> (forall n, get st id = Ok n -> noncode (bval n) = true) -> CX e st -> CX e st'.
Proof.
  induction fuel as [|f IH]; intros st id st' H T V Hn P; cbn [reopen_ast_nodes] in H; [discriminate H|].
  destruct (modify_info st id (set_open true)) as [s1| |] eqn:M; cbn [bind] in H; try discriminate H.
  pose proof (set_open_cx _ _ _ _ M Hn P) as P1.
  pose proof (set_open_TI _ _ _ _ _ M T) as T1. pose proof (set_open_SV _ _ _ M V) as V1.
  destruct (parent_of id (ps_root s1)) as [p|] eqn:Pp; [|inversion H; subst; exact P1].
  eapply IH; [exact H | exact T1 | exact V1 | | exact P1].
  intros n G. eapply parent_noncode; eassumption.
Qed.

(* ================================================================== the closing loop while the exception is active
   KE e F st: the node with the identifier e (the fresh code block) is a CodeBlock — per node, kept by finalize.
   finalize_up_to starts at self.current (<> e) and moves to PARENTS: a parent is not a CodeBlock, so it is not e. *)
Definition codeflag (v : node_value) : option bool := match v with CodeBlock cb => Some (cb_fenced cb) | _ => None end.
Definition Ke (e : nat) (F : bool) (i : binfo) : Prop := bi_id i = e -> codeflag (bi_val i) = Some F.
Inductive KE (e : nat) (F : bool) (st : pstate) : Prop := KE_intro : all_info (Ke e F) (ps_root st) -> KE e F st.

Lemma KE_st_current e F st n : KE e F st -> KE e F (st_current st n). Proof. intros [H]. constructor. exact H. Qed.
Lemma KE_st_refmap e F st m : KE e F st -> KE e F (st_refmap st m). Proof. intros [H]. constructor. exact H. Qed.
Lemma KE_st_cur e F st c : KE e F st -> KE e F (st_cur st c). Proof. intros [H]. constructor. exact H. Qed.

Lemma get_ke e F st id n : KE e F st -> get st id = Ok n -> Ke e F (binf n).
Proof. intros [A] G. apply get_find in G. apply all_info_binf. exact (find_node_all _ _ _ _ A G). Qed.

Lemma modify_ke e F st id f st' :
  KE e F st -> modify st id f = Ok st' ->
  (forall n, find_node id (ps_root st) = Some n -> all_info (Ke e F) n -> all_info (Ke e F) (f n)) -> KE e F st'.
Proof.
  unfold modify. intros [A] M Hf. destruct (upd id f (ps_root st)) as [r|] eqn:U; [|discriminate].
  inversion M; subst. constructor. cbn. exact (upd_all _ _ _ _ _ A U Hf).
Qed.

Lemma modify_info_get_ke e F st id n f st' :
  modify_info st id f = Ok st' -> get st id = Ok n -> (Ke e F (binf n) -> Ke e F (f (binf n))) -> KE e F st -> KE e F st'.
Proof.
  intros M G Hf P. eapply modify_ke; [exact P | exact M |].
  intros m Fm Am. apply get_find in G. rewrite G in Fm. inversion Fm; subst m.
  destruct n as [i ch]. cbn [on_info binf] in *. apply all_info_node in Am. apply all_info_node.
  split; [apply Hf; apply Am | apply Am].
Qed.

Lemma modify_info_ke e F st id f st' :
  modify_info st id f = Ok st' -> (forall i, Ke e F i -> Ke e F (f i)) -> KE e F st -> KE e F st'.
Proof.
  intros M Hf P. eapply modify_ke; [exact P | exact M |].
  intros n _ An. destruct n as [i ch]. cbn [on_info]. apply all_info_node in An. apply all_info_node.
  split; [apply Hf; apply An | apply An].
Qed.

Lemma bdetach_ke e F st id st' : bdetach st id = Ok st' -> KE e F st -> KE e F st'.
Proof.
  unfold bdetach. intros D [A].
  destruct (edit_kids id (fun _ pre _ post => pre ++ post) (ps_root st)) as [r|] eqn:E.
  - inversion D; subst. constructor. cbn. eapply edit_kids_all; [exact A | exact E |].
    intros pk pre c post K. apply Forall_app in K. destruct K as [K1 K2]. inversion K2; subst.
    apply Forall_app. split; assumption.
  - inversion D; subst. now constructor.
Qed.

Lemma retighten_ke e F st p st' : retighten st p = Ok st' -> KE e F st -> KE e F st'.
Proof.
  unfold retighten. intros H P. destruct p as [item|]; [|inversion H; subst; exact P].
  destruct (parent_of item (ps_root st)) as [lid|]; [|inversion H; subst; exact P].
  destruct (get st lid) as [l| |] eqn:G; cbn [bind] in H; try discriminate H.
  destruct (bi_open (binf l)); [inversion H; subst; exact P|].
  destruct (bval l) eqn:Bv; try (inversion H; subst; exact P).
  eapply modify_info_get_ke; [exact H | exact G | | exact P].
  intros K Hid. unfold Ke in K. unfold bval in Bv. rewrite Bv in K.
  assert (bi_id (binf l) = e) by (destruct (binf l); exact Hid). specialize (K H0). discriminate K.
Qed.

Lemma finalize_ke e F o st id p st' : finalize o st id = Ok (p, st') -> KE e F st -> KE e F st'.
Proof.
  intros Fz P. unfold finalize in Fz.
  mstep Fz. pose proof (get_ke _ _ _ _ _ P E) as Ka. mstep Fz; [discriminate Fz|]. mstep Fz. clear E1.
  destruct (bi_val (binf a)) eqn:Ev; mon Fz;
  repeat first [ match goal with |- KE _ _ (st_refmap _ _) => apply KE_st_refmap end
               | (eapply retighten_ke; [eassumption|])
               | (eapply bdetach_ke; [eassumption|])
               | (eapply modify_info_get_ke; [eassumption | exact E | | exact P]; intros _) ];
  intro Hid; unfold Ke in Ka; rewrite Ev in Ka;
  first [ reflexivity
        | (assert (Hi : bi_id (binf a) = e) by (destruct (binf a); exact Hid); specialize (Ka Hi); destruct (binf a); first [discriminate Ka | reflexivity | exact Ka]) ].
Qed.

Lemma ngk_finalize_up_to_ex o e F target site : alk site = true -> forall fuel st,
  TI o [] st -> SV st -> CX (Some e) st -> KE e F st -> ps_current st <> e -> ngk (finalize_up_to fuel o st target site).
Proof.
  intro H. induction fuel as [|f IH]; intros st T V P K Nc; cbn [finalize_up_to]; [reflexivity|].
  destruct (Nat.eqb (ps_current st) target); [exact I|].
  apply ng_bind; [eapply ngk_unwrap_parent_cx; [exact H | exact P | congruence]|].
  intros [q s1] U. cbn [fst snd].
  assert (Fq : exists po, finalize o st (ps_current st) = Ok (po, s1) /\ po = Some q).
  { unfold unwrap_parent in U. destruct (finalize o st (ps_current st)) as [[po s]| |]; cbn [bind fst snd] in U; try discriminate U.
    destruct po; inversion U; subst. eexists; split; reflexivity. }
  destruct Fq as (po & Fz & ->).
  apply IH.
  - apply TI_st_current. eapply finalize_TI; eassumption.
  - apply SV_st_current. eapply finalize_valid'; eassumption.
  - apply CX_st_current. eapply finalize_cx; eassumption.
  - apply KE_st_current. eapply finalize_ke; eassumption.
  - cbn [ps_current st_current]. intro Eq. subst q.
    (* e is the parent, in st, of self.current: then it is not a CodeBlock; but KE says it is *)
    assert (Pp : parent_of (ps_current st) (ps_root st) = Some e).
    { unfold finalize in Fz. destruct (get st (ps_current st)) as [n| |]; cbn [bind] in Fz; try discriminate Fz.
      destruct (negb (bi_open (binf n))); [discriminate Fz|]. mstep Fz. destruct (bi_val (binf n)); mon Fz; reflexivity. }
    destruct (BlocksTotal.get_of_parent _ _ _ Pp) as [n G].
    pose proof (parent_noncode _ _ _ _ _ _ T V Pp G) as Nn.
    pose proof (get_ke _ _ _ _ _ K G) as Kn. pose proof (get_bid _ _ _ G) as Bn. specialize (Kn Bn).
    unfold bval in Nn. destruct (bi_val (binf n)); discriminate.
Qed.

Lemma clear_llb_up_ke e F : forall fuel st id st', clear_llb_up fuel st id = Ok st' -> KE e F st -> KE e F st'.
Proof.
  induction fuel as [|f IH]; intros st id st' H P; cbn [clear_llb_up] in H; [discriminate H|].
  destruct (parent_of id (ps_root st)) as [p|]; [|inversion H; subst; exact P].
  mstep H. eapply IH; [exact H|]. eapply modify_info_ke; [eassumption | | exact P]. intros i K. destruct i; exact K.
Qed.
Lemma finalize_up_to_ke e F o target site : forall fuel st st', finalize_up_to fuel o st target site = Ok st' -> KE e F st -> KE e F st'.
Proof.
  induction fuel as [|f IH]; intros st st' H P; cbn [finalize_up_to] in H; [discriminate H|].
  destruct (Nat.eqb (ps_current st) target); [inversion H; subst; exact P|].
  unfold unwrap_parent in H. destruct (finalize o st (ps_current st)) as [[po s1]| |] eqn:Fz; cbn [bind fst snd] in H; try discriminate H.
  destruct po; cbn [bind fst snd] in H; [|discriminate H]. eapply IH; [exact H|]. apply KE_st_current. eapply finalize_ke; eassumption.
Qed.

(* ================================================================== description lists *)
Lemma parse_desc_list_details_cx e o ex st c m b c' st' :
  parse_desc_list_details o st c m = Ok (b, c', st') -> TI o ex st -> SV st -> CX e st -> CX e st'.
Proof.
  unfold parse_desc_list_details. intros H V S P.
  destruct (get st c) as [cn| |] eqn:G; cbn [bind] in H; try discriminate H.
  match type of H with bind ?r _ = _ => destruct r as [[[[tight c1] lc]|]| |] eqn:R; cbn [bind] in H; try discriminate H end;
    [|inversion H; subst; exact P].
  assert (Hl : all_info (Cx e) lc /\ exists p, In p (bsub (ps_root st)) /\ In lc (bkids p)).
  { pose proof (get_allq _ _ _ _ P G) as Ac.
    destruct (last_opt (bkids cn)) eqn:Lk.
    - inversion R; subst. split; [eapply last_kid_all; eassumption|].
      exists cn. split; [eapply get_sub; eassumption | now apply last_opt_in].
    - mon R.
      match goal with G2 : get st ?pp = Ok ?pn, L2 : last_opt (bkids ?pn) = Some _ |- _ =>
        split; [eapply last_kid_all; [eapply get_allq; [exact P | exact G2] | exact L2]|];
        exists pn; split; [eapply get_sub; exact G2 | now apply last_opt_in]
      end. }
  destruct Hl as (Alc & p & Hp & Hlc).
  clear R.
  destruct (bval lc) eqn:Bl; try (inversion H; subst; exact P).
  - (* DescriptionItem *) cxgo H.
  - (* Paragraph *)
    mon H; monall; repeat match goal with p : (_ * _)%type |- _ => destruct p end; cbn [fst snd] in *;
    match goal with D : bdetach st (bid lc) = Ok ?s1 |- _ =>
      assert (V1 : TI o (ids lc ++ ex) s1) by (eapply bdetach_TI_keep; [exact D | exact V | exact Hp | exact Hlc | rewrite Bl; reflexivity]);
      assert (S1 : SV s1) by (eapply bdetach_valid; eassumption)
    end;
    try match goal with Rr : reopen_ast_nodes _ ?s (bid ?l2) = Ok ?s' |- _ =>
      assert (CX e s -> CX e s') by
        (intro; eapply reopen_cx_tree; [exact Rr | exact V1 | exact S1 | | assumption];
         intros n Gn;
         match goal with G1 : get s ?cc = Ok ?cn1, L2 : last_opt (bkids ?cn1) = Some l2 |- _ =>
           pose proof (get_sub _ _ _ G1) as Hs; apply last_opt_in in L2; pose proof (bsub_kid_of _ _ _ Hs L2) as Hl2;
           pose proof (find_node_unique _ _ (TI_distinct _ _ _ V1) Hl2) as F; apply get_find in Gn; rewrite F in Gn;
           inversion Gn; subst n
         end;
         match goal with B2 : bval l2 = _ |- _ => rewrite B2; reflexivity end)
    end;
    match goal with A : add_child_gen _ ?s _ DescriptionTerm _ _ _ = Ok (_, ?s') |- _ =>
      assert (CX e s -> CX e s') by
        (intro; eapply add_child_gen_cx; [exact A | auto | reflexivity | constructor; [exact Alc | constructor] | assumption])
    end; eauto 20 with cx.
Qed.

Lemma handle_description_list_cx e o line st c ind b c' st' :
  handle_description_list o st c line ind = Ok (b, c', st') -> TI o [] st -> SV st -> CX e st -> CX e st'.
Proof.
  unfold handle_description_list, rest_at_fns. intros H T V P.
  mon H; monall; repeat match goal with p : (_ * _)%type |- _ => destruct p end; cbn [fst snd] in *; try exact P;
  match goal with D : parse_desc_list_details _ _ _ _ = Ok (_, _, ?s) |- _ =>
    assert (CX e s) by (eapply parse_desc_list_details_cx; eassumption) end; eauto with cx.
Qed.
