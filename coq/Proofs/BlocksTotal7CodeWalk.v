(* Proofs/BlocksTotal7CodeWalk.v — the code block sites: the walk (ng under alk = but code_sites), carrying CX None. *)
From Coq Require Import List NArith Arith Bool Lia Strings.String.
From V Require Import Base.Bytes Base.Res Gen.Nodes Gen.BlocksConst Gen.FeedConst Model.Ast Model.Strings Model.Entity Model.LinkUrl Model.ListMarker
  Model.Feed Model.FrontMatter Model.RefDef Model.Scan Model.Blocks Spec.EscapeSpec
  Proofs.StrLeafProofs Proofs.BlocksProofs Proofs.BlocksCursor Proofs.BlocksPos Proofs.BlocksTotal
  Proofs.ParserShapeBlocks Proofs.ParserShapeTree Proofs.ParserShapeTabPrim Proofs.ParserShapeTables
  Proofs.BlocksTotal4Safe Proofs.BlocksTotal7CodeFin Proofs.BlocksTotal7CodeInv Proofs.BlocksTotal7CodeUniq Proofs.BlocksTotal7CodeTree
  Proofs.BlocksTotal7CodeFrame Proofs.BlocksTotal7CodeFence Proofs.BlocksTotal7CodeOpen.
From V Require Proofs.BlocksTotal4Frame Proofs.BlocksTotal2Tree Proofs.BlocksNestTab Proofs.BlocksTotal4Line.
Import ListNotations.
Local Open Scope string_scope.
Local Open Scope list_scope.

Ltac cxs := solve [monall; repeat match goal with p : (_ * _)%type |- _ => destruct p end; cbn [fst snd] in *; eauto 14 with cx].

#[export] Hint Extern 2 (ng _ _ (unwrap_parent _ (finalize _ _ _))) =>
  (apply (ngk_unwrap_parent_cx None); [first [assumption | allowed] | cxs | discriminate]) : ngk.
#[export] Hint Extern 2 (ng _ _ (finalize _ _ _)) => (apply (ngk_finalize_cx None); [cxs | discriminate]) : ngk.
#[export] Hint Extern 2 (ng _ _ (add_child _ _ _ _ _)) => (apply ngk_add_child_gen; cxs) : ngk.
#[export] Hint Extern 2 (ng _ _ (add_child_gen _ _ _ _ _ _ _)) => (apply ngk_add_child_gen; cxs) : ngk.
#[export] Hint Extern 2 (ng _ _ (finalize_up_to _ _ _ _ _)) => (apply ngk_finalize_up_to; [first [assumption | allowed] | cxs]) : ngk.

Lemma ngk_clear_llb_up : forall fuel st id, ngk (clear_llb_up fuel st id).
Proof. induction fuel as [|f IH]; intros st id; cbn [clear_llb_up]; nggok. Qed.
Lemma ngk_reopen : forall fuel st id, ngk (reopen_ast_nodes fuel st id).
Proof. induction fuel as [|f IH]; intros st id; cbn [reopen_ast_nodes]; nggok. Qed.
#[export] Hint Resolve ngk_clear_llb_up ngk_reopen : ngk.
Lemma ngk_try_inserting st c po : ngk (try_inserting_table_header_paragraph st c po).
Proof. unfold try_inserting_table_header_paragraph. nggok. Qed.
#[export] Hint Resolve ngk_try_inserting : ngk.
Lemma ngk_add_line st id line : ngk (add_line st id line).
Proof. unfold add_line. nggok. Qed.
#[export] Hint Resolve ngk_add_line : ngk.

(* ---- check_open_blocks *)
Lemma ngk_is_not_greentext o st line : ngk (is_not_greentext o st line).
Proof. unfold is_not_greentext. nggok. Qed.
#[export] Hint Resolve ngk_is_not_greentext : ngk.
Lemma ngk_pbq o st line : ngk (parse_block_quote_prefix o st line).
Proof. unfold parse_block_quote_prefix. nggok. Qed.
Lemma ngk_pfn st line : ngk (parse_footnote_definition_block_prefix st line).
Proof. unfold parse_footnote_definition_block_prefix. nggok. Qed.
Lemma ngk_pip st line c mo pad : ngk (parse_item_prefix st line c mo pad).
Proof. unfold parse_item_prefix. nggok. Qed.
#[export] Hint Resolve ngk_pbq ngk_pfn ngk_pip : ngk.
Lemma ngk_pcbp o st line cid cb : CX None st -> ngk (parse_code_block_prefix o st line cid cb).
Proof. intro P. unfold parse_code_block_prefix. nggok. Qed.
Lemma ngk_pmbq o st line cid fl fo : CX None st -> ngk (parse_multiline_block_quote_prefix o st line cid fl fo).
Proof. intro P. unfold parse_multiline_block_quote_prefix. nggok. Qed.
#[export] Hint Extern 2 (ng _ _ (parse_code_block_prefix _ _ _ _ _)) => (apply ngk_pcbp; cxs) : ngk.
#[export] Hint Extern 2 (ng _ _ (parse_multiline_block_quote_prefix _ _ _ _ _ _)) => (apply ngk_pmbq; cxs) : ngk.
Lemma ngk_check_container o st line c : CX None st -> ngk (check_container o st line c).
Proof. intro P. unfold check_container. destruct (bval c); nggok. Qed.
#[export] Hint Extern 2 (ng _ _ (check_container _ _ _ _)) => (apply ngk_check_container; cxs) : ngk.
Lemma ngk_cobi o line : forall fuel st c, CX None st -> ngk (check_open_blocks_inner fuel o st line c).
Proof. induction fuel as [|f IH]; intros st c P; cbn [check_open_blocks_inner]; nggok. apply IH. cxs. Qed.
#[export] Hint Extern 2 (ng _ _ (check_open_blocks_inner _ _ _ _ _)) => (apply ngk_cobi; cxs) : ngk.
Lemma ngk_check_open_blocks o st line : CX None st -> ngk (check_open_blocks o st line).
Proof. intro P. unfold check_open_blocks. nggok. Qed.

(* ---- open_new_blocks *)
#[export] Hint Resolve list_spaces_loop_cx handle_alert_cx handle_mbq_cx handle_blockquote_cx handle_atx_cx handle_html_block_cx
  handle_setext_cx handle_thematic_break_cx handle_footnote_cx handle_list_cx try_opening_block_cx : cx.

Lemma ngk_try_opening_header o st c line : ngk (try_opening_header o st c line).
Proof. unfold try_opening_header. nggok. Qed.
Lemma ngk_try_opening_row o st c t line : ngk (try_opening_row o st c t line).
Proof. unfold try_opening_row. nggok. Qed.
Lemma ngk_try_opening_block o st c line : ngk (try_opening_block o st c line).
Proof.
  unfold try_opening_block. apply ng_bind; [auto with ngk|]. intros cn _.
  destruct (bval cn); try exact I; [apply ngk_try_opening_header | apply ngk_try_opening_row].
Qed.
#[export] Hint Resolve ngk_try_opening_block : ngk.

Lemma ngk_parse_desc_list_details o st c m : TI o [] st -> SV st -> CX None st -> ngk (parse_desc_list_details o st c m).
Proof.
  intros V S P. unfold parse_desc_list_details. cbv zeta.
  apply ng_bind; [auto with ngk|]. intros cn G.
  apply ng_bind; [nggok|]. intros r R. destruct r as [[[tight c1] lc]|]; [|exact I].
  assert (Hl : all_info (Cx None) lc /\ exists p, In p (bsub (ps_root st)) /\ In lc (bkids p)).
  { pose proof (get_allq _ _ _ _ P G) as Ac.
    destruct (last_opt (bkids cn)) eqn:Lk.
    - inversion R; subst. split; [eapply last_kid_all; eassumption|].
      exists cn. split; [eapply get_sub; eassumption | now apply last_opt_in].
    - mon R.
      match goal with G2 : get st ?pp = Ok ?pn, L2 : last_opt (bkids ?pn) = Some _ |- _ =>
        split; [eapply last_kid_all; [eapply get_allq; [exact P | exact G2] | exact L2]|];
        exists pn; split; [eapply get_sub; exact G2 | now apply last_opt_in]
      end. }
  destruct Hl as (Alc & p & Hp & Hlc). clear R.
  destruct (bval lc) eqn:Bl; try exact I.
  - (* DescriptionItem *) nggok.
  - (* Paragraph *)
    apply ng_bind; [auto with ngk|]. intros st1 D.
    assert (P1 : CX None st1) by (eapply bdetach_cx; eassumption).
    assert (V1 : TI o (ids lc ++ []) st1) by (eapply bdetach_TI_keep; [exact D | exact V | exact Hp | exact Hlc | rewrite Bl; reflexivity]).
    assert (S1 : SV st1) by (eapply bdetach_valid; eassumption).
    apply ng_bind; [auto with ngk|]. intros c1' G1'.
    apply ng_bind; [destruct (last_opt (bkids c1')) as [l2|]; [destruct (bval l2)|]; nggok|].
    intros [list st2] E2.
    assert (P2 : CX None st2).
    { destruct (last_opt (bkids c1')) as [l2|] eqn:L2; [destruct (bval l2) eqn:B2|]; try cxs.
      mon E2. eapply reopen_cx_tree; [eassumption | exact V1 | exact S1 | | exact P1].
      intros n Gn. pose proof (get_sub _ _ _ G1') as Hs. apply last_opt_in in L2. pose proof (bsub_kid_of _ _ _ Hs L2) as Hl2.
      pose proof (find_node_unique _ _ (TI_distinct _ _ _ V1) Hl2) as F. apply get_find in Gn. rewrite F in Gn.
      inversion Gn; subst n. rewrite B2. reflexivity. }
    apply ng_bind; [auto with ngk|]. intros [item st3] E3. assert (P3 : CX None st3) by cxs.
    apply ng_bind; [auto with ngk|]. intros st4 E4. assert (P4 : CX None st4) by cxs.
    apply ng_bind; [auto with ngk|]. intros [term st5] E5.
    assert (P5 : CX None st5).
    { eapply add_child_gen_cx; [exact E5 | auto | reflexivity | constructor; [exact Alc | constructor] | exact P4]. }
    apply ng_bind; [auto with ngk|]. intros [details st6] _. exact I.
Qed.

Section Handlers.
Variables (o : bopts) (line : bytes).
Lemma ngk_handle_alert st c ind : CX None st -> ngk (handle_alert o st c line ind).
Proof. intro V. unfold handle_alert. nggok. Qed.
Lemma ngk_handle_mbq st c ind : CX None st -> ngk (handle_multiline_blockquote o st c line ind).
Proof. intro V. unfold handle_multiline_blockquote, rest_at_fns. nggok. Qed.
Lemma ngk_handle_blockquote st c ind : CX None st -> ngk (handle_blockquote o st c line ind).
Proof. intro V. unfold handle_blockquote. nggok. Qed.
Lemma ngk_handle_atx st c ind : CX None st -> ngk (handle_atx_heading o st c line ind).
Proof. intro V. unfold handle_atx_heading, rest_at_fns. nggok. Qed.
Lemma ngk_handle_code_fence st c ind : CX None st -> ngk (handle_code_fence o st c line ind).
Proof. intro V. unfold handle_code_fence, rest_at_fns. nggok. Qed.
Lemma ngk_handle_html_block st c ind : CX None st -> ngk (handle_html_block o st c line ind).
Proof. intro V. unfold handle_html_block, rest_at_fns. nggok. Qed.
Lemma ngk_handle_setext st c ind : ngk (handle_setext_heading o st c line ind).
Proof. unfold handle_setext_heading, rest_at_fns. nggok. Qed.
Lemma ngk_handle_thematic_break st c ind am : CX None st -> ngk (handle_thematic_break o st c line ind am).
Proof. intro V. unfold handle_thematic_break. nggok. Qed.
Lemma ngk_handle_footnote st c ind d : CX None st -> ngk (handle_footnote o st c line ind d).
Proof. intro V. unfold handle_footnote, rest_at_fns. nggok. Qed.
Lemma ngk_handle_description_list st c ind : TI o [] st -> SV st -> CX None st -> ngk (handle_description_list o st c line ind).
Proof.
  intros T S V. unfold handle_description_list, rest_at_fns.
  repeat first [ apply ngk_parse_desc_list_details; assumption | ngstepk ]; auto with ngk.
Qed.
Lemma ngk_handle_code_block st c ind ml : CX None st -> ngk (handle_code_block o st c line ind ml).
Proof. intro V. unfold handle_code_block. nggok. Qed.
Lemma ngk_handle_list st c ind d : CX None st -> ngk (handle_list o st c line ind d).
Proof. intro V. unfold handle_list. nggok. Qed.
End Handlers.

Section Loop.
Variables (o : bopts) (line : bytes).
Hypothesis LN : lf_terminated line.

Lemma ngk_or_else_inv (r : hres) kk cu :
  ngk r -> (forall b c s, r = Ok (b, c, s) -> HPx o line 0 cu (b, c, s)) ->
  (forall c s, TI o [] s -> SV s -> FR 0 cu s -> CX None s -> ngk (kk c s)) -> ngk (or_else_h r kk).
Proof.
  intros Hr Hp Hk. unfold or_else_h. apply ng_bind; [exact Hr|]. intros [[h c] s] E. destruct h; [exact I|].
  destruct (Hp _ _ _ E) as (T & V & Fr & [P|(F & _)]); [|discriminate F]. now apply Hk.
Qed.

Ltac hplain TIlem SVlem FRlem CXlem :=
  intros ? ? ? ?; split; [eapply TIlem; eassumption | split; [eapply SVlem; eassumption | split; [eapply FRlem; eassumption | left; eapply CXlem; eassumption]]].

Lemma ngk_step st c am ml d : TI o [] st -> SV st -> CX None st -> ngk (open_new_blocks_step o st c line am ml d).
Proof.
  intros T V P. unfold open_new_blocks_step. apply ng_bind; [auto with ngk|]. intros s0 F0.
  assert (T0 : TI o [] s0) by eauto with ti. assert (V0 : SV s0) by eauto with sv. assert (P0 : CX None s0) by eauto with cx.
  assert (Fr0 : FR 0 (ps_current st) s0) by (eapply ffn_fr; [exact F0|]; split; [lia | reflexivity]).
  clear T V P F0.
  apply ng_bind; [|intros [[handled c1] s1] _; nggok].
  apply (ngk_or_else_inv _ _ (ps_current st)); [now apply ngk_handle_alert | hplain handle_alert_TI handle_alert_valid handle_alert_fr handle_alert_cx |]. clear T0 V0 Fr0 P0. intros c1 s1 T1 V1 Fr1 P1.
  apply (ngk_or_else_inv _ _ (ps_current st)); [now apply ngk_handle_mbq | hplain handle_mbq_TI handle_mbq_valid handle_mbq_fr handle_mbq_cx |].  intros c2 s2 T2 V2 Fr2 P2.
  apply (ngk_or_else_inv _ _ (ps_current st)); [now apply ngk_handle_blockquote | hplain handle_blockquote_TI handle_blockquote_valid handle_blockquote_fr handle_blockquote_cx |].  intros c3 s3 T3 V3 Fr3 P3.
  apply (ngk_or_else_inv _ _ (ps_current st)); [now apply ngk_handle_atx | hplain handle_atx_TI handle_atx_valid handle_atx_fr handle_atx_cx |].  intros c4 s4 T4 V4 Fr4 P4.
  apply (ngk_or_else_inv _ _ (ps_current st)); [now apply ngk_handle_code_fence | intros ? ? ? E; eapply handle_code_fence_hx; eassumption |].  intros c5 s5 T5 V5 Fr5 P5.
  apply (ngk_or_else_inv _ _ (ps_current st)); [now apply ngk_handle_html_block | hplain handle_html_block_TI handle_html_block_valid handle_html_block_fr handle_html_block_cx |].  intros c6 s6 T6 V6 Fr6 P6.
  apply (ngk_or_else_inv _ _ (ps_current st)); [apply ngk_handle_setext | hplain handle_setext_TI handle_setext_valid handle_setext_fr handle_setext_cx |].  intros c7 s7 T7 V7 Fr7 P7.
  apply (ngk_or_else_inv _ _ (ps_current st)); [now apply ngk_handle_thematic_break | hplain handle_thematic_break_TI handle_thematic_break_valid handle_thematic_break_fr handle_thematic_break_cx |].  intros c8 s8 T8 V8 Fr8 P8.
  apply (ngk_or_else_inv _ _ (ps_current st)); [now apply ngk_handle_footnote | hplain handle_footnote_TI handle_footnote_valid handle_footnote_fr handle_footnote_cx |].  intros c9 s9 T9 V9 Fr9 P9.
  apply (ngk_or_else_inv _ _ (ps_current st)); [now apply ngk_handle_description_list | intros ? ? ? E; split; [eapply handle_description_list_TI; eassumption | split; [eapply handle_description_list_valid; eassumption | split; [eapply handle_description_list_fr; eassumption | left; eapply handle_description_list_cx; eassumption]]] |].  intros c10 s10 T10 V10 Fr10 P10.
  apply (ngk_or_else_inv _ _ (ps_current st)); [now apply ngk_handle_list | hplain handle_list_TI handle_list_valid handle_list_fr handle_list_cx |].  intros c11 s11 T11 V11 Fr11 P11.
  now apply ngk_handle_code_block.
Qed.

Lemma ngk_loop am : forall fuel st c ml d, TI o [] st -> SV st -> CX None st -> ngk (open_new_blocks_loop fuel o st c line am ml d).
Proof.
  induction fuel as [|f IH]; intros st c ml d T V P; cbn [open_new_blocks_loop]; [reflexivity|].
  apply ng_bind; [auto with ngk|]. intros n _. destruct (is_code_or_html n); [exact I|].
  apply ng_bind; [now apply ngk_step|]. intros [[go c1] s1] E. destruct go; [|exact I].
  assert (Fr : FR 0 (ps_current st) st) by (split; [lia | reflexivity]).
  destruct (open_new_blocks_step_x _ _ _ _ LN _ _ _ _ _ _ _ _ E T V Fr P) as (T1 & V1 & _ & [P1|(F & _)]); [|discriminate F].
  now apply IH.
Qed.

Lemma ngk_open_new_blocks st c am : TI o [] st -> SV st -> CX None st -> ngk (open_new_blocks o st c line am).
Proof. intros T V P. unfold open_new_blocks. apply ng_bind; [auto with ngk|]. intros n _. now apply ngk_loop. Qed.
End Loop.

Section Text.
Variables (o : bopts) (line : bytes).
Hypothesis LN : lf_terminated line.

Lemma ngk_add_text st c lmc : CX None st -> ngk (add_text_to_container o st c lmc line).
Proof. intro P. unfold add_text_to_container. cbv zeta. nggok. Qed.

Lemma add_text_to_container_cx e st c lm st' : add_text_to_container o st c lm line = Ok st' -> CX e st -> CX e st'.
Proof.
  unfold add_text_to_container. intros H P.
  destruct (ffn st line) as [s0| |] eqn:E0; cbn [bind] in H; try discriminate H. assert (P0 : CX e s0) by eauto with cx.
  destruct (get s0 c) as [cn| |] eqn:G0; cbn [bind] in H; try discriminate H.
  match type of H with bind ?r _ = _ => destruct r as [s1| |] eqn:E1; cbn [bind] in H; try discriminate H end.
  assert (P1 : CX e s1) by (mon E1; eauto with cx).
  match type of H with bind ?r _ = _ => destruct r as [s2| |] eqn:E2; cbn [bind] in H; try discriminate H end.
  assert (P2 : CX e s2) by eauto with cx.
  match type of H with bind ?r _ = _ => destruct r as [s3| |] eqn:E3; cbn [bind] in H; try discriminate H end.
  assert (P3 : CX e s3) by eauto with cx.
  match type of H with bind ?r _ = _ => destruct r as [lz| |] eqn:E4; cbn [bind] in H; try discriminate H end.
  destruct lz; [eauto with cx|].
  match type of H with bind ?r _ = _ => destruct r as [s4| |] eqn:E5; cbn [bind] in H; try discriminate H end.
  assert (P4 : CX e s4) by eauto with cx.
  destruct (get s4 c) as [c4| |] eqn:G4; cbn [bind] in H; try discriminate H.
  match type of H with bind ?r _ = _ => destruct r as [[rc rs]| |] eqn:E6; cbn [bind fst snd] in H; try discriminate H end.
  inversion H; subst. apply CX_st_current. clear H E1 E2 E3 E4 E5.
  destruct (bval c4); mon E6; repeat match goal with p : (_ * _)%type |- _ => destruct p end; cbn [fst snd] in *;
  try match goal with E2 : (if negb _ then chop_trailing_hashtags line else Ok line) = Ok _ |- _ => mon E2 end;
  repeat match goal with E2 : Ok _ = Ok _ |- _ => inversion E2; subst; clear E2 end;
  solve [eauto 10 with cx].
Qed.

(* the bundle kept between the creation of the code block c and its first add_line *)
Definition BXn (c : nat) (Fl : bool) (st : pstate) : Prop :=
  TI o [] st /\ SV st /\ CX (Some c) st /\ KE c Fl st /\ (Fl = true -> CUR line st).

Lemma CUR_kc s s' : BlocksTotal4Frame.KC (ps_cur s) (ps_curline_len s) s' -> CUR line s -> CUR line s'.
Proof. intros [Kc _] C. unfold CUR in *. now rewrite Kc. Qed.

Lemma BXn_mi c Fl st id b st' : modify_info st id (set_llb b) = Ok st' -> BXn c Fl st -> BXn c Fl st' /\ ps_current st' = ps_current st.
Proof.
  intros M (T & V & P & K & C). split; [|eapply (modify_info_fr 0); [exact M | split; [lia | reflexivity]]].
  split; [eauto with ti|]. split; [eauto with sv|]. split; [eauto with cx|].
  split; [eapply modify_info_ke; [exact M | | exact K]; intros i Ki; destruct i; exact Ki|].
  intro F. eapply CUR_kc; [eapply BlocksTotal4Frame.modify_info_KC; [exact M | apply BlocksTotal4Frame.KC_self] | auto].
Qed.

Lemma BXn_clear c Fl : forall fuel st id st', clear_llb_up fuel st id = Ok st' -> BXn c Fl st -> BXn c Fl st' /\ ps_current st' = ps_current st.
Proof.
  induction fuel as [|f IH]; intros st id st' H B; cbn [clear_llb_up] in H; [discriminate H|].
  destruct (parent_of id (ps_root st)) as [p|]; [|inversion H; subst; now split].
  mstep H. destruct (BXn_mi _ _ _ _ _ _ E B) as [B1 C1]. destruct (IH _ _ _ H B1) as [B2 C2]. split; [exact B2 | congruence].
Qed.

Lemma ffn_cur st s0 : ffn st line = Ok s0 ->
  c_offset (ps_cur s0) = c_offset (ps_cur st) /\ c_pct (ps_cur s0) = c_pct (ps_cur st) /\ ps_root s0 = ps_root st /\ ps_current s0 = ps_current st.
Proof.
  unfold ffn, find_first_nonspace. intro H. destruct (if Nat.leb _ _ then _ else _) as [f fc].
  mstep H. mon E. mon H. cbn. auto.
Qed.

Lemma add_text_exc st c lmc Fl :
  BXn c Fl st -> c <> lmc -> ps_current st <> c ->
  sg alk true (fun s => CX None s) (add_text_to_container o st c lmc line).
Proof.
  intros (T & V & P & K & C) Nl Nc. unfold add_text_to_container.
  apply sgb; [auto with ngk|]. intros s0 E0.
  destruct (ffn_cur _ _ E0) as (O0 & Pc0 & R0 & Cu0).
  assert (B0 : BXn c Fl s0).
  { split; [eauto with ti|]. split; [eauto with sv|]. split; [eauto with cx|]. split; [eapply KE_root; eassumption|].
    intro F. destruct (C F) as [C1 C2]. split; congruence. }
  apply sgb; [auto with ngk|]. intros cn G0.
  apply sgb; [nggok|]. intros s1 E1.
  assert (B1 : BXn c Fl s1 /\ ps_current s1 = ps_current s0).
  { destruct (blank s0); [|inversion E1; subst; now split]. destruct (last_opt (bkids cn)); [|inversion E1; subst; now split].
    eapply BXn_mi; eassumption. }
  destruct B1 as [B1 Cu1]. cbv zeta.
  apply sgb; [auto with ngk|]. intros s2 E2. destruct (BXn_mi _ _ _ _ _ _ E2 B1) as [B2 Cu2].
  apply sgb; [auto with ngk|]. intros s3 E3. destruct (BXn_clear _ _ _ _ _ _ E3 B2) as [B3 Cu3].
  replace (Nat.eqb c lmc) with false by (symmetry; now apply Nat.eqb_neq).
  rewrite andb_false_r. cbn [andb bind].
  destruct B3 as (T3 & V3 & P3 & K3 & C3).
  apply sgb; [eapply ngk_finalize_up_to_ex; [allowed | exact T3 | exact V3 | exact P3 | exact K3 | congruence]|]. intros s4 E4.
  assert (T4 : TI o [] s4) by (eapply finalize_up_to_TI; eassumption).
  assert (P4 : CX (Some c) s4) by (eapply finalize_up_to_cx; eassumption).
  assert (K4 : KE c Fl s4) by (eapply finalize_up_to_ke; eassumption).
  assert (C4 : Fl = true -> CUR line s4).
  { intro F. eapply CUR_kc; [eapply BlocksTotal4Frame.finalize_up_to_KC; [exact E4 | apply BlocksTotal4Frame.KC_self] | auto]. }
  apply sgb; [auto with ngk|]. intros c4 G4.
  pose proof (get_ke _ _ _ _ _ K4 G4) as Kc. specialize (Kc (get_bid _ _ _ G4)).
  unfold bval. destruct (bi_val (binf c4)) as [] eqn:Ev; try discriminate Kc.
  apply sgb; [nggok|]. intros [rc rs] E6. mon E6. cbn [sg fst snd]. apply CX_st_current.
  destruct LN as [p Ep].
  eapply add_line_establish; [exact T4 | eassumption | exact G4 | exact Ev | exact Ep | | exact P4].
  intro Fe. cbn in Kc. rewrite Fe in Kc. injection Kc as <-. destruct (C4 eq_refl) as [C5 C6]. rewrite C6. exact C5.
Qed.
End Text.

(* ================================================================== process_line, parse_blocks *)
Lemma get_lt o st id n : TI o [] st -> get st id = Ok n -> id < ps_next st.
Proof.
  intros T G. pose proof (BlocksNestTab.in_tree_lt _ _ _ _ T (get_sub _ _ _ G)) as L.
  unfold bid in L. now rewrite (get_bid _ _ _ G) in L.
Qed.

Lemma process_line_sg o st line0 : lf_terminated (norm_line line0) -> TI o [] st -> SV st -> CX None st ->
  sg alk true (fun s => CX None s) (process_line o st line0).
Proof.
  intros LN T V P. unfold process_line. cbv zeta.
  match goal with |- context [check_open_blocks o ?s ?l] =>
    assert (T0 : TI o [] s) by (apply TI_st_line_number, TI_st_cur, TI_st_curline; exact T);
    assert (V0 : SV s) by exact V;
    assert (P0 : CX None s) by (apply CX_st_line_number, CX_st_cur, CX_st_curline; exact P) end.
  apply sgb; [now apply ngk_check_open_blocks|]. intros [r s1] E.
  assert (T1 : TI o [] s1) by (eapply check_open_blocks_TI; eassumption).
  assert (V1 : SV s1) by (eapply check_open_blocks_valid; eassumption).
  assert (P1 : CX None s1) by (eapply check_open_blocks_cx; eassumption).
  eapply sg_bind with (P := fun s => CX None s); [|intros s _ Ps; cbn [sg]; apply CX_st_curline, CX_st_last_line_length; exact Ps].
  destruct r as [[lm am]|]; [|exact P1]. cbv zeta.
  apply sgb; [now apply ngk_open_new_blocks|]. intros [c s2] E2.
  assert (Fr1 : FR (ps_next s1) (ps_current s1) s1) by (split; [lia | reflexivity]).
  destruct (open_new_blocks_x _ _ _ _ LN _ _ _ _ _ E2 T1 V1 Fr1 P1) as (T2 & V2 & [_ Cu2] & D2).
  destruct (Nat.eqb (ps_current s1) (ps_current s2)) eqn:Eq; [|apply Nat.eqb_neq in Eq; congruence].
  destruct D2 as [P2 | (P2 & Kc & Fl & K2 & C2)].
  - apply ng_sg; [now apply ngk_add_text | intros s' E'; eapply add_text_to_container_cx; eassumption].
  - destruct (open_new_blocks_has _ _ _ _ _ _ E2) as [[n1 G1] [n2 G2]].
    pose proof (get_lt _ _ _ _ T1 G1). pose proof (get_lt _ _ _ _ T1 G2).
    apply (add_text_exc _ _ LN _ _ _ Fl); [exact (conj T2 (conj V2 (conj P2 (conj K2 C2)))) | lia | lia].
Qed.

Lemma process_lines_sg o : forall ls st, Forall (fun l => lf_terminated (norm_line l)) ls -> TI o [] st -> SV st -> CX None st ->
  sg alk true (fun s => CX None s) (process_lines o st ls).
Proof.
  induction ls as [|l r IH]; intros st F T V P; cbn [process_lines]; [exact P|].
  inversion F; subst. eapply sg_bind; [now apply process_line_sg|]. intros s1 E P1.
  apply IH; [assumption | eapply process_line_TI; eassumption | eapply process_line_valid; eassumption | exact P1].
Qed.

Lemma ngk_front_matter_prologue o s : ngk (front_matter_prologue o init_state s).
Proof. pose proof CX_init as P. unfold front_matter_prologue. nggok. Qed.

Lemma front_matter_prologue_cx o x st rest : front_matter_prologue o init_state x = Ok (st, rest) -> CX None st.
Proof.
  unfold front_matter_prologue. intro H.
  destruct (bo_front_matter_delimiter o) as [d|]; [|inversion H; subst; apply CX_init].
  mon H; monall; repeat match goal with p : (_ * _)%type |- _ => destruct p end; cbn [fst snd] in *; try apply CX_init.
  apply CX_st_line_number.
  eapply modify_info_cx; [eassumption | cx_side |].
  eapply unwrap_parent_fin_cx; [eassumption|]. eapply add_child_cx; [eassumption | reflexivity | apply CX_init].
Qed.

Theorem parse_blocks_ngk o x : ngk (parse_blocks o x).
Proof.
  unfold parse_blocks. apply ng_bind; [apply ngk_front_matter_prologue|]. intros [st rest] E.
  pose proof (BlocksTotal2Tree.W_TI _ _ (BlocksTotal2Tree.W_init o)) as Ti.
  assert (T : TI o [] st) by (eapply front_matter_prologue_TI; [exact E | exact Ti]).
  assert (V : SV st) by (eapply front_matter_prologue_valid; [exact E | reflexivity]).
  pose proof (front_matter_prologue_cx _ _ _ _ E) as P.
  pose proof (BlocksTotal4Line.lines_lf rest) as LK. unfold lines in LK. destruct (feed_lines rest) as [ls total]. cbn [fst] in LK.
  apply ng_bind; [|intros; exact I]. unfold run_lines.
  eapply sg_bind; [apply process_lines_sg; eassumption|]. intros s1 _ P1. now apply ngk_finalize_document.
Qed.

Theorem parse_blocks_no_code_panic o x s : In s code_sites -> parse_blocks o x <> Panic s.
Proof. intro H. eapply sg_no_panic; [apply parse_blocks_ngk | exact H]. Qed.
