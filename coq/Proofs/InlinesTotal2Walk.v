(* Proofs/InlinesTotal2Walk.v — the invariants CInv / LInv / RInv / FInv through the dispatcher parse_inline, the
   main loop and the final process_emphasis: every Panic the inline phase of a block can answer is one of the
   sites of InlinesTotal2Sites.remaining (inlines_total_partial_sites).  No axioms. *)
From Coq Require Import List NArith ZArith Arith Bool Strings.String Lia.
From V Require Import Base.Bytes Base.Res Gen.StrLeafGen Gen.Consts Gen.Special Model.Special
     Model.Scan Model.Strings Model.Entity Model.LinkUrl Model.AutolinkLeaf Model.Spx Model.Ast Model.Inlines
     Proofs.StrLeafProofs Proofs.StrLeafEntity Proofs.StrLeafParse
     Proofs.InlinesProofs Proofs.InlinesMemo Proofs.InlinesTotalAutolink Proofs.InlinesTotalFuel Proofs.InlinesTotal
     Proofs.InertInlines Proofs.InlinesTotal2 Proofs.InlinesTotal2Pe Proofs.InlinesTotal2Fuel Proofs.InlinesTotal2Inv
     Proofs.InlinesTotal2Main Proofs.InlinesTotal2Sites.
Import ListNotations.
Local Open Scope list_scope.

Lemma scan_le o w l : forall n, (scan o w l n <= n + N.of_nat (List.length l))%N.
Proof.
  induction l as [|c r IH]; intro n; cbn [scan List.length]; [lia|].
  destruct (stops_at o w c); [lia|]. specialize (IH (N.succ n)). lia.
Qed.

Lemma fsc_bounds o w inp p : p <= List.length inp ->
  p <= N.to_nat (find_special_char o w inp p) /\ N.to_nat (find_special_char o w inp p) <= List.length inp.
Proof.
  intro H. unfold find_special_char.
  destruct (Nat.leb p (List.length inp)) eqn:E; [|apply Nat.leb_gt in E; lia].
  pose proof (scan_ge o w (skipn p inp) (N.of_nat p)).
  pose proof (scan_le o w (skipn p inp) (N.of_nat p)) as K. rewrite skipn_length in K. lia.
Qed.

Lemma append_panic r site : append r = Panic site -> r = Panic site.
Proof. unfold append. destruct r as [[s n]|?|]; cbn [bind]; intro H; [discriminate H|inversion H; reflexivity|discriminate H]. Qed.

Lemma append_ok r s' : append r = Ok (Some s') -> exists s1 n, r = Ok (s1, n) /\ s' = fst (push_item s1 n).
Proof.
  unfold append. destruct r as [[s n]|?|]; cbn [bind]; intro H; try discriminate H.
  inversion H. eauto.
Qed.

Lemma count_while_all f (l : bytes) : count_while f l = List.length l -> forallb f l = true.
Proof.
  induction l as [|x l IH]; cbn [count_while List.length forallb]; [reflexivity|].
  destruct (f x); [|discriminate]. intro H. cbn [andb]. apply IH. lia.
Qed.

Lemma forallb_rev' {A} (f : A -> bool) l : forallb f (rev l) = true -> forallb f l = true.
Proof.
  rewrite !forallb_forall. intros H x Hx. apply H. apply in_rev. rewrite rev_involutive. exact Hx.
Qed.

Lemma scan_nonstop o w : forall l n,
  forallb (fun x => negb (stops_at o w x)) (firstn (N.to_nat (scan o w l n - n)) l) = true.
Proof.
  induction l as [|c r IH]; intro n; cbn [scan].
  - rewrite firstn_nil. reflexivity.
  - destruct (stops_at o w c) eqn:E.
    + replace (N.to_nat (n - n)) with 0 by lia. reflexivity.
    + pose proof (scan_ge o w r (N.succ n)) as G.
      replace (N.to_nat (scan o w r (N.succ n) - n)) with (S (N.to_nat (scan o w r (N.succ n) - N.succ n))) by lia.
      cbn [firstn forallb]. rewrite E. cbn [negb andb]. apply IH.
Qed.

Lemma stops_at_line_end_bool : forall a b c d e f g w,
  let o := mkIO a b c d e f false false false false false false g false false false false in
  stops_at (io_fn o) w x0a = true /\ stops_at (io_fn o) w x0d = true.
Proof. intros a b c d e f g w. destruct a, b, c, d, e, f, g, w; cbv zeta; split; vm_compute; reflexivity. Qed.

Lemma stops_at_line_end o w x : is_line_end_char x = true -> stops_at (io_fn o) w x = true.
Proof.
  intro H. rewrite io_fn_tables. cbv zeta.
  destruct (stops_at_line_end_bool (io_autolink o) (io_strikethrough o) (io_subscript o) (io_superscript o)
              (io_underline o) (io_spoiler o) (io_smart o) w) as [A B].
  cbv zeta in A, B. destruct x; try discriminate H; assumption.
Qed.

Lemma drop_while_app_all f (a b : bytes) : forallb f a = true -> drop_while f (a ++ b) = drop_while f b.
Proof.
  induction a as [|x a IH]; cbn [app forallb drop_while]; [reflexivity|].
  intro H. apply andb_true_iff in H. destruct H as [H1 H2]. rewrite H1. apply IH, H2.
Qed.

(* a first stretch that is all white space and ends at a line end: the first line is blank *)
Lemma blank_first_line o w inp e c' :
  e = N.to_nat (find_special_char (io_fn o) w inp 0) -> e <= List.length inp ->
  count_while sl_isspace (rev (firstn e inp)) = List.length (firstn e inp) ->
  nth_error inp e = Some c' -> is_line_end_char c' = true ->
  first_line_not_blank inp = false.
Proof.
  intros He Hle Hc Hn Hl.
  assert (forallb sl_isspace (firstn e inp) = true) as A.
  { apply forallb_rev'. apply count_while_all. rewrite rev_length. exact Hc. }
  assert (forallb (fun x => negb (stops_at (io_fn o) w x)) (firstn e inp) = true) as B.
  { unfold find_special_char in He. cbn [Nat.leb skipn] in He. subst e.
    pose proof (scan_nonstop (io_fn o) w inp 0%N) as K. rewrite N.sub_0_r in K. exact K. }
  assert (forallb (fun c => beqb c x20 || beqb c x09) (firstn e inp) = true) as D.
  { rewrite forallb_forall in *. intros x Hx. specialize (A x Hx). specialize (B x Hx).
    apply negb_true_iff in B.
    destruct (is_line_end_char x) eqn:El; [rewrite (stops_at_line_end o w x El) in B; discriminate B|].
    destruct x; try discriminate A; try discriminate El; reflexivity. }
  unfold first_line_not_blank. rewrite <- (firstn_skipn e inp) at 1.
  rewrite (drop_while_app_all _ _ _ D).
  rewrite (skipn_nth2 inp e c' Hn). cbn [drop_while].
  assert (beqb c' x20 || beqb c' x09 = false) as -> by (destruct c'; try discriminate Hl; reflexivity).
  rewrite Hl. reflexivity.
Qed.

Section Walk.
Variable memo : bool.
Variable o : iopts.
Variable u : oracle.
Variable inp : bytes.
Variable lo : list N.
Variable start_line : N.
Variable refmap : list (bytes * (bytes * bytes)).
Variable maxref : N.
Hypothesis Hrt : rtrim_slice inp = inp.
Hypothesis Hflb : first_line_not_blank inp = true.

Notation CInv := (CInv inp).
Notation LInv := (LInv inp lo start_line).
Notation RInv := (RInv maxref).
Notation FInv := (FInv o inp).

Definition CLR (s : st) : Prop := CInv s /\ LInv s /\ RInv s.
Definition TInv (s : st) : Prop := CLR s /\ FInv s.

Definition same4 (s s' : st) : Prop :=
  line s' = line s /\ coloff s' = coloff s /\ refsize s' = refsize s /\ pos s' = pos s.

Lemma CLR_same4 s s' : same4 s s' -> CLR s -> CLR s'.
Proof.
  intros (A & B & C & D) (H1 & H2 & H3). split; [|split].
  - eapply CInv_stay; [exact H1|exact B|lia].
  - eapply LInv_stay; [exact H2|exact A|lia].
  - unfold RInv, InlinesTotal2Sites.RInv in *. rewrite C. exact H3.
Qed.

Lemma CLR_stay s s' : stay s s' -> CLR s -> CLR s'.
Proof. intros H (H1 & H2 & H3). eapply stay_inv; eassumption. Qed.

Lemma CLR_post s s' : CLR s -> CInv s' /\ LInv s' /\ refsize s' = refsize s -> CLR s'.
Proof.
  intros (_ & _ & H3) (A & B & C). split; [exact A|]. split; [exact B|].
  unfold RInv, InlinesTotal2Sites.RInv in *. rewrite C. exact H3.
Qed.

Lemma same4_push s n : same4 s (fst (push_item s n)).
Proof. unfold same4. cbn [push_item fst line coloff refsize pos set_sibs]. auto. Qed.

Lemma same4_bracket s img id : same4 s (set_within (push_bracket s img id) true).
Proof.
  unfold same4, push_bracket. destruct img; cbn [line coloff refsize pos set_within set_brackets set_nlo]; auto.
Qed.

Lemma text_mk_sites s v a b site :
  (- coloff s <= Z.of_nat a + 1)%Z -> (- coloff s <= Z.of_nat b + 1)%Z -> mk s v a b = Panic site -> False.
Proof. intros A B H. apply mk_panic in H. destruct H as [_ H]. lia. Qed.

(* ------------------------------------------------------------------ the Panic sites of one step *)
Lemma step_sites s site :
  TInv s -> parse_inline memo o u inp lo start_line refmap maxref s = Panic site -> allowed site = true.
Proof.
  intros [(C & Li & R) F] H. unfold parse_inline in H.
  destruct (peek inp (pos s)) as [c|] eqn:Ec; [|discriminate]. unfold peek in Ec.
  pose proof (nth_lt inp _ _ Ec) as Hlt.
  unfold nsub in H. destruct Li as [L1 L2].
  destruct (line s <? start_line)%N eqn:E1; [apply N.ltb_lt in E1; lia|]. cbn [bind] in H.
  destruct (nth_error lo (N.to_nat (line s - start_line))) as [off|] eqn:E2; [|apply nth_error_None in E2; lia].
  set (s1 := set_lineoff s off) in *.
  assert (CInv s1) as C1 by exact C.
  assert (LInv s1) as Li1 by (split; assumption).
  assert (RInv s1) as R1 by exact R.
  assert (forall d, In d (delims s1) -> dchar_ok o (d_char d) = true) as Hd.
  { intros d Hin. destruct F as [[[G _] _] _]. apply (G d Hin). }
  assert (pos s1 = pos s) as Hp1 by reflexivity. rewrite <- Hp1 in Ec, Hlt. clear Hp1.
  pose proof C1 as (Ca & Cb & _).
  clearbody s1.
  destruct (beqb c x00) eqn:E00; [discriminate|].
  destruct (beqb c x0d || beqb c x0a) eqn:Enl.
  { apply append_panic in H. eapply handle_newline_sites; eassumption. }
  destruct (beqb c x60) eqn:Ebt.
  { apply append_panic in H. eapply handle_backticks_sites; eassumption. }
  destruct (beqb c x5c) eqn:Ebs.
  { apply append_panic in H. eapply handle_backslash_sites; eassumption. }
  destruct (beqb c x26) eqn:Eamp.
  { apply append_panic in H. eapply handle_entity_sites; eassumption. }
  destruct (beqb c x3c) eqn:Elt.
  { apply append_panic in H. eapply handle_pointy_brace_sites; eassumption. }
  assert (forall b, text1 s1 b = Panic site -> allowed site = true) as Htext.
  { intros b Hb. unfold text1 in Hb. apply append_panic in Hb. exfalso.
    match type of Hb with bind ?r _ = _ => destruct r as [n|?|] eqn:Em; cbn [bind] in Hb; try discriminate Hb end.
    inversion Hb; subst. eapply text_mk_sites; [| |exact Em]; cbn [coloff set_pos]; lia. }
  destruct (beqb c x3a) eqn:Ecolon.
  { clear E00 Enl Ebt Ebs Eamp Elt. apply beqb_eq in Ecolon. subst c.
    match type of H with bind ?r _ = _ => destruct r as [[[s2 n]|]|?|] eqn:Er end; cbn [bind] in H; try discriminate.
    - eapply Htext. exact H.
    - inversion H; subst. destruct (io_autolink o); [|discriminate].
      eapply haw_sites; [|exact Er]. intros r Hr. eapply url_match_result; eassumption. }
  destruct (beqb c x77 && io_autolink o) eqn:Ew.
  { match type of H with bind ?r _ = _ => destruct r as [[[s2 n]|]|?|] eqn:Er end; cbn [bind] in H; try discriminate.
    - eapply Htext. exact H.
    - inversion H; subst. eapply haw_sites; [|exact Er]. intros r Hr. eapply www_match_result; eassumption. }
  match type of H with (if ?b then _ else _) = _ => destruct b eqn:Edel end.
  { destruct (handle_delim o u inp s1 c) as [[[s2 n] d]|?|] eqn:Ed; cbn [bind] in H; try discriminate.
    inversion H; subst. eapply handle_delim_sites; eassumption. }
  destruct (beqb c x2d) eqn:Ehy.
  { apply append_panic in H. eapply handle_hyphen_sites; eassumption. }
  destruct (beqb c x2e) eqn:Epe.
  { apply append_panic in H. eapply handle_period_sites; eassumption. }
  destruct (beqb c x5b) eqn:Eob.
  { cbv zeta in H.
    match type of H with bind ?r _ = _ => destruct r as [[[s2 n]|]|?|] eqn:Er end; cbn [bind] in H; try discriminate.
    - exfalso. match type of H with bind ?r _ = _ => destruct r as [n|?|] eqn:Em; cbn [bind] in H end.
      + destruct (push_item _ n). discriminate H.
      + eapply text_mk_sites; [| |exact Em]; cbn [coloff set_pos]; lia.
      + discriminate H.
    - inversion H; subst. match type of Er with (if ?b then _ else _) = _ => destruct b end; [|discriminate].
      eapply handle_wikilink_sites; [| |exact Er]; cbn [coloff pos set_pos]; lia. }
  destruct (beqb c x5d) eqn:Ecb.
  { destruct (handle_close_bracket _ _ _ _ _ _) as [[s2 n]|?|] eqn:Eh; cbn [bind] in H; try discriminate.
    inversion H; subst. eapply hcb_sites; [| | |exact Eh].
    - exact C1.
    - exact R1.
    - exact Hd. }
  destruct (beqb c x21) eqn:Ebang.
  { cbv zeta in H. exfalso. destruct (peek_eq inp (S (pos s1)) x5b && negb (peek_eq inp (S (S (pos s1))) x5e)).
    - match type of H with bind ?r _ = _ => destruct r as [n|?|] eqn:Em; cbn [bind] in H end.
      + destruct (push_item _ n). discriminate H.
      + eapply text_mk_sites; [| |exact Em]; cbn [coloff set_pos]; lia.
      + discriminate H.
    - apply append_panic in H.
      match type of H with bind ?r _ = _ => destruct r as [n|?|] eqn:Em; cbn [bind] in H; try discriminate H end.
      eapply text_mk_sites; [| |exact Em]; cbn [coloff set_pos]; lia. }
  destruct (beqb c x24) eqn:Edol.
  { apply append_panic in H. eapply handle_dollars_sites; eassumption. }
  (* default arm *)
  assert (stops_at (io_fn o) (within s1) c = false) as Hstop.
  { rewrite io_fn_tables. cbv zeta.
    match goal with |- stops_at (io_fn ?o') ?w c = false =>
      pose proof (stop_handled_bool (io_autolink o) (io_strikethrough o) (io_subscript o) (io_superscript o)
                                    (io_underline o) (io_spoiler o) (io_smart o) w c) as Hh end.
    cbv zeta in Hh.
    destruct (stops_at _ _ c); [|reflexivity].
    simpl in Hh. unfold handled in Hh. cbn [io_autolink io_strikethrough io_subscript io_superscript io_spoiler] in Hh.
    rewrite E00, Enl, Ebt, Ebs, Eamp, Elt, Ecolon, Ehy, Epe, Eob, Ecb, Ebang, Edol in Hh.
    rewrite Ew, Edel in Hh. discriminate. }
  pose proof (find_special_gt (io_fn o) (within s1) inp (pos s1) c Ec Hstop) as Hgt.
  cbv zeta in H.
  destruct (fsc_bounds (io_fn o) (within s1) inp (pos s1) ltac:(lia)) as [B1 B2].
  set (endpos := N.to_nat (find_special_char (io_fn o) (within s1) inp (pos s1))) in *.
  unfold slice in H.
  destruct (Nat.ltb endpos (pos s1) || Nat.ltb (len inp) endpos) eqn:Esl.
  { exfalso. apply orb_true_iff in Esl. unfold len in Esl. destruct Esl as [E|E]; apply Nat.ltb_lt in E; lia. }
  cbn [bind] in H.
  set (contents := firstn (endpos - pos s1) (skipn (pos s1) inp)) in *.
  assert (List.length contents <= endpos - pos s1) as Hcl by (unfold contents; rewrite firstn_length; lia).
  match type of H with bind ?r _ = _ => destruct r as [[c1 e1]|?|] eqn:E3; cbn [bind] in H; [| |discriminate H] end.
  2:{ exfalso. destruct (peek_is inp endpos is_line_end_char); [|discriminate E3].
      rewrite rtrim_ok in E3. cbn [bind] in E3. discriminate E3. }
  assert (1 <= e1) as He1pos.
  { destruct (peek_is inp endpos is_line_end_char) eqn:Epk.
    - rewrite rtrim_ok in E3. cbn [bind fst snd] in E3. injection E3 as _ Ee1.
      pose proof (count_while_le sl_isspace (rev contents)) as K. rewrite rev_length in K.
      destruct (Nat.eq_dec e1 0) as [Z|NZ]; [|lia]. exfalso.
      apply peek_is_some in Epk. destruct Epk as [c' [Hc' Hl']].
      assert (pos s1 = 0) as Hp0 by lia.
      assert (contents = firstn endpos inp) as Hcont.
      { unfold contents. rewrite Hp0. cbn [skipn]. rewrite Nat.sub_0_r. reflexivity. }
      assert (first_line_not_blank inp = false) as Hf.
      { eapply (blank_first_line o (within s1) inp endpos c'); try eassumption.
        - unfold endpos. rewrite Hp0. reflexivity.
        - rewrite <- Hcont. lia. }
      rewrite Hflb in Hf. discriminate Hf.
    - inversion E3; subst. fold endpos in Hgt. lia. }
  assert (pos s1 <= e1 /\ List.length c1 <= List.length contents) as [He1 Hc1].
  { destruct (peek_is inp endpos is_line_end_char).
    - rewrite rtrim_ok in E3. cbn [bind fst snd] in E3. inversion E3; subst.
      pose proof (count_while_le sl_isspace (rev contents)) as K. rewrite rev_length in K.
      split; [lia|]. unfold rtrim_slice. rewrite rev_length.
      pose proof (drop_while_len sl_isspace (rev contents)) as K2. rewrite rev_length in K2. exact K2.
    - inversion E3; subst. split; lia. }
  match type of H with bind ?r _ = _ => destruct r as [[c2 sp2]|?|] eqn:E4; cbn [bind] in H; [| |discriminate H] end.
  2:{ exfalso. destruct (last_child_is_linebreak (set_pos s1 endpos)); [|discriminate E4].
      rewrite ltrim_ok in E4. cbn [bind] in E4. discriminate E4. }
  assert (pos s1 <= sp2) as Hsp2.
  { destruct (last_child_is_linebreak (set_pos s1 endpos)).
    - rewrite ltrim_ok in E4. cbn [bind fst snd] in E4. inversion E4; subst. lia.
    - inversion E4; subst. lia. }
  unfold usub in H. destruct (Nat.ltb e1 1) eqn:E5; cbn [bind] in H; [apply Nat.ltb_lt in E5; lia|].
  apply Nat.ltb_ge in E5. apply append_panic in H. exfalso.
  match type of H with bind ?r _ = _ => destruct r as [n|?|] eqn:Em; cbn [bind] in H; try discriminate H end.
  eapply text_mk_sites; [| |exact Em]; cbn [coloff set_pos]; lia.
Qed.

(* ------------------------------------------------------------------ the invariants after one step *)
Lemma step_CLR s s' :
  CLR s -> parse_inline memo o u inp lo start_line refmap maxref s = Ok (Some s') -> CLR s'.
Proof.
  intros I H. pose proof (parse_inline_advances_all _ _ _ _ _ _ _ _ _ _ H) as P.
  unfold parse_inline in H.
  destruct (peek inp (pos s)) as [c|] eqn:Ec; [|discriminate]. unfold peek in Ec.
  destruct (nsub _ _ _) as [adj|?|]; cbn [bind] in H; try discriminate.
  destruct (nth_error lo (N.to_nat adj)) as [off|]; [|discriminate].
  set (s1 := set_lineoff s off) in *.
  assert (CLR s1) as I1 by (apply (CLR_same4 s); [unfold same4, s1; cbn [line coloff refsize pos set_lineoff]; auto|exact I]).
  assert (pos s1 = pos s) as Hp1 by reflexivity. rewrite <- Hp1 in P, Ec. clear Hp1.
  clearbody s1. clear I. pose proof I1 as (C1 & Li1 & R1).
  assert (forall s2 n, stay s1 s2 -> CLR (fst (push_item s2 n))) as Hst.
  { intros s2 n Hs. apply (CLR_same4 s2); [apply same4_push|]. eapply CLR_stay; eassumption. }
  assert (forall s2 n, CInv s2 /\ LInv s2 /\ refsize s2 = refsize s1 -> CLR (fst (push_item s2 n))) as Hpost.
  { intros s2 n Hs. apply (CLR_same4 s2); [apply same4_push|]. eapply CLR_post; eassumption. }
  assert (forall p, pos s1 <= p -> stay s1 (set_pos s1 p)) as Hsp.
  { intros p Hp. unfold stay. cbn [line coloff refsize pos set_pos]. auto. }
  destruct (beqb c x00); [discriminate|].
  destruct (beqb c x0d || beqb c x0a) eqn:Enl.
  { apply append_ok in H. destruct H as (s2 & n & E & ->). apply Hpost. eapply handle_newline_post; eassumption. }
  destruct (beqb c x60) eqn:Ebt.
  { apply append_ok in H. destruct H as (s2 & n & E & ->). apply Hpost. eapply handle_backticks_post; eassumption. }
  destruct (beqb c x5c).
  { apply append_ok in H. destruct H as (s2 & n & E & ->). apply Hpost. eapply handle_backslash_post; eassumption. }
  destruct (beqb c x26).
  { apply append_ok in H. destruct H as (s2 & n & E & ->). apply Hst. eapply handle_entity_stay; eassumption. }
  destruct (beqb c x3c).
  { apply append_ok in H. destruct H as (s2 & n & E & ->). apply Hpost. eapply handle_pointy_brace_post; eassumption. }
  assert (forall b, text1 s1 b = Ok (Some s') -> CLR s') as Htext.
  { intros b Hb. unfold text1 in Hb. apply append_mk_inv in Hb. destruct Hb as [n ->]. apply Hst. apply Hsp. lia. }
  destruct (beqb c x3a).
  { match type of H with bind ?r _ = _ => destruct r as [[[s2 n]|]|?|] eqn:Er end; cbn [bind] in H; try discriminate.
    - inversion H; subst. destruct (io_autolink o); [|discriminate]. apply Hst. eapply haw_stay; exact Er.
    - eapply Htext; eauto. }
  destruct (beqb c x77 && io_autolink o).
  { match type of H with bind ?r _ = _ => destruct r as [[[s2 n]|]|?|] eqn:Er end; cbn [bind] in H; try discriminate.
    - inversion H; subst. apply Hst. eapply haw_stay; exact Er.
    - eapply Htext; eauto. }
  match type of H with (if ?b then _ else _) = _ => destruct b end.
  { destruct (handle_delim o u inp s1 c) as [[[s2 n] d]|?|] eqn:Ed; cbn [bind] in H; try discriminate.
    apply handle_delim_stay in Ed.
    destruct (push_item s2 n) as [s3 i3] eqn:Ep. inversion H; subst s'. clear H.
    assert (s3 = fst (push_item s2 n)) as -> by (rewrite Ep; reflexivity).
    destruct d as [d'|]; [|apply Hst; exact Ed].
    apply (CLR_same4 (fst (push_item s2 n))); [|apply Hst; exact Ed].
    unfold same4. cbn [line coloff refsize pos set_delims]. auto. }
  destruct (beqb c x2d).
  { apply append_ok in H. destruct H as (s2 & n & E & ->). apply Hst. eapply handle_hyphen_stay; eassumption. }
  destruct (beqb c x2e).
  { apply append_ok in H. destruct H as (s2 & n & E & ->). apply Hst. eapply handle_period_stay; eassumption. }
  destruct (beqb c x5b).
  { cbv zeta in H.
    match type of H with bind ?r _ = _ => destruct r as [[[s2 n]|]|?|] eqn:Er end; cbn [bind] in H; try discriminate.
    - inversion H; subst. match type of Er with (if ?b then _ else _) = _ => destruct b end; [|discriminate].
      apply handle_wikilink_stay in Er. apply Hst.
      destruct Er as (A & B & D & E). unfold stay. cbn [line coloff refsize pos set_pos] in *. repeat split; try assumption. lia.
    - match type of H with bind ?r _ = _ => destruct r as [n|?|] end; cbn [bind] in H; try discriminate.
      destruct (push_item _ n) as [s3 i3] eqn:Ep.
      assert (s' = set_within (push_bracket s3 false i3) true) as -> by congruence. clear H.
      assert (s3 = fst (push_item (set_pos s1 (S (pos s1))) n)) as -> by (rewrite Ep; reflexivity).
      eapply CLR_same4; [apply same4_bracket|]. apply Hst. apply Hsp. lia. }
  destruct (beqb c x5d).
  { destruct (handle_close_bracket _ _ _ _ _ _) as [[s2 n]|?|] eqn:Eh; cbn [bind] in H; try discriminate.
    pose proof (adv_close_bracket _ _ _ _ _ _ _ _ Eh) as Hadv. cbn [pos set_within] in Hadv.
    apply hcb_fields in Eh. cbn [line coloff refsize set_within] in Eh. destruct Eh as (A & B & D).
    assert (CLR s2) as I2.
    { split; [eapply CInv_stay; [exact C1|exact B|lia]|]. split; [eapply LInv_stay; [exact Li1|exact A|lia]|].
      unfold RInv, InlinesTotal2Sites.RInv in *. apply D. exact R1. }
    inversion H; subst. destruct n; [apply (CLR_same4 s2); [apply same4_push|exact I2]|exact I2]. }
  destruct (beqb c x21).
  { cbv zeta in H. destruct (peek_eq inp (S (pos s1)) x5b && negb (peek_eq inp (S (S (pos s1))) x5e)).
    - match type of H with bind ?r _ = _ => destruct r as [n|?|] end; cbn [bind] in H; try discriminate.
      destruct (push_item _ n) as [s3 i3] eqn:Ep.
      assert (s' = set_within (push_bracket s3 true i3) true) as -> by congruence. clear H.
      assert (s3 = fst (push_item (set_pos s1 (S (S (pos s1)))) n)) as -> by (rewrite Ep; reflexivity).
      eapply CLR_same4; [apply same4_bracket|]. apply Hst. apply Hsp. lia.
    - apply append_mk_inv in H. destruct H as [n ->]. apply Hst. apply Hsp. lia. }
  destruct (beqb c x24) eqn:Edol.
  { apply append_ok in H. destruct H as (s2 & n & E & ->). apply Hpost. eapply handle_dollars_post; eassumption. }
  cbv zeta in H.
  match type of H with bind ?r _ = _ => destruct r as [contents|?|] end; cbn [bind] in H; try discriminate.
  match type of H with bind ?r _ = _ => destruct r as [[c1 e1]|?|] end; cbn [bind] in H; try discriminate.
  match type of H with bind ?r _ = _ => destruct r as [[c2 sp2]|?|] end; cbn [bind] in H; try discriminate.
  match type of H with bind ?r _ = _ => destruct r as [e|?|] end; cbn [bind] in H; try discriminate.
  apply append_mk_inv in H. destruct H as [n ->]. cbn [push_item fst pos set_sibs set_pos] in P.
  apply Hst. apply Hsp. lia.
Qed.

Lemma step_TInv s s' :
  TInv s -> parse_inline memo o u inp lo start_line refmap maxref s = Ok (Some s') -> TInv s'.
Proof. intros [A B] H. split; [eapply step_CLR; eassumption|eapply step_FInv; eassumption]. Qed.

(* ------------------------------------------------------------------ the loop and the block *)
Lemma loop_TInv : forall fuel s, TInv s ->
  (forall site, inline_loop memo o u inp lo start_line refmap maxref fuel s = Panic site -> allowed site = true)
  /\ (forall s', inline_loop memo o u inp lo start_line refmap maxref fuel s = Ok s' -> TInv s').
Proof.
  induction fuel as [|f IH]; intros s I; cbn [inline_loop]; [split; intros; discriminate|].
  destruct (parse_inline memo o u inp lo start_line refmap maxref s) as [[s1|]|site0|] eqn:E; cbn [bind].
  - apply IH. eapply step_TInv; eassumption.
  - split; [intros; discriminate|]. intros s' H. inversion H; subst. exact I.
  - split; [|intros; discriminate]. intros site H. inversion H; subst. eapply step_sites; eassumption.
  - split; intros; discriminate.
Qed.

Lemma TInv_init rs0 :
  line_endings inp < List.length lo -> (rs0 <= maxref)%N -> TInv (init_st start_line rs0).
Proof.
  intros Hlo Hr. split; [|apply FInv_init]. split; [|split].
  - unfold InlinesTotal2Sites.CInv. cbn [coloff pos Inlines.init_st]. split; [lia|]. split; [lia|]. left. reflexivity.
  - unfold InlinesTotal2Sites.LInv. cbn [line pos Inlines.init_st skipn]. split; [lia|].
    replace (N.to_nat (start_line - start_line)) with 0 by lia. exact Hlo.
  - exact Hr.
Qed.

Theorem inlines_sites_section rs0 site :
  line_endings inp < List.length lo -> (rs0 <= maxref)%N ->
  parse_inlines memo o u inp lo start_line refmap maxref rs0 = Panic site -> allowed site = true.
Proof.
  intros Hlo Hr H. unfold parse_inlines in H.
  destruct (loop_TInv (S (len inp)) (init_st start_line rs0) (TInv_init rs0 Hlo Hr)) as [A B].
  destruct (inline_loop memo o u inp lo start_line refmap maxref (S (len inp)) (init_st start_line rs0)) as [s|site0|] eqn:E;
    cbn [bind] in H; [|inversion H; subst; apply A; reflexivity|discriminate].
  specialize (B s eq_refl). destruct B as [(C & _ & _) F].
  match type of H with bind ?r _ = _ => destruct r as [r0|site0|] eqn:Ep; cbn [bind] in H; try discriminate H end.
  inversion H; subst. eapply process_emphasis_sites; [| |exact Ep].
  - destruct C as (_ & C2 & _). exact C2.
  - apply Forall_forall. intros d Hd. destruct F as [[[G _] _] _]. apply (G d Hd).
Qed.

End Walk.

(* every Panic of the inline phase of a block is at one of the remaining sites *)
Theorem inlines_total_partial_sites_lemma memo o u inp lo sl refmap maxref rs0 site :
  rtrim_slice inp = inp -> first_line_not_blank inp = true -> line_endings inp < List.length lo -> (rs0 <= maxref)%N ->
  parse_inlines memo o u inp lo sl refmap maxref rs0 = Panic site -> In site remaining.
Proof.
  intros Hrt Hfl Hlo Hr H. pose proof (inlines_sites_section memo o u inp lo sl refmap maxref Hrt Hfl rs0 site Hlo Hr H) as A.
  unfold allowed in A. apply existsb_exists in A. destruct A as [x [Hin Heq]].
  apply String.eqb_eq in Heq. subst x. exact Hin.
Qed.

(* the sites of Model/Inlines.v (and of the column arithmetic of Model/Spx.v) that are NOT in `remaining`:
   proved unreachable under the three premises *)
Local Open Scope string_scope.
Definition excluded_sites : list string :=
  [ "inlines.rs:parse_inline:line-start.line";
    "inlines.rs:parse_inline:line_offsets[adjusted_line]";
    "inlines.rs:parse_inline:input[pos..endpos]";
    "inlines.rs:parse_inline:endpos-1";
    "inlines.rs:handle_newline:input[pos]";
    "inlines.rs:handle_newline:input[pos] after CR";
    "inlines.rs:handle_newline:pos-1";
    "inlines.rs:handle_backticks:pos-1";
    "inlines.rs:handle_backticks:endpos-openticks";
    "inlines.rs:handle_backticks:buf";
    "inlines.rs:handle_backticks:endpos-1";
    "inlines.rs:handle_backticks:matchlen";
    "inlines.rs:handle_backslash:unreachable";
    "inlines.rs:handle_backslash:pos-1";
    "inlines.rs:handle_entity:input[pos..]";
    "inlines.rs:handle_entity:pos-1-len";
    "inlines.rs:handle_entity:pos-1";
    "inlines.rs:handle_pointy_brace:input[pos..]";
    "inlines.rs:handle_pointy_brace:uri";
    "inlines.rs:handle_pointy_brace:email";
    "inlines.rs:handle_pointy_brace:contents";
    "inlines.rs:make_autolink:end_column-1";
    "inlines.rs:handle_pointy_brace:pos-1-matchlen";
    "inlines.rs:handle_pointy_brace:pos-matchlen-1";
    "inlines.rs:handle_pointy_brace:pos-1";
    "inlines.rs:handle_delim:pos-numdelims";
    "inlines.rs:handle_delim:contents";
    "inlines.rs:handle_delim:pos-1";
    "inlines.rs:scan_to_closing_dollar:pos-1";
    "inlines.rs:scan_to_closing_dollar:input[pos-1]";
    "inlines.rs:scan_to_closing_code_dollar:pos-1";
    "inlines.rs:scan_to_closing_code_dollar:input[pos-1]";
    "inlines.rs:handle_dollars:endpos-fence_length";
    "inlines.rs:handle_dollars:buf";
    "inlines.rs:handle_dollars:matchlen";
    "inlines.rs:handle_dollars:pos-fence_length";
    "inlines.rs:handle_dollars:pos-1";
    "inlines.rs:adjust_node_newlines:pos-matchlen-extra";
    "inlines.rs:adjust_node_newlines:pos-extra";
    "inlines.rs:adjust_node_newlines:slice";
    "inlines.rs:adjust_node_newlines:line-start.line";
    "inlines.rs:adjust_node_newlines:parent_line_offsets[adjusted_line]";
    "parser/inlines.rs:make_inline:try_from.unwrap";
    "inlines.rs:end_column:try_from.unwrap";
    "inlines.rs:process_emphasis:unreachable";
    "inlines.rs:brackets[brackets_len - 1]";
    "inlines.rs:RefMap::lookup:max_ref_size-ref_size";
    "inlines.rs:handle_close_bracket:input[endurl..]";
    "inlines.rs:handle_close_bracket:input[starttitle..]";
    "inlines.rs:handle_close_bracket:input[endtitle..]";
    "inlines.rs:handle_close_bracket:title";
    "strings.rs:clean_title:title[1..title_len - 1]";
    "inlines.rs:handle_wikilink:startpos-1";
    "inlines.rs:label_backslash_escapes:start_column+offset-1";
    "autolink.rs:www_match:i+link_end-1";
    "inlines.rs:handle_autolink_with:skip-need_reverse";
    "autolink.rs:check_domain:data.len() - 1";
    "autolink.rs:autolink_delim:link_end - 2";
    "autolink.rs:autolink_delim:data[new_end]";
    "autolink.rs:autolink_delim:data[link_end - 1]" ].

Lemma excluded_disjoint : forallb (fun x => negb (existsb (String.eqb x) remaining)) excluded_sites = true.
Proof. vm_compute. reflexivity. Qed.

Theorem inlines_total_partial_unreachable_lemma memo o u inp lo sl refmap maxref rs0 site :
  rtrim_slice inp = inp -> first_line_not_blank inp = true -> line_endings inp < List.length lo -> (rs0 <= maxref)%N ->
  In site excluded_sites -> parse_inlines memo o u inp lo sl refmap maxref rs0 <> Panic site.
Proof.
  intros Hrt Hfl Hlo Hr Hin H.
  apply (inlines_total_partial_sites_lemma memo o u inp lo sl refmap maxref rs0 site Hrt Hfl Hlo Hr) in H.
  pose proof excluded_disjoint as D. rewrite forallb_forall in D. specialize (D site Hin).
  apply negb_true_iff in D.
  assert (existsb (String.eqb site) remaining = true) as E.
  { apply existsb_exists. exists site. split; [exact H|apply String.eqb_refl]. }
  congruence.
Qed.
