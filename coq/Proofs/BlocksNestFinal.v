(* Proofs/BlocksNestFinal.v — C11 for the block phase, part 4: the front matter prologue, parse_blocks, the statements on
   the public tree (line bounds for every value but FrontMatter under every option set; start-line nesting with the
   description list extension off) and the witnesses for what is false (computed on the model, replayed on the compiled
   parser: the model is tied to it by tools/checks/blocks_tie.py). *)
From Coq Require Import List NArith Arith Bool Lia Strings.String.
From V Require Import Base.Bytes Base.Res Gen.StrLeafGen Gen.FeedConst Gen.Nodes Gen.BlocksConst Model.Ast Model.Strings
  Model.Feed Model.FrontMatter Model.RefDef Model.Scan Model.Blocks Spec.Shape Spec.HtmlSpec Spec.Valid
  Proofs.FeedProofs Proofs.BlocksProofs Proofs.BlocksCursor
  Proofs.ParserShapeBlocks Proofs.ParserShapeTree Proofs.ParserShapeTabPrim Proofs.ParserShapeTables
  Proofs.ParserShapeTablesRead Proofs.BlocksNest Proofs.BlocksNestTab Proofs.BlocksNestRun.
From V Require Proofs.BlocksPos Proofs.BlocksPosRun.
Import ListNotations.
Local Open Scope string_scope.
Local Open Scope list_scope.

Notation block_lines := BlocksPosRun.block_lines.
Notation nsub := BlocksPosRun.nsub.

(* ================================================================== the prologue *)
Lemma XI_init o : XI o 0 1 init_state.
Proof.
  split; [reflexivity|]. cbn [ps_root init_state]. apply tn_node. split; [|constructor].
  unfold Q, Qa, Qb, max1. cbn [bi_sl bi_el bi_val bi_lo is_fm]. repeat split; intros; try discriminate; lia.
Qed.

Lemma front_matter_prologue_xi o x st rest :
  front_matter_prologue o init_state x = Ok (st, rest) -> XI o (ps_line_number st) 1 st.
Proof.
  unfold front_matter_prologue. intro H.
  destruct (bo_front_matter_delimiter o) as [d|]; [|inversion H; subst; apply XI_init].
  destruct (split_off_front_matter x d) as [[[fm rest']|]| |]; cbn [bind] in H; try discriminate H;
    [|inversion H; subst; apply XI_init].
  destruct (remove_trailing_blank_lines fm) as [stripped| |]; cbn [bind] in H; try discriminate H.
  cbn in H. inversion H; subst. clear H. cbn. split; [reflexivity|]. cbn.
  unfold Q, Qa, Qb, rl, max1. cbn.
  repeat split; intros; try discriminate; try (destruct (count_line_endings fm); lia).
Qed.

(* ================================================================== parse_blocks *)
Theorem parse_blocks_xi o x r :
  parse_blocks o x = Ok r -> tn (Q (block_lines o x) 1) (rl (bo_description_lists o)) (br_root r).
Proof.
  unfold parse_blocks. intro H.
  destruct (front_matter_prologue o init_state x) as [[st rest]| |] eqn:E; cbn [bind] in H; try discriminate H.
  pose proof (front_matter_prologue_xi _ _ _ _ E) as X.
  destruct (BlocksPosRun.front_matter_prologue_pil _ _ _ _ E) as [_ El].
  assert (V : TI o [] st) by (eapply front_matter_prologue_TI; [exact E | apply TI_init]).
  assert (SVh : SV st) by (eapply front_matter_prologue_valid; [exact E | apply SV_init]).
  unfold lines in El. destruct (feed_lines rest) as [ls total]. cbn [fst] in El.
  destruct (run_lines o st ls) as [st1| |] eqn:R; cbn [bind] in H; try discriminate H.
  inversion H; subst. cbn [br_root]. rewrite <- El.
  exact (proj2 (run_lines_xi _ _ _ _ _ _ R (conj V (conj SVh X)))).
Qed.

(* ---- reading it on the nodes of the tree *)
Lemma tn_sub P rel : forall t b, tn P rel t -> In b (bsub t) -> tn P rel b.
Proof.
  induction t as [i ch IH] using bnode_ind2. intros b A Hb. cbn [bsub] in Hb. destruct Hb as [<-|Hb]; [exact A|].
  apply in_flat_map in Hb. destruct Hb as [y [Hy Hb]]. apply tn_node in A. destruct A as [_ A].
  rewrite Forall_forall in IH, A. exact (IH y Hy b (proj2 (A y Hy)) Hb).
Qed.

Lemma nsub_to_node t : forall n, In n (nsub (to_node t)) -> exists b, In b (bsub t) /\ n = to_node b.
Proof. exact (BlocksPosRun.nsub_to_node t). Qed.

(* (1) line bounds: every value except FrontMatter, every option set *)
Theorem parse_blocks_lines o x r :
  parse_blocks o x = Ok r ->
  forall n, In n (nsub (to_node (br_root r))) ->
  match nval n with FrontMatter _ => True | _ =>
    (sl (nsp n) <= N.max 1 (N.of_nat (block_lines o x)))%N /\ (el (nsp n) <= N.max 1 (N.of_nat (block_lines o x)))%N
  end.
Proof.
  intros H n I. destruct (nsub_to_node _ _ I) as [b [Ib ->]].
  pose proof (tn_binf _ _ _ (tn_sub _ _ _ _ (parse_blocks_xi _ _ _ H) Ib)) as [[A B] _].
  destruct b as [i ch]. cbn [binf to_node nval nsp sl el] in *. unfold max1 in *.
  destruct (bi_val i); try exact Logic.I; (split; [|specialize (B eq_refl)]; lia).
Qed.

(* the start line of the FrontMatter node is bounded as well (its end line is not) *)
Theorem parse_blocks_start_line o x r :
  parse_blocks o x = Ok r ->
  forall n, In n (nsub (to_node (br_root r))) -> (sl (nsp n) <= N.max 1 (N.of_nat (block_lines o x)))%N.
Proof.
  intros H n I. destruct (nsub_to_node _ _ I) as [b [Ib ->]].
  pose proof (tn_binf _ _ _ (tn_sub _ _ _ _ (parse_blocks_xi _ _ _ H) Ib)) as [[A _] _].
  destruct b as [i ch]. cbn [binf to_node nval nsp sl el] in *. unfold max1 in *. lia.
Qed.

(* (2) start-line nesting: description lists off *)
Theorem parse_blocks_start_nest o x r :
  parse_blocks o x = Ok r -> bo_description_lists o = false ->
  forall n, In n (nsub (to_node (br_root r))) -> forall c, In c (nch n) -> (sl (nsp n) <= sl (nsp c))%N.
Proof.
  intros H D n I c Hc. destruct (nsub_to_node _ _ I) as [b [Ib ->]].
  pose proof (tn_sub _ _ _ _ (parse_blocks_xi _ _ _ H) Ib) as Tb.
  rewrite to_node_kids in Hc. apply in_map_iff in Hc. destruct Hc as [k [<- Hk]].
  destruct (tn_kid _ _ _ _ Tb Hk) as [R _]. specialize (R D).
  destruct b as [i ch]. destruct k as [j chk]. cbn [binf to_node nsp sl] in *. lia.
Qed.

(* a paragraph keeps at most one line_offsets entry per line it has seen *)
Theorem parse_blocks_line_offsets o x r :
  parse_blocks o x = Ok r ->
  forall b, In b (bsub (br_root r)) -> bval b = Paragraph ->
  bi_sl (binf b) + List.length (bi_lo (binf b)) <= block_lines o x + 1.
Proof.
  intros H b Ib Vp. pose proof (tn_binf _ _ _ (tn_sub _ _ _ _ (parse_blocks_xi _ _ _ H) Ib)) as [_ C]. exact (C Vp).
Qed.

(* ================================================================== witnesses *)
Definition o_dl : bopts := mkBO false false true false false false false false None None (fun v => v).

(* with description lists the paragraph that becomes the term keeps its start, the DescriptionTerm created around it
   starts on the line of the colon: the parent starts AFTER its child (known class C11-l) *)
Lemma start_nest_description_term_refuted :
  BlocksPosRun.parsed_positions o_dl (B "a" ++ [x0a; x0a] ++ B ": b" ++ [x0a])
    = Ok [(KDocument, (1, 1, 3, 3))%N; (KDescriptionList, (1, 1, 3, 3))%N; (KDescriptionItem, (1, 1, 3, 3))%N;
          (KDescriptionTerm, (3, 1, 3, 0))%N; (KParagraph, (1, 1, 1, 1))%N;
          (KDescriptionDetails, (3, 1, 3, 3))%N; (KParagraph, (3, 3, 3, 3))%N].
Proof. vm_compute. reflexivity. Qed.

(* non-vacuity of the nesting statement: a table that follows paragraph lines (the paragraph start is moved) *)
Definition o_tbl : bopts := mkBO true false false false false false false false None None (fun v => v).
Lemma table_after_paragraph_example :
  BlocksPosRun.parsed_positions o_tbl (B "x" ++ [x0a] ++ B "y" ++ [x0a] ++ B "a|b" ++ [x0a] ++ B "-|-" ++ [x0a] ++ B "c|d" ++ [x0a])
    = Ok [(KDocument, (1, 1, 5, 3))%N; (KParagraph, (1, 1, 2, 1))%N; (KTable, (3, 1, 5, 3))%N;
          (KTableRow, (3, 1, 3, 3))%N; (KTableCell, (3, 1, 3, 1))%N; (KTableCell, (3, 3, 3, 3))%N;
          (KTableRow, (5, 1, 5, 3))%N; (KTableCell, (5, 1, 5, 1))%N; (KTableCell, (5, 3, 5, 3))%N].
Proof. vm_compute. reflexivity. Qed.
