(* Proofs/BlocksTotal4FuelTree.v — totality of the block phase, fourth round, fuel, part 2: the loops on the tree whose
   tree does not change shape.

     size t            number of nodes (= |ids t|);  W o st -> size (ps_root st) <= ps_next st        (W_size: pigeonhole)
     ssz st x          size of the subtree at the node with identifier x (0 when absent)
     up t x n          the chain of parent_of from x to a node without parent has n steps
     up_exists         W o st -> has st x -> exists n, up (ps_root st) x n /\ n + ssz st x <= size (ps_root st)
                       (a parent's subtree is strictly larger than its child's: parent_ssz)

     check_open_blocks_inner   descends: fuel > size of the subtree at `container` is enough (cobi_fuel_gen); the tree is
                               the same as long as the loop goes on (CK of Proofs/BlocksTotal2Walk.v)
     clear_llb_up, reopen_ast_nodes   climb: fuel > length of the chain is enough; modify_info keeps parent_of *)
From Coq Require Import List NArith Arith Bool Lia Strings.String.
From V Require Import Base.Bytes Base.Res Gen.Nodes Model.Ast Model.Strings Model.Feed Model.FrontMatter Model.RefDef
  Model.Scan Model.Blocks Spec.Shape Spec.Valid Proofs.BlocksProofs Proofs.BlocksCursor Proofs.BlocksTight
  Proofs.ParserShapeBlocks Proofs.ParserShapeTree Proofs.ParserShapeTabPrim Proofs.ParserShapeTables
  Proofs.BlocksTotal Proofs.BlocksTotal2Safe Proofs.BlocksTotal2Root Proofs.BlocksTotal2Tree Proofs.BlocksTotal2Walk
  Proofs.BlocksTotal3Cur Proofs.BlocksTotal4Fuel.
Import ListNotations.
Local Open Scope string_scope.
Local Open Scope list_scope.

(* ================================================================== size *)
Definition size (t : bnode) : nat := List.length (ids t).

Lemma size_node i ch : size (BNode i ch) = S (List.length (fids ch)).
Proof. reflexivity. Qed.

Lemma size_pos t : 1 <= size t.
Proof. destruct t. rewrite size_node. lia. Qed.

Lemma fids_len_in c : forall ch, In c ch -> size c <= List.length (fids ch).
Proof.
  induction ch as [|d r IH]; intro H; [destruct H|]. rewrite fids_cons, app_length.
  destruct H as [->|H]; [unfold size; lia | specialize (IH H); lia].
Qed.

Lemma kid_size c n : In c (bkids n) -> size c < size n.
Proof. destruct n as [i ch]. cbn [bkids]. intro H. rewrite size_node. pose proof (fids_len_in c ch H). lia. Qed.

Lemma sub_size : forall t n, In n (bsub t) -> size n <= size t.
Proof.
  induction t as [i ch IH] using bnode_ind2. intros n H. cbn [bsub] in H. destruct H as [<-|H]; [lia|].
  apply in_flat_map in H. destruct H as [x [Hx Hn]]. rewrite Forall_forall in IH. specialize (IH x Hx n Hn).
  pose proof (kid_size x (BNode i ch) Hx). lia.
Qed.

(* pigeonhole: pairwise distinct numbers below n are at most n *)
Lemma distinct_below_length (l : list nat) n :
  (forall x, cnt x l <= 1) -> (forall x, In x l -> x < n) -> List.length l <= n.
Proof.
  intros U B. assert (ND : NoDup l) by (apply (NoDup_count_occ Nat.eq_dec); exact U).
  rewrite <- (seq_length n 0). apply NoDup_incl_length; [exact ND|].
  intros x Hx. apply in_seq. specialize (B x Hx). lia.
Qed.

Theorem W_size o st : W o st -> size (ps_root st) <= ps_next st.
Proof.
  intro V. unfold size. apply distinct_below_length; [exact (W_uq _ _ V)|].
  intros x Hx. exact (has_lt _ _ _ V Hx).
Qed.

Lemma get_size st x n : get st x = Ok n -> size n <= size (ps_root st).
Proof. intro G. apply sub_size. eapply get_sub; exact G. Qed.

(* ================================================================== the subtree at an identifier *)
Definition ssz (st : pstate) (x : nat) : nat :=
  match find_node x (ps_root st) with Some n => size n | None => 0 end.

Lemma ssz_get st x n : get st x = Ok n -> ssz st x = size n.
Proof. intro G. unfold ssz. now rewrite (get_find _ _ _ G). Qed.

Lemma ssz_le st x : ssz st x <= size (ps_root st).
Proof.
  unfold ssz. destruct (find_node x (ps_root st)) as [n|] eqn:F; [|lia].
  apply sub_size. now destruct (find_node_sub _ _ _ F).
Qed.

Lemma ssz_has st x : has st x -> 1 <= ssz st x.
Proof. intro H. destruct (has_get _ _ H) as [n G]. rewrite (ssz_get _ _ _ G). apply size_pos. Qed.

Lemma parent_ssz o st x p : W o st -> parent_of x (ps_root st) = Some p -> ssz st x < ssz st p.
Proof.
  intros V P. destruct (parent_of_kid _ _ _ P) as (pn & c & A & B & C & D).
  pose proof (get_unique _ _ _ V A) as Gp. rewrite B in Gp.
  assert (Hc : In c (bsub (ps_root st))) by (eapply bsub_kid_of; eassumption).
  pose proof (get_unique _ _ _ V Hc) as Gc. rewrite D in Gc.
  rewrite (ssz_get _ _ _ Gp), (ssz_get _ _ _ Gc). now apply kid_size.
Qed.

(* ================================================================== the chain of parents *)
Inductive up (t : bnode) : nat -> nat -> Prop :=
| up0 x : parent_of x t = None -> up t x 0
| upS x p n : parent_of x t = Some p -> up t p n -> up t x (S n).

Lemma up_ext t t' : (forall y, parent_of y t' = parent_of y t) -> forall x n, up t x n -> up t' x n.
Proof.
  intros E x n H. induction H as [x P|x p n P _ IH].
  - apply up0. now rewrite E.
  - eapply upS; [rewrite E; exact P | exact IH].
Qed.

Lemma up_exists_gen o st : W o st -> forall k x, size (ps_root st) - ssz st x <= k -> has st x ->
  exists n, up (ps_root st) x n /\ n + ssz st x <= size (ps_root st).
Proof.
  intro V. induction k as [|k IH]; intros x Hk Hx.
  - pose proof (ssz_le st x) as L. destruct (parent_of x (ps_root st)) as [p|] eqn:P.
    + pose proof (parent_ssz _ _ _ _ V P) as Lt. pose proof (ssz_le st p). lia.
    + exists 0. split; [now apply up0 | lia].
  - pose proof (ssz_le st x) as L. destruct (parent_of x (ps_root st)) as [p|] eqn:P.
    + pose proof (parent_ssz _ _ _ _ V P) as Lt. pose proof (ssz_le st p) as Lp.
      destruct (IH p ltac:(lia) (parent_has _ _ _ P)) as (n & U & B).
      exists (S n). split; [eapply upS; eassumption | lia].
    + exists 0. split; [now apply up0 | lia].
Qed.

Theorem up_exists o st x : W o st -> has st x ->
  exists n, up (ps_root st) x n /\ n + ssz st x <= size (ps_root st).
Proof. intros V H. eapply up_exists_gen; [exact V | apply le_n | exact H]. Qed.

(* every identifier, present or not, has a chain shorter than ps_next *)
Theorem up_lt_next o st x : W o st -> exists n, up (ps_root st) x n /\ n < ps_next st.
Proof.
  intro V. pose proof (W_size _ _ V) as Sz.
  destruct (parent_of x (ps_root st)) as [p|] eqn:P.
  - destruct (parent_facts _ _ _ _ V P) as (_ & Hx & _).
    destruct (up_exists _ _ _ V Hx) as (n & U & B). pose proof (ssz_has _ _ Hx). exists n. split; [exact U | lia].
  - exists 0. split; [now apply up0|]. pose proof (has_lt _ _ _ V (has_root _ _ V)). lia.
Qed.

(* ================================================================== check_open_blocks_inner *)
Theorem cobi_fuel_gen o line : forall fuel st container cn,
  W o st -> get st container = Ok cn -> size cn < fuel ->
  check_open_blocks_inner fuel o st line container <> OutOfFuel.
Proof.
  induction fuel as [|f IH]; intros st container cn V G Hf; [lia|]. cbn [check_open_blocks_inner].
  unfold last_child_is_open, last_child. rewrite G. cbn [bind].
  destruct (last_opt (bkids cn)) as [c|] eqn:L; [destruct (bi_open (binf c)) eqn:O|]; cbn [bind]; try discriminate.
  apply last_opt_in in L.
  pose proof (kid_has _ _ _ _ G L) as Hc. pose proof (kid_not_root _ _ _ _ _ V G L) as Nr. rewrite (W_R0 _ _ V) in Nr.
  apply bind_fuel; [apply nf_ne, nf_ffn|]. intros s1 E1. pose proof (ffn_eqtree _ _ _ E1) as T1.
  pose proof (W_eqtree _ _ _ T1 V) as V1. pose proof (has_eqtree _ _ _ T1 Hc) as H1.
  apply bind_fuel; [apply nf_ne, nf_get|]. intros c1 G1. destruct (find_node_sub _ _ _ (get_find _ _ _ G1)) as [B1 _].
  assert (S : safe (CK o s1 (bid c1)) (check_container o s1 line c1)) by (apply check_container_spec; rewrite ?B1; assumption).
  apply bind_fuel; [apply check_container_fuel|]. intros [[matched cont] s2] E2. pose proof (safe_ok _ _ _ S E2) as K. cbn in K.
  destruct matched; [|discriminate].
  destruct cont; [|destruct K as [K _]; discriminate K].
  pose proof (eqtree_trans _ _ _ T1 K) as T2.
  assert (Hs : In c (bsub (ps_root st))) by (eapply bsub_kid_of; [eapply get_sub; exact G | exact L]).
  pose proof (get_unique _ _ _ V Hs) as Gc.
  apply (IH s2 (bid c) c).
  - eapply W_eqtree; eassumption.
  - unfold get in Gc |- *. destruct T2 as (R & _). rewrite R. exact Gc.
  - pose proof (kid_size _ _ L). lia.
Qed.

Theorem cobi_fuel o st line container : W o st -> has st container ->
  check_open_blocks_inner (S (ps_next st)) o st line container <> OutOfFuel.
Proof.
  intros V H. destruct (has_get _ _ H) as [cn G]. eapply cobi_fuel_gen; [exact V | exact G|].
  pose proof (get_size _ _ _ G). pose proof (W_size _ _ V). lia.
Qed.

Theorem check_open_blocks_fuel o st line : W o st -> check_open_blocks o st line <> OutOfFuel.
Proof.
  intro V. unfold check_open_blocks. apply bind_fuel; [apply cobi_fuel; [exact V | now apply (has_root o)]|].
  intros [[[am c] cont] s1] _. apply bind_fuel.
  - destruct am; [discriminate|]. destruct (parent_of c (ps_root s1)); discriminate.
  - intros c1 _. destruct cont; discriminate.
Qed.

(* ================================================================== clear_llb_up, reopen_ast_nodes *)
Lemma modify_info_up st id g st' x n :
  (forall i, bi_id (g i) = bi_id i) -> modify_info st id g = Ok st' -> up (ps_root st) x n -> up (ps_root st') x n.
Proof. intros Hg M. apply up_ext. intro y. eapply modify_info_parent_of; eassumption. Qed.

Theorem clear_llb_up_fuel_gen : forall fuel st id n,
  up (ps_root st) id n -> n < fuel -> clear_llb_up fuel st id <> OutOfFuel.
Proof.
  induction fuel as [|f IH]; intros st id n U Hf; [lia|]. cbn [clear_llb_up].
  inversion U as [x P|x p n' P U']; subst; rewrite P; [discriminate|].
  apply bind_fuel; [apply nf_ne, nf_modify_info|]. intros st1 M.
  apply (IH st1 p n'); [|lia]. eapply modify_info_up; [|exact M | exact U']. reflexivity.
Qed.

Theorem clear_llb_up_fuel o st id : W o st -> clear_llb_up (S (ps_next st)) st id <> OutOfFuel.
Proof. intro V. destruct (up_lt_next _ _ id V) as (n & U & L). eapply clear_llb_up_fuel_gen; [exact U | lia]. Qed.

Theorem reopen_ast_nodes_fuel_gen : forall fuel st id n,
  up (ps_root st) id n -> n < fuel -> reopen_ast_nodes fuel st id <> OutOfFuel.
Proof.
  induction fuel as [|f IH]; intros st id n U Hf; [lia|]. cbn [reopen_ast_nodes].
  apply bind_fuel; [apply nf_ne, nf_modify_info|]. intros st1 M.
  assert (Hg : forall i, bi_id (set_open true i) = bi_id i) by reflexivity.
  rewrite (modify_info_parent_of _ _ _ _ id Hg M).
  inversion U as [x P|x p n' P U']; subst; rewrite P; [discriminate|].
  apply (IH st1 p n'); [|lia]. eapply modify_info_up; [exact Hg | exact M | exact U'].
Qed.

Theorem reopen_ast_nodes_fuel o st id : W o st -> reopen_ast_nodes (S (ps_next st)) st id <> OutOfFuel.
Proof. intro V. destruct (up_lt_next _ _ id V) as (n & U & L). eapply reopen_ast_nodes_fuel_gen; [exact U | lia]. Qed.
