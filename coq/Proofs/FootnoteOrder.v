(* Proofs/FootnoteOrder.v — "footnotes are numbered 1..n in order of first reference", proved of the
   reference walk of Model/Footnotes (find_footnote_references) for every tree, every label
   normalisation and every starting map that satisfies the walk invariant.

   fs_ok c l walks the numbers carried by the reference nodes in document order with the count c of
   numbers issued so far: a number is either one already issued (1 <= x <= c) or the next new one
   (x = c + 1); anything else is an error (None).  The result is the final count.  The theorem says that
   the tree produced by the walk passes this test from 0 and ends at exactly the walk's own counter,
   and the corollary restates it with the Spec's first_seen: the first occurrences are 1, 2, .., ix.

   Premise refs_leaf: a FootnoteReference node has no children (an unresolved reference becomes a Text
   node that KEEPS the children, which the walk never visited).  The inline parser makes references
   through make_inline, without children. *)
From Coq Require Import List NArith Bool Lia Permutation.
From V Require Import Base.Bytes Model.Ast Model.Footnotes Spec.FootnoteSpec Spec.Valid Proofs.FootnoteProofs.
Import ListNotations.
Local Open Scope list_scope.

Fixpoint refs_leaf (n : node) : bool :=
  match n with
  | Node v _ ch =>
    match v with
    | FootnoteReference _ _ _ => match ch with [] => true | _ => false end
    | _ => forallb refs_leaf ch
    end
  end.

Fixpoint fs_ok (c : N) (l : list N) : option N :=
  match l with
  | [] => Some c
  | x :: r =>
    if ((1 <=? x) && (x <=? c))%N then fs_ok c r
    else if (x =? c + 1)%N then fs_ok (c + 1) r
    else None
  end.

Definition ref_ixs (n : node) : list N := map snd (all_refs n).

Lemma fs_ok_app l1 : forall c c1 l2, fs_ok c l1 = Some c1 -> fs_ok c (l1 ++ l2) = fs_ok c1 l2.
Proof.
  induction l1 as [|x r IH]; intros c c1 l2 H; cbn [fs_ok app] in *.
  - injection H as <-. reflexivity.
  - destruct ((1 <=? x) && (x <=? c))%N; [apply IH; exact H|].
    destruct (x =? c + 1)%N; [apply IH; exact H | discriminate].
Qed.

Lemma fs_ok_mono l : forall c c1, fs_ok c l = Some c1 -> (c <= c1)%N.
Proof.
  induction l as [|x r IH]; intros c c1 H; cbn [fs_ok] in H.
  - injection H as <-. lia.
  - destruct ((1 <=? x) && (x <=? c))%N; [apply IH; exact H|].
    destruct (x =? c + 1)%N; [|discriminate]. apply IH in H. lia.
Qed.

Section Order.
  Variable fold : bytes -> bytes.
  Variable pres : bytes -> bytes.

  Lemma map_get_in k m f : map_get k m = Some f -> In f m.
  Proof.
    intro G. destruct (map_get_split _ _ _ G) as [l1 [l2 [-> _]]]. apply in_or_app. right. left. reflexivity.
  Qed.

  Lemma in_ixs f m i : In f m -> f_ix f = Some i -> In (Some i) (ixs m).
  Proof.
    intros I E. unfold ixs. rewrite <- E. apply in_map. apply filter_In. split; [exact I|].
    unfold has_ix. rewrite E. reflexivity.
  Qed.

  Definition order_at (n : node) : Prop :=
    forall st, inv st -> refs_leaf n = true ->
      fs_ok (snd st) (ref_ixs (fst (refs fold pres n st))) = Some (snd (snd (refs fold pres n st))).

  Lemma ref_ixs_nonref v sp ch : is_ref v = false ->
    ref_ixs (Node v sp ch) = flat_map ref_ixs ch.
  Proof.
    intro R. unfold ref_ixs.
    assert (all_refs (Node v sp ch) = flat_map all_refs ch) as -> by (destruct v; try discriminate; reflexivity).
    induction ch as [|c r IH]; [reflexivity|]. cbn [flat_map]. rewrite map_app, IH. reflexivity.
  Qed.

  Lemma refs_leaf_nonref v sp ch : is_ref v = false ->
    refs_leaf (Node v sp ch) = forallb refs_leaf ch.
  Proof. intro R. destruct v; try discriminate; reflexivity. Qed.

  Lemma order_list ch : Forall order_at ch -> forall st, inv st -> forallb refs_leaf ch = true ->
    fs_ok (snd st) (flat_map ref_ixs (fst (refs_list fold pres ch st))) = Some (snd (snd (refs_list fold pres ch st))).
  Proof.
    induction 1 as [|c r Hc _ IHr]; intros st I L; cbn [refs_list].
    - reflexivity.
    - cbn [forallb] in L. apply andb_prop in L. destruct L as [Lc Lr].
      specialize (Hc st I Lc). pose proof (refs_inv_node fold pres c st I) as I1.
      destruct (refs fold pres c st) as [c' st1]. cbn [fst snd] in Hc, I1.
      specialize (IHr st1 I1 Lr). destruct (refs_list fold pres r st1) as [r' st2]. cbn [fst snd] in IHr |- *.
      cbn [flat_map]. rewrite (fs_ok_app _ _ _ _ Hc). exact IHr.
  Qed.

  Lemma order_node : forall n, order_at n.
  Proof.
    induction n as [v sp ch IH] using node_ind2. intros st I L.
    destruct (is_ref v) eqn:R.
    - destruct v; try discriminate. cbn [refs_leaf] in L. destruct ch; [|discriminate]. cbn [refs].
      destruct (map_get (fold name) (fst st)) as [f|] eqn:G.
      + destruct (f_ix f) as [i|] eqn:Fi; cbn [fst snd]; unfold ref_ixs; cbn [all_refs map snd fs_ok].
        * destruct I as [_ [BD _]]. rewrite Forall_forall in BD.
          destruct (BD _ (in_ixs _ _ _ (map_get_in _ _ _ G) Fi)) as [j [Ej Hj]]. injection Ej as <-.
          assert (((1 <=? i) && (i <=? snd st))%N = true) as ->; [|reflexivity].
          apply andb_true_intro. split; apply N.leb_le; lia.
        * assert (((1 <=? snd st + 1) && (snd st + 1 <=? snd st))%N = false) as ->.
          { apply andb_false_intro2. apply N.leb_gt. lia. }
          rewrite N.eqb_refl. reflexivity.
      + cbn [fst snd]. unfold ref_ixs. cbn [all_refs flat_map map fs_ok]. reflexivity.
    - rewrite refs_nonref by exact R. rewrite refs_leaf_nonref in L by exact R.
      pose proof (order_list ch IH st I L) as O.
      destruct (refs_list fold pres ch st) as [ch' st']. cbn [fst snd] in O |- *.
      rewrite ref_ixs_nonref by exact R. exact O.
  Qed.

  (* numbered 1..n in order of first reference: the whole walk of process, from the collected map *)
  Theorem refs_numbered_in_order root : refs_leaf root = true ->
    let r := refs fold pres root (collect fold pres (top_defs root) 0 [], 0%N) in
    fs_ok 0 (ref_ixs (fst r)) = Some (snd (snd r)).
  Proof.
    intro L. cbv zeta.
    apply (order_node root (collect fold pres (top_defs root) 0 [], 0%N)); [|exact L].
    unfold inv. cbn [fst snd]. rewrite collect_ixs by reflexivity.
    repeat split; [constructor | constructor | intros i Hi; lia].
  Qed.
End Order.

(* ---- the same fact in the Spec's vocabulary: the first occurrences are c+1, c+2, .., c1 ---- *)
Fixpoint nseq (a : N) (k : nat) : list N :=
  match k with O => [] | S k' => a :: nseq (a + 1) k' end.

Lemma first_seen_ext l : forall s1 s2, (forall x, In x s1 <-> In x s2) -> first_seen s1 l = first_seen s2 l.
Proof.
  induction l as [|x r IH]; intros s1 s2 E; cbn [first_seen]; [reflexivity|].
  assert (existsb (N.eqb x) s1 = existsb (N.eqb x) s2) as ->.
  { apply eq_true_iff_eq. rewrite !existsb_exists. split; intros [y [Hy Ey]]; exists y; (split; [apply E; exact Hy | exact Ey]). }
  destruct (existsb (N.eqb x) s2).
  - apply IH, E.
  - f_equal. apply IH. intro y. cbn [In]. rewrite E. reflexivity.
Qed.

Lemma fs_ok_first_seen l : forall c c1 seen,
  (forall x, In x seen <-> (1 <= x <= c)%N) -> fs_ok c l = Some c1 ->
  first_seen seen l = nseq (c + 1) (N.to_nat (c1 - c)).
Proof.
  induction l as [|x r IH]; intros c c1 seen HS H; cbn [fs_ok first_seen] in *.
  - injection H as <-. rewrite N.sub_diag. reflexivity.
  - destruct ((1 <=? x) && (x <=? c))%N eqn:B.
    + apply andb_prop in B. destruct B as [B1 B2]. apply N.leb_le in B1, B2.
      assert (existsb (N.eqb x) seen = true) as ->.
      { apply existsb_exists. exists x. split; [apply HS; lia | apply N.eqb_refl]. }
      apply (IH _ _ _ HS H).
    + destruct (x =? c + 1)%N eqn:E; [|discriminate]. apply N.eqb_eq in E. subst x.
      assert (existsb (N.eqb (c + 1)%N) seen = false) as ->.
      { destruct (existsb (N.eqb (c + 1)%N) seen) eqn:X; [|reflexivity].
        apply existsb_exists in X. destruct X as [y [Hy Ey]]. apply N.eqb_eq in Ey. subst y. apply HS in Hy. lia. }
      pose proof (fs_ok_mono _ _ _ H) as M.
      replace (N.to_nat (c1 - c)) with (S (N.to_nat (c1 - (c + 1)))) by lia.
      cbn [nseq]. f_equal. apply (IH (c + 1)%N c1); [|exact H].
      intro y. cbn [In]. rewrite HS. lia.
Qed.

Theorem refs_first_seen (fold pres : bytes -> bytes) root : refs_leaf root = true ->
  let r := refs fold pres root (collect fold pres (top_defs root) 0 [], 0%N) in
  first_seen [] (ref_ixs (fst r)) = nseq 1 (N.to_nat (snd (snd r))).
Proof.
  intro L. cbv zeta. pose proof (refs_numbered_in_order fold pres root L) as H. cbv zeta in H.
  pose proof (fs_ok_first_seen _ 0%N _ [] (fun x => ltac:(cbn [In]; lia)) H) as F.
  rewrite N.sub_0_r in F. exact F.
Qed.

(* non-vacuity: a tree with two labels referenced b, a, b; the walk numbers b = 1, a = 2 *)
Definition w_order : node :=
  nd Document [nd Paragraph [nd (FootnoteReference [x62] 0 0) []; nd (FootnoteReference [x61] 0 0) [];
                             nd (FootnoteReference [x62] 0 0) []];
               nd (FootnoteDefinition [x61] 0) [nd Paragraph [nd (Text [x78]) []]];
               nd (FootnoteDefinition [x62] 0) [nd Paragraph [nd (Text [x79]) []]]].

Lemma w_order_example :
  refs_leaf w_order = true /\
  ref_ixs (fst (refs idb idb w_order (collect idb idb (top_defs w_order) 0 [], 0%N))) = [1; 2; 1]%N /\
  snd (snd (refs idb idb w_order (collect idb idb (top_defs w_order) 0 [], 0%N))) = 2%N.
Proof. vm_compute. repeat split; reflexivity. Qed.

(* the premise in the vocabulary of C04: Spec.Valid.leaves_ok (FootnoteReference is a leaf kind there; Parse_valid proves
   structurally_valid, hence leaves_ok, of every tree the parser model returns) implies refs_leaf *)
Lemma leaves_ok_refs_leaf : forall n, leaves_ok n = true -> refs_leaf n = true.
Proof.
  induction n as [v sp ch IH] using node_ind2. cbn [leaves_ok]. intro H.
  apply andb_prop in H. destruct H as [H1 H2].
  assert (forallb refs_leaf ch = true) as F.
  { clear H1. induction IH as [|c r Hc _ IHr]; cbn [forallb] in *; [reflexivity|].
    apply andb_prop in H2. destruct H2 as [Ha Hb]. rewrite (Hc Ha). cbn [andb]. apply IHr. exact Hb. }
  destruct v; cbn [refs_leaf]; try exact F.
  cbn in H1. destruct ch; [reflexivity | discriminate].
Qed.

Theorem refs_first_seen_valid (fold pres : bytes -> bytes) root : leaves_ok root = true ->
  let r := refs fold pres root (collect fold pres (top_defs root) 0 [], 0%N) in
  fs_ok 0 (ref_ixs (fst r)) = Some (snd (snd r)) /\
  first_seen [] (ref_ixs (fst r)) = nseq 1 (N.to_nat (snd (snd r))).
Proof.
  intro L. apply leaves_ok_refs_leaf in L. cbv zeta. split.
  - exact (refs_numbered_in_order fold pres root L).
  - exact (refs_first_seen fold pres root L).
Qed.
