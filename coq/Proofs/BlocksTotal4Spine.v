(* Proofs/BlocksTotal4Spine.v — totality of the block phase, fourth round: EVALUATION of the open-spine invariant the
   four sites

     mod.rs:finalize_borrowed:assert!(ast.open)                                 finalize on a closed node
     mod.rs:add_line:assert!(ast.open)                                          add_line on a closed node
     mod.rs:add_text_to_container:self.finalize(self.current).unwrap()          finalize_up_to passes the root
     mod.rs:add_child:self.finalize(parent).unwrap()                            add_child_loop passes the root

   need (Props/Blocks.v, comment at Blocks_total_full_statement).  This file contains an executable checker of the
   candidate invariant, an instrumented replay of parse_blocks, a corpus, the results (Examples by vm_compute), and
   Qed'd structural lemmas about the `open` flag.  Nothing here proves the invariant.

   CHECKER.  spine_report st (record spine_rep), clause by clause, on the state BETWEEN lines:
     sr_present   self.current is in the tree                       (path_to (ps_current st) (ps_root st))
     sr_open      it and all its ancestors are open
     sr_last      each of them but the root is the last child of its parent
     sr_others    every other open node is a TableRow / TableCell   (the candidate's last clause)
     sr_walk      the open-last-child walk from the root (owalk: what check_open_blocks_inner follows when everything
                  matches) meets, after self.current, TableRow / TableCell nodes only.  Equivalently: every open node
                  all of whose ancestors are open and which lies on the right edge of the tree is on the spine or is
                  a row / cell.
     spine_ok  = sr_present && sr_open && sr_last && sr_others      (the CANDIDATE of the third round)
     spine_ok2 = sr_present && sr_open && sr_last && sr_walk        (the CORRECTED invariant)
   stale_open st lists the open nodes that violate sr_others (kind, all ancestors open?, on the right edge?).

   REPLAY.  run_doc o chk x = front_matter_prologue, then process_line_obs line by line (the lines of feed_lines), then
   finalize_document; it answers the first line after which chk fails (FailLine i; 0 = after the prologue), the first
   line inside which an intra-line observation fails (FailP1 / FailP2), a Panic / OutOfFuel with its line, or Pass.
   process_line_obs is process_line with observation points (process_line_obs_state: same state, Qed):
     P1  entry of open_new_blocks (p1_report): last_matched_container (lmc) is in the tree; root..lmc are open and
         each the last child of its parent; self.current is in the tree, root..self.current open and last children;
         lmc is self.current or one of its ancestors.
     P2  entry of EVERY iteration of open_new_blocks_loop and entry of add_text_to_container (p2_report): container
         is in the tree; root..container are open; container is on the right edge; self.current = lmc (it may have
         left the tree: the paragraph a table header replaced) or self.current is in the tree, lmc is one of its
         ancestors and every node strictly below lmc on the way to self.current is open (what finalize_up_to closes);
         self.current is open or equals lmc (the lazy add_line); none of the nodes finalize_up_to will close is the
         container or one of its ancestors (so container is still open when add_line / add_child reach it).
   A violation of one of the four sites in a run IS the corresponding Panic of the model (finalize / add_line test
   the flag themselves; the two unwraps fail exactly when the loop reaches the root), so PanicAt reports them.

   CORPUS.  hand_corpus (88 documents: nested lists with lazy lines, quotes closed by blank lines, fenced / indented
   code in lists, tables with header + rows + terminating line, tables in quotes / items / footnotes, preface
   paragraphs, description lists, footnote definitions, alerts, multiline block quotes, html blocks, setext, refdef-only
   paragraphs in items followed by other blocks, front matter, tabs / BOM / CR, greentext), gen_corpus (400 documents
   of tools/bt4_spine_gen.py 7 400 gen_corpus 120: docgen.gen_doc / gen_malformed and products of block-structure
   line fragments).  Option sets: o_none (all off), o_all (table, footnotes, description_lists,
   multiline_block_quotes, alerts, spoiler, greentext), o_all_ng (o_all without greentext), o_all_fm (o_all_ng with
   front matter delimiter `---`), o_tab (tables only).
   Outside this file (scratch, same definitions): 3000 + 4000 further generated documents (seeds 1, 2; <= 240 bytes)
   under o_all, o_all_ng, o_all_fm, o_none / o_tab / description lists + multiline quotes only: spine_ok2, P1, P2 hold
   on all of them; and 400 000 fragment documents through the extracted driver (op `blocks`, six option sets): every
   answer is `ok`, no Panic of any site.

   RESULTS.
   * The CANDIDATE is FALSE (clause sr_others), on the model and on comrak itself (harness op `blocks`, flag O1):
       description lists   "t\n: d\n"            the DescriptionTerm and the paragraph moved under it stay open for ever
                                                 (parse_desc_list_details: term.append(last_child); self.current was
                                                 that paragraph = lmc, so finalize_up_to closes nothing; the term is
                                                 never the current node)
       multiline quotes    ">>>\n> a\n>>>\n"     the closing fence finalizes the LAST CHILD of the quote and the quote
                                                 (parse_multiline_block_quote_prefix), not the open blocks below that
                                                 child: the paragraph stays open under a closed BlockQuote
       multiline alerts    ">>> [!note]\n> a\n>>>\n"   the same
       tables              "p\n|a|\n|-|\n"        the preface paragraph try_inserting_table_header_paragraph creates with
                                                 Ast::new is never finalized (open, not a last child)
     (Examples candidate_refuted_..).  With every extension off the candidate holds on the whole corpus (Examples candidate_plain_..).
     Over the corpus the stale open nodes are of two sorts only: under a CLOSED ancestor (closed multiline quote /
     alert content: any block kind), or with all ancestors open but NOT on the right edge (DescriptionTerm, Paragraph).
   * The CORRECTED invariant spine_ok2 holds after every line of every document, under every option set, and P1, P2
     hold inside every line; no run panics (Examples corrected_hand_.., corrected_gen_..).
   * No Panic at one of the four sites was found.
   * mod.rs:add_child:..unwrap(): the Document accepts every kind add_child is called with except Item
     (document_accepts_add_child_kinds), and an Item is added to a List (list_accepts_item): the loop never reaches the
     root with a refused kind; what it needs is only that the refusing parents on the way are open
     (add_child_loop_refused_open), i.e. root..container open (P2).

   LEMMAS (Qed; towards a proof): open_of; set_*_open, new_info_open; modify_open_other, modify_info_open_other,
   modify_info_open_self, modify_info_const_open, modify_info_keeps_open; add_line_keeps_open, add_line_was_open;
   finalize_was_open, finalize_flips_self, finalize_flips_paragraph_kept, retighten_keeps_open; document_accepts,
   document_accepts_add_child_kinds, list_accepts_item; add_child_loop_accepts, add_child_loop_refused_open,
   add_child_gen_last_open; reopen_opens_self; process_line_obs_state, open_new_blocks_obs_state. *)
From Coq Require Import List NArith Arith Bool Lia Strings.String Strings.Ascii.
From V Require Import Base.Bytes Base.Res Gen.Nodes Gen.FeedConst Model.Ast Model.Strings Model.Feed Model.FrontMatter
  Model.RefDef Model.Blocks Proofs.BlocksProofs Proofs.BlocksTight Proofs.ParserShapeTree Proofs.BlocksTotal2Tree.
Import ListNotations.
Local Open Scope string_scope.
Local Open Scope list_scope.

(* ------------------------------------------------------------------ tree observations *)
(* the nodes from the root (first) to the first node (pre-order) with the identifier (last) *)
Fixpoint path_to (id : nat) (t : bnode) : option (list bnode) :=
  match t with
  | BNode i ch =>
    if Nat.eqb (bi_id i) id then Some [t]
    else match (fix go (l : list bnode) : option (list bnode) :=
                  match l with
                  | [] => None
                  | c :: r => match path_to id c with Some p => Some p | None => go r end
                  end) ch with
         | Some p => Some (t :: p)
         | None => None
         end
  end.

Definition nopen (t : bnode) : bool := bi_open (binf t).
Definition is_last_kid (p c : bnode) : bool :=
  match last_opt (bkids p) with Some x => Nat.eqb (bid x) (bid c) | None => false end.

(* every node of the chain is the last child of its predecessor *)
Fixpoint chain_last (p : list bnode) : bool :=
  match p with
  | a :: r => match r with b :: _ => is_last_kid a b && chain_last r | [] => true end
  | [] => true
  end.

Definition is_rowcell (t : bnode) : bool :=
  match bval t with TableRow _ | TableCell => true | _ => false end.

(* all nodes, pre-order, each with: all its proper ancestors are open; it lies on the right edge (it and every
   proper ancestor but the root is a last child) *)
Fixpoint census (aopen edge : bool) (t : bnode) : list (bnode * bool * bool) :=
  match t with
  | BNode i ch =>
    (t, aopen, edge) ::
    (fix go (l : list bnode) : list (bnode * bool * bool) :=
       match l with
       | [] => []
       | c :: r => match r with
                   | [] => census (aopen && bi_open i) edge c
                   | _ => census (aopen && bi_open i) false c ++ go r
                   end
       end) ch
  end.

Definition mem_id (id : nat) (p : list bnode) : bool := existsb (fun n => Nat.eqb (bid n) id) p.

(* the walk of check_open_blocks_inner when everything matches: root, its last child if open, ... *)
Fixpoint owalk (t : bnode) : list bnode :=
  match t with
  | BNode i ch =>
    t :: (fix go (l : list bnode) : list bnode :=
            match l with
            | [] => []
            | c :: r => match r with [] => if nopen c then owalk c else [] | _ => go r end
            end) ch
  end.

(* ------------------------------------------------------------------ the candidate invariant, clause by clause *)
Record spine_rep := mkSR {
  sr_present : bool;      (* self.current is in the tree *)
  sr_open : bool;         (* it and its ancestors are open *)
  sr_last : bool;         (* each of them but the root is the last child of its parent *)
  sr_others : bool;       (* every other open node is a TableRow or a TableCell *)
  sr_walk : bool          (* weaker than sr_others: what the open-last-child walk from the root meets after
                             self.current is TableRow / TableCell only *)
}.

Definition spine_report (st : pstate) : spine_rep :=
  match path_to (ps_current st) (ps_root st) with
  | None => mkSR false false false false false
  | Some p =>
    mkSR true (forallb nopen p) (chain_last p)
         (forallb (fun x => let '(n, _, _) := x in negb (nopen n) || mem_id (bid n) p || is_rowcell n)
                  (census true true (ps_root st)))
         (forallb (fun n => mem_id (bid n) p || is_rowcell n) (owalk (ps_root st)))
  end.

Definition spine_ok (st : pstate) : bool :=
  let r := spine_report st in sr_present r && sr_open r && sr_last r && sr_others r.

(* the corrected invariant (see the end of the file) *)
Definition spine_ok2 (st : pstate) : bool :=
  let r := spine_report st in sr_present r && sr_open r && sr_last r && sr_walk r.

(* the open nodes that violate sr_others: kind, all ancestors open?, on the right edge? *)
Definition stale_open (st : pstate) : list (kind * bool * bool) :=
  match path_to (ps_current st) (ps_root st) with
  | None => []
  | Some p =>
    flat_map (fun x => let '(n, ao, ed) := x in
                       if negb (nopen n) || mem_id (bid n) p || is_rowcell n then [] else [(bkind n, ao, ed)])
             (census true true (ps_root st))
  end.

(* ------------------------------------------------------------------ intra-line observations *)
(* P1, at the entry of open_new_blocks (check_open_blocks answered Some (lmc, all_matched)) *)
Record p1_rep := mkP1 {
  p1_lmc_present : bool;
  p1_lmc_chain_open : bool;       (* root .. last_matched_container open *)
  p1_lmc_chain_last : bool;       (* each the last child of its parent *)
  p1_cur_present : bool;
  p1_cur_chain_open : bool;       (* root .. self.current open *)
  p1_cur_chain_last : bool;
  p1_lmc_on_spine : bool          (* last_matched_container is self.current or one of its ancestors *)
}.

Definition p1_report (st : pstate) (lmc : nat) : p1_rep :=
  let pl := path_to lmc (ps_root st) in
  let pc := path_to (ps_current st) (ps_root st) in
  mkP1 (match pl with Some _ => true | None => false end)
       (match pl with Some p => forallb nopen p | None => false end)
       (match pl with Some p => chain_last p | None => false end)
       (match pc with Some _ => true | None => false end)
       (match pc with Some p => forallb nopen p | None => false end)
       (match pc with Some p => chain_last p | None => false end)
       (match pc with Some p => mem_id lmc p | None => false end).

Definition p1_ok (st : pstate) (lmc : nat) : bool :=
  let r := p1_report st lmc in
  p1_lmc_present r && p1_lmc_chain_open r && p1_lmc_chain_last r && p1_cur_present r && p1_cur_chain_open r
  && p1_cur_chain_last r && p1_lmc_on_spine r.

(* the part of a root-first path strictly below the node with the identifier *)
Fixpoint below (id : nat) (p : list bnode) : list bnode :=
  match p with
  | [] => []
  | n :: r => if Nat.eqb (bid n) id then r else below id r
  end.

(* P2, at the entry of add_text_to_container (open_new_blocks answered container) *)
Record p2_rep := mkP2 {
  p2_cont_present : bool;
  p2_cont_chain_open : bool;      (* root .. container open *)
  p2_cont_chain_last : bool;      (* container on the right edge *)
  p2_cur_ok : bool;               (* self.current = lmc (it may have left the tree: table header), or self.current is
                                     in the tree, lmc is one of its ancestors and every node strictly below lmc on the
                                     way to self.current is open: what finalize_up_to needs *)
  p2_lazy_ok : bool;              (* self.current is in the tree and open, or self.current = lmc *)
  p2_disjoint : bool              (* no node that finalize_up_to will close (strictly below lmc on the way to
                                     self.current) is the container or one of its ancestors *)
}.

Definition p2_report (st : pstate) (container lmc : nat) : p2_rep :=
  let pk := path_to container (ps_root st) in
  let pc := path_to (ps_current st) (ps_root st) in
  mkP2 (match pk with Some _ => true | None => false end)
       (match pk with Some p => forallb nopen p | None => false end)
       (match pk with Some p => chain_last p | None => false end)
       (Nat.eqb (ps_current st) lmc ||
        match pc with Some p => mem_id lmc p && forallb nopen (below lmc p) | None => false end)
       (Nat.eqb (ps_current st) lmc ||
        match pc with Some p => match last_opt p with Some n => nopen n | None => false end | None => false end)
       (match pc, pk with
        | Some p, Some k => forallb (fun n => negb (mem_id (bid n) k)) (below lmc p)
        | _, _ => true
        end).

Definition p2_ok (st : pstate) (container lmc : nat) : bool :=
  let r := p2_report st container lmc in
  p2_cont_present r && p2_cont_chain_open r && p2_cont_chain_last r && p2_cur_ok r && p2_lazy_ok r && p2_disjoint r.

(* open_new_blocks_loop with P2 observed at the entry of every iteration (P2 is the loop invariant candidate) *)
Fixpoint open_new_blocks_loop_obs (fuel : nat) (o : bopts) (st : pstate) (container : nat) (line : bytes)
  (all_matched maybe_lazy : bool) (depth : nat) (lmc : nat) : res (nat * pstate * bool) :=
  match fuel with
  | O => OutOfFuel
  | S f =>
    let ok := p2_ok st container lmc in
    do c <- get st container;
    if is_code_or_html c then Ok (container, st, ok) else
    do r <- open_new_blocks_step o st container line all_matched maybe_lazy (S depth);
    let '(go_on, container1, st1) := r in
    if go_on then
      (do x <- open_new_blocks_loop_obs f o st1 container1 line all_matched false (S depth) lmc;
       let '(c2, st2, ok2) := x in Ok (c2, st2, ok && ok2))
    else Ok (container1, st1, ok)
  end.

Definition open_new_blocks_obs (o : bopts) (st : pstate) (container : nat) (line : bytes) (all_matched : bool)
  : res (nat * pstate * bool) :=
  do cur <- get st (ps_current st);
  open_new_blocks_loop_obs (2 * List.length line + 8) o st container line all_matched (is_paragraph cur) 0 container.

Lemma open_new_blocks_loop_obs_state fuel : forall o st container line am ml depth lmc,
  res_map fst (open_new_blocks_loop_obs fuel o st container line am ml depth lmc)
  = open_new_blocks_loop fuel o st container line am ml depth.
Proof.
  induction fuel as [|f IH]; intros; cbn [open_new_blocks_loop_obs open_new_blocks_loop]; [reflexivity|].
  destruct (get st container) as [c| |]; cbn [bind res_map]; try reflexivity.
  destruct (is_code_or_html c); cbn [res_map fst]; [reflexivity|].
  destruct (open_new_blocks_step _ _ _ _ _ _ _) as [[[go_on c1] st1]| |]; cbn [bind res_map]; try reflexivity.
  destruct go_on; cbn [res_map fst]; [|reflexivity].
  rewrite <- (IH o st1 c1 line am false (S depth) lmc).
  destruct (open_new_blocks_loop_obs f o st1 c1 line am false (S depth) lmc) as [[[c2 st2] ok2]| |];
    cbn [bind res_map fst]; reflexivity.
Qed.

Lemma open_new_blocks_obs_state o st container line am :
  res_map fst (open_new_blocks_obs o st container line am) = open_new_blocks o st container line am.
Proof.
  unfold open_new_blocks_obs, open_new_blocks.
  destruct (get st (ps_current st)); cbn [bind res_map]; try reflexivity.
  apply open_new_blocks_loop_obs_state.
Qed.

(* process_line with the two observation points; the state it answers is the one of process_line
   (process_line_obs_state) *)
Definition process_line_obs (o : bopts) (st : pstate) (line0 : bytes) : res (pstate * bool * bool) :=
  let line := norm_line line0 in
  let len := List.length line in
  let end_col := strip_one x0d line (strip_one x0a line len) in
  let st := st_curline st len end_col in
  let bom := Nat.eqb (ps_line_number st) 0 && Nat.leb 3 len && starts_with line bom_bytes in
  let st := st_cur st (mkCur (if bom then 3 else 0) 0 0 0 0 false false 0) in
  let st := st_line_number st (S (ps_line_number st)) in
  do r <- check_open_blocks o st line;
  do x <- (match r with
            | (Some (last_matched_container, all_matched), st1) =>
              let current := ps_current st1 in
              let ok1 := p1_ok st1 last_matched_container in
              do r2 <- open_new_blocks_obs o st1 last_matched_container line all_matched;
              let '(container, st2, okl) := r2 in
              if Nat.eqb current (ps_current st2) then
                (do st3 <- add_text_to_container o st2 container last_matched_container line;
                 Ok (st3, ok1, okl && p2_ok st2 container last_matched_container))
              else Ok (st2, ok1, okl)
            | (None, st1) => Ok (st1, true, true)
            end);
  let '(st, ok1, ok2) := x in
  Ok (st_curline (st_last_line_length st (ps_curline_end_col st)) 0 0, ok1, ok2).

Lemma process_line_obs_state o st line :
  res_map (fun x => fst (fst x)) (process_line_obs o st line) = process_line o st line.
Proof.
  unfold process_line_obs, process_line.
  destruct (check_open_blocks _ _ _) as [[[[lmc am]|] st1]| |]; cbn [bind res_map]; try reflexivity.
  rewrite <- open_new_blocks_obs_state.
  destruct (open_new_blocks_obs _ _ _ _ _) as [[[container st2] okl]| |]; cbn [bind res_map fst]; try reflexivity.
  destruct (Nat.eqb _ _); cbn [bind res_map fst]; try reflexivity.
  destruct (add_text_to_container _ _ _ _ _); cbn [bind res_map fst]; reflexivity.
Qed.

(* ------------------------------------------------------------------ the runner *)
Inductive outcome :=
| Pass
| FailLine (i : nat)            (* the between-lines checker fails after line i (0 = after the front matter prologue) *)
| FailP1 (i : nat)              (* the P1 observation fails inside line i *)
| FailP2 (i : nat)
| PanicAt (i : nat) (s : string)   (* i = number of lines + 1: finalize_document *)
| FuelAt (i : nat).

Fixpoint run_obs (o : bopts) (chk : pstate -> bool) (st : pstate) (ls : list bytes) (i : nat) : outcome :=
  match ls with
  | [] => match finalize_document o st with
          | Ok _ => Pass | Panic s => PanicAt (S i) s | OutOfFuel => FuelAt (S i)
          end
  | l :: r =>
    match process_line_obs o st l with
    | Ok (st1, ok1, ok2) =>
      if negb ok1 then FailP1 (S i) else if negb ok2 then FailP2 (S i)
      else if chk st1 then run_obs o chk st1 r (S i) else FailLine (S i)
    | Panic s => PanicAt (S i) s
    | OutOfFuel => FuelAt (S i)
    end
  end.

Definition run_doc (o : bopts) (chk : pstate -> bool) (x : bytes) : outcome :=
  match front_matter_prologue o init_state x with
  | Ok (st, rest) => if chk st then run_obs o chk st (fst (feed_lines rest)) 0 else FailLine 0
  | Panic s => PanicAt 0 s
  | OutOfFuel => FuelAt 0
  end.

Definition is_pass (r : outcome) : bool := match r with Pass => true | _ => false end.

(* the state after the first n lines (for reports) *)
Fixpoint state_after (o : bopts) (st : pstate) (ls : list bytes) (n : nat) : res pstate :=
  match n, ls with
  | S m, l :: r => do st1 <- process_line o st l; state_after o st1 r m
  | _, _ => Ok st
  end.
Definition doc_state (o : bopts) (x : bytes) (n : nat) : res pstate :=
  do p <- front_matter_prologue o init_state x;
  state_after o (fst p) (fst (feed_lines (snd p))) n.

(* ------------------------------------------------------------------ option sets, documents *)
Definition o_none : bopts := mkBO false false false false false false false false None None (fun v => v).
Definition o_all : bopts := mkBO true true true true true true true false None None (fun v => v).
Definition o_all_ng : bopts := mkBO true true true true true true false false None None (fun v => v).
Definition o_all_fm : bopts := mkBO true true true true true true false false (Some (B "---")) None (fun v => v).
Definition o_tab : bopts := mkBO true false false false false false false false None None (fun v => v).

Definition D (ls : list string) : bytes := flat_map (fun s => B s ++ [x0a]) ls.

Definition hexval (a : ascii) : N :=
  let n := N_of_ascii a in if (n <? 58)%N then (n - 48)%N else (n - 87)%N.
Fixpoint unhex (s : string) : bytes :=
  match s with
  | String a (String b r) => byte_of_N (16 * hexval a + hexval b) :: unhex r
  | _ => []
  end.

Definition failures (o : bopts) (chk : pstate -> bool) (docs : list bytes) : list (nat * outcome) :=
  flat_map (fun p => let r := run_doc o chk (snd p) in if is_pass r then [] else [(fst p, r)])
           (combine (seq 0 (List.length docs)) docs).

(* ------------------------------------------------------------------ the hand-made corpus *)
Definition hand_corpus : list bytes := [
  (* lists, lazy continuation lines, closing by other blocks *)
  D ["- a"; "  b"; "c"; ""; "> q"; "r"; "# h"];
  D ["- a"; "  - b"; "    - c"; "lazy"; "  - d"; "- e"; ""; "f"];
  D ["1. a"; "   b"; ""; "   c"; "2. d"; "3) e"; "- f"; "* g"; "+ h"];
  D ["- a"; ""; "  b"; ""; ""; "  c"; "d"];
  D ["- a"; "- "; "-"; "  x"; "- b"; ""; "-"; ""; "  y"];
  D ["- a"; "  > b"; "  > c"; "  d"; "  > - e"; "lazy"; "- f"];
  D ["> - a"; ">   b"; "> - c"; "d"; ""; "> e"];
  D ["> a"; "b"; "> c"; ""; "> d"; ">"; "> e"; ""; "f"];
  D ["> > > a"; "b"; "> > c"; "> d"; ""; "> > e"; ">"; "f"];
  D ["- a"; "# h"; "- b"; "---"; "- c"; "```"; "d"; "```"; "- e"; "<div>"; "f"];
  D ["- [ ] a"; "- [x] b"; "  c"; "- [ ]"; "d"];
  D ["10. a"; "    b"; "   c"; "11. d"; ""; "      code"];
  (* fenced and indented code in lists and quotes *)
  D ["- ```"; "  a"; "  ```"; "- b"; "  ```"; "c"; "```"; "d"];
  D ["- ```"; "  a"; "b"; "```"; "c"];
  D ["> ```"; "> a"; "b"; "```"; "c"; "```"];
  D ["    code"; ""; "    more"; "a"; "    lazy"; ""; "    code"; "- x"; ""; "      code"; "  y"];
  D ["~~~ info"; "a"; "~~~~"; "b"; "~~"; "~~~"; "c"];
  D ["```"; "never closed"; "- a"; "> b"];
  D ["1. ```"; "   a"; ""; "   b"; "   ```"; "   c"; "2. d"];
  (* tables: header, rows, a line that ends the table; inside quotes and items; preface paragraphs *)
  D ["|a|b|"; "|-|-|"; "|c|d|"; "|e|"; "x"; ""; "y"];
  D ["|a|b|"; "|-|-|"; ""; "|c|d|"];
  D ["|a|b|"; "|-|-|"; "> q"; "|c|d|"];
  D ["|a|b|"; "|-|-|"; "- |c|d|"; "  |-|-|"; "  |e|f|"; "|g|h|"];
  D ["pre"; "|a|b|"; "|-|-|"; "|c|d|"; "post"; "more"; ""; "z"];
  D ["pre"; "pre2"; "a|b"; "-|-"; "c|d"; "# h"; "e|f"; "-|-"];
  D ["> |a|b|"; "> |-|-|"; "> |c|d|"; "|e|f|"; "x"; "> y"];
  D ["> |a|b|"; "> |-|-|"; "> |c|d|"; ">"; "> z"];
  D ["- |a|b|"; "  |-|-|"; "  |c|d|"; "  x"; "- |e|"; "  |-|"; "y"];
  D ["- a"; "  |b|c|"; "  |-|-|"; "lazy|row"; "  |d|e|"; "- f"];
  D ["|a|b|"; "|-|"; "|a|b|"; "|-|-|-|"; "|a|b|"; "|:-|-:|"; "|c|"; "|d|e|f|"; "---"; "|g|"];
  D ["|a|"; "|-|"; "```"; "|b|"; "```"; "|c|"; "|-|"; "<div>"; "|d|"];
  D ["|a|"; "|-|"; "|b|"; "    |c|"; "|d|"; "\t|e|"];
  D ["1. |a|b|"; "   |-|-|"; "   |c|d|"; "2. x"; "   |a|"; "   |-|"; ""; "   |b|"];
  D ["a|b"; "-|-"; "c|d"; ": e"; "f|g"];
  D ["[r]: /u"; "|a|b|"; "|-|-|"; "|[r]|d|"];
  (* description lists *)
  D ["term"; ": details"; "more"; ""; "next"; ": d2"; ": d3"; ""; ": d4"; "x"];
  D ["term"; ""; ": details"; ""; "  para"; ""; ": again"; "other"; ""; ": y"];
  D ["t1"; ": d1"; ""; "t2"; ": d2"; ""; "para"; ""; "t3"; ""; ": d3"; "- l"; ": no"];
  D ["> t"; "> : d"; "> e"; ": f"; ""; "t"; ": - a"; "  - b"; ":   c"];
  D ["- t"; "  : d"; "  x"; "- u"; ""; "  : e"; ": f"];
  D ["t"; ": # h"; ": ```"; "  c"; "  ```"; ": > q"; "lazy"; ": |a|b|"; "  |-|-|"; "  |c|d|"; "u"; ": v"];
  D [": a"; ""; ": b"; "t"; ":c"; ": "; ":"; "x"; ":   y"];
  D ["[r]: /u"; ": d"; ""; "[r]"; ""; "[s]: /v"; ""; ": e"; "[s]"];
  D ["t"; ": d"; ""; "    code"; ""; "  p"; "q"; "# h"; "t"; ": d"];
  D ["a"; "b"; ": c"; "===" ; "d"; "---"; ": e"];
  (* footnote definitions *)
  D ["[^a]: x"; "    y"; ""; "    z"; "w"; "[^b]: - l"; "    - m"; "[^c]:"; "    p"; "q"];
  D ["[^a]: [^b]: [^c]: x"; "    y"; "        z"; "[^d]: > q"; "lazy"; "    > r"; ""; "s"];
  D ["> [^a]: x"; ">     y"; "z"; "- [^b]: x"; "      y"; "  z"];
  D ["[^a]: |a|b|"; "    |-|-|"; "    |c|d|"; "|e|f|"; "[^b]: t"; "    : d"; "u"];
  D ["[^a]: ```"; "    c"; "    ```"; "    d"; ""; ""; "e"];
  (* alerts *)
  D ["> [!NOTE]"; "> a"; "b"; ""; "> [!tip] title"; "> - c"; ">   d"; "e"; "> [!nope]"; "> f"];
  D ["> [!warning]"; "x"; "> [!caution]"; ""; "> y"; ">> [!note]"; "> > [!note]"; "> > z"];
  D [">>> [!note]"; "a"; "- b"; "  - c"; ">>>"; "d"; ">>> [!tip] t"; "> q"; ">>>>"; "e"; ">>>"; "f"];
  D ["- > [!note]"; "  > a"; "  b"; "- >>> [!important]"; "  c"; "  >>>"; "  d"];
  (* multiline block quotes *)
  D [">>>"; "a"; ">>>"; "b"; ">>>"; "- c"; "  - d"; ">>>"; "e"];
  D [">>>"; "> a"; ">>>"; "b"];
  D [">>>"; ">>>>"; "a"; ">>>"; "b"; ">>>>"; "c"; ">>>"; "d"];
  D [">>>>"; ">>>"; "a"; ">>>>"; "b"; ">>>"; "c"];
  D [">>>"; "t"; ": d"; ">>>"; "u"; ": e"; ">>>"; "|a|"; "|-|"; ">>>"; "|b|"];
  D ["- >>>"; "  a"; "  - b"; "  >>>"; "  c"; "- >>>"; "d"; ">>>"; "  >>>"];
  D ["> >>>"; "> a"; "> >>>"; "> b"; ">>>"; "> c"; ">>>"];
  D [">>>"; "```"; ">>>"; "```"; ">>>"; "x"; ">>>"; "    code"; ">>>"; "<div>"; ">>>"; "y"];
  D [">>>"; "[^a]: x"; "    - y"; ">>>"; "    z"; ">>>"; "# h"; ">>>"; "para"; "lazy"; "   >>>"; "    >>>"; ">>>"];
  D [">>>"; "- a"; ""; "  [r]: /u"; ">>>"; "[r]"];
  (* html blocks *)
  D ["<div>"; "a"; ""; "b"; "</div>"; "<!-- c"; "d"; "-->"; "e"; "<?x"; "?>"; "<![CDATA["; "]]>"; "<!X"; ">"; "<pre>"; ""; "</pre>"; "f"];
  D ["- <div>"; "  a"; "b"; ""; "  c"; "> <script>"; "> x"; "y"; "</script>"; "z"];
  D ["a"; "<div>"; "b"; "<a>"; "c"; ""; "<a>"; "d"];
  (* setext headings, thematic breaks, ATX *)
  D ["a"; "b"; "==="; "c"; "---"; "---"; "d"; "- - -"; "- e"; "  ==="; "  f"; "  ---"; "g"; "***"];
  D ["[r]: /u"; "==="; "[s]: /v"; "---"; "a"; "[t]: /w"; "---"; "# h #"; "#"; "####### x"; "  ## y"];
  D ["> a"; "==="; "> b"; "> ---"; "c"; "---"; "- d"; "---"; "  e"; "  ---"];
  (* reference-definition-only paragraphs in items followed by other blocks *)
  D ["- a"; ""; "  [x]: y"; "# h"];
  D ["- a"; ""; "  [x]: y"; "  [z]: w"; "* b"; ""; "  [u]: v"; "> q"];
  D ["- a"; "- b"; ""; "  [x]: y"; "```"; "c"];
  D ["- a"; "  - b"; ""; "    [x]: y"; "1. c"; ""; "   [u]: v"; ""; "d"];
  D ["> - a"; ">"; ">   [x]: y"; "> # h"; "- [r]: /u"; "- [s]: /v"; "  c"; "- "; "  [t]: /w"; "e"];
  D ["[a]: /u"; """t"" junk"; ""; "[a]"; "[b]: /v"; "'t'"; "x"; "[c]:"; "/w"; "(t)"; "[d]: </x y>"; "[e]"; ": /z"];
  (* front matter (only o_all_fm reads it) *)
  D ["---"; "title: x"; "---"; "# h"; "- a"; "  b"];
  D ["---"; "a"; "---"; ""; "---"; "b"; "---"];
  D ["---"; "never closed"; "- a"];
  D ["---"; "---"; "t"; ": d"; ">>>"; "x"];
  (* tabs, blank lines, odd indents, BOM, CR *)
  D ["-	a"; "	b"; ">	c"; "		d"; " 	- e"; "  	f"];
  [xef; xbb; xbf] ++ D ["- a"; "  b"; "> c"];
  B "- a" ++ [x0d] ++ B "  b" ++ [x0d; x0a] ++ B "> c" ++ [x0d] ++ B ": d";
  B "t" ++ [x0a] ++ B ": d";
  B ">>>" ++ [x0a] ++ B "- a" ++ [x0a] ++ B ">>>";
  D [""; ""; "   "; "a"; "   "; ""; "    b"; ""; "  - c"; ""; ""; "    d"; "       e"];
  (* greentext-sensitive *)
  D [">a"; ">b"; "> c"; ">"; ">>d"; "> >e"; "- >f"; "  >g"];
  D [">|a|b|"; ">|-|-|"; "> |c|d|"; ">t"; ">: d"]
].

(* generated by tools/bt4_spine_gen.py 7 400 gen_corpus 120 *)
Definition gen_corpus : list bytes := map unhex [
  "20202d20610a2d200a";
  "232061202320200d0a20207c2d7c2d7c0d0a2d2020610d0a3e09610d0a3c21410d0a2d2d2d0d0a2a2a2a0d0a7c2d7c2d7c0a";
  "3e3e3e3e0a7c7c262339393939393939393b7c7c205e697073756d5e205b5d2820c39c6ec3af2062617a202362617a2020c39c6ec3af0a0a0a0a24240a780a24240a0a";
  "3e6261720931300a7c20207c2060787c7960207c20615c7c62207c0a7c2d2d2d7c203a2d3a207c2d2d3a7c0a7c20207c2020207c0a7c2020207c202a2a622a2a207c20615c7c62207c0a0a0a3c74657874617265613e0a3c5449544c453e0a3c2f74657874617265613e0a0a0a26237834313b0a";
  "3c6d61696c746f3a6140622e633e20266c743b202460610a0a7c2060787c7960207c0a7c203a2d3a207c2d2d3a7c0a7c202a2a622a2a207c202a2a622a2a207c0a";
  "5b5e665d3a20780a2020202b20780a2020203a203e20610a";
  "202020202d20790a3e202323232323232320610a";
  "5b5e615d3a0a2d20610a2d0a";
  "232061202320200a2d2d3e0a617c620a20202020620a5b5e615d3a202d205b785d20610a5b5e615d3a203e205b214e4f54455d20740a5b5e615d3a203a20610a5b5e615d3a202d205b785d20610a";
  "5f5e772e785e5f0a5b5245465d0a0a3e5c7c09c3a9";
  "3e205b21494d504f5254414e545d205469746c650a3e206c6f72656d0a2d2d2d2d2d0a7e7e7e7e632b2b20783d790a0a0a0a7e7e7e0a";
  "5b615d3a20620d3c212d2d0d202020203a203e20610d202020205b5e665d3a207c617c0a";
  "60233a5d3d";
  "5b5b5b5b5b5b5b5b5b5b5b5b5b5b5b5b5b5b5b5b5b5b5b5b5b5b5b5b5b5b5b5b5b5b5b5b5b5b5b5b5b5b5b5b5b5b5b5b5b5b785d5d5d5d5d5d5d5d5d5d5d5d5d5d5d5d5d5d5d5d5d5d5d5d5d5d5d5d5d5d5d5d5d5d5d5d5d5d5d5d5d5d5d5d5d5d5d5d5d5d";
  "3e207c637c647c0a093e790a";
  "3a206060600d3e2020207c2d7c2d7c0d3e200d3e205f5f5f0d3e207e7e7e";
  "3e3e3e205b216e6f74655d0a202020202d20790a";
  "5f2e5f0a772e78205c096261720a3d3d20200a";
  "20203e3e3e0a20205b615d3a20620a7c637c0a312920780a322e20610a2d205b205d20780a5b5e6120625d3a20630a3a207c617c627c0d0a";
  "7c637c0d0a780d0a2d207c617c627c0d0a5b5e665d3a203e3e3e0d0a2d2020203e205b217761726e696e675d20770a";
  "615c0d0a5b615d3a20625c0d0a6120200a";
  "3e3e3e205b217469705d20740a3a203e20610a20203e3e3e0a3e3e3e3e0d0a";
  "efbbbf3e00205c2a2020490a7a2d7a20610a";
  "7b5b2a5c217e277c23607c295d272d7d405f5b3a2f607d5b7e7e3a60232b";
  "20202020780ac3a90a2a20610a740a3e203e20780a20205b615d3a20620a2d203e202d206060600a2d203e202020780a2d203e207c637c0a2d203e203e207c2d7c2d7c0a";
  "7e7e7e0a0a3e20780a202020202d20790a";
  "7e7e7e0d0a3e3e3e203e20790d0a3e3e3e205b5e665d3a207c617c";
  "5b615d3a0a3c212d2d0a5b5e665d3a207c617c0d0a";
  "20202d20780a3e20740a3e203e0a";
  "5b5e665d3a203e3e3e0d20203e207e7e7e0d20203e203e3e3e3e205b216e6f74655d0a";
  "3d3d3d0d0a7e7e7e2061207e0d0a7c2d0d0a3e610d0a3e3e205b216e6f74655d0d0a2d0909610d0a3e202020202d20610d0a3e230d0a3e3c21410d0a3e3e3e3e20610a";
  "3e205b21494d504f5254414e545d203c623e0a3e206674703a2f2f782e790a3e202a2a2a3b2031302a2a2a0a0a2b2020205b5e6e6f74655d3a2024247824240a0a3e62617220490a0a2d205b5d203ec3a920390a0a";
  "215b7a2d7a2049313020666f6f207d20215d283c3e290a3920202a272061c39c6ec3af20c3a9202ae6bca2e5ad9709783120c39c6ec3af09c39c6ec3af2039205f093130710a7e7e3a7e7e202424792424205e6c6f72656d5e0a0a3c6469763e0a2a782a0a3c2f6469763e0a0a";
  "3e202020610d0a3e2d2020202020610a";
  "5b5e615d3a0a2d207c617c627c0a2d0909610a3e207c2d7c2d7c0a2d2020610a7c610d0a";
  "2622615f2d";
  "3e203e20780a3e203e20780a7c2d7c";
  "232320612023230a5b615d3a20620a606020610a5b615d3a2062";
  "7a2d7a610a0a3a203c212d2d20215b5f5d2866696c653a2f2f2f6574632920772e78093b20206c6f72656d097831";
  "232323235f5f61092b242062617a5f5f3c68747470733a2f2f612e623f633d6426653e7e5c5e7e215b2a712a20230a";
  "2b2b2b0a7469746c653a20780a2b2b2b0a0a0a2d205b5d0962617220c39c6ec3afc39c6ec3af0a20202020202026237834313b0a0a2020202020205b5e6122625d3a2060603c623e60600a";
  "70";
  "2a2a2a0d7c617c627c0d7c0d6120200d0a";
  "3e2020610d0a3c7363726970743e783c2f7363726970743e0d0a7c2d0d0a3c212d2d20610d0a3e3e3e205b217761726e696e675d0d0a3e09610a";
  "7c0a5b5e615d3a20606020610a5b5e615d3a20312920610a7c617c627c0a5b5e615d3a203e205b2163617574696f6e5d206126616d703b620a";
  "2b2b2b0a7469746c653a20780a2b2b2b0a0a7e7e7e632b2b20783d790a7e7e7e0a7e7e7e0a0a5c220a202d2d2d0a";
  "3e203e3e3e0d0a202020205b5e665d3a2078";
  "5b7265665d3a202f75726c0a666f6fc39c6ec3af2020c39c6ec3af205d2060603c623e60600a5c216140622e632f6422712209772e7820c3a920610a0a3e390962617a0a";
  "3e207c2d7c2d7c0a5b5e665d3a203e3e3e0a3e203e207c617c627c0a3e2020202079";
  "7c20615c7c62207c20615c7c62207c2060787c7960207c0a7c2d7c2d2d2d7c3a2d2d7c0a7c2020207c2021207c2039207c0a7c2060787c7960207c202a2a622a2a207c0a0a20202020636f64650a202020203c613e0a20202020097a0a";
  "3a202d20610d3a207c2d7c";
  "3e20790a093e205b615d3a20620a093e3e3e3e205b216e6f74655d0a093e";
  "3e205b216e6f74655d0a3c212d2d20610a5b5e615d3a620a232061202320200a2b20610a2d20c3a90a606060600a5b615d3a20625c0a3e3e3e3e0a5f5f5f0d0a";
  "5e495e0a5c5b2049206c6f72656d0a5f5f6674703a2f2f782e795f5f0a0a202020200a20202020097a0a20202020636f64650a0a";
  "230a617c627c630a2d2d3e0a6060602026616d703b205c2a0a5b5c5d5d3a20620a09610a";
  "3e3e3e0a60606060606122623c630a7e7e7e0a606060600a0a0a626172";
  "2d203e207c617c627c0a2d205b615d3a20620a2d20747c750a2d203a202d20610a2d203a202320610a2d20747c750a";
  "3e206060600a2d20780a0a312e20780a2d203e205b216e6f74655d0a7e7e7e0d0a";
  "2a202a202a202a202a202a202a202a202a202a202a202a202a202a202a202a202a202a202a202a202a202a202a202a202a202a202a202a202a202a202a202a202a202a202a202a202a202a202a202a202a202a202a202a202a202a202a202a202a202a2078";
  "5d5d3e0a6060602072730a202020205b615d3a203c623e202263220a202020205b5e615d3a20620a";
  "2b20610d0a3e3a202d2061";
  "f39997acc4b4d297cd81e480baf39aa999e8ba8a75eaa08ae1bea6f4878eb5daadeba694c3aceaaf8760ed8698dcb4f18ca5894a";
  "312e09610a5d5d3e0a202020202d20790a3c6469763e0a3e3e3e0a3e3e3e2061";
  "3c3f610a3a202d09610a3e207c2d7c2d7c0d0a";
  "3e207c2d7c2d7c0a20202020790a";
  "3e205b21efbbbf4e6f70655d0a3e203c202a61202a2a2a2a2a5f5f495f5f2a2a2a2a2a20622a20215b7265665d0a0a0a5b5e6e6f737563685d687474703a2f2f612e623c632a2a2a7e666f6f7e2a2a2a0a5e495e0a0a";
  "3e203e203e20780a6120200a747c750a3e203e203e20780a3e20780d0a";
  "5b615d3a20620a3e202d20312e20780a3e202d205b5e665d3a203e3e3e0d0a";
  "5b5b5b5b5b5b5b5b5b5b7829292929292929292929";
  "3c666f6f406261722e62617a3e23c3a92071772e780a26616d703b207a2d7a20313020612025207e5b5e6e6f737563685d7e2060610a6260205b5b780a232323232320262378443830303b0a0a";
  "6060606d6174680a785e320a6060600a0a0a3e3e3e3e0a3e205b215741524e494e475d205469746c650a3e205b5b75726c5d5d0a3e3e3e3e0a";
  "3e203e204909697073756d0a3e2020e6bca2e5ad970931300a2a2020202020636f64650a2020202020203c613e0a0a2a203c6469763e0a20202a782a0a20203c2f6469763e0a0a0a772e78206261723c20697073756d2026616d703b205e205c2031300a0a";
  "2d2020203e3e3e3e0a20202020780d0a";
  "3e202d20780d0a3a20610d0a2020202a20780a";
  "c3a90a0a3e3e3e0a3ec39c6ec3af6261720a3e3e3e0a0a";
  "2229";
  "3a205b5e665d3a20780a3a203e20790a";
  "f2a2b199f291bca1dfb70ee79db4";
  "312e20780a2774270a2d20780a3e202d205b5e665d3a207c617c0a3e202d20312920780a3e202d206060602026616d703b205c2a0a";
  "2a202020202020200a2020202020202020636f64650a0a5d";
  "697073756d0a2d0a0a202020203c613e0a20202020636f64650a202020200a2d205b7265665d3a206a6176617363726970743a780a";
  "7c637c0d20207c2d7c2d7c0d6060600d097e7e7e0d0a";
  "7c610a2d0909610a20202020620a202020322e2061";
  "2d2d3e0d3e203e203e20780d2d205b785d20610d3e3e3e3e205b216e6f74655d0d3a207c617c627c0d3e203e3e3e0d3e203e20780d740d3a20610d5b5e665d3a20780a";
  "3e202a2a0a0a0a68747470733a2f2f612e622f635f645f205b5265665d5b5d203c2062617a2020772e78207777772e615f622e63207e7e262336353b7e7e0a3d0a0a3c64656c3e0a0a2a782a0a0a3c2f64656c3e0a";
  "2323232323232320610a5b5c5d5d3a20620a2774270a";
  "492020772e78205c5b20697073756d3920666f6f205b785d280a7c20615c7c62207c20207c0a7c2d2d3a7c2d2d3a7c2d2d3a7c0a";
  "20207c2d7c2d7c0a3e0a3a207c617c627c0a7c637c0a3a202d2061";
  "2323232031302024206c6f72656d202061206120e6bca2e5ad9720614062203c6a6176617363726970743a783e2062617a203c6a6176617363726970743a783e20232320200a0a2d09c3a9203b0a0a5b7265665d3a202f75726c20227469746c6522";
  "31303f097a2d7a0a717a2d7a0a0a3a205c7e0a0a3e205b214e6f70655d0a3e205f68747470733a2f2f612e622f635f645f5f207ee6bca2e5ad977e0a";
  "5c0a6261727e7e7e7ee6bca2e5ad97097831097a2d7a20e6bca2e5ad977a2d7a6c6f72656d7e7e7e7e3130202026237832323b096c6f72656dc3a920207a2d7a20697073756d0a5f5f7e60612062607e5f5f0a5f7e666f6f7e5f62617a666f6f2e6261724062617a2e6f72670a";
  "2424782424";
  "3e205b2143415554494f4e5d203c623e0a3e205e395e205f2a215b5be6bca2e5ad9720772e7820495d282f752776295d28646174613a696d6167652f706e673b6261736536342c78782022c3a922292a5f207c7c62617a2020617c7c207c7c7777772e615f622e637c7c205c5e0a";
  "202020202d20610a202020610a5b615d3a0a5f5f5f0a20205b615d3a20620a2d203a2020610a2d203d0a2d203e3e3e205b217761726e696e675d0a";
  "3a20610a6060600a0a202020207c2d7c0a3e20780a7c0a";
  "202020200a202020203c613e0a20202020636f6465";
  "3e697073756d2020772e780a";
  "3e790d0a2d206060600d0a3e202d20312920780d0a3e202d202a20610d0a3e202d203a20610d0a3e202d202d205b205d20780d0a";
  "3e20c3a97cc3bc0d0a3e3e205b216e6f74655d0d0a3a20610d0a2d0d0a2020203c7363726970743e783c2f7363726970743e0a";
  "202020606020610a202020202020203a20610a2020202020202020202020610a";
  "7b5f3e2d3d";
  "0909090909090909090909090909090909090909090909090909090909090909";
  "312e20780d0a3a206060600d0a3c6469763e0a";
  "606060600a610a2020620a0a606060600a0a";
  "20207c2d7c2d7c0d3a2020610d3e203e3e3e0d3a20232061";
  "2d20202020206060600a2d2020203e205b2163617574696f6e5d206126616d703b620a3e61";
  "740a3e312e20780a3e202020203e2079";
  "6d61696c746f3a6140622e630a783120c3a9203e20c39c6ec3af202220242020200a7a2d7a207a2d7a205c3e203b0a5ec3a95e207e5f5f6c6f72656d5f5f7e2026783b0a";
  "3e207c617c627c0a3e3e3e205b217469705d20740a3e207c637c647c0a";
  "3e3e3e205b217469705d20740d0a312920780d0a3e3e3e205b217469705d20740a";
  "7a2d7a093920e6bca2e5ad970a0a24247824240a606060727573740a3c623e26616d703b0a6060600a";
  "20202020790a747c750a780a312e203c6469763e0a312e2020206060600a";
  "3e3e3e0a2d2d2d0a0a3e205b21494d504f5254414e545d205469746c650a3e202b20c39c6ec3af0a";
  "7c637c647c0dc3a90d3e0d3e206060600d20207c2d7c2d7c0d202020207c2d7c0d3a203e20610d202020203e20790d7c2d7c2d7c0d20203e205b216e6f74655d";
  "3e205b216e6f74655d0d740d20203a207c637c647c0a";
  "7c20207c20615c7c62207c202a2a622a2a207c202f207c0a7c3a2d3a7c203a2d3a207c203a2d3a207c203a2d3a207c0d7c2020207c202a2a622a2a207c203c2f7469746c653e207c20615c7c62207c0a";
  "0a0a202f262f2727227b2f2e";
  "780a3e203e20780a2020780a2d206060600a";
  "2b20780d3e205b21785d0d3e205b21785d0dc2a0610d2d09610d7c617c627c0a";
  "20c39c6ec3af207c20615c7c62207c2024782024207c2060787c7960200a7c3a2d2d7c3a2d3a7c2d2d2d7c2d7c0a0a3e205b5245465d3a202f6f74686572";
  "3a202d20610a7e7e7e0a20202020780a202020203e20790a202020205b5e665d3a202d20780a202020203e203e203e2078";
  "5b5e615d3a0d0a3e3e3e202d2020202020610d0a3e3e3e207e7e7e2061207e0d0a3e3e3e205b5e6120625d3a20630d0a3e3e3e203e205b216e6f74655d0d0a3e3e3e205d5d3e0d0a3e3e3e20312e09610d0a3e3e3e207cc3a97cc3bc7c0d0a";
  "5b615d0d20203e205b2163617574696f6e5d206126616d703b620d20205b5e6120625d3a20630a";
  "2424242424242424242424242424242424242424242424242424242424242424242424242424242424242424242424242424786060606060606060606060606060606060606060606060606060606060606060606060606060606060606060606060606060";
  "7e7e7e7e7e7e7e7e7e7e7e7e7e7e7e7e7e7e7e7e7e7e7e7e7e7e7e7e7e7e7e7e7e";
  "6060606060606060606060606060606060606060606060606060606060606060606060606060606060606060606060606060786060606060606060606060606060606060606060606060606060606060606060606060606060606060606060606060606060";
  "20206060600d7e7e7e2061207e0d2d203e207e7e7e2061207e0d2d203e207c2d0a";
  "3e205b217761726e696e675d20770d202020790d20207c637c647c0d20207c2d7c2d7c0d0a";
  "202020203c613e0a202020202a792a0a2020202020780a0a3e3e3e0a2a2a0a3e3e3e3e";
  "20207c637c647c0a20202d2020202d7c2d0a";
  "efbbbf2000202020636f64650a0a5b2061202062205d3a203c7820793e0a";
  "3e203e3e3e0d2020202d2d3e0d20202020207c2d7c2d7c0d2020207c637c0d2020207c637c0d2020203c2f6469763e0a";
  "3c7469746c653e783c2f7469746c653e0a0a";
  "3e203e3e3e0a3d0a2020780a3e202d203e20790a3a207c617c627c0a3e205b217761726e696e675d20770a202020610a3e202d2020202020790a";
  "5b615d3a0a5b615d3a20620a2d205b205d20610a";
  "62617a2020772e78222020612071095c7c205b5b75726c5d5d0a7c7c617c7c0a5f5b5b75726c7c7469746c655d5d5f5b5b782a2a215b5c0a495d2876627363726970743a7829202a782a2a2a0a0a20202020097a0a202020202a792a0a202020200a";
  "3c2f6469763e0a0a0a3909390a0a3a202a5b2a5b3d20c3a9207a2d7a20772e785d2868747470733a2f2f6578616d706c652e636f6d2f615f28622929260a20205c3c6c6f72656dc39c6ec3af772e78205c26e6bca2e5ad970a";
  "230a3e203e203e20c3a97cc3bc0a3e203e203e20610a3e203e207c2d7c2d7c0a2323232323232320610a3e203e20312e20780a3e203e202009610a3e203e203c215b43444154415b";
  "2a2a2a0d0a232061202320200d0a232320612023230d0a0909610d0a3c2f6469763e";
  "20200a3e3e3e20610a3c212d2d20610a2d20c3a90a2020206060600a3a610a312e20610a312920610a3d3d3d0a615c0a";
  "6060602026616d703b205c2a0d0a096060606160620d0a097c7c0d0a095c232061";
  "00200c0bc2a00a0c097f0c0a1befbbbfe280a809090c097f0ce280a80b0b0d0020610061e280a87fc2a0efbbbf0d0b0c0d01efbbbf01";
  "2d2d0a2d09610a3c212d2d2061";
  "7c20687474703a2f2f207c0a7c2d2d3a7c0a0a5b726566325d3a0a20202f75320a2020276d756c74690a6c696e65270a0a";
  "e6bca2e5ad97610a0a3a20210962";
  "3e205b215449505d0a3e20666f6f202062617a203c212d2d2063202d2d3e203c2f7469746c653e205b5e615d207777772e6578616d706c652e636f6d0a3e20710a3e207c5f5f7a2d7a5f5f697073756d093909280a0a0a3e205b214e4f54455d0a3e203c212d2d2063202d2d3e0a0a0a24240a780a24240a";
  "6060606160620d2d207c3a2d3a7c0d2d2020203d3d3d0a";
  "20205b5e665d3a20780d0a2020202020207c2d7c0a";
  "7e62617a7e242078247ec39c6ec3af7e0a5f5f6261725f5f215b7831206c6f72656d20c39c6ec3af203b2071c39c6ec3af5d2861266229607c600a68747470733a2f2f612e622f635f645f0a0a0a60606060600a0a0a0a60606060600a0a";
  "3e203e3e3e0a5b5e615d3a20615c0a5b5e615d3a203a203e20610a3c6469763e0a202020203e20790a5b5e615d3a203d3d3d0a";
  "7e617e0a242478000024240a0a2d202d2d";
  "740d20207c637c647c0a";
  "efbbbf2001";
  "7f1b2aefbbbf7f0c0d0c0befbbbf";
  "5b5e615d3a0a20203a20610a2d2d3e0a2d2d0a3a2d7c2d3a0a606020610a";
  "3e2062617278310a313020772e78";
  "3e206060600a3e206060600a3a2020610a0d0a";
  "3e207c637c647c0a3e5b217469705d0a3e203e203e20780a617c620a";
  "20203d3d3d0a09610a2a20610a";
  "6109620a3e203e20780a20202d20780d0a";
  "24240a780a24240a0a5f5f62617a5f5f0a710a5c0a266e6f737563683b0a2d0a0a3e7e7e7e7e6d6174680a3e0a3e207e7e7e7e";
  "2b2b2b0a7469746c653a20780a2b2b2b0a0a5b785d5b6e6f737563685d206c6f72656d097a2d7a49496c6f72656d2020697073756d206c6f72656d20626172202e2049497831666f6f0a5b5b617c627c635d5d";
  "3a2063270d0a2020202020207c2d7c2d7c0d0a202020203a2020206060600a";
  "2309610a3e202d203a2d7c2d3a0a3e202d207c617c627c0a3e202d203e3e3e0a";
  "3e207831202031300a6120e6bca2e5ad970a0a202020202a792a0a202020200a202020202a792a0a0a0a202020203c613e0a202020202a792a0a202020202078";
  "2d203e2020202020780a2d203e203e3e3e205b217469705d20740a2d203e202d20780a2d203e202d2d2d0a2d203e203c6469763e";
  "2d20780d20207c637c647c0d20205b615d3a20620d3e203e20780d20207c2d7c2d7c0d2020202020203a20610d202020203e202d20780d2020202020202020790d3e3e3e3e205b216e6f74655d0d5b5e665d3a2078";
  "3e207c637c647c0a2020780a20202b20780a20203e610a20203e3e3e205b216e6f74655d0a20203e3e3e20610a20207c2d7c2d7c0a20202a20780a20202d7c2d0a2020740a";
  "0d3a610d3e3e3e202d202d202d0a";
  "202020203a2020610a202020203c212d2d0a7c637c647c0a202020203e205b217761726e696e675d20770a202020207c2d7c2d7c0a202020200a202020203e207c637c647c0a5b5e665d3a207c617c0a";
  "6060600a3e203e3e3e0a3e207c2d7c2d7c0a20207c2d7c2d7c0a2b20780a20202020790a2b20780a3e206060600a";
  "3c2f6469763e0a2020200a202020740a2020203e790a2020203e203c6469763e";
  "3c7374796c650a3e0a";
  "7c617c627c0d2a20780d2d203e3e3e20610d2d205b5e665d3a203e3e3e0a";
  "20205b615d3a20620d0a2020202d20610d0a20203d3d3d0d0a2d205b205d20610d0a202020207c2d7c0d0a2009610d0a7c0d0a7c2d7c2d7c0d0a2020202d20610d0a7c3a2d3a7c0a";
  "3c64656c3e0a0a2a782a0a0a3c2f64656c3e0a0a0a24247824240a0a7e7e7e7e207079200a7e7e7e0a7e7e7e0a0a";
  "5c5b0a3d3d3d0a";
  "7e7e7e7e7860790a20202020690a7e7e7e7e0a0a3e20c39c6ec3af097a2d7a0a71206261720a";
  "202020610a3e205b5e665d3a202d20780a3e203a2020207c2d7c2d7c0a3e203a202d09610a";
  "5b5e665d3a202d20780a5b5e615d20203a202d20610a5b5e615d20202d203e3e3e0a5b5e615d20202d203e205b217761726e696e675d20770a5b5e615d20202d202020780a5b5e615d20202d20312920780a5b5e615d20202d203a207c617c627c0a5b5e615d20202d20740a";
  "20203e3e3e0a3e3e3e205b217469705d20740a2d";
  "62617a2020e6bca2e5ad970a0a3a205b5b687474703a2f2f787c795d5d0a0a3a207365636f6e640a0a0a3e3e3e0a24247824240a3e3e3e0a0a";
  "6060602072730d0a3e0909610d0a3c6120687265663d2262223e0d0a2309610d0a0909610d0a5b615d3a0d0a5b4120425d3a09620d0a6120200d0a2d207c202d0d0a63270a";
  "2d2d2d0a7469746c653a20780a2d2d2d0a0a5b785d3a0a0a0a202020200a202020200a2020202020780a0a23232323232323092a2a61202a313020666f6f096c6f72656d3f2a2a2a2023232020";
  "2020202020202d20610a3e3e3e20202020203e3e3e205b217761726e696e675d0a3e3e3e20202020202d202d202d";
  "6060600a2309610a3e205b615d3a20620a";
  "7c610d6060602026616d703b205c2a0d3e207c2d7c2d7c0d3c212d2d0a";
  "20202020790a5b5e665d3a203e3e3e0a";
  "5f205f205f205f0a0a";
  "5b5e615d3a0a2020203e3e20610a202020617c620a";
  "2d09610a5b615d0a";
  "202020200a20202020097a0a0a0a3e3e3e0a3e3e3e0a2020202020780a202020203c613e0a3e3e3e0a3e3e3e0a";
  "2d2d2d0a7469746c653a20780a2d2d2d0a0a0a24247824240a";
  "3c6120687265663d2278223e0a0a";
  "20206109620d0a20207c0d0a20205d5d3e0d0a20202d202d202d";
  "7c2d7c2d7c0a2d207e7e7e0a2d200a";
  "3e205b2163617574696f6e5d206126616d703b620d0a2d203e3e3e0d0a2d2d2d0a";
  "6060606060727573740a0a606060600a0a3e205b214e6f70655d0a3e203130612a5c0a3e20697073756d2a7c7c3920697073756d20497c7cc39c6ec3af20772e7820697073756d0a3e203c783a793e0a";
  "2d2d3e0d2d203e205b5e665d3a207c617c0a";
  "5b7265665d3a202f75726c20227469746c65220a22202e207a2d7a205e7a2d7a5e207831202a20e6bca2e5ad970a5c2b0a0a6060600a636f64650a60600a7e7e5b5e315d7e7e0a5f5f697073756d2020c39c6ec3af5c20202420206020495f5f202a2a2f09772e787a2d7a2020492a2a0a0a";
  "5b5e315d3a203e3e3e3e0a20202020202020203c613e";
  "20203e3e3e0a7c637c0a3e205b216e6f74655d0a2a20780a740a7c2d7c2d7c0a202020207c2d7c0a20205b615d3a20620a6060600a3e3e3e205b216e6f74655d0a";
  "3c215b43444154415b0a2d20c3a90a20206060602072730a2d0a";
  "2b2b2b0a7469746c653a20780a2b2b2b0a0a49c3a90a0a3a20697073756d6c6f72656d7e205f5f7a2d7a5f5f205f3c3f5f0a0a20202020097a0a2020202020780a";
  "3e205b214e4f54455d20740a20206060600a20205b5e615d3a205b5e6120625d3a20630d0a";
  "092d205b205d20610d093e207c617c627c0d096060606160620d0a";
  "3d3d3d";
  "7c20615c7c62207c0a7c2d7c0a7c2020207c0a7c2060787c7960207c0a0a5b2061202062205d3a203c7820793e";
  "3e09610d0a3e3e610d0a3e5b615d3a206220630d0a";
  "2d2d3e0d7c2d7c2d7c0d5b5e665d3a207c617c0a";
  "7e5f5fc3a95f5f7e20e6bca2e5ad9762617a202920490961205c0a215b3c215b43444154415b785d5d3e5d283c3e290a7e497e0a5b7265665d3a202f75726c20227422206a756e6b0a";
  "20205b615d3a20620a5d5d3e0a606060600a3c6469763e0a3e610a232061202320200a7c2d0a2d205b785d20610a2020202d20610a312e205b5c5d5d3a2062";
  "7c617c627c0d7c637c0d2d205b205d20780d3e202d20780d2b20780d3c6469763e0a";
  "24602a2a2f2624282524402d3a3a60207b2e5b60282d5f3d2b233e7c7c7d";
  "3e203e20312e20780a3e203e202d2d7c2d2d0d0a";
  "202020207c2d7c0a3e207c617c627c0a312920780a7c2061207c0a202020207c2d7c0a";
  "0a3e203e202020610a3e203e203e790a3e203e20232320612023230a3e203e205b5e615d3a620a3e203e202d2d0a";
  "3e790a202020203e202020780a202020202b2078";
  "3e2a205b";
  "5b5e665d3a202d20780a3a203e20610a5b5e665d3a20780a3e207c617c627c0d0a";
  "2020780d2d2d2d0d3e3e3e205b217469705d20740d3a2020610d312920780d3a206060600d097c617c627c0d092d7c2d0a";
  "3f3e0a5b5e665d3a202d20780a232061202320200a20200a6060602072730a5b5e615d3a203c215b43444154415b0a";
  "20202020620a3e202020232061202320200a3e202020617c627c630a3e2020207e7e7e0a3e2020203c2f6469763e0a3e2020203c2f7072653e0a";
  "3e2071096c6f72656d0a7831666f6f";
  "e6bca2e5ad976c6f72656d0a0a3a20215b0a20207e7e7e2a2a61202a2478242a2a2a7e7e7e0a0a";
  "efbbbf3e3e3e0a3e207a2d7a2020666f6f0a2d2d2d666f6f0a0a00";
  "7c0a2d7c2d0a6060606160620a2320610a3e206060602072730a3e20202d20610a3e790a3e20606060600d0a";
  "3e203920697073756d697073756d20e6bca2e5ad97205b726566325d205f5f7a2d7a5f5f207c7c5b5e315d7c7c20390a3ec39c6ec3af20206261720a0a60612062600a2d2d2d0a0a3ec3a920c39c6ec3af0a";
  "3e205b214e6f70655d0a3e207e7e5b785d287e7e0a3e207ec3a97e203a0a0a0a3c3f7068700a3f3e0a0a0a2d2d2d2d2d0a0a0a232323232020c39c6ec3af203c2f623e0a";
  "2323232323203c6a6176617363726970743a783e23";
  "3e3e3e20610a2d7c2d0a";
  "7777772e615f622e635c0ac3a90a0a0a7e717e205c3c0a3d0a";
  "5b5e615d3a205f205f205f205f0a0a7c207e6c6f72656d7e207c20207c0a7c2d2d2d7c2d7c2d2d2d7c0a7c20e6bca2e5ad97207c2060787c7960207c0a7c205b5f5f78315f5f5d2823667261672022c3a92229207c0a7c2020207c20615c7c62207c0a0a";
  "2a20780a3e203e203e20780d0a";
  "2d20610a3e2020203e202020780a3e202020202020202d20790a3e2020203e203e203e3e3e205b216e6f74655d0a3e2020203e203e203a203e20610d0a";
  "3d3d3d0a20202020780a093c2f6469763e0a0920205b615d3a20620a093e3e3e20610a092d2d0a3e203e20780a0920203a20610a";
  "0b0a6109e280a861010a61efbbbf20e280a8efbbbf0c1b0a20001befbbbf000aefbbbf7fefbbbf7f61000c09011b0020e280a8e280a8610c0a00";
  "3c2f6469763e0d0a20202020780d0a202020203e3e3e205b216e6f74655d0d0a202020205b5e665d3a202d20780d0a202020207e7e7e0d0a2020202020206060600a";
  "232320612023230d0a3e205b216e6f74655d0d0a5c2320610d0a232061202320200d0a2020206060600a";
  "3e3e20610a3c6120687265663d2262223e0a3c212d2d20610a";
  "2d205b5d205c230a20202020203d3d20200a0a2d205b5d203e20606060606122623c630a20202020203e20200a20202020203e202060606060600a0a7e7e7e7e7e6122623c630a6060600a0a202020202a792a";
  "3e3e3e3e205b216e6f74655d0a3a20610a3c212d2d0a2a20780a312920610a3e205b615d3a20620a5b615d3a2062202763270a3e0a";
  "666f6f2078312060607c60600a";
  "2b2b2b0a7469746c653a20780a2b2b2b0a0a232323232323093f202039205e615e207e617e20232320200a0a";
  "dca9d1a70565f481a3a4";
  "227e2a2a227b3a265f3a5f3a";
  "3e202d20780a093a202d20610a093e203e3e3e0a093e20606060";
  "3a207c617c627c0a20203e0a20203e203e3e3e0a";
  "2d2020202d203e3e3e0d2d2020203e207c637c647c0d2d202020202078";
  "6060606060606060606078";
  "0ae280a8007fc2a0000000010b";
  "5b5245465d3a202f6f746865720a0a2323237e617e20230a0a";
  "232320612023230a232061202320200a3e610a";
  "3c2f6469763e0a2d203e3e3e0a2d205b205d20780a780d0a";
  "3e3e3e205b217469705d20740d0a780d0a3e203a202d20610d0a3e2020202020790a";
  "3c212d2d0a3e203e205f5f5f0a3e203e2020203a20610a3e203e203a2020610a3e203e2031302e20610a3e203e203e3e3e205b217469705d20740a3e203e20740a3e203e203e790a3e203e203e203e203e20780a3e203e203a2020610d0a";
  "3e610d0a20203a207c617c627c0d0a20203a205b615d3a0d0a7c2061207c0d0a5b5e615d3a2062";
  "3c7461626c653e3c74723e3c74643e0a3c2f74643e3c2f74723e3c2f7461626c653e0a";
  "5b5e7820795d3a207c20626172207c20e6bca2e5ad97207c20626172207c0a202020207c2d2d3a7c2d7c2d7c0a202020207c207e20783109c39c6ec3af772e78207c202a2a622a2a207c20626172207c2020207c0a0a5b5b75726c7c7469746c655d5d0a";
  "0a31300a";
  "3e20697073756d205c260ac39c6ec3af09490a3e697073756d2031300a";
  "093c3f610a09617c627c630a095b615d3a0a";
  "3929205b5e6122625d3a20202020200a0a";
  "3e203e3e3e0a5b5e615d20200a5b5e615d20203e206060600a5b5e615d2020202020790a5b5e615d20207c637c0a5b5e615d20202020203e3e3e3e";
  "efbbbfefbbbf00005b0a";
  "215b7265665d205f61205f5f60606020206060605f5f20625f0a49e6bca2e5ad9720c3a92771270a0a2a2020203e3e3e0a202020202d09606060727573740a0a202020202020206060600a202020203e3e3e3e";
  "3e20790a3e3e3e205b216e6f74655d0a747c750a";
  "3e202020780a202020203e3e3e20312e20780a202020203e3e3e202d207c617c627c0a";
  "6109efbbbf0d2a2a0b0a7f1b";
  "20203a203d3d3d0a20203a203d3d3d0a20203a202d7c2d0a20203a203e207c617c627c0a20203a203c6469763e0a20203a203e3e3e3e205b216e6f74655d0a";
  "2d202d202d0a5b5e615d3a620a3e205b216e6f74655d0a20202d20610d0a";
  "3e206060600a5b5e665d3a207c617c0a312e203e20780a312e203e203e20780d0a";
  "0d202020203e205b214e4f54455d20740d202020202d207c637c0d202020202d203e3e3e0d202020202d203c2f6469763e0d202020202d203e202d20780d202020202d203e3e3e3e0d202020202d203a202320610a";
  "20207c2d7c2d7c0d20206060600d3e3e3e3e205b216e6f74655d";
  "2d2d2d0a7469746c653a20780a2d2d2d0a0a3c696672616d652f3e0a606061206260602a7e5c0a717e2a215b2a5b5e5d2a5d286d61696c746f3a7840792e7a290a5c270a3d3d3d0a0a3e2049610a772e7820390a0a0a3c2f6469763e0a0a2323232323232320203c21444f435459504520783e";
  "3e203e3e3e0a3e3e203e203e20780a3e202020790a3e202020207c2d7c0a3e3e3e3e";
  "7c637c647c0a2d207c617c627c0a2d203e3e3e0a312e20780a3e206060600a3e203e203e3e3e3e0a3e203e202b20780a2d207c617c627c0d0a";
  "312920610a20202d20780a202020205b615d3a20620a202020207c2d7c2d7c0a20207c2d7c2d7c0a20203a206060600a20203c2f6469763e0a20203e3e3e20610a";
  "6060600a3c623e26616d703b0a6060600a3e203e20c3a9095c2a0a3e2061096261720a";
  "3c215b43444154415b0a200961";
  "5b5e415d3a203e20c39c6ec3af20206261720a2020202062617220390a0a24240a780a24240a0a";
  "2d2d2d62617a0a0a3a20c39c6ec3af2020666f6f0927712720614062203c666f6f406261722e62617a3e20262339393939393939393b2031302039205c5b0a20207e7e607c607e7e205b785d5b0a";
  "3e202323207c7c492020772e782020496c6f72656d7c7c20230a0a3c696672616d65207372633d783e0a3c706c61696e746578743e0a0a";
  "202020202d20610d0a3e207c637c647c0d0a3a2d7c2d3a0d0a3c2f6469763e0d0ac3a90a";
  "3e6261722020697073756d0a3e20697073756d20205c7e0ac39c6ec3af390a";
  "20207c637c647c0d7e7e7e0d202020207c2d7c0d0a";
  "20203a20c2a0610d0a20203a202d2020610d0a60606060";
  "5b785d3a0a0a0ac39c6ec3af205f5fe6bca2e5ad975f5f0a";
  "7e7e7e207079200a20202020690a7e7e7e0a0a0a3e2039202e2e2e0a6120c3a90a0a3ec3a90931300a0a";
  "3e790a3c6469763e0a7c610a3e3e3e0a20207c2d7c2d7c0a3a202d20610a20207c2d7c2d7c0a3e20780a";
  "7c2d7c2d7c0d3e3e3e3e205b217469705d20740d3e2a20610d3e2d2020202020610d3e2774270d3e312e0d3e5b615d3a20620d3e09610a";
  "3a2d7c2d3a0d0a20203a20610d0a3e3e3e0d0a3e3e3e3e205b216e6f74655d0d0a3d3d3d0d0a3e3e3e20747c750d0a3e3e3e207c637c0d0a3e3e3e20202020203e20790d0a3e3e3e2020203a20610d0a20206060600d0a";
  "7c2d7c2d7c0a20203e205b214e4f54455d20740a20203a20610a2020312e0a20203e205b21785d0a20202d203e207e7e7e0a";
  "58d48f58f1aab495e38598";
  "3e20780a5b5e665d3a20780a202020207c2d7c0a20207c637c647c0a20207c2d7c2d7c0a3e202d20780a3e203e20780a3e3e3e3e205b216e6f74655d";
  "5b615d3a206220630d20205b5e615d3a0d20202d2020203e0909610d20202d20202060606060";
  "3e610a63270a09232320612023230a2020206060600a";
  "3d3d3d0d7c2d7c2d7c0d202020202d20790d20207c637c647c0d3e0d20203e3e3e0a";
  "7e7e7e7e7e7e7e7e7e7e7e7e7e7e7e7e7e7e7e7e7e7e7e7e7e7e7e7e7e7e7e7e7e";
  "202020202d20790a2020203c3f610a2020203a205b5e665d3a20780a2020203a2020202020790a2020203a2020202020790a2020203a203e3e3e20610a2020203a202d2d3e0a2020203a203e202020780a";
  "202a202a202a0a23232323095b5b617c627c635d5d205c230a0a3e6c6f72656d2062617a0a0a62617a6c6f72656d0a0a3a205f5f62617a5f5f0a0a";
  "3a3a3a3a3a3a3a3a3a3a3a3a3a3a3a3a3a3a3a3a3a3a3a3a3a3a3a3a3a3a3a3a3a3a3a3a3a3a3a3a3a3a3a3a3a3a3a3a3a3a785d5d5d5d5d5d5d5d5d5d5d5d5d5d5d5d5d5d5d5d5d5d5d5d5d5d5d5d5d5d5d5d5d5d5d5d5d5d5d5d5d5d5d5d5d5d5d5d5d5d";
  "3a2020610d5b615d3a20620d20207c2d7c2d7c0d740d312e20780d3e205b216e6f74655d0d0a";
  "2d20610a610a2020610a3c6120687265663d2262223e0a20202020780a5b615d3a20622027630a3e3e3e205b216e6f74655d0a2d2020610a2020610a615c";
  "2a2a247820242a2a205b5b687474703a2f2f787c795d5d205b5b687474703a2f2f787c795d5d0a3c62722f3e0a6c6f72656d205f5f5f5fe6bca2e5ad975f5f5f5f20697073756d20697073756d205b093b3130096c6f72656d0a3d3d20200a";
  "3c666f6f406261722e62617a3e203c2f623e20c3a909783120e6bca2e5ad9720204920266e67453b207e62617a7e0a0a3e3e3e0a2d205b7e5d0920202020636f64650a20202020202020202020200a3e3e3e0a";
  "687474703a2f2f612e623c63205c2420697073756d203130203928c3a97d096c6f72656d20e6bca2e5ad97205c5c202a09c39c6ec3af20204920610a0a0a3c782d79207a3e0a0a0a5e6261725e205c2b0a786d70703a6140622e632f725b746578745d5b7265665d5d0a";
  "772e782031300a0a3a205b5b5b687474703a2f2f787c795d5d5d282f752776295b2061202062205d24612462240a0a0a3e205b5245465d3a202f6f746865720a3e207e7e24247e7e0a0a0a3e7120207a2d7a0a0a2a2a0a0a";
  "3e203920610ac3a909772e780a0a3e205b216e6f74655d0a3e207a2d7a26203c68747470733a2f2f612e623f633d6426653e205f2661756d6c3b5f0a";
  "3e0a3e2020203e202d20780a3e2020202a20780a3e2020203c2f6469763e0a3e2020203e207c617c627c0a3e2020203e206060600a";
  "7a2d7a20710a0a3a207c7c3c6d61696c746f3a6140622e633e7c7c3c2f623e5b5b75726c7c7469746c655d5d0a20207c7c5d2a2020242039205c092771277c7c0a0a3a207365636f6e640a5b5e415d3a20202020203c613e0a202020202020202063";
  "20203a20610d3a207c617c627c0d3e207c2d7c2d7c0d3e203e3e3e0d2d20c3a90d2020780d3e207c2d7c2d7c0d202020202d20790d2d2d2d0d20206060600a";
  "3a202d20610a2020203e207c2d7c2d7c0a2020203e203e203e20780a";
  "5b5e615d3a20620d0a5b615d3a203c623e202263220a";
  "7c637c647c0a3e3e3e205b217469705d20740a3e205b217761726e696e675d20770a2d7c2d0a0a5b5e665d3a203e3e3e0a";
  "3d3d3d0a2009610a312e20780d0a";
  "3e62617220390a0a0a5f5f5b5e715e5d283c3e295f5f206261720971207d20e6bca2e5ad970a3d3d3d0a0a2b20207e617e3130096c6f72656d390a2020206d61696c746f3a6140622e630a20202068747470733a2f2f612e622f635f645f0a0a0a5b5e6122625d3a2023232323236061206260205c230a";
  "20207c637c647c0d0a3e207e7e7e0d0a3e203e20202020202d20790d0a3e203e2020202d20780d0a3e203e205b5e665d3a203e3e3e0d0a3e203e203e205b216e6f74655d0a";
  "5f273a3b2260237d3d3f3d3e";
  "3e20610a202020610a20207c637c647c0a5b5e6120625d3a20630a3e205b216e6f74655d0a5b5c5d5d3a20620a312920610a615c7c627c630a3e09610a5b615d0a";
  "24247824240a0a3e24240a3e2020780a3e202024240a0a3e205b215741524e494e475d0a3e20666f6f0a3e2026233b0a0a";
  "3e205b214e4f54455d20740d0a2309610d0a26616d703b0d0a2d207c202d0d0a3e205b2163617574696f6e5d206126616d703b620d0a20200a";
  "7c2061207c0d0a322e20610d0a5b615d3a20620d0a20203a202323232323232320610d0a";
  "20202d20780a3e205b216e6f74655d0a20207c637c647c0a3e206060600d0a";
  "2b2b2b0a7469746c653a20780a2b2b2b0a0a3e2078312020c3a90a6c6f72656d0962617a0a";
  "6060606d6174680a785e320a6060600a7e7e7e7e727573740a0a7e7e7e7e7e0a0a0a5b5e615d3a2061206261720a202020202060787c7960207c2020200a202020207c3a2d3a7c3a2d2d7c0a202020207c20207c20207c";
  "3e205b215741524e494e475d0a3e205e697073756d5e0a3e2049610a0a6c6f72656d202d2d0a7c203b207c0a7c2d2d2d7c0a0a2323097e7e5b5e415d7e7e0a";
  "7e7e7e0a09610a20202020620ac3a90a20203d3d3d0a7c610a";
  "3c6469763e0a2a782a0a3c2f6469763e0a0a3e205b215449505d0a3e205b5265665d5b5d7e7e62617a4909617e7e3c2f7469746c653e62617a2020626172207162617a5b7e7a2d7a7e5d28687474703a2f2f612e622f633f643d65266629";
  "7e7e7e207079200a636f64650a7e7e7e0a";
  "20203e2020610a20207c617c627c0a2020232061202320200a20203c6120687265663d2262223e0a20202d20";
  "202020203e20790a2020203e3e3e0a2020202a20780a2020203e203e203e20780a2020203e3e3e20312e20780d0a";
  "3e3e3e3e205b216e6f74655d0a3e205b615d3a20620a3e20747c750d0a";
  "2d200d0a0d0a2a2a2a0d0a7e7e7e2061207e0d0a3c6120687265663d2262223e0d0a7c2061207c0a";
  "3e3e3e3e205b216e6f74655d0d0a3e20203e3e3e0d0a3e6060600d0a3e3a20610d0a3e3e3e3e205b217469705d20740d0a3e202020203e20790d0a3e20202020790d0a3e3a202d20610d0a3e3c7072653e0d0a3e202020790a";
  "7c2061207c0d5b615d0d3c212d2d20610d20202020790d5b615d3a20625c";
  "7c2d7c2d7c0a5b615d3a20620a6060600a747c750a3c2f6469763e0a3a20610a";
  "2d20202d2d2d2d2d0a0a2d";
  "24247824240a0a0a7c2060787c7960207c2060787c7960207c0a7c2d2d2d7c2d2d2d7c0a7c2060787c7960207c0a7c202a2a622a2a207c0a7c2020207c20207c0a0a";
  "3e3e3e203e203e3e3e0a5b5e665d3a203e3e3e0a3e205b615d3a20620a";
  "5b7265665d3a202f75726c20227422206a756e6b0a0a2d2d0a0a0a3e20e6bca2e5ad9720490ae6bca2e5ad970978310a0a";
  "232323232323205e31305e207c7c2a3c3f70693f3e2a7c7c20232320200a0a0a3c783a793e0a";
  "d887";
  "5b615d3a20620a7e7e7e0a747c750a20207c2d7c2d7c0a3e205b216e6f74655d0a2d207c617c627c0a3e207c2d7c2d7c0a3a207c617c627c0a0a2d207c617c627c0d0a";
  "3a2020610d0a20207c2d7c2d7c0d0a606020610a";
  "697073756d207d2062617a09666f6f2020615c5f20610a2a2a61202a5b5e2a2a2a206060607c606060203130205b2020400a396020207120783109697073756d20207b203c623e20490a0a2d2d0a0a";
  "312920780a3e20610a3a20610a3a203e20610a3e3e3e3e205b216e6f74655d0a3a2020610a3e207c617c627c0a2d7c2d0a20207c2d7c2d7c0a3e610d0a";
  "2b2b2b0a7469746c653a20780a2b2b2b0a0a3e207a2d7a20c39c6ec3af0a313009697073756d0a";
  "2d2d2d0a7469746c653a20780a2d2d2d0a0a3e205c26206c6f72656d0a772e7820666f6f0a0a";
  "2020206060600a6060602072730a3e20c3a97cc3bc0a7c2d0a2d2d0a5b615d3a2062202763270a2320610a3e205b216e6f74655d0a2020206060600a312e";
  "5b5e6e6f74655d3a202a205b5d2024247824240a0d2020202020202020207e7e772e78203f20206c6f72656d2078317e7e0a";
  "242478";
  "202020202d20790a3a202d20610a3e747c750a5b5e665d3a203e3e3e0a3e6060600a";
  "3e202d20202020202020780a0a2020205b7265665d3a202f75726c20227422206a756e6b0a0a3c3f7068700a3f3e0a0a3ec3a920c39c6ec3af0a202020200a2020202020780a";
  "24242424242424242424783e3e3e3e3e3e3e3e3e3e";
  "0d0d2d205b205d20780d0a";
  "232320612023230a2020202020202d20780a20202020740a2020202020207c2d7c2d7c0a202020205b5e665d3a203e3e3e0a202020203e20790a202020206120200a20202020780a202020203e203e203e20780a202020203c212d2d0d0a";
  "6060606060780a636f64650a6060606060600a0a2d20203e205b214e4f54455d0a2020203e205f666f6f2e6261724062617a2e6f72675f20c3a978312024207a2d7a0a0a2d202020202020097a0a0a2d092b2020203e5b7265665d3a202f647570202874290a";
  "3c212d2d0a3e202020780a3e207c2d7c2d7c0a2020203a207c617c627c0a2020202d0961";
  "2d203e207c637c647c0a2d202020203e20610a2d20322e2061";
  "312e20780a3e205b216e6f74655d0a3e202020780a20206060600a";
  "5b5c5d5d3a20620a3e203e207c2d7c2d7c0d0a";
  "2a205b205d202d2d2d0a0ae6bca2e5ad972061205c2020e6bca2e5ad970a3d3d3d0a0a0a202020200a202020200a";
  "232323232362617a206261720961207c7c2a5e2020e6bca2e5ad97783109772e782020217c7c2023";
  "3e205b214e6f70655d0a3e2026616d703b613a24612462240a0a2b202323232323206140622e632f640a";
  "3e3e3e0a7e7e7e7e6d6174680a2a782a0a7e7e7e0a3e3e3e0a3e666f6f0978310a0a";
  "2020780d3e202d20780d7c617c627c0d3e3e3e205b217469705d20740d6060600d0d20203e3e3e0d3e207c2d7c2d7c0d0a";
  "20202d20780a3e207e7e7e0a3e200a3e207c0a3e203a2020610a3e205c2320610a3e203e207c617c627c0a3e202020202078";
  "3c7072653e0d0a7c610d0a5b5e665d3a203e3e3e0d0a312e20610d0a2d2d3e0a";
  "202020203c613e0a202020203c613e0a0a7e7e7e7e727573740a0a0a0a0a";
  "2a205e715e0a20203d3d3d0a2a2020232020610a0a202020200a";
  "5b5e615d3a620a7c2061207c0a3c613e0a2d202d202d0a615c0a20202020610a3a20610a2774270a3e0909610a3e3e3e0a";
  "3e3e3e205b217469705d20740a3a207c617c627c0a3a20202020203e20790a";
  "c39c6ec3afe6bca2e5ad972020772e780a";
  "0a2d202d7c2d0a2d202d206060600a3e206060600a2d205b205d2078";
  "3c3f7068700a3f3e0a0a3e6261725c7c";
  "7c610a202020205c2320610a202020202d200a20202020312e205d5d3e0a20202020312e202d2d3e0a20202020312e203e0a20202020312e202d200a20202020312e2020202020610d0a";
  "20203a20312e20610a20203a207e7e7e2061207e0a20203a2020202020620a";
  "3c2f6469763e0a";
  "6109620a322e20610a5b615d3a203c623e202263220ac3a90a5d5d3e0a5b615d3a203c623e202263220a3e20610a20202020620a2774270a20203e";
  "3e492020610a0a3ec39c6ec3af666f6f0a0a";
  "5b5e665d3a20780a780a20202d20780a5b5e615d3a206060600a5b5e615d3a200909610a5b5e615d3a203e202020780d0a";
  "3c212d2d0a2b20780a2a20780a2d2d3e0a2d2d3e0a5b5e665d3a207c617c0a3e205b615d3a20620a0d0a";
  "3a202d20610d0a20202d20780d0a20203e206060600d0a20205b5e665d3a207c617c0d0a2020202020203e20790d0a20202d203e3e3e0d0a20202d202020780d0a20203a203e20610a";
  "7c637c0d3e203e202a2a2a0d3e203e20312e20610d3e203e207c2061207c0d3e203e202d09610d3e203e202d0909610d3e203e205b615d3a20625c0d3e203e2020203d3d3d";
  "7c637c647c0a2d20780a3e205b615d3a20620a3a202320610a7c2d7c2d7c0a20203e3e3e0a3e203e203a2020610a3e203e203c212d2d0a";
  "3e207c2d7c2d7c0a202020207c2d7c0a20202d20780a3e3e3e3e205b216e6f74655d0a5b615d3a20620a617c627c630a";
  "20205b615d3a20620a20207c2d7c2d7c0a3a203e20610a5b5e665d3a203e3e3e0a";
  "3e205b2143415554494f4e5d0a3e20c39c6ec3af20c3a9096c6f72656d20e6bca2e5ad970a3e205e772e785e0a0a0a3e20606060600a3e0a3e20200a3e200a3e200a0a202020202a792a0a2020202020780a20202020";
  "20202020097a0a202020203c613e0a202020203c613e0a0a24240a780a24240a";
  "5b5e615d3a0d0a3e2020202d203e203e3e3e205b217761726e696e675d0d0a3e2020202d7c2d0a";
  "3a202320610a2a20610a5b5e665d3a202d20780a3a206060600a3d3d3d0a20207c2d7c2d7c0a6120200a3e203c6469763e";
  "2d205b205d20610a31302e20610a2d200a3e09610a";
  "20202020636f64650a202020200a0ac3a920390a0a3a203c212d2d0a2020772e78e6bca2e5ad97206120e6bca2e5ad97206261722026636f70793b20697073756d205b785d283c3e292031300a";
  "5b615d3a20620a2020206060600a3e3e3e3e205b216e6f74655d0a3a20610a2320610a3e0a3c7363726970743e783c2f7363726970743e0a2020203e20610a2d09610a7c2d7c2d7c0a";
  "230d0a2320610d0a3e205b214e4f54455d20740d0a2d2d2d";
  "2d2d2d0d202020610d2020203e206060600d3e20790d202020740d2020203e205b217761726e696e675d20770a";
  "";
  "20203e3e3e0a20200d0a";
  "3e2323203c62722f3e0a0a3e3e3e3e0a24247824240a3e3e3e3e3e0a"
].

(* ------------------------------------------------------------------ results *)
(* the checker is not vacuous: closing self.current by hand breaks it *)
Example checker_sees_closed_current :
  match doc_state o_none (D ["a"]) 1 with
  | Ok st => match modify_info st (ps_current st) (set_open false) with
             | Ok st' => (spine_ok2 st, spine_ok2 st')
             | _ => (false, true)
             end
  | _ => (false, true)
  end = (true, false).
Proof. vm_compute. reflexivity. Qed.

(* the candidate is false: minimal documents, the clause that fails (sr_others), the stale open nodes *)
Definition doc_desc : bytes := D ["t"; ": d"].
Definition doc_mbq : bytes := D [">>>"; "> a"; ">>>"].
Definition doc_alert : bytes := D [">>> [!note]"; "> a"; ">>>"].
Definition doc_preface : bytes := D ["p"; "|a|"; "|-|"].

Example candidate_refuted_description_list :
  run_doc o_all_ng spine_ok doc_desc = FailLine 2 /\
  res_map spine_report (doc_state o_all_ng doc_desc 2) = Ok (mkSR true true true false true) /\
  res_map stale_open (doc_state o_all_ng doc_desc 2) = Ok [(KDescriptionTerm, true, false); (KParagraph, true, false)].
Proof. vm_compute. repeat split. Qed.

Example candidate_refuted_multiline_block_quote :
  run_doc o_all_ng spine_ok doc_mbq = FailLine 3 /\
  res_map spine_report (doc_state o_all_ng doc_mbq 3) = Ok (mkSR true true true false true) /\
  res_map stale_open (doc_state o_all_ng doc_mbq 3) = Ok [(KParagraph, false, true)].
Proof. vm_compute. repeat split. Qed.

Example candidate_refuted_multiline_alert :
  run_doc o_all_ng spine_ok doc_alert = FailLine 3 /\
  res_map stale_open (doc_state o_all_ng doc_alert 3) = Ok [(KParagraph, false, true)].
Proof. vm_compute. repeat split. Qed.

Example candidate_refuted_table_preface :
  run_doc o_tab spine_ok doc_preface = FailLine 3 /\
  res_map spine_report (doc_state o_tab doc_preface 3) = Ok (mkSR true true true false true) /\
  res_map stale_open (doc_state o_tab doc_preface 3) = Ok [(KParagraph, true, false)].
Proof. vm_compute. repeat split. Qed.

(* the corrected invariant holds on these four *)
Example corrected_on_counterexamples :
  map (fun p => run_doc (fst p) spine_ok2 (snd p))
      [(o_all_ng, doc_desc); (o_all_ng, doc_mbq); (o_all_ng, doc_alert); (o_tab, doc_preface); (o_all, doc_desc); (o_all, doc_mbq)]
  = [Pass; Pass; Pass; Pass; Pass; Pass].
Proof. vm_compute. reflexivity. Qed.

(* the corrected invariant (between lines), P1 and P2 (inside lines), no Panic: the whole corpus, every option set *)
Example corrected_hand_all : failures o_all spine_ok2 hand_corpus = []. Proof. vm_compute. reflexivity. Qed.
Example corrected_hand_all_ng : failures o_all_ng spine_ok2 hand_corpus = []. Proof. vm_compute. reflexivity. Qed.
Example corrected_hand_all_fm : failures o_all_fm spine_ok2 hand_corpus = []. Proof. vm_compute. reflexivity. Qed.
Example corrected_hand_tab : failures o_tab spine_ok2 hand_corpus = []. Proof. vm_compute. reflexivity. Qed.
Example corrected_hand_none : failures o_none spine_ok2 hand_corpus = []. Proof. vm_compute. reflexivity. Qed.
Example corrected_gen_all : failures o_all spine_ok2 gen_corpus = []. Proof. vm_compute. reflexivity. Qed.
Example corrected_gen_all_ng : failures o_all_ng spine_ok2 gen_corpus = []. Proof. vm_compute. reflexivity. Qed.
Example corrected_gen_all_fm : failures o_all_fm spine_ok2 gen_corpus = []. Proof. vm_compute. reflexivity. Qed.
Example corrected_gen_tab : failures o_tab spine_ok2 gen_corpus = []. Proof. vm_compute. reflexivity. Qed.
Example corrected_gen_none : failures o_none spine_ok2 gen_corpus = []. Proof. vm_compute. reflexivity. Qed.

(* with every extension off the candidate itself holds on the corpus *)
Example candidate_plain_hand : failures o_none spine_ok hand_corpus = []. Proof. vm_compute. reflexivity. Qed.
Example candidate_plain_gen : failures o_none spine_ok gen_corpus = []. Proof. vm_compute. reflexivity. Qed.

(* how often the candidate fails with the extensions on (documents of the corpus) *)
Example candidate_fails_hand : List.length (failures o_all_ng spine_ok hand_corpus) = 28. Proof. vm_compute. reflexivity. Qed.
Example candidate_fails_gen : List.length (failures o_all_ng spine_ok gen_corpus) = 35. Proof. vm_compute. reflexivity. Qed.

(* ------------------------------------------------------------------ structural lemmas towards the invariant (Qed) *)
(* openness of the node with an identifier, as the parser reads it (first node in pre-order) *)
Definition open_of (st : pstate) (y : nat) : option bool := option_map nopen (find_node y (ps_root st)).

(* every setter but set_open keeps the flag; Ast::new makes an open node *)
Lemma set_val_open v i : bi_open (set_val v i) = bi_open i. Proof. reflexivity. Qed.
Lemma set_start_open l c i : bi_open (set_start l c i) = bi_open i. Proof. reflexivity. Qed.
Lemma set_end_open l c i : bi_open (set_end l c i) = bi_open i. Proof. reflexivity. Qed.
Lemma set_content_open s i : bi_open (set_content s i) = bi_open i. Proof. reflexivity. Qed.
Lemma set_llb_open b i : bi_open (set_llb b i) = bi_open i. Proof. reflexivity. Qed.
Lemma set_ioff_open n i : bi_open (set_ioff n i) = bi_open i. Proof. reflexivity. Qed.
Lemma set_lo_open l i : bi_open (set_lo l i) = bi_open i. Proof. reflexivity. Qed.
Lemma set_tv_open b i : bi_open (set_tv b i) = bi_open i. Proof. reflexivity. Qed.
Lemma set_open_open b i : bi_open (set_open b i) = b. Proof. reflexivity. Qed.
Lemma new_info_open id v l c : bi_open (new_info id v l c) = true. Proof. reflexivity. Qed.

Lemma open_of_binf st st' y :
  option_map binf (find_node y (ps_root st')) = option_map binf (find_node y (ps_root st)) -> open_of st' y = open_of st y.
Proof.
  unfold open_of, nopen. intro H.
  destruct (find_node y (ps_root st')), (find_node y (ps_root st)); cbn [option_map] in *; congruence.
Qed.

(* a change of one node that keeps its identifier and children does not touch the openness of another identifier *)
Lemma modify_open_other st id f st' y :
  modify st id f = Ok st' -> y <> id ->
  (forall n, find_node id (ps_root st) = Some n -> bid (f n) = bid n /\ bkids (f n) = bkids n) ->
  open_of st' y = open_of st y.
Proof.
  unfold modify. intros M Ny Hf. destruct (upd id f (ps_root st)) as [r|] eqn:U; [|discriminate M]. inversion M; subst.
  apply open_of_binf. cbn [ps_root st_root]. eapply upd_other; eauto.
Qed.

Lemma modify_info_open_other st id g st' y :
  modify_info st id g = Ok st' -> y <> id -> (forall i, bi_id (g i) = bi_id i) -> open_of st' y = open_of st y.
Proof.
  intros M Ny Hg. eapply modify_open_other; eauto. intros [i ch] _. unfold bid. cbn [on_info binf bkids].
  split; [apply Hg | reflexivity].
Qed.

Lemma modify_info_open_self st id g st' n :
  modify_info st id g = Ok st' -> get st id = Ok n -> bi_id (g (binf n)) = bi_id (binf n) ->
  open_of st' id = Some (bi_open (g (binf n))).
Proof.
  unfold modify_info, modify. intros M G Hg.
  destruct (upd id (on_info g) (ps_root st)) as [r|] eqn:U; [|discriminate M]. inversion M; subst.
  apply get_find in G. destruct (find_node_sub _ _ _ G) as [Bn _].
  unfold open_of. cbn [ps_root st_root]. rewrite (upd_find _ _ _ _ _ U G).
  - destruct n; reflexivity.
  - destruct n as [i ch]. unfold bid in *. cbn [on_info binf] in *. rewrite Hg, Bn. apply Nat.eqb_refl.
Qed.

(* modify_info with a constant function (the form finalize and add_line use) *)
Lemma modify_info_const_open st id j st' n :
  modify_info st id (fun _ => j) = Ok st' -> get st id = Ok n -> bi_id j = bi_id (binf n) ->
  open_of st' id = Some (bi_open j) /\ forall y, y <> id -> open_of st' y = open_of st y.
Proof.
  intros M G Hj. split.
  - exact (modify_info_open_self st id (fun _ => j) st' n M G Hj).
  - intros y Ny. eapply modify_open_other; [exact M | exact Ny |].
    intros m Fm. rewrite (get_find _ _ _ G) in Fm. inversion Fm; subst m. destruct n as [i ch].
    unfold bid. cbn [on_info binf bkids] in *. split; [exact Hj | reflexivity].
Qed.

(* modify_info with a function that keeps identifier and flag: the openness of EVERY identifier stays *)
Lemma modify_info_keeps_open st id g st' :
  modify_info st id g = Ok st' -> (forall i, bi_id (g i) = bi_id i /\ bi_open (g i) = bi_open i) ->
  forall y, open_of st' y = open_of st y.
Proof.
  intros M Hg y. destruct (Nat.eq_dec y id) as [->|Ny].
  - destruct (find_node id (ps_root st)) as [n|] eqn:F.
    + assert (G : get st id = Ok n) by (unfold get; now rewrite F).
      rewrite (modify_info_open_self _ _ _ _ _ M G (proj1 (Hg _))). unfold open_of. rewrite F. cbn [option_map].
      f_equal. apply Hg.
    + exfalso. unfold modify_info, modify in M. rewrite (find_none_upd _ (on_info g) _ F) in M. discriminate M.
  - eapply modify_info_open_other; eauto. intro i; apply Hg.
Qed.

(* the cursor-only steps *)
Lemma st_cur_open st c y : open_of (st_cur st c) y = open_of st y. Proof. reflexivity. Qed.
Lemma st_current_open st c y : open_of (st_current st c) y = open_of st y. Proof. reflexivity. Qed.
Lemma st_refmap_open st m y : open_of (st_refmap st m) y = open_of st y. Proof. reflexivity. Qed.
Lemma st_next_open st m y : open_of (st_next st m) y = open_of st y. Proof. reflexivity. Qed.

(* add_line keeps the openness of every identifier, and answers Ok only on an open node *)
Lemma add_line_keeps_open st id line st' : add_line st id line = Ok st' -> forall y, open_of st' y = open_of st y.
Proof.
  unfold add_line. intros H y. mstep H. rename E into G. mstep H; [discriminate H|]. clear E.
  destruct (c_pct (ps_cur st)); cbv beta iota in H; mon H; rewrite st_cur_open;
    (match goal with M : modify_info st id (fun _ => ?j) = Ok _, E : _ = Ok ?j |- _ =>
       assert (A : bi_id j = bi_id (binf a) /\ bi_open j = bi_open (binf a))
         by (match type of E with (if ?b then _ else _) = _ => destruct b end;
             [ mstep E; mstep E; split; reflexivity | inversion E; split; reflexivity ]);
       destruct (modify_info_const_open _ _ _ _ _ M G (proj1 A)) as [S1 S2] end);
    (destruct (Nat.eq_dec y id) as [->|Ny];
     [ rewrite S1; unfold open_of; rewrite (get_find _ _ _ G); cbn [option_map]; unfold nopen; f_equal; apply A
     | apply S2; exact Ny ]).
Qed.

Lemma add_line_was_open st id line st' : add_line st id line = Ok st' -> open_of st id = Some true.
Proof.
  unfold add_line. intro H. mstep H. mstep H; [discriminate H|].
  unfold open_of. rewrite (get_find _ _ _ E). cbn [option_map]. apply negb_false_iff in E0. unfold nopen. now rewrite E0.
Qed.

(* finalize answers Ok only on an open node *)
Lemma finalize_was_open o st id r : finalize o st id = Ok r -> open_of st id = Some true.
Proof.
  unfold finalize. intro H. mstep H. mstep H; [discriminate H|].
  unfold open_of. rewrite (get_find _ _ _ E). cbn [option_map]. apply negb_false_iff in E0. unfold nopen. now rewrite E0.
Qed.

(* retighten only rewrites the payload of a list *)
Lemma retighten_keeps_open st p st' : retighten st p = Ok st' -> forall y, open_of st' y = open_of st y.
Proof.
  unfold retighten. intros H y. destruct p as [item|]; [|now inversion H].
  destruct (parent_of item (ps_root st)) as [lid|]; [|now inversion H].
  mstep H. destruct (bi_open (binf a)); [now inversion H|].
  destruct (bval a); try (now inversion H).
  eapply modify_info_keeps_open; [exact H|]. intro i. split; reflexivity.
Qed.

(* finalize of a node that is not a paragraph: exactly that identifier is closed, every other keeps its flag *)
Lemma finalize_flips_self o st id n p st' :
  finalize o st id = Ok (p, st') -> get st id = Ok n -> is_paragraph n = false ->
  open_of st' id = Some false /\ forall y, y <> id -> open_of st' y = open_of st y.
Proof.
  unfold finalize. intros H G NP. rewrite G in H. cbn [bind] in H. mstep H; [discriminate H|]. mstep H. clear E0.
  unfold is_paragraph, bval in NP.
  destruct (bi_val (binf n)) eqn:Ev; try discriminate NP; mon H;
    (match goal with M : modify_info st id (fun _ => ?j) = Ok _ |- _ =>
       destruct (modify_info_const_open _ _ j _ _ M G eq_refl) as [S1 S2] end;
     split; [rewrite S1; reflexivity | exact S2]).
Qed.

(* finalize of a paragraph that keeps content (it stays in the tree) *)
Lemma finalize_flips_paragraph_kept o st id n p st' c m :
  finalize o st id = Ok (p, st') -> get st id = Ok n -> is_paragraph n = true ->
  resolve_refdefs (bo_fold o) (ps_refmap st) (bi_content (binf n)) = Ok (c, true, m) ->
  open_of st' id = Some false /\ forall y, y <> id -> open_of st' y = open_of st y.
Proof.
  unfold finalize. intros H G IP R. rewrite G in H. cbn [bind] in H. mstep H; [discriminate H|]. mstep H. clear E0.
  unfold is_paragraph, bval in IP.
  destruct (bi_val (binf n)) eqn:Ev; try discriminate IP.
  rewrite R in H. cbn [bind] in H. mstep H. inversion H; subst. clear H.
  match goal with M : modify_info st id (fun _ => ?j) = Ok _ |- _ =>
    destruct (modify_info_const_open _ _ j _ _ M G eq_refl) as [S1 S2] end.
  split; [rewrite st_refmap_open, S1; reflexivity | intros y Ny; rewrite st_refmap_open; apply S2; exact Ny].
Qed.

(* the Document accepts every block but items (and itself): add_child_loop can only fail at the root for those *)
Lemma document_accepts k : block k = true -> k <> KItem -> k <> KTaskItem -> k <> KDocument ->
  can_contain KDocument k = true.
Proof. destruct k; intros B N1 N2 N3; try reflexivity; try discriminate B; congruence. Qed.

(* the kinds add_child is called with (handlers, add_text_to_container, front matter prologue, description lists) *)
Definition add_child_kinds : list kind :=
  [KAlert; KMultilineBlockQuote; KBlockQuote; KHeading; KCodeBlock; KHtmlBlock; KThematicBreak; KFootnoteDefinition;
   KDescriptionList; KDescriptionItem; KDescriptionTerm; KDescriptionDetails; KList; KParagraph; KFrontMatter].
Lemma document_accepts_add_child_kinds : forallb (can_contain KDocument) add_child_kinds = true.
Proof. reflexivity. Qed.
(* Item is the only other kind; its parent is a List (the matching container or the one just created) *)
Lemma list_accepts_item : can_contain KList KItem = true. Proof. reflexivity. Qed.

(* add_child_loop stops at once on a parent that accepts the kind; otherwise it answers Ok only if the parent is open *)
Lemma add_child_loop_accepts fuel o st parent k p :
  get st parent = Ok p -> can_contain (bkind p) k = true -> add_child_loop (S fuel) o st parent k = Ok (parent, st).
Proof. intros G C. cbn [add_child_loop]. rewrite G. cbn [bind]. now rewrite C. Qed.

Lemma add_child_loop_refused_open fuel o st parent k p r :
  get st parent = Ok p -> can_contain (bkind p) k = false -> add_child_loop fuel o st parent k = Ok r ->
  open_of st parent = Some true.
Proof.
  intros G C H. destruct fuel as [|f]; [discriminate H|]. cbn [add_child_loop] in H. rewrite G in H. cbn [bind] in H.
  rewrite C in H. unfold unwrap_parent in H. mstep H. mstep E. eapply finalize_was_open; exact E0.
Qed.

(* append_child / add_child_gen: the new node is the last child of the parent the loop answered, and it is open when
   `post` keeps the flag *)
Lemma add_child_gen_last_open o st parent v col post kids id st' :
  add_child_gen o st parent v col post kids = Ok (id, st') ->
  (forall i, bi_open (post i) = bi_open i) ->
  exists p' st1 pn new,
    add_child_loop (S (ps_next st)) o st parent (kind_of v) = Ok (p', st1) /\
    find_node p' (ps_root st1) = Some pn /\
    find_node p' (ps_root st') = Some (BNode (binf pn) (bkids pn ++ [new])) /\
    binf new = post (new_info id v (ps_line_number st1) col) /\ bkids new = kids /\
    nopen new = true /\ id = ps_next st1.
Proof.
  unfold add_child_gen. intros H Hp.
  destruct (add_child_loop (S (ps_next st)) o st parent (kind_of v)) as [[p' st1]| |] eqn:L; cbn [bind] in H; try discriminate H.
  destruct (Nat.eqb col 0); [discriminate H|].
  mstep H. inversion H; subst. clear H. rename E into A. unfold append_child, modify in A.
  cbn [ps_root st_next] in A.
  destruct (upd p' _ (ps_root st1)) as [r|] eqn:U; [|discriminate A]. inversion A; subst. clear A.
  destruct (find_node p' (ps_root st1)) as [pn|] eqn:F.
  2:{ rewrite (find_none_upd _ _ _ F) in U. discriminate U. }
  destruct (find_node_sub _ _ _ F) as [Bn _].
  exists p', st1, pn, (BNode (post (new_info (ps_next st1) v (ps_line_number st1) col)) kids).
  split; [reflexivity|]. split; [exact F|]. split.
  - cbn [ps_root st_root]. rewrite (upd_find _ _ _ _ _ U F).
    + destruct pn; reflexivity.
    + destruct pn as [i ch]. unfold bid in *. cbn [binf] in *. rewrite Bn. apply Nat.eqb_refl.
  - repeat split. unfold nopen. cbn [binf]. rewrite Hp. reflexivity.
Qed.

(* reopen_ast_nodes opens the node it is given *)
Lemma reopen_opens_self st id st' n fuel :
  reopen_ast_nodes (S fuel) st id = Ok st' -> get st id = Ok n ->
  exists st1, modify_info st id (set_open true) = Ok st1 /\ open_of st1 id = Some true.
Proof.
  cbn [reopen_ast_nodes]. intros H G. mstep H. exists a. split; [reflexivity|].
  exact (modify_info_open_self st id (set_open true) a n E G eq_refl).
Qed.
