(* Proofs/BlocksTotal7.v — totality of the block phase, seventh round: the walks of this round intersected with the
   result of the sixth (parse_blocks o x is Ok or a Panic at one of the 22 sites of BlocksTotal6.rem_sites6).
   GENERATED from the table of walks (one `but <sites>` walk per file Proofs/BlocksTotal7*.v; see the comment of the
   seventh round in Props/Blocks.v for what excludes each site).
     excluded7_all    sites excluded for EVERY input byte string and EVERY option set
     excluded7_utf8   sites excluded under utf8_valid x = true
     rem_sites7_all = rem_sites6 minus excluded7_all;  rem_sites7 = rem_sites6 minus both. *)
From Coq Require Import List NArith Arith Bool Lia Strings.String.
From V Require Import Base.Bytes Base.Res Spec.EscapeSpec Model.Blocks Proofs.BlocksTotal4Safe.
From V Require Proofs.BlocksTotal6 Proofs.BlocksTotal7Add Proofs.BlocksTotal7ContWalk Proofs.BlocksTotal7Atx Proofs.BlocksTotal7CodeFin Proofs.BlocksTotal7CodeWalk Proofs.BlocksTotal7Fm Proofs.BlocksTotal7Loc Proofs.BlocksTotal7Cur.
Import ListNotations.
Local Open Scope string_scope.
Local Open Scope list_scope.

(* the sites excluded in this round: for every input / for valid UTF-8 input only *)
Definition excluded7_all : list string := BlocksTotal7Add.add_sites ++ BlocksTotal7ContWalk.cont_sites ++ BlocksTotal7Atx.atx_sites ++ BlocksTotal7CodeFin.code_sites.
Definition excluded7_utf8 : list string := BlocksTotal7Fm.fm_sites ++ BlocksTotal7Loc.loc_sites ++ BlocksTotal7Cur.cur7_sites.
Definition excluded7 : list string := excluded7_all ++ excluded7_utf8.

Definition rem_sites7_all : list string := filter (fun s => negb (inl excluded7_all s)) BlocksTotal6.rem_sites6.
Definition rem_sites7 : list string := filter (fun s => negb (inl excluded7 s)) BlocksTotal6.rem_sites6.

Theorem parse_blocks_no_panic7_all o x s : In s excluded7_all -> parse_blocks o x <> Panic s.
Proof.
  unfold excluded7_all. intro H.
  apply in_app_or in H. destruct H as [H|H]; [exact (BlocksTotal7Add.parse_blocks_no_add_panic o x s H)|].
  apply in_app_or in H. destruct H as [H|H]; [exact (BlocksTotal7ContWalk.parse_blocks_no_cont_panic o x s H)|].
  apply in_app_or in H. destruct H as [H|H]; [exact (BlocksTotal7Atx.parse_blocks_no_atx_panic o x s H)|].
  exact (BlocksTotal7CodeWalk.parse_blocks_no_code_panic o x s H).
Qed.

Theorem parse_blocks_no_panic7_utf8 o x s : utf8_valid x = true -> In s excluded7_utf8 -> parse_blocks o x <> Panic s.
Proof.
  unfold excluded7_utf8. intros U H.
  apply in_app_or in H. destruct H as [H|H]; [exact (BlocksTotal7Fm.parse_blocks_no_fm_panic o x s U H)|].
  apply in_app_or in H. destruct H as [H|H]; [exact (BlocksTotal7Loc.parse_blocks_no_loc_panic o x s U H)|].
  exact (BlocksTotal7Cur.parse_blocks_no_cur_panic o x s U H).
Qed.

Theorem parse_blocks_no_panic7 o x s : utf8_valid x = true -> In s excluded7 -> parse_blocks o x <> Panic s.
Proof.
  intros U H. apply in_app_or in H. destruct H as [H|H];
    [exact (parse_blocks_no_panic7_all o x s H) | exact (parse_blocks_no_panic7_utf8 o x s U H)].
Qed.

Theorem parse_blocks_ok_or_rem7_all o x :
  (exists r, parse_blocks o x = Ok r) \/ (exists s, parse_blocks o x = Panic s /\ In s rem_sites7_all).
Proof.
  destruct (BlocksTotal6.parse_blocks_ok_or_rem6 o x) as [H|[s [E I]]]; [now left|]. right. exists s. split; [exact E|].
  unfold rem_sites7_all. apply filter_In. split; [exact I|].
  destruct (inl excluded7_all s) eqn:X; [|reflexivity]. apply inl_in in X. exfalso. exact (parse_blocks_no_panic7_all o x s X E).
Qed.

Theorem parse_blocks_ok_or_rem7 o x : utf8_valid x = true ->
  (exists r, parse_blocks o x = Ok r) \/ (exists s, parse_blocks o x = Panic s /\ In s rem_sites7).
Proof.
  intro U. destruct (BlocksTotal6.parse_blocks_ok_or_rem6 o x) as [H|[s [E I]]]; [now left|]. right. exists s. split; [exact E|].
  unfold rem_sites7. apply filter_In. split; [exact I|].
  destruct (inl excluded7 s) eqn:X; [|reflexivity]. apply inl_in in X. exfalso. exact (parse_blocks_no_panic7 o x s U X E).
Qed.
