(* Proofs/BlocksProofs.v — lemmas about the block-phase model (Model/Blocks.v). *)
From Coq Require Import List NArith Arith Bool Lia Strings.String.
From V Require Import Base.Bytes Base.Res Gen.StrLeafGen Gen.FeedConst Gen.Nodes Model.Ast Model.Strings
  Model.Feed Model.FrontMatter Model.RefDef Model.Blocks Spec.LineEndings Spec.Valid Proofs.FeedProofs.
Import ListNotations.
Local Open Scope string_scope.
Local Open Scope list_scope.

(* ================================================================== line invariance *)
(* the observable result of the block phase: the tree and the reference map (the reference budget
   max_ref_size is the only place where total_size enters, and nothing in the block phase reads it) *)
Definition blocks_tree (o : bopts) (x : bytes) : res (bnode * refmap) :=
  res_map (fun r => (br_root r, br_refmap r)) (parse_blocks o x).

(* without a front matter delimiter the block phase is a function of the lines handed to process_line *)
Definition blocks_of_lines (o : bopts) (ls : list bytes) : res (bnode * refmap) :=
  res_map (fun st => (ps_root st, ps_refmap st)) (run_lines o init_state ls).

Lemma blocks_tree_lines o x :
  bo_front_matter_delimiter o = None -> blocks_tree o x = blocks_of_lines o (lines x).
Proof.
  intro H. unfold blocks_tree, blocks_of_lines, parse_blocks, front_matter_prologue, lines.
  rewrite H. cbn [bind]. destruct (feed_lines x) as [ls total]. cbn [fst].
  destruct (run_lines o init_state ls); reflexivity.
Qed.

Lemma blocks_same_lines o x y :
  bo_front_matter_delimiter o = None -> lines x = lines y -> blocks_tree o x = blocks_tree o y.
Proof. intros H E. rewrite !blocks_tree_lines by assumption. now rewrite E. Qed.

(* with a delimiter: the prologue, then again a function of the lines of the remainder *)
Lemma parse_blocks_factor o x :
  parse_blocks o x =
  (do p <- front_matter_prologue o init_state x;
   do st1 <- run_lines o (fst p) (lines (snd p));
   Ok (mkBR (ps_root st1) (ps_refmap st1) (max_ref_size (total_size (snd p))))).
Proof.
  unfold parse_blocks, lines, total_size.
  destruct (front_matter_prologue o init_state x) as [[st rest]| |]; cbn [bind fst snd]; try reflexivity.
  destruct (feed_lines rest); reflexivity.
Qed.

(* ================================================================== containment: the tree lemmas *)
Section bnode_ind2.
  Variable P : bnode -> Prop.
  Hypothesis H : forall i ch, Forall P ch -> P (BNode i ch).
  Fixpoint bnode_ind2 (n : bnode) : P n :=
    match n with
    | BNode i ch =>
      H i ch ((fix go (l : list bnode) : Forall P l :=
                 match l with
                 | [] => Forall_nil P
                 | x :: r => Forall_cons x (bnode_ind2 x) (go r)
                 end) ch)
    end.
End bnode_ind2.

Definition allowed (pk : kind) (c : bnode) : bool := can_contain pk (bkind c).

Fixpoint tvalid (t : bnode) : bool :=
  match t with
  | BNode i ch => forallb (allowed (kind_of (bi_val i))) ch && forallb tvalid ch
  end.

Lemma tvalid_to_node t : valid (to_node t) = tvalid t.
Proof.
  induction t as [i ch IH] using bnode_ind2. cbn [to_node valid tvalid].
  f_equal.
  - induction ch as [|c r IHr]; [reflexivity|]. cbn [map forallb]. inversion IH; subst.
    rewrite IHr by assumption. f_equal. unfold child_allowed, allowed, bkind, bval. destruct c; reflexivity.
  - induction ch as [|c r IHr]; [reflexivity|]. cbn [map forallb]. inversion IH; subst.
    rewrite IHr by assumption. now f_equal.
Qed.

(* the children of a node: all allowed under pk and all valid *)
Definition kids_ok (pk : kind) (ch : list bnode) : Prop :=
  forallb (allowed pk) ch = true /\ forallb tvalid ch = true.

Lemma tvalid_node i ch : tvalid (BNode i ch) = true <-> kids_ok (kind_of (bi_val i)) ch.
Proof. cbn [tvalid]. unfold kids_ok. rewrite andb_true_iff. tauto. Qed.

Lemma kids_ok_app pk a b : kids_ok pk (a ++ b) <-> kids_ok pk a /\ kids_ok pk b.
Proof. unfold kids_ok. rewrite !forallb_app, !andb_true_iff. tauto. Qed.

Lemma kids_ok_cons pk c r : kids_ok pk (c :: r) <-> (allowed pk c = true /\ tvalid c = true) /\ kids_ok pk r.
Proof. unfold kids_ok. cbn [forallb]. rewrite !andb_true_iff. tauto. Qed.

Lemma kids_ok_nil pk : kids_ok pk [].
Proof. split; reflexivity. Qed.

(* find_node returns a valid subtree of a valid tree *)
Lemma find_node_valid id t : forall n, tvalid t = true -> find_node id t = Some n -> tvalid n = true.
Proof.
  induction t as [i ch IH] using bnode_ind2. intros n V F. cbn [find_node] in F.
  destruct (Nat.eqb (bi_id i) id). { now inversion F; subst. }
  apply tvalid_node in V. destruct V as [_ V].
  induction ch as [|c r IHr]; [discriminate|].
  inversion IH; subst. cbn [forallb] in V. apply andb_true_iff in V. destruct V as [Vc Vr].
  destruct (find_node id c) eqn:E.
  - inversion F; subst. eauto.
  - eauto.
Qed.

(* kind_ok f: f does not change what a parent sees (the kind may change only to one every parent of the
   old kind also accepts) *)
Definition kind_mono (a b : bnode) : Prop := forall p, can_contain p (bkind a) = true -> can_contain p (bkind b) = true.

Lemma upd_none_find id f t : upd id f t = None -> find_node id t = None.
Proof.
  induction t as [i ch IH] using bnode_ind2. cbn [upd find_node].
  destruct (Nat.eqb (bi_id i) id); [discriminate|].
  induction ch as [|x xs IHxs]; [reflexivity|].
  inversion IH as [|? ? Hx Hxs]; subst. intro U.
  destruct (upd id f x) eqn:Ux; [discriminate|]. rewrite (Hx eq_refl).
  apply IHxs; [assumption|].
  match type of U with context [match ?g with Some r' => Some (x :: r') | None => None end] => destruct g end;
    [discriminate|reflexivity].
Qed.

Lemma upd_valid id f t : forall t',
  tvalid t = true -> upd id f t = Some t' ->
  (forall n, find_node id t = Some n -> tvalid n = true -> tvalid (f n) = true /\ kind_mono n (f n)) ->
  tvalid t' = true /\ kind_mono t t'.
Proof.
  induction t as [i ch IH] using bnode_ind2. intros t' V U Hf. cbn [upd] in U. cbn [find_node] in Hf.
  destruct (Nat.eqb (bi_id i) id). { inversion U; subst. apply Hf; auto. }
  match type of U with match ?g with _ => _ end = _ => destruct g as [ch'|] eqn:G; [|discriminate] end.
  inversion U; subst. clear U.
  split; [|intros p Hp; exact Hp].
  apply tvalid_node in V. apply tvalid_node.
  revert ch' G Hf. induction ch as [|c r IHr]; intros ch' G Hf; [discriminate|].
  inversion IH as [|? ? IHc IHrest]; subst.
  apply kids_ok_cons in V. destruct V as [[Ac Vc] Vr].
  destruct (upd id f c) as [c'|] eqn:Uc.
  - inversion G; subst.
    destruct (IHc c' Vc eq_refl) as [Vc' Km].
    { intros n Fn. apply Hf. now rewrite Fn. }
    apply kids_ok_cons. split; [split; [apply Km; exact Ac | exact Vc'] | exact Vr].
  - match type of G with match ?g with _ => _ end = _ => destruct g as [r'|] eqn:Gr; [|discriminate] end.
    inversion G; subst.
    assert (Fc : find_node id c = None) by (eapply upd_none_find; eassumption).
    apply kids_ok_cons. split; [split; assumption|].
    apply IHr; auto. intros n Fn. apply Hf. now rewrite Fc.
Qed.

Lemma split_kid_eq id l : forall pre c post, split_kid id l = Some (pre, c, post) -> l = pre ++ c :: post.
Proof.
  induction l as [|x r IH]; intros pre c post H; [discriminate|]. cbn [split_kid] in H.
  destruct (Nat.eqb (bid x) id). { inversion H; subst. reflexivity. }
  destruct (split_kid id r) as [[[pre' c'] post']|]; [|discriminate].
  inversion H; subst. cbn [app]. f_equal. now apply IH.
Qed.

Lemma edit_kids_valid id g t : forall t',
  tvalid t = true -> edit_kids id g t = Some t' ->
  (forall pk pre c post, kids_ok pk (pre ++ c :: post) -> kids_ok pk (g pk pre c post)) ->
  tvalid t' = true /\ bkind t' = bkind t.
Proof.
  induction t as [i ch IH] using bnode_ind2. intros t' V U Hg. cbn [edit_kids] in U.
  apply tvalid_node in V.
  destruct (split_kid id ch) as [[[pre c] post]|] eqn:S.
  { inversion U; subst. split; [|reflexivity]. apply tvalid_node. apply Hg.
    now rewrite <- (split_kid_eq _ _ _ _ _ S). }
  clear S.
  match type of U with match ?gg with _ => _ end = _ => destruct gg as [ch'|] eqn:G; [|discriminate] end.
  inversion U; subst. clear U. split; [|reflexivity]. apply tvalid_node.
  revert ch' G. induction ch as [|c r IHr]; intros ch' G; [discriminate|].
  inversion IH as [|? ? IHc IHrest]; subst.
  apply kids_ok_cons in V. destruct V as [[Ac Vc] Vr].
  destruct (edit_kids id g c) as [c'|] eqn:Uc.
  - inversion G; subst. destruct (IHc c' Vc eq_refl Hg) as [Vc' K].
    apply kids_ok_cons. split; [split; [|exact Vc'] | exact Vr].
    unfold allowed in *. now rewrite K.
  - match type of G with match ?gg with _ => _ end = _ => destruct gg as [r'|] eqn:Gr; [|discriminate] end.
    inversion G; subst. apply kids_ok_cons. split; [split; assumption|]. now apply IHr.
Qed.

(* ================================================================== containment: the state operations *)
Definition SV (st : pstate) : Prop := tvalid (ps_root st) = true.

Lemma SV_st_next st n : SV st -> SV (st_next st n). Proof. exact (fun H => H). Qed.
Lemma SV_st_current st n : SV st -> SV (st_current st n). Proof. exact (fun H => H). Qed.
Lemma SV_st_refmap st m : SV st -> SV (st_refmap st m). Proof. exact (fun H => H). Qed.
Lemma SV_st_line_number st n : SV st -> SV (st_line_number st n). Proof. exact (fun H => H). Qed.
Lemma SV_st_cur st c : SV st -> SV (st_cur st c). Proof. exact (fun H => H). Qed.
Lemma SV_st_curline st a b : SV st -> SV (st_curline st a b). Proof. exact (fun H => H). Qed.
Lemma SV_st_last_line_length st n : SV st -> SV (st_last_line_length st n). Proof. exact (fun H => H). Qed.

Lemma get_find st id n : get st id = Ok n -> find_node id (ps_root st) = Some n.
Proof. unfold get. destruct (find_node id (ps_root st)); [intro H; now inversion H | discriminate]. Qed.

Lemma get_valid st id n : SV st -> get st id = Ok n -> tvalid n = true.
Proof. intros V G. apply get_find in G. exact (find_node_valid _ _ _ V G). Qed.

Lemma modify_valid st id f st' :
  SV st -> modify st id f = Ok st' ->
  (forall n, find_node id (ps_root st) = Some n -> tvalid n = true -> tvalid (f n) = true /\ kind_mono n (f n)) ->
  SV st'.
Proof.
  unfold modify, SV. intros V M Hf. destruct (upd id f (ps_root st)) as [r|] eqn:U; [|discriminate].
  inversion M; subst. cbn. now destruct (upd_valid _ _ _ _ V U Hf).
Qed.

Lemma kind_mono_refl_kind a b : bkind b = bkind a -> kind_mono a b.
Proof. intros E p H. now rewrite E. Qed.

(* modify_info with a function that keeps the kind of the value *)
Lemma modify_info_valid st id f st' :
  SV st -> modify_info st id f = Ok st' ->
  (forall n, find_node id (ps_root st) = Some n -> kind_of (bi_val (f (binf n))) = kind_of (bi_val (binf n))) ->
  SV st'.
Proof.
  intros V M Hf. eapply modify_valid; [exact V | exact M |].
  intros n Fn Vn. specialize (Hf n Fn). destruct n as [i ch]. cbn [on_info binf] in *.
  split.
  - apply tvalid_node. apply tvalid_node in Vn. now rewrite Hf.
  - apply kind_mono_refl_kind. unfold bkind, bval. cbn [binf]. exact Hf.
Qed.

Lemma bdetach_valid st id st' : SV st -> bdetach st id = Ok st' -> SV st'.
Proof.
  unfold bdetach, SV. intros V D.
  destruct (edit_kids id (fun _ pre _ post => pre ++ post) (ps_root st)) as [r|] eqn:E.
  - inversion D; subst. cbn. eapply edit_kids_valid; [exact V | exact E |].
    intros pk pre c post K. apply kids_ok_app in K. destruct K as [K1 K2]. apply kids_ok_cons in K2.
    apply kids_ok_app. tauto.
  - now inversion D; subst.
Qed.

Lemma append_child_valid st pid c st' :
  SV st -> append_child st pid c = Ok st' ->
  (forall p, find_node pid (ps_root st) = Some p -> can_contain (bkind p) (bkind c) = true) ->
  tvalid c = true -> SV st'.
Proof.
  intros V A Hp Vc. eapply modify_valid; [exact V | exact A |].
  intros n Fn Vn. specialize (Hp n Fn). destruct n as [i ch]. split; [|now apply kind_mono_refl_kind].
  apply tvalid_node. apply tvalid_node in Vn. apply kids_ok_app. split; [exact Vn|].
  apply kids_ok_cons. split; [split; [exact Hp | exact Vc] | apply kids_ok_nil].
Qed.

(* ---- a tactic that walks through a monadic definition that returned Ok *)
Ltac mstep H :=
  match type of H with
  | bind ?r _ = Ok _ =>
    let E := fresh "E" in destruct r eqn:E; cbn [bind] in H; [ | discriminate H | discriminate H]
  | Ok _ = Ok _ => inversion H; subst; clear H
  | Panic _ = Ok _ => discriminate H
  | OutOfFuel = Ok _ => discriminate H
  | no_node = Ok _ => discriminate H
  | not_handled _ _ = Ok _ => unfold not_handled in H
  | (if ?b then _ else _) = Ok _ => let E := fresh "E" in destruct b eqn:E
  | (let (_, _) := ?x in _) = Ok _ => destruct x
  | match ?x with _ => _ end = Ok _ => let E := fresh "E" in destruct x eqn:E
  end.
Ltac mon H := repeat (mstep H).


Lemma retighten_valid st p st' : SV st -> retighten st p = Ok st' -> SV st'.
Proof.
  unfold retighten. intros V H. destruct p as [item|]; [|inversion H; subst; exact V].
  destruct (parent_of item (ps_root st)) as [lid|]; [|inversion H; subst; exact V].
  destruct (get st lid) as [l| |] eqn:G; cbn [bind] in H; try discriminate H.
  destruct (bi_open (binf l)); [inversion H; subst; exact V|].
  destruct (bval l) eqn:Bv; try (inversion H; subst; exact V).
  eapply modify_info_valid; [exact V | exact H |].
  intros n Fn. rewrite (get_find _ _ _ G) in Fn. inversion Fn; subst. unfold bval in Bv. cbn. rewrite Bv. reflexivity.
Qed.

Lemma finalize_valid o st id p st' : SV st -> finalize o st id = Ok (p, st') -> SV st'.
Proof.
  intros V F. unfold finalize in F.
  mstep F. apply get_find in E.
  mstep F; [discriminate F|].
  mstep F. clear E1.
  destruct (bi_val (binf a)) eqn:Ev; mon F;
  repeat first [ apply SV_st_refmap
               | (eapply retighten_valid; [|eassumption])
               | (eapply bdetach_valid; [|eassumption])
               | (eapply modify_info_valid; [exact V | eassumption |
                    intros n Fn; rewrite E in Fn; inversion Fn; subst; cbn; rewrite ?Ev; reflexivity]) ].
Qed.
Lemma unwrap_parent_fin_valid site o st id p st' :
  unwrap_parent site (finalize o st id) = Ok (p, st') -> SV st -> SV st'.
Proof.
  unfold unwrap_parent. intros H V.
  destruct (finalize o st id) as [[op s1]| |] eqn:E; cbn [bind fst snd] in H; try discriminate H.
  destruct op; inversion H; subst. eapply finalize_valid; eassumption.
Qed.

Lemma add_child_loop_valid o k : forall fuel st parent p' st',
  add_child_loop fuel o st parent k = Ok (p', st') -> SV st ->
  SV st' /\ exists pn, find_node p' (ps_root st') = Some pn /\ can_contain (bkind pn) k = true.
Proof.
  induction fuel as [|f IH]; intros st parent p' st' H V; [discriminate|].
  cbn [add_child_loop] in H.
  destruct (get st parent) as [pn| |] eqn:G; cbn [bind] in H; try discriminate H.
  destruct (can_contain (bkind pn) k) eqn:C.
  - inversion H; subst. split; [exact V|]. exists pn. split; [now apply get_find | exact C].
  - match type of H with bind ?r _ = _ => destruct r as [[q s1]| |] eqn:U; cbn [bind fst snd] in H; try discriminate H end.
    eapply IH; [exact H|]. eapply unwrap_parent_fin_valid; eassumption.
Qed.

Lemma add_child_gen_valid o st parent v col post kids id st' :
  add_child_gen o st parent v col post kids = Ok (id, st') -> SV st ->
  (forall id l c, kind_of (bi_val (post (new_info id v l c))) = kind_of v) ->
  kids_ok (kind_of v) kids -> SV st'.
Proof.
  unfold add_child_gen. intros H V Hp Hk.
  match type of H with bind ?r _ = _ => destruct r as [[p' s1]| |] eqn:E; cbn [bind] in H; try discriminate H end.
  destruct (add_child_loop_valid _ _ _ _ _ _ _ E V) as [V1 [pn [Fp Cp]]].
  mon H. eapply append_child_valid; [apply SV_st_next; exact V1 | eassumption | |].
  - intros p0 F0. cbn in F0. rewrite Fp in F0. inversion F0; subst.
    unfold bkind at 2, bval. cbn [binf]. rewrite Hp. exact Cp.
  - apply tvalid_node. rewrite Hp. exact Hk.
Qed.

Lemma add_child_valid o st parent v col id st' :
  add_child o st parent v col = Ok (id, st') -> SV st -> SV st'.
Proof.
  unfold add_child. intros H V. eapply add_child_gen_valid; [exact H | exact V | intros; reflexivity | apply kids_ok_nil].
Qed.

Lemma adv_valid st line n b st' : adv st line n b = Ok st' -> SV st -> SV st'.
Proof. unfold adv. intros H V. mon H. exact V. Qed.
Lemma ffn_valid st line st' : ffn st line = Ok st' -> SV st -> SV st'.
Proof. unfold ffn. intros H V. mon H. exact V. Qed.

Lemma modify_info_set_valid st id f st' :
  modify_info st id f = Ok st' -> (forall i, kind_of (bi_val (f i)) = kind_of (bi_val i)) -> SV st -> SV st'.
Proof. intros M Hf V. eapply modify_info_valid; [exact V | exact M | intros; apply Hf]. Qed.
Lemma finalize_valid' o st id p st' : finalize o st id = Ok (p, st') -> SV st -> SV st'.
Proof. intros; eapply finalize_valid; eassumption. Qed.
Lemma bdetach_valid' st id st' : bdetach st id = Ok st' -> SV st -> SV st'.
Proof. intros; eapply bdetach_valid; eassumption. Qed.

Create HintDb sv.
#[export] Hint Resolve adv_valid ffn_valid add_child_valid unwrap_parent_fin_valid finalize_valid' bdetach_valid'
  SV_st_next SV_st_current SV_st_refmap SV_st_line_number SV_st_cur SV_st_curline SV_st_last_line_length
  modify_info_set_valid : sv.
#[export] Hint Extern 1 (forall i : binfo, kind_of (bi_val _) = kind_of (bi_val i)) => (intro; reflexivity) : sv.

Ltac monall := repeat match goal with H : _ = Ok _ |- _ => progress (mstep H) end.
Ltac svgo H := mon H; monall; repeat match goal with p : (_ * _)%type |- _ => destruct p end; cbn [fst snd] in *; eauto 20 with sv.

Lemma skip_one_space_valid st line site st' : skip_one_space st line site = Ok st' -> SV st -> SV st'.
Proof. unfold skip_one_space. intros H V. svgo H. Qed.
#[export] Hint Resolve skip_one_space_valid : sv.

Lemma parse_block_quote_prefix_valid o st line b st' : parse_block_quote_prefix o st line = Ok (b, st') -> SV st -> SV st'.
Proof. unfold parse_block_quote_prefix. intros H V. svgo H. Qed.
#[export] Hint Resolve parse_block_quote_prefix_valid : sv.

Lemma parse_footnote_prefix_valid st line b st' : parse_footnote_definition_block_prefix st line = Ok (b, st') -> SV st -> SV st'.
Proof. unfold parse_footnote_definition_block_prefix. intros H V. svgo H. Qed.
#[export] Hint Resolve parse_footnote_prefix_valid : sv.

Lemma parse_item_prefix_valid st line c mo pad b st' : parse_item_prefix st line c mo pad = Ok (b, st') -> SV st -> SV st'.
Proof. unfold parse_item_prefix. intros H V. svgo H. Qed.
#[export] Hint Resolve parse_item_prefix_valid : sv.

Lemma skip_fence_offset_valid line site : forall i st st', skip_fence_offset i st line site = Ok st' -> SV st -> SV st'.
Proof. induction i as [|j IH]; intros st st' H V; cbn [skip_fence_offset] in H; svgo H. Qed.
#[export] Hint Resolve skip_fence_offset_valid : sv.

Lemma parse_code_block_prefix_valid o st line c cb a b st' :
  parse_code_block_prefix o st line c cb = Ok (a, b, st') -> SV st -> SV st'.
Proof. unfold parse_code_block_prefix. intros H V. svgo H. Qed.
#[export] Hint Resolve parse_code_block_prefix_valid : sv.

Lemma parse_mbq_prefix_valid o st line c fl fo a b st' :
  parse_multiline_block_quote_prefix o st line c fl fo = Ok (a, b, st') -> SV st -> SV st'.
Proof. unfold parse_multiline_block_quote_prefix. intros H V. svgo H. Qed.
#[export] Hint Resolve parse_mbq_prefix_valid : sv.

Lemma check_container_valid o st line c a b st' : check_container o st line c = Ok (a, b, st') -> SV st -> SV st'.
Proof. unfold check_container. intros H V. destruct (bval c); svgo H. Qed.
#[export] Hint Resolve check_container_valid : sv.

Lemma check_open_blocks_inner_valid o line : forall fuel st container a c b st',
  check_open_blocks_inner fuel o st line container = Ok (a, c, b, st') -> SV st -> SV st'.
Proof. induction fuel as [|f IH]; intros st container a c b st' H V; cbn [check_open_blocks_inner] in H; svgo H. Qed.
#[export] Hint Resolve check_open_blocks_inner_valid : sv.

Lemma check_open_blocks_valid o st line r st' : check_open_blocks o st line = Ok (r, st') -> SV st -> SV st'.
Proof. unfold check_open_blocks. intros H V. svgo H. Qed.
#[export] Hint Resolve check_open_blocks_valid : sv.
(* ---- tables *)
Lemma para_to_table pk : can_contain pk KParagraph = true -> can_contain pk KTable = true.
Proof. destruct pk; cbn; congruence. Qed.

Lemma para_to_heading pk : can_contain pk KParagraph = true -> can_contain pk KHeading = true.
Proof. destruct pk; cbn; congruence. Qed.

Lemma edit_root_valid st id g r :
  edit_kids id g (ps_root st) = Some r -> SV st ->
  (forall pk pre c post, kids_ok pk (pre ++ c :: post) -> kids_ok pk (g pk pre c post)) ->
  SV (st_root st r).
Proof. intros E V Hg. unfold SV. cbn. eapply edit_kids_valid; eassumption. Qed.

Lemma try_inserting_valid st c po st' : try_inserting_table_header_paragraph st c po = Ok st' -> SV st -> SV st'.
Proof.
  unfold try_inserting_table_header_paragraph. intros H V. mon H; monall; eauto with sv.
  eapply edit_root_valid; [eassumption | eauto 10 with sv |].
  intros pk pre x post K. cbv beta. destruct (can_contain pk KParagraph) eqn:C; [|exact K].
  apply kids_ok_app in K. destruct K as [K1 K2]. apply kids_ok_app. split; [exact K1|].
  cbn [app]. apply kids_ok_cons. split; [|exact K2]. split; [exact C | reflexivity].
Qed.
#[export] Hint Resolve try_inserting_valid : sv.

Lemma header_cells_ok : forall cells id ln sl sc po l,
  header_cells cells id ln sl sc po = Ok l -> kids_ok KTableRow l.
Proof.
  induction cells as [|c r IH]; intros id ln sl sc po l H; cbn [header_cells] in H.
  - inversion H. apply kids_ok_nil.
  - mon H. apply kids_ok_cons. split; [split; reflexivity|]. eapply IH; eassumption.
Qed.

Lemma try_opening_header_valid o st c line r st' : try_opening_header o st c line = Ok (r, st') -> SV st -> SV st'.
Proof.
  unfold try_opening_header. intros H V. mon H; monall; eauto 10 with sv;
  (eapply edit_root_valid; [eassumption | eauto 10 with sv |]);
  intros pk pre x post K; cbv beta; (destruct (is_paragraph x) eqn:P; [|exact K]);
  apply kids_ok_app in K; destruct K as [K1 K2]; apply kids_ok_cons in K2; destruct K2 as [[Ax Vx] K2];
  apply kids_ok_app; (split; [exact K1|]); cbn [app]; apply kids_ok_cons; (split; [|exact K2]);
  (split;
   [ unfold allowed in *; apply para_to_table; unfold is_paragraph in P; unfold bkind in Ax;
     destruct (bval x); try discriminate P; exact Ax
   | apply tvalid_node; cbn [bi_val new_info kind_of]; apply kids_ok_cons; (split; [|apply kids_ok_nil]);
     (split; [reflexivity|]); apply tvalid_node; cbn; eapply header_cells_ok; eassumption ]).
Qed.
#[export] Hint Resolve try_opening_header_valid : sv.
Lemma row_cells_ok : forall n cells id ln sc lc l lc',
  row_cells n cells id ln sc lc = Ok (l, lc') -> kids_ok KTableRow l.
Proof.
  induction n as [|m IH]; intros cells id ln sc lc l lc' H; cbn [row_cells] in H.
  - destruct cells; inversion H; apply kids_ok_nil.
  - destruct cells as [|c r]; [inversion H; apply kids_ok_nil|].
    mon H. repeat match goal with p : (_ * _)%type |- _ => destruct p end. cbn [fst snd] in *.
    apply kids_ok_cons. split; [split; reflexivity|]. eapply IH; eassumption.
Qed.

Lemma filler_cells_ok : forall n id ln lc, kids_ok KTableRow (filler_cells n id ln lc).
Proof.
  induction n as [|m IH]; intros; cbn [filler_cells]; [apply kids_ok_nil|].
  apply kids_ok_cons. split; [split; reflexivity | apply IH].
Qed.

Lemma try_opening_row_valid o st c t line r st' :
  (exists cn, get st c = Ok cn /\ bval cn = Table t) ->
  try_opening_row o st c t line = Ok (r, st') -> SV st -> SV st'.
Proof.
  intros [cn [G Bv]]. unfold try_opening_row. intros H V. rewrite G in H. cbn [bind] in H.
  mon H; monall; eauto 10 with sv.
  match goal with M : modify _ _ _ = Ok ?s |- _ => assert (SV s) end.
  { eapply modify_valid; [apply SV_st_next; exact V | eassumption |].
    intros nn Fn Vn. cbn in Fn. rewrite (get_find _ _ _ G) in Fn. inversion Fn; subst.
    destruct nn as [i ch]. unfold bval in Bv. cbn [binf] in Bv.
    split; [|apply kind_mono_refl_kind; unfold bkind, bval; cbn; now rewrite Bv].
    apply tvalid_node. apply tvalid_node in Vn. rewrite Bv in Vn. cbn [set_val bi_val kind_of] in *.
    apply kids_ok_app. split; [exact Vn|]. apply kids_ok_cons. split; [|apply kids_ok_nil].
    split; [reflexivity|]. apply tvalid_node. cbn.
    apply kids_ok_app. split; [eapply row_cells_ok; eassumption | apply filler_cells_ok]. }
  eauto 10 with sv.
Qed.

Lemma try_opening_block_valid o st c line r st' : try_opening_block o st c line = Ok (r, st') -> SV st -> SV st'.
Proof.
  unfold try_opening_block. intros H V.
  destruct (get st c) as [cn| |] eqn:G; cbn [bind] in H; try discriminate H.
  destruct (bval cn) eqn:Bv; try (inversion H; subst; exact V).
  - eauto with sv.
  - eapply try_opening_row_valid; [exists cn; split; [exact G | exact Bv] | exact H | exact V].
Qed.
#[export] Hint Resolve try_opening_block_valid : sv.

Lemma reopen_valid : forall fuel st id st', reopen_ast_nodes fuel st id = Ok st' -> SV st -> SV st'.
Proof. induction fuel as [|f IH]; intros st id st' H V; cbn [reopen_ast_nodes] in H; svgo H. Qed.
#[export] Hint Resolve reopen_valid : sv.
Lemma last_opt_in {A} (l : list A) x : last_opt l = Some x -> In x l.
Proof.
  unfold last_opt. intro H. apply in_rev. destruct (rev l); [discriminate|]. inversion H; subst. now left.
Qed.

Lemma last_kid_valid c lc : tvalid c = true -> last_opt (bkids c) = Some lc -> tvalid lc = true.
Proof.
  destruct c as [i ch]. intros V L. apply tvalid_node in V. destruct V as [_ V].
  cbn [bkids] in L. apply last_opt_in in L. rewrite forallb_forall in V. now apply V.
Qed.

Lemma parse_desc_list_details_valid o st c m b c' st' :
  parse_desc_list_details o st c m = Ok (b, c', st') -> SV st -> SV st'.
Proof.
  unfold parse_desc_list_details. intros H V.
  destruct (get st c) as [cn| |] eqn:G; cbn [bind] in H; try discriminate H.
  match type of H with bind ?r _ = _ => destruct r as [[[[tight c1] lc]|]| |] eqn:R; cbn [bind] in H; try discriminate H end;
    [|inversion H; subst; exact V].
  assert (Vlc : tvalid lc = true).
  { pose proof (get_valid _ _ _ V G) as Vc.
    destruct (last_opt (bkids cn)) eqn:L.
    - inversion R; subst. eapply last_kid_valid; eassumption.
    - mon R. eapply last_kid_valid; [eapply get_valid; [exact V | eassumption] | eassumption]. }
  clear R.
  destruct (bval lc) eqn:Bl; try (inversion H; subst; exact V).
  - (* DescriptionItem *) svgo H.
  - (* Paragraph *)
    mon H; monall; repeat match goal with p : (_ * _)%type |- _ => destruct p end; cbn [fst snd] in *;
    match goal with A : add_child_gen _ ?s _ DescriptionTerm _ _ _ = Ok (_, ?s') |- _ =>
      assert (SV s -> SV s') by
        (intro; eapply add_child_gen_valid; [exact A | assumption | intros; reflexivity |
           apply kids_ok_cons; split; [split; [unfold allowed, bkind; rewrite Bl; reflexivity | exact Vlc] | apply kids_ok_nil]])
    end; eauto 20 with sv.
Qed.
#[export] Hint Resolve parse_desc_list_details_valid : sv.
Lemma handle_alert_valid o st c line ind b c' st' : handle_alert o st c line ind = Ok (b, c', st') -> SV st -> SV st'.
Proof. unfold handle_alert. intros H V. svgo H. Qed.
Lemma handle_mbq_valid o st c line ind b c' st' : handle_multiline_blockquote o st c line ind = Ok (b, c', st') -> SV st -> SV st'.
Proof. unfold handle_multiline_blockquote, rest_at_fns. intros H V. svgo H. Qed.
Lemma handle_blockquote_valid o st c line ind b c' st' : handle_blockquote o st c line ind = Ok (b, c', st') -> SV st -> SV st'.
Proof. unfold handle_blockquote. intros H V. svgo H. Qed.
Lemma handle_atx_valid o st c line ind b c' st' : handle_atx_heading o st c line ind = Ok (b, c', st') -> SV st -> SV st'.
Proof.
  unfold handle_atx_heading, rest_at_fns. intros H V. mon H; monall; repeat match goal with p : (_ * _)%type |- _ => destruct p end; cbn [fst snd] in *; eauto with sv.
  eapply add_child_gen_valid; [eassumption | eauto with sv | intros; reflexivity | apply kids_ok_nil].
Qed.
Lemma handle_code_fence_valid o st c line ind b c' st' : handle_code_fence o st c line ind = Ok (b, c', st') -> SV st -> SV st'.
Proof. unfold handle_code_fence, rest_at_fns. intros H V. svgo H. Qed.
Lemma handle_html_block_valid o st c line ind b c' st' : handle_html_block o st c line ind = Ok (b, c', st') -> SV st -> SV st'.
Proof. unfold handle_html_block, rest_at_fns. intros H V. svgo H. Qed.
Lemma handle_thematic_break_valid o st c line ind am b c' st' : handle_thematic_break o st c line ind am = Ok (b, c', st') -> SV st -> SV st'.
Proof. unfold handle_thematic_break. intros H V. svgo H. Qed.
Lemma handle_footnote_valid o st c line ind d b c' st' : handle_footnote o st c line ind d = Ok (b, c', st') -> SV st -> SV st'.
Proof. unfold handle_footnote, rest_at_fns. intros H V. svgo H. Qed.
Lemma handle_description_list_valid o st c line ind b c' st' : handle_description_list o st c line ind = Ok (b, c', st') -> SV st -> SV st'.
Proof. unfold handle_description_list, rest_at_fns. intros H V. svgo H. Qed.
Lemma list_spaces_loop_valid line sc : forall fuel st st', list_spaces_loop fuel st line sc = Ok st' -> SV st -> SV st'.
Proof. induction fuel as [|f IH]; intros st st' H V; cbn [list_spaces_loop] in H; svgo H. Qed.
#[export] Hint Resolve list_spaces_loop_valid : sv.
Lemma handle_list_valid o st c line ind d b c' st' : handle_list o st c line ind d = Ok (b, c', st') -> SV st -> SV st'.
Proof. unfold handle_list. intros H V. svgo H. Qed.
Lemma handle_code_block_valid o st c line ind ml b c' st' : handle_code_block o st c line ind ml = Ok (b, c', st') -> SV st -> SV st'.
Proof. unfold handle_code_block. intros H V. svgo H. Qed.

Lemma handle_setext_valid o st c line ind b c' st' : handle_setext_heading o st c line ind = Ok (b, c', st') -> SV st -> SV st'.
Proof.
  unfold handle_setext_heading, rest_at_fns. intros H V.
  mstep H; [inversion H; subst; exact V|].
  destruct (get st c) as [cn| |] eqn:G; cbn [bind] in H; try discriminate H.
  destruct (is_paragraph cn) eqn:P; cbn [negb] in H; [|inversion H; subst; exact V].
  mon H; monall; repeat match goal with p : (_ * _)%type |- _ => destruct p end; cbn [fst snd] in *; eauto 10 with sv;
  match goal with M1 : modify_info (st_refmap st _) _ _ = Ok ?s1 |- _ => assert (V1 : SV s1) end;
  try (eapply modify_valid; [apply SV_st_refmap; exact V | eassumption |];
       intros nn Fn Vn; cbn [ps_root st_refmap] in Fn; rewrite (get_find _ _ _ G) in Fn; inversion Fn; subst;
       destruct nn as [i ch]; cbn [on_info];
       assert (Kp : kind_of (bi_val i) = KParagraph)
         by (unfold is_paragraph, bval in P; cbn [binf] in P; destruct (bi_val i); try discriminate P; reflexivity);
       split;
       [ apply tvalid_node; apply tvalid_node in Vn; cbn [set_val set_content bi_val kind_of]; rewrite Kp in Vn; exact Vn
       | intros p Hp; unfold bkind, bval in *; cbn [binf set_val set_content bi_val kind_of] in *; rewrite Kp in Hp;
         first [ now apply para_to_heading | now rewrite Kp ] ]);
  eauto 10 with sv.
Qed.
#[export] Hint Resolve handle_alert_valid handle_mbq_valid handle_blockquote_valid handle_atx_valid handle_code_fence_valid
  handle_html_block_valid handle_setext_valid handle_thematic_break_valid handle_footnote_valid
  handle_description_list_valid handle_list_valid handle_code_block_valid : sv.

(* or_else_h: the first handler, or the continuation from the state it left *)
Lemma or_else_h_valid (r : hres) k b c st st' :
  or_else_h r k = Ok (b, c, st') -> SV st ->
  (forall b1 c1 s1, r = Ok (b1, c1, s1) -> SV st -> SV s1) ->
  (forall c1 s1 b2 c2 s2, k c1 s1 = Ok (b2, c2, s2) -> SV s1 -> SV s2) ->
  SV st'.
Proof.
  unfold or_else_h. intros H V Hr Hk.
  destruct r as [[[b1 c1] s1]| |]; cbn [bind] in H; try discriminate H.
  destruct b1.
  - inversion H; subst. eapply Hr; [reflexivity | exact V].
  - eapply Hk; [exact H|]. eapply Hr; [reflexivity | exact V].
Qed.

Ltac chain_h :=
  match goal with
  | R : or_else_h _ _ = Ok _ |- SV _ =>
    eapply (or_else_h_valid _ _ _ _ _ _ R); clear R;
    [ eassumption | intros ? ? ? ? ?; eauto with sv | intros ? ? ? ? ? R ?; cbv beta in R; chain_h ]
  | |- SV _ => eauto with sv
  end.

Lemma open_new_blocks_step_valid o st c line am ml d g c' st' :
  open_new_blocks_step o st c line am ml d = Ok (g, c', st') -> SV st -> SV st'.
Proof.
  unfold open_new_blocks_step. intros H V.
  destruct (ffn st line) as [s0| |] eqn:F0; cbn [bind] in H; try discriminate H.
  assert (V0 : SV s0) by eauto with sv.
  match type of H with bind ?r _ = _ => destruct r as [[[hd c1] s1]| |] eqn:R; cbn [bind] in H; try discriminate H end.
  assert (V1 : SV s1) by chain_h.
  clear R. svgo H.
Qed.
#[export] Hint Resolve open_new_blocks_step_valid : sv.
Lemma open_new_blocks_loop_valid o line am : forall fuel st c ml d c' st',
  open_new_blocks_loop fuel o st c line am ml d = Ok (c', st') -> SV st -> SV st'.
Proof. induction fuel as [|f IH]; intros st c ml d c' st' H V; cbn [open_new_blocks_loop] in H; svgo H. Qed.
#[export] Hint Resolve open_new_blocks_loop_valid : sv.

Lemma open_new_blocks_valid o st c line am c' st' : open_new_blocks o st c line am = Ok (c', st') -> SV st -> SV st'.
Proof. unfold open_new_blocks. intros H V. svgo H. Qed.
#[export] Hint Resolve open_new_blocks_valid : sv.

Lemma clear_llb_up_valid : forall fuel st id st', clear_llb_up fuel st id = Ok st' -> SV st -> SV st'.
Proof. induction fuel as [|f IH]; intros st id st' H V; cbn [clear_llb_up] in H; svgo H. Qed.
#[export] Hint Resolve clear_llb_up_valid : sv.

Lemma finalize_up_to_valid o target site : forall fuel st st', finalize_up_to fuel o st target site = Ok st' -> SV st -> SV st'.
Proof. induction fuel as [|f IH]; intros st st' H V; cbn [finalize_up_to] in H; svgo H. Qed.
#[export] Hint Resolve finalize_up_to_valid : sv.

Lemma add_line_valid st id line st' : add_line st id line = Ok st' -> SV st -> SV st'.
Proof.
  unfold add_line. intros H V.
  destruct (get st id) as [n| |] eqn:G; cbn [bind] in H; try discriminate H.
  mon H; monall; apply SV_st_cur;
  (eapply modify_info_valid; [exact V | eassumption |];
   intros nn Fn; rewrite (get_find _ _ _ G) in Fn; inversion Fn; subst; reflexivity).
Qed.
#[export] Hint Resolve add_line_valid : sv.

Lemma add_text_to_container_valid o st c lm line st' :
  add_text_to_container o st c lm line = Ok st' -> SV st -> SV st'.
Proof. unfold add_text_to_container. intros H V. svgo H. Qed.
#[export] Hint Resolve add_text_to_container_valid : sv.

Lemma process_line_valid o st line st' : process_line o st line = Ok st' -> SV st -> SV st'.
Proof. unfold process_line. intros H V. svgo H. Qed.
#[export] Hint Resolve process_line_valid : sv.

Lemma process_lines_valid o : forall ls st st', process_lines o st ls = Ok st' -> SV st -> SV st'.
Proof. induction ls as [|l r IH]; intros st st' H V; cbn [process_lines] in H; svgo H. Qed.
#[export] Hint Resolve process_lines_valid : sv.

Lemma finalize_document_valid o st st' : finalize_document o st = Ok st' -> SV st -> SV st'.
Proof. unfold finalize_document. intros H V. svgo H. Qed.
#[export] Hint Resolve finalize_document_valid : sv.

Lemma run_lines_valid o st ls st' : run_lines o st ls = Ok st' -> SV st -> SV st'.
Proof. unfold run_lines. intros H V. svgo H. Qed.
#[export] Hint Resolve run_lines_valid : sv.

Lemma front_matter_prologue_valid o st s st' rest : front_matter_prologue o st s = Ok (st', rest) -> SV st -> SV st'.
Proof. unfold front_matter_prologue. intros H V. svgo H. Qed.
#[export] Hint Resolve front_matter_prologue_valid : sv.

Lemma SV_init : SV init_state.
Proof. reflexivity. Qed.

Theorem parse_blocks_tvalid o x r : parse_blocks o x = Ok r -> tvalid (br_root r) = true.
Proof.
  unfold parse_blocks. intro H. pose proof SV_init as V.
  mon H; monall. cbn [br_root]. change (SV a). eauto with sv.
Qed.

Theorem parse_blocks_valid o x r : parse_blocks o x = Ok r -> valid (to_node (br_root r)) = true.
Proof. intro H. rewrite tvalid_to_node. eapply parse_blocks_tvalid; exact H. Qed.
