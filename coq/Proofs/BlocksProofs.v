(* Proofs/BlocksProofs.v — lemmas about the block-phase model (Model/Blocks.v). *)
From Coq Require Import List NArith Arith Bool Lia Strings.String.
From V Require Import Base.Bytes Base.Res Gen.StrLeafGen Gen.FeedConst Gen.Nodes Model.Ast Model.Strings
  Model.Feed Model.FrontMatter Model.RefDef Model.Blocks Spec.LineEndings Spec.Valid Proofs.FeedProofs.
Import ListNotations.
Local Open Scope string_scope.
Local Open Scope list_scope.

(* ================================================================== line invariance *)
(* the observable result of the block phase: the tree and the reference map (the reference budget
   max_ref_size is the only place where total_size enters, and nothing in the block phase reads it) *)
Definition blocks_tree (o : bopts) (x : bytes) : res (bnode * refmap) :=
  res_map (fun r => (br_root r, br_refmap r)) (parse_blocks o x).

(* without a front matter delimiter the block phase is a function of the lines handed to process_line *)
Definition blocks_of_lines (o : bopts) (ls : list bytes) : res (bnode * refmap) :=
  res_map (fun st => (ps_root st, ps_refmap st)) (run_lines o init_state ls).

Lemma blocks_tree_lines o x :
  bo_front_matter_delimiter o = None -> blocks_tree o x = blocks_of_lines o (lines x).
Proof.
  intro H. unfold blocks_tree, blocks_of_lines, parse_blocks, front_matter_prologue, lines.
  rewrite H. cbn [bind]. destruct (feed_lines x) as [ls total]. cbn [fst].
  destruct (run_lines o init_state ls); reflexivity.
Qed.

Lemma blocks_same_lines o x y :
  bo_front_matter_delimiter o = None -> lines x = lines y -> blocks_tree o x = blocks_tree o y.
Proof. intros H E. rewrite !blocks_tree_lines by assumption. now rewrite E. Qed.

(* with a delimiter: the prologue, then again a function of the lines of the remainder *)
Lemma parse_blocks_factor o x :
  parse_blocks o x =
  (do p <- front_matter_prologue o init_state x;
   do st1 <- run_lines o (fst p) (lines (snd p));
   Ok (mkBR (ps_root st1) (ps_refmap st1) (max_ref_size (total_size (snd p))))).
Proof.
  unfold parse_blocks, lines, total_size.
  destruct (front_matter_prologue o init_state x) as [[st rest]| |]; cbn [bind fst snd]; try reflexivity.
  destruct (feed_lines rest); reflexivity.
Qed.

(* ================================================================== containment: the tree lemmas *)
Section bnode_ind2.
  Variable P : bnode -> Prop.
  Hypothesis H : forall i ch, Forall P ch -> P (BNode i ch).
  Fixpoint bnode_ind2 (n : bnode) : P n :=
    match n with
    | BNode i ch =>
      H i ch ((fix go (l : list bnode) : Forall P l :=
                 match l with
                 | [] => Forall_nil P
                 | x :: r => Forall_cons x (bnode_ind2 x) (go r)
                 end) ch)
    end.
End bnode_ind2.

Definition allowed (pk : kind) (c : bnode) : bool := can_contain pk (bkind c).

Fixpoint tvalid (t : bnode) : bool :=
  match t with
  | BNode i ch => forallb (allowed (kind_of (bi_val i))) ch && forallb tvalid ch
  end.

Lemma tvalid_to_node t : valid (to_node t) = tvalid t.
Proof.
  induction t as [i ch IH] using bnode_ind2. cbn [to_node valid tvalid].
  f_equal.
  - induction ch as [|c r IHr]; [reflexivity|]. cbn [map forallb]. inversion IH; subst.
    rewrite IHr by assumption. f_equal. unfold child_allowed, allowed, bkind, bval. destruct c; reflexivity.
  - induction ch as [|c r IHr]; [reflexivity|]. cbn [map forallb]. inversion IH; subst.
    rewrite IHr by assumption. now f_equal.
Qed.

(* the children of a node: all allowed under pk and all valid *)
Definition kids_ok (pk : kind) (ch : list bnode) : Prop :=
  forallb (allowed pk) ch = true /\ forallb tvalid ch = true.

Lemma tvalid_node i ch : tvalid (BNode i ch) = true <-> kids_ok (kind_of (bi_val i)) ch.
Proof. cbn [tvalid]. unfold kids_ok. rewrite andb_true_iff. tauto. Qed.

Lemma kids_ok_app pk a b : kids_ok pk (a ++ b) <-> kids_ok pk a /\ kids_ok pk b.
Proof. unfold kids_ok. rewrite !forallb_app, !andb_true_iff. tauto. Qed.

Lemma kids_ok_cons pk c r : kids_ok pk (c :: r) <-> (allowed pk c = true /\ tvalid c = true) /\ kids_ok pk r.
Proof. unfold kids_ok. cbn [forallb]. rewrite !andb_true_iff. tauto. Qed.

Lemma kids_ok_nil pk : kids_ok pk [].
Proof. split; reflexivity. Qed.

(* find_node returns a valid subtree of a valid tree *)
Lemma find_node_valid id t : forall n, tvalid t = true -> find_node id t = Some n -> tvalid n = true.
Proof.
  induction t as [i ch IH] using bnode_ind2. intros n V F. cbn [find_node] in F.
  destruct (Nat.eqb (bi_id i) id). { now inversion F; subst. }
  apply tvalid_node in V. destruct V as [_ V].
  induction ch as [|c r IHr]; [discriminate|].
  inversion IH; subst. cbn [forallb] in V. apply andb_true_iff in V. destruct V as [Vc Vr].
  destruct (find_node id c) eqn:E.
  - inversion F; subst. eauto.
  - eauto.
Qed.

(* kind_ok f: f does not change what a parent sees (the kind may change only to one every parent of the
   old kind also accepts) *)
Definition kind_mono (a b : bnode) : Prop := forall p, can_contain p (bkind a) = true -> can_contain p (bkind b) = true.

Lemma upd_none_find id f t : upd id f t = None -> find_node id t = None.
Proof.
  induction t as [i ch IH] using bnode_ind2. cbn [upd find_node].
  destruct (Nat.eqb (bi_id i) id); [discriminate|].
  induction ch as [|x xs IHxs]; [reflexivity|].
  inversion IH as [|? ? Hx Hxs]; subst. intro U.
  destruct (upd id f x) eqn:Ux; [discriminate|]. rewrite (Hx eq_refl).
  apply IHxs; [assumption|].
  match type of U with context [match ?g with Some r' => Some (x :: r') | None => None end] => destruct g end;
    [discriminate|reflexivity].
Qed.

Lemma upd_valid id f t : forall t',
  tvalid t = true -> upd id f t = Some t' ->
  (forall n, find_node id t = Some n -> tvalid n = true -> tvalid (f n) = true /\ kind_mono n (f n)) ->
  tvalid t' = true /\ kind_mono t t'.
Proof.
  induction t as [i ch IH] using bnode_ind2. intros t' V U Hf. cbn [upd] in U. cbn [find_node] in Hf.
  destruct (Nat.eqb (bi_id i) id). { inversion U; subst. apply Hf; auto. }
  match type of U with match ?g with _ => _ end = _ => destruct g as [ch'|] eqn:G; [|discriminate] end.
  inversion U; subst. clear U.
  split; [|intros p Hp; exact Hp].
  apply tvalid_node in V. apply tvalid_node.
  revert ch' G Hf. induction ch as [|c r IHr]; intros ch' G Hf; [discriminate|].
  inversion IH as [|? ? IHc IHrest]; subst.
  apply kids_ok_cons in V. destruct V as [[Ac Vc] Vr].
  destruct (upd id f c) as [c'|] eqn:Uc.
  - inversion G; subst.
    destruct (IHc c' Vc eq_refl) as [Vc' Km].
    { intros n Fn. apply Hf. now rewrite Fn. }
    apply kids_ok_cons. split; [split; [apply Km; exact Ac | exact Vc'] | exact Vr].
  - match type of G with match ?g with _ => _ end = _ => destruct g as [r'|] eqn:Gr; [|discriminate] end.
    inversion G; subst.
    assert (Fc : find_node id c = None) by (eapply upd_none_find; eassumption).
    apply kids_ok_cons. split; [split; assumption|].
    apply IHr; auto. intros n Fn. apply Hf. now rewrite Fc.
Qed.
