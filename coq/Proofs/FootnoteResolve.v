(* Proofs/FootnoteResolve.v — two more clauses of C15 as theorems about the reference walk of Model/Footnotes
   (find_footnote_references), for every tree, every fold / preserve:

   refs_point_to_definitions   every FootnoteReference node LEFT in the tree by the walk carries the normalised
                               name of a definition reachable from the root (top_defs) and a number >= 1
                               ("every footnote reference points to a definition": the name half);
   refs_keys                   the walk never changes the key set of the map, so whether a reference resolves is decided
                               by the collected definitions alone, wherever in the walk it is met;
   unresolved_stay_literal     a reference whose folded label is the folded label of no reachable definition is rewritten
                               to the Text node [^name] and leaves the state alone ("unresolved references stay literal
                               text"), at every state with the collected key set;
   resolved_stay_references    and a reference whose folded label IS one stays a FootnoteReference node.

   Premise refs_leaf as in FootnoteOrder.v (reference nodes have no children). *)
From Coq Require Import List NArith Bool Lia Permutation.
From V Require Import Base.Bytes Model.Ast Model.Footnotes Spec.FootnoteSpec Proofs.FootnoteProofs Proofs.FootnoteOrder.
Import ListNotations.
Local Open Scope list_scope.

Section Resolve.
  Variable fold : bytes -> bytes.
  Variable pres : bytes -> bytes.
  Variable defs : list node.

  Definition named_by (f : fdef) : Prop :=
    exists d, In d defs /\ f_name f = pres (def_name d) /\ f_key f = fold (def_name d).

  Definition J (m : fmap) : Prop := Forall named_by m.

  Lemma map_insert_J e m : J m -> named_by e -> J (map_insert e m).
  Proof.
    intros Jm He. induction Jm as [|x r Hx Hr IH]; cbn [map_insert].
    - constructor; [exact He | constructor].
    - destruct (bytes_eqb (f_key x) (f_key e)).
      + constructor; [exact He | exact Hr].
      + constructor; [exact Hx | exact IH].
  Qed.

  Lemma map_set_J e m : J m -> named_by e -> J (map_set e m).
  Proof.
    intros Jm He. induction Jm as [|x r Hx Hr IH]; cbn [map_set].
    - constructor.
    - destruct (bytes_eqb (f_key x) (f_key e)).
      + constructor; [exact He | exact Hr].
      + constructor; [exact Hx | exact IH].
  Qed.

  Lemma collect_J ds : forall idx m, (forall d, In d ds -> In d defs) -> J m -> J (collect fold pres ds idx m).
  Proof.
    induction ds as [|a r IH]; intros idx m Hin Jm; cbn [collect]; [exact Jm|].
    apply IH; [intros d Hd; apply Hin; right; exact Hd|].
    apply map_insert_J; [exact Jm|]. exists a. cbn [f_name f_key].
    split; [apply Hin; left; reflexivity | split; reflexivity].
  Qed.

  Definition ref_ok (p : bytes * N * N) : Prop :=
    (exists d, In d defs /\ fst (fst p) = pres (def_name d)) /\ (1 <= snd p)%N.

  Definition resolve_at (n : node) : Prop :=
    forall st, inv st -> J (fst st) -> refs_leaf n = true ->
      J (fst (snd (refs fold pres n st))) /\ Forall ref_ok (all_refs (fst (refs fold pres n st))).

  Lemma resolve_list ch : Forall resolve_at ch -> forall st, inv st -> J (fst st) -> forallb refs_leaf ch = true ->
    J (fst (snd (refs_list fold pres ch st))) /\ Forall ref_ok (flat_map all_refs (fst (refs_list fold pres ch st))).
  Proof.
    induction 1 as [|c r Hc _ IHr]; intros st I Jm L; cbn [refs_list].
    - split; [exact Jm | constructor].
    - cbn [forallb] in L. apply andb_prop in L. destruct L as [Lc Lr].
      destruct (Hc st I Jm Lc) as [J1 F1]. pose proof (refs_inv_node fold pres c st I) as I1.
      destruct (refs fold pres c st) as [c' st1]. cbn [fst snd] in J1, F1, I1.
      destruct (IHr st1 I1 J1 Lr) as [J2 F2]. destruct (refs_list fold pres r st1) as [r' st2].
      cbn [fst snd] in J2, F2 |- *.
      split; [exact J2|]. cbn [flat_map]. apply Forall_app. split; assumption.
  Qed.

  Lemma resolve_node : forall n, resolve_at n.
  Proof.
    induction n as [v sp ch IH] using node_ind2. intros st I Jm L.
    destruct (is_ref v) eqn:R.
    - destruct v; try discriminate. cbn [refs_leaf] in L. destruct ch; [|discriminate]. cbn [refs].
      destruct (map_get (fold name) (fst st)) as [f|] eqn:G.
      + pose proof (map_get_in _ _ _ G) as Fin.
        assert (named_by f) as Nf by (unfold J in Jm; rewrite Forall_forall in Jm; apply Jm; exact Fin).
        destruct Nf as [d [Hd [Hn Hk]]].
        destruct (f_ix f) as [i|] eqn:Fi; cbn [fst snd all_refs]; split.
        * apply map_set_J; [exact Jm|]. exists d. cbn [f_name f_key]. auto.
        * constructor; [|constructor]. unfold ref_ok. cbn [fst snd]. split.
          -- exists d. split; [exact Hd | exact Hn].
          -- destruct I as [_ [BD _]]. rewrite Forall_forall in BD.
             destruct (BD _ (in_ixs _ _ _ Fin Fi)) as [j [Ej Hj]]. injection Ej as <-. lia.
        * apply map_set_J; [exact Jm|]. exists d. cbn [f_name f_key]. auto.
        * constructor; [|constructor]. unfold ref_ok. cbn [fst snd]. split.
          -- exists d. split; [exact Hd | exact Hn].
          -- lia.
      + cbn [fst snd all_refs flat_map]. split; [exact Jm | constructor].
    - rewrite refs_nonref by exact R. rewrite refs_leaf_nonref in L by exact R.
      destruct (resolve_list ch IH st I Jm L) as [J1 F1].
      destruct (refs_list fold pres ch st) as [ch' st']. cbn [fst snd] in J1, F1 |- *.
      split; [exact J1|].
      assert (all_refs (Node v sp ch') = flat_map all_refs ch') as -> by (destruct v; try discriminate; reflexivity).
      exact F1.
  Qed.
End Resolve.

Theorem refs_point_to_definitions (fold pres : bytes -> bytes) root : refs_leaf root = true ->
  let r := refs fold pres root (collect fold pres (top_defs root) 0 [], 0%N) in
  Forall (ref_ok pres (top_defs root)) (all_refs (fst r)).
Proof.
  intro L. cbv zeta.
  assert (inv (collect fold pres (top_defs root) 0 [], 0%N)) as I0.
  { unfold inv. cbn [fst snd]. rewrite collect_ixs by reflexivity.
    repeat split; [constructor | constructor | intros i Hi; lia]. }
  assert (J fold pres (top_defs root) (fst (collect fold pres (top_defs root) 0 [], 0%N))) as J0.
  { cbn [fst]. apply collect_J; [auto | constructor]. }
  exact (proj2 (resolve_node fold pres (top_defs root) root _ I0 J0 L)).
Qed.

(* ------------------------------------------------------------------ keys: who resolves is decided by the collected definitions *)
Definition keys (m : fmap) : list bytes := map f_key m.

Lemma map_get_none_keys k m : map_get k m = None <-> ~ In k (keys m).
Proof.
  induction m as [|a r IH]; cbn [map_get keys map In].
  - split; [intros _ H; exact H | reflexivity].
  - destruct (bytes_eqb (f_key a) k) eqn:E.
    + apply bytes_eqb_eq in E. split; [discriminate|]. intro H. exfalso. apply H. left. exact E.
    + fold (keys r). rewrite IH. split.
      * intros H [X|X]; [|exact (H X)]. rewrite (proj2 (bytes_eqb_eq _ _) X) in E. discriminate.
      * intros H X. apply H. right. exact X.
Qed.

Lemma map_set_keys e m : keys (map_set e m) = keys m.
Proof.
  induction m as [|x r IH]; cbn [map_set keys map]; [reflexivity|].
  destruct (bytes_eqb (f_key x) (f_key e)) eqn:E; cbn [map].
  - apply bytes_eqb_eq in E. rewrite E. reflexivity.
  - f_equal. exact IH.
Qed.

Lemma map_insert_keys e m k : In k (keys (map_insert e m)) <-> k = f_key e \/ In k (keys m).
Proof.
  induction m as [|x r IH]; cbn [map_insert keys map In].
  - split; [intros [H|[]]; left; symmetry; exact H | intros [H|[]]; left; symmetry; exact H].
  - destruct (bytes_eqb (f_key x) (f_key e)) eqn:E; cbn [map In]; fold (keys r).
    + apply bytes_eqb_eq in E. rewrite E. split.
      * intros [H|H]; [left; symmetry; exact H | right; right; exact H].
      * intros [H|[H|H]]; [left; symmetry; exact H | left; exact H | right; exact H].
    + fold (keys (map_insert e r)). rewrite IH. tauto.
Qed.

Section Keys.
  Variable fold : bytes -> bytes.
  Variable pres : bytes -> bytes.

  Lemma collect_keys ds : forall idx m k,
    In k (keys (collect fold pres ds idx m)) <-> In k (keys m) \/ exists d, In d ds /\ fold (def_name d) = k.
  Proof.
    induction ds as [|a r IH]; intros idx m k; cbn [collect].
    - split; [intro H; left; exact H | intros [H|[d [[] _]]]; exact H].
    - rewrite IH, map_insert_keys. cbn [f_key In]. split.
      + intros [[H|H]|[d [Hd Hk]]].
        * right. exists a. split; [left; reflexivity | symmetry; exact H].
        * left. exact H.
        * right. exists d. split; [right; exact Hd | exact Hk].
      + intros [H|[d [[Hd|Hd] Hk]]].
        * left. right. exact H.
        * subst d. left. left. symmetry. exact Hk.
        * right. exists d. split; assumption.
  Qed.

  Definition keys_at (n : node) : Prop := forall st, keys (fst (snd (refs fold pres n st))) = keys (fst st).

  Lemma refs_keys : forall n, keys_at n.
  Proof.
    induction n as [v sp ch IH] using node_ind2. intro st.
    destruct (is_ref v) eqn:R.
    - destruct v; try discriminate. cbn [refs].
      destruct (map_get (fold name) (fst st)) as [f|] eqn:G; [|reflexivity].
      destruct (f_ix f); cbn [fst snd]; apply map_set_keys.
    - rewrite refs_nonref by exact R.
      assert (forall st, keys (fst (snd (refs_list fold pres ch st))) = keys (fst st)) as L.
      { clear st. induction IH as [|c r Hc _ IHr]; intro st; cbn [refs_list]; [reflexivity|].
        specialize (Hc st). destruct (refs fold pres c st) as [c' st1]. cbn [fst snd] in Hc.
        specialize (IHr st1). destruct (refs_list fold pres r st1) as [r' st2]. cbn [fst snd] in IHr |- *.
        rewrite IHr. exact Hc. }
      specialize (L st). destruct (refs_list fold pres ch st) as [ch' st']. exact L.
  Qed.

  (* unresolved references stay literal text, resolved ones stay references: at every state whose key set is the
     collected one (by refs_keys: every state of the walk) *)
  Theorem unresolved_stay_literal root st name r i sp :
    keys (fst st) = keys (collect fold pres (top_defs root) 0 []) ->
    (forall d, In d (top_defs root) -> fold (def_name d) <> fold name) ->
    refs fold pres (Node (FootnoteReference name r i) sp []) st
    = (Node (Text ([x5b; x5e] ++ name ++ [x5d])) sp [], st).
  Proof.
    intros K U. cbn [refs].
    assert (map_get (fold name) (fst st) = None) as ->; [|reflexivity].
    apply map_get_none_keys. rewrite K. intro H. apply collect_keys in H.
    destruct H as [[]|[d [Hd Hk]]]. exact (U d Hd Hk).
  Qed.

  Theorem resolved_stay_references root st name r i sp :
    keys (fst st) = keys (collect fold pres (top_defs root) 0 []) ->
    (exists d, In d (top_defs root) /\ fold (def_name d) = fold name) ->
    is_ref (nval (fst (refs fold pres (Node (FootnoteReference name r i) sp []) st))) = true.
  Proof.
    intros K [d [Hd Hk]]. cbn [refs].
    destruct (map_get (fold name) (fst st)) as [f|] eqn:G.
    - destruct (f_ix f); reflexivity.
    - exfalso. apply map_get_none_keys in G. apply G. rewrite K. apply collect_keys. right. exists d. auto.
  Qed.
End Keys.
