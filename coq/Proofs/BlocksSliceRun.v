(* Proofs/BlocksSliceRun.v — C12 for the START of block constructs on the BLOCK PHASE model, part 3: the handlers of
   open_new_blocks (each creation site with the byte it found at first_nonspace), tables (every node they touch is
   unclaimed), add_text_to_container (the Paragraph), process_line, run_lines, parse_blocks.

   Assumed throughout: the description list extension is off (parse_desc_list_details writes the start of the paragraph it
   absorbs into nodes it reaches through identifiers returned by add_child; that these are the new nodes needs the
   pairwise distinct identifiers of Proofs/ParserShapeTabPrim.v, which this walk does not carry).
   NO Model file is changed. *)
From Coq Require Import List NArith Arith Bool Lia Strings.String.
From V Require Import Base.Bytes Base.Res Gen.StrLeafGen Gen.FeedConst Gen.Nodes Gen.BlocksConst Model.Ast Model.Strings
  Model.Scan Model.ListMarker Model.Feed Model.FrontMatter Model.RefDef Model.Blocks Proofs.FeedProofs Proofs.BlocksProofs
  Proofs.BlocksPos Proofs.BlocksSliceScan Proofs.BlocksSlice.
From V Require Proofs.BlocksTotal4Frame.
Import ListNotations.
Local Open Scope string_scope.
Local Open Scope list_scope.

Lemma idx_nth site l i b : idx site l i = Ok b -> nth_error l i = Some b.
Proof. unfold idx. destruct (nth_error l i); [intro H; inversion H; reflexivity | discriminate]. Qed.

Lemma slice_from_eq site l k r : slice_from site l k = Ok r -> r = skipn k l.
Proof. unfold slice_from. destruct (Nat.ltb (List.length l) k); [discriminate | intro H; inversion H; reflexivity]. Qed.

Lemma skipn_hd {A} (l : list A) k b t : skipn k l = b :: t -> nth_error l k = Some b.
Proof. intro H. rewrite <- (Nat.add_0_r k), <- nth_error_skipn_add', H. reflexivity. Qed.

Section RUN.
Variables (o : bopts) (ls : list bytes) (L : nat) (line0 : bytes).
Hypothesis HL : 1 <= L.
Hypothesis Hline : nth_error ls (L - 1) = Some line0.
Hypothesis DL : bo_description_lists o = false.
Notation line := (norm_line line0).
Notation SI := (SIL o ls L line).

Hint Resolve SIL_st_next SIL_st_current SIL_st_refmap SIL_st_curline SIL_st_last_line_length
  bdetach_sil modify_info_sil adv_sil retighten_sil finalize_sil unwrap_parent_fin_sil skip_one_space_sil : sil.
Hint Extern 1 (forall i : binfo, Sn _ _ i -> Sn _ _ _) => sn_side : sil.

Ltac pairs := repeat match goal with p : (_ * _)%type |- _ => destruct p end; cbn [fst snd] in *.
Ltac silgo H := mon H; monall; pairs; eauto 20 with sil.

(* a block that starts at byte k of the current line *)
Lemma pos_here v k : byte_ok v (nth_error line k) = true -> pos_ok ls v L (S k).
Proof.
  intro H. exists line0. split; [exact HL|]. split; [lia|]. split; [exact Hline|].
  cbn [Nat.sub]. rewrite Nat.sub_0_r. exact H.
Qed.

Lemma pos_here_b v k b : nth_error line k = Some b -> byte_ok v (Some b) = true -> pos_ok ls v L (S k).
Proof. intros N H. apply pos_here. rewrite N. exact H. Qed.

Lemma ffn_sil' st st' : ffn st line = Ok st' -> SI st -> SI st'.
Proof. intros H P. eapply ffn_sil; [exact H | reflexivity | exact P]. Qed.
Hint Resolve ffn_sil' : sil.

(* ================================================================== tables: every node they write is unclaimed *)
Lemma try_inserting_sil st c po st' :
  try_inserting_table_header_paragraph st c po = Ok st' -> bo_table o = true ->
  (forall cn, get st c = Ok cn -> is_paragraph cn = true) ->
  SI st -> SI st'.
Proof.
  unfold try_inserting_table_header_paragraph. intros H T Hc P.
  destruct (get st c) as [cn| |] eqn:Gt; cbn [bind] in H; try discriminate H.
  pose proof (is_paragraph_val _ (Hc _ eq_refl)) as Bv.
  mon H; monall; try exact P.
  match goal with M : modify_info _ _ _ = Ok ?s |- _ => assert (P1 : SI s) end.
  { eapply modify_info_at_sil; [eassumption | exact Gt | | apply SIL_st_next; exact P].
    intros _. apply Sn_unclaimed. destruct cn as [i ch]. unfold bval in Bv. destruct i. cbn in *. subst. cbn. rewrite T. reflexivity. }
  eapply edit_root_sil; [eassumption | exact P1 |].
  intros pk pre x post K. cbv beta. destruct (can_contain pk KParagraph); [|exact K].
  apply Forall_app in K. destruct K as [K1 K2]. apply Forall_app. split; [exact K1|].
  cbn [app]. constructor; [|exact K2]. apply all_info_node. split; [|constructor].
  apply Sn_unclaimed. cbn. rewrite T. reflexivity.
Qed.

Lemma header_cells_sn : forall cells id ln sl sc po l,
  header_cells cells id ln sl sc po = Ok l -> Forall (all_info (Sn o ls)) l.
Proof.
  induction cells as [|c r IH]; intros id ln sl sc po l H; cbn [header_cells] in H.
  - inversion H. constructor.
  - mon H. constructor; [|eapply IH; eassumption].
    apply all_info_node. split; [|constructor]. apply Sn_unclaimed. reflexivity.
Qed.

Lemma try_opening_header_sil st c r st' :
  try_opening_header o st c line = Ok (r, st') -> bo_table o = true ->
  (forall cn, get st c = Ok cn -> is_paragraph cn = true) ->
  SI st -> SI st'.
Proof.
  unfold try_opening_header. intros H T Hc P.
  destruct (get st c) as [cn0| |] eqn:G0; cbn [bind] in H; try discriminate H.
  pose proof (Hc _ eq_refl) as Hp. clear Hc.
  mon H; monall; try exact P;
  match goal with
  | I : try_inserting_table_header_paragraph _ _ _ = Ok ?s |- _ =>
    assert (P1 : SI s)
      by (eapply try_inserting_sil; [exact I | exact T | intros cn' G'; rewrite G0 in G'; inversion G'; subst; exact Hp | exact P])
  | _ => pose proof P as P1
  end;
  (eapply edit_root_sil; [eassumption | eauto 10 with sil |]);
  intros pk pre x post K; cbv beta; (destruct (is_paragraph x); [|exact K]);
  apply Forall_app in K; destruct K as [K1 K2]; inversion K2; subst;
  apply Forall_app; (split; [exact K1|]); cbn [app]; (constructor; [|assumption]);
  apply all_info_node; (split; [apply Sn_unclaimed; reflexivity|]);
  (constructor; [|constructor]); apply all_info_node; (split; [apply Sn_unclaimed; reflexivity|]);
  eapply header_cells_sn; eassumption.
Qed.

Lemma row_cells_sn : forall n cells id ln sc lc l lc',
  row_cells n cells id ln sc lc = Ok (l, lc') -> Forall (all_info (Sn o ls)) l.
Proof.
  induction n as [|m IH]; intros cells id ln sc lc l lc' H; cbn [row_cells] in H.
  - destruct cells; inversion H; subst; constructor.
  - destruct cells as [|c r]; [inversion H; subst; constructor|].
    mon H. pairs. constructor; [|eapply IH; eassumption].
    apply all_info_node. split; [|constructor]. apply Sn_unclaimed. reflexivity.
Qed.

Lemma filler_cells_sn : forall n id ln lc, Forall (all_info (Sn o ls)) (filler_cells n id ln lc).
Proof.
  induction n as [|m IH]; intros id ln lc; cbn [filler_cells]; constructor; [|apply IH].
  apply all_info_node. split; [|constructor]. apply Sn_unclaimed. reflexivity.
Qed.

Lemma try_opening_row_sil st c t r st' :
  (exists cn, get st c = Ok cn /\ bval cn = Table t) ->
  try_opening_row o st c t line = Ok (r, st') -> SI st -> SI st'.
Proof.
  intros [cn [Gt Bv]]. unfold try_opening_row. intros H P. rewrite Gt in H. cbn [bind] in H.
  mon H; monall; try exact P.
  match goal with M : modify _ _ _ = Ok ?s |- _ => assert (SI s) end.
  { eapply modify_sil; [apply SIL_st_next; exact P | eassumption |].
    intros nn Fn An. cbn in Fn. rewrite (get_find _ _ _ Gt) in Fn. inversion Fn; subst nn.
    destruct cn as [i ch]. apply all_info_node in An. destruct An as [Ai Ak].
    apply all_info_node. split.
    - apply Sn_unclaimed. destruct i; reflexivity.
    - apply Forall_app. split; [exact Ak|]. constructor; [|constructor].
      apply all_info_node. split; [apply Sn_unclaimed; reflexivity|].
      apply Forall_app. split; [eapply row_cells_sn; eassumption | apply filler_cells_sn]. }
  eauto 10 with sil.
Qed.

Lemma try_opening_block_sil st c r st' :
  try_opening_block o st c line = Ok (r, st') -> bo_table o = true -> SI st -> SI st'.
Proof.
  unfold try_opening_block. intros H T P.
  destruct (get st c) as [cn| |] eqn:Gt; cbn [bind] in H; try discriminate H.
  destruct (bval cn) eqn:Bv; try (inversion H; subst; exact P).
  - eapply try_opening_header_sil; [exact H | exact T | | exact P].
    intros cn' G'. rewrite Gt in G'. inversion G'; subst. unfold is_paragraph. now rewrite Bv.
  - eapply try_opening_row_sil; [exists cn; split; [exact Gt | exact Bv] | exact H | exact P].
Qed.

(* ================================================================== the handlers *)
Ltac newblk :=
  match goal with
  | A : add_child _ _ _ _ _ = Ok (_, ?s') |- SIL _ _ _ _ ?s' => eapply add_child_sil; [exact A | intros _ | eauto 10 with sil]
  end.

Lemma handle_alert_sil st c ind b c' st' : handle_alert o st c line ind = Ok (b, c', st') -> SI st -> SI st'.
Proof.
  unfold handle_alert. intros H P. mon H; monall; pairs; eauto with sil.
  all: newblk; (eapply pos_here_b; [eapply idx_nth; eassumption|]); cbn; unfold is_gt;
    match goal with E : negb (beqb _ x3e) = false |- _ => apply negb_false_iff in E; exact E end.
Qed.

Lemma handle_mbq_sil st c ind b c' st' : handle_multiline_blockquote o st c line ind = Ok (b, c', st') -> SI st -> SI st'.
Proof.
  unfold handle_multiline_blockquote, rest_at_fns. intros H P. mon H; monall; pairs; eauto with sil.
  match goal with A : add_child _ _ _ _ _ = Ok (_, ?s) |- _ => assert (SI s) end; [|eauto with sil].
  newblk.
  match goal with S : slice_from _ _ _ = Ok ?r, M : scan_open_multiline_block_quote_fence ?r = Some _ |- _ =>
    apply slice_from_eq in S; subst r; destruct (scan_open_mbq_fence_first _ _ M) as (b0 & t0 & Es & Hb) end.
  eapply pos_here_b; [eapply skipn_hd; exact Es | exact Hb].
Qed.

Lemma handle_blockquote_sil st c ind b c' st' : handle_blockquote o st c line ind = Ok (b, c', st') -> SI st -> SI st'.
Proof.
  unfold handle_blockquote. intros H P. mon H; monall; pairs; eauto with sil.
  newblk. eapply pos_here_b; [eapply idx_nth; eassumption|]. cbn. unfold is_gt.
  match goal with E : negb (beqb _ x3e) = false |- _ => apply negb_false_iff in E; exact E end.
Qed.

Lemma handle_atx_sil st c ind b c' st' : handle_atx_heading o st c line ind = Ok (b, c', st') -> SI st -> SI st'.
Proof.
  unfold handle_atx_heading, rest_at_fns. intros H P. mon H; monall; pairs; eauto with sil.
  eapply add_child_gen_sil; [eassumption | | constructor | eauto with sil].
  intros id'. unfold Sn. cbn. intros _.
  match goal with S : slice_from _ _ _ = Ok ?r, M : scan_atx_heading_start ?r = Some _ |- _ =>
    apply slice_from_eq in S; subst r; destruct (scan_atx_heading_start_first _ _ M) as (b0 & t0 & Es & Hb) end.
  eapply pos_here_b; [eapply skipn_hd; exact Es | exact Hb].
Qed.

Lemma handle_code_fence_sil st c ind b c' st' : handle_code_fence o st c line ind = Ok (b, c', st') -> SI st -> SI st'.
Proof.
  unfold handle_code_fence, rest_at_fns. intros H P. mon H; monall; pairs; eauto with sil.
  match goal with A : add_child _ _ _ _ _ = Ok (_, ?s) |- _ => assert (SI s) end; [|eauto with sil].
  newblk.
  match goal with S : slice_from _ _ _ = Ok ?r, M : scan_open_code_fence ?r = Some _ |- _ =>
    apply slice_from_eq in S; subst r; destruct (scan_open_code_fence_first _ _ M) as (b0 & t0 & Es & Hb) end.
  apply skipn_hd in Es.
  match goal with I : idx _ _ _ = Ok ?fc |- _ => apply idx_nth in I; rewrite Es in I; inversion I; subst fc end.
  eapply pos_here_b; [exact Es|]. cbn. unfold fence_ok. cbn. rewrite Hb, N.eqb_refl. reflexivity.
Qed.

Lemma handle_html_block_sil st c ind b c' st' : handle_html_block o st c line ind = Ok (b, c', st') -> SI st -> SI st'.
Proof.
  unfold handle_html_block, rest_at_fns. intros H P.
  mstep H; [inversion H; subst; exact P|]. mstep H. mstep H.
  match type of H with match ?m with _ => _ end = _ => destruct m as [matched|] eqn:Em end; [|inversion H; subst; exact P].
  mon H; pairs. newblk.
  apply slice_from_eq in E0. subst a.
  assert (Hm : exists b1 t1, skipn (fns st) line = b1 :: t1 /\ is_lt b1 = true).
  { destruct (scan_html_block_start (skipn (fns st) line)) as [m1|] eqn:S1.
    - eapply scan_html_block_start_first; exact S1.
    - destruct (negb (is_paragraph a0)); [|discriminate Em]. eapply scan_html_block_start_7_first; exact Em. }
  destruct Hm as (b1 & t1 & Es & Hb). eapply pos_here_b; [eapply skipn_hd; exact Es | exact Hb].
Qed.

Lemma handle_footnote_sil st c ind d b c' st' : handle_footnote o st c line ind d = Ok (b, c', st') -> SI st -> SI st'.
Proof.
  unfold handle_footnote, rest_at_fns. intros H P. mon H; monall; pairs; eauto with sil.
  match goal with A : add_child _ _ _ _ _ = Ok (_, ?s) |- _ => assert (SI s) end; [|eauto with sil].
  newblk.
  match goal with A : adv _ _ _ _ = Ok ?s |- context [fns ?s] => rewrite (adv_fns _ _ _ _ _ A) end.
  match goal with S : slice_from _ _ _ = Ok ?r, M : scan_footnote_definition ?r = Some _ |- _ =>
    apply slice_from_eq in S; subst r; destruct (scan_footnote_definition_first _ _ M) as (b0 & t0 & Es & Hb) end.
  eapply pos_here_b; [eapply skipn_hd; exact Es | exact Hb].
Qed.

Lemma handle_code_block_sil st c ind ml b c' st' : handle_code_block o st c line ind ml = Ok (b, c', st') -> SI st -> SI st'.
Proof.
  unfold handle_code_block. intros H P. mon H; monall; pairs; eauto with sil.
  eapply add_child_sil; [eassumption | intro C; discriminate C | eauto with sil].
Qed.

Lemma handle_description_list_sil st c ind b c' st' :
  handle_description_list o st c line ind = Ok (b, c', st') -> SI st -> SI st'.
Proof.
  unfold handle_description_list. rewrite DL. cbn [negb]. rewrite orb_true_r. intros H P. inversion H; subst. exact P.
Qed.

Lemma handle_setext_sil st c ind b c' st' : handle_setext_heading o st c line ind = Ok (b, c', st') -> SI st -> SI st'.
Proof.
  unfold handle_setext_heading, rest_at_fns. intros H P.
  mstep H; [inversion H; subst; exact P|].
  destruct (get st c) as [cn| |] eqn:Gt; cbn [bind] in H; try discriminate H.
  destruct (is_paragraph cn) eqn:Pa; cbn [negb] in H; [|inversion H; subst; exact P].
  apply is_paragraph_val in Pa.
  mon H; monall; pairs; eauto 10 with sil;
  match goal with M1 : modify_info (st_refmap st _) _ _ = Ok ?s1 |- _ => assert (P1 : SI s1) end;
  try (eapply modify_info_at_sil; [eassumption | exact Gt | | apply SIL_st_refmap; exact P];
       destruct cn as [i ch]; unfold bval in Pa; destruct i; cbn in *; subst; apply Sn_same; cbn; try reflexivity;
       rewrite ?andb_true_l; reflexivity);
  eauto 10 with sil.
Qed.

Lemma handle_thematic_break_sil st c ind am b c' st' :
  handle_thematic_break o st c line ind am = Ok (b, c', st') -> SI st -> SI st'.
Proof.
  unfold handle_thematic_break. intros H P.
  mstep H; [inversion H; subst; exact P|].
  mstep H.
  mstep H; [inversion H; subst; exact P|].
  mstep H; [inversion H; subst; exact P|].
  destruct (scan_thematic_break_inner line (fns st)) as [off found] eqn:Tb.
  destruct found; cbn [negb] in H.
  - mon H; pairs.
    match goal with A : add_child _ _ _ _ _ = Ok (_, ?s) |- _ => assert (P1 : SI s) end; [|eauto 10 with sil].
    newblk. destruct (thematic_first _ _ _ Tb) as (b0 & t0 & Es & Hb).
    eapply pos_here_b; [eapply skipn_hd; exact Es | exact Hb].
  - (* not found: the kill position is stored *)
    inversion H; subst. apply SIL_st_cur; [|exact P]. destruct (ps_cur st); split; cbn; [reflexivity | lia].
Qed.

Lemma list_spaces_loop_le sc : forall fuel st st', list_spaces_loop fuel st line sc = Ok st' ->
  cur_le (ps_cur st) (ps_cur st') /\ st' = st_cur st (ps_cur st').
Proof.
  induction fuel as [|f IH]; intros st st' H; cbn [list_spaces_loop] in H; [discriminate|].
  mon H; try (match goal with |- _ /\ ?x = st_cur ?x _ => split; [apply cur_le_refl | destruct x; reflexivity] end).
  match goal with A : adv _ _ _ _ = Ok _ |- _ => destruct (adv_le _ _ _ _ _ A) as [A1 A2] end.
  destruct (IH _ _ H) as [B1 B2]. split; [eapply cur_le_trans; eassumption|].
  etransitivity; [exact B2|]. rewrite A2. reflexivity.
Qed.

Lemma handle_list_sil st c ind d b c' st' : handle_list o st c line ind d = Ok (b, c', st') -> SI st -> SI st'.
Proof.
  unfold handle_list. intros H P.
  destruct (get st c) as [cn| |] eqn:Gc; cbn [bind] in H; try discriminate H.
  match type of H with (if ?bb then _ else _) = _ => destruct bb end; [inversion H; subst; exact P|].
  destruct (parse_list_marker line (fns st) (is_paragraph cn)) as [[[matched nl0]|]| |] eqn:Em; cbn [bind] in H; try discriminate H;
    [|inversion H; subst; exact P].
  destruct (sub _ (fns st + matched) (offset st)) as [k| |]; cbn [bind] in H; try discriminate H.
  destruct (adv st line k false) as [st1| |] eqn:E1; cbn [bind] in H; try discriminate H.
  destruct (list_spaces_loop 8 st1 line (c_column (ps_cur st1))) as [st2| |] eqn:E2; cbn [bind] in H; try discriminate H.
  destruct (sub _ (c_column (ps_cur st2)) (c_column (ps_cur st1))) as [i| |]; cbn [bind] in H; try discriminate H.
  destruct (idx _ line (offset st2)) as [bb| |]; cbn [bind] in H; try discriminate H.
  match type of H with bind ?e _ = _ => destruct e as [[padding st5]| |] eqn:E5; cbn [bind] in H; try discriminate H end.
  destruct (get st5 c) as [c5| |] eqn:G5; cbn [bind] in H; try discriminate H.
  match type of H with bind ?e _ = _ => destruct e as [[lid stA]| |] eqn:EA; cbn [bind fst snd] in H; try discriminate H end.
  match type of H with bind ?e _ = _ => destruct e as [[iid stB]| |] eqn:EB; cbn [bind fst snd] in H; try discriminate H end.
  injection H as _ _ <-.
  destruct (list_marker_first _ _ _ _ _ Em) as (b0 & t0 & Es & Hb). apply skipn_hd in Es.
  destruct (adv_le _ _ _ _ _ E1) as [A1 A2]. destruct (list_spaces_loop_le _ _ _ _ E2) as [B1 B2].
  assert (P1 : SI st1) by eauto with sil.
  assert (P2 : SI st2) by (rewrite B2; apply SIL_st_cur; [exact B1 | exact P1]).
  (* the state after the padding was computed: first_nonspace is the one of the beginning *)
  assert (P5 : SI st5 /\ fns st5 = fns st).
  { destruct (_ || _) in E5.
    - match type of E5 with bind ?e _ = _ => destruct e as [st4| |] eqn:E8; cbn [bind] in E5; try discriminate E5 end.
      injection E5 as _ <-.
      assert (P3 : SI (st_cur st2 (cur_set_oc (ps_cur st2) (c_offset (ps_cur st1)) (c_column (ps_cur st1)) (c_pct (ps_cur st1)))) /\
                   fns (st_cur st2 (cur_set_oc (ps_cur st2) (c_offset (ps_cur st1)) (c_column (ps_cur st1)) (c_pct (ps_cur st1)))) = fns st).
      { split.
        - rewrite B2 at 1.
          change (st_cur (st_cur st1 (ps_cur st2)) (cur_set_oc (ps_cur st2) (c_offset (ps_cur st1)) (c_column (ps_cur st1)) (c_pct (ps_cur st1))))
            with (st_cur st1 (cur_set_oc (ps_cur st2) (c_offset (ps_cur st1)) (c_column (ps_cur st1)) (c_pct (ps_cur st1)))).
          apply SIL_st_cur; [|exact P1]. destruct B1 as [B1 _]. split; cbn; [exact B1 | lia].
        - unfold fns. cbn. destruct B1 as [B1 _]. destruct A1 as [A1 _]. congruence. }
      destruct P3 as [P3 F3]. destruct (Nat.ltb 0 i).
      + split; [eapply adv_sil; eassumption | rewrite (adv_fns _ _ _ _ _ E8); exact F3].
      + injection E8 as <-. split; assumption.
    - injection E5 as _ <-. split; [exact P2|]. unfold fns. destruct B1 as [B1 _]. destruct A1 as [A1 _]. congruence. }
  destruct P5 as [P5 F5].
  assert (Hpos : forall v, byte_ok v (Some b0) = true -> pos_ok ls v L (S (fns st5))).
  { intros v Hv. rewrite F5. eapply pos_here_b; [exact Es | exact Hv]. }
  assert (Hlb : list_byte_ok (mkList (l_type nl0) (N.of_nat (indent st5)) (N.of_nat padding) (l_start nl0) (l_delim nl0) (l_bullet nl0) (l_tight nl0) (l_task nl0)) b0 = true)
    by (unfold list_byte_ok in *; cbn; exact Hb).
  assert (P6 : SI stA).
  { match type of EA with (if ?bb then _ else _) = _ => destruct bb end.
    - eapply add_child_sil; [exact EA | intros _; apply Hpos; cbn; exact Hlb | exact P5].
    - injection EA as _ <-. exact P5. }
  eapply add_child_sil; [exact EB | intros _; apply Hpos; cbn; exact Hlb | exact P6].
Qed.

Hint Resolve handle_alert_sil handle_mbq_sil handle_blockquote_sil handle_atx_sil handle_code_fence_sil
  handle_html_block_sil handle_setext_sil handle_thematic_break_sil handle_footnote_sil
  handle_description_list_sil handle_list_sil handle_code_block_sil : sil.

Lemma or_else_h_sil (r : hres) k b c st st' :
  or_else_h r k = Ok (b, c, st') -> SI st ->
  (forall b1 c1 s1, r = Ok (b1, c1, s1) -> SI st -> SI s1) ->
  (forall c1 s1 b2 c2 s2, k c1 s1 = Ok (b2, c2, s2) -> SI s1 -> SI s2) ->
  SI st'.
Proof.
  unfold or_else_h. intros H P Hr Hk.
  destruct r as [[[b1 c1] s1]| |]; cbn [bind] in H; try discriminate H.
  destruct b1.
  - inversion H; subst. eapply Hr; [reflexivity | exact P].
  - eapply Hk; [exact H|]. eapply Hr; [reflexivity | exact P].
Qed.

Ltac chain_s :=
  match goal with
  | R : or_else_h _ _ = Ok _ |- SIL _ _ _ _ _ =>
    eapply (or_else_h_sil _ _ _ _ _ _ R); clear R;
    [ eassumption | intros ? ? ? ? ?; eauto with sil | intros ? ? ? ? ? R ?; cbv beta in R; chain_s ]
  | |- SIL _ _ _ _ _ => eauto with sil
  end.

Lemma open_new_blocks_step_sil st c am ml d g c' st' :
  open_new_blocks_step o st c line am ml d = Ok (g, c', st') -> SI st -> SI st'.
Proof.
  unfold open_new_blocks_step. intros H P.
  destruct (ffn st line) as [s0| |] eqn:F0; cbn [bind] in H; try discriminate H.
  assert (P0 : SI s0) by eauto with sil.
  match type of H with bind ?r _ = _ => destruct r as [[[hd c1] s1]| |] eqn:R; cbn [bind] in H; try discriminate H end.
  assert (P1 : SI s1) by chain_s.
  clear R.
  destruct hd.
  - silgo H.
  - destruct (negb (Nat.leb code_indent (indent s0)) && bo_table o) eqn:Tb.
    + apply andb_true_iff in Tb. destruct Tb as [_ Tb].
      destruct (try_opening_block o s1 c1 line) as [[tr s2]| |] eqn:TO; cbn [bind] in H; try discriminate H.
      assert (P2 : SI s2) by (eapply try_opening_block_sil; eassumption).
      destruct tr; silgo H.
    + silgo H.
Qed.
Hint Resolve open_new_blocks_step_sil : sil.

Lemma open_new_blocks_loop_sil am : forall fuel st c ml d c' st',
  open_new_blocks_loop fuel o st c line am ml d = Ok (c', st') -> SI st -> SI st'.
Proof. induction fuel as [|f IH]; intros st c ml d c' st' H P; cbn [open_new_blocks_loop] in H; silgo H. Qed.
Hint Resolve open_new_blocks_loop_sil : sil.

Lemma open_new_blocks_sil st c am c' st' : open_new_blocks o st c line am = Ok (c', st') -> SI st -> SI st'.
Proof. unfold open_new_blocks. intros H P. silgo H. Qed.

Lemma add_line_sil st id ln st' : add_line st id ln = Ok st' -> SI st -> SI st'.
Proof.
  unfold add_line. intros H P.
  destruct (get st id) as [n| |] eqn:Gt; cbn [bind] in H; try discriminate H.
  destruct (negb (bi_open (binf n))); [discriminate H|].
  destruct (c_pct (ps_cur st)); mon H; monall.
  all: (apply SIL_st_cur; [|eapply modify_info_const_sil; [eassumption | eassumption | | eassumption]]).
  all: try (match goal with |- Sn _ _ (binf ?n) -> _ => destruct n as [i ch]; apply Sn_same; destruct i; reflexivity end).
  all: match goal with M : modify_info ?s0 _ _ = Ok ?s |- cur_le (ps_cur ?s) _ =>
         destruct (BlocksTotal4Frame.modify_info_KC _ _ _ _ _ _ M (BlocksTotal4Frame.KC_self s0)) as [-> _] end.
  all: first [apply cur_le_refl | split; cbn; [reflexivity | lia]].
Qed.
Hint Resolve open_new_blocks_sil clear_llb_up_sil finalize_up_to_sil add_line_sil : sil.

(* ================================================================== add_text_to_container: the Paragraph *)
Lemma nonblank_of b : is_space_or_tab b = false -> is_line_end_char b = false -> nonblank b = true.
Proof. unfold nonblank. intros -> ->. reflexivity. Qed.

(* the two tails of the default arm: a line for a block that accepts lines; a new Paragraph *)
Lemma acc_tail (X : res bytes) st c rc rs :
  (do line1 <- X;
   do count <- sub "mod.rs:add_text_to_container:self.first_nonspace - self.offset" (fns st) (offset st);
   if Nat.leb (fns st) (List.length line1) then
     do st1 <- adv st line1 count false;
     do st2 <- add_line st1 c line1;
     Ok (c, st2)
   else Ok (c, st)) = Ok (rc, rs) -> SI st -> SI rs.
Proof. intros H P. silgo H. Qed.

Lemma para_tail st c rc rs :
  (do a <- add_child o st c Paragraph (S (fns st));
   let '(p, st1) := a in
   do count <- sub "mod.rs:add_text_to_container:self.first_nonspace - self.offset" (fns st1) (offset st1);
   do st2 <- adv st1 line count false;
   do st3 <- add_line st2 p line;
   Ok (p, st3)) = Ok (rc, rs) ->
  (claimed o Paragraph = true -> pos_ok ls Paragraph L (S (fns st))) -> SI st -> SI rs.
Proof.
  intros H Hp P. mon H; pairs.
  match goal with A : add_child _ _ _ Paragraph _ = Ok (_, ?s) |- _ => assert (SI s) by (eapply add_child_sil; eassumption) end.
  eauto with sil.
Qed.

Lemma add_text_to_container_sil st c lm st' :
  add_text_to_container o st c lm line = Ok st' -> SI st -> SI st'.
Proof.
  unfold add_text_to_container. intros H P.
  destruct (ffn st line) as [s0| |] eqn:F0; cbn [bind] in H; try discriminate H.
  assert (P0 : SI s0) by eauto with sil.
  assert (C0 : fgood line (fns s0) /\ blank s0 = match nth_error line (fns s0) with Some b => is_line_end_char b | None => false end).
  { unfold ffn in F0. destruct (find_first_nonspace (ps_cur st) line) as [c0| |] eqn:E; cbn [bind] in F0; try discriminate F0.
    injection F0 as <-. destruct P as (_ & _ & Gc). destruct (find_first_nonspace_spec _ _ _ E Gc) as (A & _ & B). split; [exact A | exact B]. }
  destruct (get s0 c) as [cn| |] eqn:Gc; cbn [bind] in H; try discriminate H.
  match type of H with bind ?e _ = _ => destruct e as [s1| |] eqn:E1; cbn [bind] in H; try discriminate H end.
  assert (K1 : BlocksTotal4Frame.KC (ps_cur s0) (ps_curline_len s0) s1 /\ SI s1).
  { destruct (blank s0); [destruct (last_opt (bkids cn))|]; try (injection E1 as <-; split; [apply BlocksTotal4Frame.KC_self | exact P0]).
    split; [eapply BlocksTotal4Frame.modify_info_KC; [exact E1 | apply BlocksTotal4Frame.KC_self] | eauto with sil]. }
  destruct K1 as [K1 P1].
  match type of H with bind ?e _ = _ => destruct e as [s2| |] eqn:E2; cbn [bind] in H; try discriminate H end.
  assert (K2 : BlocksTotal4Frame.KC (ps_cur s0) (ps_curline_len s0) s2) by (eapply BlocksTotal4Frame.modify_info_KC; eassumption).
  assert (P2 : SI s2) by eauto with sil.
  match type of H with bind ?e _ = _ => destruct e as [s3| |] eqn:E3; cbn [bind] in H; try discriminate H end.
  assert (K3 : BlocksTotal4Frame.KC (ps_cur s0) (ps_curline_len s0) s3) by (eapply BlocksTotal4Frame.clear_llb_up_KC; eassumption).
  assert (P3 : SI s3) by (eapply clear_llb_up_sil; eassumption).
  match type of H with bind ?e _ = _ => destruct e as [lz| |] eqn:E4; cbn [bind] in H; try discriminate H end.
  destruct lz; [eauto with sil|].
  match type of H with bind ?e _ = _ => destruct e as [s4| |] eqn:E5; cbn [bind] in H; try discriminate H end.
  assert (K4 : BlocksTotal4Frame.KC (ps_cur s0) (ps_curline_len s0) s4) by (eapply BlocksTotal4Frame.finalize_up_to_KC; eassumption).
  assert (P4 : SI s4) by (eapply finalize_up_to_sil; eassumption).
  destruct (get s4 c) as [c4| |] eqn:G4; cbn [bind] in H; try discriminate H.
  match type of H with bind ?e _ = _ => destruct e as [[rc rs]| |] eqn:E6; cbn [bind fst snd] in H; try discriminate H end.
  injection H as <-. apply SIL_st_current.
  assert (B4 : blank s4 = blank s0 /\ fns s4 = fns s0) by (destruct K4 as [K4 _]; unfold blank, fns; rewrite K4; split; reflexivity).
  destruct B4 as [B4 F4].
  (* the start of a Paragraph created here *)
  assert (Hp : blank s4 = false -> claimed o Paragraph = true -> pos_ok ls Paragraph L (S (fns s4))).
  { intros Bl _. rewrite F4. apply pos_here. cbn. destruct C0 as [Cg Cb]. rewrite <- B4, Bl in Cb.
    destruct (nth_error line (fns s0)) as [b1|] eqn:Nb; [|reflexivity].
    cbn. apply nonblank_of; [apply Cg; exact Nb | symmetry; exact Cb]. }
  destruct (bval c4) eqn:Bv;
    try (destruct (blank s4) eqn:Bl; [injection E6 as _ <-; exact P4|];
         match type of E6 with (if ?b then _ else _) = _ => destruct b end;
         [ first [eapply (acc_tail (Ok line)); [exact E6 | exact P4] | eapply acc_tail; [exact E6 | exact P4]] | eapply para_tail; [exact E6 | exact (Hp eq_refl) | exact P4] ]).
  - silgo E6.
  - silgo E6.
Qed.

(* ================================================================== process_line *)
End RUN.

Definition SB (o : bopts) (ls : list bytes) (K : nat) (st : pstate) : Prop :=
  ps_line_number st = K /\ all_info (Sn o ls) (ps_root st).

Lemma SB_of_SIL o ls K line st : SIL o ls K line st -> SB o ls K st.
Proof. intros (A & B & _). split; assumption. Qed.

Lemma SIL_of_SB o ls K st : SB o ls K st -> SIL o ls K [] st.
Proof. intros (A & B). split; [exact A|]. split; [exact B|]. right. intros b Hb. destruct (c_fns (ps_cur st)); discriminate Hb. Qed.

Lemma process_line_sb o ls K st line0 st' :
  bo_description_lists o = false -> nth_error ls K = Some line0 ->
  process_line o st line0 = Ok st' -> SB o ls K st -> SB o ls (S K) st'.
Proof.
  intros DL Hl H [A B]. unfold process_line in H.
  assert (HL : 1 <= S K) by lia.
  assert (Hline : nth_error ls (S K - 1) = Some line0) by (cbn [Nat.sub]; rewrite Nat.sub_0_r; exact Hl).
  match type of H with bind (check_open_blocks o ?s0 _) _ = _ => assert (P0 : SIL o ls (S K) (norm_line line0) s0) end.
  { split; [cbn; rewrite A; reflexivity|]. split; [exact B|]. left. cbn. lia. }
  match type of H with bind ?e _ = _ => destruct e as [[r s1]| |] eqn:E1; cbn [bind] in H; try discriminate H end.
  pose proof (check_open_blocks_sil _ _ _ _ _ _ _ E1 P0) as P1.
  match type of H with bind ?e _ = _ => destruct e as [s2| |] eqn:E2; cbn [bind] in H; try discriminate H end.
  injection H as <-. apply SB_of_SIL with (line := norm_line line0). apply SIL_st_curline. apply SIL_st_last_line_length.
  destruct r as [[lmc am]|]; [|injection E2 as <-; exact P1].
  match type of E2 with bind ?e _ = _ => destruct e as [[cont s3]| |] eqn:E3; cbn [bind] in E2; try discriminate E2 end.
  assert (P3 : SIL o ls (S K) (norm_line line0) s3) by (eapply open_new_blocks_sil; eassumption).
  destruct (Nat.eqb (ps_current s1) (ps_current s3)); [|injection E2 as <-; exact P3].
  eapply add_text_to_container_sil; eassumption.
Qed.

Lemma process_lines_sb o ls : bo_description_lists o = false -> forall rest K st st',
  (forall k, nth_error rest k = nth_error ls (K + k)) ->
  process_lines o st rest = Ok st' -> SB o ls K st -> SB o ls (K + List.length rest) st'.
Proof.
  intros DL. induction rest as [|l r IH]; intros K st st' Hn H P; cbn [process_lines] in H.
  - injection H as <-. cbn. rewrite Nat.add_0_r. exact P.
  - destruct (process_line o st l) as [s1| |] eqn:E; cbn [bind] in H; try discriminate H.
    assert (P1 : SB o ls (S K) s1).
    { eapply process_line_sb; [exact DL | | exact E | exact P]. rewrite <- (Nat.add_0_r K), <- Hn. reflexivity. }
    cbn [List.length]. replace (K + S (List.length r)) with (S K + List.length r) by lia.
    eapply IH; [|exact H | exact P1]. intro k. replace (S K + k) with (K + S k) by lia. rewrite <- Hn. reflexivity.
Qed.

Lemma finalize_document_sb o ls K st st' : finalize_document o st = Ok st' -> SB o ls K st -> SB o ls K st'.
Proof.
  unfold finalize_document. intros H P. apply SIL_of_SB in P.
  destruct (finalize_up_to _ o st root_id _) as [s1| |] eqn:E1; cbn [bind] in H; try discriminate H.
  destruct (finalize o s1 root_id) as [[p s2]| |] eqn:E2; cbn [bind] in H; try discriminate H.
  injection H as <-. eapply SB_of_SIL. eapply finalize_sil; [exact E2|]. eapply finalize_up_to_sil; [exact E1 | exact P].
Qed.

Lemma SB_init o ls : SB o ls 0 init_state.
Proof. split; [reflexivity|]. cbn. split; [|exact I]. apply Sn_unclaimed. reflexivity. Qed.

(* every node of the model's own tree *)
Theorem parse_blocks_sn o x r :
  parse_blocks o x = Ok r -> bo_front_matter_delimiter o = None -> bo_description_lists o = false ->
  all_info (Sn o (lines x)) (br_root r).
Proof.
  unfold parse_blocks, front_matter_prologue. intros H Fm DL. rewrite Fm in H. cbn [bind] in H.
  change (feed_lines x) with (feed_lines x) in H. unfold lines.
  destruct (feed_lines x) as [lns total] eqn:Fl. cbn [fst].
  unfold run_lines in H.
  destruct (process_lines o init_state lns) as [s1| |] eqn:E1; cbn [bind] in H; try discriminate H.
  destruct (finalize_document o s1) as [s2| |] eqn:E2; cbn [bind] in H; try discriminate H.
  injection H as <-. cbn [br_root].
  pose proof (process_lines_sb o lns DL lns 0 init_state s1 (fun k => eq_refl) E1 (SB_init o lns)) as P1.
  exact (proj2 (finalize_document_sb _ _ _ _ _ E2 P1)).
Qed.
