(* Proofs/InlinesTotal3Emb.v — C01, inline phase, third wave: the STACK invariant (S), list part.

   The delimiter stack and the bracket stack of the parser state are read as ONE list of entries, bottom first,
   ordered by the input position each entry was pushed at (`epos`: d_pos / b_pos).  Invariant (S) says: this list
   EMBEDS, order-preserving, into the sibling list (first child first): every entry names (by id) a Text sibling,
     * a delimiter that is not a quote: the Text is k copies of d_char, 1 <= k <= d_len (k = what insert_emph left),
       and the end column of the Text is at least k (so the column subtractions of insert_emph cannot underflow);
     * a quote delimiter: the Text is one of the four curly quotes;
     * a bracket: the Text is `[` or `![`.
   Sibling ids are unique (counting function idc).  This file: entries, the embedding `emb`, its algebra (append,
   filter, inversion at the head, the SPLIT at a named item), sortedness by position, id counting.  No axioms. *)
From Coq Require Import List NArith ZArith Arith Bool Strings.String Lia Sorting.Sorted.
From V Require Import Base.Bytes Base.Res Model.Ast Model.Inlines Proofs.InlinesProofs Proofs.InertInlines
     Proofs.InlinesTotal2Pe.
Import ListNotations.
Local Open Scope list_scope.

(* ------------------------------------------------------------------ entries *)
Inductive entry := ED (d : delim) | EB (id p : nat) (img : bool).
Definition epos (e : entry) : nat := match e with ED d => d_pos d | EB _ p _ => p end.
Definition eid (e : entry) : nat := match e with ED d => d_id d | EB i _ _ => i end.

Fixpoint dels (es : list entry) : list delim :=
  match es with [] => [] | ED d :: r => d :: dels r | EB _ _ _ :: r => dels r end.
Fixpoint brs (es : list entry) : list (nat * nat * bool) :=
  match es with [] => [] | ED _ :: r => brs r | EB i p g :: r => (i, p, g) :: brs r end.
Definition bkey (b : bracket) : nat * nat * bool := (b_id b, b_pos b, b_image b).

Lemma dels_app a b : dels (a ++ b) = dels a ++ dels b.
Proof. induction a as [|[d|i p g] a IH]; cbn [app dels]; [reflexivity|rewrite IH; reflexivity|exact IH]. Qed.
Lemma brs_app a b : brs (a ++ b) = brs a ++ brs b.
Proof. induction a as [|[d|i p g] a IH]; cbn [app brs]; [reflexivity|exact IH|rewrite IH; reflexivity]. Qed.

Lemma dels_in d es : In d (dels es) -> In (ED d) es.
Proof.
  induction es as [|[d'|i p g] r IH]; cbn [dels]; [intros []| |].
  - intros [<-|H]; [left; reflexivity|right; apply IH, H].
  - intro H. right. apply IH, H.
Qed.

Lemma in_dels d es : In (ED d) es -> In d (dels es).
Proof.
  induction es as [|[d'|i p g] r IH]; cbn [dels]; [intros []| |].
  - intros [E|H]; [inversion E; left; reflexivity|right; apply IH, H].
  - intros [E|H]; [discriminate E|apply IH, H].
Qed.

Lemma map_ED_dels es : brs es = [] -> map ED (dels es) = es.
Proof.
  induction es as [|[d|i p g] r IH]; cbn [brs dels map]; [reflexivity| |discriminate].
  intro H. rewrite IH by exact H. reflexivity.
Qed.

Lemma dels_map_ED ds : dels (map ED ds) = ds.
Proof. induction ds as [|d r IH]; cbn [map dels]; [reflexivity|rewrite IH; reflexivity]. Qed.
Lemma brs_map_ED ds : brs (map ED ds) = [].
Proof. induction ds as [|d r IH]; cbn [map brs]; [reflexivity|exact IH]. Qed.

(* the last bracket entry: brs es = l ++ [k] splits es at it *)
Lemma brs_snoc_inv : forall es l k, brs es = l ++ [k] ->
  exists A B, es = A ++ EB (fst (fst k)) (snd (fst k)) (snd k) :: B /\ brs A = l /\ brs B = [].
Proof.
  induction es as [|e r IH]; intros l k H; [destruct l; discriminate H|].
  destruct e as [d|i p g]; cbn [brs] in H.
  - destruct (IH l k H) as (A & B & -> & HA & HB). exists (ED d :: A), B. cbn [app brs]. auto.
  - destruct l as [|x l]; cbn [app] in H.
    + inversion H as [[Hk Hr]]. exists [], r. cbn [app brs fst snd]. auto.
    + inversion H as [[Hx Hr]]. destruct (IH l k Hr) as (A & B & -> & HA & HB).
      exists (EB i p g :: A), B. cbn [app brs]. rewrite HA. auto.
Qed.

(* ------------------------------------------------------------------ what an entry says about its Text *)
Definition qtexts : list bytes := [utf8_lsquo; utf8_rsquo; utf8_ldquo; utf8_rdquo].

Definition dtext (d : delim) (t : bytes) : Prop :=
  if quote (d_char d) then In t qtexts
  else exists k, 1 <= k /\ k <= d_len d /\ t = repeat (d_char d) k.

Definition btext (img : bool) : bytes := if img then [x21; x5b] else [x5b].

Definition enode (e : entry) (it : item) : Prop :=
  fst it = eid e /\
  match e with
  | ED d => exists t, text_of (snd it) = Some t /\ dtext d t
                      /\ (quote (d_char d) = false -> (N.of_nat (List.length t) <= ec (nsp (snd it)))%N)
  | EB _ _ img => text_of (snd it) = Some (btext img)
  end.

Lemma repeat_not_quote ch k t : In t qtexts -> t = repeat ch k -> False.
Proof.
  intros Hin ->. destruct k as [|[|[|[|k]]]]; cbn [repeat] in Hin;
    repeat (destruct Hin as [Hin|Hin]; [inversion Hin; subst; discriminate|]); destruct Hin.
Qed.

(* ------------------------------------------------------------------ the embedding *)
Inductive emb : list entry -> list item -> Prop :=
| emb_nil l : emb [] l
| emb_take e es it l : enode e it -> emb es l -> emb (e :: es) (it :: l)
| emb_skip es it l : emb es l -> emb es (it :: l).

Lemma emb_app_l l' : forall es l, emb es l -> emb es (l' ++ l).
Proof. induction l' as [|x l' IH]; intros es l H; cbn [app]; [exact H|apply emb_skip, IH, H]. Qed.

Lemma emb_app : forall a x b y, emb a x -> emb b y -> emb (a ++ b) (x ++ y).
Proof.
  intros a x b y H. induction H as [l|e es it l He H IH|es it l H IH]; intro Hb; cbn [app].
  - apply emb_app_l. exact Hb.
  - apply emb_take; [exact He|apply IH, Hb].
  - apply emb_skip. apply IH, Hb.
Qed.

Lemma emb_app_r es l l' : emb es l -> emb es (l ++ l').
Proof. intro H. rewrite <- (app_nil_r es). apply emb_app; [exact H|apply emb_nil]. Qed.

Lemma emb_one e it : enode e it -> emb [e] [it].
Proof. intro H. apply emb_take; [exact H|apply emb_nil]. Qed.

Lemma emb_cons_inv e es : forall l, emb (e :: es) l ->
  exists l1 it l2, l = l1 ++ it :: l2 /\ enode e it /\ emb es l2.
Proof.
  induction l as [|x l IH]; intro H; inversion H; subst.
  - exists [], x, l. cbn [app]. auto.
  - destruct (IH H2) as (l1 & it & l2 & -> & A & B). exists (x :: l1), it, l2. cbn [app]. auto.
Qed.

Lemma emb_tail e es l : emb (e :: es) l -> emb es l.
Proof. intro H. apply emb_cons_inv in H. destruct H as (l1 & it & l2 & -> & _ & B). apply emb_app_l, emb_skip, B. Qed.

Lemma emb_app_inv : forall a b l, emb (a ++ b) l -> exists l1 l2, l = l1 ++ l2 /\ emb a l1 /\ emb b l2.
Proof.
  induction a as [|e a IH]; intros b l H; cbn [app] in H.
  - exists [], l. cbn [app]. split; [reflexivity|]. split; [apply emb_nil|exact H].
  - apply emb_cons_inv in H. destruct H as (l1 & it & l2 & -> & He & H).
    destruct (IH b l2 H) as (m1 & m2 & -> & Ha & Hb).
    exists (l1 ++ it :: m1), m2. rewrite <- app_assoc. cbn [app]. split; [reflexivity|]. split; [|exact Hb].
    apply emb_app_l. apply emb_take; assumption.
Qed.

Lemma emb_filter f : forall es l, emb es l -> emb (filter f es) l.
Proof.
  induction es as [|e es IH]; intros l H; cbn [filter]; [apply emb_nil|].
  destruct (f e).
  - apply emb_cons_inv in H. destruct H as (l1 & it & l2 & -> & He & H).
    apply emb_app_l. apply emb_take; [exact He|apply IH, H].
  - apply IH. eapply emb_tail. exact H.
Qed.

Lemma emb_drop a e b l : emb (a ++ e :: b) l -> emb (a ++ b) l.
Proof.
  intro H. apply emb_app_inv in H. destruct H as (l1 & l2 & -> & Ha & Hb).
  apply emb_app; [exact Ha|eapply emb_tail; exact Hb].
Qed.

Lemma emb_ids : forall es l, emb es l -> forall e, In e es -> In (eid e) (map fst l).
Proof.
  intros es l H. induction H as [l|e0 es it l He H IH|es it l H IH]; intros e Hin.
  - destruct Hin.
  - cbn [map]. destruct Hin as [<-|Hin]; [left; apply He|right; apply IH, Hin].
  - cbn [map]. right. apply IH, Hin.
Qed.

(* the last item: either unused, or the image of the last entry *)
Lemma emb_snoc_inv : forall l es it, emb es (l ++ [it]) ->
  emb es l \/ exists es0 e, es = es0 ++ [e] /\ enode e it /\ emb es0 l.
Proof.
  induction l as [|x l IH]; intros es it H; cbn [app] in H.
  - inversion H as [l0|e1 es1 it1 l1 He1 H1|es1 it1 l1 H1]; subst.
    + left. apply emb_nil.
    + right. inversion H1; subst. exists [], e1. cbn [app]. split; [reflexivity|]. split; [assumption|apply emb_nil].
    + left. inversion H1; subst. apply emb_nil.
  - inversion H as [l0|e1 es1 it1 l1 He1 H1|es1 it1 l1 H1]; subst.
    + left. apply emb_nil.
    + destruct (IH _ _ H1) as [A|(es2 & e' & -> & A & B)].
      * left. apply emb_take; assumption.
      * right. exists (e1 :: es2), e'. cbn [app]. split; [reflexivity|]. split; [exact A|apply emb_take; assumption].
    + destruct (IH _ _ H1) as [A|(es2 & e' & -> & A & B)].
      * left. apply emb_skip. exact A.
      * right. exists es2, e'. split; [reflexivity|]. split; [exact A|apply emb_skip; exact B].
Qed.

(* ------------------------------------------------------------------ id counting *)
Fixpoint idc (l : list item) (j : nat) : nat :=
  match l with [] => 0 | it :: r => (if Nat.eqb (fst it) j then 1 else 0) + idc r j end.

Definition uniq (l : list item) : Prop := forall j, idc l j <= 1.
Definition fresh (l : list item) (n : nat) : Prop := forall k, n <= k -> idc l k = 0.

Lemma idc_app a b j : idc (a ++ b) j = idc a j + idc b j.
Proof. induction a as [|x a IH]; cbn [app idc]; [reflexivity|]. rewrite IH. lia. Qed.
Lemma idc_rev l j : idc (rev l) j = idc l j.
Proof. induction l as [|x l IH]; cbn [rev idc]; [reflexivity|]. rewrite idc_app, IH. cbn [idc]. lia. Qed.
Lemma idc_filter f l j : idc (filter f l) j <= idc l j.
Proof. induction l as [|x l IH]; cbn [filter idc]; [lia|]. destruct (f x); cbn [idc]; lia. Qed.
Lemma idc_in l it : In it l -> 1 <= idc l (fst it).
Proof.
  induction l as [|x l IH]; [intros []|]. intros [<-|H]; cbn [idc]; [rewrite Nat.eqb_refl; lia|].
  specialize (IH H). lia.
Qed.
Lemma idc_in_id l j : In j (map fst l) -> 1 <= idc l j.
Proof. intro H. apply in_map_iff in H. destruct H as [it [<- H]]. apply idc_in, H. Qed.
Lemma idc_zero l j : idc l j = 0 -> ~ In j (map fst l).
Proof. intros H K. apply idc_in_id in K. lia. Qed.
Lemma fresh_of_lt l n : (forall it, In it l -> fst it < n) -> fresh l n.
Proof.
  intros H k Hk. induction l as [|x l IH]; cbn [idc]; [reflexivity|].
  rewrite IH by (intros; apply H; right; assumption).
  assert (Nat.eqb (fst x) k = false) as -> by (apply Nat.eqb_neq; specialize (H x (or_introl eq_refl)); lia).
  reflexivity.
Qed.

Lemma split_at_id_some id : forall l, In id (map fst l) -> split_at_id id l <> None.
Proof.
  induction l as [|x l IH]; cbn [map split_at_id]; [intros []|]. intro H.
  destruct (Nat.eqb (fst x) id) eqn:E; [discriminate|].
  destruct H as [H|H]; [apply Nat.eqb_neq in E; congruence|].
  specialize (IH H). destruct (split_at_id id l) as [[[a y] b]|]; [discriminate|congruence].
Qed.

(* with unique ids a split at an id is THE split *)
Lemma uniq_split : forall x x' (it it' : item) y y',
  uniq (x ++ it :: y) -> x ++ it :: y = x' ++ it' :: y' -> fst it = fst it' -> x = x' /\ it = it' /\ y = y'.
Proof.
  induction x as [|a x IH]; intros x' it it' y y' U E Hid.
  - destruct x' as [|a' x']; cbn [app] in E.
    + inversion E. auto.
    + exfalso. inversion E; subst. specialize (U (fst a')). cbn [app idc] in U.
      rewrite Nat.eqb_refl in U. rewrite idc_app in U. cbn [idc] in U. rewrite <- Hid, Nat.eqb_refl in U. lia.
  - destruct x' as [|a' x']; cbn [app] in E.
    + exfalso. inversion E; subst. specialize (U (fst it')). cbn [app idc] in U.
      rewrite Nat.eqb_refl in U. rewrite idc_app in U. cbn [idc] in U. rewrite Hid, Nat.eqb_refl in U. lia.
    + inversion E; subst. destruct (IH x' it it' y y') as (A & B & C); [|assumption|assumption|subst; auto].
      intro j. specialize (U j). cbn [app idc] in U. lia.
Qed.

(* THE SPLIT: the entries before / after an entry lie before / after the item it names *)
Lemma emb_split a e b x it y :
  uniq (x ++ it :: y) -> fst it = eid e -> emb (a ++ e :: b) (x ++ it :: y) ->
  emb a x /\ enode e it /\ emb b y.
Proof.
  intros U Hid H. apply emb_app_inv in H. destruct H as (l1 & l2 & E & Ha & Hb).
  apply emb_cons_inv in Hb. destruct Hb as (m1 & it' & m2 & -> & He & Hb).
  rewrite app_assoc in E.
  destruct (uniq_split x (l1 ++ m1) it it' y m2 U E) as (-> & -> & ->).
  { rewrite Hid. symmetry. apply He. }
  split; [apply emb_app_r; exact Ha|]. split; assumption.
Qed.

(* an item is replaced by one that keeps what the entries say about it *)
Lemma emb_replace it it' : forall es a b,
  (forall e, In e es -> enode e it -> enode e it') -> emb es (a ++ it :: b) -> emb es (a ++ it' :: b).
Proof.
  intros es a. revert es. induction a as [|x a IH]; intros es b Hn H; cbn [app] in *.
  - inversion H; subst.
    + apply emb_nil.
    + apply emb_take; [apply Hn; [left; reflexivity|assumption]|assumption].
    + apply emb_skip. assumption.
  - inversion H; subst.
    + apply emb_nil.
    + apply emb_take; [assumption|]. apply IH; [|assumption]. intros e0 Hin. apply Hn. right. exact Hin.
    + apply emb_skip. apply IH; assumption.
Qed.

(* ------------------------------------------------------------------ order by position *)
Definition elt (a b : entry) : Prop := epos a < epos b.
Definition sorted (es : list entry) : Prop := StronglySorted elt es.

Lemma sorted_app_inv : forall a b, sorted (a ++ b) ->
  sorted a /\ sorted b /\ (forall x y, In x a -> In y b -> elt x y).
Proof.
  induction a as [|e a IH]; intros b H; cbn [app] in H.
  - split; [constructor|]. split; [exact H|]. intros x y [].
  - inversion H as [|? ? Hs Hf]; subst. destruct (IH b Hs) as (A & B & C).
    rewrite Forall_forall in Hf. split; [|split; [exact B|]].
    + constructor; [exact A|]. apply Forall_forall. intros x Hx. apply Hf. apply in_or_app. left. exact Hx.
    + intros x y [<-|Hx] Hy; [apply Hf; apply in_or_app; right; exact Hy|apply C; assumption].
Qed.

Lemma sorted_app : forall a b, sorted a -> sorted b -> (forall x y, In x a -> In y b -> elt x y) -> sorted (a ++ b).
Proof.
  induction a as [|e a IH]; intros b Ha Hb Hab; cbn [app]; [exact Hb|].
  inversion Ha as [|? ? Hs Hf]; subst. constructor.
  - apply IH; [exact Hs|exact Hb|]. intros x y Hx Hy. apply Hab; [right; exact Hx|exact Hy].
  - rewrite Forall_forall in *. intros x Hx. apply in_app_or in Hx. destruct Hx as [Hx|Hx]; [apply Hf, Hx|].
    apply Hab; [left; reflexivity|exact Hx].
Qed.

Lemma sorted_snoc es e : sorted es -> (forall x, In x es -> elt x e) -> sorted (es ++ [e]).
Proof.
  intros H Hx. apply sorted_app; [exact H|constructor; constructor|].
  intros x y Hin [<-|[]]. apply Hx, Hin.
Qed.

Lemma sorted_drop a e b : sorted (a ++ e :: b) -> sorted (a ++ b).
Proof.
  intro H. apply sorted_app_inv in H. destruct H as (A & B & C). inversion B; subst.
  apply sorted_app; [exact A|assumption|]. intros x y Hx Hy. apply C; [exact Hx|right; exact Hy].
Qed.

Lemma filter_all {A} (f : A -> bool) l : (forall x, In x l -> f x = true) -> filter f l = l.
Proof.
  induction l as [|x l IH]; intro H; cbn [filter]; [reflexivity|].
  rewrite (H x (or_introl eq_refl)), IH; [reflexivity|]. intros; apply H; right; assumption.
Qed.
Lemma filter_none {A} (f : A -> bool) l : (forall x, In x l -> f x = false) -> filter f l = [].
Proof.
  induction l as [|x l IH]; intro H; cbn [filter]; [reflexivity|].
  rewrite (H x (or_introl eq_refl)). apply IH. intros; apply H; right; assumption.
Qed.

(* the stack cut at a bracket position *)
Lemma dels_cut A B i p g :
  sorted (A ++ EB i p g :: B) ->
  delims_below (dels (A ++ EB i p g :: B)) p = dels A /\ delims_from (dels (A ++ EB i p g :: B)) p = dels B.
Proof.
  intro H. apply sorted_app_inv in H. destruct H as (_ & HB & HAB).
  inversion HB as [|? ? _ HfB]; subst. rewrite Forall_forall in HfB.
  unfold delims_below, delims_from. rewrite dels_app. cbn [dels]. rewrite !filter_app. split.
  - rewrite filter_all, filter_none; [apply app_nil_r| |].
    + intros d Hd. apply dels_in in Hd. specialize (HfB _ Hd). unfold elt in HfB. cbn [epos] in HfB.
      apply Nat.ltb_ge. lia.
    + intros d Hd. apply dels_in in Hd. specialize (HAB (ED d) (EB i p g) Hd (or_introl eq_refl)).
      unfold elt in HAB. cbn [epos] in HAB. apply Nat.ltb_lt. exact HAB.
  - rewrite filter_none, filter_all; [reflexivity| |].
    + intros d Hd. apply dels_in in Hd. specialize (HfB _ Hd). unfold elt in HfB. cbn [epos] in HfB.
      apply Nat.leb_le. lia.
    + intros d Hd. apply dels_in in Hd. specialize (HAB (ED d) (EB i p g) Hd (or_introl eq_refl)).
      unfold elt in HAB. cbn [epos] in HAB. apply Nat.leb_gt. exact HAB.
Qed.
