(* Proofs/InlinesTotal2Pe.v — the closer loop of process_emphasis (pe_loop) never exhausts its fuel.

   Measure.  tlsum items id = bytes of text in the items that carry the id; dw items d = that number for the
   delimiter d, 0 for a quote delimiter (quotes never reach insert_emph).  For the zipper (below, closer :: above):
       M = sum dw below + sum dw (closer :: above) + 2 * |closer :: above|.
   Every iteration lowers M by at least 2: either the closer moves up the stack (the list shrinks), or insert_emph
   removes at least one byte from the opener's text and one from the closer's (and never adds text under any id:
   the new node is not a Text, the nodes in between leave the list).  The quote branch rewrites the texts of two
   QUOTE delimiters; it cannot touch the text counted for another delimiter as long as equal ids imply equal
   delimiter bytes on the stack (idinj: the ids on the stack are distinct in the parser state).
   The branch `neither arm moves the closer` (OutOfFuel in the model: the Rust loop would spin) needs a closer that
   is neither an emphasis byte under the options nor a quote: excluded by dchar_ok.
   No axioms. *)
From Coq Require Import List NArith ZArith Arith Bool Strings.String Lia.
From V Require Import Base.Bytes Base.Res Gen.StrLeafGen Model.Strings Model.Spx Model.Ast Model.Inlines
     Proofs.InlinesProofs Proofs.InertInlines Proofs.InlinesTotal.
Import ListNotations.
Local Open Scope list_scope.

(* ------------------------------------------------------------------ definitions *)
Definition tlen (it : item) : nat := match text_of (snd it) with Some t => List.length t | None => 0 end.

Fixpoint tlsum (items : list item) (id : nat) : nat :=
  match items with
  | [] => 0
  | it :: r => (if Nat.eqb (fst it) id then tlen it else 0) + tlsum r id
  end.

Definition quote (ch : byte) : bool := beqb ch x27 || beqb ch x22.

Definition dw (items : list item) (d : delim) : nat := if quote (d_char d) then 0 else tlsum items (d_id d).

Fixpoint sumf (items : list item) (l : list delim) : nat :=
  match l with [] => 0 | d :: r => dw items d + sumf items r end.

(* equal ids on the stack belong to delimiters of the same byte *)
Definition idinj (L : list delim) : Prop :=
  forall d1 d2, In d1 L -> In d2 L -> d_id d1 = d_id d2 -> d_char d1 = d_char d2.

(* the byte of a stacked delimiter is an emphasis byte under the options, or a quote *)
Definition dchar_ok (o : iopts) (ch : byte) : bool := is_emph_char o ch || quote ch.

(* ------------------------------------------------------------------ tlsum / sumf *)
Lemma tlsum_app a b j : tlsum (a ++ b) j = tlsum a j + tlsum b j.
Proof. induction a as [|x a IH]; cbn [app tlsum]; [reflexivity|]. rewrite IH. lia. Qed.

Lemma tlsum_rev l j : tlsum (rev l) j = tlsum l j.
Proof. induction l as [|x l IH]; cbn [rev tlsum]; [reflexivity|]. rewrite tlsum_app, IH. cbn [tlsum]. lia. Qed.

Lemma tlsum_filter f l j : tlsum (filter f l) j <= tlsum l j.
Proof. induction l as [|x l IH]; cbn [filter tlsum]; [lia|]. destruct (f x); cbn [tlsum]; lia. Qed.

Lemma sumf_app items a b : sumf items (a ++ b) = sumf items a + sumf items b.
Proof. induction a as [|x a IH]; cbn [app sumf]; [reflexivity|]. rewrite IH. lia. Qed.

Lemma dw_le items items' d : (forall j, tlsum items' j <= tlsum items j) -> dw items' d <= dw items d.
Proof. intro H. unfold dw. destruct (quote (d_char d)); [lia|apply H]. Qed.

Lemma sumf_le items items' l : (forall j, tlsum items' j <= tlsum items j) -> sumf items' l <= sumf items l.
Proof. intro H. induction l as [|d l IH]; cbn [sumf]; [lia|]. pose proof (dw_le items items' d H). lia. Qed.

Lemma sumf_eq items items' l :
  (forall d, In d l -> quote (d_char d) = false -> tlsum items' (d_id d) = tlsum items (d_id d)) ->
  sumf items' l = sumf items l.
Proof.
  induction l as [|d l IH]; intro H; cbn [sumf]; [reflexivity|].
  rewrite IH by (intros; apply H; [right|]; assumption).
  unfold dw. destruct (quote (d_char d)) eqn:E; [reflexivity|]. rewrite (H d (or_introl eq_refl) E). reflexivity.
Qed.

Lemma idinj_incl L L' : incl L' L -> idinj L -> idinj L'.
Proof. intros Hi H d1 d2 H1 H2. apply H; apply Hi; assumption. Qed.

(* ------------------------------------------------------------------ the bytes *)
Lemma emph_not_quote o ch : is_emph_char o ch = true -> quote ch = false.
Proof.
  unfold is_emph_char, quote. intro H.
  destruct (beqb ch x27) eqn:E1; [apply beqb_eq in E1; subst ch; destruct o as [? [] [] [] ? []]; cbn in H; discriminate H|].
  destruct (beqb ch x22) eqn:E2; [apply beqb_eq in E2; subst ch; destruct o as [? [] [] [] ? []]; cbn in H; discriminate H|].
  reflexivity.
Qed.

Lemma ob_index_ok o c : dchar_ok o (d_char c) = true -> exists ix, ob_index c = Ok ix.
Proof.
  unfold dchar_ok, is_emph_char, quote, ob_index. intro H.
  destruct (beqb (d_char c) x7c); [eauto|]. destruct (beqb (d_char c) x7e); [eauto|].
  destruct (beqb (d_char c) x5e); [eauto|]. destruct (beqb (d_char c) x22); [eauto|].
  destruct (beqb (d_char c) x27); [eauto|]. destruct (beqb (d_char c) x5f); [eauto|].
  destruct (beqb (d_char c) x2a); [eauto|].
  rewrite !andb_false_r in H. discriminate H.
Qed.

(* ------------------------------------------------------------------ insert_emph *)
Lemma mk_nofuel s v a b : mk s v a b <> OutOfFuel.
Proof.
  unfold mk, make_inline_cols, to_usize.
  repeat match goal with |- context [if ?b then _ else _] => destruct b; cbn [bind] end; discriminate.
Qed.

Lemma insert_emph_nofuel o s n0 items op cl : insert_emph o s n0 items op cl <> OutOfFuel.
Proof.
  unfold insert_emph.
  destruct (split_at_id (d_id op) items) as [[[pre opi] rest1]|]; [|discriminate].
  destruct (split_at_id (d_id cl) rest1) as [[[mid cli] post]|]; [|discriminate].
  destruct (text_of (snd opi)) as [ot|]; [|discriminate].
  destruct (text_of (snd cli)) as [ct|]; [|discriminate].
  destruct ot as [|oc ot']; [discriminate|].
  cbv zeta. unfold usub, nsub.
  repeat match goal with
         | |- context [mk ?s ?v ?a ?b] => let E := fresh "E" in destruct (mk s v a b) eqn:E; cbn [bind]; [| |exfalso; eapply mk_nofuel; exact E]
         | |- Ok _ <> _ => discriminate
         | |- Panic _ <> _ => discriminate
         | |- context [if ?b then _ else _] => destruct b; cbn [bind]
         end.
Qed.

Lemma tlen_set id n t sp : tlen (id, set_sp (set_text n t) sp) = List.length t.
Proof. unfold tlen. cbn [snd]. rewrite text_of_set. reflexivity. Qed.

Lemma insert_emph_tl o s n0 items op cl items' ko kc n1 :
  insert_emph o s n0 items op cl = Ok (Some (items', ko, kc, n1)) ->
  forall j, tlsum items' j + (if Nat.eqb (d_id op) j then 1 else 0) + (if Nat.eqb (d_id cl) j then 1 else 0)
            <= tlsum items j.
Proof.
  unfold insert_emph. intros H j.
  destruct (split_at_id (d_id op) items) as [[[pre opi] rest1]|] eqn:Es1; [|discriminate].
  destruct (split_at_id (d_id cl) rest1) as [[[mid cli] post]|] eqn:Es2; [|discriminate].
  apply split_at_id_eq in Es1. destruct Es1 as [-> Hop]. apply split_at_id_eq in Es2. destruct Es2 as [-> Hcl].
  destruct (text_of (snd opi)) as [ot|] eqn:Eot; [|discriminate].
  destruct (text_of (snd cli)) as [ct|] eqn:Ect; [|discriminate].
  destruct ot as [|oc ot']; [discriminate|].
  cbv zeta in H.
  remember (if Nat.leb 2 (List.length ct) && Nat.leb 2 (List.length (oc :: ot')) then 2 else 1) as ud eqn:Hud.
  assert (1 <= ud) as Hud1 by (subst ud; destruct (_ && _); lia).
  unfold usub in H.
  destruct (Nat.ltb (List.length (oc :: ot')) ud) eqn:E1; cbn [bind] in H; [discriminate|].
  destruct (Nat.ltb (List.length ct) ud) eqn:E2; cbn [bind] in H; [discriminate|].
  apply Nat.ltb_ge in E1. apply Nat.ltb_ge in E2.
  match type of H with (if ?b then _ else _) = _ => destruct b; [discriminate|] end.
  match type of H with bind ?r _ = _ => destruct r as [tmp| |] eqn:Etmp; cbn [bind] in H; try discriminate H end.
  apply mk_nval in Etmp.
  match type of H with bind ?r _ = _ => destruct r as [eec| |]; cbn [bind] in H; try discriminate H end.
  match type of H with bind ?r _ = _ => destruct r as [opl| |] eqn:Eopl; cbn [bind] in H; try discriminate H end.
  match type of H with context [?a ++ post] => remember a as cll eqn:Ecll end.
  inversion H; subst items' ko kc n1. clear H.
  assert (tlen opi = List.length (oc :: ot')) as Ho by (unfold tlen; rewrite Eot; reflexivity).
  assert (tlen cli = List.length ct) as Hc by (unfold tlen; rewrite Ect; reflexivity).
  remember (List.length (oc :: ot')) as on eqn:Hon. remember (List.length ct) as cn eqn:Hcn.
  (* the opener's remainder *)
  assert (tlsum opl j + (if Nat.eqb (d_id op) j then 1 else 0) <= (if Nat.eqb (fst opi) j then tlen opi else 0)) as A.
  { rewrite Hop. destruct (Nat.eqb (on - ud) 0) eqn:E0.
    - injection Eopl as <-. cbn [tlsum]. destruct (Nat.eqb (d_id op) j); lia.
    - apply Nat.eqb_neq in E0.
      match type of Eopl with bind ?r _ = _ => destruct r as [c0| |]; cbn [bind] in Eopl; try discriminate Eopl end.
      injection Eopl as <-. cbn [tlsum fst]. rewrite Hop, tlen_set, firstn_length, <- Hon.
      destruct (Nat.eqb (d_id op) j); lia. }
  (* the closer's remainder *)
  assert (tlsum cll j + (if Nat.eqb (d_id cl) j then 1 else 0) <= (if Nat.eqb (fst cli) j then tlen cli else 0)) as B.
  { subst cll. rewrite Hcl. destruct (Nat.eqb (cn - ud) 0) eqn:E0.
    - cbn [tlsum]. destruct (Nat.eqb (d_id cl) j); lia.
    - apply Nat.eqb_neq in E0. cbn [tlsum fst]. rewrite tlen_set, firstn_length, <- Hcn.
      destruct (Nat.eqb (d_id cl) j); lia. }
  clear Ecll Eopl.
  (* the new node is not a Text *)
  assert (forall sp ch, tlen (n0, Node (nval tmp) sp ch) = 0) as E.
  { intros sp ch. unfold tlen. cbn [snd]. rewrite Etmp, emph_value_not_text. reflexivity. }
  rewrite !tlsum_app. cbn [tlsum fst]. rewrite !tlsum_app. cbn [tlsum fst]. rewrite E.
  destruct (Nat.eqb n0 j); lia.
Qed.

(* ------------------------------------------------------------------ replace_item_text *)
Lemma replace_item_text_nofuel site id t items : replace_item_text site id t items <> OutOfFuel.
Proof.
  unfold replace_item_text. destruct (split_at_id id items) as [[[a it] b]|]; [|discriminate].
  destruct (text_of (snd it)); discriminate.
Qed.

Lemma replace_item_text_tl site id t items items' :
  replace_item_text site id t items = Ok items' -> forall j, j <> id -> tlsum items' j = tlsum items j.
Proof.
  unfold replace_item_text. intros H j Hj.
  destruct (split_at_id id items) as [[[a it] b]|] eqn:Es; [|discriminate].
  apply split_at_id_eq in Es. destruct Es as [-> Hid].
  destruct (text_of (snd it)); [|discriminate]. inversion H; subst items'.
  rewrite !tlsum_app. cbn [tlsum fst app]. rewrite Hid.
  assert (Nat.eqb id j = false) as -> by (apply Nat.eqb_neq; congruence). reflexivity.
Qed.

(* ------------------------------------------------------------------ the measure *)
Lemma hd_tl_next {A} (above : list A) :
  (match above with [] => None | a :: _ => Some a end) = hd_error above
  /\ (match above with [] => [] | _ :: r => r end) = tl above.
Proof. destruct above; split; reflexivity. Qed.

Lemma pe_fuel o : forall fuel s n0 items ob below cs,
  idinj (below ++ cs) ->
  Forall (fun d => dchar_ok o (d_char d) = true) cs ->
  sumf items below + sumf items cs + 2 * List.length cs < 2 * fuel ->
  pe_loop o fuel s n0 items ob below (hd_error cs) (tl cs) <> OutOfFuel.
Proof.
  induction fuel as [|f IH]; intros s n0 items ob below cs Hinj Hok Hm; [lia|].
  cbn [pe_loop]. destruct cs as [|c above]; cbn [hd_error tl]; [discriminate|].
  destruct (hd_tl_next above) as [-> ->].
  inversion Hok as [|? ? Hc Hab]; subst. cbn [sumf List.length] in Hm.
  destruct (d_close c) eqn:Ecl.
  2:{ (* not a closer: moves up *)
      apply IH.
      - eapply idinj_incl; [|exact Hinj]. intros d Hd. apply in_app_or in Hd. apply in_or_app.
        destruct Hd as [[<-|Hd]|Hd]; [right; left; reflexivity|left; exact Hd|right; right; exact Hd].
      - exact Hab.
      - cbn [sumf]. lia. }
  destruct (ob_index_ok o c Hc) as [ix ->]. cbn [bind].
  destruct (find_opener c (nth ix ob 0) below [] false) as [found mod3] eqn:Ef.
  assert (forall ob' below', incl below' (c :: below) -> sumf items below' <= sumf items (c :: below) ->
            pe_loop o f s n0 items ob' below' (hd_error above) (tl above) <> OutOfFuel) as Hmove.
  { intros ob' below' Hi Hs. apply IH.
    - eapply idinj_incl; [|exact Hinj]. intros d Hd. apply in_app_or in Hd. apply in_or_app.
      destruct Hd as [Hd|Hd]; [|right; right; exact Hd].
      destruct (Hi d Hd) as [<-|Hd']; [right; left; reflexivity|left; exact Hd'].
    - exact Hab.
    - cbn [sumf] in Hs. lia. }
  destruct (is_emph_char o (d_char c)) eqn:Eem.
  - (* an emphasis closer *)
    pose proof (emph_not_quote o _ Eem) as Hqc.
    destruct found as [[[between op] rest]|].
    2:{ apply Hmove.
        - destruct (d_open c); [apply incl_refl|apply incl_tl, incl_refl].
        - destruct (d_open c); cbn [sumf]; lia. }
    pose proof (find_opener_inside _ _ _ _ _ _ _ _ _ Ef) as Hsplit. cbn [rev app] in Hsplit.
    pose proof (find_opener_props _ _ _ _ _ _ _ _ _ Ef) as (_ & Hch & _). apply beqb_eq in Hch.
    assert (quote (d_char op) = false) as Hqo by (rewrite Hch; exact Hqc).
    destruct (insert_emph o s n0 items op c) as [[[[[items' ko] kc] n1]|]| |] eqn:Ei; cbn [bind];
      [| discriminate | discriminate | exfalso; eapply insert_emph_nofuel; exact Ei].
    pose proof (insert_emph_tl _ _ _ _ _ _ _ _ _ _ Ei) as Htl.
    assert (forall j, tlsum items' j <= tlsum items j) as Hle by (intro j; specialize (Htl j); lia).
    assert (dw items' op + 1 <= dw items op) as Hdop.
    { unfold dw. rewrite Hqo. specialize (Htl (d_id op)). rewrite Nat.eqb_refl in Htl. lia. }
    assert (dw items' c + 1 <= dw items c) as Hdc.
    { unfold dw. rewrite Hqc. specialize (Htl (d_id c)). rewrite Nat.eqb_refl in Htl. lia. }
    assert (sumf items below = sumf items between + (dw items op + sumf items rest)) as Hsb.
    { rewrite Hsplit, sumf_app. reflexivity. }
    pose proof (sumf_le items items' rest Hle) as Hr.
    pose proof (sumf_le items items' above Hle) as Ha.
    assert (incl (if ko then op :: rest else rest) below) as Hib.
    { rewrite Hsplit. intros d Hd. apply in_or_app. right. destruct ko; [exact Hd|right; exact Hd]. }
    assert (sumf items' (if ko then op :: rest else rest) + 1 <= sumf items below) as Hb'.
    { destruct ko; cbn [sumf]; lia. }
    destruct kc.
    + (* the closer stays *)
      apply (IH s n1 items' ob (if ko then op :: rest else rest) (c :: above)).
      * eapply idinj_incl; [|exact Hinj]. intros d Hd. apply in_app_or in Hd. apply in_or_app.
        destruct Hd as [Hd|Hd]; [left; apply Hib; exact Hd|right; exact Hd].
      * exact Hok.
      * cbn [sumf List.length]. lia.
    + apply IH.
      * eapply idinj_incl; [|exact Hinj]. intros d Hd. apply in_app_or in Hd. apply in_or_app.
        destruct Hd as [Hd|Hd]; [left; apply Hib; exact Hd|right; right; exact Hd].
      * exact Hab.
      * lia.
  - (* a quote closer *)
    unfold dchar_ok in Hc. rewrite Eem in Hc. cbn [orb] in Hc.
    assert (beqb (d_char c) x27 || beqb (d_char c) x22 = true) as -> by exact Hc.
    match goal with |- bind ?r _ <> _ => destruct r as [items1| |] eqn:Er1; cbn [bind];
      [| discriminate | exfalso; eapply replace_item_text_nofuel; exact Er1] end.
    assert (forall l, incl l (below ++ above) -> sumf items1 l = sumf items l) as Hs1.
    { intros l Hl. apply sumf_eq. intros d Hd Hq. eapply replace_item_text_tl; [exact Er1|].
      intro Heq. assert (d_char d = d_char c) as Hcc.
      { apply Hinj; [|apply in_or_app; right; left; reflexivity|exact Heq].
        specialize (Hl d Hd). apply in_app_or in Hl. apply in_or_app. destruct Hl; [left|right; right]; assumption. }
      rewrite Hcc, Hc in Hq. discriminate Hq. }
    destruct found as [[[between op] rest]|].
    2:{ apply IH.
        - eapply idinj_incl; [|exact Hinj]. intros d Hd. apply in_app_or in Hd. apply in_or_app.
          destruct Hd as [Hd|Hd]; [|right; right; exact Hd].
          destruct (d_open c); [destruct Hd as [<-|Hd]; [right; left; reflexivity|left; exact Hd]|left; exact Hd].
        - exact Hab.
        - assert (dw items1 c = 0) as Hz by (unfold dw; rewrite Hc; reflexivity).
          rewrite (Hs1 above) by (apply incl_appr, incl_refl).
          destruct (d_open c); cbn [sumf]; rewrite (Hs1 below) by (apply incl_appl, incl_refl); lia. }
    pose proof (find_opener_inside _ _ _ _ _ _ _ _ _ Ef) as Hsplit. cbn [rev app] in Hsplit.
    pose proof (find_opener_props _ _ _ _ _ _ _ _ _ Ef) as (_ & Hch & _). apply beqb_eq in Hch.
    match goal with |- bind ?r _ <> _ => destruct r as [items2| |] eqn:Er2; cbn [bind];
      [| discriminate | exfalso; eapply replace_item_text_nofuel; exact Er2] end.
    assert (incl (between ++ rest) below) as Hib.
    { rewrite Hsplit. intros d Hd. apply in_app_or in Hd. apply in_or_app.
      destruct Hd; [left|right; right]; assumption. }
    assert (forall l, incl l (below ++ above) -> sumf items2 l = sumf items1 l) as Hs2.
    { intros l Hl. apply sumf_eq. intros d Hd Hq. eapply replace_item_text_tl; [exact Er2|].
      intro Heq. assert (d_char d = d_char op) as Hcc.
      { apply Hinj; [| |exact Heq].
        - specialize (Hl d Hd). apply in_app_or in Hl. apply in_or_app. destruct Hl; [left|right; right]; assumption.
        - apply in_or_app. left. rewrite Hsplit. apply in_or_app. right. left. reflexivity. }
      rewrite Hcc, Hch, Hc in Hq. discriminate Hq. }
    apply IH.
    + eapply idinj_incl; [|exact Hinj]. intros d Hd. apply in_app_or in Hd. apply in_or_app.
      destruct Hd as [Hd|Hd]; [left; apply Hib; exact Hd|right; right; exact Hd].
    + exact Hab.
    + rewrite (Hs2 above), (Hs1 above) by (apply incl_appr, incl_refl).
      rewrite (Hs2 (between ++ rest)), (Hs1 (between ++ rest)) by (apply incl_appl; exact Hib).
      assert (sumf items (between ++ rest) <= sumf items below) as Hx.
      { rewrite Hsplit, !sumf_app. cbn [sumf]. lia. }
      lia.
Qed.

(* process_emphasis: 2 |input| + 2 |stack| + 2 iterations are enough when the texts of the stacked delimiters
   hold at most 4 |input| bytes (they hold at most |input|: InlinesTotal2Inv.v) *)
Theorem process_emphasis_fuel o inp s n0 items ds bottom :
  idinj ds -> Forall (fun d => dchar_ok o (d_char d) = true) ds ->
  sumf items ds <= 4 * List.length inp ->
  process_emphasis o inp s n0 items ds bottom <> OutOfFuel.
Proof.
  intros Hi Hok Hs. unfold process_emphasis. destruct ds as [|c above] eqn:Eds; [discriminate|].
  apply (pe_fuel o _ s n0 items _ [] (c :: above)).
  - exact Hi.
  - exact Hok.
  - cbn [sumf] in *. unfold len. cbn [List.length] in *. lia.
Qed.

(* ------------------------------------------------------------------ the site process_emphasis:unreachable *)
Definition site_pe_unreachable : string := "inlines.rs:process_emphasis:unreachable".

Lemma mk_site s v a b site : mk s v a b = Panic site -> site = site_make_inline.
Proof.
  unfold mk, make_inline_cols, to_usize.
  repeat match goal with |- context [if ?b then _ else _] => destruct b; cbn [bind] end;
    intro H; try discriminate H; inversion H; reflexivity.
Qed.

Lemma insert_emph_site o s n0 items op cl site :
  insert_emph o s n0 items op cl = Panic site -> site <> site_pe_unreachable.
Proof.
  unfold insert_emph.
  destruct (split_at_id (d_id op) items) as [[[pre opi] rest1]|]; [|intro H; inversion H; discriminate].
  destruct (split_at_id (d_id cl) rest1) as [[[mid cli] post]|]; [|intro H; inversion H; discriminate].
  destruct (text_of (snd opi)) as [ot|]; [|intro H; inversion H; discriminate].
  destruct (text_of (snd cli)) as [ct|]; [|intro H; inversion H; discriminate].
  destruct ot as [|oc ot']; [intro H; inversion H; discriminate|].
  cbv zeta. unfold usub, nsub.
  repeat match goal with
         | |- context [mk ?s ?v ?a ?b] =>
           let E := fresh "E" in destruct (mk s v a b) eqn:E; cbn [bind];
           [| apply mk_site in E; subst; intro H; inversion H; discriminate | discriminate]
         | |- Ok _ = _ -> _ => discriminate
         | |- Panic _ = _ -> _ => intro H; inversion H; discriminate
         | |- context [if ?b then _ else _] => destruct b; cbn [bind]
         end.
Qed.

Lemma replace_item_text_site site0 id t items site :
  replace_item_text site0 id t items = Panic site -> site = site0.
Proof.
  unfold replace_item_text. destruct (split_at_id id items) as [[[a it] b]|]; [|intro H; inversion H; reflexivity].
  destruct (text_of (snd it)); intro H; inversion H; reflexivity.
Qed.

Theorem pe_loop_unreachable_site o : forall fuel s n0 items ob below cs site,
  Forall (fun d => dchar_ok o (d_char d) = true) cs ->
  pe_loop o fuel s n0 items ob below (hd_error cs) (tl cs) = Panic site -> site <> site_pe_unreachable.
Proof.
  induction fuel as [|f IH]; intros s n0 items ob below cs site Hok H; [discriminate|].
  cbn [pe_loop] in H. destruct cs as [|c above]; cbn [hd_error tl] in H; [discriminate|].
  destruct (hd_tl_next above) as [E1 E2]. rewrite E1, E2 in H. clear E1 E2.
  inversion Hok as [|? ? Hc Hab]; subst.
  destruct (d_close c); [|eapply IH; [exact Hab|exact H]].
  destruct (ob_index_ok o c Hc) as [ix Eix]. rewrite Eix in H. cbn [bind] in H.
  destruct (find_opener c (nth ix ob 0) below [] false) as [found mod3].
  destruct (is_emph_char o (d_char c)) eqn:Eem.
  - destruct found as [[[between op] rest]|]; [|eapply IH; [exact Hab|exact H]].
    destruct (insert_emph o s n0 items op c) as [[[[[items' ko] kc] n1]|]| |] eqn:Ei; cbn [bind] in H; try discriminate H.
    + destruct kc; [eapply (IH _ _ _ _ _ (c :: above)); [exact Hok|exact H]|eapply IH; [exact Hab|exact H]].
    + inversion H; subst. eapply insert_emph_site; exact Ei.
  - unfold dchar_ok in Hc. rewrite Eem in Hc. cbn [orb] in Hc. unfold quote in Hc. rewrite Hc in H.
    match type of H with bind ?r _ = _ => destruct r as [items1| |] eqn:Er1; cbn [bind] in H; try discriminate H end.
    2:{ inversion H; subst. apply replace_item_text_site in Er1. subst. discriminate. }
    destruct found as [[[between op] rest]|]; [|eapply IH; [exact Hab|exact H]].
    match type of H with bind ?r _ = _ => destruct r as [items2| |] eqn:Er2; cbn [bind] in H; try discriminate H end.
    2:{ inversion H; subst. apply replace_item_text_site in Er2. subst. discriminate. }
    eapply IH; [exact Hab|exact H].
Qed.
