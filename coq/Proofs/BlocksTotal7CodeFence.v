(* Proofs/BlocksTotal7CodeFence.v — the code block sites, part 5: the cursor after handle_code_fence, LOCALLY (no
   cursor invariant): on an LF-terminated line, when handle_code_fence answers Ok (true, new, st') the offset is
   inside the line (the fence match does not reach the LF) and no partially consumed tab is pending (the advance is a
   byte advance of at least 3).  With add_line_establish (Proofs/BlocksTotal7CodeUniq.v) this is what makes the
   content of the new FENCED block end with LF.  (handle_code_block — the indented case — has no such local
   argument: advance_offset(CODE_INDENT, columns) stays before first_nonspace only under the cursor invariant F1 of
   Proofs/BlocksTotal4Walk.v.) *)
From Coq Require Import List NArith Arith Bool Lia Strings.String.
From V Require Import Base.Bytes Base.Res Gen.Nodes Gen.BlocksConst Model.Ast Model.Strings Model.Scan Model.Blocks
  Proofs.BlocksProofs Proofs.BlocksCursor Proofs.BlocksTotal Proofs.BlocksTotal3Cur Proofs.BlocksTotal4Safe Proofs.BlocksTotal4Frame.
From V Require Proofs.BlocksTotal4Scan Proofs.BlocksTotal4Open.
Import ListNotations.
Local Open Scope string_scope.
Local Open Scope list_scope.

Lemma handle_code_fence_cursor o st c line ind new st' :
  lf_terminated line -> handle_code_fence o st c line ind = Ok (true, new, st') ->
  c_offset (ps_cur st') < List.length line /\ c_pct (ps_cur st') = false.
Proof.
  intros LN H. unfold handle_code_fence, rest_at_fns, not_handled, fns, offset in H.
  destruct ind; [discriminate H|].
  unfold slice_from in H. destruct (Nat.ltb (List.length line) (c_fns (ps_cur st))) eqn:Lf; cbn [bind] in H; [discriminate H|].
  apply Nat.ltb_ge in Lf.
  destruct (scan_open_code_fence (skipn (c_fns (ps_cur st)) line)) as [m|] eqn:Sc; [|discriminate H]. cbv zeta in H.
  pose proof (BlocksTotal4Scan.scan_open_code_fence_ge _ _ Sc) as M3.
  assert (Lm : c_fns (ps_cur st) + m < List.length line).
  { destruct (Nat.eq_dec (c_fns (ps_cur st)) (List.length line)) as [E|E].
    - rewrite E, skipn_all in Sc. vm_compute in Sc. discriminate Sc.
    - apply (BlocksTotal4Open.before_lf_at _ BlocksTotal4Scan.scan_open_code_fence_before_lf _ _ _ LN); [lia | exact Sc]. }
  destruct (idx _ line _) as [fc| |]; cbn [bind] in H; try discriminate H.
  unfold sub in H at 1. destruct (Nat.ltb (c_fns (ps_cur st)) (c_offset (ps_cur st))) eqn:Lo; cbn [bind] in H; [discriminate H|].
  apply Nat.ltb_ge in Lo.
  destruct (add_child o st c _ _) as [[id s1]| |] eqn:A; cbn [bind fst snd] in H; try discriminate H.
  pose proof (add_child_KC _ _ _ _ _ _ _ _ _ A (KC_self st)) as [Kc _].
  unfold sub in H. destruct (Nat.ltb (c_fns (ps_cur st) + m) (c_offset (ps_cur st))); cbn [bind] in H; [discriminate H|].
  unfold adv in H. rewrite Kc in H. unfold advance_offset in H.
  destruct (advance_bytes_exact line (c_fns (ps_cur st) + m - c_offset (ps_cur st)) (c_offset (ps_cur st)) (c_column (ps_cur st)) (c_pct (ps_cur st))
              (c_fns (ps_cur st) + m - c_offset (ps_cur st)) (le_n _) ltac:(lia)) as [col' E].
  rewrite E in H. cbn [bind] in H. inversion H; subst. cbn [ps_cur st_cur cur_set_oc c_offset c_pct].
  split; [lia|]. destruct (Nat.eqb _ 0) eqn:Z; [apply Nat.eqb_eq in Z; lia | reflexivity].
Qed.
