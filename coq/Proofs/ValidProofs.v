(* Proofs/ValidProofs.v — lemmas for C04 (containment / shape half). *)
From Coq Require Import List NArith Bool Arith Lia.
From V Require Import Base.Bytes Base.Res Model.Ast Model.Html Model.Xml Model.AddChild Gen.Nodes Gen.TableRows Gen.AddChild
  Spec.Shape Spec.HtmlSpec Spec.XmlLex Spec.Valid Proofs.HtmlNest Proofs.XmlProofs.
Import ListNotations.
From Coq Require Import Strings.String.
Local Open Scope string_scope.
Local Open Scope list_scope.

(* ------------------------------------------------------------------ finite checks over kinds *)
Lemma forall_kinds (P : kind -> bool) : forallb P all_kinds = true -> forall k, P k = true.
Proof. intros H k. rewrite forallb_forall in H. apply H. apply all_kinds_complete. Qed.

Lemma forall_kinds2 (P : kind -> kind -> bool) :
  forallb (fun a => forallb (P a) all_kinds) all_kinds = true -> forall a b, P a b = true.
Proof. intros H a b. apply (forall_kinds (P a)). apply (forall_kinds (fun a => forallb (P a) all_kinds)). exact H. Qed.

Definition item_kind (k : kind) : bool := match k with KItem | KTaskItem => true | _ => false end.

Lemma list_accepts_items_only : forall c, can_contain KList c = true -> item_kind c = true.
Proof.
  intros c H.
  pose proof (forall_kinds (fun c => implb (can_contain KList c) (item_kind c))) as F.
  specialize (F ltac:(vm_compute; reflexivity) c). cbv beta in F. rewrite H in F. exact F.
Qed.

Lemma leaf_accepts_nothing : forall p c, leaf_kind p = true -> can_contain p c = false.
Proof.
  intros p c H.
  pose proof (forall_kinds2 (fun p c => implb (leaf_kind p) (negb (can_contain p c)))) as F.
  specialize (F ltac:(vm_compute; reflexivity) p c). cbv beta in F. rewrite H in F.
  cbn [implb] in F. apply negb_true_iff. exact F.
Qed.

Lemma table_accepts_rows_only : forall c, can_contain KTable c = true -> c = KTableRow.
Proof.
  intros c H.
  pose proof (forall_kinds (fun c => implb (can_contain KTable c) (kind_eqb c KTableRow))) as F.
  specialize (F ltac:(vm_compute; reflexivity) c). cbv beta in F. rewrite H in F.
  apply kind_eqb_eq. exact F.
Qed.

Lemma row_accepts_cells_only : forall c, can_contain KTableRow c = true -> c = KTableCell.
Proof.
  intros c H.
  pose proof (forall_kinds (fun c => implb (can_contain KTableRow c) (kind_eqb c KTableCell))) as F.
  specialize (F ltac:(vm_compute; reflexivity) c). cbv beta in F. rewrite H in F.
  apply kind_eqb_eq. exact F.
Qed.

(* nothing may contain a Document; only a Document may contain FrontMatter *)
Lemma document_is_root_only : forall p, can_contain p KDocument = false.
Proof.
  intro p. pose proof (forall_kinds (fun p => negb (can_contain p KDocument))) as F.
  specialize (F ltac:(vm_compute; reflexivity) p). apply negb_true_iff. exact F.
Qed.

Lemma front_matter_under_document_only : forall p, can_contain p KFrontMatter = true -> p = KDocument.
Proof.
  intros p H.
  pose proof (forall_kinds (fun p => implb (can_contain p KFrontMatter) (kind_eqb p KDocument))) as F.
  specialize (F ltac:(vm_compute; reflexivity) p). cbv beta in F. rewrite H in F.
  apply kind_eqb_eq. exact F.
Qed.

(* the inline containers accept exactly the non-block kinds other than Document / FrontMatter;
   block containers never accept an inline: nothing accepts both a block and an inline *)
Lemma no_mixed_container : forall p a b,
  can_contain p a = true -> can_contain p b = true -> block a = block b \/ a = KFrontMatter \/ b = KFrontMatter.
Proof.
  intros p a b Ha Hb.
  assert (forall p, (forallb (fun a => forallb (fun b =>
            implb (can_contain p a && can_contain p b)
                  (Bool.eqb (block a) (block b) || kind_eqb a KFrontMatter || kind_eqb b KFrontMatter)) all_kinds) all_kinds) = true) as F.
  { apply forall_kinds. vm_compute. reflexivity. }
  specialize (F p). rewrite forallb_forall in F. specialize (F a (all_kinds_complete a)).
  rewrite forallb_forall in F. specialize (F b (all_kinds_complete b)).
  rewrite Ha, Hb in F. cbn [andb implb] in F.
  apply orb_true_iff in F. destruct F as [F|F].
  - apply orb_true_iff in F. destruct F as [F|F].
    + left. apply eqb_prop. exact F.
    + right. left. apply kind_eqb_eq. exact F.
  - right. right. apply kind_eqb_eq. exact F.
Qed.

(* ------------------------------------------------------------------ valid: structure *)
Lemma valid_node v sp ch :
  valid (Node v sp ch) = true <->
  (forall c, In c ch -> can_contain (kind_of v) (kind_of (nval c)) = true /\ valid c = true).
Proof.
  cbn [valid]. rewrite andb_true_iff, !forallb_forall. unfold child_allowed. split.
  - intros [A B] c Hc. split; [apply A | apply B]; exact Hc.
  - intro H. split; intros c Hc; apply (H c Hc).
Qed.

(* validate() returns Ok exactly when valid holds *)
Lemma first_invalid_none : forall t pk,
  first_invalid pk t = None <->
  (match pk with Some p => can_contain p (kind_of (nval t)) = true | None => True end) /\ valid t = true.
Proof.
  induction t as [v sp ch IH] using node_ind2. intro pk.
  cbn [first_invalid nval].
  set (go := fix go (l : list node) : option (kind * kind) :=
         match l with
         | [] => None
         | c :: r => match go r with Some e => Some e | None => first_invalid (Some (kind_of v)) c end
         end).
  assert (Hgo : go ch = None <-> valid (Node v sp ch) = true).
  { rewrite valid_node. clear pk. induction ch as [|c r IHr].
    - cbn. split; [intros _ c []| reflexivity].
    - inversion IH as [|? ? Hc Hr]; subst. specialize (IHr Hr).
      cbn [go]. fold go. split.
      + intro H. destruct (go r) eqn:E; [discriminate|].
        apply (Hc (Some (kind_of v))) in H. destruct H as [H1 H2].
        intros c' [<-|Hin]; [split; assumption|]. apply (proj1 IHr eq_refl c' Hin).
      + intro H. assert (go r = None) as ->.
        { apply IHr. intros c' Hin. apply H. right. exact Hin. }
        apply (Hc (Some (kind_of v))). apply (H c). left. reflexivity. }
  destruct pk as [p|].
  - destruct (can_contain p (kind_of v)) eqn:E.
    + rewrite Hgo. tauto.
    + split; [discriminate|]. intros [H _]. discriminate.
  - rewrite Hgo. tauto.
Qed.

Lemma valid_iff_validate t : valid t = true <-> validate t = None.
Proof. unfold validate. rewrite (first_invalid_none t None). tauto. Qed.

(* ------------------------------------------------------------------ consequences of valid *)
Lemma valid_list_children_b : forall t, valid t = true -> lists_ok t = true.
Proof.
  induction t as [v sp ch IH] using node_ind2. intro H.
  rewrite valid_node in H. cbn [lists_ok]. apply andb_true_iff. split.
  - destruct v; try reflexivity. apply forallb_forall. intros c Hc.
    destruct (H c Hc) as [Hk _]. cbn [kind_of] in Hk. apply list_accepts_items_only in Hk.
    unfold is_item. destruct (nval c); try discriminate; reflexivity.
  - apply forallb_forall. intros c Hc. rewrite Forall_forall in IH. apply (IH c Hc). apply (H c Hc).
Qed.

Lemma valid_leaves_b : forall t, valid t = true -> leaves_ok t = true.
Proof.
  induction t as [v sp ch IH] using node_ind2. intro H.
  rewrite valid_node in H. cbn [leaves_ok]. apply andb_true_iff. split.
  - destruct (leaf_kind (kind_of v)) eqn:E; [|reflexivity].
    destruct ch as [|c r]; [reflexivity|].
    destruct (H c (or_introl eq_refl)) as [Hk _].
    rewrite (leaf_accepts_nothing _ _ E) in Hk. discriminate.
  - apply forallb_forall. intros c Hc. rewrite Forall_forall in IH. apply (IH c Hc). apply (H c Hc).
Qed.

(* the subnodes of a tree, and the pointwise reading of the two facts above *)
Fixpoint subnodes (n : node) : list node :=
  match n with Node _ _ ch => n :: flat_map subnodes ch end.

Lemma subnodes_self n : In n (subnodes n).
Proof. destruct n. left. reflexivity. Qed.

Lemma valid_sub : forall t, valid t = true -> forall n, In n (subnodes t) -> valid n = true.
Proof.
  induction t as [v sp ch IH] using node_ind2. intros H n Hn.
  cbn [subnodes] in Hn. destruct Hn as [<-|Hn]; [exact H|].
  apply in_flat_map in Hn. destruct Hn as [c [Hc Hn]].
  rewrite Forall_forall in IH. apply (IH c Hc); [|exact Hn].
  rewrite valid_node in H. apply (H c Hc).
Qed.

Lemma valid_list_children : forall t, valid t = true ->
  forall n l, In n (subnodes t) -> nval n = NList l ->
  forall c, In c (nch n) -> (exists li, nval c = Item li) \/ (exists s, nval c = TaskItem s).
Proof.
  intros t H n l Hn Hv c Hc.
  pose proof (valid_sub t H n Hn) as Hvn. destruct n as [v sp ch]. cbn [nval nch] in *. subst v.
  rewrite valid_node in Hvn. destruct (Hvn c Hc) as [Hk _]. cbn [kind_of] in Hk.
  apply list_accepts_items_only in Hk. destruct (nval c); try discriminate; eauto.
Qed.

Lemma valid_leaves : forall t, valid t = true ->
  forall n, In n (subnodes t) -> leaf_kind (kind_of (nval n)) = true -> nch n = [].
Proof.
  intros t H n Hn Hl.
  pose proof (valid_sub t H n Hn) as Hvn. destruct n as [v sp ch]. cbn [nval nch] in *.
  destruct ch as [|c r]; [reflexivity|].
  rewrite valid_node in Hvn. destruct (Hvn c (or_introl eq_refl)) as [Hk _].
  rewrite (leaf_accepts_nothing _ _ Hl) in Hk. discriminate.
Qed.

(* valid => what XML's reader theorem calls literal_leaves *)
Lemma leaves_ok_literal : forall t, leaves_ok t = true -> literal_leaves t = true.
Proof.
  induction t as [v sp ch IH] using node_ind2. intro H.
  cbn [leaves_ok] in H. apply andb_true_iff in H. destruct H as [H1 H2].
  cbn [literal_leaves]. apply andb_true_iff. split.
  - destruct v; cbn [spec_text]; try reflexivity; cbn in H1; exact H1.
  - rewrite forallb_forall in *. intros c Hc. rewrite Forall_forall in IH. apply (IH c Hc). apply H2. exact Hc.
Qed.

(* valid => children of a Table are rows, children of a row are cells (kinds only; the counts and
   the header position are NOT implied: see valid_not_tables_ok) *)
Lemma valid_table_kinds : forall t, valid t = true ->
  forall n c, In n (subnodes t) -> In c (nch n) ->
  (kind_of (nval n) = KTable -> kind_of (nval c) = KTableRow) /\
  (kind_of (nval n) = KTableRow -> kind_of (nval c) = KTableCell).
Proof.
  intros t H n c Hn Hc.
  pose proof (valid_sub t H n Hn) as Hvn. destruct n as [v sp ch]. cbn [nval nch] in *.
  rewrite valid_node in Hvn. destruct (Hvn c Hc) as [Hk _]. split; intro E; rewrite E in Hk.
  - apply table_accepts_rows_only. exact Hk.
  - apply row_accepts_cells_only. exact Hk.
Qed.

(* ------------------------------------------------------------------ headings *)
Lemma headings_ok_is_s4 : forall t, headings_ok t = s4 t.
Proof.
  induction t as [v sp ch IH] using node_ind2. cbn [headings_ok s4].
  assert (forallb headings_ok ch = forallb s4 ch) as ->.
  { induction ch as [|c r IHr]; [reflexivity|]. inversion IH; subst. cbn [forallb]. f_equal; auto. }
  reflexivity.
Qed.

(* ------------------------------------------------------------------ tables_ok => Shape.s3 *)
Definition ctx_ok (pv gv : option node_value) (n : node) : Prop :=
  match nval n with
  | TableRow _ => exists t, pv = Some (Table t) /\ forallb is_cell_node (nch n) = true /\
                            List.length (nch n) = List.length (t_aligns t)
  | TableCell => (exists h, pv = Some (TableRow h)) /\ (exists t, gv = Some (Table t))
  | _ => True
  end.

Lemma is_cell_same n : is_cell n = is_cell_node n.
Proof. reflexivity. Qed.

Lemma row_ok_inv ncols hdr r : row_ok ncols hdr r = true ->
  is_row_of hdr r = true /\ forallb is_cell_node (nch r) = true /\ List.length (nch r) = ncols.
Proof.
  unfold row_ok, is_row_of. destruct (nval r); try discriminate.
  rewrite !andb_true_iff. intros [[A B] C]. apply Nat.eqb_eq in C.
  rewrite eqb_true_iff in A. subst. rewrite eqb_reflx. auto.
Qed.

Lemma tables_ok_in_s3 : forall n pv gv, tables_ok_in n = true -> ctx_ok pv gv n -> s3_go pv gv n = true.
Proof.
  induction n as [v sp ch IH] using node_ind2. intros pv gv H Hctx.
  cbn [tables_ok_in] in H. rewrite !andb_true_iff in H. destruct H as [[Ht Hp] Hch].
  cbn [s3_go]. apply andb_true_iff. split.
  - unfold ctx_ok in Hctx. cbn [nval nch] in Hctx. destruct v; try reflexivity.
    + (* Table *)
      unfold table_node_ok in Ht. apply andb_true_iff in Ht. destruct Ht as [_ Ht].
      destruct ch as [|h rs]; [discriminate|]. apply andb_true_iff in Ht. destruct Ht as [Hh Hrs].
      cbn [table_children_ok]. apply andb_true_iff. split.
      * apply (row_ok_inv _ _ _ Hh).
      * rewrite forallb_forall in *. intros r Hr. apply (row_ok_inv _ _ _ (Hrs r Hr)).
    + (* TableRow *)
      destruct Hctx as [t [-> [Hc Hl]]]. apply andb_true_iff. split.
      * exact Hc.
      * apply Nat.eqb_eq. exact Hl.
    + (* TableCell *)
      destruct Hctx as [[h ->] [t ->]]. reflexivity.
  - rewrite forallb_forall in *. rewrite Forall_forall in IH. intros c Hc.
    apply (IH c Hc); [apply Hch; exact Hc|].
    specialize (Hp c Hc). unfold placed in Hp. unfold ctx_ok.
    destruct (nval c) eqn:Ec; try exact I.
    + (* c is a row: v is a table *)
      destruct v; try discriminate. exists t. split; [reflexivity|].
      unfold table_node_ok in Ht. apply andb_true_iff in Ht. destruct Ht as [_ Ht].
      destruct ch as [|h0 rs]; [destruct Hc|]. apply andb_true_iff in Ht. destruct Ht as [Hh Hrs].
      destruct Hc as [<-|Hc].
      * destruct (row_ok_inv _ _ _ Hh) as [_ [A B]]. auto.
      * rewrite forallb_forall in Hrs. destruct (row_ok_inv _ _ _ (Hrs c Hc)) as [_ [A B]]. auto.
    + (* c is a cell: v is a row, whose parent is a table by ctx_ok of the row *)
      destruct v; try discriminate. split; [eexists; reflexivity|].
      unfold ctx_ok in Hctx. cbn [nval] in Hctx. destruct Hctx as [t [-> _]]. eexists. reflexivity.
Qed.

Lemma tables_ok_s3 : forall t, tables_ok t = true -> s3 t = true.
Proof.
  intros t H. unfold tables_ok in H. unfold s3. apply tables_ok_in_s3.
  - destruct (nval t); try discriminate; exact H.
  - unfold ctx_ok. destruct (nval t); try discriminate; exact I.
Qed.

(* what tables_ok adds to s3: the column count agrees with the alignments *)
Lemma tables_ok_cols : forall t, tables_ok t = true ->
  forall n tb, In n (subnodes t) -> nval n = Table tb ->
  t_cols tb = N.of_nat (List.length (t_aligns tb)) /\
  (exists h rs, nch n = h :: rs /\ is_row_of true h = true /\ Forall (fun r => is_row_of false r = true) rs) /\
  (forall r, In r (nch n) -> List.length (nch r) = List.length (t_aligns tb) /\ forallb is_cell_node (nch r) = true).
Proof.
  intros t H. unfold tables_ok in H.
  assert (Hin : tables_ok_in t = true) by (destruct (nval t); try discriminate; exact H). clear H.
  induction t as [v sp ch IH] using node_ind2. intros n tb Hn Hv.
  cbn [tables_ok_in] in Hin. rewrite !andb_true_iff in Hin. destruct Hin as [[Ht Hp] Hch].
  cbn [subnodes] in Hn. destruct Hn as [<-|Hn].
  - cbn [nval nch] in *. subst v. unfold table_node_ok in Ht.
    apply andb_true_iff in Ht. destruct Ht as [Hc Ht]. apply N.eqb_eq in Hc.
    destruct ch as [|h rs]; [discriminate|]. apply andb_true_iff in Ht. destruct Ht as [Hh Hrs].
    split; [exact Hc|]. split.
    + exists h, rs. split; [reflexivity|]. split; [apply (row_ok_inv _ _ _ Hh)|].
      apply Forall_forall. intros r Hr. rewrite forallb_forall in Hrs. apply (row_ok_inv _ _ _ (Hrs r Hr)).
    + intros r [<-|Hr].
      * destruct (row_ok_inv _ _ _ Hh) as [_ [A B]]. auto.
      * rewrite forallb_forall in Hrs. destruct (row_ok_inv _ _ _ (Hrs r Hr)) as [_ [A B]]. auto.
  - apply in_flat_map in Hn. destruct Hn as [c [Hc Hn]]. rewrite Forall_forall in IH.
    rewrite forallb_forall in Hch. apply (IH c Hc (Hch c Hc) n tb Hn Hv).
Qed.

(* ------------------------------------------------------------------ s3 => the XML renderer's cells_ok *)
Lemma forallb_ix_nth (f : nat -> node -> bool) : forall l i,
  (forall j c, nth_error l j = Some c -> f (i + j) c = true) -> forallb_ix f l i = true.
Proof.
  induction l as [|c r IH]; intros i H; cbn [forallb_ix]; [reflexivity|].
  apply andb_true_iff. split.
  - specialize (H 0 c eq_refl). rewrite Nat.add_0_r in H. exact H.
  - apply IH. intros j c' Hj. specialize (H (S j) c' Hj). rewrite Nat.add_succ_r in H. exact H.
Qed.

Lemma s3_go_cells : forall n par gp ix,
  s3_go par gp n = true ->
  (nval n = TableCell -> forall t, header_table par gp = Some t -> ix < List.length (t_aligns t)) ->
  cells_ok_at par gp ix n = true.
Proof.
  induction n as [v sp ch IH] using node_ind2. intros par gp ix H Hix.
  cbn [s3_go] in H. apply andb_true_iff in H. destruct H as [Hv Hch].
  cbn [cells_ok_at]. apply andb_true_iff. split.
  - destruct v; try reflexivity.
    destruct par as [[]|]; try discriminate. destruct gp as [[]|]; try discriminate.
    unfold cell_ok. destruct (header_table (Some (TableRow header)) (Some (Table t))) as [t'|] eqn:E; [|reflexivity].
    apply Nat.ltb_lt. apply (Hix eq_refl t' eq_refl).
  - apply forallb_ix_nth. intros j c Hj. cbn [plus].
    assert (Hin : In c ch) by (eapply nth_error_In; exact Hj).
    rewrite Forall_forall in IH. rewrite forallb_forall in Hch.
    apply (IH c Hin); [apply Hch; exact Hin|].
    intros Ec t Ht. unfold header_table in Ht.
    destruct v; try discriminate. destruct header; try discriminate.
    destruct par as [[]|]; try discriminate. injection Ht as <-.
    apply andb_true_iff in Hv. destruct Hv as [_ Hl]. apply Nat.eqb_eq in Hl. rewrite <- Hl.
    apply nth_error_Some. rewrite Hj. discriminate.
Qed.

Lemma s3_cells_ok : forall t, s3 t = true -> cells_ok t = true.
Proof.
  intros t H. unfold cells_ok. apply s3_go_cells; [exact H|].
  intros _ t0 Ht. discriminate.
Qed.

(* ------------------------------------------------------------------ the formatter clause *)
Lemma formatters_total : forall slug o t,
  valid t = true -> s2 t = true -> s3 t = true ->
  (exists b, html slug o t = Ok b) /\ (exists b, xml o t = Ok b).
Proof.
  intros slug o t _ H2 H3. split.
  - apply total_bytes; assumption.
  - apply xml_total. apply s3_cells_ok. exact H3.
Qed.

Lemma structurally_valid_formatters : forall slug o t,
  structurally_valid t = true ->
  (exists b, html slug o t = Ok b) /\ (exists b, xml o t = Ok b).
Proof.
  intros slug o t H. unfold structurally_valid in H. rewrite !andb_true_iff in H.
  destruct H as [[[[[Hv H2] _] _] Ht] _].
  apply formatters_total; [exact Hv | exact H2 | apply tables_ok_s3; exact Ht].
Qed.

(* the validator alone does not give the formatter clause: a table cell directly under the
   document is accepted by the validator (TableCell is block()), and render_table_cell panics *)
Lemma validator_not_enough :
  valid w_cell_at_root = true /\ s2 w_cell_at_root = true /\ s3 w_cell_at_root = false /\
  tables_ok w_cell_at_root = false /\
  (exists site, events slug_id o_plain w_cell_at_root = Panic site) /\
  (exists site, xml o_plain w_cell_at_root = Panic site) .
Proof.
  repeat split; try (vm_compute; reflexivity); eexists; vm_compute; reflexivity.
Qed.

(* nor does it give the table shape: a validator-accepted table with a short body row and a second
   header row *)
Definition w_ragged : node :=
  nd Document [nd (Table (mkTable 2 1 2 [ANone; ANone]))
                 [nd (TableRow true) [cell "a"; cell "b"]; nd (TableRow true) [cell "c"]]].

Lemma valid_not_tables_ok : valid w_ragged = true /\ tables_ok w_ragged = false /\ s3 w_ragged = false.
Proof. repeat split; vm_compute; reflexivity. Qed.

(* ------------------------------------------------------------------ the parser's table builder *)
Lemma cell_loop_spec : forall fuel i bound added,
  bound - i <= fuel ->
  cell_loop fuel i bound added = (Nat.max i bound, added + (bound - i)).
Proof.
  induction fuel as [|f IH]; intros i bound added Hf; cbn [cell_loop].
  - assert (bound <= i) by lia. f_equal; lia.
  - destruct (Nat.ltb i bound) eqn:E.
    + apply Nat.ltb_lt in E. rewrite IH by lia. f_equal; lia.
    + apply Nat.ltb_ge in E. f_equal; lia.
Qed.

(* every body row the builder appends has exactly one cell per alignment: min(real, alignments)
   real cells, the rest padding, excess real cells dropped; num_nonempty_cells grows by the number of
   real cells kept *)
Lemma row_cells : forall blank cols rows nonempty aligns this_row k ne',
  try_opening_row_cells blank cols rows nonempty aligns this_row = Some (k, ne') ->
  k = aligns /\ exists cells, this_row = Some cells /\ ne' = (nonempty + N.of_nat (Nat.min aligns cells))%N /\
  blank = false /\ (autocompleted cols rows nonempty <= max_autocompleted_cells)%N.
Proof.
  intros blank cols rows nonempty aligns this_row k ne' H. unfold try_opening_row_cells in H.
  destruct blank; [discriminate|].
  destruct (N.ltb max_autocompleted_cells (autocompleted cols rows nonempty)) eqn:E; [discriminate|].
  destruct this_row as [cells|]; [|discriminate].
  rewrite cell_loop_spec in H by lia. rewrite cell_loop_spec in H by lia.
  injection H as <- <-. split; [lia|]. exists cells. split; [reflexivity|]. split; [f_equal; f_equal; lia|]. split; [reflexivity|].
  apply N.ltb_ge. exact E.
Qed.

Lemma row_refused : forall blank cols rows nonempty aligns this_row,
  try_opening_row_cells blank cols rows nonempty aligns this_row = None <->
  blank = true \/ (max_autocompleted_cells < autocompleted cols rows nonempty)%N \/ this_row = None.
Proof.
  intros. unfold try_opening_row_cells. destruct blank; [split; auto|].
  destruct (N.ltb max_autocompleted_cells (autocompleted cols rows nonempty)) eqn:E.
  - apply N.ltb_lt in E. split; auto.
  - apply N.ltb_ge in E. destruct this_row as [cells|].
    + rewrite cell_loop_spec by lia. rewrite cell_loop_spec by lia.
      split; [discriminate|]. intros [H|[H|H]]; [discriminate | lia | discriminate].
    + split; auto.
Qed.

(* the header: a table is created only when header and delimiter rows have the same number of
   cells; then alignments, num_columns and the header row's cells all have that number *)
Lemma header_cells : forall header delim a c k,
  try_opening_header_cells header delim = Some (a, c, k) ->
  a = c /\ k = c /\ header = Some c /\ delim = Some c.
Proof.
  intros header delim a c k H. unfold try_opening_header_cells in H.
  destruct delim as [d|]; [|discriminate]. destruct header as [h|]; [|discriminate].
  destruct (Nat.eqb h d) eqn:E; [|discriminate]. apply Nat.eqb_eq in E. subst d. cbn [negb] in H.
  rewrite cell_loop_spec in H by lia. injection H as <- <- <-. repeat split; lia.
Qed.

(* fn row never returns an empty cell vector nor more than u16::MAX cells *)
Lemma row_result_bounds : forall cells all n, row_result cells all = Some n ->
  n = cells /\ 1 <= n /\ (N.of_nat n <= max_columns)%N.
Proof.
  intros cells all n H. unfold row_result in H.
  destruct all; [|discriminate]. cbn [negb orb] in H.
  destruct (Nat.eqb cells 0) eqn:E0; [discriminate|]. cbn [orb] in H.
  destruct (N.ltb max_columns (N.of_nat cells)) eqn:E1; [discriminate|].
  injection H as <-. apply Nat.eqb_neq in E0. apply N.ltb_ge in E1. repeat split; [lia | exact E1].
Qed.

(* a table assembled from the builder's answers satisfies the table clause: the header row with k
   cells first, then body rows with the cell counts try_opening_row_cells returned *)
Definition cells_n (n : nat) : list node := repeat (Node TableCell (mkSp 0 0 0 0) []) n.
Definition built_table (aligns : list align) (cols : N) (hk : nat) (body : list nat) : node :=
  Node (Table (mkTable cols 0 0 aligns)) (mkSp 0 0 0 0)
    (Node (TableRow true) (mkSp 0 0 0 0) (cells_n hk)
     :: map (fun k => Node (TableRow false) (mkSp 0 0 0 0) (cells_n k)) body).

Lemma cells_n_ok n : forallb is_cell_node (cells_n n) = true /\ List.length (cells_n n) = n.
Proof.
  unfold cells_n. split; [|apply repeat_length].
  apply forallb_forall. intros x Hx. apply repeat_spec in Hx. subst x. reflexivity.
Qed.

Lemma all_repeat (f : node -> bool) x n : f x = true -> forallb f (repeat x n) = true.
Proof. intro H. apply forallb_forall. intros y Hy. apply repeat_spec in Hy. subst y. exact H. Qed.

Lemma row_node_ok h sp k : tables_ok_in (Node (TableRow h) sp (cells_n k)) = true.
Proof.
  cbn [tables_ok_in]. unfold cells_n. rewrite !all_repeat by reflexivity. reflexivity.
Qed.

Lemma built_table_ok : forall aligns hk body,
  hk = List.length aligns -> Forall (fun k => k = List.length aligns) body ->
  tables_ok (Node Document (mkSp 0 0 0 0) [built_table aligns (N.of_nat (List.length aligns)) hk body]) = true.
Proof.
  intros aligns hk body -> Hb.
  assert (H2 : tables_ok_in (built_table aligns (N.of_nat (List.length aligns)) (List.length aligns) body) = true).
  { unfold built_table. cbn [tables_ok_in]. cbn [forallb]. rewrite row_node_ok.
    destruct (cells_n_ok (List.length aligns)) as [A B].
    assert (R : forall hd, row_ok (List.length aligns) hd (Node (TableRow hd) (mkSp 0 0 0 0) (cells_n (List.length aligns))) = true).
    { intro hd. unfold row_ok. cbn [nval nch]. rewrite A, B, Nat.eqb_refl, eqb_reflx. reflexivity. }
    unfold table_node_ok. cbn [t_cols t_aligns]. rewrite N.eqb_refl, R. cbn [andb placed nval].
    rewrite Forall_forall in Hb.
    assert (forallb (row_ok (List.length aligns) false)
              (map (fun k => Node (TableRow false) (mkSp 0 0 0 0) (cells_n k)) body) = true) as ->.
    { apply forallb_forall. intros r Hr. apply in_map_iff in Hr. destruct Hr as [k [<- Hk]].
      rewrite (Hb k Hk). apply R. }
    assert (forallb (placed (Table (mkTable (N.of_nat (List.length aligns)) 0 0 aligns)))
              (map (fun k => Node (TableRow false) (mkSp 0 0 0 0) (cells_n k)) body) = true) as ->.
    { apply forallb_forall. intros r Hr. apply in_map_iff in Hr. destruct Hr as [k [<- _]]. reflexivity. }
    assert (forallb tables_ok_in
              (map (fun k => Node (TableRow false) (mkSp 0 0 0 0) (cells_n k)) body) = true) as ->.
    { apply forallb_forall. intros r Hr. apply in_map_iff in Hr. destruct Hr as [k [<- _]]. apply row_node_ok. }
    reflexivity. }
  unfold tables_ok. cbn [nval tables_ok_in forallb]. rewrite H2. reflexivity.
Qed.

(* ------------------------------------------------------------------ Parser::add_child *)
Lemma add_child_contains : forall chain c p,
  add_child_parent chain c = Ok p -> can_contain p c = true /\ In p chain.
Proof.
  induction chain as [|q up IH]; intros c p H; cbn [add_child_parent] in H; [discriminate|].
  destruct (can_contain q c) eqn:E.
  - injection H as <-. split; [exact E | left; reflexivity].
  - destruct (IH c p H) as [A B]. split; [exact A | right; exact B].
Qed.

(* the ancestors that were skipped (and therefore finalized) cannot contain the child *)
Lemma add_child_skips : forall chain c p,
  add_child_parent chain c = Ok p ->
  exists skipped rest, chain = skipped ++ p :: rest /\ forall q, In q skipped -> can_contain q c = false.
Proof.
  induction chain as [|q up IH]; intros c p H; cbn [add_child_parent] in H; [discriminate|].
  destruct (can_contain q c) eqn:E.
  - injection H as <-. exists [], up. split; [reflexivity | intros ? []].
  - destruct (IH c p H) as [sk [rest [-> Hs]]]. exists (q :: sk), rest. split; [reflexivity|].
    intros r [<-|Hr]; [exact E | apply Hs; exact Hr].
Qed.

Lemma add_child_some_ancestor : forall chain c,
  (exists q, In q chain /\ can_contain q c = true) -> exists p, add_child_parent chain c = Ok p.
Proof.
  induction chain as [|q up IH]; intros c [r [Hr Hc]]; [destruct Hr|].
  cbn [add_child_parent]. destruct (can_contain q c) eqn:E; [eexists; reflexivity|].
  apply IH. destruct Hr as [<-|Hr]; [rewrite Hc in E; discriminate|]. exists r. auto.
Qed.

Definition site_ok (s : string * string * kind) : bool :=
  match direct_parent (snd s) with
  | Some p => can_contain p (snd s)
  | None => can_contain KDocument (snd s)
  end.

(* audited call list (Gen/AddChild.v): every value passed to add_child is either accepted by a
   Document, or is one of the six kinds whose call site passes the parent made for it *)
Lemma add_child_sites_ok : forallb site_ok add_child_sites = true.
Proof. vm_compute. reflexivity. Qed.

Definition expected_add_child_kinds : list kind :=
  [KFrontMatter; KMultilineBlockQuote; KBlockQuote; KHeading; KCodeBlock; KHtmlBlock; KThematicBreak;
   KFootnoteDefinition; KList; KItem; KCodeBlock; KAlert; KDescriptionList; KDescriptionItem;
   KDescriptionTerm; KDescriptionDetails; KDescriptionItem; KDescriptionDetails; KParagraph;
   KTableRow; KTableCell; KTableRow; KTableCell; KTableCell].

Lemma add_child_sites_audit : map snd add_child_sites = expected_add_child_kinds.
Proof. vm_compute. reflexivity. Qed.

(* the loop never runs past the root: at every audited call site, if the ancestor chain ends in the
   Document (free kinds) resp. starts with the parent made for the child (direct kinds), add_child
   returns a parent that may contain the child *)
Lemma add_child_never_past_root : forall s chain,
  In s add_child_sites ->
  (match direct_parent (snd s) with
   | Some p => exists up, chain = p :: up
   | None => exists up, chain = up ++ [KDocument]
   end) ->
  exists p, add_child_parent chain (snd s) = Ok p /\ can_contain p (snd s) = true.
Proof.
  intros s chain Hs Hc.
  pose proof add_child_sites_ok as F. rewrite forallb_forall in F. specialize (F s Hs). unfold site_ok in F.
  assert (exists p, add_child_parent chain (snd s) = Ok p) as [p Hp].
  { apply add_child_some_ancestor. destruct (direct_parent (snd s)) as [d|].
    - destruct Hc as [up ->]. exists d. split; [left; reflexivity | exact F].
    - destruct Hc as [up ->]. exists KDocument. split; [apply in_or_app; right; left; reflexivity | exact F]. }
  exists p. split; [exact Hp|]. apply (add_child_contains _ _ _ Hp).
Qed.

(* appending under the parent add_child returns keeps a valid tree valid: stated on the rose tree
   as: adding a leaf child of kind c at the end of a node whose kind may contain c preserves valid *)
Lemma valid_append_leaf : forall v sp ch c csp,
  valid (Node v sp ch) = true -> can_contain (kind_of v) (kind_of c) = true ->
  valid (Node v sp (ch ++ [Node c csp []])) = true.
Proof.
  intros v sp ch c csp H Hc. rewrite valid_node in *. intros x Hx.
  apply in_app_or in Hx. destruct Hx as [Hx|[<-|[]]]; [apply H; exact Hx|].
  split; [exact Hc | reflexivity].
Qed.

(* ------------------------------------------------------------------ reductions of the whole-tree statement *)
Lemma valid_leaves_both : forall t, valid t = true -> leaves_ok t = true /\ literal_leaves t = true.
Proof. intros t H. split; [|apply leaves_ok_literal]; apply valid_leaves_b; exact H. Qed.

(* lists_ok and leaves_ok are consequences of valid: the property's tree clause reduces to four *)
Lemma structurally_valid_reduced : forall t,
  structurally_valid t = (valid t && s2 t && headings_ok t && tables_ok t).
Proof.
  intro t. unfold structurally_valid. destruct (valid t) eqn:Hv; [|reflexivity].
  rewrite (valid_list_children_b t Hv), (valid_leaves_b t Hv). cbn [andb].
  rewrite !andb_true_r. reflexivity.
Qed.

Lemma parser_partial : forall parse : bytes -> node,
  (forall input, valid (parse input) && s2 (parse input) && headings_ok (parse input) && tables_ok (parse input) = true) ->
  forall input, structurally_valid (parse input) = true.
Proof. intros parse H input. rewrite structurally_valid_reduced. apply H. Qed.
