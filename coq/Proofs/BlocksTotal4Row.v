(* Proofs/BlocksTotal4Row.v — totality of the block phase, fourth round: the row scanner of table.rs.

   fn row(string, spoiler) (Model/Blocks.v: cell_start_loop, row_loop, row, table_matches) for ALL byte strings:
   no index, slice or usize subtraction of it panics, and it never runs out of fuel; the only Panic that remains is
   String::from_utf8(cell).unwrap() (part 1), and that one is unreachable when the string is valid UTF-8 (part 2).

   Part 1.  Invariant of row_loop at the head of an iteration:
        offset <= |s|                                  (every scanner runs on string[offset..] and matches inside it)
        0 < offset  \/  table_cell_end(string) matches nothing (or0 .. = 0)
   The second half is what `offset + cell_matched - 1` needs: the subtraction is evaluated only when
   cell_matched > 0 or pipe_matched > 0; with offset = 0 and cell_matched = 0 the pipe scanner runs on string[0..],
   i.e. on the whole string, where `row` ran it already to compute the initial offset: a positive match there
   would have made the initial offset positive.  Later offsets are sums that contain a positive pipe_matched or a
   positive row_end_offset. *)
From Coq Require Import List NArith Arith Bool Lia Strings.String.
From V Require Import Base.Bytes Base.Res Base.Regex Base.Re2c Gen.ScannersRe Model.Ast Model.Strings Model.AutolinkLeaf Model.Scan
  Model.Blocks Spec.EscapeSpec Proofs.RegexProofs Proofs.ScanProofs Proofs.BlocksCursor Proofs.BlocksTotal
  Proofs.BlocksTotal2Safe Proofs.BlocksTotal3Cur Proofs.BlocksTotal4Safe.
From V Require Proofs.StrLeafProofs Proofs.FrontMatterProofs.
Import ListNotations.
Local Open Scope string_scope.
Local Open Scope list_scope.

Definition row_utf8_site : string := "table.rs:row:String::from_utf8(cell).unwrap()".
Definition row_al : string -> bool := only [row_utf8_site].

(* ================================================================== part 1: indices, slices, subtractions, fuel *)
Lemma cell_start_loop_sg al fu s : forall fuel so io po,
  so <= List.length s -> ng al fu (cell_start_loop fuel s so io po).
Proof.
  induction fuel as [|f IH]; intros so io po H; cbn [cell_start_loop]; [exact I|].
  destruct (Nat.ltb po so) eqn:E; [|exact I]. apply Nat.ltb_lt in E.
  apply sgb; [apply ng_idx; left; lia|]. intros b _.
  destruct (beqb b x7c); [exact I|]. apply IH. lia.
Qed.

Definition row_inv (s : bytes) (off : nat) : Prop :=
  off <= List.length s /\ (0 < off \/ or0 (scan_table_cell_end s) = 0).

Lemma cell_end_in s k : k <= List.length s -> k + or0 (scan_table_cell_end (skipn k s)) <= List.length s.
Proof.
  intro H. assert (or0 (scan_table_cell_end (skipn k s)) <= List.length (skipn k s)) as L
    by (apply or0_le; intros m; apply scan_table_cell_end_le).
  rewrite skipn_length in L. lia.
Qed.

Lemma cell_in s sp k : k <= List.length s -> k + or0 (scan_table_cell (skipn k s) sp) <= List.length s.
Proof.
  intro H. assert (or0 (scan_table_cell (skipn k s) sp) <= List.length (skipn k s)) as L
    by (apply or0_le; intros m; apply scan_table_cell_le).
  rewrite skipn_length in L. lia.
Qed.

Lemma row_end_in s k : k <= List.length s -> k + or0 (scan_table_row_end (skipn k s)) <= List.length s.
Proof.
  intro H. assert (or0 (scan_table_row_end (skipn k s)) <= List.length (skipn k s)) as L
    by (apply or0_le; intros m; apply scan_table_row_end_le).
  rewrite skipn_length in L. lia.
Qed.

(* the post-condition carried through the loop; Q is a parameter so that part 2 can reuse the walk *)
Lemma row_loop_sg (al : string -> bool) s sp :
  (forall off, row_inv s off ->
     al row_utf8_site = true \/
     utf8_valid (trim_slice (unescape_pipes (firstn (or0 (scan_table_cell (skipn off s) sp)) (skipn off s)))) = true) ->
  forall fuel off po cells,
  List.length s - off < fuel -> row_inv s off -> ng al false (row_loop fuel s sp off po cells).
Proof.
  intro HU. induction fuel as [|f IH]; intros off po cells Hf [Ho Hz]; [lia|].
  cbn [row_loop]. destruct (Nat.ltb off (List.length s)) eqn:Lt; cbn [negb]; [|exact I].
  apply Nat.ltb_lt in Lt.
  specialize (HU off (conj Ho Hz)).
  pose proof (cell_in s sp off Ho) as Hc.
  set (cm := or0 (scan_table_cell (skipn off s) sp)) in *.
  eapply sg_bind; [apply sg_slice_from; left; exact Hc|]. intros rest _ [-> _].
  pose proof (cell_end_in s (off + cm) Hc) as Hp.
  set (pm := or0 (scan_table_cell_end (skipn (off + cm) s))) in *.
  apply sgb.
  { destruct (Nat.ltb 0 cm || Nat.ltb 0 pm) eqn:C; [|exact I].
    destruct (Nat.ltb (List.length s) (off + cm)) eqn:E; [apply Nat.ltb_lt in E; lia|]. cbn [bind].
    rewrite Proofs.StrLeafProofs.trim_ok. cbn [bind].
    apply sgb; [apply cell_start_loop_sg; exact Ho|]. intros so _.
    destruct (Nat.eqb (List.length cells) max_columns); [exact I|].
    apply sgb.
    { apply ng_sub. left.
      apply orb_true_iff in C. destruct C as [C|C]; apply Nat.ltb_lt in C; [lia|].
      destruct Hz as [Hz|Hz]; [lia|].
      destruct (Nat.eq_dec (off + cm) 0) as [Z|Z]; [|lia].
      exfalso. unfold pm in C. rewrite Z in C. cbn [skipn] in C. lia. }
    intros e _. apply sgb; [|intros; exact I].
    apply ng_from_utf8. destruct HU as [HU|HU]; [right; exact HU | left; exact HU]. }
  intros [cells1 abort] _. destruct abort; [exact I|].
  destruct (Nat.ltb 0 pm) eqn:Pm.
  - apply Nat.ltb_lt in Pm. apply IH; [lia|]. split; [lia | left; lia].
  - assert (pm = 0) as Pz by (apply Nat.ltb_ge in Pm; lia).
    eapply sg_bind; [apply sg_slice_from; left; lia|]. intros rest2 _ [-> _].
    pose proof (row_end_in s (off + cm + pm) ltac:(lia)) as Hr.
    set (re := or0 (scan_table_row_end (skipn (off + cm + pm) s))) in *.
    destruct (Nat.ltb 0 re && negb (Nat.eqb (off + cm + pm + re) (List.length s))) eqn:C; [|exact I].
    apply andb_true_iff in C. destruct C as [C _]. apply Nat.ltb_lt in C.
    eapply sg_bind; [apply sg_slice_from; left; exact Hr|]. intros rest3 _ [-> _].
    pose proof (cell_end_in s (off + cm + pm + re) Hr) as He.
    apply IH; [lia|]. split; [exact He | left; lia].
Qed.

Lemma row_inv_init s : row_inv s (or0 (scan_table_cell_end s)).
Proof.
  split.
  - apply or0_le. intros m. apply scan_table_cell_end_le.
  - destruct (or0 (scan_table_cell_end s)); [now right | left; lia].
Qed.

Lemma row_sg (al : string -> bool) s sp :
  (forall off, row_inv s off ->
     al row_utf8_site = true \/
     utf8_valid (trim_slice (unescape_pipes (firstn (or0 (scan_table_cell (skipn off s) sp)) (skipn off s)))) = true) ->
  ng al false (row s sp).
Proof.
  intro HU. unfold row. apply sgb.
  - apply row_loop_sg; [exact HU | lia | apply row_inv_init].
  - intros [[[off po] cells] abort] _. destruct (_ || _); exact I.
Qed.

(* ---- the theorems of part 1 *)
Theorem row_no_slice_panic s sp : ng (only ["table.rs:row:String::from_utf8(cell).unwrap()"]) false (row s sp).
Proof. apply row_sg. intros off _. left. reflexivity. Qed.

Theorem row_panic_site s sp site :
  row s sp = Panic site -> site = "table.rs:row:String::from_utf8(cell).unwrap()".
Proof.
  intro E. pose proof (sg_panic_in _ _ _ _ _ (row_no_slice_panic s sp) E) as H.
  destruct H as [H|[]]. now symmetry.
Qed.

Theorem table_matches_no_slice_panic s sp :
  ng (only ["table.rs:row:String::from_utf8(cell).unwrap()"]) false (table_matches s sp).
Proof. unfold table_matches. apply sgb; [apply row_no_slice_panic | intros; exact I]. Qed.

Theorem table_matches_panic_site s sp site :
  table_matches s sp = Panic site -> site = "table.rs:row:String::from_utf8(cell).unwrap()".
Proof.
  intro E. pose proof (sg_panic_in _ _ _ _ _ (table_matches_no_slice_panic s sp) E) as H.
  destruct H as [H|[]]. now symmetry.
Qed.

(* ================================================================== part 2: String::from_utf8(cell).unwrap()
   scanners.re is compiled with re2c:encoding:utf8 = 1: the class [^\x00|\r\n] of table_cell is not "any other byte"
   but "one whole well-formed UTF-8 character other than NUL | CR LF" (Gen/ScannersRe.v cls_35: the eight
   alternatives are exactly the eight byte patterns of Rust's from_utf8).  The other alternatives of table_cell
   (escaped_char, table_spoiler) are two ASCII bytes.  Hence whatever table_cell matches is a sequence of whole
   characters, i.e. valid UTF-8 — for EVERY byte string, valid or not; unescape_pipes removes ASCII backslashes, trim
   removes ASCII white space.  So the last Panic site of `row` is unreachable as well: `row` and `table_matches`
   are total. *)

(* the regex r drives the UTF-8 automaton from st to st' on every string it matches *)
Definition tr (r : re) (st st' : ust) : Prop := forall w, matches r w -> ustate st w = Some st'.

Definition ust_n (u : ust) : nat :=
  match u with U0 => 0 | U1 => 1 | U2 => 2 | U2e0 => 3 | U2ed => 4 | U3 => 5 | U3f0 => 6 | U3f4 => 7 end.
Definition step_to (st st' : ust) (b : byte) : bool :=
  match ustep st b with Some x => Nat.eqb (ust_n x) (ust_n st') | None => false end.

Lemma byte_step cs st st' :
  forallb (fun b => implb (cs_mem cs b) (step_to st st' b)) all_bytes = true ->
  forall b, cs_mem cs b = true -> ustep st b = Some st'.
Proof.
  intros H b Hb. pose proof (forall_bytes_impl _ _ H b Hb) as G. unfold step_to in G.
  destruct (ustep st b) as [x|]; [|discriminate G]. apply Nat.eqb_eq in G.
  destruct x, st'; cbn in G; try discriminate G; reflexivity.
Qed.

Lemma tr_Chr cs st st' : (forall b, cs_mem cs b = true -> ustep st b = Some st') -> tr (Chr cs) st st'.
Proof.
  intros H w M. apply matches_Chr in M. destruct M as (b & -> & Hb). cbn [ustate]. now rewrite (H b Hb).
Qed.

Lemma tr_Cat a b st st1 st2 : tr a st st1 -> tr b st1 st2 -> tr (Cat a b) st st2.
Proof.
  intros Ha Hb w M. apply matches_Cat in M. destruct M as (s1 & s2 & -> & M1 & M2).
  rewrite ustate_app, (Ha _ M1). now apply Hb.
Qed.

Lemma tr_Alt a b st st' : tr a st st' -> tr b st st' -> tr (Alt a b) st st'.
Proof. intros Ha Hb w M. apply matches_Alt in M. destruct M as [M|M]; [now apply Ha | now apply Hb]. Qed.

Lemma tr_Star a st : tr a st st -> tr (Star a) st st.
Proof.
  intros Ha w M. remember (Star a) as r eqn:Er. revert Er.
  induction M as [| | | | | a0 | a0 u v Hu _ Hv IHv]; intro Er; try discriminate Er.
  - reflexivity.
  - inversion Er; subst a0. rewrite ustate_app, (Ha _ Hu). now apply IHv.
Qed.

Lemma tr_Plus a st : tr a st st -> tr (Plus a) st st.
Proof. intro H. unfold Plus. eapply tr_Cat; [exact H | now apply tr_Star]. Qed.

Ltac tr_chr := apply tr_Chr; apply byte_step; vm_compute; reflexivity.

(* [^\x00|\r\n] under re2c:encoding:utf8: one whole character *)
Lemma tr_cls_35 : tr cls_35 U0 U0.
Proof.
  unfold cls_35. cbn [AltL CatL]. repeat apply tr_Alt.
  - tr_chr.
  - apply (tr_Cat _ _ U0 U1 U0); tr_chr.
  - apply (tr_Cat _ _ U0 U2e0 U0); [tr_chr|]. apply (tr_Cat _ _ U2e0 U1 U0); tr_chr.
  - apply (tr_Cat _ _ U0 U2 U0); [tr_chr|]. apply (tr_Cat _ _ U2 U1 U0); tr_chr.
  - apply (tr_Cat _ _ U0 U2ed U0); [tr_chr|]. apply (tr_Cat _ _ U2ed U1 U0); tr_chr.
  - apply (tr_Cat _ _ U0 U3f0 U0); [tr_chr|]. apply (tr_Cat _ _ U3f0 U2 U0); [tr_chr|]. apply (tr_Cat _ _ U2 U1 U0); tr_chr.
  - apply (tr_Cat _ _ U0 U3 U0); [tr_chr|]. apply (tr_Cat _ _ U3 U2 U0); [tr_chr|]. apply (tr_Cat _ _ U2 U1 U0); tr_chr.
  - apply (tr_Cat _ _ U0 U3f4 U0); [tr_chr|]. apply (tr_Cat _ _ U3f4 U2 U0); [tr_chr|]. apply (tr_Cat _ _ U2 U1 U0); tr_chr.
Qed.

Lemma tr_escaped_char : tr re_escaped_char U0 U0.
Proof. unfold re_escaped_char. cbn [CatL]. apply (tr_Cat _ _ U0 U0 U0); tr_chr. Qed.

Lemma tr_table_spoiler : tr re_table_spoiler U0 U0.
Proof. unfold re_table_spoiler. cbn [CatL]. apply (tr_Cat _ _ U0 U0 U0); tr_chr. Qed.

Lemma tr_table_cell : tr re_table_cell U0 U0.
Proof.
  unfold re_table_cell. apply tr_Plus. cbn [AltL]. apply tr_Alt; [apply tr_escaped_char | apply tr_cls_35].
Qed.

Lemma tr_table_cell_spoiler : tr re_table_cell_spoiler U0 U0.
Proof.
  unfold re_table_cell_spoiler. apply tr_Plus. cbn [AltL].
  apply tr_Alt; [apply tr_escaped_char | apply tr_Alt; [apply tr_table_spoiler | apply tr_cls_35]].
Qed.

(* what the cell scanner answers is the length of a prefix its regular expression matches *)
Lemma scan_plain1_matches r s m :
  as_opt_usize (run_rules [RPlain r ActCursor] ActNone 0 s) = Some m -> m <= List.length s /\ matches r (firstn m s).
Proof.
  intro H. destruct (run_rules_plain [RPlain r ActCursor] ActNone s eq_refl) as [[E _]|(r' & a & L & Hin & LM & E & _)];
    rewrite E in H; unfold as_opt_usize in H; cbn [o_act o_cursor] in H; [discriminate H|].
  destruct Hin as [Hin|[]]. inversion Hin; subst r' a. inversion H; subst L.
  apply longest_match_spec in LM. destruct LM as (H1 & H2 & _). split; assumption.
Qed.

Lemma scan_table_cell_matches s sp m :
  scan_table_cell s sp = Some m ->
  m <= List.length s /\ matches (if sp then re_table_cell_spoiler else re_table_cell) (firstn m s).
Proof. unfold scan_table_cell. destruct sp; apply scan_plain1_matches. Qed.

(* the bytes of a cell are whole characters, whatever the input *)
Theorem table_cell_prefix_utf8 s sp : utf8_valid (firstn (or0 (scan_table_cell s sp)) s) = true.
Proof.
  destruct (scan_table_cell s sp) as [m|] eqn:E; cbn [or0]; [|reflexivity].
  apply scan_table_cell_matches in E. destruct E as [_ M].
  apply utf8_run_ustate. destruct sp; [now apply tr_table_cell_spoiler | now apply tr_table_cell].
Qed.

(* unescape_pipes removes ASCII bytes only *)
Lemma unescape_pipes_run : forall s st, utf8_run st s = true -> utf8_run st (unescape_pipes s) = true.
Proof.
  induction s as [|c r IH]; intros st V; [exact V|].
  cbn [unescape_pipes].
  destruct (beqb c x5c && match r with d :: _ => beqb d x7c | [] => false end) eqn:C.
  - apply andb_true_iff in C. destruct C as [C _]. apply beqb_eq in C. subst c.
    cbn [utf8_run] in V. destruct (ustep st x5c) as [st1|] eqn:E; [|discriminate V].
    destruct (FrontMatterProofs.ustep_ascii st x5c st1 eq_refl E) as [-> ->]. now apply IH.
  - cbn [utf8_run] in *. destruct (ustep st c) as [st1|]; [now apply IH | discriminate V].
Qed.

Lemma unescape_pipes_valid s : utf8_valid s = true -> utf8_valid (unescape_pipes s) = true.
Proof. apply unescape_pipes_run. Qed.

Theorem row_cell_content_utf8 s sp off :
  utf8_valid (trim_slice (unescape_pipes (firstn (or0 (scan_table_cell (skipn off s) sp)) (skipn off s)))) = true.
Proof. apply trim_slice_valid, unescape_pipes_valid, table_cell_prefix_utf8. Qed.

(* ---- the theorems of part 2: no Panic site of `row` is reachable, for any bytes *)
Theorem row_never_panics s sp : ng (only []) false (row s sp).
Proof. apply row_sg. intros off _. right. apply row_cell_content_utf8. Qed.

Theorem row_total s sp : exists r, row s sp = Ok r.
Proof. destruct (sg_total _ _ (row_never_panics s sp)) as [r [E _]]. now exists r. Qed.

Theorem table_matches_never_panics s sp : ng (only []) false (table_matches s sp).
Proof. unfold table_matches. apply sgb; [apply row_never_panics | intros; exact I]. Qed.

Theorem table_matches_total s sp : exists b, table_matches s sp = Ok b.
Proof. destruct (sg_total _ _ (table_matches_never_panics s sp)) as [r [E _]]. now exists r. Qed.

(* in the vocabulary of the task: with valid input the from_utf8 site is not reachable (it never is) *)
Corollary row_utf8_no_panic s sp site : utf8_valid s = true -> row s sp <> Panic site.
Proof. intros _ E. destruct (row_total s sp) as [r R]. congruence. Qed.
