(* Proofs/InlinesTotal3Step.v — C01, inline phase, third wave: invariant (S) of the PARSER STATE and its passage
   through the arms of parse_inline that touch the stacks.

   SInv s: there is a list of entries `es` (delimiters and brackets merged, bottom first) with
     dels es = delims s,  brs es = keys of (rev (brackets s)),  es strictly increasing in input position,
     es embeds (InlinesTotal3Emb.emb) into rev (sibs s)  [= the children, first child first],
     sibling ids unique, every entry position <= pos.
   Arms:  frame + append (most arms);  handle_delim (push: the new Text is numdelims copies of the byte, its end
   column is >= numdelims because column_offset >= -pos);  `[` / `![` (push_bracket);  close_bracket_match (the stack
   is cut at the bracket: entries above embed into the new link's children - where process_emphasis runs and,
   by InlinesTotal3Pe, does not panic - entries below into the siblings in front);  the footnote-reference path;
   the autolink rewind (handle_autolink_with), under the hypothesis `spelled`: the trailing Text siblings the
   rewind walks over end in ASCII letters - so none of them is a node named by the stacks (their texts are
   delimiter bytes, curly quotes or brackets).  No axioms. *)
From Coq Require Import List NArith ZArith Arith Bool Strings.String Lia.
From V Require Import Base.Bytes Base.Res Gen.StrLeafGen Gen.Consts Gen.Special Model.Special
     Model.Scan Model.Strings Model.Entity Model.LinkUrl Model.AutolinkLeaf Model.Spx Model.Ast Model.Inlines
     Proofs.StrLeafProofs Proofs.StrLeafEntity Proofs.StrLeafParse
     Proofs.InlinesProofs Proofs.InlinesMemo Proofs.InlinesTotalAutolink Proofs.InlinesTotalFuel Proofs.InlinesTotal
     Proofs.InertInlines Proofs.InlinesTotal2 Proofs.InlinesTotal2Pe Proofs.InlinesTotal2Fuel Proofs.InlinesTotal2Inv
     Proofs.InlinesTotal2Scan Proofs.InlinesTotal2Sites Proofs.InlinesTotal3Emb Proofs.InlinesTotal3Pe.
Import ListNotations.
Local Open Scope list_scope.

(* ------------------------------------------------------------------ small facts *)
Lemma firstn_count_beqb c : forall l, firstn (count_while_b (beqb c) l) l = repeat c (count_while_b (beqb c) l).
Proof.
  induction l as [|x l IH]; cbn [count_while_b firstn repeat]; [reflexivity|].
  destruct (beqb c x) eqn:E; cbn [firstn repeat]; [|reflexivity].
  apply beqb_eq in E. subst x. rewrite IH. reflexivity.
Qed.

Lemma mk_ec s v a b n : mk s v a b = Ok n ->
  text_of n = (match v with Text t => Some t | _ => None end)
  /\ Z.of_N (ec (nsp n)) = (Z.of_nat b + 1 + coloff s + Z.of_N (lineoff s))%Z.
Proof.
  unfold mk, make_inline_cols, to_usize. rewrite !nat_N_Z.
  destruct (_ <? 0)%Z eqn:E1; cbn [bind]; [discriminate|].
  match goal with |- context [if ?c then _ else _] => destruct c eqn:E2 end; cbn [bind]; [discriminate|].
  intro H. inversion H. cbn [nsp ec text_of nval fst snd]. split; [reflexivity|].
  apply Z.ltb_ge in E2. lia.
Qed.

Lemma repeat_snoc {A} (x : A) n : repeat x n ++ [x] = x :: repeat x n.
Proof. induction n as [|n IH]; cbn [repeat app]; [reflexivity|]. rewrite IH. reflexivity. Qed.
Lemma rev_repeat {A} (x : A) n : rev (repeat x n) = repeat x n.
Proof. induction n as [|n IH]; cbn [repeat rev]; [reflexivity|]. rewrite IH. apply repeat_snoc. Qed.

(* the last byte of a Text named by an entry is not an ASCII letter *)
Definition last_nonalpha (t : bytes) : Prop := exists b r, rev t = b :: r /\ sl_isalpha b = false.

Lemma dchar_nonalpha o ch : dchar_ok o ch = true -> sl_isalpha ch = false.
Proof.
  unfold dchar_ok, is_emph_char, quote. intro H.
  repeat match type of H with
         | context [beqb ch ?k] => let E := fresh "E" in destruct (beqb ch k) eqn:E; [apply beqb_eq in E; subst ch; reflexivity|]
         end.
  rewrite ?andb_false_r in H. discriminate H.
Qed.

Lemma enode_nonalpha o e it :
  (forall d, e = ED d -> dchar_ok o (d_char d) = true) -> enode e it ->
  exists t, text_of (snd it) = Some t /\ last_nonalpha t.
Proof.
  intros Hd [_ H]. destruct e as [d|i p g].
  - destruct H as (t & Et & Dt & _). exists t. split; [exact Et|]. unfold dtext in Dt.
    destruct (quote (d_char d)).
    + cbn in Dt. repeat (destruct Dt as [<-|Dt]; [eexists; eexists; split; [reflexivity|reflexivity]|]). destruct Dt.
    + destruct Dt as (k & Hk & _ & ->). destruct k as [|k]; [lia|].
      unfold last_nonalpha. rewrite rev_repeat.
      cbn [repeat]. eexists; eexists; split; [reflexivity|]. eapply dchar_nonalpha. apply Hd. reflexivity.
  - exists (btext g). split; [exact H|]. destruct g; eexists; eexists; split; reflexivity.
Qed.

(* ------------------------------------------------------------------ (T), as far as the rewind needs it *)
(* the trailing siblings (last child first) over which `rewind_loop k` walks are Texts that END in k ASCII letters,
   and the last one it shortens has an end column >= what is taken away *)
Fixpoint spelled (l : list item) (k : nat) : Prop :=
  match k with
  | O => True
  | _ =>
    match l with
    | [] => False
    | it :: r =>
      exists t, text_of (snd it) = Some t /\ forallb sl_isalpha (firstn k (rev t)) = true /\
        (if Nat.ltb k (List.length t) then (N.of_nat k <= ec (nsp (snd it)))%N else spelled r (k - List.length t))
    end
  end.

Lemma rewind_total : forall fuel k l, List.length l < fuel -> spelled l k ->
  exists l', rewind_loop fuel k l = Ok l'.
Proof.
  induction fuel as [|f IH]; intros k l Hf Hs; [lia|].
  cbn [rewind_loop]. destruct k as [|k]; [eauto|].
  destruct l as [|[id n] r]; [destruct Hs|]. cbn [spelled snd] in Hs.
  destruct Hs as (t & Et & _ & Hs). rewrite Et.
  destruct (Nat.ltb (S k) (List.length t)).
  - unfold nsub. destruct (_ <? _)%N eqn:E; [apply N.ltb_lt in E; lia|]. cbn [bind]. eauto.
  - apply IH; [cbn [List.length] in Hf; lia|exact Hs].
Qed.

Lemma alpha_last_contra t k :
  1 <= k -> t <> [] -> forallb sl_isalpha (firstn k (rev t)) = true -> last_nonalpha t -> False.
Proof.
  intros Hk Ht Ha (b & r & Er & Hb). rewrite Er in Ha. destruct k; [lia|]. cbn [firstn forallb] in Ha.
  rewrite Hb in Ha. discriminate Ha.
Qed.

Lemma rewind_emb o es : forall fuel k l l',
  (forall d, In (ED d) es -> dchar_ok o (d_char d) = true) ->
  spelled l k -> rewind_loop fuel k l = Ok l' -> emb es (rev l) ->
  emb es (rev l') /\ (forall j, idc l' j <= idc l j).
Proof.
  induction fuel as [|f IH]; intros k l l' Hd Hs H E.
  - destruct k; [|discriminate]. inversion H; subst. split; [exact E|intro; lia].
  - cbn [rewind_loop] in H. destruct k as [|k]; [inversion H; subst; split; [exact E|intro; lia]|].
    destruct l as [|[id n] r]; [discriminate|]. cbn [spelled snd] in Hs.
    destruct Hs as (t & Et & Ha & Hs). rewrite Et in H.
    assert (emb es (rev r)) as Er.
    { cbn [rev] in E. apply emb_snoc_inv in E. destruct E as [E|(es0 & e & -> & Hn & E)]; [exact E|]. exfalso.
      destruct (enode_nonalpha o e (id, n)) as (t' & Et' & Hl); [|exact Hn|].
      - intros d ->. apply Hd. apply in_or_app. right. left. reflexivity.
      - cbn [snd] in Et'. rewrite Et in Et'. inversion Et'; subst t'.
        eapply (alpha_last_contra t (S k)); [lia| |exact Ha|exact Hl].
        destruct Hl as (b & r0 & Hr & _). intros ->. discriminate Hr. }
    destruct (Nat.ltb (S k) (List.length t)).
    + destruct (nsub _ _ _) as [c|?|]; cbn [bind] in H; try discriminate. inversion H; subst l'. split.
      * cbn [rev]. apply emb_app_r. exact Er.
      * intro j. cbn [idc fst]. lia.
    + destruct (IH _ _ _ Hd Hs H Er) as [A B]. split; [exact A|]. intro j. specialize (B j). cbn [idc]. lia.
Qed.

(* ------------------------------------------------------------------ the state invariant *)
Section SI.
Variable o : iopts.
Variable u : oracle.
Variable inp : bytes.
Variable refmap : list (bytes * (bytes * bytes)).
Variable maxref : N.

Definition SI (es : list entry) (s : st) : Prop :=
  dels es = delims s /\ brs es = map bkey (rev (brackets s)) /\ sorted es /\
  emb es (rev (sibs s)) /\ uniq (sibs s) /\ (forall e, In e es -> epos e <= pos s).

Definition SInv (s : st) : Prop := exists es, SI es s.

(* nid is above every sibling id (from FIN) *)
Definition NF (s : st) : Prop := fresh (sibs s) (nid s).

Lemma FIN_NF s : FIN o inp s -> NF s.
Proof. intros [_ [_ I3]]. apply fresh_of_lt. exact I3. Qed.

Lemma SI_same es s s' :
  SI es s -> delims s' = delims s -> brackets s' = brackets s -> sibs s' = sibs s -> pos s <= pos s' -> SI es s'.
Proof.
  intros (A & B & C & D & E & F) F1 F2 F3 Hp. unfold SI. rewrite F1, F2, F3.
  repeat split; try assumption. intros e He. specialize (F e He). lia.
Qed.

Lemma SI_frame es s s' : SI es s -> frame s s' -> pos s <= pos s' -> SI es s'.
Proof. intros H (F1 & F2 & F3 & _) Hp. eapply SI_same; eassumption. Qed.

Lemma SI_push es s n : SI es s -> NF s -> SI es (fst (push_item s n)).
Proof.
  intros (A & B & C & D & E & F) Hn. unfold SI, push_item. cbn [fst delims brackets sibs pos set_sibs].
  repeat split; try assumption.
  - cbn [rev]. apply emb_app_r. exact D.
  - intro j. cbn [idc fst]. specialize (E j). destruct (Nat.eqb (nid s) j) eqn:Ej; [|lia].
    apply Nat.eqb_eq in Ej. subst j. rewrite (Hn (nid s)) by lia. lia.
Qed.

Lemma SInv_frame_push s s1 n : SInv s -> NF s -> frame s s1 -> pos s <= pos s1 -> SInv (fst (push_item s1 n)).
Proof.
  intros [es H] Hn F Hp. exists es. apply SI_push; [eapply SI_frame; eassumption|].
  destruct F as (_ & _ & F3 & F4). unfold NF. rewrite F3, F4. exact Hn.
Qed.

(* ------------------------------------------------------------------ a delimiter run is pushed *)
Lemma SI_push_entry es s n e :
  SI es s -> NF s -> eid e = nid s -> enode e (nid s, n) -> (forall x, In x es -> epos x < epos e) -> epos e <= pos s ->
  emb (es ++ [e]) (rev (sibs (fst (push_item s n)))) /\ sorted (es ++ [e])
  /\ uniq (sibs (fst (push_item s n))) /\ (forall x, In x (es ++ [e]) -> epos x <= pos s).
Proof.
  intros (A & B & C & D & E & F) Hn Hid He Hlt Hp. cbn [push_item fst sibs set_sibs rev].
  split; [apply emb_app; [exact D|apply emb_one; exact He]|].
  split; [apply sorted_snoc; [exact C|exact Hlt]|].
  split.
  - intro j. cbn [idc fst]. specialize (E j). destruct (Nat.eqb (nid s) j) eqn:Ej; [|lia].
    apply Nat.eqb_eq in Ej. subst j. rewrite (Hn (nid s)) by lia. lia.
  - intros x Hx. apply in_app_or in Hx. destruct Hx as [Hx|[<-|[]]]; [apply F, Hx|exact Hp].
Qed.

Lemma handle_delim_S s c s1 n d' :
  CInv inp s -> nth_error inp (pos s) = Some c ->
  handle_delim o u inp s c = Ok (s1, n, Some d') ->
  frame s s1 /\ pos s < pos s1 /\ d_id d' = nid s1 /\ d_pos d' = pos s1 /\ d_char d' = c /\
  exists t, text_of n = Some t /\ dtext d' t /\ (quote (d_char d') = false -> (N.of_nat (List.length t) <= ec (nsp n))%N).
Proof.
  intros (C1 & C2 & _) Ec H. unfold handle_delim in H.
  pose proof (scan_delims_fst o inp u (pos s) c) as Hsd. cbv zeta in Hsd.
  destruct (scan_delims o u inp (pos s) c) as [[[p' nd] co] cc]. cbn [fst snd] in Hsd. destruct Hsd as [Hp' Hnd].
  assert (1 <= nd) as Hnd1.
  { subst nd. destruct (beqb c x27 || beqb c x22); [lia|].
    pose proof (count_eq_pos inp c (pos s) c Ec) as A. unfold beqb in A. rewrite N.eqb_refl in A. exact (A eq_refl). }
  match type of H with bind ?r _ = _ => destruct r as [a|?|] eqn:Ea end; cbn [bind] in H; try discriminate.
  apply usub_ok in Ea. destruct Ea as [_ Ea].
  match type of H with bind ?r _ = _ => destruct r as [contents|?|] eqn:Econt end; cbn [bind] in H; try discriminate.
  match type of H with bind ?r _ = _ => destruct r as [e|?|] eqn:Ee end; cbn [bind] in H; try discriminate.
  apply usub_ok in Ee. destruct Ee as [_ Ee].
  match type of H with bind ?r _ = _ => destruct r as [n'|?|] eqn:Emk end; cbn [bind] in H; try discriminate.
  apply mk_ec in Emk. destruct Emk as [Htx Hec]. cbn [coloff lineoff set_pos] in Hec.
  match type of H with (if ?b then _ else _) = _ => destruct b eqn:Eb end; [|discriminate H].
  inversion H; subst s1 n d'. clear H. cbn [pos nid set_pos d_id d_pos d_char d_len].
  split; [unfold frame; cbn [delims brackets sibs nid set_pos]; auto|]. split; [lia|].
  split; [reflexivity|]. split; [reflexivity|]. split; [reflexivity|].
  exists contents. split; [exact Htx|]. unfold dtext. cbn [d_char d_len].
  apply andb_true_iff in Eb. destruct Eb as [_ Eb].
  destruct (beqb c x27 && io_smart o) eqn:Q1.
  { apply andb_true_iff in Q1. destruct Q1 as [Q1 _]. inversion Econt; subst contents.
    unfold quote. rewrite Q1. cbn [orb]. split; [cbn; auto|intro K; discriminate K]. }
  destruct (beqb c x22 && io_smart o) eqn:Q2.
  { apply andb_true_iff in Q2. destruct Q2 as [Q2 _]. inversion Econt; subst contents.
    unfold quote. rewrite Q2, orb_true_r. split; [destruct cc; cbn; auto|intro K; discriminate K]. }
  assert (quote c = false) as Qc.
  { unfold quote. destruct (beqb c x27) eqn:K1; destruct (beqb c x22) eqn:K2; cbn [orb negb andb] in *; try reflexivity;
      destruct (io_smart o); cbn [andb orb] in *; discriminate. }
  rewrite Qc. unfold quote in Qc. rewrite Qc in Hnd, Hp'.
  apply slice_ok in Econt. destruct Econt as (_ & _ & ->).
  assert (a = pos s) as -> by lia. replace (p' - pos s) with nd by lia.
  subst nd. unfold count_eq. rewrite firstn_count_beqb. split.
  - eexists. split; [exact Hnd1|]. split; [|reflexivity]. rewrite repeat_length. apply Nat.le_refl.
  - intros _. rewrite repeat_length. unfold count_eq in *. lia.
Qed.

Lemma SInv_push_delim s s2 n d' :
  SInv s -> NF s -> frame s s2 -> pos s < pos s2 -> d_id d' = nid s2 -> d_pos d' = pos s2 ->
  (exists t, text_of n = Some t /\ dtext d' t /\ (quote (d_char d') = false -> (N.of_nat (List.length t) <= ec (nsp n))%N)) ->
  SInv (set_delims (fst (push_item s2 n)) (delims (fst (push_item s2 n)) ++ [d'])).
Proof.
  intros [es H] Hn F Hp Hid Hpos Ht. pose proof F as (F1 & F2 & F3 & F4).
  assert (SI es s2) as H2 by (eapply SI_frame; [exact H|exact F|lia]).
  assert (NF s2) as Hn2 by (unfold NF; rewrite F3, F4; exact Hn).
  destruct (SI_push_entry es s2 n (ED d') H2 Hn2) as (A & B & C & D).
  - exact Hid.
  - split; [cbn [fst eid]; symmetry; exact Hid|]. cbn [snd]. exact Ht.
  - intros x Hx. destruct H as (_ & _ & _ & _ & _ & Hle). specialize (Hle x Hx). cbn [epos]. lia.
  - cbn [epos]. lia.
  - exists (es ++ [ED d']). destruct H2 as (A0 & B0 & _).
    unfold SI. cbn [delims brackets sibs pos set_delims push_item fst set_sibs] in *.
    split; [rewrite dels_app, A0; reflexivity|]. split; [rewrite brs_app, B0; cbn [brs]; apply app_nil_r|].
    repeat split; assumption.
Qed.

(* ------------------------------------------------------------------ a bracket is pushed *)
Lemma SInv_push_bracket s s2 n img :
  SInv s -> NF s -> frame s s2 -> pos s < pos s2 -> text_of n = Some (btext img) ->
  SInv (set_within (push_bracket (fst (push_item s2 n)) img (snd (push_item s2 n))) true).
Proof.
  intros [es H] Hn F Hp Ht. pose proof F as (F1 & F2 & F3 & F4).
  assert (SI es s2) as H2 by (eapply SI_frame; [exact H|exact F|lia]).
  assert (NF s2) as Hn2 by (unfold NF; rewrite F3, F4; exact Hn).
  destruct (SI_push_entry es s2 n (EB (nid s2) (pos s2) img) H2 Hn2) as (A & B & C & D).
  - reflexivity.
  - split; [reflexivity|]. cbn [snd]. exact Ht.
  - intros x Hx. destruct H as (_ & _ & _ & _ & _ & Hle). specialize (Hle x Hx). cbn [epos]. lia.
  - cbn [epos]. lia.
  - exists (es ++ [EB (nid s2) (pos s2) img]). destruct H2 as (A0 & B0 & _).
    unfold SI, push_bracket. cbn [push_item fst snd].
    assert (forall bs, map bkey (rev (mkBracket (nid s2) (pos s2) img false ::
               match bs with [] => [] | b :: r => mkBracket (b_id b) (b_pos b) (b_image b) true :: r end))
             = map bkey (rev bs) ++ [(nid s2, pos s2, img)]) as Hk.
    { intros [|b r]; cbn [rev map app]; [reflexivity|]. rewrite !map_app. cbn [map]. reflexivity. }
    destruct img; cbn [delims brackets sibs pos set_within set_brackets set_nlo set_sibs] in *;
      (split; [rewrite dels_app, A0; cbn [dels]; apply app_nil_r|]);
      (split; [rewrite brs_app, B0, Hk; reflexivity|]); repeat split; assumption.
Qed.

(* ------------------------------------------------------------------ the stack cut at the top bracket *)
Lemma SI_cut es s b br after_rev bi before_rev :
  SI es s -> brackets s = b :: br -> split_at_id (b_id b) (sibs s) = Some (after_rev, bi, before_rev) ->
  exists A B, es = A ++ EB (b_id b) (b_pos b) (b_image b) :: B /\ brs A = map bkey (rev br) /\ brs B = []
    /\ emb A (rev before_rev) /\ emb B (rev after_rev)
    /\ delims_below (delims s) (b_pos b) = dels A /\ delims_from (delims s) (b_pos b) = dels B
    /\ sorted A /\ text_of (snd bi) = Some (btext (b_image b)).
Proof.
  intros (HA & HB & HC & HD & HE & HF) Eb Es.
  apply split_at_id_eq in Es. destruct Es as [Es Hid].
  rewrite Eb in HB. cbn [rev] in HB. rewrite map_app in HB. cbn [map] in HB.
  destruct (brs_snoc_inv _ _ _ HB) as (A & B & -> & HbA & HbB). unfold bkey in *. cbn [fst snd] in *.
  exists A, B. split; [reflexivity|]. split; [exact HbA|]. split; [exact HbB|].
  rewrite Es in HD. rewrite rev_app_distr in HD. cbn [rev] in HD. rewrite <- app_assoc in HD. cbn [app] in HD.
  assert (uniq (rev before_rev ++ bi :: rev after_rev)) as U.
  { intro j. specialize (HE j). rewrite Es in HE. rewrite idc_app in *. cbn [idc] in *. rewrite !idc_rev. lia. }
  destruct (emb_split A (EB (b_id b) (b_pos b) (b_image b)) B _ _ _ U Hid HD) as (E1 & N & E2).
  destruct (dels_cut A B _ _ _ HC) as [D1 D2]. rewrite HA in D1, D2.
  split; [exact E1|]. split; [exact E2|]. split; [exact D1|]. split; [exact D2|].
  split; [apply sorted_app_inv in HC; apply HC|]. apply N.
Qed.

Lemma SI_bracket_in es s b br :
  SI es s -> brackets s = b :: br -> In (b_id b) (map fst (sibs s)) /\ b_pos b <= pos s.
Proof.
  intros (HA & HB & HC & HD & HE & HF) Eb.
  rewrite Eb in HB. cbn [rev] in HB. rewrite map_app in HB. cbn [map] in HB.
  destruct (brs_snoc_inv _ _ _ HB) as (A & B & -> & _ & _). unfold bkey in *. cbn [fst snd] in *.
  split.
  - pose proof (emb_ids _ _ HD (EB (b_id b) (b_pos b) (b_image b))) as K. cbn [eid] in K.
    rewrite map_rev in K. apply in_rev. apply K. apply in_or_app. right. left. reflexivity.
  - apply (HF (EB (b_id b) (b_pos b) (b_image b))). apply in_or_app. right. left. reflexivity.
Qed.

(* pop_bracket: the last bracket entry leaves *)
Lemma SInv_pop s : SInv s -> SInv (pop_bracket s).
Proof.
  intros [es (HA & HB & HC & HD & HE & HF)]. unfold pop_bracket.
  destruct (brackets s) as [|b br] eqn:Eb.
  - exists es. unfold SI. cbn [delims brackets sibs pos set_brackets]. repeat split; assumption.
  - cbn [rev] in HB. rewrite map_app in HB. cbn [map] in HB.
    destruct (brs_snoc_inv _ _ _ HB) as (A & B & -> & HbA & HbB).
    exists (A ++ B). unfold SI. cbn [delims brackets sibs pos set_brackets].
    split; [rewrite dels_app in *; cbn [dels] in HA; exact HA|].
    split; [rewrite brs_app, HbA, HbB; apply app_nil_r|].
    split; [eapply sorted_drop; exact HC|]. split; [eapply emb_drop; exact HD|]. split; [exact HE|].
    intros e He. apply HF. apply in_app_or in He. apply in_or_app. destruct He; [left|right; right]; assumption.
Qed.

(* ------------------------------------------------------------------ close_bracket_match *)
Lemma cbm_S s img url title :
  (- coloff s <= Z.of_nat (pos s))%Z -> (forall d, In d (delims s) -> dchar_ok o (d_char d) = true) ->
  SInv s -> NF s -> brackets s <> [] ->
  (forall site, close_bracket_match o inp s img url title <> Panic site)
  /\ (forall s', close_bracket_match o inp s img url title = Ok s' -> SInv s').
Proof.
  intros C Hd [es H] Hn Hb. unfold close_bracket_match, top_bracket.
  destruct (brackets s) as [|b br] eqn:Eb; [congruence|]. cbn [bind].
  destruct (mk s _ (pos s) (pos s)) as [tmp|site0|] eqn:Etmp; cbn [bind].
  2:{ exfalso. apply mk_panic' in Etmp. lia. }
  2:{ exfalso. revert Etmp. apply mk_nofuel. }
  destruct (SI_bracket_in es s b br H Eb) as [Hin Hbp].
  destruct (split_at_id (b_id b) (sibs s)) as [[[after_rev bi] before_rev]|] eqn:Es.
  2:{ exfalso. revert Es. apply split_at_id_some. exact Hin. }
  destruct (SI_cut es s b br _ _ _ H Eb Es) as (A & B & -> & HbA & HbB & EA & EB' & DA & DB & SA & _).
  apply split_at_id_eq in Es. destruct Es as [Es _].
  destruct (end_col s) as [ecol|site0|] eqn:Ee; cbn [bind].
  2:{ exfalso. apply end_col_panic in Ee. lia. }
  2:{ exfalso. revert Ee. apply end_col_nofuel. }
  cbv zeta. unfold fresh_id. cbn [fst snd nid sibs delims set_sibs].
  rewrite DB.
  destruct (process_emphasis o inp _ (S (nid s)) (rev after_rev) (dels B) (b_pos b)) as [[kids n1]|site0|] eqn:Ep; cbn [bind].
  3:{ split; [intros; discriminate|intros; discriminate]. }
  2:{ exfalso. eapply (process_emphasis_S o inp _ (S (nid s)) (rev after_rev) (dels B)); [| | | | |exact Ep].
      - cbn [coloff pos set_sibs]. exact C.
      - apply Forall_forall. intros d Hdin. apply Hd.
        destruct H as (HA & _). rewrite <- HA. rewrite dels_app. apply in_or_app. right. cbn [dels]. exact Hdin.
      - rewrite (map_ED_dels B HbB). exact EB'.
      - intro j. destruct H as (_ & _ & _ & _ & HE & _). specialize (HE j). rewrite Es, idc_app in HE. rewrite idc_rev. lia.
      - intros k Hk. specialize (Hn k ltac:(lia)). rewrite Es, idc_app in Hn. rewrite idc_rev. lia. }
  split; [destruct img; intros; discriminate|].
  intros s' Hs'.
  assert (SI A (pop_bracket (set_delims (set_sibs (set_sibs s (S (nid s)) (sibs s)) n1
            ((nid s, Node (nval tmp) (mkSp (sl (nsp (snd bi))) (sc (nsp (snd bi))) (el (nsp tmp)) ecol) (map snd kids)) :: before_rev))
            (delims_below (delims s) (b_pos b))))) as I'.
  { destruct H as (HA & HB & HC & HD & HE & HF).
    unfold SI, pop_bracket. cbn [delims brackets sibs pos set_sibs set_delims set_brackets]. rewrite Eb.
    split; [symmetry; exact DA|]. split; [exact HbA|]. split; [exact SA|].
    split; [cbn [rev]; apply emb_app_r; exact EA|].
    split.
    - intro j. cbn [idc fst]. specialize (HE j). rewrite Es, idc_app in HE. cbn [idc] in HE.
      destruct (Nat.eqb (nid s) j) eqn:Ej; [|lia]. apply Nat.eqb_eq in Ej. subst j.
      specialize (Hn (nid s) ltac:(lia)). rewrite Es, idc_app in Hn. cbn [idc] in Hn. lia.
    - intros e He. apply HF. apply in_or_app. left. exact He. }
  cbn [delims set_sibs] in Hs'.
  destruct img; inversion Hs'; subst s'; exists A; [exact I'|].
  eapply SI_same; [exact I'| | | |]; cbn [delims brackets sibs pos set_nlo]; auto.
Qed.

(* ------------------------------------------------------------------ handle_close_bracket *)
Ltac absurd_site :=
  exfalso; simp_st;
  repeat match goal with
         | H : context [if ?b then _ else _] |- _ =>
           match b with context [if _ then _ else _] => fail 1 | _ => destruct b eqn:? end
         end;
  bools; unfold len in *;
  first [ lia
        | match goal with
          | E : peek_is _ ?p _ = true, E0 : peek _ ?p = None |- _ => unfold peek_is in E; rewrite E0 in E; discriminate E
          end ].

Lemma close_text_total s site :
  (- coloff s <= Z.of_nat (pos s) - 1)%Z ->
  (do n <- mk s (Text [x5d]) (pos s - 1) (pos s - 1); Ok (s, Some n)) = Panic site -> False.
Proof. intros C H. invp. lia. Qed.

Lemma hcb_S s0 :
  CInv inp s0 -> RInv maxref s0 -> (forall d, In d (delims s0) -> dchar_ok o (d_char d) = true) ->
  pos s0 < List.length inp ->
  SInv s0 -> NF s0 ->
  (forall site, handle_close_bracket o u inp refmap maxref s0 <> Panic site)
  /\ (forall s' n, handle_close_bracket o u inp refmap maxref s0 = Ok (s', n) -> SInv s').
Proof.
  intros (C1 & C2 & _) R Hd Hlt I0 Hn0. unfold handle_close_bracket. unfold RInv in R.
  set (s := set_pos s0 (S (pos s0))).
  assert ((- coloff s <= Z.of_nat (pos s) - 1)%Z) as C by (unfold s; simp_st; lia).
  assert (forall d, In d (delims s) -> dchar_ok o (d_char d) = true) as Hd' by exact Hd.
  assert ((refsize s <= maxref)%N) as R' by exact R.
  assert (pos s <= List.length inp) as Hlen by (unfold s; simp_st; lia).
  assert (SInv s) as I.
  { destruct I0 as [es I0]. exists es. eapply SI_same; [exact I0| | | |]; unfold s; simp_st; auto. }
  assert (NF s) as Hn by exact Hn0.
  assert (forall es b br, SI es s -> brackets s = b :: br -> b_pos b <= pos s - 1) as Hbpos.
  { intros es b br (HA & HB & HC & HD & HE & HF) Eb.
    destruct I0 as [es0 I0]. assert (brackets s0 = b :: br) as Eb0 by exact Eb.
    destruct (SI_bracket_in es0 s0 b br I0 Eb0) as [_ K]. unfold s. simp_st. lia. }
  clearbody s. clear Hd R C1 C2 I0 Hn0 Hlt.
  destruct (brackets s) as [|b br] eqn:Eb.
  { split; [intros site H; eapply close_text_total; eassumption|]. intros s' n H. inv. exact I. }
  cbv zeta.
  assert (SInv (pop_bracket s)) as Ipop by (apply SInv_pop; exact I).
  destruct (negb (b_image b) && nlo s).
  { split; [intros site H; eapply (close_text_total (pop_bracket s)); [exact C|exact H]|]. intros s' n H. inv. exact Ipop. }
  destruct I as [es I].
  destruct (SI_bracket_in es s b br I Eb) as [Hin _].
  destruct (split_at_id (b_id b) (sibs s)) as [[[after_rev bi] before_rev]|] eqn:Es.
  2:{ exfalso. revert Es. apply split_at_id_some. exact Hin. }
  match goal with |- context [if ?c then _ else _] => destruct c end.
  { split; [intros site H; eapply (close_text_total (pop_bracket s)); [exact C|exact H]|]. intros s' n H. inv. exact Ipop. }
  match goal with |- context [bind ?r _] => destruct r as [il|site0|] eqn:Eil; cbn [bind] end.
  3:{ split; intros; discriminate. }
  2:{ exfalso. unfold from in Eil.
      repeat first [ invp1 | inv1 ]; subst;
      try match goal with
          | E : clean_title _ = Panic _ |- _ => apply clean_title_panic_len in E; rewrite firstn_length, skipn_length in E
          end;
      scanfacts; try absurd_site. }
  destruct il as [[[p' cu] ct]|].
  - assert (pos s <= p') as Hp'.
    { unfold from in Eil. clear -Eil. inv; repeat match goal with |- context [if ?b then _ else _] => destruct b end; lia. }
    destruct (cbm_S (set_pos s p') (b_image b) cu ct) as [P1 P2].
    + simp_st. lia.
    + exact Hd'.
    + exists es. eapply SI_same; [exact I| | | |]; simp_st; auto.
    + exact Hn.
    + simp_st. rewrite Eb. discriminate.
    + split.
      * intros site H. destruct (close_bracket_match _ _ _ _ _ _) as [s1|site1|] eqn:Ec; cbn [bind] in H; try discriminate H.
        eapply P1. reflexivity.
      * intros s' n H. destruct (close_bracket_match _ _ _ _ _ _) as [s1|site1|] eqn:Ec; cbn [bind] in H; try discriminate H.
        inversion H; subst. apply P2. reflexivity.
  - match goal with |- context [match ?x with _ => _ end] =>
      match x with match link_label _ _ with _ => _ end => destruct x as [[lab0 found0] p1] eqn:Ell end end.
    assert (pos s <= p1) as Hp1.
    { destruct (link_label inp (pos s)) as [[l q]|] eqn:El.
      - apply link_label_gt in El. inversion Ell; subst. lia.
      - inversion Ell; subst. lia. }
    match goal with |- context [bind ?r _] => destruct r as [[lab fl]|site0|] eqn:Elab; cbn [bind] end.
    3:{ split; intros; discriminate. }
    2:{ exfalso. specialize (Hbpos es b br I eq_refl). invp; try absurd_site. }
    match goal with |- context [bind ?r _] => destruct r as [[s2 reff]|site0|] eqn:Elk; cbn [bind] end.
    3:{ split; intros; discriminate. }
    2:{ exfalso. destruct fl; [|discriminate Elk]. eapply ref_lookup_sites; [|exact Elk]. simp_st. exact R'. }
    assert (frame s s2) as F by (eapply frame_trans; [apply frame_set_pos | exact (lk_frame _ _ _ _ _ _ _ Elk)]).
    assert (line s2 = line s /\ coloff s2 = coloff s /\ pos s2 = p1) as (F1 & F2 & F3).
    { destruct fl.
      - apply ref_lookup_fields in Elk. simp_st. destruct Elk as (A & B & D & _). auto.
      - inversion Elk; subst. simp_st. auto. }
    pose proof F as (G1 & G2 & G3 & G4).
    assert (SI es s2) as I2 by (eapply SI_frame; [exact I|exact F|lia]).
    assert (NF s2) as Hn2 by (unfold NF; rewrite G3, G4; exact Hn).
    destruct reff as [[url title]|].
    + destruct (cbm_S s2 (b_image b) url title) as [P1 P2].
      * rewrite F2. lia.
      * rewrite G1. exact Hd'.
      * exists es. exact I2.
      * exact Hn2.
      * rewrite G2, Eb. discriminate.
      * split.
        -- intros site H. destruct (close_bracket_match _ _ _ _ _ _) as [s1|site1|] eqn:Ec; cbn [bind] in H; try discriminate H.
           eapply P1. reflexivity.
        -- intros s' n H. destruct (close_bracket_match _ _ _ _ _ _) as [s1|site1|] eqn:Ec; cbn [bind] in H; try discriminate H.
           inversion H; subst. apply P2. reflexivity.
    + match goal with |- context [if ?c then _ else _] => destruct c end.
      * (* footnote reference *)
        split.
        -- intros site H. invp; simp_st; try absurd_site. all: exfalso; rewrite ?F2 in *; lia.
        -- intros s' n H.
           destruct (mk _ _ _ _) as [tmp|?|] eqn:Emk; cbn [bind] in H; try discriminate.
           destruct (end_col _) as [ecol|?|]; cbn [bind] in H; try discriminate.
           cbn [fresh_id] in H. inversion H; subst s' n. clear H.
           assert (split_at_id (b_id b) (sibs s2) = Some (after_rev, bi, before_rev)) as Es2 by (rewrite G3; exact Es).
           assert (brackets s2 = b :: br) as Eb2 by (rewrite G2; exact Eb).
           destruct (SI_cut es s2 b br _ _ _ I2 Eb2 Es2) as (A & B & -> & HbA & HbB & EA & _ & DA & _ & SA & _).
           apply split_at_id_eq in Es2. destruct Es2 as [Es2 _].
           exists A. destruct I2 as (HA & HB & HC & HD & HE & HF).
           unfold SI, pop_bracket. cbn [delims brackets sibs pos set_pos set_sibs set_delims set_brackets fst snd]. rewrite Eb2.
           split; [symmetry; exact DA|]. split; [exact HbA|]. split; [exact SA|].
           split; [rewrite rev_app_distr; cbn [rev]; rewrite <- app_assoc; apply emb_app_r; exact EA|].
           split.
           ++ intro j. rewrite idc_app. cbn [idc fst nid set_pos].
              match goal with |- idc ?l j + _ <= 1 => assert (idc l j <= idc after_rev j) as Kf by apply idc_filter end.
              specialize (HE j). rewrite Es2, idc_app in HE. cbn [idc] in HE.
              destruct (Nat.eqb (nid s2) j) eqn:Ej; [|lia]. apply Nat.eqb_eq in Ej. subst j.
              specialize (Hn2 (nid s2) ltac:(lia)). rewrite Es2, idc_app in Hn2. cbn [idc] in Hn2. lia.
           ++ intros e He. destruct I as (_ & _ & _ & _ & _ & HF0). exact (HF0 e (in_or_app _ _ _ (or_introl He))).
      * split.
        -- intros site H. eapply (close_text_total (set_pos (pop_bracket s2) (pos s))); [|exact H].
           unfold pop_bracket. simp_st. rewrite F2. exact C.
        -- intros s' n H. clear Elk.
           assert (SInv (set_pos (pop_bracket s2) (pos s))) as Ifin.
           { destruct Ipop as [es' I']. exists es'.
             eapply SI_same; [exact I'| | | |]; unfold pop_bracket; simp_st; try congruence; try lia.
             rewrite G2. reflexivity. }
           inv; exact Ifin.
Qed.

(* ------------------------------------------------------------------ the autolink arms *)
Lemma haw_S s m :
  (forall r, m (pos s) = r ->
     match r with Ok (Some (_, _, rv, sk)) => rv <= sk /\ spelled (sibs s) rv | Ok None => True | Panic _ => False | OutOfFuel => True end) ->
  (forall d, In d (delims s) -> dchar_ok o (d_char d) = true) ->
  SInv s ->
  (forall site, handle_autolink_with o s m <> Panic site)
  /\ (forall s1 n, handle_autolink_with o s m = Ok (Some (s1, n)) ->
        SInv s1 /\ (forall j, idc (sibs s1) j <= idc (sibs s) j) /\ nid s1 = nid s).
Proof.
  intros Hm Hd [es I]. unfold handle_autolink_with.
  destruct (negb (io_relaxed_autolinks o) && within s); [split; intros; discriminate|].
  cbv zeta. specialize (Hm _ eq_refl).
  destruct (m (pos s)) as [[[[[url text] nr] skip]|]|?|]; cbn [bind]; try (split; intros; discriminate); [|destruct Hm].
  destruct Hm as [Hle Hsp].
  unfold usub. destruct (Nat.ltb skip nr) eqn:E; [apply Nat.ltb_lt in E; lia|]. cbn [bind].
  cbn [sibs nid set_pos].
  destruct (rewind_total (S (List.length (sibs s))) nr (sibs s) ltac:(lia) Hsp) as [l' Er]. rewrite Er. cbn [bind].
  split; [intros; discriminate|].
  intros s1 n H. inversion H; subst s1 n. clear H.
  destruct I as (HA & HB & HC & HD & HE & HF).
  destruct (rewind_emb o es _ _ _ _ (fun d Hdin => Hd d ltac:(rewrite <- HA; apply in_dels; exact Hdin)) Hsp Er HD) as [R1 R2].
  cbn [sibs nid set_sibs set_pos]. split; [|split; [exact R2|reflexivity]].
  exists es. unfold SI. cbn [delims brackets sibs pos set_sibs set_pos].
  repeat split; try assumption.
  - intro j. specialize (R2 j). specialize (HE j). lia.
  - intros e He. specialize (HF e He). lia.
Qed.

End SI.
