(* Proofs/FootnoteOnce.v — "every footnote reference points to a definition that is rendered exactly ONCE", the
   definition side: Spec.FootnoteSpec.defs_once_and_referenced holds of Model/Footnotes.process — the definitions at the
   tail of the root have pairwise distinct names and each has been referenced.  This is the second conjunct of
   Props/C15.v C15_ix_contiguous_full_statement, proved here WITHOUT its no_nested_defs premise and without idempotence
   of preserve; it needs only: preserve-equal labels are fold-equal (normalize_label(_, Preserve) differs from
   normalize_label(_, Fold) by the case fold alone), values() is a permutation, the root is no definition.

   Invariants: the map's keys are pairwise distinct (HashMap), never change during the reference walk, and every entry
   carries key = fold (name of a reachable definition), f_name = preserve of the same name. *)
From Coq Require Import List NArith Bool Lia Permutation.
From V Require Import Base.Bytes Model.Ast Model.Footnotes Spec.FootnoteSpec Spec.Shape
  Proofs.FootnoteProofs Proofs.FootnoteOrder Proofs.FootnoteResolve Proofs.FootnoteOmit Proofs.ParserShapeFn.
Import ListNotations.
Local Open Scope list_scope.

(* ---- generic list facts ---- *)
Lemma NoDup_map_inj {A B} (g : A -> B) l a b : NoDup (map g l) -> In a l -> In b l -> g a = g b -> a = b.
Proof.
  induction l as [|x r IH]; cbn [map In]; intros ND Ha Hb E; [contradiction|].
  inversion ND as [|? ? Nx Nr]; subst.
  destruct Ha as [<-|Ha], Hb as [<-|Hb].
  - reflexivity.
  - exfalso. apply Nx. rewrite E. apply in_map. exact Hb.
  - exfalso. apply Nx. rewrite <- E. apply in_map. exact Ha.
  - apply IH; assumption.
Qed.

Lemma NoDup_map_of_inj {A B} (g : A -> B) l :
  NoDup l -> (forall a b, In a l -> In b l -> g a = g b -> a = b) -> NoDup (map g l).
Proof.
  induction l as [|x r IH]; cbn [map]; intros ND Inj; [constructor|].
  inversion ND as [|? ? Nx Nr]; subst. constructor.
  - intro H. apply in_map_iff in H. destruct H as [y [Ey Hy]].
    assert (y = x) as -> by (apply Inj; [right; exact Hy | left; reflexivity | exact Ey]). exact (Nx Hy).
  - apply IH; [exact Nr|]. intros a b Ha Hb. apply Inj; right; assumption.
Qed.

Lemma names_distinct_NoDup l : NoDup l -> names_distinct l = true.
Proof.
  induction 1 as [|x r Nx _ IH]; cbn [names_distinct]; [reflexivity|].
  rewrite IH, andb_true_r. destruct (existsb (bytes_eqb x) r) eqn:E; [|reflexivity].
  exfalso. apply existsb_exists in E. destruct E as [y [Hy Ey]]. apply bytes_eqb_eq in Ey. subst y. exact (Nx Hy).
Qed.

(* ---- keys stay pairwise distinct ---- *)
Lemma map_insert_NoDup e m : NoDup (keys m) -> NoDup (keys (map_insert e m)).
Proof.
  induction m as [|x r IH]; cbn [map_insert keys map]; intro ND.
  - constructor; [intros [] | constructor].
  - fold (keys r) in ND. inversion ND as [|? ? Nx Nr]; subst.
    destruct (bytes_eqb (f_key x) (f_key e)) eqn:E; cbn [map]; fold (keys r).
    + apply bytes_eqb_eq in E. rewrite <- E. exact ND.
    + fold (keys (map_insert e r)). constructor; [|apply IH; exact Nr].
      intro H. apply map_insert_keys in H. destruct H as [H|H]; [|exact (Nx H)].
      rewrite (proj2 (bytes_eqb_eq _ _) H) in E. discriminate.
Qed.

Section Once.
  Variable fold : bytes -> bytes.
  Variable pres : bytes -> bytes.
  Hypothesis compat : forall x y, pres x = pres y -> fold x = fold y.

  Lemma collect_NoDup ds : forall idx m, NoDup (keys m) -> NoDup (keys (collect fold pres ds idx m)).
  Proof.
    induction ds as [|a r IH]; intros idx m ND; cbn [collect]; [exact ND|].
    apply IH, map_insert_NoDup, ND.
  Qed.

  (* a property of entries that the walk's only update keeps *)
  Section WalkForall.
    Variable P : fdef -> Prop.
    Hypothesis P_bump : forall f ix, P f -> P (mkFdef (f_key f) ix (f_idx f) (f_name f) (f_total f + 1)).

    Lemma refs_Forall : forall n (st : fmap * N), Forall P (fst st) -> Forall P (fst (snd (refs fold pres n st))).
    Proof.
      induction n as [v sp ch IH] using node_ind2. intros st T.
      destruct (is_ref v) eqn:R.
      - destruct v; try discriminate. cbn [refs].
        destruct (map_get (fold name) (fst st)) as [f|] eqn:G; [|exact T].
        assert (P f) as Pf by (rewrite Forall_forall in T; apply T; exact (map_get_in _ _ _ G)).
        destruct (f_ix f); cbn [fst snd]; (apply map_set_Forall; [exact T|]); apply P_bump; exact Pf.
      - rewrite refs_nonref by exact R.
        assert (forall st : fmap * N, Forall P (fst st) -> Forall P (fst (snd (refs_list fold pres ch st)))) as L.
        { clear st T. induction IH as [|c r Hc _ IHr]; intros st T; cbn [refs_list]; [exact T|].
          specialize (Hc st T). destruct (refs fold pres c st) as [c' st1]. cbn [fst snd] in Hc.
          specialize (IHr st1 Hc). destruct (refs_list fold pres r st1) as [r' st2]. cbn [fst snd] in IHr |- *.
          exact IHr. }
        specialize (L st T). destruct (refs_list fold pres ch st) as [ch' st']. exact L.
    Qed.
  End WalkForall.

  Lemma named_by_bump defs f ix : named_by fold pres defs f ->
    named_by fold pres defs (mkFdef (f_key f) ix (f_idx f) (f_name f) (f_total f + 1)).
  Proof. intros [d [Hd [Hn Hk]]]. exists d. cbn [f_name f_key]. auto. Qed.

  (* in a map with distinct keys whose entries are named by definitions, f_name determines the entry *)
  Lemma name_inj defs m f1 f2 : NoDup (keys m) -> J fold pres defs m ->
    In f1 m -> In f2 m -> f_name f1 = f_name f2 -> f1 = f2.
  Proof.
    intros ND Jm H1 H2 E. unfold J in Jm. rewrite Forall_forall in Jm.
    destruct (Jm _ H1) as [d1 [_ [N1 K1]]]. destruct (Jm _ H2) as [d2 [_ [N2 K2]]].
    apply (NoDup_map_inj f_key m); [exact ND | exact H1 | exact H2|].
    rewrite K1, K2. apply compat. rewrite <- N1, <- N2. exact E.
  Qed.

  Variable perm : list fdef -> list fdef.
  Hypothesis perm_ok : forall m, Permutation (perm m) m.

  Lemma appended_names_in defs l x :
    Forall (fun d => is_def d = true) defs ->
    In x (map fdef_name (flat_map (fun f => match nth_error defs (f_idx f) with
                                            | Some d => [set_def f d] | None => [] end) l)) ->
    In x (map f_name l).
  Proof.
    intros D H. apply in_map_iff in H. destruct H as [a [Ea Ha]].
    apply in_flat_map in Ha. destruct Ha as [f [Hf Ha]].
    destruct (nth_error defs (f_idx f)) as [d|] eqn:E; [|contradiction].
    destruct Ha as [<-|[]]. rewrite Forall_forall in D.
    rewrite (fnp_set_def_def f d (D d (nth_error_In _ _ E))) in Ea. unfold fdef_name in Ea. cbn [nval] in Ea.
    subst x. apply in_map. exact Hf.
  Qed.

  Lemma appended_names_NoDup defs l :
    Forall (fun d => is_def d = true) defs -> NoDup (map f_name l) ->
    NoDup (map fdef_name (flat_map (fun f => match nth_error defs (f_idx f) with
                                             | Some d => [set_def f d] | None => [] end) l)).
  Proof.
    intros D. induction l as [|f r IH]; cbn [map flat_map]; intro ND; [constructor|].
    inversion ND as [|? ? Nx Nr]; subst.
    destruct (nth_error defs (f_idx f)) as [d|] eqn:E; cbn [app map].
    - constructor; [|apply IH; exact Nr].
      intro H. apply (appended_names_in defs r _ D) in H.
      pose proof D as D'. rewrite Forall_forall in D'.
      rewrite (fnp_set_def_def f d (D' d (nth_error_In _ _ E))) in H. unfold fdef_name in H. cbn [nval] in H.
      exact (Nx H).
    - apply IH; exact Nr.
  Qed.

  (* the tail of the processed root is what process appends *)
  Lemma process_tail root : is_def root = false ->
    tail_part (nch (process fold pres perm root)) =
    (let r := refs fold pres root (collect fold pres (top_defs root) 0 [], 0%N) in
     if (0 <? snd (snd r))%N then appended perm (fst (snd r)) (top_defs (fst r)) else []).
  Proof.
    intro D. unfold process. cbv zeta.
    pose proof (fnp_refs_rr fold pres root (collect fold pres (top_defs root) 0 [], 0%N)) as R.
    pose proof (fnp_refs_maplen fold pres root (collect fold pres (top_defs root) 0 [], 0%N)) as L.
    destruct (refs fold pres root (collect fold pres (top_defs root) 0 [], 0%N)) as [root1 [m1 ix]].
    cbn [fst snd] in R, L |- *. cbv beta iota zeta.
    remember (match m1 with [] => root1 | _ :: _ => cleanup root1 end) as root2 eqn:E2.
    assert ((root2 = root1 /\ top_defs root = []) \/ root2 = cleanup root1) as Dj.
    { destruct m1 as [|x r]; [left|right; exact E2]. split; [exact E2|].
      cbn [length] in L. symmetry in L. apply length_zero_iff_nil in L.
      apply fnp_collect_nil in L. destruct L as [L _]. exact L. }
    destruct (fnp_root2_facts root root1 root2 D R Dj) as [_ N].
    clear E2 Dj. destruct (0 <? ix)%N.
    - destruct root2 as [v sp ch]. cbn [nch] in N |- *.
      pose proof (fnp_app_defs root1 _ (fnp_appended_from perm m1 (top_defs root1))) as FD.
      destruct (fnp_tail_body_app _ _ N FD) as [-> _]. reflexivity.
    - rewrite <- (app_nil_r (nch root2)).
      destruct (fnp_tail_body_app (nch root2) [] N (Forall_nil _)) as [-> _]. reflexivity.
  Qed.

  Theorem process_defs_once_and_referenced root : is_def root = false ->
    defs_once_and_referenced (process fold pres perm root) = true.
  Proof.
    intro D. unfold defs_once_and_referenced. cbv zeta.
    rewrite (appended_defs_referenced fold pres perm perm_ok root D), andb_true_r.
    rewrite (process_tail root D). cbv zeta.
    set (st0 := (collect fold pres (top_defs root) 0 [], 0%N)).
    assert (NoDup (keys (fst (snd (refs fold pres root st0))))) as K.
    { rewrite (refs_keys fold pres root st0). unfold st0. cbn [fst]. apply collect_NoDup. constructor. }
    assert (J fold pres (top_defs root) (fst (snd (refs fold pres root st0)))) as Jm.
    { apply refs_Forall; [intros f ix; apply named_by_bump|].
      unfold st0. cbn [fst]. apply collect_J; [auto | constructor]. }
    destruct (refs fold pres root st0) as [root1 [m1 ix]]. cbn [fst snd] in K, Jm |- *.
    destruct (0 <? ix)%N; [|reflexivity].
    apply names_distinct_NoDup. unfold appended.
    apply appended_names_NoDup; [apply fnp_top_defs_are_defs|].
    assert (forall f, In f (filter has_ix (sort_by_ix (perm m1))) -> In f m1) as Sub.
    { intros f Hf. apply filter_In in Hf. destruct Hf as [Hf _].
      eapply Permutation_in; [apply perm_ok|]. eapply Permutation_in; [apply sort_by_ix_perm | exact Hf]. }
    apply NoDup_map_of_inj.
    - apply NoDup_filter. eapply Permutation_NoDup.
      + apply Permutation_sym. etransitivity; [apply sort_by_ix_perm | apply perm_ok].
      + exact (NoDup_map_inv f_key m1 K).
    - intros a b Ha Hb. apply (name_inj (top_defs root) m1); [exact K | exact Jm | apply Sub, Ha | apply Sub, Hb].
  Qed.
End Once.
