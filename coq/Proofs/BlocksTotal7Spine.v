(* Proofs/BlocksTotal7Spine.v — totality of the block phase, seventh round: the OPEN SPINE as a Prop, and the
   preservation lemmas of the tree primitives and of the closing loops (NO complete walk: see the end comment).

   The three remaining open-spine sites

     S1  mod.rs:finalize_borrowed:assert!(ast.open)                            finalize on a closed node
     S2  mod.rs:add_line:assert!(ast.open)                                     add_line on a closed node
     S3  mod.rs:add_text_to_container:self.finalize(self.current).unwrap()     finalize_up_to passes the root

   VOCABULARY (all over parent_of, the relation the model itself follows when it closes nodes):
     anc t a x      a is x or one of the ancestors of x in the tree t            (chain of parent_of from x up to a)
     OC st x        x and every ancestor of x is open, up to a node without parent   ("root..x open")
     OS st a x      a is an ancestor-or-self of x and every node from x up to a, a EXCLUDED, is open
                    (exactly what finalize_up_to .. a needs of self.current = x)
     lastkid / RE   x and every ancestor but the top is the last child of its parent  (right edge)
     OW st x y      y is reached from x by following open last children             (the walk of check_open_blocks_inner)
   INVARIANTS (Prop versions of the checkers spine_ok2 / p1_ok / p2_ok of Proofs/BlocksTotal4Spine.v):
     Between st, P1 st lmc, P2 st container lmc.

   RESULT: NO complete walk (no theorem parse_blocks_no_spine_panic).  What is proved (all Qed, no axiom), with
   alS = but spine_sites (S1, S2, S3 all excluded at once; Proofs/BlocksTotal7SpineLeaf.v is the leaf part of the walk),
   under W o st (= TI o [] st /\ SV st /\ R0 o st, an Ok-path invariant of every function):
   tree facts
     kid_parent               a child's parent_of is the node that lists it (identifiers pairwise distinct)
     finalize_open_other      finalize keeps the flag of every other identifier (also when the paragraph is removed)
     parent_of_append, append_child_open_keep, append_child_OC     append_child and the old nodes
     anc_ssz / anc_antisym / anc_back / SEG_back                   chains are linear; chains of the new tree are old chains
     OC_frame / OS_frame / anc_frame, agree                        chains in a state that agrees on a set of identifiers
   finalize / add_line
     ngS_finalize_open, ngS_add_line_open    on an open node: no spine site
     finalize_OC_parent, finalize_OS_parent, finalize_OC_above, finalize_OC_off
   the closing loops
     add_child_loop_spine     OC st parent -> sg alS (W /\ OC of the parent answered)
     add_child_loop_frame     every identifier that is not `parent` or an ancestor of it keeps flag and parent
     add_child_gen_OC         the new node has an open chain; frame as above
     finalize_up_to_spine     OS st target (ps_current st) -> sg alS (W, current = target, every identifier outside the
                              strict segment SEG keeps flag and parent) -- this is S3 and the S1 of the loop
   check_open_blocks (COMPLETE, from `root open` alone)
     cobi_spine, check_open_blocks_spine     OC st root_id -> sg alS (Some (lmc, _): same tree, OC lmc; None: W, OC current)
   add_text_to_container (COMPLETE from the hypotheses ATCH = P2 without the right edge)
     add_text_to_container_spine, add_text_to_container_spine_post: no spine site, and W /\ OC st' (ps_current st')
   finalize_document_spine (from OC current), front_matter_prologue_spine / prologue_spine (from the initial state)
   open_new_blocks, first clause of P2 only (the container answered has an open chain: every finalize of add_child is
   on an open node): handle_{alert,mbq,blockquote,atx,code_fence,html_block,setext,thematic_break,footnote,list,
   code_block}_spine for every option set; open_new_blocks_step / _loop / open_new_blocks_spine_plain under
   bo_table o = false and bo_description_lists o = false.
   MISSING (see the end comment): the other clauses of P2 through the handlers, parse_desc_list_details,
   try_opening_block, the right-edge / walk clauses (RE, OW) everywhere, hence process_line and parse_blocks. *)
From Coq Require Import List NArith Arith Bool Lia Strings.String.
From V Require Import Base.Bytes Base.Res Gen.Nodes Gen.BlocksConst Gen.FeedConst Model.Ast Model.Strings Model.Entity Model.LinkUrl Model.ListMarker
  Model.Feed Model.FrontMatter Model.RefDef Model.Scan Model.Blocks Spec.EscapeSpec Spec.Shape Spec.Valid
  Proofs.StrLeafProofs Proofs.StrLeafEntity Proofs.StrLeafParse Proofs.BlocksProofs Proofs.BlocksCursor Proofs.BlocksTight Proofs.BlocksTotal
  Proofs.ParserShapeBlocks Proofs.ParserShapeTree Proofs.ParserShapeTabPrim Proofs.ParserShapeTables
  Proofs.BlocksTotal2Safe Proofs.BlocksTotal2Root Proofs.BlocksTotal2Tree Proofs.BlocksTotal2Walk Proofs.BlocksTotal3Cur Proofs.BlocksTotal4Safe Proofs.BlocksTotal4Frame
  Proofs.BlocksTotal4FuelTree Proofs.BlocksTotal4FuelFin Proofs.BlocksTotal4Spine Proofs.BlocksTotal7Add Proofs.BlocksTotal7SpineLeaf.
From V Require Proofs.BlocksTotal3Tab.
Import ListNotations.
Local Open Scope string_scope.
Local Open Scope list_scope.


(* ================================================================== vocabulary *)
Inductive anc (t : bnode) (a : nat) : nat -> Prop :=
| anc_refl : anc t a a
| anc_step x p : parent_of x t = Some p -> anc t a p -> anc t a x.

Inductive OC (st : pstate) : nat -> Prop :=
| OC_top x : open_of st x = Some true -> parent_of x (ps_root st) = None -> OC st x
| OC_step x p : open_of st x = Some true -> parent_of x (ps_root st) = Some p -> OC st p -> OC st x.

Inductive OS (st : pstate) (a : nat) : nat -> Prop :=
| OS_refl : OS st a a
| OS_step x p : x <> a -> open_of st x = Some true -> parent_of x (ps_root st) = Some p -> OS st a p -> OS st a x.

Definition lastkid (st : pstate) (p c : nat) : Prop :=
  exists pn x, get st p = Ok pn /\ last_opt (bkids pn) = Some x /\ bid x = c.

Inductive RE (st : pstate) : nat -> Prop :=
| RE_top x : parent_of x (ps_root st) = None -> RE st x
| RE_step x p : parent_of x (ps_root st) = Some p -> lastkid st p x -> RE st p -> RE st x.

Inductive OW (st : pstate) : nat -> nat -> Prop :=
| OW_one x y : lastkid st x y -> open_of st y = Some true -> OW st x y
| OW_more x y z : OW st x y -> lastkid st y z -> open_of st z = Some true -> OW st x z.

Definition rowcell (st : pstate) (y : nat) : Prop := exists n, get st y = Ok n /\ is_rowcell n = true.

(* between lines (spine_ok2) *)
Definition Between (st : pstate) : Prop :=
  OC st (ps_current st) /\ RE st (ps_current st) /\ forall y, OW st (ps_current st) y -> rowcell st y.

(* entry of open_new_blocks (p1_ok) *)
Definition P1 (st : pstate) (lmc : nat) : Prop :=
  OC st lmc /\ RE st lmc /\ OC st (ps_current st) /\ RE st (ps_current st) /\ anc (ps_root st) lmc (ps_current st).

(* every iteration of open_new_blocks_loop, entry of add_text_to_container (p2_ok): the last clause says that none of
   the nodes finalize_up_to will close (the chain from self.current up to lmc, lmc excluded) is the container or one
   of its ancestors: a node that is above self.current AND above-or-equal the container is above-or-equal lmc *)
Definition P2 (st : pstate) (container lmc : nat) : Prop :=
  OC st container /\ RE st container /\
  (ps_current st = lmc \/ OS st lmc (ps_current st)) /\
  (open_of st (ps_current st) = Some true \/ ps_current st = lmc) /\
  (forall x, anc (ps_root st) x (ps_current st) -> anc (ps_root st) x container -> anc (ps_root st) x lmc).

(* ================================================================== a child's parent *)
Lemma in_fids_cnt k : forall l, In k l -> 1 <= cnt (bid k) (fids l).
Proof.
  intros l H. apply in_split in H. destruct H as [l1 [l2 ->]]. cnt_norm.
  pose proof (bsub_cnt k k (bsub_self k)). lia.
Qed.

Lemma parent_of_in x : forall t p, parent_of x t = Some p -> 1 <= cnt x (ids t).
Proof.
  intros t p H. destruct (parent_of_kid _ _ _ H) as (pn & c & A & _ & C & D).
  rewrite <- D. apply bsub_cnt. eapply bsub_kid_of; eassumption.
Qed.

Lemma first_parent_none x : forall l, cnt x (fids l) = 0 -> first_parent x l = None.
Proof.
  induction l as [|e r IH]; intro H; [reflexivity|]. cnt_norm. cbn [first_parent].
  destruct (parent_of x e) as [q|] eqn:P; [apply parent_of_in in P; lia | apply IH; lia].
Qed.

Lemma kid_parent_tree : forall t, (forall x, cnt x (ids t) <= 1) ->
  forall pn c, In pn (bsub t) -> In c (bkids pn) -> parent_of (bid c) t = Some (bid pn).
Proof.
  induction t as [i ch IH] using bnode_ind2. intros U pn c Hp Hc.
  cbn [bsub] in Hp. destruct Hp as [<-|Hp].
  - cbn [bkids] in Hc. rewrite parent_of_node. pose proof (split_kid_some ch c Hc) as S.
    destruct (split_kid (bid c) ch); [reflexivity | congruence].
  - apply in_flat_map in Hp. destruct Hp as [d [Hd Hp]].
    assert (Cd : 1 <= cnt (bid c) (ids d)) by (apply bsub_cnt; eapply bsub_kid_of; eassumption).
    pose proof (kid_cnt d pn c Hp Hc) as Kd.
    pose proof (in_split _ _ Hd) as [l1 [l2 E]]. subst ch.
    pose proof (U (bid c)) as Uc. cnt_norm.
    assert (Z1 : cnt (bid c) (fids l1) = 0) by lia. assert (Z2 : cnt (bid c) (fids l2) = 0) by lia.
    rewrite parent_of_node.
    assert (Sn : split_kid (bid c) (l1 ++ d :: l2) = None).
    { destruct (split_kid (bid c) (l1 ++ d :: l2)) as [[[pre k] post]|] eqn:S; [|reflexivity]. exfalso.
      pose proof (split_kid_bid _ _ _ _ _ S) as Bk. pose proof (split_kid_eq _ _ _ _ _ S) as Ek.
      assert (Hk : In k (l1 ++ d :: l2)) by (rewrite Ek; apply in_or_app; right; now left).
      apply in_app_or in Hk. destruct Hk as [Hk|[Hk|Hk]].
      - pose proof (in_fids_cnt k l1 Hk). rewrite Bk in *. lia.
      - subst k. destruct d as [j kd]. unfold bid in Bk. cbn [binf bkids] in *. cnt_norm. rewrite Bk, one_same in *. lia.
      - pose proof (in_fids_cnt k l2 Hk). rewrite Bk in *. lia. }
    rewrite Sn, first_parent_app, (first_parent_none _ _ Z1). cbn [first_parent].
    rewrite Forall_forall in IH.
    assert (Ud : forall x, cnt x (ids d) <= 1) by (intro x; pose proof (U x); cnt_norm; lia).
    rewrite (IH d Hd Ud pn c Hp Hc). reflexivity.
Qed.

Lemma kid_parent o st p pn c : W o st -> get st p = Ok pn -> In c (bkids pn) -> parent_of (bid c) (ps_root st) = Some p.
Proof.
  intros V G Hc. destruct (find_node_sub _ _ _ (get_find _ _ _ G)) as [B S]. rewrite <- B.
  apply kid_parent_tree; [exact (W_uq _ _ V) | exact S | exact Hc].
Qed.

(* ================================================================== finalize and the flags of the other nodes *)
Lemma bdetach_open_other o st X n st' y :
  W o st -> get st X = Ok n -> bkids n = [] -> bdetach st X = Ok st' -> y <> X -> open_of st' y = open_of st y.
Proof.
  intros V G K D Ny. unfold bdetach in D.
  destruct (edit_kids X (fun _ pre _ post => pre ++ post) (ps_root st)) as [r|] eqn:E; [|inversion D; subst; reflexivity].
  inversion D; subst. clear D.
  destruct (edit_kids_cnt _ _ _ _ E) as (pk & pre & c & post & Hb & Hc & C).
  pose proof (get_unique _ _ _ V Hc) as Gc. rewrite Hb, G in Gc. inversion Gc; subst c. clear Gc.
  assert (CN : forall x, cnt x (ids r) + one X x = cnt x (ids (ps_root st))).
  { intro x. specialize (C x). cbv beta in C. destruct n as [j k]. cbn [bkids] in K. subst k.
    unfold bid in Hb. cbn [binf] in Hb. cnt_norm. rewrite Hb in C. lia. }
  assert (CX : forall x, x <> X -> cnt x (ids r) = cnt x (ids (ps_root st))).
  { intros x Nx. specialize (CN x). unfold one in CN. destruct (Nat.eq_dec X x); [congruence | lia]. }
  unfold open_of. cbn [ps_root st_root].
  destruct (find_node y r) as [n'|] eqn:F1.
  - destruct (find_node_sub _ _ _ F1) as [By Hs].
    destruct (edit_kids_detach_bsub _ _ _ E _ Hs) as [n0 [A B]].
    pose proof (find_node_unique _ n0 (W_uq _ _ V) A) as F0.
    assert (Ey : y = bid n0) by (unfold bid in *; rewrite B; symmetry; exact By). rewrite Ey, F0. cbn [option_map].
    unfold nopen. now rewrite B.
  - destruct (find_node y (ps_root st)) eqn:F2; [|reflexivity]. exfalso.
    pose proof (find_node_cnt _ _ _ F2) as C2. rewrite <- (CX y Ny) in C2. apply cnt_in in C2.
    destruct (in_ids_find _ _ C2) as [m Fm]. congruence.
Qed.

Theorem finalize_open_other o st id po st' :
  finalize o st id = Ok (po, st') -> W o st -> forall y, y <> id -> open_of st' y = open_of st y.
Proof.
  intros F V y Ny. unfold finalize in F.
  mstep F. rename E into G. mstep F; [discriminate F|]. mstep F. clear E0.
  pose proof (ispara_get _ _ _ G) as IP. unfold is_paragraph, bval in IP.
  destruct (bi_val (binf a)) eqn:Ev; mon F;
  try (match goal with M : modify_info st id (fun _ => ?j) = Ok ?s1 |- open_of ?s1 y = _ =>
         destruct (modify_info_const_open _ _ j _ _ M G eq_refl) as [_ S2]; apply S2; exact Ny end).
  - match goal with M : modify_info st id (fun _ => ?j) = Ok ?s1 |- _ =>
      destruct (modify_info_const_open _ _ j _ _ M G eq_refl) as [_ S2]; rewrite st_refmap_open; apply S2; exact Ny end.
  - match goal with M : modify_info st id (fun _ => ?j) = Ok ?s1, D : bdetach (st_refmap ?s1 ?m) _ = Ok ?s3, R : retighten ?s3 _ = Ok ?s4 |- _ =>
      assert (S : same st s1) by (eapply (mi_const_same st id a j s1 G M); [reflexivity | cbn; rewrite ?Ev; reflexivity]);
      assert (V1 : W o (st_refmap s1 m));
      [ destruct V as ((N & U & B) & Sv & R0v); split; [|split];
        [ apply TI_st_refmap; eapply modify_info_TI; [exact (conj N (conj U B)) | exact M |];
          intros n Fn; rewrite (get_find _ _ _ G) in Fn; inversion Fn; subst; cbn; rewrite Ev;
          (split; [reflexivity|]); (split; [reflexivity|]); (split; [intro HD; discriminate HD | left; reflexivity])
        | apply SV_st_refmap; eapply modify_info_valid; [exact Sv | exact M |];
          intros n Fn; rewrite (get_find _ _ _ G) in Fn; inversion Fn; subst; cbn; rewrite Ev; reflexivity
        | apply R0_st_refmap; eapply modify_info_R0; [exact R0v | exact M |];
          intros n Fn; rewrite (get_find _ _ _ G) in Fn; inversion Fn; subst; reflexivity ]
      | ];
      assert (S1 : same st (st_refmap s1 m)) by (apply same_refmap; exact S);
      assert (H1 : has (st_refmap s1 m) id) by (apply (same_has _ _ _ S1); eapply get_has; exact G);
      destruct (has_get _ _ H1) as [n1 G1];
      assert (P1' : is_paragraph n1 = true)
        by (rewrite <- (ispara_get _ _ _ G1), (sm_para _ _ S1), IP; reflexivity);
      pose proof (para_leaf _ _ _ _ V1 G1 P1') as K1;
      rewrite (retighten_keeps_open _ _ _ R y);
      rewrite (bdetach_open_other o _ _ n1 _ y V1 G1 K1 D Ny);
      rewrite st_refmap_open;
      destruct (modify_info_const_open _ _ j _ _ M G eq_refl) as [_ S2]; apply S2; exact Ny
    end.
Qed.

(* ================================================================== chains: transfer to a tree that agrees above / off a node *)
Lemma OC_transfer o st st' k : W o st ->
  (forall y, k < ssz st y -> parent_of y (ps_root st') = parent_of y (ps_root st)) ->
  (forall y, k < ssz st y -> open_of st' y = open_of st y) ->
  forall x, OC st x -> k < ssz st x -> OC st' x.
Proof.
  intros V EP EO x H. induction H as [x O P|x p O P _ IH]; intro Hk.
  - apply OC_top; [rewrite EO | rewrite EP]; assumption.
  - eapply OC_step; [rewrite EO; assumption | rewrite EP; [exact P | exact Hk] |].
    apply IH. pose proof (parent_ssz _ _ _ _ V P). lia.
Qed.

Lemma anc_transfer o st t' k a : W o st ->
  (forall y, k < ssz st y -> parent_of y t' = parent_of y (ps_root st)) ->
  forall x, anc (ps_root st) a x -> k < ssz st x -> anc t' a x.
Proof.
  intros V EP x H. induction H as [|x p P _ IH]; intro Hk; [apply anc_refl|].
  eapply anc_step; [rewrite EP; [exact P | exact Hk]|]. apply IH. pose proof (parent_ssz _ _ _ _ V P). lia.
Qed.

Lemma OS_transfer o st st' k a : W o st ->
  (forall y, k < ssz st y -> parent_of y (ps_root st') = parent_of y (ps_root st)) ->
  (forall y, k < ssz st y -> open_of st' y = open_of st y) ->
  forall x, OS st a x -> k < ssz st x -> OS st' a x.
Proof.
  intros V EP EO x H. induction H as [|x p N O P _ IH]; intro Hk; [apply OS_refl|].
  eapply OS_step; [exact N | rewrite EO; assumption | rewrite EP; [exact P | exact Hk] |].
  apply IH. pose proof (parent_ssz _ _ _ _ V P). lia.
Qed.

(* the same for a tree that agrees everywhere but at one node that is not on the chain *)
Lemma OC_transfer_off st st' id :
  (forall y, y <> id -> parent_of y (ps_root st') = parent_of y (ps_root st)) ->
  (forall y, y <> id -> open_of st' y = open_of st y) ->
  forall x, OC st x -> ~ anc (ps_root st) id x -> OC st' x.
Proof.
  intros EP EO x H. induction H as [x O P|x p O P _ IH]; intro Na.
  - assert (Nx : x <> id) by (intro E; subst; apply Na, anc_refl).
    apply OC_top; [rewrite EO | rewrite EP]; assumption.
  - assert (Nx : x <> id) by (intro E; subst; apply Na, anc_refl).
    eapply OC_step; [rewrite EO; assumption | rewrite EP; [exact P | exact Nx] |].
    apply IH. intro A. apply Na. eapply anc_step; eassumption.
Qed.

(* ancestors are larger *)
Lemma anc_ssz o st a : W o st -> forall x, anc (ps_root st) a x -> ssz st x <= ssz st a.
Proof.
  intros V x H. induction H as [|x p P _ IH]; [lia|]. pose proof (parent_ssz _ _ _ _ V P). lia.
Qed.

Lemma anc_antisym o st a x : W o st -> anc (ps_root st) a x -> anc (ps_root st) x a -> a = x.
Proof.
  intros V H1 H2. pose proof (anc_ssz _ _ _ V _ H1). pose proof (anc_ssz _ _ _ V _ H2).
  destruct H1 as [|x p P H1]; [reflexivity|]. pose proof (anc_ssz _ _ _ V _ H1). pose proof (parent_ssz _ _ _ _ V P). lia.
Qed.

Lemma anc_trans t a b x : anc t a b -> anc t b x -> anc t a x.
Proof. intros H1 H2. induction H2 as [|x p P _ IH]; [exact H1 | eapply anc_step; eassumption]. Qed.

Lemma OS_anc st a x : OS st a x -> anc (ps_root st) a x.
Proof. intro H. induction H as [|x p _ _ P _ IH]; [apply anc_refl | eapply anc_step; eassumption]. Qed.

Lemma OC_open st x : OC st x -> open_of st x = Some true.
Proof. intro H. destruct H; assumption. Qed.

Lemma OC_anc st x : OC st x -> forall a, anc (ps_root st) a x -> OC st a.
Proof.
  intro H. induction H as [x O P|x p O P H IH]; intros a A.
  - inversion A; subst; [now apply OC_top | congruence].
  - inversion A; subst; [eapply OC_step; eassumption|]. apply IH. congruence.
Qed.

(* an open chain ends at the root *)
Lemma OC_root o st x : W o st -> OC st x -> OC st root_id.
Proof.
  intros V H. induction H as [x O P|x p O P H IH]; [|exact IH].
  assert (x = root_id); [|subst; now apply OC_top].
  unfold open_of in O. destruct (find_node x (ps_root st)) as [n|] eqn:F; [|discriminate O].
  assert (G : get st x = Ok n) by (unfold get; now rewrite F).
  pose proof (no_parent_root _ _ _ G P) as E. destruct (find_node_sub _ _ _ F) as [B _]. subst n.
  rewrite <- B. exact (W_R0 _ _ V).
Qed.

(* OC = OS up to the target + OC of the target *)
Lemma OC_OS st a x : OC st x -> anc (ps_root st) a x -> OS st a x.
Proof.
  intro H. induction H as [x O P|x p O P H IH]; intro A.
  - inversion A; subst; [apply OS_refl | congruence].
  - destruct (Nat.eq_dec x a) as [->|N]; [apply OS_refl|].
    inversion A; subst; [congruence|]. eapply OS_step; [exact N | exact O | exact P |]. apply IH. congruence.
Qed.

(* ================================================================== finalize and the chains *)
Lemma finalize_above o st id po st' : finalize o st id = Ok (po, st') -> W o st ->
  forall y, ssz st id < ssz st y ->
  parent_of y (ps_root st') = parent_of y (ps_root st) /\ open_of st' y = open_of st y.
Proof.
  intros F V y Hy. assert (Ny : y <> id) by (intro E; subst; lia).
  split; [eapply finalize_parent_of | eapply finalize_open_other]; eassumption.
Qed.

Lemma finalize_OC_above o st id po st' x : finalize o st id = Ok (po, st') -> W o st ->
  OC st x -> ssz st id < ssz st x -> OC st' x.
Proof.
  intros F V H Hx. eapply (OC_transfer o st st' (ssz st id) V); [| | exact H | exact Hx];
    intros y Hy; now destruct (finalize_above _ _ _ _ _ F V y Hy).
Qed.

Lemma finalize_anc_above o st id po st' a x : finalize o st id = Ok (po, st') -> W o st ->
  anc (ps_root st) a x -> ssz st id < ssz st x -> anc (ps_root st') a x.
Proof.
  intros F V H Hx. eapply (anc_transfer o st (ps_root st') (ssz st id) a V); [| exact H | exact Hx];
    intros y Hy; now destruct (finalize_above _ _ _ _ _ F V y Hy).
Qed.

Lemma finalize_OS_above o st id po st' a x : finalize o st id = Ok (po, st') -> W o st ->
  OS st a x -> ssz st id < ssz st x -> OS st' a x.
Proof.
  intros F V H Hx. eapply (OS_transfer o st st' (ssz st id) a V); [| | exact H | exact Hx];
    intros y Hy; now destruct (finalize_above _ _ _ _ _ F V y Hy).
Qed.

Lemma finalize_OC_off o st id po st' x : finalize o st id = Ok (po, st') -> W o st ->
  OC st x -> ~ anc (ps_root st) id x -> OC st' x.
Proof.
  intros F V H Na. eapply (OC_transfer_off st st' id); [| | exact H | exact Na]; intros y Ny;
    [eapply finalize_parent_of | eapply finalize_open_other]; eassumption.
Qed.

(* the parent finalize answers has an open chain when the node had one *)
Theorem finalize_OC_parent o st id p st' : finalize o st id = Ok (Some p, st') -> W o st -> OC st id -> OC st' p.
Proof.
  intros F V H. pose proof (finalize_parent _ _ _ _ _ F) as E. symmetry in E.
  inversion H as [x O P|x q O P Hq]; subst; [congruence|]. rewrite P in E. inversion E; subst q.
  eapply finalize_OC_above; [exact F | exact V | exact Hq | eapply parent_ssz; eassumption].
Qed.

Theorem finalize_OS_parent o st id p st' a : finalize o st id = Ok (Some p, st') -> W o st -> id <> a ->
  OS st a id -> OS st' a p.
Proof.
  intros F V N H. pose proof (finalize_parent _ _ _ _ _ F) as E. symmetry in E.
  inversion H as [|x q _ O P Hq]; subst; [congruence|]. rewrite P in E. inversion E; subst q.
  eapply finalize_OS_above; [exact F | exact V | exact Hq | eapply parent_ssz; eassumption].
Qed.

(* ================================================================== the spine sites of finalize and add_line *)
Lemma open_of_get st id n : get st id = Ok n -> open_of st id = Some (bi_open (binf n)).
Proof. intro G. unfold open_of. rewrite (get_find _ _ _ G). reflexivity. Qed.

Lemma ngS_finalize_open o st id : open_of st id = Some true -> ngS (finalize o st id).
Proof.
  intro O. unfold finalize. apply ng_bind; [auto with ngS|]. intros n G.
  rewrite (open_of_get _ _ _ G) in O. inversion O as [O1]. rewrite O1. cbn [negb]. nggo.
Qed.

Lemma ngS_unwrap_parent_open site o st id : alS site = true -> open_of st id = Some true -> ngS (unwrap_parent site (finalize o st id)).
Proof. intros H O. unfold unwrap_parent. apply ng_bind; [now apply ngS_finalize_open|]. intros [po s1] _. cbn [fst snd]. destruct po; [exact I | exact H]. Qed.

Lemma ngS_add_line_open st id line : open_of st id = Some true -> ngS (add_line st id line).
Proof.
  intro O. unfold add_line. apply ng_bind; [auto with ngS|]. intros n G.
  rewrite (open_of_get _ _ _ G) in O. inversion O as [O1]. rewrite O1. cbn [negb]. nggo.
Qed.

(* ================================================================== add_child_loop *)
Theorem add_child_loop_spine o k : forall fuel st parent, W o st -> OC st parent ->
  sg alS true (fun r => W o (snd r) /\ OC (snd r) (fst r)) (add_child_loop fuel o st parent k).
Proof.
  induction fuel as [|f IH]; intros st parent V H; cbn [add_child_loop]; [reflexivity|].
  apply sgb; [auto with ngS|]. intros p G.
  destruct (can_contain (bkind p) k); [cbn [sg fst snd]; split; assumption|].
  unfold unwrap_parent. apply sg_assoc.
  apply sgb; [apply ngS_finalize_open, OC_open, H|]. intros [po s1] F. cbn [fst snd].
  destruct po as [q|]; cbn [bind fst snd]; [|vm_compute; reflexivity].
  apply IH; [exact (proj1 (finalize_post _ _ _ _ _ F V)) | eapply finalize_OC_parent; eassumption].
Qed.

(* ================================================================== append_child *)
Definition app_kid (nd : bnode) (t : bnode) : bnode := match t with BNode i ch => BNode i (ch ++ [nd]) end.

Lemma parent_of_append x id nd : forall t t',
  upd id (app_kid nd) t = Some t' -> cnt x (ids nd) = 0 -> parent_of x t' = parent_of x t.
Proof.
  induction t as [i ch IH] using bnode_ind2. intros t' U Z. cbn [upd] in U.
  destruct (Nat.eqb (bi_id i) id) eqn:E.
  - inversion U; subst. clear U. cbn [app_kid]. rewrite !parent_of_node.
    assert (Nb : Nat.eqb (bid nd) x = false).
    { apply Nat.eqb_neq. intro B. pose proof (bsub_cnt nd nd (bsub_self nd)) as C. rewrite B in C. lia. }
    apply pmatch.
    + rewrite !split_kid_none_iff, map_app, existsb_app. cbn [map existsb]. rewrite Nb, !orb_false_r. tauto.
    + rewrite first_parent_app. cbn [first_parent]. destruct (first_parent x ch); [reflexivity|].
      destruct (parent_of x nd) eqn:P; [apply parent_of_in in P; lia | reflexivity].
  - match type of U with match ?gg with _ => _ end = _ => destruct gg as [ch'|] eqn:G; [|discriminate] end.
    inversion U; subst. clear U. rewrite !parent_of_node.
    assert (K : map bid ch' = map bid ch /\ first_parent x ch' = first_parent x ch).
    { clear E. revert ch' G. induction ch as [|c r IHr]; intros ch' G; [discriminate|].
      inversion IH as [|? ? IHc IHrest]; subst.
      destruct (upd id (app_kid nd) c) as [c'|] eqn:Uc.
      - inversion G; subst. cbn [map first_parent].
        rewrite (IHc c' eq_refl Z). split; [|reflexivity]. f_equal.
        eapply upd_root_bid; [exact Uc|]. intros [j k] _. reflexivity.
      - match type of G with match ?gg with _ => _ end = _ => destruct gg as [r'|] eqn:Gr; [|discriminate] end.
        inversion G; subst. cbn [map first_parent].
        destruct (IHr IHrest r' eq_refl) as [A B]. rewrite A, B. split; reflexivity. }
    destruct K as [K1 K2]. apply pmatch; [now apply split_kid_none_map | exact K2].
Qed.

Lemma append_child_parent_of st pid nd st' x :
  append_child st pid nd = Ok st' -> cnt x (ids nd) = 0 -> parent_of x (ps_root st') = parent_of x (ps_root st).
Proof.
  unfold append_child, modify. intros A Z.
  match type of A with match upd ?a ?b ?c with _ => _ end = _ => destruct (upd a b c) as [r|] eqn:U; [|discriminate A] end.
  inversion A; subst. cbn [ps_root st_root]. eapply (parent_of_append x pid nd); [exact U | exact Z].
Qed.

Lemma append_child_cnt st pid nd st' x :
  append_child st pid nd = Ok st' -> cnt x (ids (ps_root st')) = cnt x (ids (ps_root st)) + cnt x (ids nd).
Proof.
  unfold append_child, modify. intro A.
  match type of A with match upd ?a ?b ?c with _ => _ end = _ => destruct (upd a b c) as [r|] eqn:U; [|discriminate A] end.
  inversion A; subst. cbn [ps_root st_root].
  apply (upd_cnt _ _ _ _ (fun y => cnt y (ids nd)) U). intros n Fn y. destruct n as [i ch]. cnt_norm. lia.
Qed.

Lemma append_child_open_keep o st pid nd st' : append_child st pid nd = Ok st' -> W o st' ->
  forall y, has st y -> open_of st' y = open_of st y.
Proof.
  intros A V' y Hy. destruct (in_ids_find _ _ Hy) as [n F]. destruct (find_node_sub _ _ _ F) as [Bn Hn].
  unfold append_child in A.
  destruct (BlocksTotal3Tab.modify_keep (fun i j => j = i) _ _ _ _ A (fun i => eq_refl)) with (n := n) as (n' & Hn' & E); [|exact Hn|].
  { intros [i ch]. split; [reflexivity|]. cbn [bkids]. apply incl_appl, incl_refl. }
  assert (By : bid n' = y) by (unfold bid; rewrite E; exact Bn).
  unfold open_of. rewrite F. rewrite <- By. rewrite (find_node_unique _ n' (W_uq _ _ V') Hn'). cbn [option_map].
  unfold nopen. now rewrite E.
Qed.

(* a chain of nodes that are all in the old tree is the same chain after append *)
Lemma append_child_OC o st pid nd st' : append_child st pid nd = Ok st' -> W o st' ->
  forall x, OC st x -> OC st' x.
Proof.
  intros A V' x H.
  assert (Z : forall y, open_of st y = Some true -> has st y /\ cnt y (ids nd) = 0).
  { intros y O. unfold open_of in O. destruct (find_node y (ps_root st)) as [n|] eqn:F; [|discriminate O].
    pose proof (find_node_cnt _ _ _ F) as C. split; [now apply has_cnt|].
    pose proof (W_uq _ _ V' y) as U. rewrite (append_child_cnt _ _ _ _ y A) in U. lia. }
  induction H as [x O P|x p O P _ IH]; destruct (Z x O) as [Hx Zx].
  - apply OC_top; [rewrite (append_child_open_keep _ _ _ _ _ A V' x Hx); exact O|].
    rewrite (append_child_parent_of _ _ _ _ x A Zx). exact P.
  - eapply OC_step; [rewrite (append_child_open_keep _ _ _ _ _ A V' x Hx); exact O | | exact IH].
    rewrite (append_child_parent_of _ _ _ _ x A Zx). exact P.
Qed.

Lemma OC_root_eq a b : ps_root b = ps_root a -> forall x, OC a x -> OC b x.
Proof.
  intros E x H. induction H as [x O P|x p O P _ IH].
  - apply OC_top; [unfold open_of in *; rewrite E; exact O | rewrite E; exact P].
  - eapply OC_step; [unfold open_of in *; rewrite E; exact O | rewrite E; exact P | exact IH].
Qed.

Lemma OS_root_eq a b t : ps_root b = ps_root a -> forall x, OS a t x -> OS b t x.
Proof.
  intros E x H. induction H as [|x p N O P _ IH]; [apply OS_refl|].
  eapply OS_step; [exact N | unfold open_of in *; rewrite E; exact O | rewrite E; exact P | exact IH].
Qed.

Lemma OC_eqtree a b : eqtree a b -> forall x, OC a x -> OC b x.
Proof. intros T. apply OC_root_eq. exact (proj1 T). Qed.

(* the strict segment: the nodes from x up to a, a excluded (what finalize_up_to .. a closes from self.current = x) *)
Inductive SEG (t : bnode) (a : nat) : nat -> nat -> Prop :=
| SEG_here x : x <> a -> SEG t a x x
| SEG_up x p z : x <> a -> parent_of x t = Some p -> SEG t a p z -> SEG t a x z.

Lemma SEG_anc t a x z : SEG t a x z -> anc t z x /\ z <> a.
Proof.
  intro H. induction H as [x N|x p z N P _ [IH1 IH2]]; [split; [apply anc_refl | exact N]|].
  split; [eapply anc_step; eassumption | exact IH2].
Qed.

(* frames: a new state that agrees (flag and parent) on a set Q of identifiers *)
Definition agree (st st' : pstate) (y : nat) : Prop :=
  open_of st' y = open_of st y /\ parent_of y (ps_root st') = parent_of y (ps_root st).

Lemma OC_frame st st' (Q : nat -> Prop) : (forall y, Q y -> agree st st' y) ->
  forall x, OC st x -> (forall a, anc (ps_root st) a x -> Q a) -> OC st' x.
Proof.
  intros HQ x H. induction H as [x O P|x p O P _ IH]; intro HA; destruct (HQ x (HA x (anc_refl _ _))) as [EO EP].
  - apply OC_top; [rewrite EO | rewrite EP]; assumption.
  - eapply OC_step; [rewrite EO; exact O | rewrite EP; exact P |].
    apply IH. intros a Aa. apply HA. eapply anc_step; eassumption.
Qed.

Lemma OS_frame st st' t (Q : nat -> Prop) : (forall y, Q y -> agree st st' y) ->
  forall x, OS st t x -> (forall a, SEG (ps_root st) t x a -> Q a) -> OS st' t x.
Proof.
  intros HQ x H. induction H as [|x p N O P _ IH]; intro HA; [apply OS_refl|].
  destruct (HQ x (HA x (SEG_here _ _ _ N))) as [EO EP].
  eapply OS_step; [exact N | rewrite EO; exact O | rewrite EP; exact P |].
  apply IH. intros a Aa. apply HA. eapply SEG_up; eassumption.
Qed.

Lemma anc_frame st t' (Q : nat -> Prop) a : (forall y, Q y -> parent_of y t' = parent_of y (ps_root st)) ->
  forall x, anc (ps_root st) a x -> (forall z, SEG (ps_root st) a x z -> Q z) -> anc t' a x.
Proof.
  intros HQ x H. induction H as [|x p P _ IH]; intro HA; [apply anc_refl|].
  destruct (Nat.eq_dec x a) as [->|N]; [apply anc_refl|].
  eapply anc_step; [rewrite (HQ x (HA x (SEG_here _ _ _ N))); exact P|].
  apply IH. intros z Hz. apply HA. eapply SEG_up; eassumption.
Qed.

(* a chain of the new tree that starts above the changed node is a chain of the old tree *)
Lemma anc_back o st t' k : W o st ->
  (forall y, k < ssz st y -> parent_of y t' = parent_of y (ps_root st)) ->
  forall x n, up (ps_root st) x n -> k < ssz st x -> forall a, anc t' a x -> anc (ps_root st) a x.
Proof.
  intros V EP x n U. induction U as [x P|x p n P _ IH]; intros Hk a A.
  - inversion A as [|y q Pq Aq]; subst; [apply anc_refl|]. rewrite (EP x Hk), P in Pq. discriminate Pq.
  - inversion A as [|y q Pq Aq]; subst; [apply anc_refl|]. rewrite (EP x Hk), P in Pq. inversion Pq; subst q.
    eapply anc_step; [exact P|]. apply IH; [|exact Aq]. pose proof (parent_ssz _ _ _ _ V P). lia.
Qed.

Lemma SEG_back o st t' k a : W o st ->
  (forall y, k < ssz st y -> parent_of y t' = parent_of y (ps_root st)) ->
  forall x n, up (ps_root st) x n -> k < ssz st x -> forall z, SEG t' a x z -> SEG (ps_root st) a x z.
Proof.
  intros V EP x n U. induction U as [x P|x p n P _ IH]; intros Hk z A.
  - inversion A as [y N|y q z' N Pq Aq]; subst; [now apply SEG_here|]. rewrite (EP x Hk), P in Pq. discriminate Pq.
  - inversion A as [y N|y q z' N Pq Aq]; subst; [now apply SEG_here|]. rewrite (EP x Hk), P in Pq. inversion Pq; subst q.
    eapply SEG_up; [exact N | exact P |]. apply IH; [|exact Aq]. pose proof (parent_ssz _ _ _ _ V P). lia.
Qed.

(* the nodes add_child_loop closes are `parent` and ancestors of it: every other identifier keeps flag and parent *)
Lemma add_child_loop_frame o k : forall fuel st parent p' st',
  add_child_loop fuel o st parent k = Ok (p', st') -> W o st -> has st parent ->
  forall y, ~ anc (ps_root st) y parent -> agree st st' y.
Proof.
  induction fuel as [|f IH]; intros st parent p' st' L V Hp y Na; [discriminate L|]. cbn [add_child_loop] in L.
  destruct (get st parent) as [pn| |] eqn:G; cbn [bind] in L; try discriminate L.
  destruct (can_contain (bkind pn) k); [inversion L; subst; split; reflexivity|].
  unfold unwrap_parent in L. destruct (finalize o st parent) as [[po s2]| |] eqn:F; cbn [bind fst snd] in L; try discriminate L.
  destruct po as [q|]; cbn [bind fst snd] in L; [|discriminate L].
  pose proof (finalize_parent _ _ _ _ _ F) as Eq. symmetry in Eq.
  destruct (finalize_post _ _ _ _ _ F V) as [V2 _].
  destruct (finalize_keeps_parent _ _ _ _ _ F V) as (Hq2 & _).
  assert (Ny : y <> parent) by (intro; subst; apply Na, anc_refl).
  assert (Hq : has st q) by (eapply parent_has; exact Eq).
  destruct (IH s2 q p' st' L V2 Hq2 y) as [A1 A2].
  - intro A. apply Na. eapply anc_step; [exact Eq|].
    destruct (up_exists _ _ _ V Hq) as (n & U & _).
    eapply (anc_back o st (ps_root s2) (ssz st parent) V); [| exact U | eapply parent_ssz; eassumption | exact A].
    intros z Hz. eapply finalize_parent_of; [exact F | exact V |]. intro; subst; lia.
  - split; [rewrite A1; eapply finalize_open_other; eassumption | rewrite A2; eapply finalize_parent_of; eassumption].
Qed.

(* ================================================================== add_child_gen *)
Lemma ngS_add_child_gen o st parent v col post kids : W o st -> OC st parent -> ngS (add_child_gen o st parent v col post kids).
Proof.
  intros V H. unfold add_child_gen. eapply sg_bind; [apply add_child_loop_spine; eassumption|].
  intros [p1 s1] _ _. match goal with |- sg ?a ?f _ ?r => change (ng a f r) end. nggo.
Qed.

Lemma ngS_add_child o st parent v col : W o st -> OC st parent -> ngS (add_child o st parent v col).
Proof. apply ngS_add_child_gen. Qed.

Theorem add_child_gen_OC o st parent v col post kids id st' :
  add_child_gen o st parent v col post kids = Ok (id, st') -> W o st -> W o st' -> OC st parent ->
  (forall i, bi_open (post i) = bi_open i) -> (forall i, bi_id (post i) = bi_id i) ->
  OC st' id /\ (forall y, has st y -> ~ anc (ps_root st) y parent -> agree st st' y).
Proof.
  intros H V V' Hp Ho Hi.
  destruct (add_child_gen_last_open _ _ _ _ _ _ _ _ _ H Ho) as (p' & st1 & pn & new & L & F1 & F2 & Bn & Kn & On & Ei).
  pose proof (add_child_loop_spine o (kind_of v) (S (ps_next st)) st parent V Hp) as S. rewrite L in S. cbn [sg fst snd] in S.
  destruct S as [V1 H1].
  unfold add_child_gen in H. rewrite L in H. cbn [bind] in H. destruct (Nat.eqb col 0); [discriminate H|].
  mstep H. rename E into A. mstep H.
  assert (K : forall x, OC st1 x -> OC st' x).
  { intros x Hx. eapply append_child_OC; [exact A | exact V' |]. eapply OC_root_eq; [|exact Hx]. reflexivity. }
  split; [|].
  - assert (Hn : In new (bsub (ps_root st'))).
    { destruct (find_node_sub _ _ _ F2) as [_ Hs]. eapply bsub_kid_of; [exact Hs|]. cbn [bkids]. apply in_or_app. right. now left. }
    assert (Bi : bid new = ps_next st1) by (unfold bid; rewrite Bn, Hi; reflexivity).
    eapply OC_step with (p := p').
    + unfold open_of. rewrite <- Bi. rewrite (find_node_unique _ new (W_uq _ _ V') Hn). cbn [option_map]. now rewrite On.
    + rewrite <- Bi. eapply (kid_parent o st' p'); [exact V' | unfold get; rewrite F2; reflexivity |].
      cbn [bkids]. apply in_or_app. right. now left.
    + apply K. exact H1.
  - intros y Hy Na. clear K.
    assert (Hp0 : has st parent).
    { pose proof (OC_open _ _ Hp) as O. unfold open_of in O. destruct (find_node parent (ps_root st)) eqn:Fp; [|discriminate O].
      apply has_cnt. eapply find_node_cnt; exact Fp. }
    destruct (add_child_loop_frame _ _ _ _ _ _ _ L V Hp0 y Na) as [A1 A2].
    destruct (add_child_loop_post _ _ _ _ _ _ _ L V Hp0) as (_ & _ & Ls & _).
    assert (Ny : y <> parent) by (intro; subst; apply Na, anc_refl).
    assert (Hy1 : has (st_next st1 (S (ps_next st1))) y).
    { apply has_cnt. cbn [ps_root st_next]. rewrite (ls_cnt _ _ _ Ls y Ny). now apply has_cnt. }
    split.
    + rewrite (append_child_open_keep _ _ _ _ _ A V' y Hy1). exact A1.
    + rewrite (append_child_parent_of _ _ _ _ y A); [exact A2|].
      pose proof (W_uq _ _ V' y) as U. rewrite (append_child_cnt _ _ _ _ y A) in U. apply has_cnt in Hy1. lia.
Qed.

(* ================================================================== finalize_up_to *)
Lemma W_st_current o st c : W o st -> W o (st_current st c).
Proof. intros (T & S & R). split; [apply TI_st_current; exact T | split; [exact S | exact R]]. Qed.

Lemma agree_refl st y : agree st st y. Proof. split; reflexivity. Qed.
Lemma agree_trans a b c y : agree a b y -> agree b c y -> agree a c y.
Proof. intros [A1 A2] [B1 B2]. split; congruence. Qed.

Theorem finalize_up_to_spine o target site : forall fuel st, W o st -> OS st target (ps_current st) ->
  sg alS true (fun st' => W o st' /\ ps_current st' = target /\
                          forall y, ~ SEG (ps_root st) target (ps_current st) y -> agree st st' y)
     (finalize_up_to fuel o st target site).
Proof.
  induction fuel as [|f IH]; intros st V H; cbn [finalize_up_to]; [reflexivity|].
  destruct (Nat.eqb (ps_current st) target) eqn:E.
  - apply Nat.eqb_eq in E. cbn [sg]. split; [exact V|]. split; [exact E|]. intros; apply agree_refl.
  - apply Nat.eqb_neq in E. inversion H as [Et|x p N O P Hp Ex]; [congruence|]. subst x.
    unfold unwrap_parent. apply sg_assoc. apply sgb; [now apply ngS_finalize_open|]. intros [po s1] F. cbn [fst snd].
    pose proof (finalize_parent _ _ _ _ _ F) as Ep. rewrite P in Ep. subst po. cbn [bind fst snd].
    destruct (finalize_post _ _ _ _ _ F V) as [V1 _].
    assert (H1 : OS (st_current s1 p) target (ps_current (st_current s1 p))).
    { cbn [ps_current st_current]. eapply OS_root_eq; [|eapply finalize_OS_parent; [exact F | exact V | exact N | exact H]]. reflexivity. }
    eapply sg_weaken; [apply (IH (st_current s1 p) (W_st_current _ _ _ V1) H1)|].
    intros st' _ (V' & C & Fr). split; [exact V'|]. split; [exact C|]. intros y Ny.
    assert (Nc : y <> ps_current st) by (intro; subst; apply Ny; now apply SEG_here).
    apply (agree_trans st s1 st').
    + split; [eapply finalize_open_other | eapply finalize_parent_of]; eassumption.
    + apply Fr. cbn [ps_root ps_current st_current]. intro Sg. apply Ny.
      eapply SEG_up; [exact N | exact P |].
      assert (Hq : has st p) by (eapply parent_has; exact P).
      destruct (up_exists _ _ _ V Hq) as (n & U & _).
      eapply (SEG_back o st (ps_root s1) (ssz st (ps_current st)) target V); [| exact U | eapply parent_ssz; eassumption | exact Sg].
      intros z Hz. eapply finalize_parent_of; [exact F | exact V |]. intro; subst; lia.
Qed.

(* ================================================================== check_open_blocks *)
Lemma open_of_eqtree a b y : eqtree a b -> open_of b y = open_of a y.
Proof. intros (E & _). unfold open_of. now rewrite E. Qed.

Lemma unwrap_parent_inv site (r : res (option nat * pstate)) p s : unwrap_parent site r = Ok (p, s) -> r = Ok (Some p, s).
Proof.
  unfold unwrap_parent. destruct r as [[po s1]| |]; cbn [bind fst snd]; try discriminate.
  destruct po; [|discriminate]. intro H. inversion H; subst. reflexivity.
Qed.

Lemma ngS_pcbp o st line cid cb : open_of st cid = Some true -> ngS (parse_code_block_prefix o st line cid cb).
Proof.
  intro O. unfold parse_code_block_prefix. nggo.
  apply ngS_unwrap_parent_open; [allowed|].
  match goal with H : adv _ _ _ _ = Ok _ |- _ => rewrite (open_of_eqtree _ _ cid (adv_eqtree _ _ _ _ _ H)) end. exact O.
Qed.

(* the last child, read through its identifier *)
Lemma last_child_open_inv o st cid child : W o st -> last_child_is_open st cid = Ok (Some child) ->
  exists cn c, get st cid = Ok cn /\ In c (bkids cn) /\ last_opt (bkids cn) = Some c /\ bid c = child /\ get st child = Ok c /\
               open_of st child = Some true /\ parent_of child (ps_root st) = Some cid /\ child <> cid.
Proof.
  intros V Lc. unfold last_child_is_open, last_child in Lc.
  destruct (get st cid) as [cn| |] eqn:G; cbn [bind] in Lc; try discriminate Lc.
  destruct (last_opt (bkids cn)) as [c|] eqn:L; [destruct (bi_open (binf c)) eqn:Oc|]; inversion Lc; subst child.
  pose proof (last_opt_in _ _ L) as Hc.
  assert (Gc : get st (bid c) = Ok c).
  { apply (get_unique _ _ _ V). eapply bsub_kid_of; [|exact Hc]. eapply get_sub; exact G. }
  exists cn, c. repeat split; try assumption; try reflexivity.
  - rewrite (open_of_get _ _ _ Gc), Oc. reflexivity.
  - eapply kid_parent; eassumption.
  - eapply kid_ne; eassumption.
Qed.

Lemma ngS_pmbq o st line cid fl fo : W o st -> open_of st cid = Some true ->
  ngS (parse_multiline_block_quote_prefix o st line cid fl fo).
Proof.
  intros V O. unfold parse_multiline_block_quote_prefix.
  apply ng_bind; [nggo|]. intros matched _. destruct (N.leb fl (N.of_nat matched)); [|nggo].
  apply ng_bind; [auto with ngS|]. intros st1 A. pose proof (adv_eqtree _ _ _ _ _ A) as T1.
  pose proof (W_eqtree _ _ _ T1 V) as V1. assert (O1 : open_of st1 cid = Some true) by (rewrite (open_of_eqtree _ _ cid T1); exact O).
  apply ng_bind; [auto with ngS|]. intros lc Lc.
  eapply sg_bind with (P := fun s2 => open_of s2 cid = Some true).
  - destruct lc as [child|]; [|exact O1].
    destruct (last_child_open_inv _ _ _ _ V1 Lc) as (cn & c & G & Hc & L & Bc & Gc & Oc & Pc & Nc).
    apply sgb; [apply ngS_unwrap_parent_open; [allowed | exact Oc]|]. intros [p s2] U. cbn [sg snd].
    apply unwrap_parent_inv in U. rewrite (finalize_open_other _ _ _ _ _ U V1 cid); [exact O1 | congruence].
  - intros s2 _ O2. apply ng_bind; [apply ngS_unwrap_parent_open; [allowed | exact O2]|]. intros; exact I.
Qed.

Lemma ngS_check_container o st line c : W o st -> open_of st (bid c) = Some true -> ngS (check_container o st line c).
Proof.
  intros V O. unfold check_container.
  destruct (bval c); nggo; first [now apply ngS_pcbp | now apply ngS_pmbq].
Qed.

(* the results that stop the line: the current node becomes the parent of the closed container *)
Lemma pcbp_OC o st line cid cb m st' : parse_code_block_prefix o st line cid cb = Ok (m, false, st') ->
  W o st -> OC st cid -> OC st' (ps_current st').
Proof.
  intros H V Hc. unfold parse_code_block_prefix in H.
  destruct (negb (cb_fenced cb)).
  { destruct (Nat.leb code_indent (indent st)); [mon H|]. destruct (blank st); mon H. }
  mstep H. destruct (N.leb (cb_fence_length cb) (N.of_nat a)); [|mon H].
  destruct (adv st line a false) as [s1| |] eqn:A; cbn [bind] in H; try discriminate H.
  match type of H with bind ?u _ = _ => destruct u as [[p s2]| |] eqn:U; cbn [bind fst snd] in H; try discriminate H end.
  inversion H; subst. clear H. cbn [ps_current st_current].
  apply unwrap_parent_inv in U. pose proof (adv_eqtree _ _ _ _ _ A) as T1.
  eapply OC_root_eq; [|eapply finalize_OC_parent; [exact U | exact (W_eqtree _ _ _ T1 V) | eapply OC_eqtree; eassumption]]. reflexivity.
Qed.

Lemma pmbq_OC o st line cid fl fo m st' : parse_multiline_block_quote_prefix o st line cid fl fo = Ok (m, false, st') ->
  W o st -> OC st cid -> OC st' (ps_current st').
Proof.
  intros H V Hc. unfold parse_multiline_block_quote_prefix in H.
  mstep H. destruct (N.leb fl (N.of_nat a)); [|mon H].
  destruct (adv st line a false) as [s1| |] eqn:A; cbn [bind] in H; try discriminate H.
  pose proof (adv_eqtree _ _ _ _ _ A) as T1. pose proof (W_eqtree _ _ _ T1 V) as V1. pose proof (OC_eqtree _ _ T1 _ Hc) as H1.
  destruct (last_child_is_open s1 cid) as [lc| |] eqn:Lc; cbn [bind] in H; try discriminate H.
  assert (K : exists s2, (match lc with
               | Some child =>
                 do r <- unwrap_parent "mod.rs:parse_multiline_block_quote_prefix:finalize_borrowed(child, child_ast).unwrap()"
                           (finalize o s1 child);
                 Ok (snd r)
               | None => Ok s1
               end) = Ok s2 /\ W o s2 /\ OC s2 cid).
  { destruct lc as [child|]; [|exists s1; auto].
    destruct (last_child_open_inv _ _ _ _ V1 Lc) as (cn & c & G & Hk & L & Bc & Gc & Oc & Pc & Nc).
    match type of H with bind (bind ?u _) _ = _ => destruct u as [[p s2]| |] eqn:U; cbn [bind fst snd] in H; try discriminate H end.
    exists s2. split; [reflexivity|]. apply unwrap_parent_inv in U.
    split; [exact (proj1 (finalize_post _ _ _ _ _ U V1))|].
    eapply finalize_OC_above; [exact U | exact V1 | exact H1 | eapply parent_ssz; eassumption]. }
  destruct K as (s2 & E2 & V2 & H2). rewrite E2 in H. cbn [bind] in H.
  match type of H with bind ?u _ = _ => destruct u as [[p s3]| |] eqn:U; cbn [bind fst snd] in H; try discriminate H end.
  inversion H; subst. clear H. cbn [ps_current st_current]. apply unwrap_parent_inv in U.
  eapply OC_root_eq; [|eapply finalize_OC_parent; eassumption]. reflexivity.
Qed.

Lemma check_container_OC o st line c m st' : check_container o st line c = Ok (m, false, st') ->
  W o st -> OC st (bid c) -> OC st' (ps_current st').
Proof.
  intros H V Hc. unfold check_container in H.
  destruct (bval c); try (mon H; fail); try (eapply pcbp_OC; eassumption); try (eapply pmbq_OC; eassumption).
  match type of H with context [a_multiline ?a] => destruct (a_multiline a) end; [eapply pmbq_OC; eassumption | mon H].
Qed.

(* (all_matched, container, should_continue, state): with should_continue the tree is the same and the container
   answered has an open chain (when it did not match, so has its parent: the last matched container); without, the
   line stops and the new current node has an open chain *)
Definition COBS (o : bopts) (st : pstate) (r : bool * nat * bool * pstate) : Prop :=
  let '(am, c, cont, st') := r in
  if cont then eqtree st st' /\ OC st' c /\ (am = false -> exists p, parent_of c (ps_root st') = Some p /\ OC st' p)
  else W o st' /\ OC st' (ps_current st').

Theorem cobi_spine o line : forall fuel st container, W o st -> OC st container ->
  sg alS true (COBS o st) (check_open_blocks_inner fuel o st line container).
Proof.
  induction fuel as [|f IH]; intros st container V H; cbn [check_open_blocks_inner]; [reflexivity|].
  apply sgb; [auto with ngS|]. intros lc Lc.
  destruct lc as [cid|]; [|cbn; split; [apply eqtree_refl | split; [exact H | discriminate]]].
  destruct (last_child_open_inv _ _ _ _ V Lc) as (cn & c & G & Hk & L & Bc & Gc & Oc & Pc & Nc).
  assert (Hc : OC st cid) by (eapply OC_step; eassumption).
  assert (Nr : cid <> root_id).
  { pose proof (kid_not_root _ _ _ _ _ V G Hk) as Nk. rewrite (W_R0 _ _ V) in Nk. rewrite <- Bc. exact Nk. }
  apply sgb; [auto with ngS|]. intros s1 E1. pose proof (ffn_eqtree _ _ _ E1) as T1.
  pose proof (W_eqtree _ _ _ T1 V) as V1. pose proof (OC_eqtree _ _ T1 _ Hc) as Hc1.
  apply sgb; [auto with ngS|]. intros c1 G1.
  assert (c1 = c).
  { unfold get in G1, Gc. rewrite (proj1 T1) in G1. rewrite G1 in Gc. now inversion Gc. }
  subst c1. rewrite <- Bc in *.
  apply sgb; [apply ngS_check_container; [exact V1 | exact (OC_open _ _ Hc1)]|]. intros [[matched cont] s2] E2.
  pose proof (safe_ok _ _ _ (check_container_spec o s1 line c V1 G1 Nr) E2) as K. cbn in K.
  destruct matched.
  - destruct cont; [|destruct K as [K _]; discriminate K].
    pose proof (eqtree_trans _ _ _ T1 K) as T2.
    eapply sg_weaken; [apply (IH s2 (bid c) (W_eqtree _ _ _ T2 V) (OC_eqtree _ _ T2 _ Hc))|].
    intros [[[am c'] cont'] s3] _ R. cbn in R |- *.
    destruct cont'; [|exact R]. destruct R as (R1 & R2 & R3). split; [eapply eqtree_trans; eassumption | auto].
  - cbn. destruct cont.
    + pose proof (eqtree_trans _ _ _ T1 K) as T2. split; [exact T2|]. split; [eapply OC_eqtree; eassumption|].
      intros _. exists container. split; [rewrite (proj1 T2); exact Pc | eapply OC_eqtree; eassumption].
    + destruct K as (_ & K1 & _). split; [exact K1|]. eapply check_container_OC; eassumption.
Qed.

(* check_open_blocks: Some (lmc, all_matched): same tree, lmc has an open chain; None: the new current node has one *)
Definition COBRS (o : bopts) (st : pstate) (r : option (nat * bool) * pstate) : Prop :=
  match r with
  | (Some (c, am), st') => eqtree st st' /\ OC st' c
  | (None, st') => W o st' /\ OC st' (ps_current st')
  end.

Theorem check_open_blocks_spine o st line : W o st -> OC st root_id ->
  sg alS true (COBRS o st) (check_open_blocks o st line).
Proof.
  intros V H. unfold check_open_blocks.
  eapply sg_bind; [apply (cobi_spine o line (S (ps_next st)) st root_id V H)|].
  intros [[[am c] cont] s1] E K. cbn in K.
  destruct cont.
  - destruct K as (T & Hc & Hp). destruct am; cbn [bind]; [cbn; auto|].
    destruct (Hp eq_refl) as (p & P & Op). rewrite P. cbn. auto.
  - destruct K as (V1 & Hcur). destruct am; cbn [bind]; [cbn; auto|].
    destruct (parent_of c (ps_root s1)); cbn; [auto | vm_compute; reflexivity].
Qed.

(* ================================================================== finalize_document, the front matter *)
Lemma OC_anc_root o st x : W o st -> OC st x -> anc (ps_root st) root_id x.
Proof.
  intros V H. induction H as [x O P|x p O P _ IH]; [|eapply anc_step; eassumption].
  assert (x = root_id); [|subst; apply anc_refl].
  unfold open_of in O. destruct (find_node x (ps_root st)) as [n|] eqn:F; [|discriminate O].
  assert (G : get st x = Ok n) by (unfold get; now rewrite F).
  pose proof (no_parent_root _ _ _ G P) as E. destruct (find_node_sub _ _ _ F) as [B _]. subst n.
  rewrite <- B. exact (W_R0 _ _ V).
Qed.

Theorem finalize_document_spine o st : W o st -> OC st (ps_current st) -> ngS (finalize_document o st).
Proof.
  intros V H. unfold finalize_document.
  eapply sg_bind; [apply finalize_up_to_spine; [exact V | apply OC_OS; [exact H | now apply (OC_anc_root o)]]|].
  intros s1 _ (V1 & C & Fr). apply ng_bind; [|intros; exact I].
  apply ngS_finalize_open. destruct (Fr root_id) as [A _].
  - intro Sg. apply SEG_anc in Sg. now destruct Sg.
  - rewrite A. apply OC_open. eapply OC_root; eassumption.
Qed.

(* ================================================================== states that agree everywhere *)
Lemma modify_info_agree st id g st' :
  modify_info st id g = Ok st' -> (forall i, bi_id (g i) = bi_id i /\ bi_open (g i) = bi_open i) -> forall y, agree st st' y.
Proof.
  intros M Hg y. split; [eapply modify_info_keeps_open; eassumption|].
  eapply modify_info_parent_of; [|exact M]. intro i. apply Hg.
Qed.

Lemma anc_ext t t' : (forall y, parent_of y t' = parent_of y t) -> forall a x, anc t a x -> anc t' a x.
Proof.
  intros E a x H. induction H as [|x p P _ IH]; [apply anc_refl|]. eapply anc_step; [rewrite E; exact P | exact IH].
Qed.

Lemma SEG_ext t t' : (forall y, parent_of y t' = parent_of y t) -> forall a x z, SEG t a x z -> SEG t' a x z.
Proof.
  intros E a x z H. induction H as [x N|x p z N P _ IH]; [now apply SEG_here|].
  eapply SEG_up; [exact N | rewrite E; exact P | exact IH].
Qed.

(* the hypotheses of add_text_to_container (P2 without the right edge) *)
Definition ATCH (o : bopts) (st : pstate) (c lmc : nat) : Prop :=
  W o st /\ OC st c /\
  (ps_current st = lmc \/ OS st lmc (ps_current st)) /\
  (open_of st (ps_current st) = Some true \/ ps_current st = lmc) /\
  (forall z, SEG (ps_root st) lmc (ps_current st) z -> ~ anc (ps_root st) z c).

Lemma ATCH_agree o st st' c lmc : ATCH o st c lmc -> W o st' -> (forall y, agree st st' y) -> ps_current st' = ps_current st ->
  ATCH o st' c lmc.
Proof.
  intros (V & Hc & H3 & H4 & H5) V' A C.
  assert (EP : forall y, parent_of y (ps_root st') = parent_of y (ps_root st)) by (intro y; apply A).
  assert (EP' : forall y, parent_of y (ps_root st) = parent_of y (ps_root st')) by (intro y; symmetry; apply EP).
  split; [exact V'|]. split; [eapply (OC_frame st st' (fun _ => True)); [intros; apply A | exact Hc | auto]|].
  rewrite C. split; [|split].
  - destruct H3 as [H3|H3]; [now left | right]. eapply (OS_frame st st' lmc (fun _ => True)); [intros; apply A | exact H3 | auto].
  - destruct H4 as [H4|H4]; [left | now right]. rewrite (proj1 (A _)). exact H4.
  - intros z Sg Az. apply (H5 z); [eapply SEG_ext; [exact EP' | exact Sg] | eapply anc_ext; [exact EP' | exact Az]].
Qed.

Lemma ATCH_eqtree o st st' c lmc : eqtree st st' -> ATCH o st c lmc -> ATCH o st' c lmc.
Proof.
  intros T H. eapply ATCH_agree; [exact H | eapply W_eqtree; [exact T | apply H] | | apply T].
  intro y. destruct T as (E & _). unfold agree, open_of. now rewrite E.
Qed.

Lemma ATCH_set_llb o st st' c lmc id b : modify_info st id (set_llb b) = Ok st' -> ATCH o st c lmc -> ATCH o st' c lmc.
Proof.
  intros M H. eapply ATCH_agree; [exact H | | |].
  - eapply modify_info_set_W; [exact M | intro; split; reflexivity | apply H].
  - eapply modify_info_agree; [exact M | intro; split; reflexivity].
  - apply (BlocksTotal3Tab.modify_fields _ _ _ _ M).
Qed.

Lemma ATCH_clear_llb_up o c lmc : forall fuel st id st', clear_llb_up fuel st id = Ok st' -> ATCH o st c lmc -> ATCH o st' c lmc.
Proof.
  induction fuel as [|f IH]; intros st id st' H A; [discriminate H|]. cbn [clear_llb_up] in H.
  destruct (parent_of id (ps_root st)) as [p|]; [|inversion H; subst; exact A].
  destruct (modify_info st p (set_llb false)) as [s1| |] eqn:M; cbn [bind] in H; try discriminate H.
  eapply IH; [exact H|]. eapply ATCH_set_llb; eassumption.
Qed.

(* ================================================================== add_text_to_container *)
Theorem add_text_to_container_spine o st c lmc line : ATCH o st c lmc -> ngS (add_text_to_container o st c lmc line).
Proof.
  intro H. unfold add_text_to_container. cbv zeta.
  apply ng_bind; [auto with ngS|]. intros s0 E0. pose proof (ATCH_eqtree _ _ _ _ _ (ffn_eqtree _ _ _ E0) H) as H0. clear H E0 st.
  apply ng_bind; [auto with ngS|]. intros cn G.
  apply ng_bind; [nggo|]. intros s1 E1.
  assert (H1 : ATCH o s1 c lmc).
  { destruct (blank s0); [|inversion E1; subst; exact H0].
    destruct (last_opt (bkids cn)) as [lc|]; [eapply ATCH_set_llb; eassumption | inversion E1; subst; exact H0]. }
  clear H0 E1 G.
  apply ng_bind; [auto with ngS|]. intros s2 E2. pose proof (ATCH_set_llb _ _ _ _ _ _ _ E2 H1) as H2. clear H1 E2.
  apply ng_bind; [auto with ngS|]. intros s3 E3. pose proof (ATCH_clear_llb_up _ _ _ _ _ _ _ E3 H2) as H3. clear H2 E3 s2 s1 s0.
  destruct H3 as (V & Hc & K3 & K4 & K5).
  apply ng_bind; [nggo|]. intros lazy EL.
  destruct lazy.
  - (* the lazy line: self.current is not lmc, so it is open *)
    apply ngS_add_line_open.
    destruct (negb (Nat.eqb (ps_current s3) lmc)) eqn:N; [|cbn [andb] in EL; inversion EL].
    apply negb_true_iff, Nat.eqb_neq in N. destruct K4 as [K4|K4]; [exact K4 | congruence].
  - clear EL.
    assert (Hos : OS s3 lmc (ps_current s3)) by (destruct K3 as [K3|K3]; [rewrite K3; apply OS_refl | exact K3]).
    eapply sg_bind; [apply finalize_up_to_spine; [exact V | exact Hos]|].
    intros s4 _ (V4 & C4 & Fr).
    assert (Hc4 : OC s4 c).
    { eapply (OC_frame s3 s4 (fun y => ~ SEG (ps_root s3) lmc (ps_current s3) y)); [exact Fr | exact Hc|].
      intros a Aa Sg. exact (K5 a Sg Aa). }
    clear Fr K3 K4 K5 Hos Hc V.
    match goal with |- sg ?a ?f _ ?r => change (ng a f r) end.
    apply ng_bind; [auto with ngS|]. intros c4 G4.
    apply ng_bind; [|intros; exact I].
    destruct (bval c4); nggo;
      try (apply ngS_add_child; assumption);
      try (apply ngS_add_line_open, OC_open; exact Hc4);
      try (apply ngS_add_line_open;
           match goal with H : adv s4 _ _ _ = Ok ?a1 |- open_of ?a1 _ = _ =>
             rewrite (open_of_eqtree _ _ _ (adv_eqtree _ _ _ _ _ H)); apply OC_open; exact Hc4 end);
      try (apply ngS_unwrap_parent_open; [allowed|];
           match goal with H : add_line s4 c line = Ok ?a |- _ => rewrite (add_line_keeps_open _ _ _ _ H); apply OC_open; exact Hc4 end);
      try (apply ngS_add_line_open;
           match goal with H : add_child o s4 c Paragraph _ = Ok (?n, ?s), H1 : adv ?s _ _ _ = Ok ?a0 |- open_of ?a0 ?n = _ =>
             rewrite (open_of_eqtree _ _ _ (adv_eqtree _ _ _ _ _ H1)); apply OC_open;
             pose proof (add_child_W _ _ _ _ _ _ _ H V4 eq_refl eq_refl eq_refl) as Ws;
             exact (proj1 (add_child_gen_OC _ _ _ _ _ _ _ _ _ H V4 Ws Hc4 (fun _ => eq_refl) (fun _ => eq_refl))) end).
    all: apply ngS_add_line_open.
    all: rewrite (open_of_eqtree _ _ _ (adv_eqtree _ _ _ _ _ H1)); apply OC_open.
    all: pose proof (add_child_W _ _ _ _ _ _ _ H V4 eq_refl eq_refl eq_refl) as Ws.
    all: unfold add_child in H.
    all: destruct (add_child_gen_OC _ _ _ _ _ _ _ _ _ H V4 Ws Hc4 (fun _ => eq_refl) (fun _ => eq_refl)) as [K _]; exact K.
Qed.

(* ---- add_text_to_container re-establishes the first clause of the between-lines invariant *)
Lemma add_line_parent_of st id line st' : add_line st id line = Ok st' -> forall y, parent_of y (ps_root st') = parent_of y (ps_root st).
Proof.
  unfold add_line. intros H y. mstep H. rename E into G. mstep H; [discriminate H|]. clear E.
  destruct (c_pct (ps_cur st)); cbv beta iota in H; mon H; cbn [ps_root st_cur];
    (match goal with M : modify_info st ?i (fun _ => ?j) = Ok _, E : _ = Ok ?j |- _ =>
       apply (mi_const_parent_of st i j _ y M);
       destruct (find_node_sub _ _ _ (get_find _ _ _ G)) as [Ba _]; unfold bid in Ba; rewrite <- Ba;
       match type of E with (if ?b then _ else _) = _ => destruct b end;
       [ mstep E; mstep E; reflexivity | inversion E; reflexivity ] end).
Qed.

Definition STEP (o : bopts) (st st' : pstate) : Prop :=
  W o st' /\ (forall y, agree st st' y) /\ ps_current st' = ps_current st.

Lemma add_line_spine o st id line : W o st -> open_of st id = Some true -> sg alS true (STEP o st) (add_line st id line).
Proof.
  intros V O. eapply ng_sg; [now apply ngS_add_line_open|]. intros st' H.
  destruct (add_line_post _ _ _ _ _ H V) as [V' Sm]. split; [exact V'|]. split; [|exact (sm_cur _ _ Sm)].
  intro y. split; [eapply add_line_keeps_open; exact H | eapply add_line_parent_of; exact H].
Qed.

Lemma STEP_OC o st st' x : STEP o st st' -> OC st x -> OC st' x.
Proof. intros (_ & A & _) H. eapply (OC_frame st st' (fun _ => True)); [intros; apply A | exact H | auto]. Qed.

Lemma OS_OC st a x : OS st a x -> OC st a -> OC st x.
Proof. intros H Ha. induction H as [|x p N O P _ IH]; [exact Ha|]. eapply OC_step; eassumption. Qed.

Definition ATCR (o : bopts) (r : nat * pstate) : Prop := W o (snd r) /\ OC (snd r) (fst r).

Lemma atc_generic o s4 c line v (line1r : res bytes) : W o s4 -> OC s4 c -> ngS line1r ->
  sg alS true (ATCR o)
    (if blank s4 then Ok (c, s4)
     else if accepts_lines (kind_of v) then
       do line1 <- line1r;
       do count <- sub "mod.rs:add_text_to_container:self.first_nonspace - self.offset" (fns s4) (offset s4);
       if Nat.leb (fns s4) (List.length line1) then
         do st1 <- adv s4 line1 count false;
         do st2 <- add_line st1 c line1;
         Ok (c, st2)
       else Ok (c, s4)
     else
       do a <- add_child o s4 c Paragraph (S (fns s4));
       let '(p, st1) := a in
       do count <- sub "mod.rs:add_text_to_container:self.first_nonspace - self.offset" (fns st1) (offset st1);
       do st2 <- adv st1 line count false;
       do st3 <- add_line st2 p line;
       Ok (p, st3)).
Proof.
  intros V Hc Nl. destruct (blank s4); [split; assumption|].
  destruct (accepts_lines (kind_of v)).
  - apply sgb; [exact Nl|]. intros line1 _. apply sgb; [auto with ngS|]. intros count _.
    destruct (Nat.leb (fns s4) (List.length line1)); [|split; assumption].
    apply sgb; [auto with ngS|]. intros st1 A. pose proof (adv_eqtree _ _ _ _ _ A) as T.
    pose proof (W_eqtree _ _ _ T V) as V1. pose proof (OC_eqtree _ _ T _ Hc) as H1.
    eapply sg_bind; [apply (add_line_spine o); [exact V1 | exact (OC_open _ _ H1)]|]. intros st2 _ St.
    split; [apply St | eapply STEP_OC; eassumption].
  - apply sgb; [now apply ngS_add_child|]. intros [p st1] A.
    pose proof (add_child_W _ _ _ _ _ _ _ A V eq_refl eq_refl eq_refl) as V1. unfold add_child in A.
    destruct (add_child_gen_OC _ _ _ _ _ _ _ _ _ A V V1 Hc (fun _ => eq_refl) (fun _ => eq_refl)) as [Hp _].
    apply sgb; [auto with ngS|]. intros count _.
    apply sgb; [auto with ngS|]. intros st2 A2. pose proof (adv_eqtree _ _ _ _ _ A2) as T.
    pose proof (W_eqtree _ _ _ T V1) as V2. pose proof (OC_eqtree _ _ T _ Hp) as H2.
    eapply sg_bind; [apply (add_line_spine o); [exact V2 | exact (OC_open _ _ H2)]|]. intros st3 _ St.
    split; [apply St | eapply STEP_OC; eassumption].
Qed.

Theorem add_text_to_container_spine_post o st c lmc line : ATCH o st c lmc ->
  sg alS true (fun st' => W o st' /\ OC st' (ps_current st')) (add_text_to_container o st c lmc line).
Proof.
  intro H. unfold add_text_to_container. cbv zeta.
  apply sgb; [auto with ngS|]. intros s0 E0. pose proof (ATCH_eqtree _ _ _ _ _ (ffn_eqtree _ _ _ E0) H) as H0. clear H E0 st.
  apply sgb; [auto with ngS|]. intros cn G.
  apply sgb; [nggo|]. intros s1 E1.
  assert (H1 : ATCH o s1 c lmc).
  { destruct (blank s0); [|inversion E1; subst; exact H0].
    destruct (last_opt (bkids cn)) as [lc|]; [eapply ATCH_set_llb; eassumption | inversion E1; subst; exact H0]. }
  clear H0 E1 G.
  apply sgb; [auto with ngS|]. intros s2 E2. pose proof (ATCH_set_llb _ _ _ _ _ _ _ E2 H1) as H2. clear H1 E2.
  apply sgb; [auto with ngS|]. intros s3 E3. pose proof (ATCH_clear_llb_up _ _ _ _ _ _ _ E3 H2) as H3. clear H2 E3 s2 s1 s0.
  destruct H3 as (V & Hc & K3 & K4 & K5).
  assert (Hos : OS s3 lmc (ps_current s3)) by (destruct K3 as [K3|K3]; [rewrite K3; apply OS_refl | exact K3]).
  apply sgb; [nggo|]. intros lazy EL.
  destruct lazy.
  - (* the lazy line: container = lmc, self.current below it *)
    destruct (negb (Nat.eqb (ps_current s3) lmc)) eqn:N; [|cbn [andb] in EL; inversion EL].
    destruct (Nat.eqb c lmc) eqn:Ec; [|cbn [andb] in EL; inversion EL]. apply Nat.eqb_eq in Ec. subst c.
    pose proof (OS_OC _ _ _ Hos Hc) as Hcur.
    eapply sg_weaken; [apply (add_line_spine o); [exact V | exact (OC_open _ _ Hcur)]|].
    intros st' _ St. split; [apply St|]. destruct St as (V' & A & C). rewrite C.
    eapply STEP_OC; [|exact Hcur]. split; [exact V' | split; [exact A | exact C]].
  - clear EL.
    eapply sg_bind; [apply finalize_up_to_spine; [exact V | exact Hos]|].
    intros s4 _ (V4 & C4 & Fr).
    assert (Hc4 : OC s4 c).
    { eapply (OC_frame s3 s4 (fun y => ~ SEG (ps_root s3) lmc (ps_current s3) y)); [exact Fr | exact Hc|].
      intros a Aa Sg. exact (K5 a Sg Aa). }
    clear Fr K3 K4 K5 Hos Hc V.
    apply sgb; [auto with ngS|]. intros c4 G4.
    eapply sg_bind with (P := ATCR o).
    2:{ intros [x s5] _ [V5 H5]. cbn [fst snd sg] in *. split; [now apply W_st_current|].
        cbn [ps_current st_current]. eapply OC_root_eq; [|exact H5]. reflexivity. }
    destruct (bval c4) eqn:Bv;
      try (apply (atc_generic o s4 c line _ (Ok line) V4 Hc4 I); fail).
    + (* CodeBlock *)
      eapply sg_bind; [apply (add_line_spine o); [exact V4 | exact (OC_open _ _ Hc4)]|]. intros st1 _ St.
      split; [apply St | eapply STEP_OC; eassumption].
    + (* HtmlBlock *)
      eapply sg_bind; [apply (add_line_spine o); [exact V4 | exact (OC_open _ _ Hc4)]|]. intros st1 _ St.
      pose proof (STEP_OC _ _ _ _ St Hc4) as H1. destruct St as (V1 & _ & _).
      apply sgb; [auto with ngS|]. intros rest _.
      destruct (html_end_condition block_type rest); [|split; assumption].
      eapply ng_sg; [apply ngS_unwrap_parent_open; [allowed | exact (OC_open _ _ H1)]|].
      intros [p s5] U. apply unwrap_parent_inv in U. split; cbn [fst snd].
      * exact (proj1 (finalize_post _ _ _ _ _ U V1)).
      * eapply finalize_OC_parent; eassumption.
    + (* Heading *)
      apply (atc_generic o s4 c line (Heading level setext) _ V4 Hc4). destruct (negb setext); [auto with ngS | exact I].
Qed.

(* ================================================================== the front matter prologue *)
Theorem front_matter_prologue_spine o st s : W o st -> OC st root_id ->
  sg alS true (fun r => W o (fst r) /\ OC (fst r) root_id) (front_matter_prologue o st s).
Proof.
  intros V H. unfold front_matter_prologue.
  destruct (bo_front_matter_delimiter o) as [d|]; [|split; assumption].
  apply sgb; [auto with ngS|]. intros sp _. destruct sp as [[fm rest]|]; [|split; assumption].
  apply sgb; [auto with ngS|]. intros stripped _.
  apply sgb; [now apply ngS_add_child|]. intros [node st1] A.
  pose proof (add_child_W _ _ _ _ _ _ _ A V eq_refl eq_refl eq_refl) as V1. unfold add_child in A.
  destruct (add_child_gen_OC _ _ _ _ _ _ _ _ _ A V V1 H (fun _ => eq_refl) (fun _ => eq_refl)) as [Hn _].
  apply sgb; [apply ngS_unwrap_parent_open; [allowed | exact (OC_open _ _ Hn)]|]. intros [p s2] U.
  apply unwrap_parent_inv in U. cbn [fst snd].
  pose proof (proj1 (finalize_post _ _ _ _ _ U V1)) as V2.
  pose proof (OC_root _ _ _ V2 (finalize_OC_parent _ _ _ _ _ U V1 Hn)) as H2.
  apply sgb; [auto with ngS|]. intros s3 M. cbn [sg fst].
  assert (V3 : W o s3) by (eapply modify_info_set_W; [exact M | intro; split; reflexivity | exact V2]).
  split.
  - destruct V3 as (T3 & S3 & R3). split; [apply TI_st_line_number; exact T3 | split; [exact S3 | exact R3]].
  - eapply OC_root_eq; [|eapply (OC_frame s2 s3 (fun _ => True)); [|exact H2 | auto]]; [reflexivity|].
    intros y _. eapply modify_info_agree; [exact M | intro; split; reflexivity].
Qed.

Lemma OC_init : OC init_state root_id.
Proof. apply OC_top; reflexivity. Qed.

(* what the three theorems above give for a whole run: from the initial state the root has an open chain after the
   prologue; check_open_blocks keeps it (or stops the line with an open chain under the new current node); the end of
   the document closes an open chain.  Missing in between: open_new_blocks (P2) *)
Theorem prologue_spine o x : sg alS true (fun r => W o (fst r) /\ OC (fst r) root_id) (front_matter_prologue o init_state x).
Proof. apply front_matter_prologue_spine; [apply W_init | apply OC_init]. Qed.

(* ================================================================== open_new_blocks: the handlers that only add children
   (first clause of P2: the container a handler answers has an open chain).  Missing: handle_description_list
   (parse_desc_list_details: bdetach, reopen_ast_nodes), try_opening_block (edit_kids), hence the step and the loop. *)
Definition HS (o : bopts) (r : bool * nat * pstate) : Prop := W o (snd r) /\ OC (snd r) (snd (fst r)).

Ltac eqt :=
  first [ apply eqtree_refl
        | match goal with
          | H : adv ?a _ _ _ = Ok ?b |- eqtree _ ?b => apply (eqtree_trans _ a b); [eqt | exact (adv_eqtree _ _ _ _ _ H)]
          | H : skip_one_space ?a _ _ = Ok ?b |- eqtree _ ?b => apply (eqtree_trans _ a b); [eqt | exact (skip_one_space_eqtree _ _ _ _ H)]
          | H : ffn ?a _ = Ok ?b |- eqtree _ ?b => apply (eqtree_trans _ a b); [eqt | exact (ffn_eqtree _ _ _ H)]
          | H : list_spaces_loop _ ?a _ _ = Ok ?b |- eqtree _ ?b => apply (eqtree_trans _ a b); [eqt | exact (list_spaces_loop_eqtree _ _ _ _ _ H)]
          end ].

Ltac hstep :=
  match goal with
  | |- sg _ _ _ (not_handled _ _) => unfold not_handled
  | |- sg _ _ _ (Panic _) => allowed
  | |- sg _ _ _ (bind (add_child _ _ _ _ _) _) => fail 1
  | |- sg _ _ _ (bind (add_child_gen _ _ _ _ _ _ _) _) => fail 1
  | |- sg _ _ _ (bind ?r _) => apply sgb; [solve [nggo] | intros]
  | |- sg _ _ _ (if ?b then _ else _) => destruct b eqn:?
  | |- sg _ _ _ (match ?x with _ => _ end) => destruct x eqn:?
  | |- sg _ _ _ (let (_, _) := ?x in _) => destruct x eqn:?
  end.

Section HandlersS.
Variables (o : bopts) (line : bytes).

Lemma HS_same st c b : W o st -> OC st c -> sg alS true (HS o) (Ok (b, c, st)).
Proof. intros V H. split; assumption. Qed.

Ltac hadd st V H :=
  match goal with |- sg _ _ _ (bind (add_child ?oo ?s ?c ?v ?col) _) =>
    let Vs := fresh "Vs" in let Hs := fresh "Hs" in let A := fresh "A" in let Vn := fresh "Vn" in let Hn := fresh "Hn" in
    assert (Vs : W oo s) by (apply (W_eqtree oo st s); [eqt | exact V]);
    assert (Hs : OC s c) by (apply (OC_eqtree st s); [eqt | exact H]);
    apply sgb; [apply ngS_add_child; assumption|];
    intros [? ?] A; cbn [fst snd];
    match type of A with _ = Ok (_, ?p) =>
      assert (Vn : W oo p) by (eapply add_child_W; [exact A | exact Vs | first [reflexivity | assumption] | reflexivity | reflexivity]) end;
    unfold add_child in A;
    destruct (add_child_gen_OC _ _ _ _ _ _ _ _ _ A Vs Vn Hs (fun _ => eq_refl) (fun _ => eq_refl)) as [Hn _]
  end.

Lemma handle_blockquote_spine st c ind : W o st -> OC st c -> sg alS true (HS o) (handle_blockquote o st c line ind).
Proof.
  intros V H. unfold handle_blockquote. repeat hstep; try (now apply HS_same).
  hadd st V H. split; assumption.
Qed.

Lemma handle_alert_spine st c ind : W o st -> OC st c -> sg alS true (HS o) (handle_alert o st c line ind).
Proof.
  intros V H. unfold handle_alert. repeat hstep; try (now apply HS_same).
  all: hadd st V H; split; assumption.
Qed.

Lemma handle_html_block_spine st c ind : W o st -> OC st c -> sg alS true (HS o) (handle_html_block o st c line ind).
Proof.
  intros V H. unfold handle_html_block, rest_at_fns. repeat hstep; try (now apply HS_same).
  all: hadd st V H; split; assumption.
Qed.

Lemma handle_code_block_spine st c ind ml : W o st -> OC st c -> sg alS true (HS o) (handle_code_block o st c line ind ml).
Proof.
  intros V H. unfold handle_code_block. repeat hstep; try (now apply HS_same).
  all: hadd st V H; split; assumption.
Qed.

(* an adv after the add_child *)
Lemma handle_mbq_spine st c ind : W o st -> OC st c -> sg alS true (HS o) (handle_multiline_blockquote o st c line ind).
Proof.
  intros V H. unfold handle_multiline_blockquote, rest_at_fns. repeat hstep; try (now apply HS_same).
  all: hadd st V H; repeat hstep;
    match goal with E : adv ?a _ _ _ = Ok ?b |- sg _ _ _ (Ok (_, _, ?b)) =>
      pose proof (adv_eqtree _ _ _ _ _ E) as T; split; cbn [fst snd]; [eapply W_eqtree; eassumption | eapply OC_eqtree; eassumption] end.
Qed.

Lemma handle_code_fence_spine st c ind : W o st -> OC st c -> sg alS true (HS o) (handle_code_fence o st c line ind).
Proof.
  intros V H. unfold handle_code_fence, rest_at_fns. repeat hstep; try (now apply HS_same).
  all: hadd st V H; repeat hstep;
    match goal with E : adv ?a _ _ _ = Ok ?b |- sg _ _ _ (Ok (_, _, ?b)) =>
      pose proof (adv_eqtree _ _ _ _ _ E) as T; split; cbn [fst snd]; [eapply W_eqtree; eassumption | eapply OC_eqtree; eassumption] end.
Qed.

(* modify_info on the new node (fields other than the flag), cursor moves *)
Ltac hfin :=
  repeat match goal with
  | M : modify_info ?a ?id ?g = Ok ?b, Va : W o ?a, Ha : OC ?a ?x |- _ =>
      assert (W o b) by (eapply modify_info_set_W; [exact M | intro; split; reflexivity | exact Va]);
      assert (OC b x) by (eapply (OC_frame a b (fun _ => True));
                          [intros ? _; eapply modify_info_agree; [exact M | intro; split; reflexivity] | exact Ha | auto]);
      clear M
  | E : adv ?a _ _ _ = Ok ?b, Va : W o ?a, Ha : OC ?a ?x |- _ =>
      pose proof (W_eqtree _ _ _ (adv_eqtree _ _ _ _ _ E) Va); pose proof (OC_eqtree _ _ (adv_eqtree _ _ _ _ _ E) _ Ha); clear E
  end; split; cbn [fst snd]; assumption.

Lemma handle_thematic_break_spine st c ind am : W o st -> OC st c -> sg alS true (HS o) (handle_thematic_break o st c line ind am).
Proof.
  intros V H. unfold handle_thematic_break. repeat hstep; try (now apply HS_same).
  - split; cbn [fst snd]; [apply (W_eqtree o st); [repeat split | exact V] | eapply OC_root_eq; [|exact H]; reflexivity].
  - hadd st V H. repeat hstep. hfin.
Qed.

Lemma handle_footnote_spine st c ind d : W o st -> OC st c -> sg alS true (HS o) (handle_footnote o st c line ind d).
Proof.
  intros V H. unfold handle_footnote, rest_at_fns.
  destruct (bo_footnotes o) eqn:Bf; [|rewrite orb_true_r; now apply HS_same].
  repeat hstep; try (now apply HS_same).
  all: hadd st V H; repeat hstep; hfin.
Qed.

(* handle_setext_heading: no add_child; the paragraph becomes a heading (modify_info keeps flag and identifier) *)
Ltac dmon E := repeat (first [ mstep E | match type of E with
   | (if ?b then _ else _) = _ => destruct b eqn:?
   | match ?x with _ => _ end = _ => destruct x eqn:?
   | (let (_, _) := ?x in _) = _ => destruct x eqn:? end ]).

Lemma handle_setext_spine st c ind : W o st -> OC st c -> sg alS true (HS o) (handle_setext_heading o st c line ind).
Proof.
  intros V H. apply ng_sg; [unfold handle_setext_heading, rest_at_fns; nggo|]. intros [[b c'] s] E. split; cbn [fst snd].
  - destruct V as (T & S & R).
    split; [eapply handle_setext_TI; eassumption | split; [eapply handle_setext_valid; eassumption | eapply handle_setext_R0; eassumption]].
  - unfold handle_setext_heading, rest_at_fns, not_handled in E. dmon E; try exact H.
    all: repeat match goal with
      | M : modify_info (st_refmap ?a ?m) ?id ?g = Ok ?b2, Ha : OC ?a ?x |- _ =>
        assert (OC b2 x) by (eapply (OC_frame (st_refmap a m) b2 (fun _ => True));
          [intros ? _; eapply modify_info_agree; [exact M | intro; split; reflexivity] | eapply OC_root_eq; [|exact Ha]; reflexivity | auto]);
        clear M
      | E : adv ?a _ _ _ = Ok ?b2, Ha : OC ?a ?x |- _ => pose proof (OC_eqtree _ _ (adv_eqtree _ _ _ _ _ E) _ Ha); clear E
      end; assumption.
Qed.
End HandlersS.

Ltac dmon2 E := repeat (first [ mstep E | match type of E with
   | (if ?b then _ else _) = _ => destruct b eqn:?
   | match ?x with _ => _ end = _ => destruct x eqn:?
   | (let (_, _) := ?x in _) = _ => destruct x eqn:? end ]).

Section HandlersS2.
Variables (o : bopts) (line : bytes).

Lemma handle_atx_spine st c ind : W o st -> OC st c -> sg alS true (HS o) (handle_atx_heading o st c line ind).
Proof.
  intros V H. apply ng_sg.
  - unfold handle_atx_heading, rest_at_fns. nggo.
    apply ngS_add_child_gen; [apply (W_eqtree o st); [eqt | exact V] | apply (OC_eqtree st); [eqt | exact H]].
  - intros [[b c'] s] E.
    assert (Vs : W o s).
    { destruct V as (T & S & R).
      split; [eapply handle_atx_TI; eassumption | split; [eapply handle_atx_valid; eassumption | eapply handle_atx_R0; eassumption]]. }
    split; cbn [fst snd]; [exact Vs|].
    unfold handle_atx_heading, rest_at_fns, not_handled in E. dmon2 E; try exact H.
    match goal with A : add_child_gen _ ?s1 _ _ _ _ _ = Ok ?a3 |- _ => destruct a3 as [n3 p3]; cbn [fst snd] in *;
      assert (V1 : W o s1) by (apply (W_eqtree o st); [eqt | exact V]);
      assert (H1 : OC s1 c) by (apply (OC_eqtree st); [eqt | exact H]);
      destruct (add_child_gen_OC _ _ _ _ _ _ _ _ _ A V1 Vs H1 (fun _ => eq_refl) (fun _ => eq_refl)) as [K _]; exact K end.
Qed.
End HandlersS2.

Ltac eqt2 :=
  first [ apply eqtree_refl
        | match goal with
          | |- eqtree _ (st_cur ?a _) => apply (eqtree_trans _ a); [eqt2 | repeat split]
          | H : adv ?a _ _ _ = Ok ?b |- eqtree _ ?b => apply (eqtree_trans _ a b); [eqt2 | exact (adv_eqtree _ _ _ _ _ H)]
          | H : list_spaces_loop _ ?a _ _ = Ok ?b |- eqtree _ ?b => apply (eqtree_trans _ a b); [eqt2 | exact (list_spaces_loop_eqtree _ _ _ _ _ H)]
          end ].

Lemma list_pad_eqtree line (st2 : pstate) (cc : cursor) (q : bool) (i matched padding : nat) st5 :
  (if q then
     do st4 <- (if Nat.ltb 0 i then adv (st_cur st2 cc) line 1 true else Ok (st_cur st2 cc)); Ok (matched + 1, st4)
   else Ok (matched + i, st2)) = Ok (padding, st5) -> eqtree st2 st5.
Proof.
  intro H. destruct q; [|inversion H; subst; apply eqtree_refl].
  destruct (Nat.ltb 0 i); cbn [bind] in H.
  - destruct (adv (st_cur st2 cc) line 1 true) as [s| |] eqn:A; cbn [bind] in H; try discriminate H. inversion H; subst.
    apply (eqtree_trans _ (st_cur st2 cc)); [repeat split | exact (adv_eqtree _ _ _ _ _ A)].
  - inversion H; subst. repeat split.
Qed.

Section HandlersS3.
Variables (o : bopts) (line : bytes).

(* the List (matched or just created) under which the Item goes *)
Lemma list_parent_OC p c v col (q : bool) a6 : W o p -> OC p c -> bvok o v = true -> vrowcell v = false -> vplain v = true ->
  (if q then add_child o p c v col else Ok (c, p)) = Ok a6 -> W o (snd a6) /\ OC (snd a6) (fst a6).
Proof.
  intros V H B1 B2 B3 E. destruct q; [|inversion E; subst; split; assumption]. destruct a6 as [c6 s6]. cbn [fst snd].
  pose proof (add_child_W _ _ _ _ _ _ _ E V B1 B2 B3) as V6. split; [exact V6|]. unfold add_child in E.
  now destruct (add_child_gen_OC _ _ _ _ _ _ _ _ _ E V V6 H (fun _ => eq_refl) (fun _ => eq_refl)).
Qed.

Lemma handle_list_spine st c ind d : W o st -> OC st c -> sg alS true (HS o) (handle_list o st c line ind d).
Proof.
  intros V H. apply ng_sg.
  - unfold handle_list. nggo.
    + match goal with X : _ = Ok (_, ?p) |- ngS (add_child _ ?p _ _ _) => rename X into K7 end.
      apply list_pad_eqtree in K7. apply ngS_add_child.
      * apply (W_eqtree o st); [eapply eqtree_trans; [|exact K7]; eqt2 | exact V].
      * apply (OC_eqtree st); [eapply eqtree_trans; [|exact K7]; eqt2 | exact H].
    + match goal with Y : _ = Ok ?a6 |- ngS (add_child _ (snd ?a6) _ _ _) => rename Y into K9 end.
      match goal with X : _ = Ok (_, ?p), Y : get ?p c = Ok _ |- _ => rename X into K7 end.
      apply list_pad_eqtree in K7.
      match type of K7 with eqtree _ ?p =>
        assert (Vp : W o p) by (apply (W_eqtree o st); [eapply eqtree_trans; [|exact K7]; eqt2 | exact V]);
        assert (Hp : OC p c) by (apply (OC_eqtree st); [eapply eqtree_trans; [|exact K7]; eqt2 | exact H]) end.
      assert (R6 : W o (snd a6) /\ OC (snd a6) (fst a6)) by (eapply list_parent_OC; [exact Vp | exact Hp | | | | exact K9]; reflexivity).
      destruct R6. now apply ngS_add_child.
  - intros [[b c'] s] E.
    assert (Vs : W o s).
    { destruct V as (T & S & R).
      split; [eapply handle_list_TI; eassumption | split; [eapply handle_list_valid; eassumption | eapply handle_list_R0; eassumption]]. }
    split; cbn [fst snd]; [exact Vs|].
    unfold handle_list, not_handled in E.
    dmon2 E; try exact H.
    apply list_pad_eqtree in E9.
    assert (Vp : W o p) by (apply (W_eqtree o st); [eapply eqtree_trans; [|exact E9]; eqt2 | exact V]).
    assert (Hp : OC p c) by (apply (OC_eqtree st); [eapply eqtree_trans; [|exact E9]; eqt2 | exact H]).
    assert (R6 : W o (snd a7) /\ OC (snd a7) (fst a7)) by (eapply list_parent_OC; [exact Vp | exact Hp | | | | exact E11]; reflexivity).
    destruct R6 as [V7 H7]. destruct a8 as [n8 s8]. cbn [fst snd] in *. unfold add_child in E12.
    now destruct (add_child_gen_OC _ _ _ _ _ _ _ _ _ E12 V7 Vs H7 (fun _ => eq_refl) (fun _ => eq_refl)).
Qed.
End HandlersS3.

(* ================================================================== open_new_blocks without tables and description lists *)
Section StepS.
Variables (o : bopts) (line : bytes).
Hypothesis Htab : bo_table o = false.
Hypothesis Hdl : bo_description_lists o = false.

Lemma handle_description_list_off st c ind : W o st -> OC st c -> sg alS true (HS o) (handle_description_list o st c line ind).
Proof. intros V H. unfold handle_description_list. rewrite Hdl, orb_true_r. now apply HS_same. Qed.

Lemma sgS_or_else (r : hres) k : sg alS true (HS o) r -> (forall c s, W o s -> OC s c -> sg alS true (HS o) (k c s)) ->
  sg alS true (HS o) (or_else_h r k).
Proof.
  intros H K. unfold or_else_h. eapply sg_bind; [exact H|]. intros [[h c] s] E Hx. destruct h; [exact Hx|].
  destruct Hx as [V1 H1]. now apply K.
Qed.

Definition SS (r : bool * nat * pstate) : Prop := W o (snd r) /\ OC (snd r) (snd (fst r)).

Lemma open_new_blocks_step_spine st c am ml d : W o st -> OC st c -> sg alS true SS (open_new_blocks_step o st c line am ml d).
Proof.
  intros V H. unfold open_new_blocks_step. apply sgb; [auto with ngS|]. intros s0 F0.
  pose proof (ffn_eqtree _ _ _ F0) as T0. pose proof (W_eqtree _ _ _ T0 V) as V0. pose proof (OC_eqtree _ _ T0 _ H) as H0.
  eapply sg_bind with (P := HS o).
  { apply sgS_or_else; [now apply handle_alert_spine|]. intros c1 s1 V1 H1.
    apply sgS_or_else; [now apply handle_mbq_spine|]. clear c1 s1 V1 H1. intros c1 s1 V1 H1.
    apply sgS_or_else; [now apply handle_blockquote_spine|]. clear c1 s1 V1 H1. intros c1 s1 V1 H1.
    apply sgS_or_else; [now apply handle_atx_spine|]. clear c1 s1 V1 H1. intros c1 s1 V1 H1.
    apply sgS_or_else; [now apply handle_code_fence_spine|]. clear c1 s1 V1 H1. intros c1 s1 V1 H1.
    apply sgS_or_else; [now apply handle_html_block_spine|]. clear c1 s1 V1 H1. intros c1 s1 V1 H1.
    apply sgS_or_else; [now apply handle_setext_spine|]. clear c1 s1 V1 H1. intros c1 s1 V1 H1.
    apply sgS_or_else; [now apply handle_thematic_break_spine|]. clear c1 s1 V1 H1. intros c1 s1 V1 H1.
    apply sgS_or_else; [now apply handle_footnote_spine|]. clear c1 s1 V1 H1. intros c1 s1 V1 H1.
    apply sgS_or_else; [now apply handle_description_list_off|]. clear c1 s1 V1 H1. intros c1 s1 V1 H1.
    apply sgS_or_else; [now apply handle_list_spine|]. clear c1 s1 V1 H1. intros c1 s1 V1 H1.
    now apply handle_code_block_spine. }
  intros [[handled c1] s1] _ [V1 H1]. cbn [fst snd] in *.
  destruct handled; cbn [bind].
  - apply sgb; [auto with ngS|]. intros n _. destruct (accepts_lines (bkind n)); split; assumption.
  - rewrite Htab, andb_false_r. cbn [bind]. split; assumption.
Qed.

Lemma open_new_blocks_loop_spine am : forall fuel st c ml d, W o st -> OC st c ->
  sg alS true (fun r => W o (snd r) /\ OC (snd r) (fst r)) (open_new_blocks_loop fuel o st c line am ml d).
Proof.
  induction fuel as [|f IH]; intros st c ml d V H; cbn [open_new_blocks_loop]; [reflexivity|].
  apply sgb; [auto with ngS|]. intros n _. destruct (is_code_or_html n); [split; assumption|].
  eapply sg_bind; [now apply open_new_blocks_step_spine|]. intros [[go c1] s1] _ [V1 H1]. cbn [fst snd] in *.
  destruct go; [now apply IH | split; assumption].
Qed.

Theorem open_new_blocks_spine_plain st c am : W o st -> OC st c ->
  sg alS true (fun r => W o (snd r) /\ OC (snd r) (fst r)) (open_new_blocks o st c line am).
Proof. intros V H. unfold open_new_blocks. apply sgb; [auto with ngS|]. intros n _. now apply open_new_blocks_loop_spine. Qed.
End StepS.

(* ================================================================== what is missing for parse_blocks_no_spine_panic
   process_line = check_open_blocks ; open_new_blocks ; add_text_to_container.
   * check_open_blocks_spine needs OC st root_id and gives OC st' lmc.  P1 also needs `lmc is self.current or an ancestor
     of it` (anc (ps_root st) lmc (ps_current st)): that is where the between-lines clauses RE / OW (right edge; the open
     last-child walk meets below self.current only rows and cells) are needed, and they are NOT inductive without a
     clause about open nodes OFF the right edge (the DescriptionTerm, the preface paragraph of a table): finalize of an
     empty paragraph removes a last child and exposes its previous sibling.  Nothing about RE / OW is proved here
     (the Props are stated: Between, P1, P2).
   * add_text_to_container_spine_post needs ATCH o st c lmc: OC container (proved through the eleven plain handlers), and
     three clauses that relate self.current, lmc and the container (OS st lmc current; current open or = lmc; no node of
     SEG lmc current is the container or above it).  Their preservation by the handlers is not proved: add_child_gen_OC
     gives the frame (every identifier that is not the old container or above it keeps flag and parent), what is missing
     is the bookkeeping per handler, and
   * parse_desc_list_details (bdetach of the last paragraph, which may be self.current; reopen_ast_nodes; the term that
     adopts the paragraph: add_child_gen with kids = [lc]) and try_opening_block (edit_kids: the table replaces the
     paragraph that may be self.current = lmc; try_inserting_table_header_paragraph; try_opening_row appends a row of
     cells): no chain lemma for edit_kids / reopen_ast_nodes / bdetach of a node that is on a chain exists yet.
   No reachable spine site was found. *)
