(* Proofs/InertBlocks.v -- property C13 for the BLOCK phase: enabling an extension changes nothing on a
   document whose lines contain none of the trigger bytes of the extension.

   Statement shape: okle r1 r2 := whenever r1 is Ok x, r2 is Ok x as well (r1 = run with the extension
   enabled, r2 = run with it disabled).  Equality of the two runs does not hold in general because an enabled
   opener evaluates line[first_nonspace..] with its own panic site.

   All four option-guarded openers of open_new_blocks (footnotes, description lists, multiline block quotes,
   alerts) are handled by ONE chain: the two option records are  bo4 tb f d m a o  for the same base o, and for
   every line each of the four flags is either the same on both sides or disabled on the right with a line
   that has no trigger byte (feat_ok).
   Tables (trigger `-`) have their own chain at the end of the file: it carries the invariant NT (no Table node
   in the tree), which is what makes table::try_opening_block a no-op on a line without `-`.
   Greentext is refuted (greentext_blocks_refuted). *)
From Coq Require Import List NArith Arith Bool Lia Strings.String.
From V Require Import Base.Bytes Base.Res Gen.StrLeafGen Gen.FeedConst Gen.Nodes Gen.BlocksConst Model.Ast Model.Strings
  Model.Scan Model.Feed Model.FrontMatter Spec.LineEndings Spec.FrontMatterSpec Proofs.FrontMatterProofs
  Model.RefDef Model.Blocks Proofs.BlocksProofs Proofs.FeedProofs Proofs.InertRegex.
Import ListNotations.
Local Open Scope string_scope.
Local Open Scope list_scope.

(* ================================================================== the refinement *)
Definition okle {A} (r1 r2 : res A) : Prop := forall x, r1 = Ok x -> r2 = Ok x.

Lemma okle_refl {A} (r : res A) : okle r r.
Proof. intros x H. exact H. Qed.

Lemma okle_of_eq {A} (r1 r2 : res A) : r1 = r2 -> okle r1 r2.
Proof. intros -> x H. exact H. Qed.

Lemma okle_trans {A} (r1 r2 r3 : res A) : okle r1 r2 -> okle r2 r3 -> okle r1 r3.
Proof. intros H1 H2 x H. apply H2, H1, H. Qed.

Lemma okle_panic {A} s (r : res A) : okle (Panic s) r.
Proof. intros x H. discriminate H. Qed.

Lemma okle_fuel {A} (r : res A) : okle OutOfFuel r.
Proof. intros x H. discriminate H. Qed.

Lemma okle_bind {A B} (r1 r2 : res A) (k1 k2 : A -> res B) :
  okle r1 r2 -> (forall a, okle (k1 a) (k2 a)) -> okle (bind r1 k1) (bind r2 k2).
Proof.
  intros H1 H2 x H. destruct r1 as [a| |]; cbn [bind] in H; try discriminate H.
  rewrite (H1 a eq_refl). cbn [bind]. apply H2. exact H.
Qed.

Lemma okle_or_else_h (r1 r2 : hres) (k1 k2 : nat -> pstate -> hres) :
  okle r1 r2 -> (forall c st, okle (k1 c st) (k2 c st)) -> okle (or_else_h r1 k1) (or_else_h r2 k2).
Proof.
  intros H1 H2. unfold or_else_h. apply okle_bind; [exact H1 |].
  intros [[h c] st]. destruct h; [apply okle_refl | apply H2].
Qed.

Lemma okle_res_map {A B} (g : A -> B) (r1 r2 : res A) : okle r1 r2 -> okle (res_map g r1) (res_map g r2).
Proof.
  intros H x E. destruct r1 as [a| |]; cbn [res_map] in E; try discriminate E.
  rewrite (H a eq_refl). exact E.
Qed.

(* ================================================================== the option records *)
(* o with the table flag and the four extension flags replaced *)
Definition bo4 (tb f d m a : bool) (o : bopts) : bopts :=
  mkBO tb f d m a (bo_spoiler o) (bo_greentext o) (bo_ignore_setext o)
       (bo_front_matter_delimiter o) (bo_default_info_string o) (bo_fold o).

Lemma bo4_id o : bo4 (bo_table o) (bo_footnotes o) (bo_description_lists o) (bo_multiline_block_quotes o) (bo_alerts o) o = o.
Proof. destruct o; reflexivity. Qed.

Lemma bo4_bo4 tb f d m a tb' f' d' m' a' o : bo4 tb f d m a (bo4 tb' f' d' m' a' o) = bo4 tb f d m a o.
Proof. reflexivity. Qed.

(* the syntactic setters of the four flags *)
Definition bo_with_footnotes (v : bool) (o : bopts) : bopts :=
  mkBO (bo_table o) v (bo_description_lists o) (bo_multiline_block_quotes o) (bo_alerts o) (bo_spoiler o)
       (bo_greentext o) (bo_ignore_setext o) (bo_front_matter_delimiter o) (bo_default_info_string o) (bo_fold o).
Definition bo_with_description_lists (v : bool) (o : bopts) : bopts :=
  mkBO (bo_table o) (bo_footnotes o) v (bo_multiline_block_quotes o) (bo_alerts o) (bo_spoiler o)
       (bo_greentext o) (bo_ignore_setext o) (bo_front_matter_delimiter o) (bo_default_info_string o) (bo_fold o).
Definition bo_with_multiline_block_quotes (v : bool) (o : bopts) : bopts :=
  mkBO (bo_table o) (bo_footnotes o) (bo_description_lists o) v (bo_alerts o) (bo_spoiler o)
       (bo_greentext o) (bo_ignore_setext o) (bo_front_matter_delimiter o) (bo_default_info_string o) (bo_fold o).
Definition bo_with_alerts (v : bool) (o : bopts) : bopts :=
  mkBO (bo_table o) (bo_footnotes o) (bo_description_lists o) (bo_multiline_block_quotes o) v (bo_spoiler o)
       (bo_greentext o) (bo_ignore_setext o) (bo_front_matter_delimiter o) (bo_default_info_string o) (bo_fold o).
Definition bo_with_greentext (v : bool) (o : bopts) : bopts :=
  mkBO (bo_table o) (bo_footnotes o) (bo_description_lists o) (bo_multiline_block_quotes o) (bo_alerts o) (bo_spoiler o)
       v (bo_ignore_setext o) (bo_front_matter_delimiter o) (bo_default_info_string o) (bo_fold o).
Definition bo_with_table (v : bool) (o : bopts) : bopts :=
  mkBO v (bo_footnotes o) (bo_description_lists o) (bo_multiline_block_quotes o) (bo_alerts o) (bo_spoiler o)
       (bo_greentext o) (bo_ignore_setext o) (bo_front_matter_delimiter o) (bo_default_info_string o) (bo_fold o).

(* ================================================================== walking two parallel terms *)
Lemma bind_ext {A B} (r r' : res A) (k k' : A -> res B) :
  r = r' -> (forall a, k a = k' a) -> bind r k = bind r' k'.
Proof. intros -> H. destruct r'; cbn [bind]; auto. Qed.

Lemma unwrap_parent_ext site r r' : r = r' -> unwrap_parent site r = unwrap_parent site r'.
Proof. intros ->. reflexivity. Qed.
#[export] Hint Resolve unwrap_parent_ext : bo4.

Lemma bo4_table tb f d m a o : bo_table (bo4 tb f d m a o) = tb. Proof. reflexivity. Qed.
Lemma bo4_footnotes tb f d m a o : bo_footnotes (bo4 tb f d m a o) = f. Proof. reflexivity. Qed.
Lemma bo4_description_lists tb f d m a o : bo_description_lists (bo4 tb f d m a o) = d. Proof. reflexivity. Qed.
Lemma bo4_multiline_block_quotes tb f d m a o : bo_multiline_block_quotes (bo4 tb f d m a o) = m. Proof. reflexivity. Qed.
Lemma bo4_alerts tb f d m a o : bo_alerts (bo4 tb f d m a o) = a. Proof. reflexivity. Qed.
Lemma bo4_spoiler tb f d m a o : bo_spoiler (bo4 tb f d m a o) = bo_spoiler o. Proof. reflexivity. Qed.
Lemma bo4_greentext tb f d m a o : bo_greentext (bo4 tb f d m a o) = bo_greentext o. Proof. reflexivity. Qed.
Lemma bo4_ignore_setext tb f d m a o : bo_ignore_setext (bo4 tb f d m a o) = bo_ignore_setext o. Proof. reflexivity. Qed.
Lemma bo4_front_matter_delimiter tb f d m a o :
  bo_front_matter_delimiter (bo4 tb f d m a o) = bo_front_matter_delimiter o. Proof. reflexivity. Qed.
Lemma bo4_default_info_string tb f d m a o :
  bo_default_info_string (bo4 tb f d m a o) = bo_default_info_string o. Proof. reflexivity. Qed.
Lemma bo4_fold tb f d m a o : bo_fold (bo4 tb f d m a o) = bo_fold o. Proof. reflexivity. Qed.

(* the projections of both option records, once *)
Ltac bo4_proj :=
  rewrite ?bo4_table, ?bo4_footnotes, ?bo4_description_lists, ?bo4_multiline_block_quotes, ?bo4_alerts,
          ?bo4_spoiler, ?bo4_greentext, ?bo4_ignore_setext, ?bo4_front_matter_delimiter,
          ?bo4_default_info_string, ?bo4_fold.

Ltac same_sides := match goal with |- ?a = ?b => constr_eq a b; reflexivity end.
Ltac bo4_leaf := solve [auto 4 with bo4 nocore].

Ltac par_step :=
  first
  [ same_sides
  | lazymatch goal with
    | |- bind _ _ = bind _ _ => apply bind_ext; [| intro]; lazy beta
    | |- match ?x with _ => _ end = _ => destruct x
    | |- (let _ := _ in _) = _ => lazy zeta
    end
  | bo4_leaf ].

Ltac par_with tac := repeat first [ tac | par_step ].
Ltac par := par_with fail.

(* ================================================================== functions that do not read the four flags:
   F (bo4 tb f d m a o) .. = F (bo4 tb' f' d' m' a' o) .. *)
Lemma finalize_bo4 tb f d m a tb' f' d' m' a' o st id :
  finalize (bo4 tb f d m a o) st id = finalize (bo4 tb' f' d' m' a' o) st id.
Proof. reflexivity. Qed.
#[export] Hint Resolve finalize_bo4 : bo4.

Lemma add_child_loop_bo4 tb f d m a tb' f' d' m' a' o fuel : forall st parent k,
  add_child_loop fuel (bo4 tb f d m a o) st parent k = add_child_loop fuel (bo4 tb' f' d' m' a' o) st parent k.
Proof.
  induction fuel as [|fuel IH]; intros; cbn [add_child_loop]; [reflexivity |].
  par_with ltac:(apply IH).
Qed.
#[export] Hint Resolve add_child_loop_bo4 : bo4.

Lemma add_child_gen_bo4 tb f d m a tb' f' d' m' a' o st parent v sc post kids :
  add_child_gen (bo4 tb f d m a o) st parent v sc post kids = add_child_gen (bo4 tb' f' d' m' a' o) st parent v sc post kids.
Proof. unfold add_child_gen. bo4_proj. par. Qed.
#[export] Hint Resolve add_child_gen_bo4 : bo4.

Lemma add_child_bo4 tb f d m a tb' f' d' m' a' o st parent v sc :
  add_child (bo4 tb f d m a o) st parent v sc = add_child (bo4 tb' f' d' m' a' o) st parent v sc.
Proof. unfold add_child. bo4_proj. par. Qed.
#[export] Hint Resolve add_child_bo4 : bo4.

Lemma is_not_greentext_bo4 tb f d m a tb' f' d' m' a' o st line :
  is_not_greentext (bo4 tb f d m a o) st line = is_not_greentext (bo4 tb' f' d' m' a' o) st line.
Proof. reflexivity. Qed.
#[export] Hint Resolve is_not_greentext_bo4 : bo4.

Lemma parse_block_quote_prefix_bo4 tb f d m a tb' f' d' m' a' o st line :
  parse_block_quote_prefix (bo4 tb f d m a o) st line = parse_block_quote_prefix (bo4 tb' f' d' m' a' o) st line.
Proof. reflexivity. Qed.
#[export] Hint Resolve parse_block_quote_prefix_bo4 : bo4.

Lemma parse_code_block_prefix_bo4 tb f d m a tb' f' d' m' a' o st line c cb :
  parse_code_block_prefix (bo4 tb f d m a o) st line c cb = parse_code_block_prefix (bo4 tb' f' d' m' a' o) st line c cb.
Proof. reflexivity. Qed.
#[export] Hint Resolve parse_code_block_prefix_bo4 : bo4.

Lemma parse_multiline_block_quote_prefix_bo4 tb f d m a tb' f' d' m' a' o st line c fl fo :
  parse_multiline_block_quote_prefix (bo4 tb f d m a o) st line c fl fo = parse_multiline_block_quote_prefix (bo4 tb' f' d' m' a' o) st line c fl fo.
Proof. reflexivity. Qed.
#[export] Hint Resolve parse_multiline_block_quote_prefix_bo4 : bo4.

Lemma check_container_bo4 tb f d m a tb' f' d' m' a' o st line c :
  check_container (bo4 tb f d m a o) st line c = check_container (bo4 tb' f' d' m' a' o) st line c.
Proof. reflexivity. Qed.
#[export] Hint Resolve check_container_bo4 : bo4.

Lemma check_open_blocks_inner_bo4 tb f d m a tb' f' d' m' a' o fuel : forall st line container,
  check_open_blocks_inner fuel (bo4 tb f d m a o) st line container = check_open_blocks_inner fuel (bo4 tb' f' d' m' a' o) st line container.
Proof.
  induction fuel as [|fuel IH]; intros; cbn [check_open_blocks_inner]; [reflexivity |].
  par_with ltac:(apply IH).
Qed.
#[export] Hint Resolve check_open_blocks_inner_bo4 : bo4.

Lemma check_open_blocks_bo4 tb f d m a tb' f' d' m' a' o st line :
  check_open_blocks (bo4 tb f d m a o) st line = check_open_blocks (bo4 tb' f' d' m' a' o) st line.
Proof. unfold check_open_blocks. bo4_proj. par. Qed.
#[export] Hint Resolve check_open_blocks_bo4 : bo4.

Lemma try_opening_header_bo4 tb f d m a tb' f' d' m' a' o st c line :
  try_opening_header (bo4 tb f d m a o) st c line = try_opening_header (bo4 tb' f' d' m' a' o) st c line.
Proof. reflexivity. Qed.
#[export] Hint Resolve try_opening_header_bo4 : bo4.

Lemma try_opening_row_bo4 tb f d m a tb' f' d' m' a' o st c tt line :
  try_opening_row (bo4 tb f d m a o) st c tt line = try_opening_row (bo4 tb' f' d' m' a' o) st c tt line.
Proof. reflexivity. Qed.
#[export] Hint Resolve try_opening_row_bo4 : bo4.

Lemma try_opening_block_bo4 tb f d m a tb' f' d' m' a' o st c line :
  try_opening_block (bo4 tb f d m a o) st c line = try_opening_block (bo4 tb' f' d' m' a' o) st c line.
Proof. reflexivity. Qed.
#[export] Hint Resolve try_opening_block_bo4 : bo4.

Lemma parse_desc_list_details_bo4 tb f d m a tb' f' d' m' a' o st c matched :
  parse_desc_list_details (bo4 tb f d m a o) st c matched = parse_desc_list_details (bo4 tb' f' d' m' a' o) st c matched.
Proof. unfold parse_desc_list_details. bo4_proj. par. Qed.
#[export] Hint Resolve parse_desc_list_details_bo4 : bo4.

Lemma handle_blockquote_bo4 tb f d m a tb' f' d' m' a' o st c line ind :
  handle_blockquote (bo4 tb f d m a o) st c line ind = handle_blockquote (bo4 tb' f' d' m' a' o) st c line ind.
Proof. unfold handle_blockquote. bo4_proj. par. Qed.
#[export] Hint Resolve handle_blockquote_bo4 : bo4.

Lemma handle_atx_heading_bo4 tb f d m a tb' f' d' m' a' o st c line ind :
  handle_atx_heading (bo4 tb f d m a o) st c line ind = handle_atx_heading (bo4 tb' f' d' m' a' o) st c line ind.
Proof. unfold handle_atx_heading. bo4_proj. par. Qed.
#[export] Hint Resolve handle_atx_heading_bo4 : bo4.

Lemma handle_code_fence_bo4 tb f d m a tb' f' d' m' a' o st c line ind :
  handle_code_fence (bo4 tb f d m a o) st c line ind = handle_code_fence (bo4 tb' f' d' m' a' o) st c line ind.
Proof. unfold handle_code_fence. bo4_proj. par. Qed.
#[export] Hint Resolve handle_code_fence_bo4 : bo4.

Lemma handle_html_block_bo4 tb f d m a tb' f' d' m' a' o st c line ind :
  handle_html_block (bo4 tb f d m a o) st c line ind = handle_html_block (bo4 tb' f' d' m' a' o) st c line ind.
Proof. unfold handle_html_block. bo4_proj. par. Qed.
#[export] Hint Resolve handle_html_block_bo4 : bo4.

Lemma handle_setext_heading_bo4 tb f d m a tb' f' d' m' a' o st c line ind :
  handle_setext_heading (bo4 tb f d m a o) st c line ind = handle_setext_heading (bo4 tb' f' d' m' a' o) st c line ind.
Proof. reflexivity. Qed.
#[export] Hint Resolve handle_setext_heading_bo4 : bo4.

Lemma handle_thematic_break_bo4 tb f d m a tb' f' d' m' a' o st c line ind am :
  handle_thematic_break (bo4 tb f d m a o) st c line ind am = handle_thematic_break (bo4 tb' f' d' m' a' o) st c line ind am.
Proof. unfold handle_thematic_break. bo4_proj. par. Qed.
#[export] Hint Resolve handle_thematic_break_bo4 : bo4.

Lemma handle_list_bo4 tb f d m a tb' f' d' m' a' o st c line ind depth :
  handle_list (bo4 tb f d m a o) st c line ind depth = handle_list (bo4 tb' f' d' m' a' o) st c line ind depth.
Proof. unfold handle_list. bo4_proj. par. Qed.
#[export] Hint Resolve handle_list_bo4 : bo4.

Lemma handle_code_block_bo4 tb f d m a tb' f' d' m' a' o st c line ind ml :
  handle_code_block (bo4 tb f d m a o) st c line ind ml = handle_code_block (bo4 tb' f' d' m' a' o) st c line ind ml.
Proof. unfold handle_code_block. bo4_proj. par. Qed.
#[export] Hint Resolve handle_code_block_bo4 : bo4.

Lemma finalize_up_to_bo4 tb f d m a tb' f' d' m' a' o fuel : forall st target site,
  finalize_up_to fuel (bo4 tb f d m a o) st target site = finalize_up_to fuel (bo4 tb' f' d' m' a' o) st target site.
Proof.
  induction fuel as [|fuel IH]; intros; cbn [finalize_up_to]; [reflexivity |].
  par_with ltac:(apply IH).
Qed.
#[export] Hint Resolve finalize_up_to_bo4 : bo4.

Lemma add_text_to_container_bo4 tb f d m a tb' f' d' m' a' o st c lmc line :
  add_text_to_container (bo4 tb f d m a o) st c lmc line = add_text_to_container (bo4 tb' f' d' m' a' o) st c lmc line.
Proof. unfold add_text_to_container. bo4_proj. par. Qed.
#[export] Hint Resolve add_text_to_container_bo4 : bo4.

Lemma front_matter_prologue_bo4 tb f d m a tb' f' d' m' a' o st s :
  front_matter_prologue (bo4 tb f d m a o) st s = front_matter_prologue (bo4 tb' f' d' m' a' o) st s.
Proof. unfold front_matter_prologue. bo4_proj. par. Qed.
#[export] Hint Resolve front_matter_prologue_bo4 : bo4.

Lemma finalize_document_bo4 tb f d m a tb' f' d' m' a' o st :
  finalize_document (bo4 tb f d m a o) st = finalize_document (bo4 tb' f' d' m' a' o) st.
Proof. unfold finalize_document. bo4_proj. par. Qed.
#[export] Hint Resolve finalize_document_bo4 : bo4.

Lemma front_matter_prologue_bo4_base tb f d m a o st s :
  front_matter_prologue (bo4 tb f d m a o) st s = front_matter_prologue o st s.
Proof.
  rewrite <- (bo4_id o) at 2. apply front_matter_prologue_bo4.
Qed.

(* ================================================================== the four guarded openers *)
(* flag b1 on the left, b2 on the right: the same, or disabled on the right on a line satisfying P *)
Definition feat_ok (b1 b2 : bool) (P : Prop) : Prop := b1 = b2 \/ (b2 = false /\ P).

Record line_ok (f1 d1 m1 a1 f2 d2 m2 a2 : bool) (line : bytes) : Prop := mkLineOk {
  lo_f : feat_ok f1 f2 (nob x5b line);                          (* footnotes: `[` *)
  lo_d : feat_ok d1 d2 (nob x3a line /\ nob x7e line);          (* description lists: `:` and `~` *)
  lo_m : feat_ok m1 m2 (nob x3e line);                          (* multiline block quotes: `>` *)
  lo_a : feat_ok a1 a2 (nob x5b line \/ nob x3e line)           (* alerts: `[` (or `>`) *)
}.

Lemma handle_footnote_off tb f d m a o st c line ind depth :
  f = false -> handle_footnote (bo4 tb f d m a o) st c line ind depth = not_handled c st.
Proof. intros ->. destruct ind; reflexivity. Qed.

Lemma handle_footnote_okle tb f1 d1 m1 a1 f2 d2 m2 a2 o st c line ind depth :
  feat_ok f1 f2 (nob x5b line) ->
  okle (handle_footnote (bo4 tb f1 d1 m1 a1 o) st c line ind depth)
       (handle_footnote (bo4 tb f2 d2 m2 a2 o) st c line ind depth).
Proof.
  intros [-> | [E H]].
  - apply okle_of_eq. unfold handle_footnote. bo4_proj. par.
  - rewrite (handle_footnote_off tb f2) by exact E.
    unfold handle_footnote. bo4_proj.
    destruct (ind || negb f1 || negb (Nat.ltb depth max_list_depth)); [apply okle_refl |].
    unfold rest_at_fns, slice_from.
    destruct (Nat.ltb (List.length line) (fns st)); [apply okle_panic |]. cbn [bind].
    rewrite scan_footnote_definition_inert by (apply nob_skipn; exact H). apply okle_refl.
Qed.

Lemma handle_description_list_off tb f d m a o st c line ind :
  d = false -> handle_description_list (bo4 tb f d m a o) st c line ind = not_handled c st.
Proof. intros ->. destruct ind; reflexivity. Qed.

Lemma handle_description_list_okle tb f1 d1 m1 a1 f2 d2 m2 a2 o st c line ind :
  feat_ok d1 d2 (nob x3a line /\ nob x7e line) ->
  okle (handle_description_list (bo4 tb f1 d1 m1 a1 o) st c line ind)
       (handle_description_list (bo4 tb f2 d2 m2 a2 o) st c line ind).
Proof.
  intros [-> | [E [H1 H2]]].
  - apply okle_of_eq. unfold handle_description_list. bo4_proj. par.
  - rewrite (handle_description_list_off tb f2 d2) by exact E.
    unfold handle_description_list. bo4_proj.
    destruct (ind || negb d1); [apply okle_refl |].
    unfold rest_at_fns, slice_from.
    destruct (Nat.ltb (List.length line) (fns st)); [apply okle_panic |]. cbn [bind].
    rewrite scan_description_item_start_inert by (apply nob_skipn; assumption). apply okle_refl.
Qed.

Lemma handle_multiline_blockquote_off tb f d m a o st c line ind :
  m = false -> handle_multiline_blockquote (bo4 tb f d m a o) st c line ind = not_handled c st.
Proof. intros ->. destruct ind; reflexivity. Qed.

Lemma handle_multiline_blockquote_okle tb f1 d1 m1 a1 f2 d2 m2 a2 o st c line ind :
  feat_ok m1 m2 (nob x3e line) ->
  okle (handle_multiline_blockquote (bo4 tb f1 d1 m1 a1 o) st c line ind)
       (handle_multiline_blockquote (bo4 tb f2 d2 m2 a2 o) st c line ind).
Proof.
  intros [-> | [E H]].
  - apply okle_of_eq. unfold handle_multiline_blockquote. bo4_proj. par.
  - rewrite (handle_multiline_blockquote_off tb f2 d2 m2) by exact E.
    unfold handle_multiline_blockquote. bo4_proj.
    destruct (ind || negb m1); [apply okle_refl |].
    unfold rest_at_fns, slice_from.
    destruct (Nat.ltb (List.length line) (fns st)); [apply okle_panic |]. cbn [bind].
    rewrite scan_open_multiline_block_quote_fence_inert by (apply nob_skipn; exact H). apply okle_refl.
Qed.

Lemma handle_alert_off tb f d m a o st c line ind :
  a = false -> handle_alert (bo4 tb f d m a o) st c line ind = not_handled c st.
Proof. intros ->. destruct ind; reflexivity. Qed.

(* handle_alert reads bo_alerts and, after line[first_nonspace] = `>`, bo_multiline_block_quotes *)
Lemma handle_alert_okle tb f1 d1 m1 a1 f2 d2 m2 a2 o st c line ind :
  feat_ok a1 a2 (nob x5b line \/ nob x3e line) ->
  feat_ok m1 m2 (nob x3e line) ->
  okle (handle_alert (bo4 tb f1 d1 m1 a1 o) st c line ind) (handle_alert (bo4 tb f2 d2 m2 a2 o) st c line ind).
Proof.
  intros [-> | [E H]] Hm.
  - destruct Hm as [-> | [_ H]].
    + apply okle_of_eq. unfold handle_alert. bo4_proj. par.
    + apply okle_of_eq. unfold handle_alert. bo4_proj.
      destruct (ind || negb a2); [reflexivity |].
      unfold idx. destruct (nth_error line (fns st)) as [b|] eqn:Eb; [| reflexivity]. cbn [bind].
      rewrite (nob_nth _ _ _ _ H Eb). reflexivity.
  - rewrite (handle_alert_off tb f2 d2 m2 a2) by exact E.
    unfold handle_alert. bo4_proj.
    destruct (ind || negb a1); [apply okle_refl |].
    unfold idx. destruct (nth_error line (fns st)) as [b|] eqn:Eb; [| apply okle_panic]. cbn [bind].
    destruct (beqb b x3e) eqn:Eg; cbn [negb]; [| apply okle_refl].
    destruct H as [H | H].
    + rewrite scan_alert_start_inert_bracket by (apply nob_skipn; exact H). apply okle_refl.
    + rewrite (nob_nth _ _ _ _ H Eb) in Eg. discriminate Eg.
Qed.

(* ================================================================== open_new_blocks *)
Section chain.
Variables tb f1 d1 m1 a1 f2 d2 m2 a2 : bool.
Variable o : bopts.
Let O1 := bo4 tb f1 d1 m1 a1 o.
Let O2 := bo4 tb f2 d2 m2 a2 o.
Let LOK := line_ok f1 d1 m1 a1 f2 d2 m2 a2.

Lemma open_new_blocks_step_okle line : LOK line -> forall st c am ml depth,
  okle (open_new_blocks_step O1 st c line am ml depth) (open_new_blocks_step O2 st c line am ml depth).
Proof.
  intros [Lf Ld Lm La] st c am ml depth. unfold open_new_blocks_step, O1, O2.
  apply okle_bind; [apply okle_refl |]. intro st1. lazy zeta.
  apply okle_bind.
  - apply okle_or_else_h; [apply handle_alert_okle; assumption |]. intros ? ?.
    apply okle_or_else_h; [apply handle_multiline_blockquote_okle; assumption |]. intros ? ?.
    apply okle_or_else_h; [apply okle_of_eq; bo4_leaf |]. intros ? ?.
    apply okle_or_else_h; [apply okle_of_eq; bo4_leaf |]. intros ? ?.
    apply okle_or_else_h; [apply okle_of_eq; bo4_leaf |]. intros ? ?.
    apply okle_or_else_h; [apply okle_of_eq; bo4_leaf |]. intros ? ?.
    apply okle_or_else_h; [apply okle_of_eq; bo4_leaf |]. intros ? ?.
    apply okle_or_else_h; [apply okle_of_eq; bo4_leaf |]. intros ? ?.
    apply okle_or_else_h; [apply handle_footnote_okle; assumption |]. intros ? ?.
    apply okle_or_else_h; [apply handle_description_list_okle; assumption |]. intros ? ?.
    apply okle_or_else_h; [apply okle_of_eq; bo4_leaf |]. intros ? ?.
    apply okle_of_eq; bo4_leaf.
  - intro x. apply okle_of_eq. bo4_proj. par.
Qed.

Lemma open_new_blocks_loop_okle line : LOK line -> forall fuel st c am ml depth,
  okle (open_new_blocks_loop fuel O1 st c line am ml depth) (open_new_blocks_loop fuel O2 st c line am ml depth).
Proof.
  intros L fuel. induction fuel as [|fuel IH]; intros; cbn [open_new_blocks_loop]; [apply okle_refl |].
  apply okle_bind; [apply okle_refl |]. intro n.
  destruct (is_code_or_html n); [apply okle_refl |].
  apply okle_bind; [apply open_new_blocks_step_okle; exact L |].
  intros [[g c1] s1]. destruct g; [apply IH | apply okle_refl].
Qed.

Lemma open_new_blocks_okle line : LOK line -> forall st c am,
  okle (open_new_blocks O1 st c line am) (open_new_blocks O2 st c line am).
Proof.
  intros L st c am. unfold open_new_blocks.
  apply okle_bind; [apply okle_refl |]. intro n. apply open_new_blocks_loop_okle. exact L.
Qed.

(* ================================================================== process_line .. run_lines *)
Lemma process_line_okle line0 : LOK (norm_line line0) -> forall st,
  okle (process_line O1 st line0) (process_line O2 st line0).
Proof.
  intros L st. unfold process_line. lazy zeta.
  apply okle_bind; [apply okle_of_eq; unfold O1, O2; bo4_leaf |].
  intros [[[lmc am]|] st1].
  - apply okle_bind; [| intro; apply okle_refl].
    apply okle_bind; [apply open_new_blocks_okle; exact L |].
    intros [c2 st2]. apply okle_of_eq. unfold O1, O2. par.
  - apply okle_refl.
Qed.

Lemma process_lines_okle ls : (forall l, In l ls -> LOK (norm_line l)) -> forall st,
  okle (process_lines O1 st ls) (process_lines O2 st ls).
Proof.
  induction ls as [|l ls IH]; intros H st; cbn [process_lines]; [apply okle_refl |].
  apply okle_bind; [apply process_line_okle; apply H; left; reflexivity |].
  intro st1. apply IH. intros l' Hl. apply H. right. exact Hl.
Qed.

Lemma run_lines_okle ls : (forall l, In l ls -> LOK (norm_line l)) -> forall st,
  okle (run_lines O1 st ls) (run_lines O2 st ls).
Proof.
  intros H st. unfold run_lines.
  apply okle_bind; [apply process_lines_okle; exact H |].
  intro st1. apply okle_of_eq. unfold O1, O2. par.
Qed.

(* the lines handed to process_line: those of the remainder after the front matter prologue (which does not
   read the four flags) *)
Definition block_lines (x : bytes) (l : bytes) : Prop :=
  exists st rest, front_matter_prologue o init_state x = Ok (st, rest) /\ In l (Feed.lines rest).

Lemma parse_blocks_okle x :
  (forall l, block_lines x l -> LOK (norm_line l)) ->
  okle (parse_blocks O1 x) (parse_blocks O2 x).
Proof.
  intro H. unfold parse_blocks, O1, O2. rewrite !front_matter_prologue_bo4_base.
  destruct (front_matter_prologue o init_state x) as [[st rest]| |] eqn:E; cbn [bind]; try apply okle_refl.
  pose proof (fun l => H l) as H'. unfold block_lines, Feed.lines in H'.
  destruct (feed_lines rest) as [ls total] eqn:F.
  apply okle_bind; [| intro; apply okle_refl].
  apply run_lines_okle. intros l Hl. apply H'. exists st, rest. split; [exact E |].
  rewrite F. exact Hl.
Qed.
End chain.

(* ================================================================== from the bytes of the document to its lines *)
Lemma nob_Forall t s : nob t s <-> Forall (fun b => beqb b t = false) s.
Proof. unfold nob. rewrite Forall_forall. tauto. Qed.

Lemma last_line_Forall (Q : byte -> Prop) (cur : bytes) :
  Forall Q cur -> Forall (Forall Q) (match cur with [] => [] | _ => [cur] end).
Proof. intro H. destruct cur; [constructor | constructor; [exact H | constructor]]. Qed.

Lemma lines_from_Forall (Q : byte -> Prop) : Forall Q fffd -> forall n s cur,
  List.length s <= n -> Forall Q cur -> Forall Q s -> Forall (Forall Q) (lines_from cur s).
Proof.
  intros Hf n. induction n as [|n IH]; intros s cur Hn Hc Hs.
  - destruct s; [| simpl in Hn; lia]. cbn [lines_from]. apply last_line_Forall; exact Hc.
  - destruct s as [|b s']; cbn [lines_from]; [apply last_line_Forall; exact Hc |].
    inversion Hs as [|? ? Qb Hs']; subst. cbn [List.length] in Hn.
    destruct (beqb b CR).
    + constructor; [exact Hc |]. destruct s' as [|c s''].
      * apply IH; [cbn [List.length]; lia | constructor | constructor].
      * inversion Hs' as [|? ? Qc Hs'']; subst. cbn [List.length] in Hn.
        destruct (beqb c LF); apply IH; cbn [List.length]; try lia; auto.
    + destruct (beqb b LF).
      * constructor; [exact Hc |]. apply IH; [lia | constructor | exact Hs'].
      * destruct (beqb b NUL); apply IH; try lia; try exact Hs'; apply Forall_app; split; auto.
Qed.

(* t is none of LF and the three bytes of U+FFFD *)
Definition plain_trigger (t : byte) : Prop := beqb x0a t = false /\ nob t fffd.

Lemma lines_nob t x : nob t fffd -> nob t x -> forall l, In l (Feed.lines x) -> nob t l.
Proof.
  intros Hf Hx l Hl. rewrite lines_spec in Hl. unfold spec_lines in Hl.
  apply nob_Forall. apply nob_Forall in Hf. apply nob_Forall in Hx.
  pose proof (lines_from_Forall _ Hf (List.length x) x [] (le_n _) (Forall_nil _) Hx) as H.
  rewrite Forall_forall in H. apply H. exact Hl.
Qed.

Lemma norm_line_nob t l : beqb x0a t = false -> nob t l -> nob t (norm_line l).
Proof.
  intros Ht Hl. assert (nob t (l ++ [x0a])) as Ha.
  { intros b Hb. apply in_app_or in Hb. destruct Hb as [Hb | [<- | []]]; [apply Hl; exact Hb | exact Ht]. }
  unfold norm_line. destruct (last_byte l) as [b|]; [match goal with |- context[if ?c then _ else _] => destruct c end |]; assumption.
Qed.

Lemma strip_bom_In s b : In b (strip_bom s) -> In b s.
Proof.
  unfold strip_bom. destruct (starts_with s spec_bom); [| exact (fun H => H)].
  intro H. rewrite <- (firstn_skipn 3 s). apply in_or_app. right. exact H.
Qed.

Lemma skipn_In {A} (b : A) : forall n l, In b (skipn n l) -> In b l.
Proof. induction n as [|n IH]; intros [|y l] H; cbn [skipn] in H; try exact H. right. apply IH. exact H. Qed.

(* the rest is a suffix of the text after the byte order mark, whatever the delimiter *)
Lemma split_rest_In x dl fm r b :
  split_off_front_matter x dl = Ok (Some (fm, r)) -> In b r -> In b x.
Proof.
  unfold split_off_front_matter. cbv zeta. intros H Hb.
  destruct (fm_line_at _ 0) as [l0| |]; cbn [bind] in H; try discriminate H.
  destruct (negb _ || _); [discriminate H |].
  destruct (find_closing_line _ _ _ _) as [[e|]| |]; cbn [bind] in H; try discriminate H.
  destruct (fm_line_at _ e) as [l1| |]; cbn [bind] in H; try discriminate H.
  destruct (FrontMatter.slice_to _ _) as [f| |]; cbn [bind] in H; try discriminate H.
  destruct (FrontMatter.slice_from _ _) as [q| |] eqn:E; cbn [bind] in H; try discriminate H.
  inversion H; subst.
  unfold FrontMatter.slice_from in E. destruct (FrontMatter.is_char_boundary _ _); [| discriminate E]. inversion E; subst.
  apply strip_bom_In. rewrite <- FrontMatterProofs.trim_is_strip_bom. eapply skipn_In. exact Hb.
Qed.

Lemma front_matter_prologue_rest o st x st' rest :
  front_matter_prologue o st x = Ok (st', rest) -> forall b, In b rest -> In b x.
Proof.
  intros H b Hb. unfold front_matter_prologue in H.
  destruct (bo_front_matter_delimiter o) as [dl|]; [| inversion H; subst; exact Hb].
  destruct (split_off_front_matter x dl) as [[[fm r]|]| |] eqn:E; cbn [bind] in H; try discriminate H.
  2: { inversion H; subst; exact Hb. }
  assert (rest = r) as ->.
  { repeat match type of H with
           | bind ?r0 _ = _ => destruct r0 as [?| |]; cbn [bind] in H; try discriminate H
           | match ?p with _ => _ end = _ => destruct p
           end.
    inversion H. reflexivity. }
  eapply split_rest_In; eassumption.
Qed.

Lemma block_lines_nob o t x l : plain_trigger t -> nob t x -> block_lines o x l -> nob t (norm_line l).
Proof.
  intros [H1 H2] Hx (st & rest & E & Hl).
  apply norm_line_nob; [exact H1 |]. apply (lines_nob t rest); [exact H2 | | exact Hl].
  intros b Hb. apply Hx. eapply front_matter_prologue_rest; eassumption.
Qed.

Lemma plain_5b : plain_trigger x5b. Proof. split; [reflexivity | intros b [<- | [<- | [<- | []]]]; reflexivity]. Qed.
Lemma plain_3e : plain_trigger x3e. Proof. split; [reflexivity | intros b [<- | [<- | [<- | []]]]; reflexivity]. Qed.
Lemma plain_3a : plain_trigger x3a. Proof. split; [reflexivity | intros b [<- | [<- | [<- | []]]]; reflexivity]. Qed.
Lemma plain_7e : plain_trigger x7e. Proof. split; [reflexivity | intros b [<- | [<- | [<- | []]]]; reflexivity]. Qed.

(* ================================================================== the statements per feature *)
Lemma feat_same b (P : Prop) : feat_ok b b P.
Proof. left. reflexivity. Qed.
Lemma feat_off b (P : Prop) : P -> feat_ok b false P.
Proof. intro H. right. split; [reflexivity | exact H]. Qed.

Lemma bo_with_footnotes_bo4 v o :
  bo_with_footnotes v o = bo4 (bo_table o) v (bo_description_lists o) (bo_multiline_block_quotes o) (bo_alerts o) o.
Proof. reflexivity. Qed.
Lemma bo_with_description_lists_bo4 v o :
  bo_with_description_lists v o = bo4 (bo_table o) (bo_footnotes o) v (bo_multiline_block_quotes o) (bo_alerts o) o.
Proof. reflexivity. Qed.
Lemma bo_with_multiline_block_quotes_bo4 v o :
  bo_with_multiline_block_quotes v o = bo4 (bo_table o) (bo_footnotes o) (bo_description_lists o) v (bo_alerts o) o.
Proof. reflexivity. Qed.
Lemma bo_with_alerts_bo4 v o :
  bo_with_alerts v o = bo4 (bo_table o) (bo_footnotes o) (bo_description_lists o) (bo_multiline_block_quotes o) v o.
Proof. reflexivity. Qed.

(* ---- all four at once, hypothesis on the lines *)
Theorem blocks_inert4_lines : forall tb f1 d1 m1 a1 f2 d2 m2 a2 o x,
  (forall l, block_lines o x l -> line_ok f1 d1 m1 a1 f2 d2 m2 a2 (norm_line l)) ->
  okle (parse_blocks (bo4 tb f1 d1 m1 a1 o) x) (parse_blocks (bo4 tb f2 d2 m2 a2 o) x).
Proof. exact parse_blocks_okle. Qed.

(* ---- footnotes: trigger `[` *)
Theorem footnotes_blocks_inert_lines : forall o x,
  (forall l, block_lines o x l -> nob x5b (norm_line l)) ->
  okle (parse_blocks (bo_with_footnotes true o) x) (parse_blocks (bo_with_footnotes false o) x).
Proof.
  intros o x H. rewrite !bo_with_footnotes_bo4. apply parse_blocks_okle. intros l Hl.
  constructor; try apply feat_same. apply feat_off. apply H. exact Hl.
Qed.

Theorem footnotes_blocks_inert : forall o x,
  nob x5b x ->
  okle (parse_blocks (bo_with_footnotes true o) x) (parse_blocks (bo_with_footnotes false o) x).
Proof.
  intros o x H. apply footnotes_blocks_inert_lines. intros l Hl.
  eapply block_lines_nob; [apply plain_5b | exact H | exact Hl].
Qed.

(* ---- alerts: trigger `[` (the documented trigger is `[!`); `>` works as well *)
Theorem alerts_blocks_inert_lines : forall o x,
  (forall l, block_lines o x l -> nob x5b (norm_line l) \/ nob x3e (norm_line l)) ->
  okle (parse_blocks (bo_with_alerts true o) x) (parse_blocks (bo_with_alerts false o) x).
Proof.
  intros o x H. rewrite !bo_with_alerts_bo4. apply parse_blocks_okle. intros l Hl.
  constructor; try apply feat_same. apply feat_off. apply H. exact Hl.
Qed.

Theorem alerts_blocks_inert : forall o x,
  nob x5b x ->
  okle (parse_blocks (bo_with_alerts true o) x) (parse_blocks (bo_with_alerts false o) x).
Proof.
  intros o x H. apply alerts_blocks_inert_lines. intros l Hl. left.
  eapply block_lines_nob; [apply plain_5b | exact H | exact Hl].
Qed.

Theorem alerts_blocks_inert_gt : forall o x,
  nob x3e x ->
  okle (parse_blocks (bo_with_alerts true o) x) (parse_blocks (bo_with_alerts false o) x).
Proof.
  intros o x H. apply alerts_blocks_inert_lines. intros l Hl. right.
  eapply block_lines_nob; [apply plain_3e | exact H | exact Hl].
Qed.

(* ---- multiline block quotes: trigger `>` *)
Theorem multiline_block_quotes_blocks_inert_lines : forall o x,
  (forall l, block_lines o x l -> nob x3e (norm_line l)) ->
  okle (parse_blocks (bo_with_multiline_block_quotes true o) x)
       (parse_blocks (bo_with_multiline_block_quotes false o) x).
Proof.
  intros o x H. rewrite !bo_with_multiline_block_quotes_bo4. apply parse_blocks_okle. intros l Hl.
  constructor; try apply feat_same. apply feat_off. apply H. exact Hl.
Qed.

Theorem multiline_block_quotes_blocks_inert : forall o x,
  nob x3e x ->
  okle (parse_blocks (bo_with_multiline_block_quotes true o) x)
       (parse_blocks (bo_with_multiline_block_quotes false o) x).
Proof.
  intros o x H. apply multiline_block_quotes_blocks_inert_lines. intros l Hl.
  eapply block_lines_nob; [apply plain_3e | exact H | exact Hl].
Qed.

(* ---- description lists: triggers `:` AND `~` (the scanner accepts [:~]) *)
Theorem description_lists_blocks_inert_lines : forall o x,
  (forall l, block_lines o x l -> nob x3a (norm_line l) /\ nob x7e (norm_line l)) ->
  okle (parse_blocks (bo_with_description_lists true o) x) (parse_blocks (bo_with_description_lists false o) x).
Proof.
  intros o x H. rewrite !bo_with_description_lists_bo4. apply parse_blocks_okle. intros l Hl.
  constructor; try apply feat_same. apply feat_off. apply H. exact Hl.
Qed.

Theorem description_lists_blocks_inert : forall o x,
  nob x3a x -> nob x7e x ->
  okle (parse_blocks (bo_with_description_lists true o) x) (parse_blocks (bo_with_description_lists false o) x).
Proof.
  intros o x H1 H2. apply description_lists_blocks_inert_lines. intros l Hl. split.
  - eapply block_lines_nob; [apply plain_3a | exact H1 | exact Hl].
  - eapply block_lines_nob; [apply plain_7e | exact H2 | exact Hl].
Qed.

(* ================================================================== refutations and non-vacuity *)
(* everything off, identity case folding *)
Definition o_plain : bopts := mkBO false false false false false false false false None None (fun x => x).

Fixpoint kinds (t : bnode) : list kind := bkind t :: flat_map kinds (bkids t).
Definition block_kinds (o : bopts) (x : bytes) : res (list kind) :=
  res_map (fun r => kinds (br_root r)) (parse_blocks o x).

Lemma block_kinds_differ o1 o2 x :
  block_kinds o1 x <> block_kinds o2 x -> parse_blocks o1 x <> parse_blocks o2 x.
Proof. intros H E. apply H. unfold block_kinds. rewrite E. reflexivity. Qed.

Lemma nob_dec_true t s : forallb (fun b => negb (beqb b t)) s = true -> nob t s.
Proof.
  intros H b Hb. rewrite forallb_forall in H. specialize (H _ Hb). destruct (beqb b t); [discriminate H | reflexivity].
Qed.

(* the description list trigger is NOT only `:` -- document: a LF ~ SP b *)
Definition doc_tilde : bytes := [x61; x0a; x7e; x20; x62].
Theorem description_lists_colon_only_refuted :
  nob x3a doc_tilde /\
  is_ok (parse_blocks (bo_with_description_lists true o_plain) doc_tilde) = true /\
  is_ok (parse_blocks (bo_with_description_lists false o_plain) doc_tilde) = true /\
  ~ okle (parse_blocks (bo_with_description_lists true o_plain) doc_tilde)
         (parse_blocks (bo_with_description_lists false o_plain) doc_tilde).
Proof.
  split; [apply nob_dec_true; vm_compute; reflexivity |].
  split; [vm_compute; reflexivity |]. split; [vm_compute; reflexivity |].
  intro H.
  destruct (parse_blocks (bo_with_description_lists true o_plain) doc_tilde) as [r| |] eqn:E1.
  2,3: (assert (is_ok (parse_blocks (bo_with_description_lists true o_plain) doc_tilde) = true) as K
          by (vm_compute; reflexivity); rewrite E1 in K; discriminate K).
  specialize (H r eq_refl).
  assert (block_kinds (bo_with_description_lists true o_plain) doc_tilde =
          block_kinds (bo_with_description_lists false o_plain) doc_tilde) as K
    by (unfold block_kinds; rewrite E1, H; reflexivity).
  vm_compute in K. discriminate K.
Qed.

(* greentext is NOT inert on documents without `>`: with footnotes enabled, the lazy continuation of the
   paragraph of a footnote definition is refused when greentext is on (add_text_to_container reads the flag
   for a Document container without looking at the line).  Document: [^a]: x LF b *)
Definition o_footnotes : bopts := mkBO false true false false false false false false None None (fun x => x).
Definition doc_fn_lazy : bytes := [x5b; x5e; x61; x5d; x3a; x20; x78; x0a; x62].
Theorem greentext_blocks_refuted :
  nob x3e doc_fn_lazy /\
  is_ok (parse_blocks (bo_with_greentext true o_footnotes) doc_fn_lazy) = true /\
  is_ok (parse_blocks (bo_with_greentext false o_footnotes) doc_fn_lazy) = true /\
  ~ okle (parse_blocks (bo_with_greentext true o_footnotes) doc_fn_lazy)
         (parse_blocks (bo_with_greentext false o_footnotes) doc_fn_lazy).
Proof.
  split; [apply nob_dec_true; vm_compute; reflexivity |].
  split; [vm_compute; reflexivity |]. split; [vm_compute; reflexivity |].
  intro H.
  destruct (parse_blocks (bo_with_greentext true o_footnotes) doc_fn_lazy) as [r| |] eqn:E1.
  2,3: (assert (is_ok (parse_blocks (bo_with_greentext true o_footnotes) doc_fn_lazy) = true) as K
          by (vm_compute; reflexivity); rewrite E1 in K; discriminate K).
  specialize (H r eq_refl).
  assert (block_kinds (bo_with_greentext true o_footnotes) doc_fn_lazy =
          block_kinds (bo_with_greentext false o_footnotes) doc_fn_lazy) as K
    by (unfold block_kinds; rewrite E1, H; reflexivity).
  vm_compute in K. discriminate K.
Qed.

(* with every other extension off, the brief's candidate (- a LF b) does NOT separate greentext on/off *)
Example greentext_list_lazy_same :
  block_kinds (bo_with_greentext true o_plain) [x2d; x20; x61; x0a; x62] =
  block_kinds (bo_with_greentext false o_plain) [x2d; x20; x61; x0a; x62].
Proof. vm_compute. reflexivity. Qed.

(* non-vacuity: WITH the trigger the flags matter *)
Example footnotes_matter :          (* [^a]: b *)
  block_kinds (bo_with_footnotes true o_plain) [x5b; x5e; x61; x5d; x3a; x20; x62] <>
  block_kinds (bo_with_footnotes false o_plain) [x5b; x5e; x61; x5d; x3a; x20; x62].
Proof. vm_compute. discriminate. Qed.

Example alerts_matter :             (* > [!NOTE] LF > x *)
  block_kinds (bo_with_alerts true o_plain) [x3e; x20; x5b; x21; x4e; x4f; x54; x45; x5d; x0a; x3e; x20; x78] <>
  block_kinds (bo_with_alerts false o_plain) [x3e; x20; x5b; x21; x4e; x4f; x54; x45; x5d; x0a; x3e; x20; x78].
Proof. vm_compute. discriminate. Qed.

Example multiline_block_quotes_matter :   (* >>> LF a LF >>> *)
  block_kinds (bo_with_multiline_block_quotes true o_plain) [x3e; x3e; x3e; x0a; x61; x0a; x3e; x3e; x3e] <>
  block_kinds (bo_with_multiline_block_quotes false o_plain) [x3e; x3e; x3e; x0a; x61; x0a; x3e; x3e; x3e].
Proof. vm_compute. discriminate. Qed.

Example description_lists_matter :  (* a LF : b *)
  block_kinds (bo_with_description_lists true o_plain) [x61; x0a; x3a; x20; x62] <>
  block_kinds (bo_with_description_lists false o_plain) [x61; x0a; x3a; x20; x62].
Proof. vm_compute. discriminate. Qed.

Example table_matters :             (* a|b LF -|- LF *)
  block_kinds (bo_with_table true o_plain) [x61; x7c; x62; x0a; x2d; x7c; x2d; x0a] <>
  block_kinds (bo_with_table false o_plain) [x61; x7c; x62; x0a; x2d; x7c; x2d; x0a].
Proof. vm_compute. discriminate. Qed.

(* the inert theorems apply to documents on which the parser succeeds: a trigger-free document, all four on *)
Example inert_applies :
  is_ok (parse_blocks (bo4 false true true true true o_plain) [x61; x0a; x0a; x2d; x20; x62; x0a]) = true /\
  parse_blocks (bo4 false true true true true o_plain) [x61; x0a; x0a; x2d; x20; x62; x0a] =
  parse_blocks (bo4 false false false false false o_plain) [x61; x0a; x0a; x2d; x20; x62; x0a].
Proof. split; vm_compute; reflexivity. Qed.

(* ================================================================== greentext: the guarded reads *)
(* greentext is read in three places.  Two of them sit behind line[first_nonspace] = `>` and are inert (even
   EQUAL, the panic sites are shared) on a line without `>`; the third one, in add_text_to_container, is not
   guarded by the line at all: greentext_blocks_refuted above. *)
Lemma parse_block_quote_prefix_greentext_inert : forall v v' o st line,
  nob x3e line ->
  parse_block_quote_prefix (bo_with_greentext v o) st line = parse_block_quote_prefix (bo_with_greentext v' o) st line.
Proof.
  intros v v' o st line H. unfold parse_block_quote_prefix.
  destruct (Nat.leb (indent st) 3); [| reflexivity].
  unfold idx. destruct (nth_error line (fns st)) as [b|] eqn:E; [| reflexivity]. cbn [bind].
  rewrite (nob_nth _ _ _ _ H E). reflexivity.
Qed.

Lemma handle_blockquote_greentext_inert : forall v v' o st c line ind,
  nob x3e line ->
  handle_blockquote (bo_with_greentext v o) st c line ind = handle_blockquote (bo_with_greentext v' o) st c line ind.
Proof.
  intros v v' o st c line ind H. unfold handle_blockquote.
  destruct ind; [reflexivity |].
  unfold idx. destruct (nth_error line (fns st)) as [b|] eqn:E; [| reflexivity]. cbn [bind].
  rewrite (nob_nth _ _ _ _ H E). reflexivity.
Qed.

(* ================================================================== tables: the opener only *)
(* bo_table guards table::try_opening_block in open_new_blocks_step.  On a line without `-` and a container that
   is not a Table the opener changes nothing: it answers None, or Some((container, false, false)) on a
   Paragraph (open_new_blocks_step then stops on the paragraph exactly as it does for None). *)
Lemma try_opening_block_no_dash : forall o st container line c r st',
  nob x2d line ->
  get st container = Ok c ->
  (forall t, bval c <> Table t) ->
  try_opening_block o st container line = Ok (r, st') ->
  st' = st /\ (r = TNone \/ (r = TSame false /\ is_paragraph c = true)).
Proof.
  intros o st container line c r st' H Hg Hnt. unfold try_opening_block. rewrite Hg. cbn [bind].
  destruct (bval c) eqn:Ev;
    try solve [intro E; inversion E; subst; split; [reflexivity | left; reflexivity]].
  - (* Paragraph *)
    assert (is_paragraph c = true) as Hp by (unfold is_paragraph; rewrite Ev; reflexivity).
    unfold try_opening_header. rewrite Hg. cbn [bind].
    destruct (bi_tv (binf c)); [intro E; inversion E; subst; split; [reflexivity | right; split; [reflexivity | exact Hp]] |].
    unfold Blocks.slice_from. destruct (Nat.ltb (List.length line) (fns st)); [intro E; discriminate E |].
    cbn [bind]. rewrite scan_table_start_inert by (apply nob_skipn; exact H).
    intro E; inversion E; subst; split; [reflexivity | right; split; [reflexivity | exact Hp]].
  - (* Table *)
    exfalso. eapply Hnt. reflexivity.
Qed.

(* ================================================================== tables: no Table node is an invariant *)
Definition okv (v : node_value) : bool := match v with Table _ => false | _ => true end.

Fixpoint no_table (t : bnode) : bool :=
  match t with BNode i ch => okv (bi_val i) && forallb no_table ch end.

Definition NT (st : pstate) : Prop := no_table (ps_root st) = true.

Lemma no_table_node i ch : no_table (BNode i ch) = true <-> okv (bi_val i) = true /\ forallb no_table ch = true.
Proof. cbn [no_table]. rewrite andb_true_iff. tauto. Qed.

Lemma find_node_nt id t : forall n, no_table t = true -> find_node id t = Some n -> no_table n = true.
Proof.
  induction t as [i ch IH] using bnode_ind2. intros n V F. cbn [find_node] in F.
  destruct (Nat.eqb (bi_id i) id). { now inversion F; subst. }
  apply no_table_node in V. destruct V as [_ V].
  induction ch as [|c r IHr]; [discriminate|].
  inversion IH; subst. cbn [forallb] in V. apply andb_true_iff in V. destruct V as [Vc Vr].
  destruct (find_node id c) eqn:E.
  - inversion F; subst. eauto.
  - eauto.
Qed.

Lemma upd_nt id f t : forall t',
  no_table t = true -> upd id f t = Some t' ->
  (forall n, find_node id t = Some n -> no_table n = true -> no_table (f n) = true) ->
  no_table t' = true.
Proof.
  induction t as [i ch IH] using bnode_ind2. intros t' V U Hf. cbn [upd] in U. cbn [find_node] in Hf.
  destruct (Nat.eqb (bi_id i) id). { inversion U; subst. apply Hf; auto. }
  match type of U with match ?g with _ => _ end = _ => destruct g as [ch'|] eqn:G; [|discriminate] end.
  inversion U; subst. clear U.
  apply no_table_node in V. destruct V as [Vi V]. apply no_table_node. split; [exact Vi|].
  revert ch' G Hf. induction ch as [|c r IHr]; intros ch' G Hf; [discriminate|].
  inversion IH as [|? ? IHc IHrest]; subst.
  cbn [forallb] in V. apply andb_true_iff in V. destruct V as [Vc Vr].
  destruct (upd id f c) as [c'|] eqn:Uc.
  - inversion G; subst. cbn [forallb]. apply andb_true_iff. split; [|exact Vr].
    apply (IHc c' Vc eq_refl). intros n Fn. apply Hf. now rewrite Fn.
  - match type of G with match ?g with _ => _ end = _ => destruct g as [r'|] eqn:Gr; [|discriminate] end.
    inversion G; subst.
    assert (Fc : find_node id c = None) by (eapply upd_none_find; eassumption).
    cbn [forallb]. apply andb_true_iff. split; [exact Vc|].
    apply IHr; auto. intros n Fn. apply Hf. now rewrite Fc.
Qed.

Lemma edit_kids_nt id g t : forall t',
  no_table t = true -> edit_kids id g t = Some t' ->
  (forall pk pre c post, forallb no_table (pre ++ c :: post) = true -> forallb no_table (g pk pre c post) = true) ->
  no_table t' = true.
Proof.
  induction t as [i ch IH] using bnode_ind2. intros t' V U Hg. cbn [edit_kids] in U.
  apply no_table_node in V. destruct V as [Vi V].
  destruct (split_kid id ch) as [[[pre c] post]|] eqn:S.
  { inversion U; subst. apply no_table_node. split; [exact Vi|]. apply Hg.
    now rewrite <- (split_kid_eq _ _ _ _ _ S). }
  clear S.
  match type of U with match ?gg with _ => _ end = _ => destruct gg as [ch'|] eqn:G; [|discriminate] end.
  inversion U; subst. clear U. apply no_table_node. split; [exact Vi|].
  revert ch' G. induction ch as [|c r IHr]; intros ch' G; [discriminate|].
  inversion IH as [|? ? IHc IHrest]; subst.
  cbn [forallb] in V. apply andb_true_iff in V. destruct V as [Vc Vr].
  destruct (edit_kids id g c) as [c'|] eqn:Uc.
  - inversion G; subst. cbn [forallb]. apply andb_true_iff. split; [|exact Vr]. apply (IHc c' Vc eq_refl Hg).
  - match type of G with match ?gg with _ => _ end = _ => destruct gg as [r'|] eqn:Gr; [|discriminate] end.
    inversion G; subst. cbn [forallb]. apply andb_true_iff. split; [exact Vc|]. now apply IHr.
Qed.

Lemma NT_st_next st n : NT st -> NT (st_next st n). Proof. exact (fun H => H). Qed.
Lemma NT_st_current st n : NT st -> NT (st_current st n). Proof. exact (fun H => H). Qed.
Lemma NT_st_refmap st m : NT st -> NT (st_refmap st m). Proof. exact (fun H => H). Qed.
Lemma NT_st_line_number st n : NT st -> NT (st_line_number st n). Proof. exact (fun H => H). Qed.
Lemma NT_st_cur st c : NT st -> NT (st_cur st c). Proof. exact (fun H => H). Qed.
Lemma NT_st_curline st a b : NT st -> NT (st_curline st a b). Proof. exact (fun H => H). Qed.
Lemma NT_st_last_line_length st n : NT st -> NT (st_last_line_length st n). Proof. exact (fun H => H). Qed.

Lemma get_nt st id n : NT st -> get st id = Ok n -> no_table n = true.
Proof. intros V G. eapply find_node_nt; [exact V | apply get_find; exact G]. Qed.

Lemma no_table_okv n : no_table n = true -> okv (bval n) = true.
Proof. destruct n as [i ch]. intro H. apply no_table_node in H. apply H. Qed.

Lemma modify_nt st id f st' :
  NT st -> modify st id f = Ok st' ->
  (forall n, find_node id (ps_root st) = Some n -> no_table n = true -> no_table (f n) = true) ->
  NT st'.
Proof.
  unfold modify, NT. intros V M Hf. destruct (upd id f (ps_root st)) as [r|] eqn:U; [|discriminate].
  inversion M; subst. cbn. eapply upd_nt; eassumption.
Qed.

Lemma modify_info_nt st id f st' :
  NT st -> modify_info st id f = Ok st' ->
  (forall n, find_node id (ps_root st) = Some n -> okv (bi_val (f (binf n))) = true) ->
  NT st'.
Proof.
  intros V M Hf. eapply modify_nt; [exact V | exact M |].
  intros n Fn Vn. specialize (Hf n Fn). destruct n as [i ch]. cbn [on_info binf] in *.
  apply no_table_node. apply no_table_node in Vn. tauto.
Qed.

Lemma modify_info_mono_nt st id f st' :
  modify_info st id f = Ok st' -> (forall i, okv (bi_val i) = true -> okv (bi_val (f i)) = true) -> NT st -> NT st'.
Proof.
  intros M Hf V. eapply modify_info_nt; [exact V | exact M |]. intros n Fn. apply Hf.
  apply (no_table_okv n). eapply find_node_nt; eassumption.
Qed.

Lemma bdetach_nt st id st' : bdetach st id = Ok st' -> NT st -> NT st'.
Proof.
  unfold bdetach, NT. intros D V.
  destruct (edit_kids id (fun _ pre _ post => pre ++ post) (ps_root st)) as [r|] eqn:E.
  - inversion D; subst. cbn. eapply edit_kids_nt; [exact V | exact E |].
    intros pk pre c post K. rewrite forallb_app in K. cbn [forallb] in K. cbv beta. rewrite forallb_app.
    apply andb_true_iff in K. destruct K as [K1 K2]. apply andb_true_iff in K2. destruct K2 as [K2 K3].
    apply andb_true_iff. split; assumption.
  - now inversion D; subst.
Qed.

Lemma append_child_nt st pid c st' :
  NT st -> append_child st pid c = Ok st' -> no_table c = true -> NT st'.
Proof.
  intros V A Vc. eapply modify_nt; [exact V | exact A |].
  intros n Fn Vn. destruct n as [i ch].
  apply no_table_node. apply no_table_node in Vn. destruct Vn as [Vi Vk]. split; [exact Vi|].
  rewrite forallb_app. cbn [forallb]. rewrite Vk, Vc. reflexivity.
Qed.

Lemma retighten_nt st p st' : retighten st p = Ok st' -> NT st -> NT st'.
Proof.
  unfold retighten. intros H V. destruct p as [item|]; [|inversion H; subst; exact V].
  destruct (parent_of item (ps_root st)) as [lid|]; [|inversion H; subst; exact V].
  destruct (get st lid) as [l| |] eqn:G; cbn [bind] in H; try discriminate H.
  destruct (bi_open (binf l)); [inversion H; subst; exact V|].
  destruct (bval l) eqn:Ev; try (inversion H; subst; exact V).
  eapply modify_info_nt; [exact V | exact H |]. intros n Fn. reflexivity.
Qed.

Lemma finalize_nt o st id p st' : finalize o st id = Ok (p, st') -> NT st -> NT st'.
Proof.
  intros F V. unfold finalize in F.
  mstep F. pose proof (no_table_okv _ (get_nt _ _ _ V E)) as Ka. unfold bval in Ka. apply get_find in E.
  mstep F; [discriminate F|].
  mstep F. clear E1.
  destruct (bi_val (binf a)) eqn:Ev; try discriminate Ka; mon F;
  repeat first [ apply NT_st_refmap
               | (eapply retighten_nt; [eassumption|])
               | (eapply bdetach_nt; [eassumption|])
               | (eapply modify_info_nt; [exact V | eassumption |
                    intros n Fn; rewrite E in Fn; inversion Fn; subst; cbn; rewrite ?Ev; reflexivity]) ].
Qed.

Lemma unwrap_parent_fin_nt site o st id p st' :
  unwrap_parent site (finalize o st id) = Ok (p, st') -> NT st -> NT st'.
Proof.
  unfold unwrap_parent. intros H V.
  destruct (finalize o st id) as [[op s1]| |] eqn:E; cbn [bind fst snd] in H; try discriminate H.
  destruct op; inversion H; subst. eapply finalize_nt; eassumption.
Qed.

Lemma add_child_loop_nt o k : forall fuel st parent p' st',
  add_child_loop fuel o st parent k = Ok (p', st') -> NT st -> NT st'.
Proof.
  induction fuel as [|f IH]; intros st parent p' st' H V; [discriminate|].
  cbn [add_child_loop] in H.
  destruct (get st parent) as [pn| |] eqn:G; cbn [bind] in H; try discriminate H.
  destruct (can_contain (bkind pn) k) eqn:C.
  - inversion H; subst. exact V.
  - match type of H with bind ?r _ = _ => destruct r as [[q s1]| |] eqn:U; cbn [bind fst snd] in H; try discriminate H end.
    eapply IH; [exact H|]. eapply unwrap_parent_fin_nt; eassumption.
Qed.

Lemma add_child_gen_nt o st parent v col post kids id st' :
  add_child_gen o st parent v col post kids = Ok (id, st') -> NT st ->
  (forall id l c, okv (bi_val (post (new_info id v l c))) = true) ->
  forallb no_table kids = true -> NT st'.
Proof.
  unfold add_child_gen. intros H V Hp Hk.
  match type of H with bind ?r _ = _ => destruct r as [[p' s1]| |] eqn:E; cbn [bind] in H; try discriminate H end.
  pose proof (add_child_loop_nt _ _ _ _ _ _ _ E V) as V1.
  mon H. eapply append_child_nt; [apply NT_st_next; exact V1 | eassumption |].
  apply no_table_node. split; [apply Hp | exact Hk].
Qed.

Lemma add_child_nt o st parent v col id st' :
  add_child o st parent v col = Ok (id, st') -> okv v = true -> NT st -> NT st'.
Proof.
  unfold add_child. intros H Hv V. eapply add_child_gen_nt; [exact H | exact V | intros; exact Hv | reflexivity].
Qed.

Lemma adv_nt st line n b st' : adv st line n b = Ok st' -> NT st -> NT st'.
Proof. unfold adv. intros H V. mon H. exact V. Qed.
Lemma ffn_nt st line st' : ffn st line = Ok st' -> NT st -> NT st'.
Proof. unfold ffn. intros H V. mon H. exact V. Qed.

Create HintDb nt.
#[local] Hint Resolve adv_nt ffn_nt add_child_nt unwrap_parent_fin_nt finalize_nt bdetach_nt
  NT_st_next NT_st_current NT_st_refmap NT_st_line_number NT_st_cur NT_st_curline NT_st_last_line_length
  modify_info_mono_nt : nt.
#[local] Hint Extern 1 (okv _ = true) => reflexivity : nt.
#[local] Hint Extern 1 (forall i : binfo, okv (bi_val i) = true -> okv (bi_val _) = true) =>
  (let i := fresh "i" in let Hi := fresh "Hi" in intros i Hi;
   repeat match goal with |- context[if ?b then _ else _] => destruct b end; first [exact Hi | reflexivity]) : nt.

Ltac ntgo H := mon H; monall; repeat match goal with p : (_ * _)%type |- _ => destruct p end; cbn [fst snd] in *; eauto 20 with nt.

Lemma skip_one_space_nt st line site st' : skip_one_space st line site = Ok st' -> NT st -> NT st'.
Proof. unfold skip_one_space. intros H V. ntgo H. Qed.
#[local] Hint Resolve skip_one_space_nt : nt.

Lemma parse_block_quote_prefix_nt o st line b st' : parse_block_quote_prefix o st line = Ok (b, st') -> NT st -> NT st'.
Proof. unfold parse_block_quote_prefix. intros H V. ntgo H. Qed.
#[local] Hint Resolve parse_block_quote_prefix_nt : nt.
Lemma parse_footnote_prefix_nt st line b st' : parse_footnote_definition_block_prefix st line = Ok (b, st') -> NT st -> NT st'.
Proof. unfold parse_footnote_definition_block_prefix. intros H V. ntgo H. Qed.
#[local] Hint Resolve parse_footnote_prefix_nt : nt.
Lemma parse_item_prefix_nt st line c mo pad b st' : parse_item_prefix st line c mo pad = Ok (b, st') -> NT st -> NT st'.
Proof. unfold parse_item_prefix. intros H V. ntgo H. Qed.
#[local] Hint Resolve parse_item_prefix_nt : nt.
Lemma skip_fence_offset_nt line site : forall i st st', skip_fence_offset i st line site = Ok st' -> NT st -> NT st'.
Proof. induction i as [|j IH]; intros st st' H V; cbn [skip_fence_offset] in H; ntgo H. Qed.
#[local] Hint Resolve skip_fence_offset_nt : nt.
Lemma parse_code_block_prefix_nt o st line c cb a b st' :
  parse_code_block_prefix o st line c cb = Ok (a, b, st') -> NT st -> NT st'.
Proof. unfold parse_code_block_prefix. intros H V. ntgo H. Qed.
#[local] Hint Resolve parse_code_block_prefix_nt : nt.
Lemma parse_mbq_prefix_nt o st line c fl fo a b st' :
  parse_multiline_block_quote_prefix o st line c fl fo = Ok (a, b, st') -> NT st -> NT st'.
Proof. unfold parse_multiline_block_quote_prefix. intros H V. ntgo H. Qed.
#[local] Hint Resolve parse_mbq_prefix_nt : nt.
Lemma check_container_nt o st line c a b st' : check_container o st line c = Ok (a, b, st') -> NT st -> NT st'.
Proof. unfold check_container. intros H V. destruct (bval c); ntgo H. Qed.
#[local] Hint Resolve check_container_nt : nt.
Lemma check_open_blocks_inner_nt o line : forall fuel st container a c b st',
  check_open_blocks_inner fuel o st line container = Ok (a, c, b, st') -> NT st -> NT st'.
Proof. induction fuel as [|f IH]; intros st container a c b st' H V; cbn [check_open_blocks_inner] in H; ntgo H. Qed.
#[local] Hint Resolve check_open_blocks_inner_nt : nt.
Lemma check_open_blocks_nt o st line r st' : check_open_blocks o st line = Ok (r, st') -> NT st -> NT st'.
Proof. unfold check_open_blocks. intros H V. ntgo H. Qed.
#[local] Hint Resolve check_open_blocks_nt : nt.

(* the table opener on a line without `-`, in a tree without Table nodes: the state is unchanged *)
Lemma try_opening_block_nt o st c line r st' :
  try_opening_block o st c line = Ok (r, st') -> nob x2d line -> NT st -> NT st'.
Proof.
  intros H Hl V. destruct (get st c) as [cn| |] eqn:G.
  - pose proof (no_table_okv _ (get_nt _ _ _ V G)) as K.
    destruct (try_opening_block_no_dash o st c line cn r st' Hl G) as [-> _]; [| exact H | exact V].
    intros t E. rewrite E in K. discriminate K.
  - unfold try_opening_block in H. rewrite G in H. discriminate H.
  - unfold try_opening_block in H. rewrite G in H. discriminate H.
Qed.
#[local] Hint Resolve try_opening_block_nt : nt.

Lemma reopen_nt : forall fuel st id st', reopen_ast_nodes fuel st id = Ok st' -> NT st -> NT st'.
Proof. induction fuel as [|f IH]; intros st id st' H V; cbn [reopen_ast_nodes] in H; ntgo H. Qed.
#[local] Hint Resolve reopen_nt : nt.

Lemma last_kid_nt c lc : no_table c = true -> last_opt (bkids c) = Some lc -> no_table lc = true.
Proof.
  destruct c as [i ch]. intros V L. apply no_table_node in V. destruct V as [_ V].
  cbn [bkids] in L. apply last_opt_in in L. rewrite forallb_forall in V. now apply V.
Qed.

Lemma parse_desc_list_details_nt o st c m b c' st' :
  parse_desc_list_details o st c m = Ok (b, c', st') -> NT st -> NT st'.
Proof.
  unfold parse_desc_list_details. intros H V.
  destruct (get st c) as [cn| |] eqn:G; cbn [bind] in H; try discriminate H.
  match type of H with bind ?r _ = _ => destruct r as [[[[tight c1] lc]|]| |] eqn:R; cbn [bind] in H; try discriminate H end;
    [|inversion H; subst; exact V].
  assert (Vlc : no_table lc = true).
  { pose proof (get_nt _ _ _ V G) as Vc.
    destruct (last_opt (bkids cn)) eqn:L.
    - inversion R; subst. eapply last_kid_nt; eassumption.
    - mon R. eapply last_kid_nt; [eapply get_nt; [exact V | eassumption] | eassumption]. }
  clear R.
  destruct (bval lc) eqn:Bl; try (inversion H; subst; exact V).
  - (* DescriptionItem *) ntgo H.
  - (* Paragraph *)
    mon H; monall; repeat match goal with p : (_ * _)%type |- _ => destruct p end; cbn [fst snd] in *;
    match goal with A : add_child_gen _ ?s _ DescriptionTerm _ _ _ = Ok (_, ?s') |- _ =>
      assert (NT s -> NT s') by
        (intro; eapply add_child_gen_nt; [exact A | assumption | intros; reflexivity |
           cbn [forallb]; rewrite Vlc; reflexivity])
    end; eauto 20 with nt.
Qed.
#[local] Hint Resolve parse_desc_list_details_nt : nt.

Lemma handle_alert_nt o st c line ind b c' st' : handle_alert o st c line ind = Ok (b, c', st') -> NT st -> NT st'.
Proof. unfold handle_alert. intros H V. ntgo H. Qed.
Lemma handle_mbq_nt o st c line ind b c' st' : handle_multiline_blockquote o st c line ind = Ok (b, c', st') -> NT st -> NT st'.
Proof. unfold handle_multiline_blockquote, rest_at_fns. intros H V. ntgo H. Qed.
Lemma handle_blockquote_nt o st c line ind b c' st' : handle_blockquote o st c line ind = Ok (b, c', st') -> NT st -> NT st'.
Proof. unfold handle_blockquote. intros H V. ntgo H. Qed.
Lemma handle_atx_nt o st c line ind b c' st' : handle_atx_heading o st c line ind = Ok (b, c', st') -> NT st -> NT st'.
Proof.
  unfold handle_atx_heading, rest_at_fns. intros H V. mon H; monall; repeat match goal with p : (_ * _)%type |- _ => destruct p end; cbn [fst snd] in *; eauto with nt.
  eapply add_child_gen_nt; [eassumption | eauto with nt | intros; reflexivity | reflexivity].
Qed.
Lemma handle_code_fence_nt o st c line ind b c' st' : handle_code_fence o st c line ind = Ok (b, c', st') -> NT st -> NT st'.
Proof. unfold handle_code_fence, rest_at_fns. intros H V. ntgo H. Qed.
Lemma handle_html_block_nt o st c line ind b c' st' : handle_html_block o st c line ind = Ok (b, c', st') -> NT st -> NT st'.
Proof. unfold handle_html_block, rest_at_fns. intros H V. ntgo H. Qed.
Lemma handle_thematic_break_nt o st c line ind am b c' st' : handle_thematic_break o st c line ind am = Ok (b, c', st') -> NT st -> NT st'.
Proof. unfold handle_thematic_break. intros H V. ntgo H. Qed.
Lemma handle_footnote_nt o st c line ind d b c' st' : handle_footnote o st c line ind d = Ok (b, c', st') -> NT st -> NT st'.
Proof. unfold handle_footnote, rest_at_fns. intros H V. ntgo H. Qed.
Lemma handle_description_list_nt o st c line ind b c' st' : handle_description_list o st c line ind = Ok (b, c', st') -> NT st -> NT st'.
Proof. unfold handle_description_list, rest_at_fns. intros H V. ntgo H. Qed.
Lemma list_spaces_loop_nt line sc : forall fuel st st', list_spaces_loop fuel st line sc = Ok st' -> NT st -> NT st'.
Proof. induction fuel as [|f IH]; intros st st' H V; cbn [list_spaces_loop] in H; ntgo H. Qed.
#[local] Hint Resolve list_spaces_loop_nt : nt.
Lemma handle_list_nt o st c line ind d b c' st' : handle_list o st c line ind d = Ok (b, c', st') -> NT st -> NT st'.
Proof. unfold handle_list. intros H V. ntgo H. Qed.
Lemma handle_code_block_nt o st c line ind ml b c' st' : handle_code_block o st c line ind ml = Ok (b, c', st') -> NT st -> NT st'.
Proof. unfold handle_code_block. intros H V. ntgo H. Qed.
Lemma handle_setext_nt o st c line ind b c' st' : handle_setext_heading o st c line ind = Ok (b, c', st') -> NT st -> NT st'.
Proof. unfold handle_setext_heading, rest_at_fns. intros H V. ntgo H. Qed.
#[local] Hint Resolve handle_alert_nt handle_mbq_nt handle_blockquote_nt handle_atx_nt handle_code_fence_nt
  handle_html_block_nt handle_setext_nt handle_thematic_break_nt handle_footnote_nt
  handle_description_list_nt handle_list_nt handle_code_block_nt : nt.

Lemma or_else_h_nt (r : hres) k b c st st' :
  or_else_h r k = Ok (b, c, st') -> NT st ->
  (forall b1 c1 s1, r = Ok (b1, c1, s1) -> NT st -> NT s1) ->
  (forall c1 s1 b2 c2 s2, k c1 s1 = Ok (b2, c2, s2) -> NT s1 -> NT s2) ->
  NT st'.
Proof.
  unfold or_else_h. intros H V Hr Hk.
  destruct r as [[[b1 c1] s1]| |]; cbn [bind] in H; try discriminate H.
  destruct b1.
  - inversion H; subst. eapply Hr; [reflexivity | exact V].
  - eapply Hk; [exact H|]. eapply Hr; [reflexivity | exact V].
Qed.

Ltac chain_nt :=
  match goal with
  | R : or_else_h _ _ = Ok _ |- NT _ =>
    eapply (or_else_h_nt _ _ _ _ _ _ R); clear R;
    [ eassumption | intros ? ? ? ? ?; eauto with nt | intros ? ? ? ? ? R ?; cbv beta in R; chain_nt ]
  | |- NT _ => eauto with nt
  end.

Lemma open_new_blocks_step_nt o st c line am ml d g c' st' :
  open_new_blocks_step o st c line am ml d = Ok (g, c', st') -> nob x2d line -> NT st -> NT st'.
Proof.
  unfold open_new_blocks_step. intros H Hl V.
  destruct (ffn st line) as [s0| |] eqn:F0; cbn [bind] in H; try discriminate H.
  assert (V0 : NT s0) by eauto with nt.
  match type of H with bind ?r _ = _ => destruct r as [[[hd c1] s1]| |] eqn:R; cbn [bind] in H; try discriminate H end.
  assert (V1 : NT s1) by chain_nt.
  clear R. ntgo H.
Qed.
#[local] Hint Resolve open_new_blocks_step_nt : nt.
Lemma open_new_blocks_loop_nt o line am : nob x2d line -> forall fuel st c ml d c' st',
  open_new_blocks_loop fuel o st c line am ml d = Ok (c', st') -> NT st -> NT st'.
Proof. intro Hl. induction fuel as [|f IH]; intros st c ml d c' st' H V; cbn [open_new_blocks_loop] in H; ntgo H. Qed.
Lemma open_new_blocks_nt o st c line am c' st' :
  open_new_blocks o st c line am = Ok (c', st') -> nob x2d line -> NT st -> NT st'.
Proof. unfold open_new_blocks. intros H Hl V. mon H. eapply open_new_blocks_loop_nt; eassumption. Qed.
#[local] Hint Resolve open_new_blocks_nt : nt.

Lemma clear_llb_up_nt : forall fuel st id st', clear_llb_up fuel st id = Ok st' -> NT st -> NT st'.
Proof. induction fuel as [|f IH]; intros st id st' H V; cbn [clear_llb_up] in H; ntgo H. Qed.
#[local] Hint Resolve clear_llb_up_nt : nt.
Lemma finalize_up_to_nt o target site : forall fuel st st', finalize_up_to fuel o st target site = Ok st' -> NT st -> NT st'.
Proof. induction fuel as [|f IH]; intros st st' H V; cbn [finalize_up_to] in H; ntgo H. Qed.
#[local] Hint Resolve finalize_up_to_nt : nt.
Lemma add_line_nt st id line st' : add_line st id line = Ok st' -> NT st -> NT st'.
Proof.
  unfold add_line. intros H V.
  destruct (get st id) as [n| |] eqn:G; cbn [bind] in H; try discriminate H.
  pose proof (no_table_okv _ (get_nt _ _ _ V G)) as Ka. unfold bval in Ka.
  mon H; monall; apply NT_st_cur;
  (eapply modify_info_nt; [exact V | eassumption |];
   intros nn Fn; rewrite (get_find _ _ _ G) in Fn; inversion Fn; subst; exact Ka).
Qed.
#[local] Hint Resolve add_line_nt : nt.
Lemma add_text_to_container_nt o st c lm line st' :
  add_text_to_container o st c lm line = Ok st' -> NT st -> NT st'.
Proof. unfold add_text_to_container. intros H V. ntgo H. Qed.
#[local] Hint Resolve add_text_to_container_nt : nt.
Lemma process_line_nt o st line st' :
  process_line o st line = Ok st' -> nob x2d (norm_line line) -> NT st -> NT st'.
Proof. unfold process_line. intros H Hl V. ntgo H. Qed.
Lemma front_matter_prologue_nt o st s st' rest : front_matter_prologue o st s = Ok (st', rest) -> NT st -> NT st'.
Proof. unfold front_matter_prologue. intros H V. ntgo H. Qed.
Lemma NT_init : NT init_state.
Proof. reflexivity. Qed.

(* ================================================================== tables: the okle chain under the invariant *)
Lemma okle_bind_eq {A B} (r1 r2 : res A) (k1 k2 : A -> res B) :
  okle r1 r2 -> (forall a, r1 = Ok a -> okle (k1 a) (k2 a)) -> okle (bind r1 k1) (bind r2 k2).
Proof.
  intros H1 H2 x H. destruct r1 as [a| |] eqn:E; cbn [bind] in H; try discriminate H.
  rewrite (H1 a eq_refl). cbn [bind]. apply (H2 a eq_refl). exact H.
Qed.

Lemma or_else_h_ext (r r' : hres) (k k' : nat -> pstate -> hres) :
  r = r' -> (forall c st, k c st = k' c st) -> or_else_h r k = or_else_h r' k'.
Proof.
  intros -> H. unfold or_else_h. apply bind_ext; [reflexivity |].
  intros [[h c] st]. destruct h; [reflexivity | apply H].
Qed.

(* the four flag-reading handlers do not read bo_table *)
Lemma handle_alert_tb tb tb' f d m a o st c line ind :
  handle_alert (bo4 tb f d m a o) st c line ind = handle_alert (bo4 tb' f d m a o) st c line ind.
Proof. unfold handle_alert. bo4_proj. par. Qed.
Lemma handle_multiline_blockquote_tb tb tb' f d m a o st c line ind :
  handle_multiline_blockquote (bo4 tb f d m a o) st c line ind = handle_multiline_blockquote (bo4 tb' f d m a o) st c line ind.
Proof. unfold handle_multiline_blockquote. bo4_proj. par. Qed.
Lemma handle_footnote_tb tb tb' f d m a o st c line ind depth :
  handle_footnote (bo4 tb f d m a o) st c line ind depth = handle_footnote (bo4 tb' f d m a o) st c line ind depth.
Proof. unfold handle_footnote. bo4_proj. par. Qed.
Lemma handle_description_list_tb tb tb' f d m a o st c line ind :
  handle_description_list (bo4 tb f d m a o) st c line ind = handle_description_list (bo4 tb' f d m a o) st c line ind.
Proof. unfold handle_description_list. bo4_proj. par. Qed.
#[local] Hint Resolve handle_alert_tb handle_multiline_blockquote_tb handle_footnote_tb handle_description_list_tb : bo4.

Lemma accepts_lines_paragraph c : is_paragraph c = true -> accepts_lines (bkind c) = true.
Proof. unfold is_paragraph, bkind. destruct (bval c); intro H; try discriminate H; reflexivity. Qed.

Section tchain.
Variables f d m a : bool.
Variable o : bopts.
Let O1 := bo4 true f d m a o.
Let O2 := bo4 false f d m a o.

Lemma open_new_blocks_step_tokle line : nob x2d line -> forall st c am ml depth, NT st ->
  okle (open_new_blocks_step O1 st c line am ml depth) (open_new_blocks_step O2 st c line am ml depth).
Proof.
  intros Hl st c am ml depth V. unfold open_new_blocks_step, O1, O2.
  apply okle_bind_eq; [apply okle_refl |]. intros st1 F1. lazy zeta.
  assert (V1 : NT st1) by (eapply ffn_nt; eassumption). clear V.
  apply okle_bind_eq.
  - apply okle_of_eq.
    repeat (apply or_else_h_ext; [bo4_leaf | intros ? ?]). bo4_leaf.
  - intros [[handled c1] s1] R.
    assert (V2 : NT s1) by chain_nt.
    clear R. destruct handled; [apply okle_of_eq; reflexivity |].
    bo4_proj.
    destruct (negb (Nat.leb code_indent (indent st1))) eqn:Ind; cbn [andb]; [| apply okle_refl].
    intros x Hx.
    destruct (try_opening_block (bo4 true f d m a o) s1 c1 line) as [[r s2]| |] eqn:T;
      cbn [bind] in Hx; try discriminate Hx.
    assert (exists cn, get s1 c1 = Ok cn) as [cn G].
    { unfold try_opening_block in T. destruct (get s1 c1) as [cn| |]; [eauto | discriminate T | discriminate T]. }
    destruct (try_opening_block_no_dash (bo4 true f d m a o) s1 c1 line cn r s2 Hl G) as [-> [-> | [-> Hp]]]; [ | exact T | | ].
    + intros t E. pose proof (no_table_okv _ (get_nt _ _ _ V2 G)) as K. rewrite E in K. discriminate K.
    + exact Hx.
    + cbn [bind negb] in Hx. rewrite G in Hx. cbn [bind] in Hx.
      rewrite (accepts_lines_paragraph _ Hp) in Hx. exact Hx.
Qed.

Lemma open_new_blocks_loop_tokle line : nob x2d line -> forall fuel st c am ml depth, NT st ->
  okle (open_new_blocks_loop fuel O1 st c line am ml depth) (open_new_blocks_loop fuel O2 st c line am ml depth).
Proof.
  intros Hl fuel. induction fuel as [|fuel IH]; intros st c am ml depth V; cbn [open_new_blocks_loop]; [apply okle_refl |].
  apply okle_bind; [apply okle_refl |]. intro n.
  destruct (is_code_or_html n); [apply okle_refl |].
  apply okle_bind_eq; [apply open_new_blocks_step_tokle; assumption |].
  intros [[g c1] s1] R. destruct g; [| apply okle_refl].
  apply IH. eapply open_new_blocks_step_nt; eassumption.
Qed.

Lemma open_new_blocks_tokle line : nob x2d line -> forall st c am, NT st ->
  okle (open_new_blocks O1 st c line am) (open_new_blocks O2 st c line am).
Proof.
  intros Hl st c am V. unfold open_new_blocks.
  apply okle_bind; [apply okle_refl |]. intro n. apply open_new_blocks_loop_tokle; assumption.
Qed.

Lemma process_line_tokle line0 : nob x2d (norm_line line0) -> forall st, NT st ->
  okle (process_line O1 st line0) (process_line O2 st line0).
Proof.
  intros Hl st V. unfold process_line. lazy zeta.
  apply okle_bind_eq; [apply okle_of_eq; unfold O1, O2; bo4_leaf |].
  intros [[[lmc am]|] st1] C.
  - assert (V1 : NT st1) by (eapply check_open_blocks_nt; [exact C | exact V]).
    apply okle_bind; [| intro; apply okle_refl].
    apply okle_bind; [apply open_new_blocks_tokle; assumption |].
    intros [c2 st2]. apply okle_of_eq. unfold O1, O2. par.
  - apply okle_refl.
Qed.

Lemma process_lines_tokle ls : (forall l, In l ls -> nob x2d (norm_line l)) -> forall st, NT st ->
  okle (process_lines O1 st ls) (process_lines O2 st ls).
Proof.
  induction ls as [|l ls IH]; intros H st V; cbn [process_lines]; [apply okle_refl |].
  apply okle_bind_eq; [apply process_line_tokle; [apply H; left; reflexivity | exact V] |].
  intros st1 P. apply IH; [intros l' Hl'; apply H; right; exact Hl' |].
  eapply process_line_nt; [exact P | apply H; left; reflexivity | exact V].
Qed.

Lemma run_lines_tokle ls : (forall l, In l ls -> nob x2d (norm_line l)) -> forall st, NT st ->
  okle (run_lines O1 st ls) (run_lines O2 st ls).
Proof.
  intros H st V. unfold run_lines.
  apply okle_bind; [apply process_lines_tokle; assumption |].
  intro st1. apply okle_of_eq. unfold O1, O2. par.
Qed.

Lemma parse_blocks_tokle x :
  (forall l, block_lines o x l -> nob x2d (norm_line l)) ->
  okle (parse_blocks O1 x) (parse_blocks O2 x).
Proof.
  intro H. unfold parse_blocks, O1, O2. rewrite !front_matter_prologue_bo4_base.
  destruct (front_matter_prologue o init_state x) as [[st rest]| |] eqn:E; cbn [bind]; try apply okle_refl.
  pose proof (fun l => H l) as H'. unfold block_lines, Feed.lines in H'.
  destruct (feed_lines rest) as [ls total] eqn:F.
  apply okle_bind; [| intro; apply okle_refl].
  apply run_lines_tokle.
  - intros l Hl. apply H'. exists st, rest. split; [exact E |]. rewrite F. exact Hl.
  - eapply front_matter_prologue_nt; [exact E | apply NT_init].
Qed.
End tchain.

Lemma plain_2d : plain_trigger x2d. Proof. split; [reflexivity | intros b [<- | [<- | [<- | []]]]; reflexivity]. Qed.

Lemma bo_with_table_bo4 v o :
  bo_with_table v o = bo4 v (bo_footnotes o) (bo_description_lists o) (bo_multiline_block_quotes o) (bo_alerts o) o.
Proof. reflexivity. Qed.

(* ---- tables: trigger `-` *)
Theorem table_blocks_inert_lines : forall o x,
  (forall l, block_lines o x l -> nob x2d (norm_line l)) ->
  okle (parse_blocks (bo_with_table true o) x) (parse_blocks (bo_with_table false o) x).
Proof. intros o x H. rewrite !bo_with_table_bo4. apply parse_blocks_tokle. exact H. Qed.

Theorem table_blocks_inert : forall o x,
  nob x2d x ->
  okle (parse_blocks (bo_with_table true o) x) (parse_blocks (bo_with_table false o) x).
Proof.
  intros o x H. apply table_blocks_inert_lines. intros l Hl.
  eapply block_lines_nob; [apply plain_2d | exact H | exact Hl].
Qed.

(* greentext: no end-to-end statement is claimed; it is false as stated (greentext_blocks_refuted). *)
