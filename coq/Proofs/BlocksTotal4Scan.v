(* Proofs/BlocksTotal4Scan.v — totality of the block phase, fourth round: further facts about the scanners, each for
   ALL byte strings, in the generic style of Proofs/BlocksTotal3Cur.v (a boolean check on the regenerated rule list of
   Gen/ScannersRe.v decided by computation + a generic lemma over the regex AST).

   The brick (run_rules_cursor_head): when an Option<usize> scanner whose rules all `return Some(cursor)` answers
   Some m, then m <= |s| and the CONSUMED part firstn m s is matched by the head of one of its rules: the whole regex of
   a plain rule, r1 of a trailing-context rule r1 / r2 (the cursor goes back to the end of r1; split_go cannot fail on
   a match of r1 r2), r1 r2 of a tagged rule.

   A. re_avoids b r: no class of r contains b; then no match of r contains b (matches_avoids); for a scanner whose heads
      avoid LF the consumed prefix contains no LF (scan_avoids) and on a line that ends with LF the match ends before
      that LF (scan_before_last; scan_*_before_lf).
   B. min_len of the heads bounds the match from below (scan_min_len; scan_*_ge).
   C. handle_atx_heading finds its '#' and its level after a match of atx_heading_start (atx_heading_level).
   D. re_requires b r: every match of r contains b; alert_start only matches strings with a ']' and the title loop of
      handle_alert finds it inside the line with the fuel it is given (alert_title_loop_ok).
   E. scan_thematic_break_inner answers true only with at least 4 bytes from first_nonspace on, all inside the line. *)
From Coq Require Import List NArith Arith Bool Lia Strings.String.
From V Require Import Base.Bytes Base.Res Base.Regex Base.Re2c Gen.ScannersRe Model.Ast Model.Strings Model.Scan
  Model.ListMarker Model.Blocks Proofs.RegexProofs Proofs.ScanProofs Proofs.BlocksCursor Proofs.BlocksTotal3Cur.
Import ListNotations.
Local Open Scope string_scope.
Local Open Scope list_scope.

(* ================================================================== the consumed part of a match *)
Definition rule_head (x : rule) : re :=
  match x with
  | RPlain r _ => r
  | RCtx r1 _ _ => r1
  | RTag r1 r2 _ => Cat r1 r2
  end.

Lemma run_rules_cursor_head rules s m :
  forallb is_cursor_rule rules = true ->
  as_opt_usize (run_rules rules ActNone 0 s) = Some m ->
  m <= List.length s /\ exists x, In x rules /\ matches (rule_head x) (firstn m s).
Proof.
  intros Hr. unfold run_rules. cbn [repeat]. rewrite app_nil_r.
  destruct (pick_rule rules s None) as [[L x]|] eqn:E; [|unfold as_opt_usize; cbn [o_act]; discriminate].
  apply pick_rule_sound in E. destruct E as [E|[Hin E]]; [discriminate E|].
  apply longest_match_spec in E. destruct E as (HL & HM & _).
  rewrite forallb_forall in Hr. specialize (Hr _ Hin). unfold is_cursor_rule in Hr.
  destruct x as [r a|r1 r2 a|r1 r2 a]; cbn [rule_act rule_re] in Hr, HM; destruct a; try discriminate Hr.
  - unfold as_opt_usize; cbn [o_act o_cursor]. intro H; inversion H; subst m.
    split; [exact HL|]. exists (RPlain r ActCursor). split; [exact Hin | exact HM].
  - destruct (split_go r1 r2 (firstn L s) L) as [k|] eqn:Sg.
    + unfold as_opt_usize; cbn [o_act o_cursor]. intro H; inversion H; subst m.
      apply split_go_sound in Sg. destruct Sg as (Hk & M1 & _).
      rewrite firstn_firstn, Nat.min_l in M1 by exact Hk.
      split; [lia|]. exists (RCtx r1 r2 ActCursor). split; [exact Hin | exact M1].
    + exfalso. apply matches_Cat in HM. destruct HM as (s1 & s2 & Es & M1 & M2).
      assert (Hl : List.length s1 <= L).
      { pose proof (f_equal (@List.length byte) Es) as F. rewrite firstn_length_le, app_length in F by exact HL. lia. }
      apply (split_go_complete r1 r2 (firstn L s) L (List.length s1) Hl); [ | | exact Sg].
      * rewrite Es, firstn_app, Nat.sub_diag, firstn_all. cbn [firstn]. rewrite app_nil_r. exact M1.
      * rewrite Es, skipn_app, Nat.sub_diag, skipn_all. cbn [skipn app]. exact M2.
  - destruct (split_go r1 r2 (firstn L s) L); unfold as_opt_usize; cbn [o_act o_cursor]; intro H; inversion H; subst m;
      (split; [exact HL|]); exists (RTag r1 r2 ActCursor); (split; [exact Hin | exact HM]).
Qed.

(* ================================================================== A. the matched prefix avoids a byte *)
Fixpoint re_avoids (b : byte) (r : re) : bool :=
  match r with
  | Empty | Eps => true
  | Chr cs => negb (cs_mem cs b)
  | Cat a c | Alt a c => re_avoids b a && re_avoids b c
  | Star a => re_avoids b a
  end.

Lemma matches_avoids b r s : matches r s -> re_avoids b r = true -> ~ In b s.
Proof.
  induction 1 as [|cs c Hc|a c s t _ IHa _ IHc|a c s _ IH|a c s _ IH| |a s t _ IHa _ IHs]; cbn [re_avoids]; intros Hv Hi.
  - destruct Hi.
  - destruct Hi as [->|[]]. rewrite Hc in Hv. discriminate Hv.
  - apply andb_true_iff in Hv. destruct Hv as [Va Vc]. apply in_app_or in Hi. destruct Hi; [now apply IHa | now apply IHc].
  - apply andb_true_iff in Hv. destruct Hv as [Va _]. now apply IH.
  - apply andb_true_iff in Hv. destruct Hv as [_ Vc]. now apply IH.
  - destruct Hi.
  - apply in_app_or in Hi. destruct Hi; [now apply IHa | now apply IHs].
Qed.

Lemma scan_avoids b rules s m :
  forallb is_cursor_rule rules = true ->
  forallb (fun x => re_avoids b (rule_head x)) rules = true ->
  as_opt_usize (run_rules rules ActNone 0 s) = Some m -> ~ In b (firstn m s).
Proof.
  intros Hr Hv H. destruct (run_rules_cursor_head _ _ _ Hr H) as (_ & x & Hin & M).
  rewrite forallb_forall in Hv. exact (matches_avoids _ _ _ M (Hv _ Hin)).
Qed.

(* on a string that ends with the avoided byte the match ends before it *)
Lemma scan_before_last b rules l m :
  forallb is_cursor_rule rules = true ->
  forallb (fun x => re_avoids b (rule_head x)) rules = true ->
  as_opt_usize (run_rules rules ActNone 0 (l ++ [b])) = Some m -> m <= List.length l.
Proof.
  intros Hr Hv H. pose proof (scan_avoids _ _ _ _ Hr Hv H) as Hn.
  destruct (run_rules_cursor_head _ _ _ Hr H) as (Hm & _). rewrite app_length in Hm. cbn [List.length] in Hm.
  destruct (Nat.eq_dec m (S (List.length l))) as [->|Hne]; [|lia].
  exfalso. apply Hn. rewrite firstn_all2 by (rewrite app_length; cbn [List.length]; lia).
  apply in_or_app. right. left. reflexivity.
Qed.

Ltac scan_nolf := let H := fresh "H" in intro H; eapply scan_before_last; [| |exact H]; vm_compute; reflexivity.
Ltac scan_avoid := let H := fresh "H" in intro H; eapply scan_avoids; [| |exact H]; vm_compute; reflexivity.

Lemma scan_footnote_definition_no_lf s m : scan_footnote_definition s = Some m -> ~ In x0a (firstn m s).
Proof. scan_avoid. Qed.
Lemma scan_description_item_start_no_lf s m : scan_description_item_start s = Some m -> ~ In x0a (firstn m s).
Proof. scan_avoid. Qed.
Lemma scan_open_mbq_fence_no_lf s m : scan_open_multiline_block_quote_fence s = Some m -> ~ In x0a (firstn m s).
Proof. scan_avoid. Qed.
Lemma scan_close_mbq_fence_no_lf s m : scan_close_multiline_block_quote_fence s = Some m -> ~ In x0a (firstn m s).
Proof. scan_avoid. Qed.
Lemma scan_open_code_fence_no_lf s m : scan_open_code_fence s = Some m -> ~ In x0a (firstn m s).
Proof. scan_avoid. Qed.
Lemma scan_close_code_fence_no_lf s m : scan_close_code_fence s = Some m -> ~ In x0a (firstn m s).
Proof. scan_avoid. Qed.

Lemma scan_footnote_definition_before_lf l m : scan_footnote_definition (l ++ [x0a]) = Some m -> m <= List.length l.
Proof. scan_nolf. Qed.
Lemma scan_description_item_start_before_lf l m : scan_description_item_start (l ++ [x0a]) = Some m -> m <= List.length l.
Proof. scan_nolf. Qed.
Lemma scan_open_mbq_fence_before_lf l m : scan_open_multiline_block_quote_fence (l ++ [x0a]) = Some m -> m <= List.length l.
Proof. scan_nolf. Qed.
Lemma scan_close_mbq_fence_before_lf l m : scan_close_multiline_block_quote_fence (l ++ [x0a]) = Some m -> m <= List.length l.
Proof. scan_nolf. Qed.
Lemma scan_open_code_fence_before_lf l m : scan_open_code_fence (l ++ [x0a]) = Some m -> m <= List.length l.
Proof. scan_nolf. Qed.
Lemma scan_close_code_fence_before_lf l m : scan_close_code_fence (l ++ [x0a]) = Some m -> m <= List.length l.
Proof. scan_nolf. Qed.

(* the same for CR: the fences, the footnote label and the description marker stop before a CR LF line end as well *)
Lemma scan_footnote_definition_before_cr l m : scan_footnote_definition (l ++ [x0d]) = Some m -> m <= List.length l.
Proof. scan_nolf. Qed.
Lemma scan_open_code_fence_before_cr l m : scan_open_code_fence (l ++ [x0d]) = Some m -> m <= List.length l.
Proof. scan_nolf. Qed.

Lemma scan_description_item_start_before_cr l m : scan_description_item_start (l ++ [x0d]) = Some m -> m <= List.length l.
Proof. scan_nolf. Qed.
Lemma scan_open_mbq_fence_before_cr l m : scan_open_multiline_block_quote_fence (l ++ [x0d]) = Some m -> m <= List.length l.
Proof. scan_nolf. Qed.
Lemma scan_close_mbq_fence_before_cr l m : scan_close_multiline_block_quote_fence (l ++ [x0d]) = Some m -> m <= List.length l.
Proof. scan_nolf. Qed.
Lemma scan_close_code_fence_before_cr l m : scan_close_code_fence (l ++ [x0d]) = Some m -> m <= List.length l.
Proof. scan_nolf. Qed.

(* the slice line[k..] of a line l ++ [b] with k inside l still ends with b *)
Lemma skipn_app_last {A} (l : list A) (b : A) k : k <= List.length l -> skipn k (l ++ [b]) = skipn k l ++ [b].
Proof. intro H. rewrite skipn_app. replace (k - List.length l) with 0 by lia. reflexivity. Qed.

(* ================================================================== B. a match is not empty *)
Lemma scan_min_len k rules s m :
  forallb is_cursor_rule rules = true ->
  forallb (fun x => Nat.leb k (min_len (rule_head x))) rules = true ->
  as_opt_usize (run_rules rules ActNone 0 s) = Some m -> k <= m.
Proof.
  intros Hr Hk H. destruct (run_rules_cursor_head _ _ _ Hr H) as (_ & x & Hin & M).
  rewrite forallb_forall in Hk. specialize (Hk _ Hin). apply Nat.leb_le in Hk.
  apply min_len_le in M. pose proof (firstn_le_length m s). lia.
Qed.

Ltac scan_ge := let H := fresh "H" in intro H; eapply scan_min_len; [| |exact H]; vm_compute; reflexivity.

Lemma scan_open_mbq_fence_ge s m : scan_open_multiline_block_quote_fence s = Some m -> 3 <= m.
Proof. scan_ge. Qed.
Lemma scan_close_mbq_fence_ge s m : scan_close_multiline_block_quote_fence s = Some m -> 3 <= m.
Proof. scan_ge. Qed.
Lemma scan_description_item_start_ge s m : scan_description_item_start s = Some m -> 2 <= m.
Proof. scan_ge. Qed.
Lemma scan_footnote_definition_ge s m : scan_footnote_definition s = Some m -> 5 <= m.
Proof. scan_ge. Qed.
Lemma scan_open_code_fence_ge s m : scan_open_code_fence s = Some m -> 3 <= m.
Proof. scan_ge. Qed.
Lemma scan_close_code_fence_ge s m : scan_close_code_fence s = Some m -> 3 <= m.
Proof. scan_ge. Qed.
Lemma scan_atx_heading_start_ge s m : scan_atx_heading_start s = Some m -> 2 <= m.
Proof. scan_ge. Qed.
Lemma scan_table_start_ge s m : scan_table_start s = Some m -> 2 <= m.
Proof. scan_ge. Qed.

(* ================================================================== C. ATX headings *)
Lemma atx_heading_level rest m :
  scan_atx_heading_start rest = Some m ->
  exists p level, position_hash rest = Some p /\ count_hashes (skipn p rest) = Ok level /\
                  1 <= level <= 6 /\ Nat.ltb 255 level = false.
Proof.
  intro Sc. pose proof (atx_level_1_6 _ _ Sc) as (k & ws & tl & E & Hk & _ & Hws).
  assert (exists c ws', ws = c :: ws' /\ beqb c x23 = false) as (c & ws' & -> & Hc).
  { destruct Hws as [[Hne Hf] | [c [-> Hc]]].
    - destruct ws as [|c ws']; [congruence|]. exists c, ws'. split; [reflexivity|].
      inversion Hf; subst. match goal with H : is_sp_tab c |- _ => destruct H; subst; reflexivity end.
    - exists c, []. split; [reflexivity|]. destruct Hc; subst; reflexivity. }
  exists 0, k. subst rest. split.
  - destruct k as [|k]; [lia|]. cbn [repeat app position_hash].
    replace (beqb x23 x23) with true by reflexivity. reflexivity.
  - split; [|split; [exact Hk | apply Nat.ltb_ge; lia]].
    cbn [skipn]. exact (count_hashes_repeat k (ws' ++ tl) c Hc).
Qed.

(* ================================================================== D. alerts *)
(* every match of r contains the byte b *)
Fixpoint re_requires (b : byte) (r : re) : bool :=
  match r with
  | Empty => true
  | Eps => false
  | Chr cs => forallb (fun c => implb (cs_mem cs c) (beqb c b)) all_bytes
  | Cat a c => re_requires b a || re_requires b c
  | Alt a c => re_requires b a && re_requires b c
  | Star _ => false
  end.

Lemma matches_requires b r s : matches r s -> re_requires b r = true -> In b s.
Proof.
  induction 1 as [|cs c Hc|a c s t _ IHa _ IHc|a c s _ IH|a c s _ IH| |a s t _ IHa _ IHs]; cbn [re_requires]; intros Hv;
    try discriminate Hv.
  - pose proof (forall_bytes _ Hv c) as G. cbn beta in G. rewrite Hc in G. cbn [implb] in G.
    apply beqb_eq in G. subst. left. reflexivity.
  - apply in_or_app. apply orb_true_iff in Hv. destruct Hv as [Hv|Hv]; [left; now apply IHa | right; now apply IHc].
  - apply andb_true_iff in Hv. destruct Hv as [Va _]. now apply IH.
  - apply andb_true_iff in Hv. destruct Hv as [_ Vc]. now apply IH.
Qed.

(* a block of plain rules (any actions) whose regexes all require b: when a rule fires, b occurs in the input *)
Lemma run_rules_requires b rules d s :
  forallb is_plain rules = true ->
  forallb (fun x => re_requires b (rule_re x)) rules = true ->
  run_rules rules d 0 s = mkOutcome d 1 0 \/ In b s.
Proof.
  intros Hp Hq. destruct (run_rules_plain rules d s Hp) as [[E _]|(r & a & L & Hin & Hl & _)]; [left; exact E | right].
  rewrite forallb_forall in Hq. specialize (Hq _ Hin). cbn [rule_re] in Hq.
  apply longest_match_spec in Hl. destruct Hl as (_ & M & _).
  rewrite <- (firstn_skipn L s). apply in_or_app. left. exact (matches_requires _ _ _ M Hq).
Qed.

Lemma scan_alert_start_rbracket_in s ty : scan_alert_start s = Some ty -> In x5d s.
Proof.
  unfold scan_alert_start. change pad_alert_start with 0. change default_alert_start with ActNone.
  destruct (run_rules_requires x5d rules_alert_start ActNone s) as [E|I]; [vm_compute; reflexivity | vm_compute; reflexivity | | intros _; exact I].
  rewrite E. unfold as_opt_alert. cbn [o_act]. discriminate.
Qed.

Lemma first_occurrence (b : byte) : forall s, In b s ->
  exists k, nth_error s k = Some b /\ forall j, j < k -> nth_error s j <> Some b.
Proof.
  induction s as [|c s IH]; intros Hi; [destruct Hi|].
  destruct (beqb c b) eqn:Cb.
  - apply beqb_eq in Cb. subst. exists 0. split; [reflexivity | intros j Hj; lia].
  - apply beqb_neq in Cb. destruct Hi as [->|Hi]; [congruence|]. destruct (IH Hi) as (k & Hk & Hlt).
    exists (S k). split; [exact Hk|]. intros [|j] Hj; cbn [nth_error]; [congruence | apply Hlt; lia].
Qed.

Lemma scan_alert_start_rbracket s ty : scan_alert_start s = Some ty ->
  exists k, nth_error s k = Some x5d /\ (forall j, j < k -> nth_error s j <> Some x5d).
Proof. intro H. apply first_occurrence. exact (scan_alert_start_rbracket_in _ _ H). Qed.

Lemma nth_error_skipn_add {A} : forall (l : list A) p k, nth_error (skipn p l) k = nth_error l (p + k).
Proof.
  induction l as [|a l IH]; intros [|p] k; cbn [skipn Nat.add]; try reflexivity.
  - destruct k; reflexivity.
  - cbn [nth_error]. apply IH.
Qed.

(* the loop `while line[title_startpos] != ']'` stops on the first ']' at or after pos *)
Lemma alert_title_loop_finds line : forall k fuel pos fl,
  nth_error line (pos + k) = Some x5d -> (forall j, j < k -> nth_error line (pos + j) <> Some x5d) -> k < fuel ->
  exists fl', alert_title_loop fuel line pos fl = Ok (pos + k, fl').
Proof.
  induction k as [|k IH]; intros fuel pos fl Hk Hlt Hf; (destruct fuel as [|f]; [lia|]); cbn [alert_title_loop]; unfold idx.
  - rewrite Nat.add_0_r in *. rewrite Hk. cbn [bind]. rewrite beqb_refl. eexists; reflexivity.
  - pose proof (Hlt 0 ltac:(lia)) as H0. rewrite Nat.add_0_r in H0.
    destruct (nth_error line pos) as [b|] eqn:Eb.
    + cbn [bind]. destruct (beqb b x5d) eqn:Bb; [apply beqb_eq in Bb; subst; congruence|].
      destruct (IH f (S pos) (if beqb b x3e then S fl else fl)) as [fl' E].
      * rewrite <- Hk. f_equal. lia.
      * intros j Hj. replace (S pos + j) with (pos + S j) by lia. apply Hlt. lia.
      * lia.
      * exists fl'. rewrite E. f_equal. f_equal. lia.
    + exfalso. apply nth_error_None in Eb. assert (pos + S k < List.length line) by (apply nth_error_Some; congruence). lia.
Qed.

Lemma alert_title_loop_ok line pos ty :
  pos <= List.length line -> scan_alert_start (skipn pos line) = Some ty ->
  exists p fl, alert_title_loop (S (List.length line)) line pos 0 = Ok (p, fl) /\ pos <= p < List.length line.
Proof.
  intros _ Sc. destruct (scan_alert_start_rbracket _ _ Sc) as (k & Hk & Hlt).
  rewrite nth_error_skipn_add in Hk.
  assert (Hl : pos + k < List.length line) by (apply nth_error_Some; congruence).
  destruct (alert_title_loop_finds line k (S (List.length line)) pos 0 Hk) as [fl E].
  - intros j Hj. rewrite <- nth_error_skipn_add. now apply Hlt.
  - lia.
  - exists (pos + k), fl. split; [exact E | lia].
Qed.

(* ================================================================== E. thematic breaks *)
Lemma thematic_loop_some c : forall s i count j cnt nx,
  thematic_loop c s i count = (j, cnt, Some nx) ->
  exists n, j = S (i + n) /\ n < List.length s /\ cnt <= count + n.
Proof.
  induction s as [|a s IH]; intros i count j cnt nx H; cbn [thematic_loop] in H; [discriminate H|].
  destruct (beqb a c).
  - apply IH in H. destruct H as (n & -> & Hn & Hc). exists (S n). cbn [List.length]. repeat split; lia.
  - destruct (negb (beqb a x20) && negb (beqb a x09)).
    + inversion H; subst. exists 0. cbn [List.length]. repeat split; lia.
    + apply IH in H. destruct H as (n & -> & Hn & Hc). exists (S n). cbn [List.length]. repeat split; lia.
Qed.

Lemma scan_thematic_break_inner_true line fns off :
  scan_thematic_break_inner line fns = (off, true) -> 4 <= off /\ fns + off <= List.length line.
Proof.
  unfold scan_thematic_break_inner. destruct (skipn fns line) as [|c r] eqn:Sk; [discriminate|].
  assert (Hlen : List.length line - fns = S (List.length r)) by (rewrite <- skipn_length, Sk; reflexivity).
  destruct (negb (beqb c x2a) && negb (beqb c x5f) && negb (beqb c x2d)); [discriminate|].
  destruct (thematic_loop c r fns 1) as [[j cnt] [nx|]] eqn:T; [|discriminate].
  destruct (Nat.leb 3 cnt && (beqb nx x0d || beqb nx x0a)) eqn:C; [|discriminate].
  apply andb_true_iff in C. destruct C as [C _]. apply Nat.leb_le in C.
  apply thematic_loop_some in T. destruct T as (n & -> & Hn & Hc).
  intro H. assert (Eo : off = S (fns + n) - fns + 1) by congruence. lia.
Qed.

Lemma scan_thematic_break_inner_true_len line fns off :
  scan_thematic_break_inner line fns = (off, true) -> fns + 4 <= List.length line.
Proof. intro H. apply scan_thematic_break_inner_true in H. lia. Qed.
