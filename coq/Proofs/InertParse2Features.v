(* Proofs/InertParse2Features.v -- property C13 on the whole parser model, the three features Proofs/InertParseFeatures.v
   left open:

     footnotes               parse_footnotes_inert     (okle form: the block phase is only okle, Proofs/InertBlocks.v)
     spoiler                 parse_spoiler_inert       EQUALITY of the two runs of the whole parser
     front_matter_delimiter  parse_front_matter_inert  (okle form on arbitrary bytes);
                             parse_front_matter_inert_split / _spec: EQUALITY when the splitter / the line-based
                             specification of Props/C20.v finds no front matter (any delimiter)

   all three under the hypothesis of parse_inert_statement: the document has none of the FIRST bytes of the documented
   trigger strings (left bracket / vertical bar / hyphen).
   Under the documented trigger STRING the statement is false for spoiler (the two parse_spoiler_free_refuted theorems): two single
   bars (known class C13-c) and an apostrophe next to a bar (scanners.re table_spoiler is a two-byte CLASS: new class).
   Then the status lists: every feature is proved or refuted, none is open. *)
From Coq Require Import List NArith Arith Bool Lia Strings.String.
From V Require Import Base.Bytes Base.Res Model.Ast Model.Strings Model.RefDef Model.Blocks Model.Inlines Model.Footnotes
  Model.Parse Model.Html Model.FrontMatter Spec.FrontMatterSpec Proofs.InertRegex Proofs.InertBlocks Proofs.InertInlines
  Proofs.InertFeatures Proofs.InertParse Proofs.InertParseContent Proofs.InertParseFeatures Spec.Triggers
  Proofs.ParserShapeBlocks Proofs.ParserShapeBlocksRead Proofs.ParserShapeAttach Proofs.ParseProofs
  Proofs.InertParse2Blocks Proofs.InertParse2Fn.
From V Require Spec.EscapeSpec.
Import ListNotations.
Local Open Scope string_scope.
Local Open Scope list_scope.

(* ================================================================== composition with an equal block phase *)
Theorem parse_compose_eq2 o1 o2 u x :
  parse_blocks (bopts_of o1 u) x = parse_blocks (bopts_of o2 u) x ->
  (forall r, parse_blocks (bopts_of o2 u) x = Ok r ->
     after_blocks o1 u (br_root r) (br_refmap r) (br_max_ref_size r)
     = after_blocks o2 u (br_root r) (br_refmap r) (br_max_ref_size r)) ->
  parse_document_model o1 u x = parse_document_model o2 u x.
Proof.
  intros HB HA. unfold parse_document_model. rewrite HB.
  destruct (parse_blocks (bopts_of o2 u) x) as [r| |] eqn:E; cbn [bind]; try reflexivity.
  apply HA. reflexivity.
Qed.

(* ================================================================== footnotes *)
Lemma run_inlines_gen_clean io u c lo sl refmap maxref rs ch rs' :
  io_footnotes io = false ->
  run_inlines_gen true io u c lo sl refmap maxref rs = Ok (Done ch rs') -> forallb nfr_tree ch = true.
Proof.
  intros Hfn H. unfold run_inlines_gen in H. cbv zeta in H.
  destruct (has_nul (rtrim_slice c)); [discriminate H |].
  destruct (parse_inlines true io u (rtrim_slice c) lo sl refmap maxref rs) as [[ch0 r0]| |] eqn:E;
    cbn [bind fst snd] in H; try discriminate H.
  inversion H; subst. eapply nfr_parse_inlines; eassumption.
Qed.

Lemma run_leaves_clean io u refmap maxref : io_footnotes io = false -> forall l rs tbl,
  run_leaves io u refmap maxref l rs = Ok tbl -> forall p ch, In (p, ch) tbl -> forallb nfr_tree ch = true.
Proof.
  intro Hfn. induction l as [|[p0 i] r IH]; intros rs tbl H p ch Hin; cbn [run_leaves] in H.
  - inversion H; subst. destruct Hin.
  - destruct (run_inlines_gen true io u (bi_content i) (map N.of_nat (bi_lo i)) (N.of_nat (bi_sl i)) refmap maxref rs)
      as [[ch0 rs0|w]| |] eqn:E; cbn [bind] in H; try discriminate H.
    destruct (run_leaves io u refmap maxref r rs0) as [rest| |] eqn:R; cbn [bind] in H; try discriminate H.
    inversion H; subst. destruct Hin as [Hin | Hin].
    + inversion Hin; subst. eapply run_inlines_gen_clean; eassumption.
    + eapply IH; eassumption.
Qed.

Lemma inl_lookup_clean tbl :
  (forall p ch, In (p, ch) tbl -> forallb nfr_tree ch = true) -> forall p, forallb nfr_tree (inl_lookup tbl p) = true.
Proof.
  intros H p. unfold inl_lookup.
  assert (forall ch, passoc tbl p = Some ch -> forallb nfr_tree ch = true) as K.
  { induction tbl as [|[q a] r IH]; intros ch E; cbn [passoc] in E; [discriminate E |].
    destruct (path_eqb q p).
    - inversion E; subst. apply (H q ch). left. reflexivity.
    - apply IH; [| exact E]. intros p' ch' Hin. apply (H p' ch'). right. exact Hin. }
  destruct (passoc tbl p) as [ch|]; [apply K; reflexivity | reflexivity].
Qed.

Lemma attach_clean inl : (forall p, forallb nfr_tree (inl p) = true) ->
  forall t path, nfr_tree t = true -> nfr_tree (attach inl path t) = true.
Proof.
  intro Hi. induction t as [v sp ch IH] using node_ind2. intros path H.
  apply nfr_tree_node in H. destruct H as [Hv Hc]. rewrite attach_node.
  destruct (inline_leaf v); apply nfr_tree_node; (split; [exact Hv |]); [apply Hi |].
  apply (attach_kids_forallb inl path nfr_tree nfr_tree); [| exact Hc].
  revert IH. apply Forall_impl. intros c Hc' p Hq. apply Hc'. exact Hq.
Qed.

(* the values the block phase creates without the footnotes extension *)
Lemma nall_clean o : bo_footnotes o = false -> forall n, nall (bvok o) n = true -> nfr_tree n = true.
Proof.
  intro F. induction n as [v sp ch IH] using node_ind2. intro V. cbn [nall] in V. apply andb_true_iff in V.
  destruct V as [Vv Vk]. apply nfr_tree_node. split.
  - destruct v; try reflexivity; cbn in Vv; congruence.
  - apply forallb_forall. intros c Hc. rewrite Forall_forall in IH. apply IH; [exact Hc |].
    rewrite forallb_forall in Vk. now apply Vk.
Qed.

(* the tree the footnote pass receives *)
Theorem inline_phase_clean o u x r t1 :
  po_footnotes o = false -> parse_blocks (bopts_of o u) x = Ok r ->
  inline_phase o u (br_root r) (br_refmap r) (br_max_ref_size r) = Ok t1 -> nfr_tree t1 = true.
Proof.
  intros F HB H. unfold inline_phase in H.
  destruct (run_leaves (iopts_of o) u (br_refmap r) (br_max_ref_size r) (bleaves [] (br_root r)) 0%N) as [tbl| |] eqn:R;
    cbn [bind] in H; try discriminate H.
  inversion H; subst. rewrite p_attach_eq. apply attach_clean.
  - apply inl_lookup_clean. eapply run_leaves_clean; [| exact R]. exact F.
  - apply (nall_clean (bopts_of o u)); [exact F |]. eapply parse_blocks_values. exact HB.
Qed.

Theorem footnote_phase_clean o u t : nfr_tree t = true -> footnote_phase o u t = t.
Proof. intro H. unfold footnote_phase. destruct (po_footnotes o); [apply process_clean; exact H | reflexivity]. Qed.

Theorem parse_footnotes_inert : parse_inert_statement Triggers.Footnotes.
Proof.
  intros o u x. revert o u. intros o u t Hx.
  assert (HB : okle (parse_blocks (bopts_of (po_with Triggers.Footnotes true o) u) x)
                    (parse_blocks (bopts_of (po_with Triggers.Footnotes false o) u) x)).
  { rewrite !bopts_of_footnotes. apply footnotes_blocks_inert.
    apply (free_heads_nob Triggers.Footnotes); [left; reflexivity | exact Hx]. }
  revert t. apply parse_compose_okle; [exact HB |].
  intros r Hr. apply after_blocks_ext.
  - intros p i Hin rs. rewrite !iopts_of_with. apply run_inlines_gen_inert.
    eapply leaf_free_of_heads; eassumption.
  - intros t1 Ht1.
    assert (nfr_tree t1 = true) as C.
    { eapply (inline_phase_clean (po_with Triggers.Footnotes false o)); [reflexivity | apply HB; exact Hr | exact Ht1]. }
    rewrite !footnote_phase_clean by exact C. reflexivity.
  - constructor; reflexivity.
Qed.

(* ================================================================== spoiler *)
Lemma bopts_of_spoiler v o u : bopts_of (po_with Triggers.Spoiler v o) u = bo_with_spoiler v (bopts_of o u).
Proof. reflexivity. Qed.

Theorem parse_spoiler_inert : parse_inert_eq_statement Triggers.Spoiler.
Proof.
  intros o u x Hx.
  apply parse_compose_eq2.
  - rewrite !bopts_of_spoiler. apply spoiler_blocks_inert.
    apply (free_heads_nob Triggers.Spoiler); [left; reflexivity | exact Hx].
  - intros r Hr. apply after_blocks_ext.
    + intros p i Hin rs. rewrite !iopts_of_with. apply run_inlines_gen_inert.
      eapply leaf_free_of_heads; eassumption.
    + intros t1 _. apply footnote_phase_same. reflexivity.
    + constructor; reflexivity.
Qed.

(* under the documented trigger string (two bars) the statement is false *)
Definition parse_inert_free_statement (F : feature) : Prop :=
  forall o u x t, free_of F x = true ->
    parse_document_model (po_with F true o) u x = Ok t -> parse_document_model (po_with F false o) u x = Ok t.

Definition parse_free_witness (F : feature) (o : popts) (d : bytes) : Prop :=
  free_of F d = true /\
  exists t1 t2, parse_document_model (po_with F true o) u_id d = Ok t1 /\
                parse_document_model (po_with F false o) u_id d = Ok t2 /\ nkinds t1 <> nkinds t2.

Lemma parse_free_witness_refutes F o d : parse_free_witness F o d -> ~ parse_inert_free_statement F.
Proof.
  intros (Hf & t1 & t2 & E1 & E2 & D) H. specialize (H o u_id d t1 Hf E1). rewrite E2 in H.
  inversion H; subst. apply D. reflexivity.
Qed.

Definition single_bar_witness : bytes := Eval compute in B "|_|_".
Definition quote_bar_witness : bytes := Eval compute in B "a'|b" ++ [x0a] ++ B "-|-" ++ [x0a].

(* known class C13-c: every run of bars is a delimiter *)
Theorem parse_spoiler_free_refuted_single_bar : ~ parse_inert_free_statement Triggers.Spoiler.
Proof. apply (parse_free_witness_refutes _ po_none single_bar_witness). witness. Qed.

(* new class: an apostrophe next to a bar is a `table_spoiler` for the row scanner *)
Theorem parse_spoiler_free_refuted_quote_bar :
  parse_free_witness Triggers.Spoiler (po_with Triggers.Table true po_none) quote_bar_witness.
Proof. witness. Qed.

(* ================================================================== front matter *)
Definition po_with_fm (d : option bytes) (o : popts) : popts :=
  mkPO (po_table o) (po_footnotes o) (po_description_lists o) (po_multiline_block_quotes o)
      (po_alerts o) (po_spoiler o) (po_greentext o) (po_ignore_setext o) d
      (po_default_info_string o) (po_autolink o) (po_strikethrough o) (po_subscript o) (po_superscript o)
      (po_underline o) (po_math_dollars o) (po_math_code o) (po_wikilinks_after o) (po_wikilinks_before o)
      (po_tasklist o) (po_smart o) (po_relaxed_autolinks o) (po_relaxed_tasklist o) (po_escaped_char_spans o)
      (po_ignore_empty_links o).

Lemma po_with_front_matter v o : po_with Triggers.FrontMatter v o = po_with_fm (if v then Some fm_delim else None) o.
Proof. reflexivity. Qed.

Lemma bopts_of_fm d o u : bopts_of (po_with_fm d o) u = bo_with_front_matter d (bopts_of o u).
Proof. reflexivity. Qed.

Lemma after_blocks_fm d d' o u root refmap maxref :
  after_blocks (po_with_fm d o) u root refmap maxref = after_blocks (po_with_fm d' o) u root refmap maxref.
Proof. reflexivity. Qed.

(* any delimiter: the splitter finds no front matter *)
Theorem parse_front_matter_inert_split d o u x :
  split_off_front_matter x d = Ok None ->
  parse_document_model (po_with_fm (Some d) o) u x = parse_document_model (po_with_fm None o) u x.
Proof.
  intro H. apply parse_compose_eq2.
  - rewrite !bopts_of_fm. apply front_matter_blocks_inert. exact H.
  - intros r _. apply after_blocks_fm.
Qed.

(* ... the line-based specification finds none (on every Rust str the splitter is that specification) *)
Theorem parse_front_matter_inert_spec d o u x :
  EscapeSpec.utf8_valid x = true -> delim_ok d = true -> first_line_is d x = false ->
  parse_document_model (po_with_fm (Some d) o) u x = parse_document_model (po_with_fm None o) u x.
Proof.
  intros U D F. apply parse_compose_eq2.
  - rewrite !bopts_of_fm. apply front_matter_blocks_inert_first_line; assumption.
  - intros r _. apply after_blocks_fm.
Qed.

(* ... some byte of the delimiter does not occur in the document (arbitrary bytes: the splitter may panic) *)
Theorem parse_front_matter_inert_missing_byte d t o u x :
  In t d -> nob t x ->
  okle (parse_document_model (po_with_fm (Some d) o) u x) (parse_document_model (po_with_fm None o) u x).
Proof.
  intros Ht Hx. apply parse_compose_okle.
  - rewrite !bopts_of_fm. eapply front_matter_blocks_inert_missing_byte; eassumption.
  - intros r _. apply after_blocks_fm.
Qed.

Theorem parse_front_matter_inert : parse_inert_statement Triggers.FrontMatter.
Proof.
  intros o u x t Hx. rewrite !po_with_front_matter.
  apply (parse_front_matter_inert_missing_byte fm_delim x2d); [left; reflexivity |].
  apply (free_heads_nob Triggers.FrontMatter); [left; reflexivity | exact Hx].
Qed.

(* ================================================================== the status lists, second round *)
Definition parse_inert_proved2 (F : feature) : bool :=
  parse_inert_proved F ||
  match F with Triggers.Footnotes | Triggers.Spoiler | Triggers.FrontMatter => true | _ => false end.
Definition parse_inert_refuted2 (F : feature) : bool := parse_inert_refuted F.
Definition parse_inert_open2 (F : feature) : bool := false.

Theorem parse_inert_partial2 : forall F, parse_inert_proved2 F = true -> parse_inert_statement F.
Proof.
  intros F H. destruct (parse_inert_proved F) eqn:P; [apply parse_inert_partial; exact P |].
  destruct F; try discriminate H; try discriminate P.
  - exact parse_footnotes_inert.
  - exact parse_front_matter_inert.
  - apply parse_inert_eq_okle. exact parse_spoiler_inert.
Qed.

Lemma parse_inert_proved2_extends : forall F, parse_inert_proved F = true -> parse_inert_proved2 F = true.
Proof. intros F H. unfold parse_inert_proved2. rewrite H. reflexivity. Qed.

Lemma parse_inert_open2_closed : forall F, parse_inert_open F = true -> parse_inert_proved2 F = true.
Proof. destruct F; intro H; try discriminate H; reflexivity. Qed.

Lemma parse_inert_status_complete2 : forall F, xorb (parse_inert_proved2 F) (parse_inert_refuted2 F) = true.
Proof. destruct F; reflexivity. Qed.

Lemma parse_inert_status_lists2 :
  filter parse_inert_proved2 all_features
  = [Triggers.Strikethrough; Triggers.Tagfilter; Triggers.Table; Triggers.Superscript; Triggers.HeaderIds;
     Triggers.Footnotes; Triggers.FrontMatter; Triggers.MultilineBlockQuotes; Triggers.Alerts; Triggers.MathDollars;
     Triggers.MathCode; Triggers.WikilinksAfterPipe; Triggers.WikilinksBeforePipe; Triggers.Underline;
     Triggers.Subscript; Triggers.Spoiler; Triggers.Smart] /\
  filter parse_inert_refuted2 all_features
  = [Triggers.Autolink; Triggers.Tasklist; Triggers.DescriptionLists; Triggers.Greentext; Triggers.RelaxedTasklist;
     Triggers.RelaxedAutolinks] /\
  filter parse_inert_open2 all_features = [].
Proof. repeat split; reflexivity. Qed.

(* the HTML corollary for the larger list *)
Theorem html_inert_partial2 F slug ro o u x h :
  parse_inert_proved2 F = true -> free_of_heads F x = true ->
  md_html slug ro (po_with F true o) u x = Ok h -> md_html slug ro (po_with F false o) u x = Ok h.
Proof. intro HF. apply html_inert_okle. apply parse_inert_partial2. exact HF. Qed.

Theorem html_spoiler_inert slug ro o u x :
  free_of_heads Triggers.Spoiler x = true ->
  md_html slug ro (po_with Triggers.Spoiler true o) u x = md_html slug ro (po_with Triggers.Spoiler false o) u x.
Proof. intro Hx. unfold md_html. rewrite (parse_spoiler_inert o u x Hx). reflexivity. Qed.

(* ================================================================== non-vacuity *)
Definition fn_free_doc : bytes := Eval compute in B "> *a* b" ++ [x0a; x0a] ++ B "- c" ++ [x0a].
Definition fn_doc : bytes := Eval compute in B "a[^x]" ++ [x0a; x0a] ++ B "[^x]: n" ++ [x0a].

Example parse_inert2_nonvacuous :
  (free_of_heads Triggers.Footnotes fn_free_doc = true /\
   exists t, parse_document_model (po_with Triggers.Footnotes true po_none) u_id fn_free_doc = Ok t /\
             parse_document_model (po_with Triggers.Footnotes false po_none) u_id fn_free_doc = Ok t) /\
  (free_of_heads Triggers.Footnotes fn_doc = false /\
   res_map nkinds (parse_document_model (po_with Triggers.Footnotes true po_none) u_id fn_doc)
   <> res_map nkinds (parse_document_model (po_with Triggers.Footnotes false po_none) u_id fn_doc)).
Proof.
  split.
  - split; [vm_compute; reflexivity |]. eexists. split; vm_compute; reflexivity.
  - split; [vm_compute; reflexivity |]. vm_compute. intro K. discriminate K.
Qed.
