(* Proofs/LeafPremPreface.v — C01, the premises of the inline phase, part 11: ALS (every line non-blank) of the paragraph
   try_inserting_table_header_paragraph makes of the preface of a table: a prefix of the paragraph content that ends
   with a LF, `unescape_pipes` (only backslashes in front of a pipe disappear), `trim`. *)
From Coq Require Import List NArith Arith Bool Lia Strings.String.
From V Require Import Base.Bytes Base.Res Gen.StrLeafGen Model.Ast Model.Strings Model.AutolinkLeaf Spec.EscapeSpec Model.RefDef Model.Blocks
  Proofs.StrLeafProofs Proofs.BlocksProofs Proofs.BlocksTotal6Val Proofs.LeafPremBytes Proofs.LeafPremBlank.
Import ListNotations.
Local Open Scope list_scope.

Notation u := unescape_pipes.

(* ------------------------------------------------------------------ is_blank *)
Lemma nonblank_cons_sp b r : sl_isspace b = false -> is_blank (b :: r) = false.
Proof. intro H. cbn [is_blank]. destruct b; try discriminate H; reflexivity. Qed.

Lemma isspace_blank : forall q, forallb sl_isspace q = true -> is_blank q = true.
Proof.
  induction q as [|e q IH]; intro H; [reflexivity|]. cbn [forallb] in H. apply andb_true_iff in H as [H1 H2].
  cbn [is_blank]. destruct (is_line_end_char e) eqn:L; [reflexivity|].
  assert (is_space_or_tab e = true) as -> by (destruct e; try discriminate H1; try discriminate L; reflexivity). now apply IH.
Qed.

Lemma is_blank_app_ws_r q : forallb sl_isspace q = true -> forall a, is_blank (a ++ q) = false -> is_blank a = false.
Proof.
  intros W. induction a as [|x a IH]; cbn [app is_blank]; intro H.
  - rewrite (isspace_blank _ W) in H. discriminate H.
  - destruct (is_line_end_char x); [discriminate H|]. destruct (is_space_or_tab x); [now apply IH | reflexivity].
Qed.

Lemma is_blank_prefix_lf : forall p rest, is_blank (p ++ x0a :: rest) = false -> is_blank (p ++ [x0a]) = false.
Proof.
  induction p as [|x p IH]; intros rest H; cbn [app is_blank] in *; [discriminate H|].
  destruct (is_line_end_char x); [discriminate H|]. destruct (is_space_or_tab x); [eapply IH; exact H | reflexivity].
Qed.

(* ------------------------------------------------------------------ line starts of a suffix *)
Lemma LS_skipn_pos y n k : 0 < k -> LS (skipn n y) k -> LS y (n + k).
Proof.
  intros Hk [->|[H|(j & -> & N)]]; [lia| |].
  - right. left. rewrite skipn_length in H. lia.
  - right. right. exists (n + j). split; [lia|]. now rewrite <- nth_error_skipn'.
Qed.

Lemma ALS_skipn_nb y n : ALS y -> (skipn n y = [] \/ is_blank (skipn n y) = false) -> ALS (skipn n y).
Proof.
  intros A H0 k Hk. destruct k as [|k]; [exact H0|].
  rewrite skipn_add. apply A. apply LS_skipn_pos; [lia | exact Hk].
Qed.

Lemma drop_while_suffix (f : byte -> bool) : forall l, exists n, drop_while f l = skipn n l.
Proof.
  induction l as [|a l [n IH]]; [exists 0; reflexivity|]. cbn [drop_while]. destruct (f a); [exists (S n); exact IH | exists 0; reflexivity].
Qed.

Lemma drop_while_head (f : byte -> bool) : forall l, drop_while f l = [] \/ exists b r, drop_while f l = b :: r /\ f b = false.
Proof.
  induction l as [|a l IH]; [now left|]. cbn [drop_while]. destruct (f a) eqn:E; [exact IH | right; exists a, l; split; [reflexivity | exact E]].
Qed.

Lemma ALS_ltrim y : ALS y -> ALS (ltrim_slice y).
Proof.
  intro A. unfold ltrim_slice. destruct (drop_while_suffix sl_isspace y) as [n E].
  destruct (drop_while_head sl_isspace y) as [Z|(b & r & Eb & Nb)]; rewrite E in *.
  - rewrite Z. apply ALS_nil.
  - apply ALS_skipn_nb; [exact A|]. right. rewrite Eb. apply nonblank_cons_sp. exact Nb.
Qed.

Lemma ALS_rtrim z : ALS z -> ALS (rtrim_slice z).
Proof.
  intros A k Hk.
  assert (S : exists q, z = rtrim_slice z ++ q /\ allws q = true).
  { clear. induction z as [|b r IH] using rev_ind; [exists []; split; reflexivity|].
    destruct (sl_isspace b) eqn:E.
    - rewrite rtrim_app_ws by (cbn; now rewrite E). destruct IH as (q & Eq & Wq).
      exists (q ++ [b]). split; [rewrite app_assoc, <- Eq; reflexivity|]. unfold allws in *. rewrite forallb_app, Wq. cbn. now rewrite E.
    - rewrite rtrim_app_nws by (cbn; now rewrite E). unfold rtrim_slice at 1. cbn [rev app drop_while]. rewrite E. cbn [rev app].
      exists []. split; [now rewrite app_nil_r | reflexivity]. }
  destruct S as (q & Ez & Wq). set (rt := rtrim_slice z) in *.
  destruct (Nat.lt_ge_cases k (List.length rt)) as [Lt|Ge]; [|left; now apply skipn_all2].
  assert (Hz : LS z k).
  { destruct Hk as [->|[H|(j & -> & N)]]; [now left | lia|]. right. right. exists j. split; [reflexivity|].
    rewrite Ez, nth_error_app1 by lia. exact N. }
  destruct (A k Hz) as [E|E].
  - exfalso. assert (List.length (skipn k z) = 0) by (now rewrite E). rewrite skipn_length, Ez, app_length in H. lia.
  - right. rewrite Ez, skipn_app in E. replace (k - List.length rt) with 0 in E by lia. cbn [skipn] in E.
    eapply is_blank_app_ws_r; [exact Wq | exact E].
Qed.

Lemma ALS_trim y : ALS y -> ALS (trim_slice y).
Proof. intro A. unfold trim_slice. now apply ALS_rtrim, ALS_ltrim. Qed.

(* ------------------------------------------------------------------ a prefix that ends with a LF *)
Lemma ALS_prefix_lf p rest : ALS ((p ++ [x0a]) ++ rest) -> ALS (p ++ [x0a]).
Proof.
  intros A k Hk. set (x := p ++ [x0a]) in *.
  destruct (Nat.lt_ge_cases k (List.length x)) as [Lt|Ge]; [|left; now apply skipn_all2].
  assert (Hc : LS (x ++ rest) k).
  { destruct Hk as [->|[H|(j & -> & N)]]; [now left | lia|]. right. right. exists j. split; [reflexivity|].
    rewrite nth_error_app1 by lia. exact N. }
  destruct (A k Hc) as [E|E].
  - exfalso. assert (List.length (skipn k (x ++ rest)) = 0) by (now rewrite E). rewrite skipn_length, app_length in H. lia.
  - right. rewrite skipn_app in E. replace (k - List.length x) with 0 in E by lia. cbn [skipn] in E.
    (* skipn k x = p' ++ [LF] *)
    assert (Ex : skipn k x = skipn k p ++ [x0a]).
    { unfold x. rewrite skipn_app. unfold x in Lt. rewrite app_length in Lt. cbn [List.length] in Lt.
      replace (k - List.length p) with 0 by lia. reflexivity. }
    rewrite Ex in *. rewrite <- app_assoc in E. cbn [app] in E. eapply is_blank_prefix_lf. exact E.
Qed.

(* ------------------------------------------------------------------ unescape_pipes *)
Lemma is_blank_unescape : forall s, is_blank s = false -> is_blank (u s) = false.
Proof.
  induction s as [|c r IH]; [discriminate|]. intro H. cbn [is_blank] in H. cbn [unescape_pipes].
  destruct (is_line_end_char c) eqn:L; [discriminate H|].
  destruct (is_space_or_tab c) eqn:S.
  - assert (beqb c x5c = false) as -> by (destruct c; try discriminate S; reflexivity). cbn [andb is_blank]. rewrite L, S. now apply IH.
  - destruct (beqb c x5c && match r with d :: _ => beqb d x7c | [] => false end) eqn:B.
    + apply andb_true_iff in B as [_ B]. destruct r as [|d r']; [discriminate B|]. apply beqb_eq in B. subst d.
      cbn [unescape_pipes]. change (beqb x7c x5c) with false. cbn [andb is_blank]. reflexivity.
    + cbn [is_blank]. now rewrite L, S.
Qed.

Lemma LS_unescape : forall s k, LS (u s) k ->
  k = 0 \/ List.length (u s) <= k \/ exists a b, s = a ++ x0a :: b /\ skipn k (u s) = u b.
Proof.
  induction s as [|c r IH]; intros k Hk; [destruct Hk as [->|[H|(j & -> & N)]]; [now left | right; now left | now destruct j]|].
  cbn [unescape_pipes] in *.
  destruct (beqb c x5c && match r with d :: _ => beqb d x7c | [] => false end) eqn:B.
  - destruct (IH k Hk) as [->|[H|(a & b & -> & E)]]; [now left | right; now left|].
    right. right. exists (c :: a), b. split; [reflexivity | exact E].
  - destruct Hk as [->|[H|(j & -> & N)]]; [now left | right; now left|].
    destruct j as [|j].
    + cbn in N. inversion N; subst c. right. right. exists [], r. split; reflexivity.
    + cbn [nth_error] in N. assert (Hr : LS (u r) (S j)) by (right; right; exists j; split; [reflexivity | exact N]).
      destruct (IH (S j) Hr) as [Z|[H|(a & b & -> & E)]]; [discriminate Z | right; left; cbn [List.length]; lia|].
      right. right. exists (c :: a), b. split; [reflexivity | exact E].
Qed.

Lemma ALS_unescape s : ALS s -> ALS (u s).
Proof.
  intros A k Hk. destruct (LS_unescape s k Hk) as [->|[H|(a & b & -> & E)]].
  - cbn [skipn]. destruct (ALS_first _ A) as [->|N]; [now left | right; now apply is_blank_unescape].
  - left. now apply skipn_all2.
  - rewrite E. assert (Hs : LS (a ++ x0a :: b) (S (List.length a))).
    { right. right. exists (List.length a). split; [reflexivity|]. rewrite nth_error_app2, Nat.sub_diag by lia. reflexivity. }
    specialize (A _ Hs). replace (skipn (S (List.length a)) (a ++ x0a :: b)) with b in A.
    + destruct A as [->|N]; [now left | right; now apply is_blank_unescape].
    + change (a ++ x0a :: b) with (a ++ [x0a] ++ b). rewrite app_assoc.
      rewrite skipn_app. replace (S (List.length a)) with (List.length (a ++ [x0a])) by (rewrite app_length; cbn; lia).
      now rewrite skipn_all, Nat.sub_diag.
Qed.

Theorem ALS_preface c po p : ALS c -> firstn po c = p ++ [x0a] -> ALS (trim_slice (u (firstn po c))).
Proof.
  intros A E. apply ALS_trim, ALS_unescape. rewrite E. apply (ALS_prefix_lf p (skipn po c)). rewrite <- E, firstn_skipn. exact A.
Qed.
