(* Proofs/BlocksNestRun.v — C11 for the block phase, part 3: the invariant XI of Proofs/BlocksNest.v through the handlers of
   open_new_blocks, add_text_to_container, process_line, run_lines, the front matter prologue and parse_blocks; the
   statements on the public tree; witnesses for what is false.

   The bundle carried from the handlers upward:
     W o ex L s st  :=  TI o ex st (distinct identifiers below ps_next, table shape, values)  /\  SV st (containment)
                        /\  XI o L s st.
   TI and SV are taken from Proofs/ParserShapeTables.v and Proofs/BlocksProofs.v; only XI is proved here. *)
From Coq Require Import List NArith Arith Bool Lia Strings.String.
From V Require Import Base.Bytes Base.Res Gen.StrLeafGen Gen.FeedConst Gen.Nodes Gen.BlocksConst Model.Ast Model.Strings
  Model.Feed Model.FrontMatter Model.RefDef Model.Scan Model.Blocks Spec.Shape Spec.HtmlSpec Spec.Valid
  Proofs.FeedProofs Proofs.BlocksProofs Proofs.BlocksCursor
  Proofs.ParserShapeBlocks Proofs.ParserShapeTree Proofs.ParserShapeTabPrim Proofs.ParserShapeTables
  Proofs.ParserShapeTablesRead Proofs.BlocksNest Proofs.BlocksNestTab.
Import ListNotations.
Local Open Scope string_scope.
Local Open Scope list_scope.

(* ================================================================== the handlers: XI alone *)
Section handlers.
Variables (o : bopts) (L s : nat).
Hypothesis HL : 1 <= L.

Lemma handle_alert_xi st c line ind b c' st' : handle_alert o st c line ind = Ok (b, c', st') -> XI o L s st -> XI o L s st'.
Proof. unfold handle_alert. intros H P. xigo H. Qed.
Lemma handle_mbq_xi st c line ind b c' st' : handle_multiline_blockquote o st c line ind = Ok (b, c', st') -> XI o L s st -> XI o L s st'.
Proof. unfold handle_multiline_blockquote, rest_at_fns. intros H P. xigo H. Qed.
Lemma handle_blockquote_xi st c line ind b c' st' : handle_blockquote o st c line ind = Ok (b, c', st') -> XI o L s st -> XI o L s st'.
Proof. unfold handle_blockquote. intros H P. xigo H. Qed.
Lemma handle_atx_xi st c line ind b c' st' : handle_atx_heading o st c line ind = Ok (b, c', st') -> XI o L s st -> XI o L s st'.
Proof.
  unfold handle_atx_heading, rest_at_fns. intros H P. mon H; monall; repeat match goal with p : (_ * _)%type |- _ => destruct p end; cbn [fst snd] in *; eauto with xi.
  eapply add_child_gen_xi; [eassumption | exact HL | | constructor | eauto with xi].
  intros i Ev _ Hi. split; [|reflexivity]. destruct i. unfold Q, Qa, Qb in *. cbn in *. subst. cbn in *.
  destruct Hi as [[A B] _]. repeat split; auto. intro Vp; discriminate Vp.
Qed.
Lemma handle_code_fence_xi st c line ind b c' st' : handle_code_fence o st c line ind = Ok (b, c', st') -> XI o L s st -> XI o L s st'.
Proof. unfold handle_code_fence, rest_at_fns. intros H P. xigo H. Qed.
Lemma handle_html_block_xi st c line ind b c' st' : handle_html_block o st c line ind = Ok (b, c', st') -> XI o L s st -> XI o L s st'.
Proof. unfold handle_html_block, rest_at_fns. intros H P. xigo H. Qed.
Lemma handle_footnote_xi st c line ind d b c' st' : handle_footnote o st c line ind d = Ok (b, c', st') -> XI o L s st -> XI o L s st'.
Proof. unfold handle_footnote, rest_at_fns. intros H P. xigo H. Qed.
Lemma list_spaces_loop_xi line sc : forall fuel st st', list_spaces_loop fuel st line sc = Ok st' -> XI o L s st -> XI o L s st'.
Proof. induction fuel as [|f IH]; intros st st' H P; cbn [list_spaces_loop] in H; xigo H. Qed.
Hint Resolve list_spaces_loop_xi : xi.
Lemma handle_list_xi st c line ind d b c' st' : handle_list o st c line ind d = Ok (b, c', st') -> XI o L s st -> XI o L s st'.
Proof. unfold handle_list. intros H P. xigo H. Qed.
Lemma handle_code_block_xi st c line ind ml b c' st' : handle_code_block o st c line ind ml = Ok (b, c', st') -> XI o L s st -> XI o L s st'.
Proof. unfold handle_code_block. intros H P. xigo H. Qed.

Lemma is_paragraph_val c : is_paragraph c = true -> bval c = Paragraph.
Proof. unfold is_paragraph. destruct (bval c); try discriminate; reflexivity. Qed.

Lemma info_tn dl i i' ch :
  Q L s i' -> bi_sl i' = bi_sl i -> tn (Q L s) (rl dl) (BNode i ch) ->
  tn (Q L s) (rl dl) (BNode i' ch) /\ (forall j, rl dl j i -> rl dl j i').
Proof. intros A B C. exact (on_info_tn dl L s (fun _ => i') i ch A B C). Qed.

Lemma handle_setext_xi st c line ind b c' st' : handle_setext_heading o st c line ind = Ok (b, c', st') -> XI o L s st -> XI o L s st'.
Proof.
  unfold handle_setext_heading, rest_at_fns. intros H P.
  mstep H; [inversion H; subst; exact P|].
  destruct (get st c) as [cn| |] eqn:G; cbn [bind] in H; try discriminate H.
  destruct (is_paragraph cn) eqn:Pa; cbn [negb] in H; [|inversion H; subst; exact P].
  apply is_paragraph_val in Pa.
  mon H; monall; repeat match goal with p : (_ * _)%type |- _ => destruct p end; cbn [fst snd] in *; eauto 10 with xi;
  match goal with M1 : modify_info (st_refmap st _) _ _ = Ok ?s1 |- _ => assert (P1 : XI o L s s1) end;
  try (eapply modify_xi; [apply XI_st_refmap; exact P | eassumption |];
       intros nn Fn An; cbn [ps_root st_refmap] in Fn; rewrite (get_find _ _ _ G) in Fn; inversion Fn; subst nn;
       destruct cn as [i ch]; unfold bval in Pa; cbn [binf on_info] in *;
       cbv beta; apply info_tn; [|destruct i; reflexivity | exact An];
       pose proof (tn_binf _ _ _ An) as Qi; destruct i; unfold Q, Qa, Qb in *; cbn in *; subst; cbn in *;
       destruct Qi as [[A B] C]; repeat split; auto; try (intro Vp; discriminate Vp));
  eauto 10 with xi.
Qed.

Lemma handle_thematic_break_xi st c line ind am b c' st' :
  handle_thematic_break o st c line ind am = Ok (b, c', st') -> XI o L s st -> XI o L s st'.
Proof.
  unfold handle_thematic_break. intros H P.
  mon H; monall; repeat match goal with p : (_ * _)%type |- _ => destruct p end; cbn [fst snd] in *; eauto 10 with xi.
  match goal with A : add_child _ _ _ _ _ = Ok (_, ?s1) |- _ => assert (P1 : XI o L s s1) by eauto with xi end.
  match goal with M : modify_info ?s1 _ _ = Ok ?s2 |- _ => assert (P2 : XI o L s s2) end.
  { eapply modify_info_xi; [eassumption | | exact P1]. rewrite (proj1 P1).
    intros i [[A B] C]. split; [|reflexivity]. unfold Q, Qa, Qb, max1 in *. cbn [bi_sl bi_sc bi_el bi_val bi_lo set_end] in *.
    repeat split; auto. intros _. lia. }
  eauto with xi.
Qed.
End handlers.

(* ================================================================== the bundle *)
Definition W (o : bopts) (ex : list nat) (L s : nat) (st : pstate) : Prop := TI o ex st /\ SV st /\ XI o L s st.

Lemma W_st_cur o ex L s st c : W o ex L s st -> W o ex L s (st_cur st c). Proof. exact (fun H => H). Qed.
Lemma W_st_current o ex L s st c : W o ex L s st -> W o ex L s (st_current st c). Proof. exact (fun H => H). Qed.

Ltac wlift :=
  let V := fresh "V" in let S := fresh "SVh" in let X := fresh "X" in
  intros ? [V [S X]]; split; [|split]; [eauto with ti | eauto with sv | ].

Section handlers2.
Variables (o : bopts) (ex : list nat) (L : nat).
Hypothesis HL : 1 <= L.
Notation W0 := (W o ex L 0).

Lemma handle_alert_W st c line ind b c' st' : handle_alert o st c line ind = Ok (b, c', st') -> W0 st -> W0 st'.
Proof. wlift. eapply handle_alert_xi; eassumption. Qed.
Lemma handle_mbq_W st c line ind b c' st' : handle_multiline_blockquote o st c line ind = Ok (b, c', st') -> W0 st -> W0 st'.
Proof. wlift. eapply handle_mbq_xi; eassumption. Qed.
Lemma handle_blockquote_W st c line ind b c' st' : handle_blockquote o st c line ind = Ok (b, c', st') -> W0 st -> W0 st'.
Proof. wlift. eapply handle_blockquote_xi; eassumption. Qed.
Lemma handle_atx_W st c line ind b c' st' : handle_atx_heading o st c line ind = Ok (b, c', st') -> W0 st -> W0 st'.
Proof. wlift. eapply handle_atx_xi; eassumption. Qed.
Lemma handle_code_fence_W st c line ind b c' st' : handle_code_fence o st c line ind = Ok (b, c', st') -> W0 st -> W0 st'.
Proof. wlift. eapply handle_code_fence_xi; eassumption. Qed.
Lemma handle_html_block_W st c line ind b c' st' : handle_html_block o st c line ind = Ok (b, c', st') -> W0 st -> W0 st'.
Proof. wlift. eapply handle_html_block_xi; eassumption. Qed.
Lemma handle_setext_W st c line ind b c' st' : handle_setext_heading o st c line ind = Ok (b, c', st') -> W0 st -> W0 st'.
Proof. wlift. eapply handle_setext_xi; eassumption. Qed.
Lemma handle_thematic_break_W st c line ind am b c' st' : handle_thematic_break o st c line ind am = Ok (b, c', st') -> W0 st -> W0 st'.
Proof. wlift. eapply handle_thematic_break_xi; eassumption. Qed.
Lemma handle_footnote_W st c line ind d b c' st' : handle_footnote o st c line ind d = Ok (b, c', st') -> W0 st -> W0 st'.
Proof. wlift. eapply handle_footnote_xi; eassumption. Qed.
Lemma handle_list_W st c line ind d b c' st' : handle_list o st c line ind d = Ok (b, c', st') -> W0 st -> W0 st'.
Proof. wlift. eapply handle_list_xi; eassumption. Qed.
Lemma handle_code_block_W st c line ind ml b c' st' : handle_code_block o st c line ind ml = Ok (b, c', st') -> W0 st -> W0 st'.
Proof. wlift. eapply handle_code_block_xi; eassumption. Qed.

Lemma handle_description_list_W st c line ind b c' st' :
  handle_description_list o st c line ind = Ok (b, c', st') -> W0 st -> W0 st'.
Proof.
  wlift. unfold handle_description_list, rest_at_fns in *.
  match goal with H : _ = Ok (b, c', st') |- _ => rename H into HH end.
  mstep HH; [inversion HH; subst; assumption|].
  apply orb_false_iff in E. destruct E as [_ E]. apply negb_false_iff in E.
  mon HH; monall; repeat match goal with p : (_ * _)%type |- _ => destruct p end; cbn [fst snd] in *; try assumption;
  match goal with D : parse_desc_list_details _ _ _ _ = Ok (_, _, ?s1) |- _ =>
    assert (XI o L 0 s1) by (eapply parse_desc_list_details_xi; eassumption) end; eauto with xi.
Qed.

Hint Resolve handle_alert_W handle_mbq_W handle_blockquote_W handle_atx_W handle_code_fence_W
  handle_html_block_W handle_setext_W handle_thematic_break_W handle_footnote_W
  handle_description_list_W handle_list_W handle_code_block_W : wdb.

Lemma or_else_h_W (r : hres) k b c st st' :
  or_else_h r k = Ok (b, c, st') -> W0 st ->
  (forall b1 c1 s1, r = Ok (b1, c1, s1) -> W0 st -> W0 s1) ->
  (forall c1 s1 b2 c2 s2, k c1 s1 = Ok (b2, c2, s2) -> W0 s1 -> W0 s2) ->
  W0 st'.
Proof.
  unfold or_else_h. intros H P Hr Hk.
  destruct r as [[[b1 c1] s1]| |]; cbn [bind] in H; try discriminate H.
  destruct b1.
  - inversion H; subst. eapply Hr; [reflexivity | exact P].
  - eapply Hk; [exact H|]. eapply Hr; [reflexivity | exact P].
Qed.

Ltac chain_w :=
  match goal with
  | R : or_else_h _ _ = Ok _ |- W _ _ _ _ _ =>
    eapply (or_else_h_W _ _ _ _ _ _ R); clear R;
    [ eassumption | intros ? ? ? ? ?; eauto with wdb | intros ? ? ? ? ? R ?; cbv beta in R; chain_w ]
  | |- W _ _ _ _ _ => eauto with wdb
  end.

Lemma open_new_blocks_step_W st c line am ml d g c' st' :
  open_new_blocks_step o st c line am ml d = Ok (g, c', st') -> W0 st -> W0 st'.
Proof.
  intros H P. pose proof H as H0. unfold open_new_blocks_step in H.
  destruct (ffn st line) as [s0| |] eqn:F0; cbn [bind] in H; try discriminate H.
  assert (P0 : W0 s0) by (unfold ffn in F0; mon F0; exact P).
  match type of H with bind ?r _ = _ => destruct r as [[[hd c1] s1]| |] eqn:R; cbn [bind] in H; try discriminate H end.
  assert (P1 : W0 s1) by chain_w.
  clear R. destruct P as [V [SVh X]].
  split; [eauto with ti | split; [eauto with sv|]]. clear H0.
  destruct P1 as [V1 [S1 X1]].
  destruct hd.
  - xigo H.
  - destruct (negb (Nat.leb code_indent (indent s0)) && bo_table o) eqn:Tb.
    + destruct (try_opening_block o s1 c1 line) as [[tr s2]| |] eqn:TO; cbn [bind] in H; try discriminate H.
      assert (P2 : XI o L 0 s2) by (eapply try_opening_block_xi; eassumption).
      destruct tr; xigo H.
    + xigo H.
Qed.

Lemma open_new_blocks_loop_W line am : forall fuel st c ml d c' st',
  open_new_blocks_loop fuel o st c line am ml d = Ok (c', st') -> W0 st -> W0 st'.
Proof.
  induction fuel as [|f IH]; intros st c ml d c' st' H P; cbn [open_new_blocks_loop] in H; [discriminate H|].
  mon H; monall; repeat match goal with p : (_ * _)%type |- _ => destruct p end; cbn [fst snd] in *; try exact P;
  match goal with S1 : open_new_blocks_step _ _ _ _ _ _ _ = Ok _ |- _ => pose proof (open_new_blocks_step_W _ _ _ _ _ _ _ _ _ S1 P) end; eauto.
Qed.

Lemma open_new_blocks_W st c line am c' st' : open_new_blocks o st c line am = Ok (c', st') -> W0 st -> W0 st'.
Proof. unfold open_new_blocks. intros H P. mon H. eapply open_new_blocks_loop_W; eassumption. Qed.

(* add_text_to_container stores the line *)
Lemma add_text_to_container_xi st c lm line st' :
  add_text_to_container o st c lm line = Ok st' -> XI o L 0 st -> XI o L 1 st'.
Proof.
  unfold add_text_to_container. intros H P.
  assert (AL : forall st id line st', add_line st id line = Ok st' -> XI o L 0 st -> XI o L 1 st') by (intros; eapply add_line_xi; eassumption).
  (* the common prefix once, then the branches *)
  destruct (ffn st line) as [s1| |] eqn:E1; cbn [bind] in H; try discriminate H.
  assert (P1 : XI o L 0 s1) by eauto with xi.
  destruct (get s1 c) as [cn| |] eqn:G; cbn [bind] in H; try discriminate H.
  match type of H with bind ?r _ = _ => destruct r as [s2| |] eqn:E2; cbn [bind] in H; try discriminate H end.
  assert (P2 : XI o L 0 s2) by (clear H; mon E2; eauto with xi).
  match type of H with bind ?r _ = _ => destruct r as [s3| |] eqn:E3; cbn [bind] in H; try discriminate H end.
  assert (P3 : XI o L 0 s3) by eauto with xi.
  match type of H with bind ?r _ = _ => destruct r as [s4| |] eqn:E4; cbn [bind] in H; try discriminate H end.
  assert (P4 : XI o L 0 s4) by eauto with xi.
  clear P P1 P2 P3 E1 E2 E3 E4.
  mon H; monall; repeat match goal with p : (_ * _)%type |- _ => destruct p end; cbn [fst snd] in *.
  all: match goal with
       | A : add_line _ _ _ = Ok _ |- _ => solve [eauto 20 with xi]
       | _ => first [ solve [apply XI_st_current; apply XI_slack; eauto 20 with xi] | solve [apply XI_slack; eauto 20 with xi] ]
       end.
Qed.
End handlers2.

(* ================================================================== process_line, run_lines *)
Lemma process_line_W o ex L st line st' : process_line o st line = Ok st' -> W o ex L 1 st -> W o ex (S L) 1 st'.
Proof.
  intros H [V [SVh X]]. split; [eauto with ti | split; [eauto with sv|]].
  unfold process_line in H.
  match type of H with context [check_open_blocks o ?s0 ?l] =>
    assert (X0 : XI o (S L) 0 s0) by (apply (XI_next_line o L); exact X);
    assert (V0 : TI o ex s0) by exact V; assert (S0 : SV s0) by exact SVh end.
  assert (HL : 1 <= S L) by lia.
  mon H; monall; repeat match goal with p : (_ * _)%type |- _ => destruct p end; cbn [fst snd] in *;
  apply XI_st_curline; apply XI_st_last_line_length;
  match goal with C : check_open_blocks _ _ _ = Ok (_, ?s1) |- _ =>
    assert (X1 : XI o (S L) 0 s1) by (eapply check_open_blocks_xi; eassumption);
    assert (V1 : TI o ex s1) by eauto with ti; assert (S1 : SV s1) by eauto with sv end;
  try match goal with C : open_new_blocks _ _ _ _ _ = Ok (_, ?s2) |- _ =>
    pose proof (open_new_blocks_W _ _ _ HL _ _ _ _ _ _ C (conj V1 (conj S1 X1))) as [V2 [S2 X2]] end;
  first [ eapply add_text_to_container_xi; eassumption | apply XI_slack; assumption ].
Qed.

Lemma process_lines_W o ex : forall ls L st st', process_lines o st ls = Ok st' -> W o ex L 1 st -> W o ex (L + List.length ls) 1 st'.
Proof.
  induction ls as [|l r IH]; intros L st st' H P; cbn [process_lines] in H.
  - inversion H; subst. cbn. now rewrite Nat.add_0_r.
  - destruct (process_line o st l) as [s1| |] eqn:E; cbn [bind] in H; try discriminate H.
    cbn [List.length]. rewrite Nat.add_succ_r. change (S (L + List.length r)) with (S L + List.length r).
    eapply IH; [exact H|]. eapply process_line_W; eassumption.
Qed.

Lemma finalize_document_xi o L s st st' : finalize_document o st = Ok st' -> XI o L s st -> XI o L s st'.
Proof.
  unfold finalize_document. intros H P. mon H; monall. repeat match goal with p : (_ * _)%type |- _ => destruct p end. cbn [fst snd] in *.
  eapply finalize_xi; [eassumption|]. eapply finalize_up_to_xi; eassumption.
Qed.

Lemma run_lines_xi o ex L st ls st' : run_lines o st ls = Ok st' -> W o ex L 1 st -> XI o (L + List.length ls) 1 st'.
Proof.
  unfold run_lines. intros H P. mon H. eapply finalize_document_xi; [eassumption|].
  exact (proj2 (proj2 (process_lines_W _ _ _ _ _ _ E P))).
Qed.
