(* Proofs/InlinesTotal4Main.v — C01, inline phase, fourth wave: the totality theorem with the autolink extension ON.

     no_decl_pi inp           executable: behind every `<` of the content there is no `?`, and a `!` only in front of `--`
                              (no processing instruction, declaration or CDATA opener: `<?`, `<!x`, `<![`; comments allowed)
     inlines_total_no_decl_pi every option set, oracle, reference map, memo switch: under the four premises of 1g and
                              no_decl_pi the inline phase of a block answers Ok - all 76 Panic sites unreachable.
     T_statement_refuted      InlinesTotal3Main.inlines_T_statement (TH in EVERY reachable state) is FALSE: url_match
                              does not look at the byte at its position, so in the state behind the autolink of
                              `ftp://a.http //b.c` (next byte SPACE, then slash slash) it answers with rewind 4 while
                              the last sibling is the Link.  (T) is needed - and proved - only at a colon.
   No axioms. *)
From Coq Require Import List NArith ZArith Arith Bool Strings.String Lia.
From V Require Spec.EscapeSpec.
From V Require Import Base.Bytes Base.Res Gen.StrLeafGen Model.Strings Model.Spx Model.Ast Model.AutolinkLeaf Model.Inlines
     Proofs.InlinesProofs Proofs.InlinesTotal2 Proofs.InlinesTotal3Step Proofs.InlinesTotal3Walk Proofs.InlinesTotal3Main
     Proofs.InlinesTotal4Last Proofs.InlinesTotal4Inv Proofs.InlinesTotal4Utf8 Proofs.InlinesTotal4Stop.
Import ListNotations.
Local Open Scope list_scope.

Fixpoint no_decl_pi (l : bytes) : bool :=
  match l with
  | [] => true
  | c :: r =>
    (negb (beqb c x3c)
     || match r with
        | [] => true
        | c1 :: r1 =>
          negb (beqb c1 x3f)
          && (negb (beqb c1 x21) || match r1 with a :: b :: _ => beqb x2d a && beqb x2d b | _ => false end)
        end)
    && no_decl_pi r
  end.

Lemma pointy_easy_cons c r q : pointy_easy r q -> pointy_easy (c :: r) (S q).
Proof.
  intros H x Ex. cbn [nth_error] in Ex. destruct (H x Ex) as [A B]. split; [exact A|].
  intro K. specialize (B K). unfold peek_eq, peek_is, peek in *. cbn [nth_error plus]. exact B.
Qed.

Definition easy (l : bytes) : Prop := forall p, nth_error l p = Some x3c -> pointy_easy l (S p).

Lemma no_decl_pi_easy : forall l, no_decl_pi l = true -> easy l.
Proof.
  induction l as [|c r IH]; intros H p Ep; [destruct p; discriminate Ep|].
  cbn [no_decl_pi] in H. apply andb_true_iff in H. destruct H as [H1 H2].
  destruct p as [|p].
  - cbn [nth_error] in Ep. inversion Ep; subst c. cbn [negb beqb orb] in H1.
    replace (beqb x3c x3c) with true in H1 by reflexivity. cbn [negb orb] in H1.
    intros x Ex. cbn [nth_error] in Ex. destruct r as [|c1 r1]; [discriminate Ex|]. cbn [nth_error] in Ex. inversion Ex; subst x.
    apply andb_true_iff in H1. destruct H1 as [A B]. apply negb_true_iff in A. split; [exact A|].
    intro K. rewrite K in B. cbn [negb orb] in B.
    destruct r1 as [|a [|b r2]]; try discriminate B.
    unfold peek_eq, peek_is, peek. cbn [nth_error plus]. exact B.
  - cbn [nth_error] in Ep. apply pointy_easy_cons. apply IH; assumption.
Qed.

Theorem inlines_total_no_decl_pi memo o u inp lo sl refmap maxref rs0 :
  rtrim_slice inp = inp -> first_line_not_blank inp = true -> line_endings inp < List.length lo -> (rs0 <= maxref)%N ->
  no_decl_pi inp = true ->
  exists ch rs, parse_inlines memo o u inp lo sl refmap maxref rs0 = Ok (ch, rs).
Proof.
  intros Hrt Hfl Hlo Hr He.
  apply (inlines_total_hardok memo o u inp lo sl refmap maxref Hrt Hfl); [|exact Hlo|exact Hr].
  intros p Ep. apply pointy_easy_hard_ok. exact (no_decl_pi_easy _ He p Ep).
Qed.

(* ------------------------------------------------------------------ the corrected full statement
   valid UTF-8 without NUL: the CDATA / declaration / processing-instruction forms end in `>` (InlinesTotal4Stop) *)
Theorem inlines_total_utf8 memo o u inp lo sl refmap maxref rs0 :
  has_nul inp = false -> rtrim_slice inp = inp -> Spec.EscapeSpec.utf8_valid inp = true ->
  first_line_not_blank inp = true -> line_endings inp < List.length lo -> (rs0 <= maxref)%N ->
  exists ch rs, parse_inlines memo o u inp lo sl refmap maxref rs0 = Ok (ch, rs).
Proof.
  intros Hn Hrt Hu Hfl Hlo Hr.
  apply (inlines_total_hardok memo o u inp lo sl refmap maxref Hrt Hfl); [|exact Hlo|exact Hr].
  apply hardok_utf8; assumption.
Qed.

Theorem inlines_total : inlines_total_statement.
Proof. intros o u inp lo sl refmap maxref rs0. apply inlines_total_utf8. Qed.

(* ------------------------------------------------------------------ the statement of the third wave is false *)
(* ftp://a.http //b.c *)
Definition t_input : bytes :=
  [x66; x74; x70; x3a; x2f; x2f; x61; x2e; x68; x74; x74; x70; x20; x2f; x2f; x62; x2e; x63].

Lemma t_premises :
  has_nul t_input = false /\ rtrim_slice t_input = t_input /\ Spec.EscapeSpec.utf8_valid t_input = true
  /\ first_line_not_blank t_input = true /\ line_endings t_input < 1 /\ no_decl_pi t_input = true.
Proof. vm_compute. repeat split; reflexivity. Qed.

Theorem T_statement_refuted : ~ InlinesTotal3Main.inlines_T_statement.
Proof.
  intro HT.
  destruct t_premises as (P1 & P2 & P3 & P4 & P5 & _).
  pose (PI := parse_inline true io_autolink_only oracle_ascii t_input [0%N] 1%N [] 100000%N).
  destruct (PI (init_st 1%N 0%N)) as [[s1|]| |] eqn:E1; try (vm_compute in E1; discriminate E1).
  destruct (PI s1) as [[s2|]| |] eqn:E2;
    try (vm_compute in E1; inversion E1; subst s1; vm_compute in E2; discriminate E2).
  assert (reach true io_autolink_only oracle_ascii t_input [0%N] 1%N [] 100000%N 0%N s2) as R.
  { eapply reach_step; [eapply reach_step; [apply reach_init|exact E1]|exact E2]. }
  specialize (HT true io_autolink_only oracle_ascii t_input [0%N] 1%N [] 100000%N 0%N P1 P2 P3 P4 P5
                 (N.le_0_l _) s2 R).
  vm_compute in E1. inversion E1; subst s1. vm_compute in E2. inversion E2; subst s2.
  unfold TH in HT. specialize (HT eq_refl).
  match type of HT with forall url text nr skip, ?m = _ -> _ =>
    let r := eval vm_compute in m in
    match r with
    | Ok (Some (?a, ?b, ?c, ?d)) => specialize (HT a b c d); vm_compute in HT; specialize (HT eq_refl)
    end
  end.
  destruct HT as (t & Et & _). discriminate Et.
Qed.
