(* Proofs/BlocksSlice.v — C12 for the START of block constructs on the BLOCK PHASE model (Model/Blocks.v), part 2: the
   per-node invariant and its walk through every step of process_line up to add_child and check_open_blocks.

   What the model does (src/parser/mod.rs): every block is created by add_child(parent, value, start_column) with
   start = (line_number, start_column); the handlers of open_new_blocks pass `first_nonspace + 1` (a BYTE offset into the
   current line: a tab is one byte), handle_code_block passes `offset + 1`, add_text_to_container passes
   `first_nonspace + 1` for a Paragraph.  The line is `norm_line line0` where line0 is the slice feed hands to process_line
   (Model/Feed.v `lines`: split at LF / CR LF / CR, every NUL already replaced by U+FFFD) with a final LF appended.

     claimed o v        the values a claim is made for: ThematicBreak, BlockQuote, List, Item, HtmlBlock,
                        FootnoteDefinition, Alert, MultilineBlockQuote, ATX Heading, fenced CodeBlock; Paragraph and setext
                        Heading when the table extension is off (table.rs moves the start LINE of a paragraph and keeps its
                        column)
     byte_ok v ob       what the byte at the start position must be (ob = None: no such byte)
     Sn o ls i          claimed -> the start line is a line of ls and the byte of its normalised form at the start column
                        is byte_ok
     SIL ...            line counter, every node Sn, and the cursor clause G (the cached first_nonspace is behind the
                        offset or points at a byte that is neither space nor tab)
   The start is never written after creation except by table.rs (Paragraph, unclaimed with the extension on), by
   parse_desc_list_details (description lists: assumed off, see Proofs/BlocksSliceRun.v) and for the front matter.
   NO Model file is changed. *)
From Coq Require Import List NArith Arith Bool Lia Strings.String.
From V Require Import Base.Bytes Base.Res Gen.StrLeafGen Gen.FeedConst Gen.Nodes Gen.BlocksConst Model.Ast Model.Strings
  Model.Scan Model.ListMarker Model.Feed Model.FrontMatter Model.RefDef Model.Blocks Proofs.FeedProofs Proofs.BlocksProofs
  Proofs.BlocksPos Proofs.BlocksSliceScan.
Import ListNotations.
Local Open Scope string_scope.
Local Open Scope list_scope.

(* ================================================================== the claim *)
Definition opt_in (P : byte -> bool) (ob : option byte) : bool := match ob with Some b => P b | None => false end.
Definition opt_weak (P : byte -> bool) (ob : option byte) : bool := match ob with Some b => P b | None => true end.
Definition nonblank (b : byte) : bool := negb (is_space_or_tab b) && negb (is_line_end_char b).
Definition fence_ok (cb : node_code_block) (b : byte) : bool := is_fence b && N.eqb (bN b) (cb_fence_char cb).

Definition claimed (o : bopts) (v : node_value) : bool :=
  match v with
  | ThematicBreak | BlockQuote | NList _ | Item _ | HtmlBlock _ _ | FootnoteDefinition _ _ | Alert _
  | MultilineBlockQuote _ _ => true
  | Heading _ setext => negb (setext && bo_table o)
  | CodeBlock cb => cb_fenced cb
  | Paragraph => negb (bo_table o)
  | _ => false
  end.

Definition byte_ok (v : node_value) (ob : option byte) : bool :=
  match v with
  | ThematicBreak => opt_in is_tb ob
  | BlockQuote | Alert _ | MultilineBlockQuote _ _ => opt_in is_gt ob
  | NList nl | Item nl => opt_in (list_byte_ok nl) ob
  | HtmlBlock _ _ => opt_in is_lt ob
  | FootnoteDefinition _ _ => opt_in is_lbracket ob
  | Heading _ setext => if setext then opt_weak nonblank ob else opt_in is_hash ob
  | CodeBlock cb => opt_in (fence_ok cb) ob
  | Paragraph => opt_weak nonblank ob
  | _ => true
  end.

Definition pos_ok (ls : list bytes) (v : node_value) (sl sc : nat) : Prop :=
  exists l0, 1 <= sl /\ 1 <= sc /\ nth_error ls (sl - 1) = Some l0 /\ byte_ok v (nth_error (norm_line l0) (sc - 1)) = true.

Definition Sn (o : bopts) (ls : list bytes) (i : binfo) : Prop :=
  claimed o (bi_val i) = true -> pos_ok ls (bi_val i) (bi_sl i) (bi_sc i).

Lemma Sn_unclaimed o ls i : claimed o (bi_val i) = false -> Sn o ls i.
Proof. unfold Sn. intros E H. rewrite E in H. discriminate H. Qed.

(* another info with the same start and a value with the same claim *)
Lemma Sn_same o ls i i' :
  bi_sl i' = bi_sl i -> bi_sc i' = bi_sc i -> claimed o (bi_val i') = claimed o (bi_val i) ->
  (forall ob, byte_ok (bi_val i') ob = byte_ok (bi_val i) ob) -> Sn o ls i -> Sn o ls i'.
Proof.
  unfold Sn, pos_ok. intros E1 E2 E3 E4 H C. rewrite E3 in C. destruct (H C) as (l0 & A & B & N & K).
  exists l0. rewrite E1, E2, E4. auto.
Qed.

(* ================================================================== the cursor clause *)
Definition fgood (line : bytes) (k : nat) : Prop := forall b, nth_error line k = Some b -> is_space_or_tab b = false.
Definition G (line : bytes) (c : cursor) : Prop := c_fns c <= c_offset c \/ fgood line (c_fns c).
Definition cur_le (c c' : cursor) : Prop := c_fns c' = c_fns c /\ c_offset c <= c_offset c'.

Lemma G_le line c c' : cur_le c c' -> G line c -> G line c'.
Proof. unfold G, cur_le. intros [A B] [H|H]; [left; lia | right; now rewrite A]. Qed.
Lemma cur_le_refl c : cur_le c c. Proof. split; [reflexivity | lia]. Qed.
Lemma cur_le_trans a b c : cur_le a b -> cur_le b c -> cur_le a c.
Proof. unfold cur_le. intros [A B] [C D]. split; [congruence | lia]. Qed.

Lemma advance_loop_ge line columns : forall fuel off col pct count off' col' pct',
  advance_loop fuel line off col pct count columns = Ok (off', col', pct') -> off <= off'.
Proof.
  induction fuel as [|f IH]; intros off col pct count off' col' pct' H; destruct count as [|n]; cbn [advance_loop] in H;
    try (inversion H; subst; lia); try discriminate H.
  destruct (idx _ line off) as [b| |]; cbn [bind] in H; try discriminate H.
  destruct (beqb b x09).
  - destruct columns.
    + apply IH in H. destruct (Nat.ltb (S n) (tab_stop - col mod tab_stop)); lia.
    + apply IH in H. lia.
  - apply IH in H. lia.
Qed.

Lemma advance_offset_le c line n b c' : advance_offset c line n b = Ok c' -> cur_le c c'.
Proof.
  unfold advance_offset. intro H.
  destruct (advance_loop n line (c_offset c) (c_column c) (c_pct c) n b) as [[[off col] pct]| |] eqn:E; cbn [bind] in H; try discriminate H.
  inversion H; subst. apply advance_loop_ge in E. split; [reflexivity | exact E].
Qed.

Lemma fns_loop_ge : forall s fns fnsc ctt, fns <= fst (fns_loop s fns fnsc ctt).
Proof.
  induction s as [|b r IH]; intros fns fnsc ctt; cbn [fns_loop]; [cbn; lia|].
  destruct (beqb b x20); [etransitivity; [|apply IH]; lia|]. destruct (beqb b x09); [etransitivity; [|apply IH]; lia | cbn; lia].
Qed.

Lemma sot_eq' : forall b, is_space_or_tab b = (beqb b x20 || beqb b x09).
Proof. intro b. apply eqb_prop. revert b. apply forall_bytes. vm_compute. reflexivity. Qed.

Lemma fns_loop_stop : forall s fns fnsc ctt b,
  nth_error s (fst (fns_loop s fns fnsc ctt) - fns) = Some b -> is_space_or_tab b = false.
Proof.
  induction s as [|c r IH]; intros fns fnsc ctt b; cbn [fns_loop].
  - destruct (_ - _); discriminate.
  - destruct (beqb c x20) eqn:E1.
    + pose proof (fns_loop_ge r (S fns) (S fnsc) (if Nat.eqb (ctt - 1) 0 then tab_stop else ctt - 1)) as Ge.
      destruct (fst (fns_loop r (S fns) (S fnsc) (if Nat.eqb (ctt - 1) 0 then tab_stop else ctt - 1)) - fns) as [|k] eqn:Ek; [lia|].
      cbn [nth_error]. replace k with (fst (fns_loop r (S fns) (S fnsc) (if Nat.eqb (ctt - 1) 0 then tab_stop else ctt - 1)) - S fns) by lia.
      apply IH.
    + destruct (beqb c x09) eqn:E2.
      * pose proof (fns_loop_ge r (S fns) (fnsc + ctt) tab_stop) as Ge.
        destruct (fst (fns_loop r (S fns) (fnsc + ctt) tab_stop) - fns) as [|k] eqn:Ek; [lia|].
        cbn [nth_error]. replace k with (fst (fns_loop r (S fns) (fnsc + ctt) tab_stop) - S fns) by lia. apply IH.
      * cbn [fst]. rewrite Nat.sub_diag. cbn [nth_error]. intro H. inversion H; subst. rewrite sot_eq', E1, E2. reflexivity.
Qed.

Lemma nth_error_skipn_add' {A} (l : list A) : forall k i, nth_error (skipn k l) i = nth_error l (k + i).
Proof. induction l as [|x r IH]; intros [|k] i; cbn; try reflexivity; [now destruct i | apply IH]. Qed.

(* find_first_nonspace: the new first_nonspace is good, the rest of the cursor is kept, blank reads line[first_nonspace] *)
Lemma find_first_nonspace_spec c line c' : find_first_nonspace c line = Ok c' -> G line c ->
  fgood line (c_fns c') /\ c_offset c' = c_offset c /\
  c_blank c' = match nth_error line (c_fns c') with Some b => is_line_end_char b | None => false end.
Proof.
  unfold find_first_nonspace. intros H Gc.
  destruct (Nat.leb (c_fns c) (c_offset c)) eqn:Le.
  - destruct (fns_loop (skipn (c_offset c) line) (c_offset c) (c_column c) (tab_stop - c_column c mod tab_stop)) as [f fc] eqn:F.
    destruct (sub _ fc (c_column c)); cbn [bind] in H; try discriminate H. inversion H; subst. cbn. split; [|split; reflexivity].
    intros b Hb. pose proof (fns_loop_ge (skipn (c_offset c) line) (c_offset c) (c_column c) (tab_stop - c_column c mod tab_stop)) as Ge.
    pose proof (fns_loop_stop (skipn (c_offset c) line) (c_offset c) (c_column c) (tab_stop - c_column c mod tab_stop) b) as St.
    rewrite F in Ge, St. cbn [fst] in Ge, St. apply St. rewrite nth_error_skipn_add'. replace (c_offset c + (f - c_offset c)) with f by lia. exact Hb.
  - destruct (sub _ (c_fnsc c) (c_column c)); cbn [bind] in H; try discriminate H. inversion H; subst. cbn. split; [|split; reflexivity].
    apply Nat.leb_gt in Le. destruct Gc as [Gc|Gc]; [lia | exact Gc].
Qed.

(* ================================================================== the state invariant *)
Section INV.
Variables (o : bopts) (ls : list bytes).

Definition SIL (L : nat) (line : bytes) (st : pstate) : Prop :=
  ps_line_number st = L /\ all_info (Sn o ls) (ps_root st) /\ G line (ps_cur st).

Variables (L : nat) (line : bytes).
Notation SI := (SIL L line).

Lemma SIL_st_next st n : SI st -> SI (st_next st n). Proof. exact (fun H => H). Qed.
Lemma SIL_st_current st n : SI st -> SI (st_current st n). Proof. exact (fun H => H). Qed.
Lemma SIL_st_refmap st m : SI st -> SI (st_refmap st m). Proof. exact (fun H => H). Qed.
Lemma SIL_st_curline st a b : SI st -> SI (st_curline st a b). Proof. exact (fun H => H). Qed.
Lemma SIL_st_last_line_length st n : SI st -> SI (st_last_line_length st n). Proof. exact (fun H => H). Qed.
Lemma SIL_st_cur st c : cur_le (ps_cur st) c -> SI st -> SI (st_cur st c).
Proof. intros Hc (A & B & C). split; [exact A|]. split; [exact B|]. cbn. eapply G_le; eassumption. Qed.

Lemma get_all_s st id n : SI st -> get st id = Ok n -> all_info (Sn o ls) n.
Proof. intros (_ & A & _) Gt. apply get_find in Gt. exact (find_node_all _ _ _ _ A Gt). Qed.

Lemma get_sn st id n : SI st -> get st id = Ok n -> Sn o ls (binf n).
Proof. intros P Gt. apply all_info_binf. eapply get_all_s; eassumption. Qed.

Lemma modify_sil st id f st' :
  SI st -> modify st id f = Ok st' ->
  (forall n, find_node id (ps_root st) = Some n -> all_info (Sn o ls) n -> all_info (Sn o ls) (f n)) ->
  SI st'.
Proof.
  unfold modify, SIL. intros (E & A & C) M Hf. destruct (upd id f (ps_root st)) as [r|] eqn:U; [|discriminate].
  inversion M; subst. cbn. split; [reflexivity|]. split; [exact (upd_all _ _ _ _ _ A U Hf) | exact C].
Qed.

Lemma modify_info_sil st id f st' :
  modify_info st id f = Ok st' -> (forall i, Sn o ls i -> Sn o ls (f i)) -> SI st -> SI st'.
Proof.
  intros M Hf P. eapply modify_sil; [exact P | exact M |].
  intros n _ An. destruct n as [i ch]. cbn [on_info]. apply all_info_node in An. apply all_info_node.
  split; [apply Hf; apply An | apply An].
Qed.

Lemma modify_info_const_sil st id n i' st' :
  modify_info st id (fun _ => i') = Ok st' -> get st id = Ok n -> (Sn o ls (binf n) -> Sn o ls i') -> SI st -> SI st'.
Proof.
  intros M Gt Hf P. eapply modify_sil; [exact P | exact M |].
  intros m Fm Am. apply get_find in Gt. rewrite Gt in Fm. inversion Fm; subst m.
  destruct n as [i ch]. cbn [on_info binf] in *. apply all_info_node in Am. apply all_info_node.
  split; [apply Hf; apply Am | apply Am].
Qed.

(* modify_info with a function, knowing the node it hits *)
Lemma modify_info_at_sil st id n f st' :
  modify_info st id f = Ok st' -> get st id = Ok n -> (Sn o ls (binf n) -> Sn o ls (f (binf n))) -> SI st -> SI st'.
Proof.
  intros M Gt Hf P. eapply modify_sil; [exact P | exact M |].
  intros m Fm Am. apply get_find in Gt. rewrite Gt in Fm. inversion Fm; subst m.
  destruct n as [i ch]. cbn [on_info binf] in *. apply all_info_node in Am. apply all_info_node.
  split; [apply Hf; apply Am | apply Am].
Qed.

Lemma edit_root_sil st id g r :
  edit_kids id g (ps_root st) = Some r -> SI st ->
  (forall pk pre c post, Forall (all_info (Sn o ls)) (pre ++ c :: post) -> Forall (all_info (Sn o ls)) (g pk pre c post)) ->
  SI (st_root st r).
Proof. intros E (El & A & C) Hg. split; [exact El|]. split; [|exact C]. cbn. eapply edit_kids_all; eassumption. Qed.

Lemma bdetach_sil st id st' : bdetach st id = Ok st' -> SI st -> SI st'.
Proof.
  unfold bdetach. intros D P.
  destruct (edit_kids id (fun _ pre _ post => pre ++ post) (ps_root st)) as [r|] eqn:E.
  - inversion D; subst. eapply edit_root_sil; [exact E | exact P |].
    intros pk pre c post K. apply Forall_app in K. destruct K as [K1 K2]. inversion K2; subst.
    apply Forall_app. split; assumption.
  - now inversion D; subst.
Qed.

Lemma append_child_sil st pid c st' :
  append_child st pid c = Ok st' -> all_info (Sn o ls) c -> SI st -> SI st'.
Proof.
  intros A Ac P. eapply modify_sil; [exact P | exact A |].
  intros n _ An. destruct n as [i ch]. apply all_info_node in An. apply all_info_node. split; [apply An|].
  apply Forall_app. split; [apply An|]. constructor; [exact Ac | constructor].
Qed.

Lemma adv_le st ln n b st' : adv st ln n b = Ok st' ->
  cur_le (ps_cur st) (ps_cur st') /\ st' = st_cur st (ps_cur st').
Proof.
  unfold adv. intro H. destruct (advance_offset (ps_cur st) ln n b) as [c| |] eqn:E; cbn [bind] in H; try discriminate H.
  inversion H; subst. cbn. split; [eapply advance_offset_le; exact E | reflexivity].
Qed.

Lemma adv_sil st ln n b st' : adv st ln n b = Ok st' -> SI st -> SI st'.
Proof. intros H P. destruct (adv_le _ _ _ _ _ H) as [A ->]. now apply SIL_st_cur. Qed.

Lemma adv_fns st ln n b st' : adv st ln n b = Ok st' -> fns st' = fns st.
Proof. intro H. destruct (adv_le _ _ _ _ _ H) as [[A _] _]. exact A. Qed.

End INV.

(* side conditions `forall i, Sn o ls i -> Sn o ls (setter i)` for setters that keep value and start *)
Ltac sn_side :=
  let i := fresh "i" in let H := fresh "H" in
  intros i H; destruct i; unfold Sn in *; cbn in *; try exact H.

Section WALK.
Variables (o : bopts) (ls : list bytes) (L : nat) (line : bytes).
Notation SI := (SIL o ls L line).

Create HintDb sil.
Hint Resolve SIL_st_next SIL_st_current SIL_st_refmap SIL_st_curline SIL_st_last_line_length
  bdetach_sil modify_info_sil adv_sil : sil.
Hint Extern 1 (forall i : binfo, Sn _ _ i -> Sn _ _ _) => sn_side : sil.

Ltac silgo H := mon H; monall; repeat match goal with p : (_ * _)%type |- _ => destruct p end; cbn [fst snd] in *; eauto 20 with sil.

Lemma ffn_sil st ln st' : ffn st ln = Ok st' -> ln = line -> SI st -> SI st'.
Proof.
  unfold ffn. intros H E0 [A [B C]]. subst ln. destruct (find_first_nonspace (ps_cur st) line) as [c| |] eqn:E; cbn [bind] in H; try discriminate H.
  injection H as <-. destruct (find_first_nonspace_spec _ _ _ E C) as (F & _). split; [exact A|]. split; [exact B|]. right. exact F.
Qed.

(* ================================================================== finalize *)
Lemma retighten_sil st p st' : retighten st p = Ok st' -> SI st -> SI st'.
Proof.
  unfold retighten. intros H P. destruct p as [item|]; [|inversion H; subst; exact P].
  destruct (parent_of item (ps_root st)) as [lid|]; [|inversion H; subst; exact P].
  destruct (get st lid) as [l| |] eqn:Gt; cbn [bind] in H; try discriminate H.
  destruct (bi_open (binf l)); [inversion H; subst; exact P|].
  destruct (bval l) eqn:Bv; try (inversion H; subst; exact P).
  eapply modify_info_at_sil; [exact H | exact Gt | | exact P].
  destruct l as [i ch]. unfold bval in Bv. cbn [binf] in *. apply Sn_same; destruct i; cbn in *; subst; reflexivity.
Qed.
Hint Resolve retighten_sil : sil.

Lemma finalize_sil st id p st' : finalize o st id = Ok (p, st') -> SI st -> SI st'.
Proof.
  intros F P. unfold finalize in F.
  mstep F. pose proof (get_sn _ _ _ _ _ _ _ P E) as Pa.
  mstep F; [discriminate F|].
  mstep F.
  destruct (bi_val (binf a)) eqn:Ev; mon F;
  repeat first [ apply SIL_st_refmap
               | (eapply retighten_sil; [eassumption|])
               | (eapply bdetach_sil; [eassumption|])
               | (eapply modify_info_const_sil; [eassumption | exact E | | exact P];
                  apply Sn_same; destruct a as [ia cha]; destruct ia; cbn in *; subst; reflexivity) ].
Qed.
Hint Resolve finalize_sil : sil.

Lemma unwrap_parent_fin_sil site st id p st' :
  unwrap_parent site (finalize o st id) = Ok (p, st') -> SI st -> SI st'.
Proof.
  unfold unwrap_parent. intros H P.
  destruct (finalize o st id) as [[op s1]| |] eqn:E; cbn [bind fst snd] in H; try discriminate H.
  destruct op; inversion H; subst. eapply finalize_sil; eassumption.
Qed.
Hint Resolve unwrap_parent_fin_sil : sil.

(* ================================================================== add_child *)
Lemma add_child_loop_sil k : forall fuel st parent p' st',
  add_child_loop fuel o st parent k = Ok (p', st') -> SI st -> SI st'.
Proof.
  induction fuel as [|f IH]; intros st parent p' st' H P; [discriminate|].
  cbn [add_child_loop] in H.
  destruct (get st parent) as [pn| |] eqn:Gt; cbn [bind] in H; try discriminate H.
  destruct (can_contain (bkind pn) k).
  - inversion H; subst. exact P.
  - match type of H with bind ?r _ = _ => destruct r as [[q s1]| |] eqn:U; cbn [bind fst snd] in H; try discriminate H end.
    eapply IH; [exact H|]. eapply unwrap_parent_fin_sil; eassumption.
Qed.

Lemma add_child_gen_sil st parent v col post kids id st' :
  add_child_gen o st parent v col post kids = Ok (id, st') ->
  (forall id', Sn o ls (post (new_info id' v L col))) -> Forall (all_info (Sn o ls)) kids ->
  SI st -> SI st'.
Proof.
  unfold add_child_gen. intros H Hp Hk P.
  match type of H with bind ?r _ = _ => destruct r as [[p' s1]| |] eqn:E; cbn [bind] in H; try discriminate H end.
  pose proof (add_child_loop_sil _ _ _ _ _ _ E P) as P1.
  mon H. eapply append_child_sil; [eassumption | | apply SIL_st_next; exact P1].
  apply all_info_node. split; [|exact Hk]. rewrite (proj1 P1). apply Hp.
Qed.

(* the start of a block created on the current line *)
Lemma add_child_sil st parent v col id st' :
  add_child o st parent v col = Ok (id, st') -> (claimed o v = true -> pos_ok ls v L col) -> SI st -> SI st'.
Proof.
  unfold add_child. intros H Hc P. eapply add_child_gen_sil; [exact H | | constructor | exact P].
  intros id'. unfold Sn. cbn [new_info bi_val bi_sl bi_sc]. exact Hc.
Qed.

(* ================================================================== check_open_blocks *)
Lemma skip_one_space_sil st site st' : skip_one_space st line site = Ok st' -> SI st -> SI st'.
Proof. unfold skip_one_space. intros H P. silgo H. Qed.
Hint Resolve skip_one_space_sil : sil.

Lemma parse_block_quote_prefix_sil st b st' : parse_block_quote_prefix o st line = Ok (b, st') -> SI st -> SI st'.
Proof. unfold parse_block_quote_prefix. intros H P. silgo H. Qed.
Hint Resolve parse_block_quote_prefix_sil : sil.

Lemma parse_footnote_prefix_sil st b st' : parse_footnote_definition_block_prefix st line = Ok (b, st') -> SI st -> SI st'.
Proof. unfold parse_footnote_definition_block_prefix. intros H P. silgo H. Qed.
Hint Resolve parse_footnote_prefix_sil : sil.

Lemma parse_item_prefix_sil st c mo pad b st' : parse_item_prefix st line c mo pad = Ok (b, st') -> SI st -> SI st'.
Proof. unfold parse_item_prefix. intros H P. silgo H. Qed.
Hint Resolve parse_item_prefix_sil : sil.

Lemma skip_fence_offset_sil site : forall i st st', skip_fence_offset i st line site = Ok st' -> SI st -> SI st'.
Proof. induction i as [|j IH]; intros st st' H P; cbn [skip_fence_offset] in H; silgo H. Qed.
Hint Resolve skip_fence_offset_sil : sil.

Lemma parse_code_block_prefix_sil st c cb a b st' :
  parse_code_block_prefix o st line c cb = Ok (a, b, st') -> SI st -> SI st'.
Proof. unfold parse_code_block_prefix. intros H P. silgo H. Qed.
Hint Resolve parse_code_block_prefix_sil : sil.

Lemma parse_mbq_prefix_sil st c fl fo a b st' :
  parse_multiline_block_quote_prefix o st line c fl fo = Ok (a, b, st') -> SI st -> SI st'.
Proof. unfold parse_multiline_block_quote_prefix. intros H P. silgo H. Qed.
Hint Resolve parse_mbq_prefix_sil : sil.

Lemma check_container_sil st c a b st' : check_container o st line c = Ok (a, b, st') -> SI st -> SI st'.
Proof. unfold check_container. intros H P. destruct (bval c); silgo H. Qed.
Hint Resolve check_container_sil : sil.

Lemma check_open_blocks_inner_sil : forall fuel st container a c b st',
  check_open_blocks_inner fuel o st line container = Ok (a, c, b, st') -> SI st -> SI st'.
Proof.
  induction fuel as [|f IH]; intros st container a c b st' H P; cbn [check_open_blocks_inner] in H; [discriminate|].
  mon H; monall; repeat match goal with p : (_ * _)%type |- _ => destruct p end; cbn [fst snd] in *;
  try match goal with F : ffn st line = Ok ?s |- _ => assert (SI s) by (eapply ffn_sil; [exact F | reflexivity | exact P]) end;
  eauto 20 with sil.
Qed.
Hint Resolve check_open_blocks_inner_sil : sil.

Lemma check_open_blocks_sil st r st' : check_open_blocks o st line = Ok (r, st') -> SI st -> SI st'.
Proof. unfold check_open_blocks. intros H P. silgo H. Qed.

Lemma clear_llb_up_sil : forall fuel st id st', clear_llb_up fuel st id = Ok st' -> SI st -> SI st'.
Proof. induction fuel as [|f IH]; intros st id st' H P; cbn [clear_llb_up] in H; silgo H. Qed.

Lemma finalize_up_to_sil target site : forall fuel st st', finalize_up_to fuel o st target site = Ok st' -> SI st -> SI st'.
Proof. induction fuel as [|f IH]; intros st st' H P; cbn [finalize_up_to] in H; silgo H. Qed.

End WALK.
