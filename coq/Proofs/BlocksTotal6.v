(* Proofs/BlocksTotal6.v — totality of the block phase, sixth round: the walks of this round intersected with the
   result of the fifth (parse_blocks o x is Ok or a Panic at one of the 35 sites of BlocksTotal5Only.rem_sites).

     BlocksTotal6Pos.parse_blocks_no_pos_panic     9 sites excluded by the position invariant (1 <= start line / column
                                                   of every node, line counter >= 1 inside process_line) and by the
                                                   facts about what table.rs `row` answers (BlocksTotal6Row.row_facts)

     BlocksTotal6ValWalk.parse_blocks_no_val_panic 4 sites: 3 excluded by the stored-value invariant of BlocksTotal6Val.v
                                                   (html block type 1..7, NUL-free paragraph content, line_offsets),
                                                   1 local (chop_trailing_hashtags: line[n])

   rem_sites6 = what remains, for EVERY input byte string and EVERY option set. *)
From Coq Require Import List NArith Arith Bool Lia Strings.String.
From V Require Import Base.Bytes Base.Res Model.Blocks Proofs.BlocksTotal4Safe.
From V Require Proofs.BlocksTotal5Only Proofs.BlocksTotal6Pos Proofs.BlocksTotal6ValWalk.
Import ListNotations.
Local Open Scope string_scope.
Local Open Scope list_scope.

(* the sites excluded in this round *)
Definition excluded6 : list string := BlocksTotal6Pos.pos_sites ++ BlocksTotal6ValWalk.val_sites.

Definition rem_sites6 : list string := filter (fun s => negb (inl excluded6 s)) BlocksTotal5Only.rem_sites.

Theorem parse_blocks_no_panic6 o x s : In s excluded6 -> parse_blocks o x <> Panic s.
Proof.
  intro H. apply in_app_or in H. destruct H as [H|H];
    [exact (BlocksTotal6Pos.parse_blocks_no_pos_panic o x s H) | exact (BlocksTotal6ValWalk.parse_blocks_no_val_panic o x s H)].
Qed.

Theorem parse_blocks_ok_or_rem6 o x :
  (exists r, parse_blocks o x = Ok r) \/ (exists s, parse_blocks o x = Panic s /\ In s rem_sites6).
Proof.
  destruct (BlocksTotal5Only.parse_blocks_ok_or_rem o x) as [H|[s [E I]]]; [now left|]. right. exists s. split; [exact E|].
  unfold rem_sites6. apply filter_In. split; [exact I|].
  destruct (inl excluded6 s) eqn:X; [|reflexivity]. apply inl_in in X. exfalso. exact (parse_blocks_no_panic6 o x s X E).
Qed.
