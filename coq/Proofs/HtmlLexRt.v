(* Proofs/HtmlLexRt.v — the strict lexer of Spec/HtmlSpec.v (Part B) inverts the serialiser of
   Model/Html.v: for every lexable event list, html_lex (ser evs) = Some (toks_of evs), where
   toks_of is the event list as the lexer sees it (one token per tag / placeholder, maximal runs of
   text merged).  Then the token predicates follow from the event predicates.
   Part 1: pieces, merge, toks_of, printing.
   Part 2: canonical token lists and the lexer theorem  html_lex (print ts) = Some ts.
   Part 3: lexable events give canonical tokens; safe events are lexable.
   Part 4: tok_nest / tok_safe / drop_sp_attr over toks_of.
   Part 5: a lexability theorem for the renderer's events beyond the safe case. *)
From Coq Require Import List NArith Bool Lia Strings.String.
From V Require Import Base.Bytes Base.Res Gen.Scanners Model.Escape Model.Ast Model.Html
  Spec.EscapeSpec Spec.HtmlSpec Proofs.EscapeProofs Proofs.HtmlSafe Proofs.HtmlSp.
Import ListNotations.
Local Open Scope string_scope.
Local Open Scope list_scope.

(* ------------------------------------------------------------------ Part 1 *)
(* an event list, chunk by chunk, as tokens and text pieces; mirrors ser_chunks *)
Inductive piece := PTok (k : tok) | PTxt (b : bytes).

Definition tok_attr (a : attr) : bytes * option bytes :=
  match a with
  | Attr n v => (n, Some (flat_map ser_part v))
  | BAttr n => (n, None)
  | SpAttr sp => (sp_name, Some (ser_sp sp))
  end.

Definition piece_of (e : ev) : piece :=
  match e with
  | Open t a => PTok (TOpen t (map tok_attr a))
  | Void t a => PTok (TVoid t (map tok_attr a))
  | Close t => PTok (TClose t)
  | Cmt => PTok TCmt
  | Txt b => PTxt (escape_spec b)
  | Lit b => PTxt b
  | RawHtml b => PTxt b
  | Cr => PTxt []
  end.

Fixpoint pieces (last_lf : bool) (evs : list ev) : list piece :=
  match evs with
  | [] => []
  | Cr :: r => if last_lf then pieces last_lf r else PTxt [x0a] :: pieces true r
  | e :: r => piece_of e :: pieces (ends_lf last_lf (ser_ev e)) r
  end.

Definition flush (pend : bytes) : list tok :=
  match pend with [] => [] | _ => [TText pend] end.

(* maximal runs of text pieces become one TText; empty text gives no token *)
Fixpoint merge (pend : bytes) (ps : list piece) : list tok :=
  match ps with
  | [] => flush pend
  | PTxt b :: r => merge (pend ++ b) r
  | PTok k :: r => flush pend ++ k :: merge [] r
  end.

Definition toks_of (evs : list ev) : list tok := merge [] (pieces true evs).

Definition piece_bytes (p : piece) : bytes :=
  match p with PTok k => tok_bytes k | PTxt b => b end.

Lemma tok_attr_bytes_ser a : tok_attr_bytes (tok_attr a) = ser_attr a.
Proof. destruct a; reflexivity. Qed.

Lemma flat_map_map {A B C} (f : A -> B) (g : B -> list C) l :
  flat_map g (map f l) = flat_map (fun x => g (f x)) l.
Proof. induction l as [|x l IH]; [reflexivity|]. cbn [map flat_map]. rewrite IH. reflexivity. Qed.

Lemma tok_attrs_bytes_ser a : flat_map tok_attr_bytes (map tok_attr a) = flat_map ser_attr a.
Proof.
  rewrite flat_map_map. apply flat_map_ext. intro x. apply tok_attr_bytes_ser.
Qed.

Lemma piece_of_bytes e : piece_bytes (piece_of e) = ser_ev e.
Proof.
  destruct e; cbn [piece_of piece_bytes tok_bytes ser_ev]; rewrite ?tok_attrs_bytes_ser; reflexivity.
Qed.

Lemma pieces_bytes : forall evs l,
  flat_map piece_bytes (pieces l evs) = List.concat (ser_chunks l evs).
Proof.
  induction evs as [|e r IH]; intro l; [reflexivity|].
  destruct e; cbn [pieces ser_chunks];
    try (cbn [flat_map List.concat]; rewrite IH, piece_of_bytes; reflexivity).
  destruct l; [apply IH|]. cbn [flat_map List.concat piece_bytes]. rewrite IH. reflexivity.
Qed.

Lemma flush_bytes pend : flat_map tok_bytes (flush pend) = pend.
Proof. destruct pend; [reflexivity|]. cbn [flush flat_map tok_bytes]. apply app_nil_r. Qed.

Lemma merge_bytes : forall ps pend,
  flat_map tok_bytes (merge pend ps) = pend ++ flat_map piece_bytes ps.
Proof.
  induction ps as [|p r IH]; intro pend; cbn [merge flat_map].
  - rewrite flush_bytes, app_nil_r. reflexivity.
  - destruct p as [k|b]; cbn [piece_bytes].
    + rewrite flat_map_app, flush_bytes. cbn [flat_map]. rewrite IH. reflexivity.
    + rewrite IH, app_assoc. reflexivity.
Qed.

(* printing lemma: the tokens of an event list print back to its serialisation *)
Lemma toks_of_print evs : flat_map tok_bytes (toks_of evs) = ser evs.
Proof. unfold toks_of, ser. rewrite merge_bytes. apply pieces_bytes. Qed.

(* ------------------------------------------------------------------ Part 2 *)
Definition notlt (b : byte) : bool := negb (beqb b x3c).

Definition tagname_ok (t : bytes) : bool :=
  match t with [] => false | _ => forallb tag_byte t end.
Definition attrname_ok (n : bytes) : bool :=
  match n with [] => false | _ => forallb attrname_byte n end.

Definition tattr_lex (a : bytes * option bytes) : bool :=
  attrname_ok (fst a) &&
  match snd a with None => true | Some v => forallb no_active_byte v end.

(* tokens the lexer can produce from a tag or the placeholder *)
Definition tok_lex (k : tok) : bool :=
  match k with
  | TOpen t a => tagname_ok t && forallb tattr_lex a
  | TVoid t a => tagname_ok t && forallb tattr_lex a
  | TClose t => tagname_ok t
  | TText _ => false
  | TCmt => true
  end.

(* canonical token lists: text tokens non-empty, free of LT, never adjacent *)
Fixpoint canon (ts : list tok) : bool :=
  match ts with
  | [] => true
  | TText b :: r =>
    (match b with [] => false | _ => true end) && forallb notlt b &&
    (match r with TText _ :: _ => false | _ => true end) && canon r
  | k :: r => tok_lex k && canon r
  end.

Lemma span_app (p : byte -> bool) : forall a t,
  forallb p a = true -> (match t with [] => true | y :: _ => negb (p y) end) = true ->
  span p (a ++ t) = (a, t).
Proof.
  induction a as [|x a IH]; intros t Ha Ht.
  - destruct t as [|y t]; [reflexivity|]. cbn [app span]. apply negb_true_iff in Ht. rewrite Ht. reflexivity.
  - cbn [forallb] in Ha. apply andb_true_iff in Ha. destruct Ha as [Hx Ha].
    cbn [app span]. rewrite Hx, (IH t Ha Ht). reflexivity.
Qed.

Lemma lex_value_app : forall v t,
  forallb no_active_byte v = true -> lex_value (v ++ x22 :: t) = Some (v, t).
Proof.
  induction v as [|x v IH]; intros t H.
  - reflexivity.
  - cbn [forallb] in H. apply andb_true_iff in H. destruct H as [Hx Hv].
    cbn [app lex_value]. rewrite (IH t Hv).
    unfold no_active_byte in Hx. apply negb_true_iff in Hx.
    apply orb_false_iff in Hx. destruct Hx as [Hx Hq]. rewrite Hq, Hx. reflexivity.
Qed.

(* byte facts used to step through the lexer *)
Lemma attrname_byte_facts : forall b,
  implb (attrname_byte b) (negb (beqb b x2f) && negb (beqb b x3d) && negb (beqb b x20) && negb (beqb b x3e)) = true.
Proof. apply forall_bytes. vm_compute. reflexivity. Qed.

Lemma tag_byte_facts : forall b,
  implb (tag_byte b) (negb (beqb b x2f) && negb (beqb b x21) && negb (beqb b x20) && negb (beqb b x3e)) = true.
Proof. apply forall_bytes. vm_compute. reflexivity. Qed.
Lemma attrname_facts b : attrname_byte b = true ->
  beqb b x2f = false /\ beqb b x3d = false /\ beqb b x20 = false /\ beqb b x3e = false.
Proof.
  intro H. pose proof (attrname_byte_facts b) as F. rewrite H in F. cbn [implb] in F.
  repeat (apply andb_true_iff in F; destruct F as [F ?]).
  repeat split; apply negb_true_iff; assumption.
Qed.

Lemma lta_val f n v more acc :
  attrname_ok n = true -> forallb no_active_byte v = true ->
  lex_tag_attrs (S f) (x20 :: n ++ x3d :: x22 :: v ++ x22 :: more) acc =
  lex_tag_attrs f more ((n, Some v) :: acc).
Proof.
  intros Hn Hv. destruct n as [|n0 n']; [discriminate Hn|]. cbn [attrname_ok] in Hn.
  pose proof Hn as Hn'. cbn [forallb] in Hn'. apply andb_true_iff in Hn'. destruct Hn' as [H0 _].
  destruct (attrname_facts _ H0) as (A & B & C & D).
  cbn [lex_tag_attrs app].
  change (beqb x20 x3e) with false. change (beqb x20 x20) with true. cbv iota. rewrite A.
  change (n0 :: n' ++ ?z) with ((n0 :: n') ++ z).
  rewrite (span_app attrname_byte (n0 :: n') (x3d :: x22 :: v ++ x22 :: more) Hn eq_refl).
  change (beqb x3d x3d) with true. change (beqb x22 x22) with true. cbv iota.
  rewrite (lex_value_app v more Hv). reflexivity.
Qed.

(* valueless attribute: what follows is another attribute, the end of the tag, or SP SLASH GT *)
Lemma lta_bare f n c more acc :
  attrname_ok n = true -> (beqb c x20 || beqb c x3e) = true ->
  lex_tag_attrs (S f) (x20 :: n ++ c :: more) acc =
  lex_tag_attrs f (c :: more) ((n, None) :: acc).
Proof.
  intros Hn Hc. destruct n as [|n0 n']; [discriminate Hn|]. cbn [attrname_ok] in Hn.
  pose proof Hn as Hn'. cbn [forallb] in Hn'. apply andb_true_iff in Hn'. destruct Hn' as [H0 _].
  destruct (attrname_facts _ H0) as (A & B & C & D).
  assert (attrname_byte c = false /\ beqb c x3d = false) as [Hc1 Hc2].
  { apply orb_true_iff in Hc. destruct Hc as [Hc|Hc]; apply beqb_eq in Hc; subst c; split; reflexivity. }
  cbn [lex_tag_attrs app].
  change (beqb x20 x3e) with false. change (beqb x20 x20) with true. cbv iota. rewrite A.
  change (n0 :: n' ++ ?z) with ((n0 :: n') ++ z).
  rewrite (span_app attrname_byte (n0 :: n') (c :: more) Hn).
  2:{ rewrite Hc1. reflexivity. }
  rewrite Hc2. destruct more; reflexivity.
Qed.

Lemma lta_end f more acc : lex_tag_attrs (S f) (x3e :: more) acc = Some (rev acc, false, more).
Proof. reflexivity. Qed.

Lemma lta_void_end f more acc :
  lex_tag_attrs (S f) (x20 :: x2f :: x3e :: more) acc = Some (rev acc, true, more).
Proof. reflexivity. Qed.

(* the two ways a tag ends *)
Definition tag_end (void : bool) : bytes := if void then [x20; x2f; x3e] else [x3e].

Lemma lta_attrs void rest : forall a fuel acc,
  forallb tattr_lex a = true -> List.length a < fuel ->
  lex_tag_attrs fuel (flat_map tok_attr_bytes a ++ tag_end void ++ rest) acc =
  Some (rev acc ++ a, void, rest).
Proof.
  induction a as [|[n v] a IH]; intros fuel acc Ha Hf.
  - destruct fuel as [|f]; [inversion Hf|]. rewrite app_nil_r. destruct void; reflexivity.
  - destruct fuel as [|f]; [inversion Hf|]. cbn [List.length] in Hf.
    cbn [forallb] in Ha. apply andb_true_iff in Ha. destruct Ha as [Hx Ha].
    unfold tattr_lex in Hx. cbn [fst snd] in Hx. apply andb_true_iff in Hx. destruct Hx as [Hn Hv].
    cbn [flat_map]. destruct v as [v|]; cbn [tok_attr_bytes].
    + rewrite <- !app_assoc. cbn [app]. rewrite <- ?app_assoc. cbn [app].
      rewrite (lta_val f n v _ acc Hn Hv).
      rewrite IH by (try assumption; lia). cbn [rev]. rewrite <- app_assoc. reflexivity.
    + rewrite <- !app_assoc. cbn [app].
      assert (exists c more, flat_map tok_attr_bytes a ++ tag_end void ++ rest = c :: more /\
                             (beqb c x20 || beqb c x3e) = true) as (c & more & E & Hc).
      { destruct a as [|[n2 [v2|]] a2]; cbn [flat_map tok_attr_bytes app].
        - destruct void; cbn [tag_end app]; eexists; eexists; split; reflexivity.
        - eexists; eexists; split; reflexivity.
        - eexists; eexists; split; reflexivity. }
      rewrite E, (lta_bare f n c more acc Hn Hc), <- E.
      rewrite IH by (try assumption; lia). cbn [rev]. rewrite <- app_assoc. reflexivity.
Qed.

Lemma tag_facts b : tag_byte b = true ->
  beqb b x2f = false /\ beqb b x21 = false /\ beqb b x20 = false /\ beqb b x3e = false.
Proof.
  intro H. pose proof (tag_byte_facts b) as F. rewrite H in F. cbn [implb] in F.
  repeat (apply andb_true_iff in F; destruct F as [F ?]).
  repeat split; apply negb_true_iff; assumption.
Qed.

Lemma attrs_end_head a void rest :
  exists c more, flat_map tok_attr_bytes a ++ tag_end void ++ rest = c :: more /\
                 (beqb c x20 || beqb c x3e) = true.
Proof.
  destruct a as [|[n2 [v2|]] a2]; cbn [flat_map tok_attr_bytes app].
  - destruct void; cbn [tag_end app]; eexists; eexists; split; reflexivity.
  - eexists; eexists; split; reflexivity.
  - eexists; eexists; split; reflexivity.
Qed.

Lemma attrs_bytes_length a : List.length a <= List.length (flat_map tok_attr_bytes a).
Proof.
  induction a as [|[n [v|]] a IH]; [apply le_n| |]; cbn [flat_map tok_attr_bytes];
    rewrite !app_length; cbn [List.length]; lia.
Qed.

Lemma go_cmt f rest acc : html_lex_go (S f) (omitted ++ rest) acc = html_lex_go f rest (TCmt :: acc).
Proof. reflexivity. Qed.

Lemma go_close f t rest acc : tagname_ok t = true ->
  html_lex_go (S f) (x3c :: x2f :: t ++ x3e :: rest) acc = html_lex_go f rest (TClose t :: acc).
Proof.
  intro Ht. destruct t as [|t0 t']; [discriminate Ht|]. cbn [tagname_ok] in Ht.
  cbn [html_lex_go].
  change (beqb x3c x3c) with true. cbv iota.
  change (starts_with (x3c :: x2f :: ?z) omitted) with false. cbv iota.
  change (beqb x2f x2f) with true. cbv iota.
  rewrite (span_app tag_byte (t0 :: t') (x3e :: rest) Ht eq_refl).
  reflexivity.
Qed.

Lemma go_tag f t a void rest acc :
  tagname_ok t = true -> forallb tattr_lex a = true ->
  html_lex_go (S f) (x3c :: t ++ flat_map tok_attr_bytes a ++ tag_end void ++ rest) acc =
  html_lex_go f rest ((if void then TVoid t a else TOpen t a) :: acc).
Proof.
  intros Ht Ha. destruct t as [|t0 t']; [discriminate Ht|]. cbn [tagname_ok] in Ht.
  pose proof Ht as Ht'. cbn [forallb] in Ht'. apply andb_true_iff in Ht'. destruct Ht' as [H0 _].
  destruct (tag_facts _ H0) as (A & B & C & D).
  destruct (attrs_end_head a void rest) as (c & more & E & Hc).
  assert (tag_byte c = false) as Hc1.
  { apply orb_true_iff in Hc. destruct Hc as [Hc|Hc]; apply beqb_eq in Hc; subst c; reflexivity. }
  cbn [html_lex_go app].
  change (beqb x3c x3c) with true. cbv iota.
  unfold omitted at 1. cbn [starts_with]. rewrite B. cbn [andb]. rewrite A.
  change (t0 :: t' ++ ?z) with ((t0 :: t') ++ z).
  rewrite E, (span_app tag_byte (t0 :: t') (c :: more) Ht) by (rewrite Hc1; reflexivity).
  rewrite <- E.
  rewrite (lta_attrs void rest a _ [] Ha).
  2:{ rewrite app_length. pose proof (attrs_bytes_length a). lia. }
  reflexivity.
Qed.

Lemma go_text f b rest acc :
  (match b with [] => false | _ => true end) = true -> forallb notlt b = true ->
  (match rest with [] => true | y :: _ => beqb y x3c end) = true ->
  html_lex_go (S f) (b ++ rest) acc = html_lex_go f rest (TText b :: acc).
Proof.
  intros Hne Hb Hr. destruct b as [|b0 b']; [discriminate Hne|].
  pose proof Hb as Hb'. cbn [forallb] in Hb'. apply andb_true_iff in Hb'. destruct Hb' as [H0 _].
  unfold notlt in H0. apply negb_true_iff in H0.
  cbn [html_lex_go app]. rewrite H0.
  change (b0 :: b' ++ rest) with ((b0 :: b') ++ rest).
  rewrite (span_app (fun x => negb (beqb x x3c)) (b0 :: b') rest Hb).
  - reflexivity.
  - destruct rest as [|y r]; [reflexivity|]. rewrite Hr. reflexivity.
Qed.

Lemma tok_bytes_lt k : tok_lex k = true -> exists r, tok_bytes k = x3c :: r.
Proof. destruct k; try discriminate; intros _; eexists; reflexivity. Qed.

Lemma canon_tail_head k r : canon (k :: r) = true ->
  (match k with TText _ => match r with TText _ :: _ => false | _ => true end | _ => true end) = true ->
  canon r = true /\
  (match k with
   | TText _ => (match flat_map tok_bytes r with [] => true | y :: _ => beqb y x3c end) = true
   | _ => True end).
Proof.
  intros H _. destruct k; cbn [canon] in H; try (apply andb_true_iff in H; destruct H as [_ H]; split; [exact H|exact I]).
  repeat (apply andb_true_iff in H; destruct H as [H ?]). split; [assumption|].
  destruct r as [|k2 r2]; [reflexivity|].
  destruct k2; try discriminate; cbn [canon] in *;
    match goal with Hc : _ && canon r2 = true |- _ => apply andb_true_iff in Hc; destruct Hc as [Hc _];
      destruct (tok_bytes_lt _ Hc) as [z Ez]; cbn [flat_map]; rewrite Ez; reflexivity end.
Qed.

(* the lexer inverts the printer on canonical token lists *)
Lemma html_lex_go_print : forall ts fuel acc,
  canon ts = true -> List.length (flat_map tok_bytes ts) < fuel ->
  html_lex_go fuel (flat_map tok_bytes ts) acc = Some (rev acc ++ ts).
Proof.
  induction ts as [|k r IH]; intros fuel acc Hc Hf; (destruct fuel as [|f]; [inversion Hf|]).
  - cbn [flat_map html_lex_go]. rewrite app_nil_r. reflexivity.
  - cbn [flat_map] in *. rewrite app_length in Hf.
    destruct (canon_tail_head k r Hc) as [Hr Hh].
    { destruct k; try reflexivity. cbn [canon] in Hc.
      repeat (apply andb_true_iff in Hc; destruct Hc as [Hc ?]). assumption. }
    assert (forall acc', List.length (flat_map tok_bytes r) < f ->
            html_lex_go f (flat_map tok_bytes r) (k :: acc') = Some (rev acc' ++ k :: r)) as Step.
    { intros acc' L. rewrite (IH f (k :: acc') Hr L). cbn [rev]. rewrite <- app_assoc. reflexivity. }
    destruct k as [t a|t a|t|b|]; cbn [canon tok_lex] in Hc.
    + apply andb_true_iff in Hc. destruct Hc as [Hk _]. apply andb_true_iff in Hk. destruct Hk as [Ht Ha].
      cbn [tok_bytes] in *. rewrite <- !app_assoc. cbn [app].
      refine (eq_trans (go_tag f t a false (flat_map tok_bytes r) acc Ht Ha) _). apply Step.
      cbn [List.length app] in Hf. lia.
    + apply andb_true_iff in Hc. destruct Hc as [Hk _]. apply andb_true_iff in Hk. destruct Hk as [Ht Ha].
      cbn [tok_bytes] in *. rewrite <- !app_assoc. cbn [app].
      refine (eq_trans (go_tag f t a true (flat_map tok_bytes r) acc Ht Ha) _). apply Step.
      cbn [List.length app] in Hf. lia.
    + apply andb_true_iff in Hc. destruct Hc as [Ht _].
      cbn [tok_bytes] in *. rewrite <- !app_assoc. cbn [app].
      rewrite (go_close f t _ acc Ht). apply Step.
      cbn [List.length app] in Hf. lia.
    + repeat (apply andb_true_iff in Hc; destruct Hc as [Hc ?]).
      cbn [tok_bytes] in *.
      rewrite (go_text f b _ acc) by assumption. apply Step.
      destruct b; [discriminate|]. cbn [List.length] in Hf. lia.
    + cbn [tok_bytes] in *. rewrite go_cmt. apply Step.
      unfold omitted in Hf. cbn [List.length] in Hf. lia.
Qed.

Theorem html_lex_print ts : canon ts = true -> html_lex (flat_map tok_bytes ts) = Some ts.
Proof. intro H. unfold html_lex. rewrite html_lex_go_print by (try assumption; apply le_n). reflexivity. Qed.

(* ------------------------------------------------------------------ Part 3 *)
(* lexability of events: names are names, values written as is carry no QUOTE LT GT, text written
   as is carries no LT.  (Escaped text and escaped values need no condition.) *)
Definition part_lex (p : part) : bool :=
  match p with
  | PEsc _ => true
  | PHref _ => true
  | PConst b => forallb no_active_byte b
  | PPre b => forallb no_active_byte b
  end.

Definition attr_lex (a : attr) : bool :=
  match a with
  | Attr n v => attrname_ok n && forallb part_lex v
  | BAttr n => attrname_ok n
  | SpAttr _ => true
  end.

Definition lex_ev (e : ev) : bool :=
  match e with
  | Open t a => tagname_ok t && forallb attr_lex a
  | Void t a => tagname_ok t && forallb attr_lex a
  | Close t => tagname_ok t
  | Txt _ => true
  | Lit b => forallb notlt b
  | RawHtml b => forallb notlt b
  | Cmt => true
  | Cr => true
  end.

Definition lexable (evs : list ev) : bool := forallb lex_ev evs.

Definition piece_lex (p : piece) : bool :=
  match p with PTok k => tok_lex k | PTxt b => forallb notlt b end.

Lemma forallb_flat_map {A} (P : byte -> bool) (f : A -> bytes) l :
  (forall x, In x l -> forallb P (f x) = true) -> forallb P (flat_map f l) = true.
Proof.
  induction l as [|x l IH]; intro H; [reflexivity|].
  cbn [flat_map]. rewrite forallb_app, H, IH; [reflexivity| |left; reflexivity].
  intros y Hy. apply H. right. exact Hy.
Qed.

Lemma forallb_impl {A} (P Q : A -> bool) l :
  (forall x, P x = true -> Q x = true) -> forallb P l = true -> forallb Q l = true.
Proof.
  intros I H. rewrite forallb_forall in *. intros x Hx. apply I, H, Hx.
Qed.

Lemma href1_no_active : forall b, forallb no_active_byte (href1_spec b) = true.
Proof. apply forall_bytes. vm_compute. reflexivity. Qed.

Lemma href_no_active s : forallb no_active_byte (escape_href_spec s) = true.
Proof. unfold escape_href_spec. apply forallb_flat_map. intros x _. apply href1_no_active. Qed.

Lemma no_active_notlt : forall b, implb (no_active_byte b) (notlt b) = true.
Proof. apply forall_bytes. vm_compute. reflexivity. Qed.
Lemma inert_no_active : forall b, implb (inert_byte b) (no_active_byte b) = true.
Proof. apply forall_bytes. vm_compute. reflexivity. Qed.
Lemma digit_no_active : forall b, implb (is_digit b) (no_active_byte b) = true.
Proof. apply forall_bytes. vm_compute. reflexivity. Qed.

Lemma implb_use (p q : bool) : implb p q = true -> p = true -> q = true.
Proof. destruct p, q; auto. Qed.

Lemma no_active_notlt_l l : forallb no_active_byte l = true -> forallb notlt l = true.
Proof. apply forallb_impl. intro x. apply implb_use, no_active_notlt. Qed.
Lemma inert_no_active_l l : forallb inert_byte l = true -> forallb no_active_byte l = true.
Proof. apply forallb_impl. intro x. apply implb_use, inert_no_active. Qed.

Lemma dec_no_active n : forallb no_active_byte (dec n) = true.
Proof. apply (forallb_impl is_digit); [intro x; apply implb_use, digit_no_active | apply dec_digits]. Qed.

Lemma ser_sp_no_active sp : forallb no_active_byte (ser_sp sp) = true.
Proof. unfold ser_sp. rewrite !forallb_app, !dec_no_active. reflexivity. Qed.

Lemma ser_part_no_active p : part_lex p = true -> forallb no_active_byte (ser_part p) = true.
Proof.
  destruct p; cbn [part_lex ser_part]; intro H; try exact H.
  - apply escape_no_active.
  - apply href_no_active.
Qed.

Lemma tok_attr_lex a : attr_lex a = true -> tattr_lex (tok_attr a) = true.
Proof.
  destruct a as [n v|n|sp]; cbn [attr_lex tok_attr]; unfold tattr_lex; cbn [fst snd]; intro H.
  - apply andb_true_iff in H. destruct H as [Hn Hv]. rewrite Hn. cbn [andb].
    apply forallb_flat_map. intros p Hp. apply ser_part_no_active.
    rewrite forallb_forall in Hv. apply Hv, Hp.
  - rewrite H. reflexivity.
  - rewrite ser_sp_no_active. reflexivity.
Qed.

Lemma tok_attrs_lex a : forallb attr_lex a = true -> forallb tattr_lex (map tok_attr a) = true.
Proof.
  intro H. rewrite forallb_forall in *. intros x Hx. apply in_map_iff in Hx.
  destruct Hx as (y & <- & Hy). apply tok_attr_lex, H, Hy.
Qed.

Lemma piece_of_lex e : lex_ev e = true -> piece_lex (piece_of e) = true.
Proof.
  destruct e; cbn [lex_ev piece_of piece_lex tok_lex]; intro H; try exact H; try reflexivity.
  - apply andb_true_iff in H. destruct H as [Ht Ha]. rewrite Ht, (tok_attrs_lex _ Ha). reflexivity.
  - apply andb_true_iff in H. destruct H as [Ht Ha]. rewrite Ht, (tok_attrs_lex _ Ha). reflexivity.
  - apply no_active_notlt_l, escape_no_active.
Qed.

Lemma pieces_lex : forall evs l, lexable evs = true -> forallb piece_lex (pieces l evs) = true.
Proof.
  unfold lexable. induction evs as [|e r IH]; intros l H; [reflexivity|].
  cbn [forallb] in H. apply andb_true_iff in H. destruct H as [He Hr].
  destruct e; cbn [pieces]; try (cbn [forallb]; rewrite (piece_of_lex _ He), IH by exact Hr; reflexivity).
  destruct l; [apply IH, Hr|]. cbn [forallb piece_lex]. rewrite IH by exact Hr. reflexivity.
Qed.

Lemma tok_lex_not_text k : tok_lex k = true -> match k with TText _ => False | _ => True end.
Proof. destruct k; try discriminate; intros _; exact I. Qed.

Lemma canon_flush pend : forallb notlt pend = true -> canon (flush pend) = true.
Proof. destruct pend; [reflexivity|]. intro H. cbn [flush canon]. rewrite H. reflexivity. Qed.

Lemma canon_text_cons b k r :
  canon (TText b :: k :: r) =
  (match b with [] => false | _ => true end) && forallb notlt b &&
  (match k with TText _ => false | _ => true end) && canon (k :: r).
Proof. reflexivity. Qed.

Lemma canon_merge : forall ps pend,
  forallb notlt pend = true -> forallb piece_lex ps = true -> canon (merge pend ps) = true.
Proof.
  induction ps as [|p r IH]; intros pend Hp H; cbn [merge].
  - apply canon_flush, Hp.
  - cbn [forallb] in H. apply andb_true_iff in H. destruct H as [Hk Hr].
    destruct p as [k|b]; cbn [piece_lex] in Hk.
    + assert (canon (k :: merge [] r) = true) as Ck.
      { pose proof (IH [] eq_refl Hr) as C. destruct k; try discriminate Hk; cbn [canon]; rewrite Hk, C; reflexivity. }
      destruct pend as [|p0 pend']; [exact Ck|].
      cbn [flush app]. rewrite canon_text_cons, Hp, Ck. destruct k; try discriminate Hk; reflexivity.
    + apply IH; [|exact Hr]. rewrite forallb_app, Hp, Hk. reflexivity.
Qed.

Lemma canon_toks_of evs : lexable evs = true -> canon (toks_of evs) = true.
Proof. intro H. apply canon_merge; [reflexivity | apply pieces_lex, H]. Qed.

(* MAIN: the lexer inverts the serialiser on lexable event lists *)
Theorem html_lex_ser : forall evs, lexable evs = true -> html_lex (ser evs) = Some (toks_of evs).
Proof. intros evs H. rewrite <- toks_of_print. apply html_lex_print, canon_toks_of, H. Qed.

Corollary relex_identity_ser evs : lexable evs = true -> relex_identity (ser evs) = true.
Proof.
  intro H. unfold relex_identity. rewrite (html_lex_ser _ H), toks_of_print. apply bytes_eqb_eq. reflexivity.
Qed.
